#!/usr/bin/env python3
"""Resolves merge conflicts in lean/AxVerif.lean (a flat list of imports): keep every import line once."""
import sys
p='/verif/lean/AxVerif.lean'
lines=[x for x in open(p).read().split('\n') if not x.startswith(('<<<<<<<','=======','>>>>>>>'))]
seen=[]
for x in lines:
    if x.strip()=='' or x not in seen: seen.append(x)
open(p,'w').write('\n'.join(seen).rstrip('\n')+'\n')
