#!/usr/bin/env python3
"""Rewrites commit ids in a known_findings.d file from a builder branch's ids to /repo main's ids (matched by subject)."""
import subprocess, sys, re
branch, files = sys.argv[1], sys.argv[2:]
def log(ref):
    out = subprocess.run(["git","-C","/repo","log","--format=%h\t%s",ref],capture_output=True,text=True).stdout
    return [l.split("\t",1) for l in out.splitlines() if "\t" in l]
main = {}
for h,s in log("main"): main.setdefault(s,h)
m = {}
for h,s in log(branch):
    if s in main and main[s] != h: m[h] = main[s]
for f in files:
    t = open(f).read()
    for a,b in m.items(): t = t.replace(a,b)
    open(f,"w").write(t)
print(len(m),"ids remapped")
