#!/usr/bin/env python3
"""Rewrites the block between <!-- STATUS-BEGIN --> and <!-- STATUS-END --> in DESIGN.md from evidence/, cfg/, known_findings*."""
import json, glob, os, re, subprocess, sys
ROOT = os.path.dirname(os.path.abspath(__file__))
sys.path.insert(0, ROOT)
from checkcfg import PROPS  # noqa
props = [json.loads(l) for l in open(os.path.join(ROOT, "properties.jsonl")) if l.strip()]
title = {p["id"]: p.get("title", p.get("name", "")) for p in props}
find = {}
for f in sorted(glob.glob(os.path.join(ROOT, "known_findings.d", "*.json"))) + [os.path.join(ROOT, "known_findings.json")]:
    if not os.path.exists(f):
        continue
    d = json.load(open(f))
    for e in d.get("findings", d if isinstance(d, list) else []):
        find.setdefault(e["property"], []).append(e)
rows = []
tot_thm = 0
for pid in sorted(PROPS):
    ev = {}
    try:
        ev = json.load(open(os.path.join(ROOT, "evidence", pid + ".json")))
    except Exception:
        pass
    cov = ev.get("coverage", {})
    thm = cov.get("obligations", "?")
    if isinstance(thm, int):
        tot_thm += thm
    cases = cov.get("evaluations", "?")
    fs = find.get(pid, [])
    open_ = [e for e in fs if e["status"] == "finding"]
    fixed = [e for e in fs if e["status"] == "fixed"]
    names = sorted({(e.get("flag") or "/".join(e.get("region", [])) or e["id"]) for e in open_ if "witness" not in e["id"]})
    rows.append(f"| {pid} | {title.get(pid,'')[:58]} | {', '.join(PROPS[pid]['engines'])} | {thm} | {cases} | {len(fixed)} | {', '.join(names) if names else '—'} |")
nfix = subprocess.run(["git", "-C", "/repo", "log", "--oneline"], capture_output=True, text=True).stdout.splitlines()
fixes = [l for l in nfix if re.match(r"^[0-9a-f]+ fix:", l)]
hooks = [l for l in nfix if "verif hooks" in l]
block = ["<!-- STATUS-BEGIN -->",
         f"**All twenty properties are claimed** (MANIFEST.json: 20 checks, nothing under not_applicable). {tot_thm} theorems are audited "
         f"(`#print axioms` ⊆ propext, Classical.choice, Quot.sound) across the twenty `Thm/Cnn.lean` files. /repo main carries "
         f"{len(fixes)} `fix:` commits (each with the pinned suite at 645 passed) and {len(hooks)} `verif hooks` commits (feature `verif`).",
         "",
         "| property | title | engines | theorems | cases per quick run | defects repaired (listed as fixed) | findings that remain (flags / regions of the check) |",
         "|---|---|---|---|---|---|---|"] + rows + ["<!-- STATUS-END -->"]
p = os.path.join(ROOT, "DESIGN.md")
s = open(p).read()
if "<!-- STATUS-BEGIN -->" in s:
    s = re.sub(r"<!-- STATUS-BEGIN -->.*?<!-- STATUS-END -->", lambda m: "\n".join(block), s, flags=re.S)
else:
    sys.exit("markers missing")
open(p, "w").write(s)
print("status block written:", len(rows), "rows,", tot_thm, "theorems,", len(fixes), "fixes")
