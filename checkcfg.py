"""Per-property and per-engine configuration of ./check (kept apart from the driver logic)."""

ENGINES = {
    # engine -> options.  spec_is_oracle: any gating difference between implementation and Lean spec is by itself a
    # failure of the property (the spec *is* the property's oracle).  prop_failure(case, impl, spec): engine-specific
    # rule telling a property failure from a mere correspondence difference.  op_sep: separator for shrinking.
    "wire": {
        "jobs": 8,
        # a decoder that accepts what the proved decoder rejects, or the other way round, breaks C20's
        # "received exactly as sent / garbage is answered with a protocol error"
        "prop_failure": lambda case, impl, spec: (impl.startswith("ok ") != spec.startswith("ok "))
        and case.split(" ")[0] in ("req", "resp", "frame"),
    },
}

PROPS = {
    "C20": {
        "engines": ["wire"],
        "lean_modules": ["AxVerif.Model.Wire", "AxVerif.Model.Bytes", "AxVerif.Lemmas.Wire", "AxVerif.Lemmas.Bytes"],
        "rule": "cases = well-formed Request/Response values of every variant (encode bytes + decode∘encode), byte strings "
                "(random, any-opcode, lossy strings, Rows with chosen counts, mutated valid encodings) through both decoders, "
                "frames around the 16 MiB cap; all derived from VERIF_SEED. Non-trivial = every case except plain short "
                "write_message calls; distinct = distinct case line.",
        "assumptions": [
            "strings are modelled as UTF-8 byte lists; from_utf8_lossy is modelled by `lossy` (maximal-subpart replacement) and tied by the `bytes-string-lossy` cases",
            "a zero-column Rows message may announce up to 2^32 empty rows; it is a valid (enormous) message and is kept out of generation",
            "query_result_to_response (server binary) is covered only by the WfResp hypothesis, not executed",
        ],
        "partial": "",
        "trusted": ["child processes run under RLIMIT_AS = 4 GiB; an allocation beyond it is observed as `abort`"],
    },
}
