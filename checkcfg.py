"""Loads the per-property configuration files cfg/Cnn.py (PROP, ENGINES, TEXT) used by ./check and tools_manifest.py."""
import importlib.util, os

ROOT = os.path.dirname(os.path.abspath(__file__))
PROPS, ENGINES, TEXT = {}, {}, {}
for fn in sorted(os.listdir(os.path.join(ROOT, "cfg"))):
    if not fn.endswith(".py"):
        continue
    spec = importlib.util.spec_from_file_location("cfg_" + fn[:-3], os.path.join(ROOT, "cfg", fn))
    m = importlib.util.module_from_spec(spec)
    spec.loader.exec_module(m)
    pid = fn[:-3]
    if hasattr(m, "PROP"):
        PROPS[pid] = m.PROP
        TEXT[pid] = m.TEXT
    ENGINES.update(getattr(m, "ENGINES", {}))
