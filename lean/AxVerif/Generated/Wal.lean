/- REGENERATED on every run by `axh extract` from values evaluated out of /repo. Do not edit. -/
import AxVerif.Model.Wal
namespace AxVerif.Generated

def walParams : AxVerif.Wal.Params :=
  { blockSize := 40960, blockHdr := 64, zeroHdr := 128, recHdr := 80, align := 8,
    maxRecord := 40896, freshZeroAvail := 40704, freshBlockAvail := 40832, freshTotalBlocks := 1 }

/-- `WAL_BLOCK_SIZE` before rounding up to the file-system block size -/
def walBlockSizeConst : Nat := 40960

/-- `OwnedRecord::compute_padded_size(n)` for n = 0..15 -/
def walPaddedSizes : List Nat := [0, 8, 8, 8, 8, 8, 8, 8, 8, 16, 16, 16, 16, 16, 16, 16]

end AxVerif.Generated
