/- REGENERATED on every run by `axh extract` from values evaluated out of /repo. Do not edit. -/
import AxVerif.Model.Parser
namespace AxVerif.Generated

def parseTable : AxVerif.Parser.Table :=
  { or_ := (1, 2), and_ := (3, 4), eq := (5, 6), neq := (5, 6), lt := (5, 6), gt := (5, 6), le := (5, 6), ge := (5, 6),
    like := (5, 6), in_ := (5, 6), between := (5, 6), is_ := (5, 6), plus := (7, 8), minus := (7, 8),
    star := (9, 10), slash := (9, 10), percent := (9, 10), concat := (7, 8),
    notIn := some (5, 6), notBetween := some (5, 6), notLike := some (5, 6), notOther := none,
    comma := none, rparen := none,
    prefixNot := 5, prefixMinus := 11, prefixPlus := 11, betweenBound := 5 }

end AxVerif.Generated
