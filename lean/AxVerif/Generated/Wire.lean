/- REGENERATED on every run by `axh extract` from values evaluated out of /repo. Do not edit. -/
import AxVerif.Model.Wire
namespace AxVerif.Generated

def wireParams : AxVerif.Wire.Params := { protocolVersion := 1, maxMessageSize := 16777216 }

end AxVerif.Generated
