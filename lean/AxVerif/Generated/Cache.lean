/- REGENERATED on every run by `axh extract` from values evaluated out of /repo. Do not edit. -/
namespace AxVerif.Generated

/-- MIN_PAGE_SIZE, MAX_PAGE_SIZE, DEFAULT_CACHE_SIZE, and page size / min keys / siblings of `DBConfig::default()` -/
def cacheConsts : List Nat := [4096, 65536, 10000, 4096, 3, 2]

end AxVerif.Generated
