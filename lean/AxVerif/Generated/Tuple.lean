/- REGENERATED on every run by `axh extract` from values evaluated out of /repo. Do not edit. -/
import AxVerif.Model.Tuple
namespace AxVerif.Generated

def tupleParams : AxVerif.Tuple.Params :=
  { hdrSize := 24,
    hdrAlign := 8,
    hdrXminOff := 0,
    hdrXmaxOff := 8,
    hdrVerOff := 16,
    dhSize := 16,
    dhAlign := 8,
    dhXminOff := 0,
    dhVerOff := 8,
    cellAlign := 8,
    boolSize := 1,
    boolAlign := 1,
    intSize := 4,
    intAlign := 4,
    bigintSize := 8,
    bigintAlign := 8,
    uintSize := 4,
    uintAlign := 4,
    biguintSize := 8,
    biguintAlign := 8,
    floatSize := 4,
    floatAlign := 4,
    doubleSize := 8,
    doubleAlign := 8,
    blobSize := 0,
    blobAlign := 1 }

end AxVerif.Generated
