/- REGENERATED on every run by `axh extract` from values evaluated out of /repo. Do not edit. -/
import AxVerif.Model.Value
namespace AxVerif.Generated

def valueParams : AxVerif.Value.Params :=
  { maxVarintLen := 10
    kinds := [("null", 0, none, 1, false), ("bool", 1, some 1, 1, false), ("int", 2, some 4, 4, true), ("bigint", 3, some 8, 8, true), ("uint", 4, some 4, 4, true), ("biguint", 5, some 8, 8, true), ("float", 6, some 4, 4, true), ("double", 7, some 8, 8, true), ("blob", 8, none, 1, false)]
    keysOffset1 := 25
    castOk := [(0, 0), (0, 1), (0, 2), (0, 3), (0, 4), (0, 5), (0, 6), (0, 7), (0, 8), (1, 1), (1, 2), (1, 3), (1, 4), (1, 5), (1, 6), (1, 7), (2, 1), (2, 2), (2, 3), (2, 4), (2, 5), (2, 6), (2, 7), (3, 1), (3, 2), (3, 3), (3, 4), (3, 5), (3, 6), (3, 7), (4, 1), (4, 2), (4, 3), (4, 4), (4, 5), (4, 6), (4, 7), (5, 1), (5, 2), (5, 3), (5, 4), (5, 5), (5, 6), (5, 7), (6, 1), (6, 2), (6, 3), (6, 4), (6, 5), (6, 6), (6, 7), (7, 1), (7, 2), (7, 3), (7, 4), (7, 5), (7, 6), (7, 7), (8, 8)] }

end AxVerif.Generated
