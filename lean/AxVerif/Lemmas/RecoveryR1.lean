/- Lemmas about protocol rule R1 (acknowledge only after a covering force). -/
import AxVerif.Lemmas.Recovery
namespace AxVerif.Recovery
open AxVerif AxVerif.Durable

theorem counts_props (es : List Ev) : (counts es).1 ≤ (counts es).2 ∧ (counts es).2 = (appended es).length := by
  refine snoc_induction (P := fun es => (counts es).1 ≤ (counts es).2 ∧ (counts es).2 = (appended es).length) ?_ ?_ es
  · simp [counts, appended]
  · intro es e ih
    rw [counts_snoc, appended_snoc]
    cases e <;> simp [countStep, evRecs] <;> omega

theorem durable_eq (es : List Ev) : durable es = (appended es).take (counts es).1 := by
  simp [durable, durableCount_eq]

/-- An append, or an acknowledgement, does not change what is durable. -/
theorem durable_snoc_append (es : List Ev) (r : Rec) : durable (es ++ [Ev.append r]) = durable es := by
  rw [durable_eq, durable_eq, counts_snoc, appended_snoc]
  simp only [countStep, evRecs]
  have := (counts_props es)
  rw [List.take_append_of_le_length (by omega)]

theorem durable_snoc_ack (es : List Ev) (t : Nat) : durable (es ++ [Ev.ack t]) = durable es := by
  rw [durable_eq, durable_eq, counts_snoc, appended_snoc]
  simp [countStep, evRecs]

/-- A force or a checkpoint makes everything appended so far durable. -/
theorem durable_snoc_force (es : List Ev) : durable (es ++ [Ev.force]) = appended es := by
  rw [durable_eq, counts_snoc, appended_snoc]
  simp only [countStep, evRecs, List.append_nil]
  rw [(counts_props es).2, List.take_length]

theorem durable_snoc_checkpoint (es : List Ev) : durable (es ++ [Ev.checkpoint]) = appended es := by
  rw [durable_eq, counts_snoc, appended_snoc]
  simp only [countStep, evRecs, List.append_nil]
  rw [(counts_props es).2, List.take_length]

theorem durable_subset_appended (es : List Ev) : ∀ r ∈ durable es, r ∈ appended es := by
  intro r hr
  rw [durable_eq] at hr
  exact List.mem_of_mem_take hr

def r1Fold (es : List Ev) : R1State × Bool := es.foldl r1Step ({ pending := [], safe := [] }, true)

theorem checkR1_eq (es : List Ev) : checkR1 es = (r1Fold es).2 := rfl

theorem r1Fold_snoc (es : List Ev) (e : Ev) : r1Fold (es ++ [e]) = r1Step (r1Fold es) e := by
  simp [r1Fold, List.foldl_append]

/-- once the flag is down it stays down -/
theorem r1_false_stays (es : List Ev) (st : R1State) : (es.foldl r1Step (st, false)).2 = false := by
  induction es generalizing st with
  | nil => rfl
  | cons e es ih =>
    simp only [List.foldl_cons]
    cases e with
    | append r => cases r <;> simp only [r1Step] <;> exact ih _
    | force => simp only [r1Step]; exact ih _
    | checkpoint => simp only [r1Step]; exact ih _
    | ack t => simp only [r1Step, Bool.false_and]; exact ih _

theorem checkR1_prefix (a b : List Ev) (h : checkR1 (a ++ b) = true) : checkR1 a = true := by
  rw [checkR1_eq] at *
  simp only [r1Fold, List.foldl_append] at h
  cases hfa : a.foldl r1Step ({ pending := [], safe := [] }, true) with
  | mk st ok =>
    rw [hfa] at h
    cases ok with
    | true => simp [r1Fold, hfa]
    | false => rw [r1_false_stays] at h; cases h

structure R1Inv (es : List Ev) : Prop where
  safe : ∀ t ∈ (r1Fold es).1.safe, Rec.commit t ∈ durable es
  pend : ∀ t ∈ (r1Fold es).1.pending, Rec.commit t ∈ appended es
  acks : (r1Fold es).2 = true → ∀ t, Ev.ack t ∈ es → Rec.commit t ∈ durable es

theorem r1Inv (es : List Ev) : R1Inv es := by
  refine snoc_induction (P := R1Inv) ?_ ?_ es
  · constructor <;> simp [r1Fold]
  · intro es e ih
    obtain ⟨hs, hp, ha⟩ := ih
    cases e with
    | append r =>
      have hd := durable_snoc_append es r
      cases r with
      | commit t =>
        constructor
        · rw [r1Fold_snoc, hd]; simpa [r1Step] using hs
        · rw [r1Fold_snoc, appended_snoc]
          simp only [r1Step, evRecs, List.mem_cons, List.mem_append, List.mem_singleton]
          intro t' ht'
          rcases ht' with h | h
          · subst h; exact Or.inr (Or.inl rfl)
          · exact Or.inl (hp t' h)
        · rw [r1Fold_snoc, hd]
          simp only [r1Step]
          intro hok t' ht'
          have : Ev.ack t' ∈ es := by simpa using ht'
          exact ha hok t' this
      | op t d =>
        constructor
        · rw [r1Fold_snoc, hd]; simpa [r1Step] using hs
        · rw [r1Fold_snoc, appended_snoc]
          simp only [r1Step, evRecs, List.mem_append]
          intro t' ht'; exact Or.inl (hp t' ht')
        · rw [r1Fold_snoc, hd]
          simp only [r1Step]
          intro hok t' ht'
          have : Ev.ack t' ∈ es := by simpa using ht'
          exact ha hok t' this
      | abort t =>
        constructor
        · rw [r1Fold_snoc, hd]; simpa [r1Step] using hs
        · rw [r1Fold_snoc, appended_snoc]
          simp only [r1Step, evRecs, List.mem_append]
          intro t' ht'; exact Or.inl (hp t' ht')
        · rw [r1Fold_snoc, hd]
          simp only [r1Step]
          intro hok t' ht'
          have : Ev.ack t' ∈ es := by simpa using ht'
          exact ha hok t' this
    | force =>
      have hd := durable_snoc_force es
      constructor
      · rw [r1Fold_snoc, hd]
        simp only [r1Step, List.mem_append]
        intro t' ht'
        rcases ht' with h | h
        · exact hp t' h
        · exact durable_subset_appended es _ (hs t' h)
      · rw [r1Fold_snoc]; simp [r1Step]
      · rw [r1Fold_snoc, hd]
        simp only [r1Step]
        intro hok t' ht'
        have : Ev.ack t' ∈ es := by simpa using ht'
        exact durable_subset_appended es _ (ha hok t' this)
    | checkpoint =>
      have hd := durable_snoc_checkpoint es
      constructor
      · rw [r1Fold_snoc, hd]
        simp only [r1Step, List.mem_append]
        intro t' ht'
        rcases ht' with h | h
        · exact hp t' h
        · exact durable_subset_appended es _ (hs t' h)
      · rw [r1Fold_snoc]; simp [r1Step]
      · rw [r1Fold_snoc, hd]
        simp only [r1Step]
        intro hok t' ht'
        have : Ev.ack t' ∈ es := by simpa using ht'
        exact durable_subset_appended es _ (ha hok t' this)
    | ack t =>
      have hd := durable_snoc_ack es t
      constructor
      · rw [r1Fold_snoc, hd]; simpa [r1Step] using hs
      · rw [r1Fold_snoc, appended_snoc]; simpa [r1Step, evRecs] using hp
      · rw [r1Fold_snoc, hd]
        simp only [r1Step, Bool.and_eq_true]
        intro hok t' ht'
        rcases List.mem_append.mp ht' with h | h
        · exact ha hok.1 t' h
        · have : t' = t := by simpa using h
          subst this
          have hc : (r1Fold es).1.safe.contains t' = true := hok.2
          exact hs t' (by simpa using hc)

/-- A COMMIT record that nothing of the same transaction follows makes the transaction a winner. -/
theorem isWinner_of_commit_mem {rs : List Rec} {t : Nat} (hw : WfRecs rs) (h : Rec.commit t ∈ rs) :
    isWinner rs t = true := by
  obtain ⟨a, b, rfl⟩ := List.append_of_mem h
  have hb : ∀ r ∈ b, r.tid ≠ t := by
    intro r hr e
    have hp := (List.pairwise_append.mp hw).2.2
    have hcons := (List.pairwise_append.mp hw).2.1
    have := (List.pairwise_cons.mp hcons).1 r hr
    exact this ⟨rfl, by rw [e]; rfl⟩
  have : a ++ Rec.commit t :: b = (a ++ [Rec.commit t]) ++ b := by simp
  rw [this, isWinner_append_right hb]
  simp [isWinner, List.foldl_append, winnerStep]

theorem wf_take {rs : List Rec} (n : Nat) (h : WfRecs rs) : WfRecs (rs.take n) :=
  List.Pairwise.sublist (List.take_sublist n rs) h

end AxVerif.Recovery
