/-
  Lemmas for C17: the reader returns the concatenation of the blocks in the file; the invariant `Inv` tying the
  log's state (block zero, queue, current block, file) to the abstract specification `Spec` (appended list +
  forced prefix) and its preservation by every operation of the model with all defects off.
-/
import AxVerif.Model.Wal
import AxVerif.Lemmas.Bytes
namespace AxVerif.Wal
open AxVerif

/-- `used_bytes` is the sum of the sizes of the records in the block -/
def BlockOk (P : Params) (b : Block) : Prop := b.used = (b.recs.map (recSize P)).sum

theorem recSize_pos (P : Params) (h : 0 < P.recHdr) (r : Rec) : 0 < recSize P r := by
  unfold recSize; omega

theorem walk_all (P : Params) (h : 0 < P.recHdr) (rs : List Rec) (off : Nat) :
    walk P (off + (rs.map (recSize P)).sum) off rs = rs := by
  induction rs generalizing off with
  | nil => rfl
  | cons r rs ih =>
    have hp := recSize_pos P h r
    simp only [walk, List.map_cons, List.sum_cons]
    have : ¬ (off ≥ off + (recSize P r + (rs.map (recSize P)).sum)) := by omega
    simp only [this, if_false]
    have e : off + (recSize P r + (rs.map (recSize P)).sum) = (off + recSize P r) + (rs.map (recSize P)).sum := by omega
    rw [e, ih]

theorem recsOf_ok (P : Params) (h : 0 < P.recHdr) (b : Block) (hb : BlockOk P b) : recsOf P b = b.recs := by
  unfold recsOf
  rw [hb]
  have := walk_all P h b.recs 0
  simpa using this

theorem loadBlocks_eq (blocks : List Block) (c pos : Nat) (hp : pos ≤ blocks.length) :
    loadBlocks blocks blocks.length c pos = .ok ((blocks.drop pos).take c, min (pos + c) blocks.length) := by
  induction c generalizing pos with
  | zero => simp [loadBlocks, Nat.min_eq_left hp]
  | succ c ih =>
    unfold loadBlocks
    by_cases hge : pos ≥ blocks.length
    · have : pos = blocks.length := by omega
      subst this
      simp
    · simp only [hge, if_false]
      have hlt : pos < blocks.length := by omega
      rw [List.getElem?_eq_getElem hlt]
      simp only
      rw [ih (pos + 1) (by omega)]
      simp only
      have : blocks.drop pos = blocks[pos] :: blocks.drop (pos + 1) := by
        exact List.drop_eq_getElem_cons hlt
      rw [this, List.take_succ_cons]
      congr 2
      omega

theorem drop_min (blocks : List Block) (a : Nat) :
    blocks.drop (min a blocks.length) = blocks.drop a := by
  by_cases h : a ≤ blocks.length
  · rw [Nat.min_eq_left h]
  · rw [Nat.min_eq_right (by omega), List.drop_length, List.drop_eq_nil_of_le (by omega)]

theorem drain_eq (P : Params) (blocks : List Block) (k : Nat) (hk : 0 < k) (fuel : Nat) (q : List Block) (pos : Nat)
    (hp : pos ≤ blocks.length) (hf : blocks.length - pos < fuel) :
    drain P blocks blocks.length k fuel q pos =
      .ok (q.flatMap (recsOf P) ++ (blocks.drop pos).flatMap (recsOf P)) := by
  induction fuel generalizing q pos with
  | zero => omega
  | succ fuel ih =>
    unfold drain
    by_cases hge : pos ≥ blocks.length
    · have : pos = blocks.length := by omega
      subst this
      simp
    · simp only [hge, if_false]
      rw [loadBlocks_eq blocks k pos hp]
      simp only
      have hlt : pos < blocks.length := by omega
      have hne : ((blocks.drop pos).take k).isEmpty = false := by
        have : 0 < ((blocks.drop pos).take k).length := by
          simp only [List.length_take, List.length_drop]; omega
        cases hq : (blocks.drop pos).take k with
        | nil => rw [hq] at this; simp at this
        | cons a l => rfl
      simp only [hne, Bool.false_eq_true, if_false]
      rw [ih _ _ (Nat.min_le_right _ _) (by omega)]
      simp only
      rw [drop_min, ← List.drop_drop]
      have e : (blocks.drop pos).flatMap (recsOf P) =
          ((blocks.drop pos).take k).flatMap (recsOf P) ++ ((blocks.drop pos).drop k).flatMap (recsOf P) := by
        rw [← List.flatMap_append, List.take_append_drop]
      rw [e]

/-! ### block numbering and what a force writes -/

/-- the blocks carry the consecutive numbers `a, a+1, …` -/
def consec : Nat → List Block → Prop
  | _, [] => True
  | a, b :: l => b.num = a ∧ consec (a + 1) l

theorem consec_append (a : Nat) (l1 l2 : List Block) :
    consec a (l1 ++ l2) ↔ consec a l1 ∧ consec (a + l1.length) l2 := by
  induction l1 generalizing a with
  | nil => simp [consec]
  | cons b l ih =>
    simp only [List.cons_append, consec, ih, List.length_cons]
    have : a + 1 + l.length = a + (l.length + 1) := by omega
    rw [this, and_assoc]

theorem writeAt_le (bs : List Block) (i : Nat) (b : Block) (h : i ≤ bs.length) :
    writeAt bs i b = bs.take i ++ b :: bs.drop (i + 1) := by
  unfold writeAt
  by_cases hlt : i < bs.length
  · simp only [hlt, if_true]
    rw [List.set_eq_take_append_cons_drop]; simp only [hlt, if_true]
  · have : i = bs.length := by omega
    subst this
    simp

theorem writeAll_consec (l bs : List Block) (m : Nat) (hc : consec (m + 1) l) (h1 : m ≤ bs.length)
    (h2 : bs.length ≤ m + l.length) : l.foldl writeNum bs = bs.take m ++ l := by
  induction l generalizing bs m with
  | nil =>
    simp only [List.length_nil, Nat.add_zero] at h2
    have : m = bs.length := by omega
    subst this
    simp
  | cons b l ih =>
    obtain ⟨hn, hc'⟩ := hc
    simp only [List.foldl_cons]
    have hw : writeNum bs b = writeAt bs m b := by simp [writeNum, hn]
    rw [hw, writeAt_le bs m b h1]
    have hlen : (bs.take m ++ b :: bs.drop (m + 1)).length = max (m + 1) bs.length := by
      simp only [List.length_append, List.length_take, List.length_cons, List.length_drop]; omega
    simp only [List.length_cons] at h2
    rw [ih _ (m + 1) hc' (by rw [hlen]; omega) (by rw [hlen]; omega)]
    have : (bs.take m ++ b :: bs.drop (m + 1)).take (m + 1) = bs.take m ++ [b] := by
      rw [List.take_append]
      simp only [List.length_take, Nat.min_eq_left h1]
      have : m + 1 - m = 1 := by omega
      rw [this, List.take_of_length_le (by simp; omega)]
      simp
    rw [this]
    simp

/-! ### the invariant tying the log's state to the specification -/

/-- the numbered blocks held in memory, oldest first -/
def numbered (s : State) : List Block := s.queue ++ s.cur.toList

/-- `z` = block zero as a reader would obtain it from the file; `m` = number of numbered blocks whose only
    copy is the one in the file (all blocks before the first queued / current block). -/
structure Inv (P : Params) (s : State) (sp : Spec) (z : Zero) (m : Nat) : Prop where
  alive : s.alive = true
  dzero : diskZero P {} s.disk = .ok z
  /-- the file holds exactly the forced prefix -/
  dview : z.blk.recs ++ s.disk.blocks.flatMap (·.recs) = sp.appended.take sp.forced
  dtotal : z.hdr.totalBlocks = s.disk.blocks.length + 1
  dlast : z.hdr.lastLsn = sp.forcedLast
  dzok : BlockOk P z.blk
  dok : ∀ b ∈ s.disk.blocks, BlockOk P b
  total : s.hdr.hdr.totalBlocks = m + (numbered s).length + 1
  nums : consec (m + 1) (numbered s)
  mle : m ≤ s.disk.blocks.length
  lle : s.disk.blocks.length ≤ m + (numbered s).length
  /-- memory (block zero, then the blocks only in the file, then queue and current block) holds everything appended -/
  mview : s.hdr.blk.recs ++ (s.disk.blocks.take m ++ numbered s).flatMap (·.recs) = sp.appended
  last : s.hdr.hdr.lastLsn = sp.last
  fle : sp.forced ≤ sp.appended.length
  hok : BlockOk P s.hdr.blk
  nok : ∀ b ∈ numbered s, BlockOk P b
  qcur : s.cur = none → s.queue = []

theorem blockOk_fresh (P : Params) (id : Nat) : BlockOk P (Block.fresh id) := by
  simp [BlockOk, Block.fresh]

theorem blockOk_push (P : Params) (b : Block) (r : Rec) (h : BlockOk P b) : BlockOk P (b.push P r) := by
  simp only [BlockOk, Block.push, List.map_append, List.sum_append, List.map_cons, List.map_nil, List.sum_cons,
    List.sum_nil] at *
  omega

theorem inv_init (P : Params) (ht : P.freshTotalBlocks = 1) :
    Inv P (init P) Spec.init (Zero.fresh P) 0 := by
  constructor <;> simp [init, emptyDisk, diskZero, Spec.init, Zero.fresh, numbered, ht, consec, BlockOk, Block.fresh]

theorem inv_truncate (P : Params) (ht : P.freshTotalBlocks = 1) (s : State) (ha : s.alive = true) :
    Inv P (truncate P s) Spec.init (Zero.fresh P) 0 := by
  constructor <;> simp [truncate, emptyDisk, diskZero, Spec.init, Zero.fresh, numbered, ht, consec, BlockOk, Block.fresh, ha]

theorem flatMap_congr' {α β : Type} (f g : α → List β) (l : List α) (h : ∀ a ∈ l, f a = g a) :
    l.flatMap f = l.flatMap g := by
  induction l with
  | nil => rfl
  | cons a l ih =>
    simp only [List.flatMap_cons]
    rw [h a (by simp), ih (fun b hb => h b (by simp [hb]))]

theorem read_inv (P : Params) (h0 : 0 < P.recHdr) {s : State} {sp : Spec} {z : Zero} {m : Nat}
    (inv : Inv P s sp z m) (k : Nat) (hk : 0 < k) :
    read P {} s k = .ok (sp.appended.take sp.forced) := by
  unfold read
  rw [inv.dzero]
  simp only [Bool.false_eq_true, if_false]
  have ht : min s.hdr.hdr.totalBlocks z.hdr.totalBlocks - 1 = s.disk.blocks.length := by
    have h1 := inv.total; have h2 := inv.dtotal; have h3 := inv.lle
    omega
  rw [ht, loadBlocks_eq _ _ 0 (Nat.zero_le _)]
  simp only [List.drop_zero, Nat.zero_add]
  rw [drain_eq P _ k hk _ _ _ (Nat.min_le_right _ _) (by omega)]
  simp only
  rw [drop_min, ← List.flatMap_append, List.take_append_drop, recsOf_ok P h0 _ inv.dzok, ← inv.dview]
  congr 2
  apply flatMap_congr'
  intro b hb
  exact recsOf_ok P h0 b (inv.dok b hb)

theorem forceFixed_blocks (s : State) :
    (forceFixed s).disk.blocks = (numbered s).foldl writeNum s.disk.blocks := by
  unfold forceFixed numbered
  cases s.cur <;> simp [List.foldl_append]

theorem force_inv (P : Params) {s : State} {sp : Spec} {z : Zero} {m : Nat} (inv : Inv P s sp z m) :
    ∃ z' m', Inv P (forceFixed s) sp.force z' m' := by
  have hb : (forceFixed s).disk.blocks = s.disk.blocks.take m ++ numbered s := by
    rw [forceFixed_blocks, writeAll_consec _ _ m inv.nums inv.mle inv.lle]
  have hq : (forceFixed s).queue = [] := rfl
  have hc : (forceFixed s).cur = s.cur := rfl
  have hh : (forceFixed s).hdr.blk = s.hdr.blk := rfl
  have hn : numbered (forceFixed s) = s.cur.toList := by simp [numbered, hq, hc]
  have hlen : (numbered s).length = s.queue.length + s.cur.toList.length := by simp [numbered]
  have hmle := inv.mle
  refine ⟨(forceFixed s).hdr, m + s.queue.length, ?_⟩
  constructor
  · exact inv.alive
  · simp [forceFixed, diskZero]
  · rw [hb]
    have := inv.mview
    simp only [forceFixed, setLastUsed, Spec.force, List.take_length] at *
    exact this
  · rw [hb]
    have := inv.total
    simp only [forceFixed, setLastUsed, List.length_append, List.length_take, Nat.min_eq_left hmle] at *
    omega
  · simpa [forceFixed, setLastUsed, Spec.force] using inv.last
  · exact inv.hok
  · intro b hbm
    rw [hb] at hbm
    rcases List.mem_append.mp hbm with h | h
    · exact inv.dok b (List.mem_of_mem_take h)
    · exact inv.nok b h
  · rw [hn]
    have := inv.total
    simp only [forceFixed, setLastUsed, hlen] at *
    omega
  · rw [hn]
    have := (consec_append (m + 1) s.queue s.cur.toList).mp (by simpa [numbered] using inv.nums)
    have e : m + 1 + s.queue.length = m + s.queue.length + 1 := by omega
    rw [← e]; exact this.2
  · rw [hb]; simp only [List.length_append, List.length_take, Nat.min_eq_left hmle, hlen]; omega
  · rw [hb, hn]; simp only [List.length_append, List.length_take, Nat.min_eq_left hmle, hlen]; omega
  · rw [hb, hn, hh]
    have e : (s.disk.blocks.take m ++ numbered s).take (m + s.queue.length) = s.disk.blocks.take m ++ s.queue := by
      have hl : (s.disk.blocks.take m).length = m := by simp [Nat.min_eq_left hmle]
      rw [List.take_append, hl, List.take_of_length_le (by omega), numbered]
      have : m + s.queue.length - m = s.queue.length := by omega
      rw [this, List.take_left' rfl]
    rw [e, List.append_assoc]
    simpa [numbered, Spec.force] using inv.mview
  · simpa [forceFixed, setLastUsed, Spec.force] using inv.last
  · simp [Spec.force]
  · exact inv.hok
  · rw [hn]; intro b hbm; exact inv.nok b (by simp [numbered, hbm])
  · intro _; rfl

theorem load_inv (P : Params) {s : State} {sp : Spec} {z : Zero} {m : Nat} (inv : Inv P s sp z m) :
    (load P {} s).2 = .ok ∧ ∃ z' m', Inv P (load P {} s).1 sp.crash z' m' := by
  have hl : load P {} s = ({ s with hdr := z, cur := none, queue := [], alive := true }, .ok) := by
    unfold load; rw [inv.dzero]
  rw [hl]
  refine ⟨rfl, z, s.disk.blocks.length, ?_⟩
  have hfle := inv.fle
  constructor
  · rfl
  · exact inv.dzero
  · simp only [Spec.crash, List.take_take, Nat.min_self]; exact inv.dview
  · exact inv.dtotal
  · exact inv.dlast
  · exact inv.dzok
  · exact inv.dok
  · simpa [numbered] using inv.dtotal
  · simp [numbered, consec]
  · exact Nat.le_refl _
  · simp [numbered]
  · simpa [numbered, Spec.crash] using inv.dview
  · exact inv.dlast
  · simp only [Spec.crash, List.length_take]; omega
  · exact inv.dzok
  · simp [numbered]
  · intro _; rfl

theorem Spec.force_crash (sp : Spec) : sp.force.crash = sp.force := by
  simp [Spec.force, Spec.crash]

/-! ### push -/

theorem take_append_le {α : Type} (l : List α) (x : List α) (n : Nat) (h : n ≤ l.length) :
    (l ++ x).take n = l.take n := List.take_append_of_le_length h

/-- the header statistics `push` updates first: only `last` is visible to the specification -/
theorem inv_hdrStats (P : Params) {s : State} {sp : Spec} {z : Zero} {m : Nat} (inv : Inv P s sp z m)
    (a : Option Nat) (l e : Nat) :
    Inv P { s with hdr := { s.hdr with hdr := { s.hdr.hdr with startLsn := a, lastLsn := some l, totalEntries := e } } }
      { sp with last := some l } z m := by
  constructor
  · exact inv.alive
  · exact inv.dzero
  · exact inv.dview
  · exact inv.dtotal
  · exact inv.dlast
  · exact inv.dzok
  · exact inv.dok
  · exact inv.total
  · exact inv.nums
  · exact inv.mle
  · exact inv.lle
  · exact inv.mview
  · rfl
  · exact inv.fle
  · exact inv.hok
  · exact inv.nok
  · exact inv.qcur

/-- the record is copied into the current block -/
theorem inv_curPush (P : Params) {s : State} {sp : Spec} {z : Zero} {m : Nat} (inv : Inv P s sp z m)
    (b : Block) (hc : s.cur = some b) (r : Rec) :
    Inv P { s with cur := some (b.push P r) } { sp with appended := sp.appended ++ [r] } z m := by
  have hn : numbered s = s.queue ++ [b] := by simp [numbered, hc]
  have hn' : numbered { s with cur := some (b.push P r) } = s.queue ++ [b.push P r] := by simp [numbered]
  have hfle := inv.fle
  constructor
  · exact inv.alive
  · exact inv.dzero
  · show _ = (sp.appended ++ [r]).take sp.forced
    rw [take_append_le _ _ _ hfle]; exact inv.dview
  · exact inv.dtotal
  · exact inv.dlast
  · exact inv.dzok
  · exact inv.dok
  · rw [hn']; have := inv.total; rw [hn] at this; simpa using this
  · rw [hn']
    have := inv.nums; rw [hn] at this
    rw [consec_append] at this ⊢
    exact ⟨this.1, by simpa [consec, Block.push] using this.2⟩
  · exact inv.mle
  · rw [hn']; have := inv.lle; rw [hn] at this; simpa using this
  · rw [hn']
    have := inv.mview; rw [hn] at this
    show _ = sp.appended ++ [r]
    rw [← this]
    simp [Block.push, List.flatMap_append]
  · exact inv.last
  · show sp.forced ≤ (sp.appended ++ [r]).length
    simp only [List.length_append, List.length_cons, List.length_nil]; omega
  · exact inv.hok
  · rw [hn']; intro x hx
    rcases List.mem_append.mp hx with h | h
    · exact inv.nok x (by rw [hn]; exact List.mem_append_left _ h)
    · simp only [List.mem_singleton] at h; subst h
      exact blockOk_push P b r (inv.nok b (by rw [hn]; simp))
  · intro h; simp at h

/-- `rotate_block` -/
theorem inv_rotate (P : Params) {s : State} {sp : Spec} {z : Zero} {m : Nat} (inv : Inv P s sp z m)
    (b : Block) (hc : s.cur = some b) :
    Inv P { s with queue := s.queue ++ [b], hdr := setTotal s.hdr (s.hdr.hdr.totalBlocks + 1),
                   cur := some (Block.fresh s.hdr.hdr.totalBlocks) } sp z m := by
  have hn : numbered s = s.queue ++ [b] := by simp [numbered, hc]
  have hn' : numbered { s with queue := s.queue ++ [b], hdr := setTotal s.hdr (s.hdr.hdr.totalBlocks + 1), cur := some (Block.fresh s.hdr.hdr.totalBlocks) } = numbered s ++ [Block.fresh s.hdr.hdr.totalBlocks] := by
    simp [numbered, hc]
  have htot := inv.total
  constructor
  · exact inv.alive
  · exact inv.dzero
  · exact inv.dview
  · exact inv.dtotal
  · exact inv.dlast
  · exact inv.dzok
  · exact inv.dok
  · rw [hn']; simp only [setTotal, List.length_append, List.length_cons, List.length_nil]; omega
  · rw [hn', consec_append]
    refine ⟨inv.nums, ?_⟩
    simp only [consec, Block.fresh, and_true]; omega
  · exact inv.mle
  · rw [hn']; have := inv.lle; simp only [List.length_append, List.length_cons, List.length_nil]; omega
  · rw [hn']
    have := inv.mview
    simp only [setTotal]
    rw [← this]
    simp [Block.fresh, List.flatMap_append]
  · exact inv.last
  · exact inv.fle
  · exact inv.hok
  · rw [hn']; intro x hx
    rcases List.mem_append.mp hx with h | h
    · exact inv.nok x h
    · simp only [List.mem_singleton] at h; subst h; exact blockOk_fresh P _
  · intro h; simp at h

/-- first numbered block after block zero is full / after reopening -/
theorem inv_alloc (P : Params) {s : State} {sp : Spec} {z : Zero} {m : Nat} (inv : Inv P s sp z m)
    (hc : s.cur = none) :
    Inv P { s with hdr := setTotal s.hdr (s.hdr.hdr.totalBlocks + 1),
                   cur := some (Block.fresh s.hdr.hdr.totalBlocks) } sp z m := by
  have hq := inv.qcur hc
  have hn : numbered s = [] := by simp [numbered, hc, hq]
  have hn' : numbered { s with hdr := setTotal s.hdr (s.hdr.hdr.totalBlocks + 1), cur := some (Block.fresh s.hdr.hdr.totalBlocks) } = [Block.fresh s.hdr.hdr.totalBlocks] := by
    simp [numbered, hq]
  have htot := inv.total
  rw [hn] at htot
  constructor
  · exact inv.alive
  · exact inv.dzero
  · exact inv.dview
  · exact inv.dtotal
  · exact inv.dlast
  · exact inv.dzok
  · exact inv.dok
  · rw [hn']; simp only [setTotal, List.length_cons, List.length_nil] at *; omega
  · rw [hn']; simp only [consec, Block.fresh, and_true, List.length_nil] at *; omega
  · exact inv.mle
  · rw [hn']; have := inv.lle; rw [hn] at this; simp only [List.length_cons, List.length_nil] at *; omega
  · rw [hn']
    have := inv.mview
    rw [hn] at this
    simp only [setTotal]
    rw [← this]
    simp [Block.fresh, List.flatMap_append]
  · exact inv.last
  · exact inv.fle
  · exact inv.hok
  · rw [hn']; intro x hx; simp only [List.mem_singleton] at hx; subst hx; exact blockOk_fresh P _
  · intro h; simp at h

/-- the record goes into block zero: only possible while no numbered block exists -/
theorem inv_zeroPush (P : Params) {s : State} {sp : Spec} {z : Zero} {m : Nat} (inv : Inv P s sp z m)
    (ht : s.hdr.hdr.totalBlocks ≤ 1) (r : Rec) :
    Inv P { s with hdr := { s.hdr with blk := s.hdr.blk.push P r } } { sp with appended := sp.appended ++ [r] } z m := by
  have htot := inv.total
  have hm : m = 0 := by omega
  have hl : (numbered s).length = 0 := by omega
  have hn : numbered s = [] := List.eq_nil_of_length_eq_zero hl
  have hfle := inv.fle
  subst hm
  constructor
  · exact inv.alive
  · exact inv.dzero
  · show _ = (sp.appended ++ [r]).take sp.forced
    rw [take_append_le _ _ _ hfle]; exact inv.dview
  · exact inv.dtotal
  · exact inv.dlast
  · exact inv.dzok
  · exact inv.dok
  · exact inv.total
  · exact inv.nums
  · exact inv.mle
  · exact inv.lle
  · have := inv.mview
    show _ = sp.appended ++ [r]
    rw [← this]
    show (s.hdr.blk.push P r).recs ++ _ = _
    have e : numbered { s with hdr := { s.hdr with blk := s.hdr.blk.push P r } } = [] := hn
    rw [e, hn]
    simp [Block.push]
  · exact inv.last
  · show sp.forced ≤ (sp.appended ++ [r]).length
    simp only [List.length_append, List.length_cons, List.length_nil]; omega
  · exact blockOk_push P _ r inv.hok
  · exact inv.nok
  · exact inv.qcur

theorem blockAvail_fresh (P : Params) (id : Nat) : blockAvail P (Block.fresh id) = blockAvail P (Block.fresh 0) := rfl

theorem blockAvail_le_fresh (P : Params) (b : Block) : blockAvail P b ≤ blockAvail P (Block.fresh 0) := by
  simp only [blockAvail, Block.fresh]; omega

theorem pushCur_cur (P : Params) (s : State) (b : Block) (r : Rec) :
    pushCur P s b r = pushCur P { s with cur := some b } b r := rfl

theorem pushCur_spec (P : Params) {s : State} {sp : Spec} {z : Zero} {m : Nat} (inv : Inv P s sp z m)
    (b : Block) (hc : s.cur = some b) (r : Rec) :
    (recSize P r ≤ blockAvail P (Block.fresh 0) →
      (pushCur P s b r).2 = .lsn r.lsn ∧
      Inv P (pushCur P s b r).1 { sp with appended := sp.appended ++ [r] } z m) ∧
    (blockAvail P (Block.fresh 0) < recSize P r →
      (pushCur P s b r).2 = .err .full ∧ Inv P (pushCur P s b r).1 sp z m) := by
  unfold pushCur
  by_cases hrot : blockAvail P b < recSize P r
  · simp only [hrot, if_true]
    have inv2 := inv_rotate P inv b hc
    by_cases hfull : blockAvail P (Block.fresh s.hdr.hdr.totalBlocks) < recSize P r
    · simp only [hfull, if_true]
      rw [blockAvail_fresh] at hfull
      exact ⟨fun h => by omega, fun _ => ⟨trivial, inv2⟩⟩
    · simp only [hfull, if_false]
      rw [blockAvail_fresh] at hfull
      refine ⟨fun _ => ⟨trivial, ?_⟩, fun h => by omega⟩
      exact inv_curPush P inv2 (Block.fresh s.hdr.hdr.totalBlocks) rfl r
  · simp only [hrot, if_false]
    have := blockAvail_le_fresh P b
    refine ⟨fun _ => ⟨trivial, inv_curPush P inv b hc r⟩, fun h => by omega⟩

theorem nextLsn_inv (P : Params) {s : State} {sp : Spec} {z : Zero} {m : Nat} (inv : Inv P s sp z m) :
    nextLsn {} s = sp.next := by
  simp [nextLsn, lastLsn, Spec.next, inv.last]

theorem zeroAvail_le_fresh (P : Params) (hz : P.blockHdr ≤ P.zeroHdr) (b : Block) :
    zeroAvail P b ≤ blockAvail P (Block.fresh 0) := by
  simp only [zeroAvail, blockAvail, Block.fresh]; omega

theorem push_refines (P : Params) (hz : P.blockHdr ≤ P.zeroHdr) {s : State} {sp : Spec} {z : Zero} {m : Nat}
    (inv : Inv P s sp z m) (r0 : Rec) :
    (push P {} s r0).2 = (specStep P sp (.push r0)).2 ∧
    ∃ z' m', Inv P (push P {} s r0).1 (specStep P sp (.push r0)).1 z' m' := by
  have hl := nextLsn_inv P inv
  simp only [push, specStep, hl]
  generalize hr : ({ r0 with lsn := sp.next } : Rec) = r
  have hrl : r.lsn = sp.next := by rw [← hr]
  by_cases hbig : recSize P r > P.maxRecord
  · simp only [hbig, if_true]
    exact ⟨trivial, z, m, inv⟩
  · simp only [hbig, if_false]
    -- header statistics first
    have inv1 := inv_hdrStats P inv
      (match s.hdr.hdr.startLsn with | none => some sp.next | some x => some x) sp.next (s.hdr.hdr.totalEntries + 1)
    cases hc : s.cur with
    | some b =>
      simp only
      have h := pushCur_spec P inv1 b hc r
      rw [pushCur_cur, hrl] at h
      by_cases hfull : recSize P r > blockAvail P (Block.fresh 0)
      · simp only [hfull, if_true]
        have := h.2 hfull
        exact ⟨this.1, z, m, this.2⟩
      · simp only [hfull, if_false]
        have := h.1 (by omega)
        exact ⟨this.1, z, m, this.2⟩
    | none =>
      simp only [Bool.false_or]
      by_cases hzero : (decide (s.hdr.hdr.totalBlocks ≤ 1) && decide (zeroAvail P s.hdr.blk ≥ recSize P r)) = true
      · simp only [hzero, if_true]
        simp only [Bool.and_eq_true, decide_eq_true_eq] at hzero
        have hnf : ¬ recSize P r > blockAvail P (Block.fresh 0) := by
          have := zeroAvail_le_fresh P hz s.hdr.blk; omega
        simp only [hnf, if_false]
        have := inv_zeroPush P inv1 hzero.1 r
        rw [hc] at this
        exact ⟨trivial, z, m, this⟩
      · simp only [hzero, if_false, Bool.false_eq_true]
        have inv2 := inv_alloc P inv1 hc
        have h := pushCur_spec P inv2 (Block.fresh s.hdr.hdr.totalBlocks) rfl r
        rw [hrl] at h
        rw [pushCur_cur]
        by_cases hfull : recSize P r > blockAvail P (Block.fresh 0)
        · simp only [hfull, if_true]
          have := h.2 hfull
          exact ⟨this.1, z, m, this.2⟩
        · simp only [hfull, if_false]
          have := h.1 (by omega)
          exact ⟨this.1, z, m, this.2⟩

/-! ### one step, any number of steps -/

theorem step_refines (P : Params) (h0 : 0 < P.recHdr) (hz : P.blockHdr ≤ P.zeroHdr) (ht : P.freshTotalBlocks = 1)
    {s : State} {sp : Spec} {z : Zero} {m : Nat} (inv : Inv P s sp z m) (op : Op)
    (hk : ∀ k, op = .read k → 0 < k) :
    (step P {} s op).2 = (specStep P sp op).2 ∧
    ∃ z' m', Inv P (step P {} s op).1 (specStep P sp op).1 z' m' := by
  unfold step
  simp only [inv.alive, Bool.not_true, Bool.false_eq_true, if_false]
  cases op with
  | push r => exact push_refines P hz inv r
  | force =>
    simp only [force, specStep, Bool.false_eq_true, if_false]
    exact ⟨trivial, force_inv P inv⟩
  | truncate =>
    simp only [specStep]
    exact ⟨trivial, _, _, inv_truncate P ht s inv.alive⟩
  | reopen =>
    simp only [force, specStep, Bool.false_eq_true, if_false]
    obtain ⟨z1, m1, inv1⟩ := force_inv P inv
    have := load_inv P inv1
    rw [Spec.force_crash] at this
    exact this
  | crash =>
    simp only [specStep]
    exact load_inv P inv
  | read k =>
    simp only [specStep]
    rw [read_inv P h0 inv k (hk k rfl)]
    exact ⟨rfl, z, m, inv⟩

def readAheadPosB : List Op → Bool
  | [] => true
  | .read k :: ops => decide (0 < k) && readAheadPosB ops
  | _ :: ops => readAheadPosB ops

/-- every `read` of the sequence uses a read-ahead of at least one block -/
def ReadAheadPos (ops : List Op) : Prop := readAheadPosB ops = true

instance (ops : List Op) : Decidable (ReadAheadPos ops) := inferInstanceAs (Decidable (readAheadPosB ops = true))

theorem readAheadPos_cons {op : Op} {ops : List Op} (h : ReadAheadPos (op :: ops)) :
    (∀ k, op = .read k → 0 < k) ∧ ReadAheadPos ops := by
  unfold ReadAheadPos at *
  cases op <;> simp_all [readAheadPosB]

theorem run_refines (P : Params) (h0 : 0 < P.recHdr) (hz : P.blockHdr ≤ P.zeroHdr) (ht : P.freshTotalBlocks = 1)
    (ops : List Op) {s : State} {sp : Spec} {z : Zero} {m : Nat} (inv : Inv P s sp z m) (hk : ReadAheadPos ops) :
    (run P {} s ops).2 = (specRun P sp ops).2 ∧
    ∃ z' m', Inv P (run P {} s ops).1 (specRun P sp ops).1 z' m' := by
  induction ops generalizing s sp z m with
  | nil => exact ⟨rfl, z, m, inv⟩
  | cons op ops ih =>
    obtain ⟨hk1, hk2⟩ := readAheadPos_cons hk
    obtain ⟨ho, z1, m1, inv1⟩ := step_refines P h0 hz ht inv op hk1
    obtain ⟨hos, z2, m2, inv2⟩ := ih inv1 hk2
    simp only [run, specRun]
    exact ⟨by rw [ho, hos], z2, m2, inv2⟩

/-! ### facts about the specification alone -/

theorem specRun_append (P : Params) (sp : Spec) (a b : List Op) :
    specRun P sp (a ++ b) =
      ((specRun P (specRun P sp a).1 b).1, (specRun P sp a).2 ++ (specRun P (specRun P sp a).1 b).2) := by
  induction a generalizing sp with
  | nil => simp [specRun]
  | cons op a ih => simp [specRun, ih]

/-- `n ≤ o` for an optional bound (`none` bounds nothing) -/
def leOpt (n : Nat) : Option Nat → Prop
  | some l => n ≤ l
  | none => False

/-- LSNs of the accepted records increase strictly and stay below the last LSN handed out; the forced ones
    stay below the last LSN handed out before the last force -/
structure SpecInv (sp : Spec) : Prop where
  inc : (sp.appended.map (·.lsn)).Pairwise (· < ·)
  bound : ∀ r ∈ sp.appended, leOpt r.lsn sp.last
  fbound : ∀ r ∈ sp.appended.take sp.forced, leOpt r.lsn sp.forcedLast
  fle : sp.forced ≤ sp.appended.length

theorem specInv_init : SpecInv Spec.init := by
  constructor <;> simp [Spec.init]

theorem leOpt_lt_next {sp : Spec} {n : Nat} (h : leOpt n sp.last) : n < sp.next := by
  unfold Spec.next
  cases hl : sp.last with
  | none => rw [hl] at h; exact absurd h (by simp [leOpt])
  | some l => rw [hl] at h; simp only [leOpt] at h; simp only; omega

theorem specStep_inv (P : Params) (sp : Spec) (op : Op) (h : SpecInv sp) : SpecInv (specStep P sp op).1 := by
  cases op with
  | push r0 =>
    simp only [specStep]
    split
    · exact h
    · split
      · constructor
        · exact h.inc
        · intro r hr
          have := leOpt_lt_next (h.bound r hr)
          simp only [leOpt]; omega
        · exact h.fbound
        · exact h.fle
      · constructor
        · simp only [List.map_append, List.map_cons, List.map_nil]
          rw [List.pairwise_append]
          refine ⟨h.inc, by simp, ?_⟩
          intro a ha b hb
          simp only [List.mem_singleton] at hb
          subst hb
          obtain ⟨r, hr, rfl⟩ := List.mem_map.mp ha
          exact leOpt_lt_next (h.bound r hr)
        · intro r hr
          simp only [List.mem_append, List.mem_singleton] at hr
          rcases hr with hr | hr
          · have := leOpt_lt_next (h.bound r hr)
            simp only [leOpt]; omega
          · subst hr; simp [leOpt]
        · have := h.fle
          simp only
          rw [List.take_append_of_le_length this]
          exact h.fbound
        · have := h.fle
          simp only [List.length_append, List.length_cons, List.length_nil]; omega
  | force =>
    simp only [specStep, Spec.force]
    exact ⟨h.inc, h.bound, by simpa using h.bound, by simp⟩
  | truncate => exact specInv_init
  | reopen =>
    simp only [specStep, Spec.force]
    exact ⟨h.inc, h.bound, by simpa using h.bound, by simp⟩
  | crash =>
    simp only [specStep, Spec.crash]
    have hf := h.fle
    constructor
    · have : (sp.appended.take sp.forced).map (·.lsn) = (sp.appended.map (·.lsn)).take sp.forced := by
        rw [List.map_take]
      rw [this]
      exact List.Pairwise.sublist (List.take_sublist _ _) h.inc
    · exact h.fbound
    · simp only [List.take_take, Nat.min_self]; exact h.fbound
    · simp only [List.length_take]; omega
  | read k => exact h

theorem specRun_inv (P : Params) (ops : List Op) (sp : Spec) (h : SpecInv sp) : SpecInv (specRun P sp ops).1 := by
  induction ops generalizing sp with
  | nil => exact h
  | cons op ops ih => simp only [specRun]; exact ih _ (specStep_inv P sp op h)

/-- `r` is one of the records handed to `push` in `ops`, up to the LSN the log gave it -/
def PushedIn (ops : List Op) (r : Rec) : Prop := ∃ r0, Op.push r0 ∈ ops ∧ r = { r0 with lsn := r.lsn }

theorem specRun_pushed (P : Params) (ops pre : List Op) (sp : Spec)
    (h : ∀ r ∈ sp.appended, PushedIn pre r) : ∀ r ∈ (specRun P sp ops).1.appended, PushedIn (pre ++ ops) r := by
  induction ops generalizing sp pre with
  | nil => simpa [specRun] using h
  | cons op ops ih =>
    simp only [specRun]
    have e : pre ++ op :: ops = (pre ++ [op]) ++ ops := by simp
    rw [e]
    apply ih
    have mono : ∀ r, PushedIn pre r → PushedIn (pre ++ [op]) r := by
      intro r ⟨r0, h1, h2⟩; exact ⟨r0, by simp [h1], h2⟩
    cases op with
    | push r0 =>
      simp only [specStep]
      split
      · exact fun r hr => mono r (h r hr)
      · split
        · exact fun r hr => mono r (h r hr)
        · intro r hr
          simp only [List.mem_append, List.mem_singleton] at hr
          rcases hr with hr | hr
          · exact mono r (h r hr)
          · subst hr; exact ⟨r0, by simp, rfl⟩
    | force => exact fun r hr => mono r (h r hr)
    | truncate => intro r hr; simp [specStep, Spec.init] at hr
    | reopen => exact fun r hr => mono r (h r hr)
    | crash =>
      intro r hr
      simp only [specStep, Spec.crash] at hr
      exact mono r (h r (List.mem_of_mem_take hr))
    | read k => exact fun r hr => mono r (h r hr)

/-! ### the record image -/

theorem roundUp_ge (x a : Nat) (ha : 0 < a) : x ≤ roundUp x a := by
  unfold roundUp
  have h1 := Nat.div_add_mod (x + a - 1) a
  have h2 := Nat.mod_lt (x + a - 1) ha
  rw [Nat.mul_comm] at h1
  omega

theorem paddedSize_ge (P : Params) (ha : 0 < P.align) (n : Nat) : n ≤ paddedSize P n := by
  unfold paddedSize
  have := roundUp_ge (n + P.recHdr) P.align ha
  omega

theorem recSize_lsn (P : Params) (r : Rec) (l : Nat) : recSize P { r with lsn := l } = recSize P r := rfl

/-- the values a `u64` field / `Option<u64>` field can hold -/
def optFits : Option Nat → Prop
  | none => True
  | some v => v < 2^64

theorem decOpt_encOpt (o : Option Nat) (rest : Bytes) (h : optFits o) :
    decOpt (encOpt o ++ rest) = some (o, rest) := by
  cases o with
  | none =>
    simp only [encOpt, decOpt, List.append_assoc]
    rw [take64_le64 _ _ (by omega)]
    simp only
    rw [take64_le64 _ _ (by omega)]
    simp
  | some v =>
    simp only [optFits] at h
    simp only [encOpt, decOpt, List.append_assoc]
    rw [take64_le64 _ _ (by omega)]
    simp only
    rw [take64_le64 _ _ h]
    simp

instance (o : Option Nat) : Decidable (optFits o) := by
  cases o <;> simp only [optFits] <;> infer_instance

/-- a record whose fields fit the on-disk header: what `OwnedRecord::new` can represent without truncation -/
structure RecFits (P : Params) (r : Rec) : Prop where
  lsn : r.lsn < 2^64
  tid : r.tid < 2^64
  prev : optFits r.prev
  oid : optFits r.oid
  rowid : optFits r.rowid
  kind : r.kind < 256
  undo : r.undo.length < 2^16
  redo : r.redo.length < 2^16
  size : recSize P r < 2^32

instance (P : Params) (r : Rec) : Decidable (RecFits P r) :=
  decidable_of_iff (r.lsn < 2^64 ∧ r.tid < 2^64 ∧ optFits r.prev ∧ optFits r.oid ∧ optFits r.rowid ∧ r.kind < 256 ∧
      r.undo.length < 2^16 ∧ r.redo.length < 2^16 ∧ recSize P r < 2^32)
    ⟨fun ⟨a, b, c, d, e, f, g, h, i⟩ => ⟨a, b, c, d, e, f, g, h, i⟩,
     fun ⟨a, b, c, d, e, f, g, h, i⟩ => ⟨a, b, c, d, e, f, g, h, i⟩⟩

theorem decode_encode (P : Params) (h80 : P.recHdr = 80) (ha : 0 < P.align) (r : Rec) (hf : RecFits P r) (rest : Bytes) :
    decodeRecord (encodeRecord P r ++ rest) = some (r, rest) := by
  unfold decodeRecord encodeRecord
  simp only [List.append_assoc]
  rw [take64_le64 _ _ hf.lsn]; simp only
  rw [take64_le64 _ _ hf.tid]; simp only
  rw [decOpt_encOpt _ _ hf.prev]; simp only
  rw [decOpt_encOpt _ _ hf.oid]; simp only
  rw [decOpt_encOpt _ _ hf.rowid]; simp only
  rw [take32_le32 _ _ hf.size]; simp only
  rw [take16_le16 _ _ hf.undo]; simp only
  rw [take16_le16 _ _ hf.redo]; simp only
  have hp := paddedSize_ge P ha (r.undo.length + r.redo.length)
  have hsz : recSize P r - 80 = paddedSize P (r.undo.length + r.redo.length) := by
    unfold recSize; omega
  have hk : (UInt8.ofNat r.kind).toNat = r.kind := by
    have := hf.kind
    simp only [UInt8.toNat_ofNat']; omega
  simp only [List.replicate, List.cons_append, List.nil_append, hsz]
  have hc : ¬ (recSize P r < 80 ∨
      (r.undo ++ (r.redo ++ (List.replicate (paddedSize P (r.undo.length + r.redo.length) - (r.undo.length + r.redo.length)) (0 : UInt8) ++ rest))).length
        < paddedSize P (r.undo.length + r.redo.length) ∨
      paddedSize P (r.undo.length + r.redo.length) < r.undo.length + r.redo.length) := by
    simp only [List.length_append, List.length_replicate]
    unfold recSize; omega
  simp only [hc, if_false, hk]
  have hlen : paddedSize P (r.undo.length + r.redo.length) =
      (r.undo ++ (r.redo ++ List.replicate (paddedSize P (r.undo.length + r.redo.length) - (r.undo.length + r.redo.length)) (0 : UInt8))).length := by
    simp only [List.length_append, List.length_replicate]; omega
  have e1 : (r.undo ++ (r.redo ++ (List.replicate (paddedSize P (r.undo.length + r.redo.length) - (r.undo.length + r.redo.length)) (0 : UInt8) ++ rest))) =
      (r.undo ++ (r.redo ++ List.replicate (paddedSize P (r.undo.length + r.redo.length) - (r.undo.length + r.redo.length)) (0 : UInt8))) ++ rest := by
    simp only [List.append_assoc]
  rw [e1]
  generalize hpad : List.replicate (paddedSize P (r.undo.length + r.redo.length) - (r.undo.length + r.redo.length)) (0 : UInt8) = pad at *
  rw [hlen, List.take_left' rfl, List.drop_left' rfl, List.take_left' rfl, List.drop_left' rfl, List.take_left' rfl]
theorem encodeRecord_length' (P : Params) (h80 : P.recHdr = 80) (ha : 0 < P.align) (r : Rec) :
    (encodeRecord P r).length = recSize P r := by
  have hp := paddedSize_ge P ha (r.undo.length + r.redo.length)
  simp only [encodeRecord, encOpt, recSize, List.length_append, le64_length, le32_length, le16_length,
    List.length_cons, List.length_nil, List.length_replicate]
  cases r.prev <;> cases r.oid <;> cases r.rowid <;> simp only [List.length_append, le64_length] <;> omega

theorem decodeRecs_encodeRecs (P : Params) (h80 : P.recHdr = 80) (ha : 0 < P.align) (rs : List Rec)
    (hf : ∀ r ∈ rs, RecFits P r) (off : Nat) (tail : Bytes) :
    decodeRecs rs.length (off + (rs.map (recSize P)).sum) off (encodeRecs P rs ++ tail) = some rs := by
  induction rs generalizing off with
  | nil => simp [decodeRecs]
  | cons r rs ih =>
    have hpos := recSize_pos P (by omega) r
    simp only [List.length_cons, decodeRecs, List.map_cons, List.sum_cons]
    have hn : ¬ (off ≥ off + (recSize P r + (rs.map (recSize P)).sum)) := by omega
    simp only [hn, if_false, encodeRecs, List.flatMap_cons, List.append_assoc]
    rw [decode_encode P h80 ha r (hf r (by simp))]
    simp only
    have hl : (encodeRecord P r ++ (List.flatMap (encodeRecord P) rs ++ tail)).length -
        (List.flatMap (encodeRecord P) rs ++ tail).length = recSize P r := by
      rw [List.length_append, encodeRecord_length' P h80 ha]; omega
    rw [hl]
    have e : off + (recSize P r + (rs.map (recSize P)).sum) = (off + recSize P r) + (rs.map (recSize P)).sum := by omega
    rw [e]
    have := ih (fun x hx => hf x (by simp [hx])) (off + recSize P r)
    simp only [encodeRecs] at this
    rw [this]
end AxVerif.Wal
