/- Helper lemmas about the rebalancing helpers (Model/Balance.lean). Core Lean only. -/
import AxVerif.Model.Balance
namespace AxVerif.Balance

theorem sum_append (a b : List Nat) : sum (a ++ b) = sum a + sum b := by
  induction a with
  | nil => simp [sum]
  | cons x xs ih => simp [sum, ih]; omega

/-! ### split_cells -/

theorem splitCells_append (sizes : List Nat) : (splitCells sizes).1 ++ (splitCells sizes).2 = sizes := by
  simp [splitCells]

theorem splitIndex_lt {half : Nat} : ∀ {l : List Nat} {acc i : Nat}, splitIndex half acc l = some i → i < l.length := by
  intro l
  induction l with
  | nil => intro acc i h; simp [splitIndex] at h
  | cons s rest ih =>
    intro acc i h
    simp only [splitIndex] at h
    split at h
    · cases h; simp
    · simp only [Option.map_eq_some_iff] at h
      obtain ⟨j, hj, rfl⟩ := h
      have := ih hj
      simp
      omega

theorem splitIndex_some {half : Nat} : ∀ {l : List Nat} {acc : Nat}, l ≠ [] → half ≤ acc + sum l →
    ∃ i, splitIndex half acc l = some i := by
  intro l
  induction l with
  | nil => intro acc h; exact absurd rfl h
  | cons s rest ih =>
    intro acc _ hsum
    simp only [splitIndex]
    split
    · exact ⟨0, rfl⟩
    · next hlt =>
      cases rest with
      | nil => simp [sum] at hsum; omega
      | cons r rs =>
        have : half ≤ acc + s + sum (r :: rs) := by simp only [sum] at hsum ⊢; omega
        obtain ⟨j, hj⟩ := ih (acc := acc + s) (by simp) this
        exact ⟨j + 1, by simp [hj]⟩

theorem splitCells_right_ne_nil (sizes : List Nat) (h : sizes ≠ []) : (splitCells sizes).2 ≠ [] := by
  have hhalf : (sum sizes + 1) / 2 ≤ 0 + sum sizes := by omega
  obtain ⟨i, hi⟩ := splitIndex_some h hhalf
  have hlt := splitIndex_lt hi
  simp only [splitCells, hi, Option.getD_some]
  intro hnil
  have := List.drop_eq_nil_iff.mp hnil
  omega

theorem splitCells_left_ne_nil (a : Nat) (rest : List Nat) (h : 2 * a < sum (a :: rest)) :
    (splitCells (a :: rest)).1 ≠ [] := by
  have hnot : ¬ (0 + a ≥ (sum (a :: rest) + 1) / 2) := by omega
  have hhalf : (sum (a :: rest) + 1) / 2 ≤ 0 + sum (a :: rest) := by omega
  obtain ⟨i, hi⟩ := splitIndex_some (l := a :: rest) (by simp) hhalf
  have hpos : 0 < i := by
    simp only [splitIndex, if_neg hnot, Option.map_eq_some_iff] at hi
    obtain ⟨j, _, rfl⟩ := hi
    omega
  simp only [splitCells, hi, Option.getD_some]
  intro hnil
  have := List.take_eq_nil_iff.mp hnil
  rcases this with h0 | h0
  · omega
  · cases h0

/-! ### greedy fill -/

theorem pack_flat (usable : Nat) : ∀ (sizes : List Nat) (t : Nat) (cur : List Nat),
    flat (pack usable sizes t cur) = cur ++ sizes := by
  intro sizes
  induction sizes with
  | nil => intro t cur; simp [pack, flat]
  | cons s rest ih =>
    intro t cur
    simp only [pack]
    split
    · rw [ih]; simp
    · simp only [flat, ih]; simp

theorem pack_loads (usable : Nat) : ∀ (sizes : List Nat) (t : Nat) (cur : List Nat),
    t = sum cur → t ≤ usable → (∀ s ∈ sizes, s ≤ usable) → ∀ b ∈ pack usable sizes t cur, sum b ≤ usable := by
  intro sizes
  induction sizes with
  | nil =>
    intro t cur ht hle _ b hb
    simp only [pack, List.mem_singleton] at hb
    subst hb; omega
  | cons s rest ih =>
    intro t cur ht hle hall b hb
    have hs : s ≤ usable := hall s (List.mem_cons_self ..)
    have hrest : ∀ x ∈ rest, x ≤ usable := fun x hx => hall x (List.mem_cons_of_mem _ hx)
    simp only [pack] at hb
    split at hb
    · next hfit =>
      exact ih (t + s) (cur ++ [s]) (by simp [sum_append, sum, ht]) hfit hrest b hb
    · simp only [List.mem_cons] at hb
      rcases hb with hb | hb
      · subst hb; omega
      · exact ih s [s] (by simp [sum]) hs hrest b hb

theorem length_flat (l : List (List Nat)) : (flat l).length = sum (l.map List.length) := by
  induction l with
  | nil => rfl
  | cons b bs ih => simp [flat, sum, ih]

/-- loads of the pages when the cells are dealt out by the counts of the buckets themselves -/
theorem loads_flat (l : List (List Nat)) : loads (flat l) (l.map List.length) = l.map sum := by
  induction l with
  | nil => rfl
  | cons b bs ih => simp [flat, loads, ih]

theorem greedy_spec (usable : Nat) (sizes : List Nat) (h : ∀ s ∈ sizes, s ≤ usable) :
    sum (greedy usable sizes).2 = sizes.length ∧ (greedy usable sizes).1.length = (greedy usable sizes).2.length ∧
      (∀ t ∈ (greedy usable sizes).1, t ≤ usable) ∧ loads sizes (greedy usable sizes).2 = (greedy usable sizes).1 := by
  have hflat := pack_flat usable sizes 0 []
  simp only [List.nil_append] at hflat
  refine ⟨?_, by simp [greedy], ?_, ?_⟩
  · simp only [greedy]
    rw [← length_flat, hflat]
  · intro t ht
    simp only [greedy, List.mem_map] at ht
    obtain ⟨b, hb, rfl⟩ := ht
    exact pack_loads usable sizes 0 [] (by simp [sum]) (Nat.zero_le _) h b hb
  · simp only [greedy]
    have := loads_flat (pack usable sizes 0 [])
    rw [hflat] at this
    exact this

/-! ### fix-up -/

theorem sum_set {l : List Nat} {i a : Nat} (v : Nat) (h : l[i]? = some a) : sum (l.set i v) + a = sum l + v := by
  induction l generalizing i with
  | nil => simp at h
  | cons x xs ih =>
    cases i with
    | zero =>
      simp only [List.getElem?_cons_zero, Option.some.injEq] at h
      subst h
      simp [sum]; omega
    | succ i =>
      simp only [List.getElem?_cons_succ] at h
      have := ih h
      simp only [List.set_cons_succ, sum]
      omega

theorem fixStep_sum {sizes : List Nat} {i : Nat} {f f' : Fix} (h : fixStep sizes i f = some f') :
    sum f'.cnt = sum f.cnt ∧ f'.div + 1 = f.div := by
  unfold fixStep at h
  split at h
  · next ti ci tl cl sd sl hti hci htl hcl hsd hsl =>
    split at h
    · cases h
    · next hcond =>
      cases h
      have hi : i ≠ 0 := fun h0 => hcond (Or.inl h0)
      have hd : f.div ≠ 0 := fun h0 => hcond (Or.inr (Or.inl h0))
      have hc : cl ≠ 0 := fun h0 => hcond (Or.inr (Or.inr (Or.inl h0)))
      refine ⟨?_, by simp only; omega⟩
      simp only [setAt]
      have h1 := sum_set (ci + 1) hci
      have hget : (f.cnt.set i (ci + 1))[i - 1]? = some cl := by
        rw [List.getElem?_set_ne (by omega)]
        exact hcl
      have h2 := sum_set (cl - 1) hget
      omega
  · cases h

theorem fixPageR_sum (sizes : List Nat) (under i : Nat) : ∀ (fuel : Nat) (f f' : Fix),
    fixPageR sizes under i fuel f = .done f' → sum f'.cnt = sum f.cnt := by
  intro fuel
  induction fuel with
  | zero => intro f f' h; simp [fixPageR] at h
  | succ fuel ih =>
    intro f f' h
    simp only [fixPageR] at h
    split at h
    · cases h
    · split at h
      · split at h
        · cases h
        · next f1 hstep =>
          rw [ih f1 f' h, (fixStep_sum hstep).1]
      · cases h; rfl

theorem fixPageR_fuel (sizes : List Nat) (under i : Nat) : ∀ (fuel : Nat) (f : Fix), f.div + 1 < fuel →
    fixPageR sizes under i fuel f ≠ .outOfFuel := by
  intro fuel
  induction fuel with
  | zero => intro f h; omega
  | succ fuel ih =>
    intro f h
    simp only [fixPageR]
    split
    · intro hc; cases hc
    · split
      · split
        · intro hc; cases hc
        · next f1 hstep =>
          have := (fixStep_sum hstep).2
          exact ih f1 (by omega)
      · intro hc; cases hc

theorem fixAll_sum (sizes : List Nat) (under fuel : Nat) : ∀ (i : Nat) (f f' : Fix),
    fixAll sizes under fuel i f = some f' → sum f'.cnt = sum f.cnt := by
  intro i
  induction i with
  | zero => intro f f' h; simp only [fixAll, Option.some.injEq] at h; subst h; rfl
  | succ i ih =>
    intro f f' h
    simp only [fixAll, Option.bind_eq_some_iff] at h
    obtain ⟨f1, h1, h2⟩ := h
    simp only [fixPage] at h1
    split at h1
    · next f1' hdone =>
      cases h1
      rw [ih f1 f' h2, fixPageR_sum sizes under (i + 1) fuel f f1 hdone]
    · cases h1

theorem bestDistribution_sum (usable under : Nat) (sizes tot cnt : List Nat)
    (h : bestDistribution usable under sizes = some (tot, cnt)) : sum cnt = sizes.length := by
  have hg : sum (greedy usable sizes).2 = sizes.length := by
    have hflat := pack_flat usable sizes 0 []
    simp only [List.nil_append] at hflat
    simp only [greedy]
    rw [← length_flat, hflat]
  unfold bestDistribution at h
  simp only at h
  split at h
  · split at h
    · cases h
    · split at h
      · cases h
      · next f hfix =>
        have hs := fixAll_sum _ _ _ _ _ _ hfix
        simp only at hs
        split at h
        · next t0 c0 c1 _ hc0 hc1 =>
          split at h
          · split at h
            · cases h
            · next hc1ne =>
              simp only [Option.some.injEq, Prod.mk.injEq] at h
              obtain ⟨_, rfl⟩ := h
              simp only [setAt]
              have h1 := sum_set (c0 + 1) hc0
              have hget : (f.cnt.set 0 (c0 + 1))[1]? = some c1 := by
                rw [List.getElem?_set_ne (by omega)]
                exact hc1
              have h2 := sum_set (c1 - 1) hget
              omega
          · simp only [Option.some.injEq, Prod.mk.injEq] at h
            obtain ⟨_, rfl⟩ := h
            omega
        · cases h
  · simp only [Option.some.injEq, Prod.mk.injEq] at h
    obtain ⟨_, rfl⟩ := h
    exact hg

end AxVerif.Balance
