/-
  Invariant of the atomic `begin` (Model/Coord.lean): every snapshot counts only committed transactions as committed.
-/
import AxVerif.Model.Coord
namespace AxVerif.Coord

theorem statusOf_append_of_some {t : List (Nat × Status)} {x : Nat} {st : Status} (e : Nat × Status)
    (h : statusOf t x = some st) : statusOf (t ++ [e]) x = some st := by
  unfold statusOf at *
  cases hf : t.find? (fun e => e.1 == x) with
  | none => simp [hf] at h
  | some r =>
    rw [List.find?_append, hf]
    simpa [hf] using h

theorem statusOf_setStatus (x y : Nat) (st : Status) : ∀ t : List (Nat × Status),
    statusOf (setStatus x st t) y = if y = x then (statusOf t x).map (fun _ => st) else statusOf t y
  | [] => by simp [setStatus, statusOf]
  | e :: es => by
    have ih := statusOf_setStatus x y st es
    unfold statusOf at ih ⊢
    unfold setStatus
    by_cases hex : e.1 = x
    · have h1 : (e.1 == x) = true := by simpa using hex
      simp only [h1, if_true]
      by_cases hyx : y = x
      · subst hyx
        simp [List.find?_cons, hex]
      · have h2 : (x == y) = false := by simpa using fun h => hyx h.symm
        have h3 : (e.1 == y) = false := by simpa [hex] using fun h => hyx h.symm
        simp [List.find?_cons, h2, h3, hyx]
    · have h1 : (e.1 == x) = false := by simpa using hex
      simp only [h1, Bool.false_eq_true, if_false]
      by_cases hyx : y = x
      · subst hyx
        simp only [List.find?_cons, h1, if_true] at ih ⊢
        simpa using ih
      · simp only [List.find?_cons, hyx, if_false] at ih ⊢
        by_cases hey : (e.1 == y) = true
        · simp [hey]
        · simp only [hey]
          exact ih

theorem ids_setStatus (x : Nat) (st : Status) : ∀ t : List (Nat × Status), (setStatus x st t).map (·.1) = t.map (·.1)
  | [] => rfl
  | e :: es => by
    unfold setStatus
    by_cases h : (e.1 == x) = true
    · simp only [h, if_true, List.map_cons]
      rw [(by simpa using h : e.1 = x)]
    · have h' : (e.1 == x) = false := by simpa using h
      simp only [h', Bool.false_eq_true, if_false, List.map_cons, ids_setStatus x st es]

/-- with pairwise different ids, `statusOf` is membership -/
theorem statusOf_of_mem : ∀ {t : List (Nat × Status)} {x : Nat} {st : Status}, (t.map (·.1)).Nodup → (x, st) ∈ t →
    statusOf t x = some st
  | [], _, _, _, h => by cases h
  | e :: es, x, st, hnd, h => by
    simp only [List.map_cons, List.nodup_cons] at hnd
    unfold statusOf
    rcases List.mem_cons.1 h with rfl | h'
    · simp [List.find?_cons]
    · have hne : e.1 ≠ x := by
        intro he
        exact hnd.1 (he ▸ List.mem_map.2 ⟨(x, st), h', rfl⟩)
      have h1 : (e.1 == x) = false := by simpa using hne
      simp only [List.find?_cons, h1]
      exact statusOf_of_mem hnd.2 h'

theorem mem_of_statusOf : ∀ {t : List (Nat × Status)} {x : Nat} {st : Status}, statusOf t x = some st → (x, st) ∈ t
  | [], _, _, h => by simp [statusOf] at h
  | e :: es, x, st, h => by
    unfold statusOf at h
    by_cases he : (e.1 == x) = true
    · simp only [List.find?_cons, he, Option.map_some, Option.some.injEq] at h
      have : e.1 = x := by simpa using he
      exact List.mem_cons.2 (Or.inl (by rw [← this, ← h]))
    · simp only [List.find?_cons, he] at h
      exact List.mem_cons_of_mem _ (mem_of_statusOf h)

theorem mem_idsWith {t : List (Nat × Status)} {x : Nat} {st : Status} : x ∈ idsWith st t ↔ (x, st) ∈ t := by
  unfold idsWith
  simp only [List.mem_map, List.mem_filter, beq_iff_eq]
  constructor
  · rintro ⟨⟨y, s⟩, ⟨hm, hs⟩, rfl⟩
    simp only at hs
    exact hs ▸ hm
  · intro h
    exact ⟨(x, st), ⟨h, rfl⟩, rfl⟩

structure Inv (σ : State) : Prop where
  ids : σ.table.map (·.1) = List.range σ.nextId
  last : σ.lastCommitted < σ.nextId
  none_pending : σ.allocated = [] ∧ σ.snapped = []
  sound : ∀ s ∈ σ.snaps, ∀ x, s.cb x = true → statusOf σ.table x = some .committed

theorem inv_init : Inv State.init := by
  refine ⟨by decide, by decide, ⟨rfl, rfl⟩, ?_⟩
  intro s hs
  simp [State.init] at hs

theorem nodup_ids {σ : State} (h : Inv σ) : (σ.table.map (·.1)).Nodup := by
  rw [h.ids]; exact List.nodup_range

theorem registered {σ : State} (h : Inv σ) {x : Nat} (hx : x < σ.nextId) : ∃ st, statusOf σ.table x = some st := by
  have : x ∈ σ.table.map (·.1) := by rw [h.ids]; exact List.mem_range.2 hx
  obtain ⟨⟨y, st⟩, hm, rfl⟩ := List.mem_map.1 this
  exact ⟨st, statusOf_of_mem (nodup_ids h) hm⟩

theorem inv_step {σ σ' : State} {op : Op} (h : Inv σ) (hs : step Defects.none σ op = some σ') : Inv σ' := by
  cases op with
  | alloc => simp [step, Defects.none] at hs
  | snap x => simp [step, Defects.none] at hs
  | register x =>
    simp only [step, Defects.none] at hs
    cases hf : σ.snapped.find? (fun s => s.xid == x) <;> simp [hf] at hs
  | begin =>
    simp only [step, Option.some.injEq] at hs
    subst hs
    refine ⟨?_, ?_, h.none_pending, ?_⟩
    · simp [h.ids, List.range_succ]
    · exact Nat.lt_succ_of_lt h.last
    · intro s hsm x hcb
      rcases List.mem_cons.1 hsm with rfl | hold
      · -- the new snapshot: x ≤ lastCommitted, registered, neither active nor aborted
        simp only [Snap.cb, State.takeSnap, Bool.and_eq_true, Bool.not_eq_true', decide_eq_false_iff_not,
          List.contains_eq_mem, decide_eq_true_eq, Nat.not_lt] at hcb
        obtain ⟨⟨hle, hna⟩, hnb⟩ := hcb
        have hle' : x ≤ σ.lastCommitted := by
          have : ¬ σ.lastCommitted < x := of_decide_eq_false hle
          exact Nat.le_of_not_lt this
        have hlt : x < σ.nextId := Nat.lt_of_le_of_lt hle' h.last
        obtain ⟨st, hst⟩ := registered h hlt
        apply statusOf_append_of_some
        cases st with
        | committed => exact hst
        | active => exact (hna (mem_idsWith.2 (mem_of_statusOf hst))).elim
        | aborted => exact (hnb (mem_idsWith.2 (mem_of_statusOf hst))).elim
      · exact statusOf_append_of_some _ (h.sound s hold x hcb)
  | commit x =>
    simp only [step] at hs
    by_cases hact : statusOf σ.table x = some .active
    · simp only [hact, if_true, Option.some.injEq] at hs
      subst hs
      have hxlt : x < σ.nextId := by
        have hmem : x ∈ σ.table.map (·.1) := List.mem_map.2 ⟨(x, Status.active), mem_of_statusOf hact, rfl⟩
        rw [h.ids] at hmem
        exact List.mem_range.1 hmem
      refine ⟨by simp [ids_setStatus, h.ids], ?_, h.none_pending, ?_⟩
      · simp only
        exact Nat.max_lt.2 ⟨h.last, hxlt⟩
      · intro s hsm y hcb
        rw [statusOf_setStatus]
        by_cases hyx : y = x
        · simp [hyx, hact]
        · simp only [hyx, if_false]
          exact h.sound s hsm y hcb
    · simp [hact] at hs
  | abort x =>
    simp only [step] at hs
    by_cases hact : statusOf σ.table x = some .active
    · simp only [hact, if_true, Option.some.injEq] at hs
      subst hs
      refine ⟨by simp [ids_setStatus, h.ids], h.last, h.none_pending, ?_⟩
      intro s hsm y hcb
      have hy := h.sound s hsm y hcb
      rw [statusOf_setStatus]
      by_cases hyx : y = x
      · subst hyx; rw [hact] at hy; cases hy
      · simp only [hyx, if_false]; exact hy
    · simp [hact] at hs

theorem inv_reachable {σ : State} (hr : Reachable Defects.none σ) : Inv σ := by
  induction hr with
  | init => exact inv_init
  | step _ hs ih => exact inv_step ih hs

end AxVerif.Coord
