/-
  Helper lemmas for `Thm/C13.bounded_growth`: one autocommit statement stacks at most one new version on a row, so that the
  VACUUM that follows leaves exactly one version per row.  `Defects.none`, `VDefects.none`.
-/
import AxVerif.Lemmas.Vacuum
namespace AxVerif.Db
open AxVerif.Db

def Effect.isIns : Effect → Bool
  | .ins _ _ _ => true
  | _ => false

/-- row ids targeted by the UPDATE effects, in order -/
def updRids : List Effect → List Rid
  | [] => []
  | .upd rid _ _ :: es => rid :: updRids es
  | _ :: es => updRids es

/-! ### what the plans emit -/

theorem planIns_updRids (ts : TableSchema) (c : Nat) : ∀ (rows : List (List Val)) (pb : Option Probe) (v : View) (j : Nat),
    updRids (planIns ts c pb v rows j).effs = []
  | [], _, _, _ => rfl
  | r :: rs, pb, v, j => by
    unfold planIns
    split
    · rfl
    · split
      · rfl
      · split
        · rfl
        · simp only [Plan.cons, updRids]
          exact planIns_updRids ts c rs _ _ _

theorem planDel_updRids (t : String) (p : Option (Nat × CmpOp × Val)) : ∀ (rs : List ARow),
    updRids (planDel t p rs).effs = []
  | [] => rfl
  | r :: rs => by
    unfold planDel
    split
    · simp only [Plan.cons, updRids]; exact planDel_updRids t p rs
    · exact planDel_updRids t p rs

theorem planUpd_effs (ts : TableSchema) (ci : Nat) (col : Col) (add : Bool) (x : Val) (p : Option (Nat × CmpOp × Val)) :
    ∀ (rs : List ARow) (pb : Option Probe) (v : View),
      (∀ e ∈ (planUpd ts ci col add x p pb v rs).effs, Effect.isIns e = false) ∧
      (updRids (planUpd ts ci col add x p pb v rs).effs).Sublist (rs.map (·.rid))
  | [], _, _ => ⟨by simp [planUpd], by simp [planUpd, updRids]⟩
  | r :: rs, pb, v => by
    unfold planUpd
    split
    · split
      · exact ⟨by simp, by simp [updRids]⟩
      · split
        · exact ⟨by simp, by simp [updRids]⟩
        · split
          · exact ⟨by simp, by simp [updRids]⟩
          · split
            · refine ⟨?_, ?_⟩
              · intro e he
                simp only [List.mem_singleton] at he
                subst he; rfl
              · simp only [updRids, List.map_cons]
                exact List.Sublist.cons_cons _ (List.nil_sublist _)
            · obtain ⟨h1, h2⟩ := planUpd_effs ts ci col add x p rs (Probe.step pb v (Effect.upd r.rid ci _))
                (v.apply (Effect.upd r.rid ci _))
              refine ⟨?_, ?_⟩
              · intro e he
                simp only [Plan.cons, List.mem_cons] at he
                rcases he with rfl | he
                · rfl
                · exact h1 e he
              · simp only [Plan.cons, updRids, List.map_cons]
                exact List.Sublist.cons_cons _ h2
    · obtain ⟨h1, h2⟩ := planUpd_effs ts ci col add x p rs pb v
      exact ⟨h1, by simp only [List.map_cons]; exact List.Sublist.cons _ h2⟩

theorem sorted_rids_nodup (v : View) (h : SortedV v) : (v.map (·.rid)).Nodup := by
  unfold SortedV at h
  rw [List.Nodup, List.pairwise_map]
  exact h.imp (fun {a b} hab e => by rw [e] at hab; exact ridLt_irrefl _ hab)

/-- the effects of one statement planned against a view in row-id order: either no UPDATE effect at all, or no INSERT effect
    and UPDATE effects on pairwise different rows -/
theorem planStmt_effs (pb : Option Probe) (cat : Catalog) (c j : Nat) (v : View) (hv : SortedV v) (st : Stmt) :
    updRids (planStmt pb cat c j v st).effs = [] ∨
    ((∀ e ∈ (planStmt pb cat c j v st).effs, Effect.isIns e = false) ∧ (updRids (planStmt pb cat c j v st).effs).Nodup) := by
  cases st with
  | sel t p =>
    left
    simp only [planStmt]
    split
    · rfl
    · split <;> rfl
  | ins t rows =>
    left
    simp only [planStmt]
    split
    · rfl
    · split
      · rfl
      · exact planIns_updRids _ _ _ _ _ _
  | upd t col add x p =>
    simp only [planStmt]
    split
    · left; rfl
    · split
      · left; rfl
      · split
        · left; rfl
        · right
          obtain ⟨h1, h2⟩ := planUpd_effs _ _ _ add x _ v pb v
          exact ⟨h1, h2.nodup (sorted_rids_nodup v hv)⟩
  | del t p =>
    left
    simp only [planStmt]
    split
    · rfl
    · split
      · rfl
      · exact planDel_updRids _ _ _

/-! ### what the effects do to the version chains -/

/-- below the head, only versions whose creator satisfies `P` -/
def TailP (P : Nat → Prop) (r : Row) : Prop := ∀ w ∈ r.versions.tail, P w.creator

theorem delete_versions (s : Snapshot) (r : Row) : (r.delete D0 s).versions = r.versions := by
  rw [delete_none]; split <;> rfl

theorem delete_rid (s : Snapshot) (r : Row) : (r.delete D0 s).rid = r.rid := by
  rw [delete_none]; split <;> rfl

theorem update_rid (s : Snapshot) (c : Nat) (x : Val) (r : Row) : (r.update D0 s c x).rid = r.rid := by
  rw [update_none]; split <;> rfl

/-- effects without UPDATE: existing chains are untouched, new rows have one version -/
theorem tail_applyEffects_noUpd (P : Nat → Prop) (s : Snapshot) : ∀ (es : List Effect) (rows : List Row),
    updRids es = [] → (∀ r ∈ rows, TailP P r) → ∀ r' ∈ applyEffects D0 s rows es, TailP P r'
  | [], _, _, h => h
  | e :: es, rows, hu, h => by
    simp only [applyEffects, List.foldl_cons]
    cases e with
    | upd rid c x => simp [updRids] at hu
    | ins rid t vals =>
      apply tail_applyEffects_noUpd P s es _ (by simpa [updRids] using hu)
      intro r hr
      simp only [applyEffect, List.mem_append, List.mem_singleton] at hr
      rcases hr with hr | rfl
      · exact h r hr
      · intro w hw; simp at hw
    | del rid =>
      apply tail_applyEffects_noUpd P s es _ (by simpa [updRids] using hu)
      intro r hr
      simp only [applyEffect, List.mem_map] at hr
      obtain ⟨r0, hr0, rfl⟩ := hr
      intro w hw
      simp only [Row.apply] at hw
      split at hw
      · rw [delete_versions] at hw; exact h r0 hr0 w hw
      · exact h r0 hr0 w hw

/-- UPDATE effects on pairwise different rows (and no INSERT): every chain grows by at most its new head -/
theorem tail_applyEffects_upd (P : Nat → Prop) (s : Snapshot) : ∀ (es : List Effect) (rows : List Row),
    (∀ e ∈ es, e.isIns = false) → (updRids es).Nodup →
    (∀ r ∈ rows, TailP P r ∧ (r.rid ∈ updRids es → ∀ w ∈ r.versions, P w.creator)) →
    ∀ r' ∈ applyEffects D0 s rows es, TailP P r'
  | [], _, _, _, h => fun r hr => (h r hr).1
  | e :: es, rows, hni, hnd, h => by
    simp only [applyEffects, List.foldl_cons]
    have hni' : ∀ e' ∈ es, e'.isIns = false := fun e' he' => hni e' (List.mem_cons_of_mem _ he')
    cases e with
    | ins rid t vals =>
      have := hni _ (List.mem_cons_self ..)
      simp [Effect.isIns] at this
    | del rid =>
      apply tail_applyEffects_upd P s es _ hni' (by simpa [updRids] using hnd)
      intro r hr
      simp only [applyEffect, List.mem_map] at hr
      obtain ⟨r0, hr0, rfl⟩ := hr
      obtain ⟨h1, h2⟩ := h r0 hr0
      simp only [updRids] at h2
      simp only [Row.apply]
      split
      · refine ⟨?_, ?_⟩
        · intro w hw; rw [delete_versions] at hw; exact h1 w hw
        · intro hm w hw; rw [delete_versions] at hw; rw [delete_rid] at hm; exact h2 hm w hw
      · exact ⟨h1, h2⟩
    | upd rid c x =>
      simp only [updRids, List.nodup_cons] at hnd
      apply tail_applyEffects_upd P s es _ hni' hnd.2
      intro r hr
      simp only [applyEffect, List.mem_map] at hr
      obtain ⟨r0, hr0, rfl⟩ := hr
      obtain ⟨h1, h2⟩ := h r0 hr0
      simp only [updRids, List.mem_cons] at h2
      simp only [Row.apply]
      split
      · rename_i hrid
        have hall : ∀ w ∈ r0.versions, P w.creator := h2 (Or.inl hrid)
        refine ⟨?_, ?_⟩
        · rw [update_none]
          split
          · exact h1
          · intro w hw; simp only [List.tail_cons] at hw; exact hall w hw
        · intro hm
          rw [update_rid, hrid] at hm
          exact (hnd.1 hm).elim
      · exact ⟨h1, fun hm => h2 (Or.inr hm)⟩

/-! ### one autocommit statement -/

theorem abortTxn_rows (σ : State) (tid : Nat) : (σ.abortTxn tid).rows = σ.rows := rfl

theorem commitC_rows (σ : State) (tid : Nat) : (σ.commitC D0 tid).1.rows = σ.rows := by
  unfold State.commitC
  split
  · split
    · rfl
    · exact commitTxn_rows σ tid
  · exact commitTxn_rows σ tid

theorem commitTxn_lastCommitted (σ : State) (tid : Nat) :
    (σ.commitTxn tid).1.lastCommitted = σ.lastCommitted ∨ (σ.commitTxn tid).1.lastCommitted = tid := by
  unfold State.commitTxn
  split
  · left; rfl
  · split
    · left; rfl
    · show (if tid > σ.lastCommitted then tid else σ.lastCommitted) = _ ∨ (if tid > σ.lastCommitted then tid else σ.lastCommitted) = _
      split
      · right; rfl
      · left; rfl

theorem commitC_lastCommitted (σ : State) (tid : Nat) :
    (σ.commitC D0 tid).1.lastCommitted = σ.lastCommitted ∨ (σ.commitC D0 tid).1.lastCommitted = tid := by
  unfold State.commitC
  split
  · split
    · left; rfl
    · exact commitTxn_lastCommitted σ tid
  · exact commitTxn_lastCommitted σ tid

theorem sorted_view' (s : Snapshot) (rows : List Row) (h : rows.Pairwise (fun a b => ridLt a.rid b.rid)) :
    SortedV (view D0 s rows) := sorted_view s rows h

/-- after one autocommit statement, below the head of every chain there are only versions that were stored before -/
theorem auto_tail (σ : State) (α : Spec.State) (h : Rel σ α) (st : Stmt) (P : Nat → Prop)
    (hP : ∀ r ∈ σ.rows, ∀ w ∈ r.versions, P w.creator) :
    ∀ r ∈ (step D0 σ (.auto st)).1.rows, TailP P r := by
  have h0 : ∀ r ∈ σ.rows, TailP P r := fun r hr w hw => hP r hr w (List.mem_of_mem_tail hw)
  -- the rows are either untouched or the plan's effects applied to them
  have hrows : (step D0 σ (.auto st)).1.rows = σ.rows ∨
      ∃ s : Snapshot, (step D0 σ (.auto st)).1.rows =
        applyEffects D0 s σ.rows (planStmt none σ.cat σ.clock 0 (view D0 s σ.rows) st).effs := by
    simp only [step, stepCore]
    rw [stmt_none]
    have hb : (σ.beginTxn D0).1.rows = σ.rows := rfl
    split
    · left
      rfl
    · right
      refine ⟨(σ.beginTxn D0).1.snapOf (σ.beginTxn D0).2, ?_⟩
      show (State.commitC D0 _ _).1.rows = _
      rw [commitC_rows, write_none]; rfl
  rcases hrows with e | ⟨s, e⟩
  · rw [e]; exact h0
  · rw [e]
    have hsv : SortedV (view D0 s σ.rows) := sorted_view s σ.rows h.core.sinv.sorted
    rcases planStmt_effs none σ.cat σ.clock 0 (view D0 s σ.rows) hsv st with hu | ⟨hni, hnd⟩
    · exact tail_applyEffects_noUpd P s _ σ.rows hu h0
    · exact tail_applyEffects_upd P s _ σ.rows hni hnd (fun r hr => ⟨h0 r hr, fun _ => hP r hr⟩)

/-- the last committed id after an autocommit statement is the old one or the statement's transaction -/
theorem auto_lastCommitted (σ : State) (st : Stmt) :
    (step D0 σ (.auto st)).1.lastCommitted = σ.lastCommitted ∨ (step D0 σ (.auto st)).1.lastCommitted = σ.txns.length := by
  simp only [step, stepCore]
  have hw : ∀ (σ' : State) (tid : Nat) (es : List Effect), (σ'.write D0 tid es).lastCommitted = σ'.lastCommitted := by
    intro σ' tid es; rw [write_none]
  have hs : ((σ.beginTxn D0).1.stmt D0 (σ.beginTxn D0).2 0 st).1.lastCommitted = σ.lastCommitted := by
    rw [stmt_none]; split
    · rfl
    · rw [hw]; rfl
  split
  · left; exact hs
  · show (State.commitC D0 ((σ.beginTxn D0).1.stmt D0 (σ.beginTxn D0).2 0 st).1 (σ.beginTxn D0).2).1.lastCommitted = _ ∨
      (State.commitC D0 ((σ.beginTxn D0).1.stmt D0 (σ.beginTxn D0).2 0 st).1 (σ.beginTxn D0).2).1.lastCommitted = _
    rcases commitC_lastCommitted ((σ.beginTxn D0).1.stmt D0 (σ.beginTxn D0).2 0 st).1 (σ.beginTxn D0).2 with e | e
    · left; rw [e]; exact hs
    · right; rw [e]; rfl

end AxVerif.Db
