/-
  Helper lemmas for the tuple model, part 4: the whole encoded row — `decodeFor` on `encode L` (followed by up to 15
  bytes of anything, which covers the padded form) is `specVisible`.
-/
import AxVerif.Lemmas.TupleDelta
namespace AxVerif.Tuple
open AxVerif

/-- well-formed logical rows: everything fits the schema and the integer fields of the layout -/
structure WfRow (P : Params) (sch : Schema) (L : LRow) : Prop where
  keys : CellsFit P sch.keys (L.keys.map some)
  cur : CellsFit P sch.vals L.cur.vals
  creator : L.cur.creator < 2 ^ 64
  ver : L.cur.ver < 256
  deleter : XmaxOk L.deleter
  hist : HistOk P sch L.cur.vals L.hist

theorem encode_eq (P : Params) (sch : Schema) (L : LRow) :
    encode P sch L = encMain P sch L.cur.creator L.deleter L.cur.ver L.keys L.cur.vals
      ++ (if L.hist.isEmpty && !L.trail then [] else padTo (encMain P sch L.cur.creator L.deleter L.cur.ver L.keys L.cur.vals).length P.dhAlign)
      ++ encBlock P sch 0 L.hist := rfl

theorem decodeFor_encode_append (P : Params) (hP : P.Wf) (sch : Schema) (L : LRow) (hw : WfRow P sch L) (s : Snapshot)
    (post : Bytes) (hpost : post.length < 16) :
    decodeFor {} P sch s (encode P sch L ++ post) = .ok (specVisible {} s L) := by
  have a8 : AlignOk 8 := Or.inr (Or.inr (Or.inr rfl))
  rw [encode_eq]
  generalize hM : encMain P sch L.cur.creator L.deleter L.cur.ver L.keys L.cur.vals = M
  generalize hd : M ++ (if L.hist.isEmpty && !L.trail then [] else padTo M.length P.dhAlign) ++ encBlock P sch 0 L.hist ++ post = d
  have hdM : d = M ++ ((if L.hist.isEmpty && !L.trail then [] else padTo M.length P.dhAlign) ++ encBlock P sch 0 L.hist ++ post) := by
    rw [← hd]; simp only [List.append_assoc]
  obtain ⟨lay, hpl, hxmin, hxmax, _, hend, hl⟩ := parseLast_main P hP sch L.cur.creator L.deleter L.cur.ver L.keys L.cur.vals
    ((if L.hist.isEmpty && !L.trail then [] else padTo M.length P.dhAlign) ++ encBlock P sch 0 L.hist ++ post)
    hw.creator hw.deleter hw.ver hw.keys hw.cur
  rw [hM, ← hdM] at hpl hl
  rw [hM] at hend
  unfold decodeFor parseForSnapshot
  simp only [hpl, hxmax]
  -- the deleted test
  have hdel : deletedFor {} s L.deleter = specDeleted {} s L.deleter := by
    cases L.deleter with
    | none => rfl
    | some x => simp only [deletedFor, specDeleted, creatorVisible, Bool.not_false, Bool.true_and]; exact Bool.or_comm _ _
  rw [hdel]
  unfold specVisible
  by_cases hdeleted : specDeleted {} s L.deleter = true
  · simp only [hdeleted, if_true]
  · simp only [hdeleted, Bool.false_eq_true, if_false]
    -- the newest version
    have hvalid : validFor {} s lay = creatorVisible {} s L.cur.creator := by
      unfold validFor
      rw [hxmin, hxmax]
      cases hD : L.deleter with
      | none =>
        simp only [creatorVisible]
        rw [Bool.or_comm]; congr 1
        simp only [decide_eq_decide]; exact eq_comm
      | some x =>
        rw [hD] at hdeleted
        simp only [specDeleted, creatorVisible, Bool.or_eq_true, decide_eq_true_eq, not_or] at hdeleted
        have h1 : committedBefore {} s x = false := by simpa using hdeleted.2
        have h2 : decide (s.xid = x) = false := by
          simp only [decide_eq_false_iff_not]; intro h; exact hdeleted.1 h.symm
        simp only [h1, h2, Bool.or_false, Bool.not_false, Bool.and_true, creatorVisible]
        rw [Bool.or_comm]; congr 1
        simp only [decide_eq_decide]; exact eq_comm
    rw [hvalid]
    simp only [firstVisible]
    by_cases hv : creatorVisible {} s L.cur.creator = true
    · simp only [hv, if_true, toRow_of_layoutOk hl]
    · simp only [hv, Bool.false_eq_true, if_false]
      -- the walk over the history
      rw [hend]
      by_cases hE : (L.hist.isEmpty && !L.trail) = true
      · -- no delta, no gap: the data ends (at most 15 bytes) behind the main part
        have hnil : L.hist = [] := by
          simp only [Bool.and_eq_true, List.isEmpty_iff] at hE; exact hE.1
        have hshort : d.length < alignUp (alignUp M.length P.dhAlign) P.dhAlign + P.dhSize := by
          rw [← hd, hnil, hP.dha, hP.dh]
          have := alignUp_ge (c := M.length) a8
          have := alignUp_ge (c := alignUp M.length 8) a8
          simp only [List.isEmpty_nil, Bool.true_and, encBlock, List.append_nil, List.length_append]
          split <;> simp <;> omega
        rw [walk_none_of_short P sch s d _ _ lay hshort, hnil]
        simp [firstVisible]
      · have hd2 : d = (M ++ padTo M.length P.dhAlign) ++ encBlock P sch 0 L.hist ++ post := by
          rw [← hd, if_neg hE]
        have hpre : (M ++ padTo M.length P.dhAlign).length = alignUp M.length 8 + 0 := by
          rw [hP.dha, length_append_padTo M a8]; rfl
        have hfuel : L.hist.length ≤ d.length := by
          have := encBlock_length_ge P hP sch L.hist 0
          rw [hd2]; simp only [List.length_append]; omega
        have hwalk := walk_block P hP sch s L.keys d L.hist 0 (M ++ padTo M.length P.dhAlign) post (alignUp M.length 8) lay
          L.cur.vals d.length (alignUp_dvd8 _) hpre hd2 hpost hw.cur.length hw.hist hl hfuel
        rw [hpre, Nat.add_zero, ← hP.dha] at hwalk
        cases hfv : firstVisible {} s (L.hist.map (·.1)) with
        | none =>
          rw [hfv] at hwalk
          simp only at hwalk
          rw [hwalk]
        | some v =>
          rw [hfv] at hwalk
          obtain ⟨lay', hw1, hl'⟩ := hwalk
          rw [hw1]
          simp only [toRow_of_layoutOk hl']

end AxVerif.Tuple
