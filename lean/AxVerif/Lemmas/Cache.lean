/- Lemmas about the cache / pager model (helpers for Thm/C12.lean). -/
import AxVerif.Model.Cache
import AxVerif.Model.Config
namespace AxVerif.Cache

end AxVerif.Cache
