/- Lemmas about the cache / pager model (helpers for Thm/C12.lean). -/
import AxVerif.Model.Cache
import AxVerif.Model.Config
namespace AxVerif.Cache

/-! ### swap_remove -/

theorem perm_getElem_eraseIdx (l : List Frame) (i : Nat) (f : Frame) (h : l[i]? = some f) :
    l.Perm (f :: l.eraseIdx i) := by
  induction l generalizing i with
  | nil => simp at h
  | cons x xs ih =>
    cases i with
    | zero => simp at h; subst h; simp
    | succ j =>
      simp at h
      have := ih j h
      simp only [List.eraseIdx_cons_succ]
      exact (List.Perm.cons x this).trans (List.Perm.swap f x _)

theorem swapRemoveAt_perm_eraseIdx (l : List Frame) (i : Nat) (h : i < l.length) :
    (swapRemoveAt l i).Perm (l.eraseIdx i) := by
  unfold swapRemoveAt
  cases hl : l.getLast? with
  | none =>
    simp at hl; subst hl; simp at h
  | some y =>
    obtain ⟨m, rfl⟩ := List.getLast?_eq_some_iff.mp hl
    simp only [List.length_append, List.length_cons, List.length_nil, Nat.zero_add] at h ⊢
    by_cases h1 : i + 1 = m.length + 1
    · simp only [h1, if_true, List.dropLast_concat]
      have : i = m.length := by omega
      subst this
      rw [List.eraseIdx_eq_take_drop_succ]
      simp
    · have h2 : i < m.length := by omega
      simp only [h1, if_false, show i + 1 < m.length + 1 by omega, if_true]
      rw [List.set_append_left _ _ h2, List.dropLast_concat, List.eraseIdx_append_of_lt_length h2]
      rw [List.set_eq_take_append_cons_drop, if_pos h2, List.eraseIdx_eq_take_drop_succ]
      rw [List.append_assoc]
      refine List.Perm.append_left _ ?_
      show (y :: List.drop (i + 1) m).Perm (List.drop (i + 1) m ++ [y])
      exact (List.perm_append_singleton y _).symm

/-- Removing the entry at `i` with `swap_remove` leaves exactly the other entries (in some order). -/
theorem swapRemoveAt_perm (l : List Frame) (i : Nat) (f : Frame) (h : l[i]? = some f) :
    l.Perm (f :: swapRemoveAt l i) := by
  have hi : i < l.length := by
    rcases Nat.lt_or_ge i l.length with h' | h'
    · exact h'
    · rw [List.getElem?_eq_none h'] at h; cases h
  exact (perm_getElem_eraseIdx l i f h).trans (List.Perm.cons f (swapRemoveAt_perm_eraseIdx l i hi).symm)

/-! ### firstFree -/

theorem firstFree_some {free : Frame → Bool} {l : List Frame} {b i : Nat} (h : firstFree free l b = some i) :
    b ≤ i ∧ ∃ f, l[i - b]? = some f ∧ free f = true := by
  induction l generalizing b with
  | nil => simp [firstFree] at h
  | cons x xs ih =>
    simp only [firstFree] at h
    split at h
    · cases h
      refine ⟨Nat.le_refl _, x, ?_, ‹_›⟩
      simp
    · obtain ⟨h1, f, h2, h3⟩ := ih h
      refine ⟨by omega, f, ?_, h3⟩
      have : i - b = (i - (b + 1)) + 1 := by omega
      rw [this]
      simpa using h2

theorem firstFree_none {free : Frame → Bool} {l : List Frame} {b : Nat} (h : firstFree free l b = none) :
    ∀ f ∈ l, free f = false := by
  induction l generalizing b with
  | nil => simp
  | cons x xs ih =>
    simp only [firstFree] at h
    split at h
    · cases h
    · intro f hf
      rcases List.mem_cons.mp hf with rfl | hf
      · simpa using ‹¬free f = true›
      · exact ih h f hf

/-- the first free frame at or after position `s` -/
theorem firstFree_drop_some {free : Frame → Bool} {l : List Frame} {s i : Nat}
    (h : firstFree free (l.drop s) s = some i) : ∃ f, l[i]? = some f ∧ free f = true := by
  obtain ⟨h1, f, h2, h3⟩ := firstFree_some h
  refine ⟨f, ?_, h3⟩
  rw [List.getElem?_drop] at h2
  have : s + (i - s) = i := by omega
  rwa [this] at h2

theorem firstFree_take_some {free : Frame → Bool} {l : List Frame} {s i : Nat}
    (h : firstFree free (l.take s) 0 = some i) : ∃ f, l[i]? = some f ∧ free f = true := by
  obtain ⟨_, f, h2, h3⟩ := firstFree_some h
  refine ⟨f, ?_, h3⟩
  rw [List.getElem?_take] at h2
  simp only [Nat.sub_zero] at h2
  split at h2
  · exact h2
  · cases h2

/-! ### evict / insert -/


/-- what the three outcomes of `evict` mean for the cache -/
def EvictSpec (free : Frame → Bool) (c : Cache) : Cache × EvictResult → Prop
  | (c', .empty) => c' = c ∧ c.frames = []
  | (c', .victim f) => free f = true ∧ c.frames.Perm (f :: c'.frames) ∧ c'.capacity = c.capacity
  | (c', .oom) => c'.frames = c.frames ∧ c'.capacity = c.capacity

theorem evict_victim_ok (free : Frame → Bool) (c : Cache) (i : Nat) (f : Frame)
    (h : c.frames[i]? = some f) (hf : free f = true) :
    EvictSpec free c ({ c with frames := swapRemoveAt c.frames i, cursor := i }, .victim f) :=
  ⟨hf, swapRemoveAt_perm _ _ _ h, rfl⟩

theorem evict_spec (D : Defects) (free : Frame → Bool) (c : Cache) : EvictSpec free c (c.evict D free) := by
  unfold Cache.evict
  simp only []
  split
  · rename_i h0
    exact ⟨rfl, List.eq_nil_of_length_eq_zero h0⟩
  · split
    · split
      · split
        · rename_i i hi
          obtain ⟨f, h1, h2⟩ := firstFree_drop_some hi
          simp only [h1]
          exact evict_victim_ok free c i f h1 h2
        · exact ⟨rfl, rfl⟩
      · exact ⟨rfl, rfl⟩
    · split
      · rename_i i hi
        obtain ⟨f, h1, h2⟩ := firstFree_drop_some hi
        simp only [h1]
        exact evict_victim_ok free c i f h1 h2
      · split
        · rename_i i hi
          obtain ⟨f, h1, h2⟩ := firstFree_take_some hi
          simp only [h1]
          exact evict_victim_ok free c i f h1 h2
        · exact ⟨rfl, rfl⟩


theorem evict_oom_all_pinned (D : Defects) (hD : D.cursorForwardOnly = false) (free : Frame → Bool) (c : Cache)
    (h : (c.evict D free).2 = .oom) : c.frames ≠ [] ∧ ∀ f ∈ c.frames, free f = false := by
  unfold Cache.evict at h
  simp only [hD] at h
  split at h
  · cases h
  · rename_i hn
    refine ⟨fun hnil => hn (by simp [hnil]), ?_⟩
    simp only [Bool.false_eq_true, if_false] at h
    split at h
    · rename_i i hi
      obtain ⟨f, h1, h2⟩ := firstFree_drop_some hi
      simp only [h1] at h
      cases h
    · rename_i hdrop
      split at h
      · rename_i i hi
        obtain ⟨f, h1, h2⟩ := firstFree_take_some hi
        simp only [h1] at h
        cases h
      · rename_i htake
        intro f hf
        rw [← List.take_append_drop (if c.cursor < c.frames.length then c.cursor else 0) c.frames] at hf
        rcases List.mem_append.mp hf with hf | hf
        · exact firstFree_none htake f hf
        · exact firstFree_none hdrop f hf

def InsertSpec (free : Frame → Bool) (c : Cache) (f : Frame) : Cache × InsertResult → Prop
  | (_, .replaced _) => False
  | (c', .inserted none) => c'.frames = c.frames ++ [f] ∧ c'.capacity = c.capacity
  | (c', .inserted (some v)) =>
    free v = true ∧ c'.capacity = c.capacity ∧ ∃ rest, c.frames.Perm (v :: rest) ∧ c'.frames = rest ++ [f]
  | (c', .oom) => c'.frames = c.frames ∧ c'.capacity = c.capacity

theorem insert_spec (D : Defects) (free : Frame → Bool) (c : Cache) (f : Frame) (h : c.get f.page = none) :
    InsertSpec free c f (c.insert D free f) := by
  unfold Cache.insert
  simp only [h]
  split
  · have := evict_spec D free c
    split
    · rename_i c' heq
      rw [heq] at this
      exact this
    · rename_i c' heq
      rw [heq] at this
      obtain ⟨rfl, h2⟩ := this
      exact ⟨rfl, rfl⟩
    · rename_i c' v heq
      rw [heq] at this
      obtain ⟨h1, h2, h3⟩ := this
      exact ⟨h1, h3, c'.frames, h2, rfl⟩
  · exact ⟨rfl, rfl⟩

theorem insert_oom (D : Defects) (hD : D.cursorForwardOnly = false) (free : Frame → Bool) (c : Cache) (f : Frame)
    (h : (c.insert D free f).2 = .oom) :
    c.capacity ≤ c.frames.length ∧ c.frames ≠ [] ∧ ∀ g ∈ c.frames, free g = false := by
  unfold Cache.insert at h
  split at h
  · cases h
  · split at h
    · rename_i hcap
      have := evict_oom_all_pinned D hD free c
      split at h
      · rename_i c' heq
        rw [heq] at this
        exact ⟨hcap, this rfl⟩
      · cases h
      · cases h
    · cases h



/-! ### disk -/
@[simp] theorem Disk.read_write (d : Disk) (p v q : Nat) :
    (d.write p v).read q = if q = p then v else d.read q := by
  unfold Disk.read Disk.write
  simp only [List.lookup_cons]
  by_cases h : q = p
  · subst h; simp
  · have : (q == p) = false := by simpa using h
    simp [this, h]

@[simp] theorem Disk.len_write (d : Disk) (p v : Nat) : (d.write p v).len = max d.len (p + 1) := rfl

/-- invariant of the pager state w.r.t. the flat store `σ`; `x` = a page that is allowed to be neither cached nor on
    disk (the page being brought in) -/
structure InvX (s : Pager) (σ : Nat → Option Nat) (x : Option Nat) : Prop where
  nodup : (s.mem.cache.frames.map (·.page)).Nodup
  fids : (s.mem.cache.frames.map (·.fid)).Nodup
  fidLt : ∀ f ∈ s.mem.cache.frames, f.fid < s.mem.nextFid
  cached : ∀ f ∈ s.mem.cache.frames, σ f.page = some f.val
  clean : ∀ f ∈ s.mem.cache.frames, f.dirty = false → f.page < s.disk.len ∧ s.disk.read f.page = f.val
  uncached : ∀ p v, σ p = some v → some p ≠ x → (∀ f ∈ s.mem.cache.frames, f.page ≠ p) →
    p < s.disk.len ∧ s.disk.read p = v
  dom : ∀ p, (σ p).isSome = true ↔ (1 ≤ p ∧ p < s.total)
  diskLen : s.disk.len ≤ s.total
  handles : ∀ h ∈ s.mem.handles, ∃ f ∈ s.mem.cache.frames, f.fid = h.fid ∧ f.page = h.page
  lost : s.lost = []
  totalPos : 1 ≤ s.total

abbrev Inv (s : Pager) (σ : Nat → Option Nat) : Prop := InvX s σ none

theorem InvX.weaken {s σ} (h : Inv s σ) (x : Option Nat) : InvX s σ x :=
  { h with uncached := fun p v hp _ hn => h.uncached p v hp (by simp) hn }

theorem get_none_of_not_cached {c : Cache} {p : Nat} (h : ∀ g ∈ c.frames, g.page ≠ p) : c.get p = none := by
  unfold Cache.get
  rw [List.find?_eq_none]
  intro g hg
  simpa using h g hg

theorem get_some {c : Cache} {p : Nat} {f : Frame} (h : c.get p = some f) : f ∈ c.frames ∧ f.page = p := by
  unfold Cache.get at h
  exact ⟨List.mem_of_find?_eq_some h, by simpa using List.find?_some h⟩

theorem get_none {c : Cache} {p : Nat} (h : c.get p = none) : ∀ g ∈ c.frames, g.page ≠ p := by
  unfold Cache.get at h
  rw [List.find?_eq_none] at h
  intro g hg
  simpa using h g hg

theorem page_lt_total {s σ x} (hI : InvX s σ x) {g : Frame} (hg : g ∈ s.mem.cache.frames) :
    1 ≤ g.page ∧ g.page < s.total := by
  have := hI.cached g hg
  exact (hI.dom g.page).mp (by simp [this])




/-- what `cache_frame` preserves besides the invariant -/
structure Same (s s' : Pager) : Prop where
  total : s'.total = s.total
  handles : s'.mem.handles = s.mem.handles
  nextFid : s'.mem.nextFid = s.mem.nextFid
  nextHid : s'.mem.nextHid = s.mem.nextHid
  cfg : s'.cfgCache = s.cfgCache
  lost : s'.lost = s.lost

theorem mem_free_false_of_handle {m : Mem} {f : Frame} {h : Handle} (hh : h ∈ m.handles) (hf : h.fid = f.fid) :
    m.free f = false := by
  unfold Mem.free
  rw [Bool.eq_false_iff]
  intro hall
  rw [List.all_eq_true] at hall
  have := hall h hh
  simp [hf] at this

theorem cacheFrame_inv (D : Defects) (s : Pager) (σ : Nat → Option Nat) (f : Frame)
    (hI : InvX s σ (some f.page))
    (hnc : ∀ g ∈ s.mem.cache.frames, g.page ≠ f.page)
    (hfid : f.fid < s.mem.nextFid) (hfresh : ∀ g ∈ s.mem.cache.frames, g.fid ≠ f.fid)
    (hσ : σ f.page = some f.val)
    (hclean : f.dirty = false → f.page < s.disk.len ∧ s.disk.read f.page = f.val)
    (s' : Pager) (hs : s.cacheFrame D f = (s', true)) :
    Inv s' σ ∧ f ∈ s'.mem.cache.frames ∧ Same s s' := by
  have hspec := insert_spec D s.mem.free s.mem.cache f (get_none_of_not_cached hnc)
  unfold Pager.cacheFrame at hs
  split at hs
  · cases hs
  · rename_i c old heq
    rw [heq] at hspec
    exact hspec.elim
  · -- inserted without eviction
    rename_i c heq
    rw [heq] at hspec
    obtain ⟨hfr, hcap⟩ := hspec
    simp only [Prod.mk.injEq, and_true] at hs
    subst hs
    refine ⟨?_, by simp [hfr], ⟨rfl, rfl, rfl, rfl, rfl, rfl⟩⟩
    constructor
    · simp only [hfr, List.map_append, List.map_cons, List.map_nil]
      rw [List.nodup_append]
      refine ⟨hI.nodup, by simp, ?_⟩
      intro a ha b hb
      simp only [List.mem_singleton] at hb
      subst hb
      obtain ⟨g, hg, rfl⟩ := List.mem_map.mp ha
      exact hnc g hg
    · simp only [hfr, List.map_append, List.map_cons, List.map_nil]
      rw [List.nodup_append]
      refine ⟨hI.fids, by simp, ?_⟩
      intro a ha b hb
      simp only [List.mem_singleton] at hb
      subst hb
      obtain ⟨g, hg, rfl⟩ := List.mem_map.mp ha
      exact hfresh g hg
    · intro g hg
      simp only [hfr, List.mem_append, List.mem_singleton] at hg
      rcases hg with hg | rfl
      · exact hI.fidLt g hg
      · exact hfid
    · intro g hg
      simp only [hfr, List.mem_append, List.mem_singleton] at hg
      rcases hg with hg | rfl
      · exact hI.cached g hg
      · exact hσ
    · intro g hg hd
      simp only [hfr, List.mem_append, List.mem_singleton] at hg
      rcases hg with hg | rfl
      · exact hI.clean g hg hd
      · exact hclean hd
    · intro p v hp _ hn
      simp only [hfr, List.mem_append, List.mem_singleton] at hn
      have hpf : p ≠ f.page := fun e => hn f (Or.inr rfl) e.symm
      exact hI.uncached p v hp (by simpa using hpf) (fun g hg => hn g (Or.inl hg))
    · exact hI.dom
    · exact hI.diskLen
    · intro h hh
      obtain ⟨g, hg, h1, h2⟩ := hI.handles h hh
      exact ⟨g, by simp [hfr, hg], h1, h2⟩
    · exact hI.lost
    · exact hI.totalPos
  · -- inserted, evicting `v`
    rename_i c v heq
    rw [heq] at hspec
    obtain ⟨hfree, hcap, rest, hperm, hfr⟩ := hspec
    simp only [Prod.mk.injEq, and_true] at hs
    have hvmem : v ∈ s.mem.cache.frames := hperm.mem_iff.mpr (List.mem_cons_self)
    have hrest : ∀ g, g ∈ rest → g ∈ s.mem.cache.frames := fun g hg => hperm.mem_iff.mpr (List.mem_cons_of_mem _ hg)
    have hnd : (v.page :: rest.map (·.page)).Nodup := by
      have := (hperm.map (·.page)).nodup_iff.mp hI.nodup
      simpa using this
    have hndf : (v.fid :: rest.map (·.fid)).Nodup := by
      have := (hperm.map (·.fid)).nodup_iff.mp hI.fids
      simpa using this
    rw [List.nodup_cons] at hnd hndf
    have hvrest : ∀ g ∈ rest, g.page ≠ v.page := fun g hg e => hnd.1 (e ▸ List.mem_map_of_mem hg)
    have hvp := page_lt_total hI hvmem
    have hvf : v.page ≠ f.page := hnc v hvmem
    -- the disk after the write-back
    have hdisk : ∀ q, q ≠ v.page → s'.disk.read q = s.disk.read q := by
      intro q hq
      subst hs
      split <;> simp [hq]
    have hlen : s.disk.len ≤ s'.disk.len ∧ s'.disk.len ≤ s.total := by
      subst hs
      have := hI.diskLen
      split
      · simp only [Disk.len_write]; omega
      · exact ⟨Nat.le_refl _, this⟩
    have hvdisk : v.page < s'.disk.len ∧ s'.disk.read v.page = v.val := by
      by_cases hd : v.dirty = true
      · subst hs
        simp only [hd, if_true, Disk.len_write, Disk.read_write]
        exact ⟨by omega, trivial⟩
      · have hd' : v.dirty = false := by simpa using hd
        have := hI.clean v hvmem hd'
        subst hs
        simp only [hd', Bool.false_eq_true, if_false]
        exact this
    have hfr' : s'.mem.cache.frames = rest ++ [f] := by subst hs; split <;> exact hfr
    have hsame : Same s s' := by subst hs; split <;> exact ⟨rfl, rfl, rfl, rfl, rfl, rfl⟩
    refine ⟨?_, by simp [hfr'], hsame⟩
    constructor
    · simp only [hfr', List.map_append, List.map_cons, List.map_nil]
      rw [List.nodup_append]
      refine ⟨hnd.2, by simp, ?_⟩
      intro a ha b hb
      simp only [List.mem_singleton] at hb
      subst hb
      obtain ⟨g, hg, rfl⟩ := List.mem_map.mp ha
      exact hnc g (hrest g hg)
    · simp only [hfr', List.map_append, List.map_cons, List.map_nil]
      rw [List.nodup_append]
      refine ⟨hndf.2, by simp, ?_⟩
      intro a ha b hb
      simp only [List.mem_singleton] at hb
      subst hb
      obtain ⟨g, hg, rfl⟩ := List.mem_map.mp ha
      exact hfresh g (hrest g hg)
    · intro g hg
      rw [hsame.nextFid]
      simp only [hfr', List.mem_append, List.mem_singleton] at hg
      rcases hg with hg | rfl
      · exact hI.fidLt g (hrest g hg)
      · exact hfid
    · intro g hg
      simp only [hfr', List.mem_append, List.mem_singleton] at hg
      rcases hg with hg | rfl
      · exact hI.cached g (hrest g hg)
      · exact hσ
    · intro g hg hd
      simp only [hfr', List.mem_append, List.mem_singleton] at hg
      rcases hg with hg | rfl
      · have := hI.clean g (hrest g hg) hd
        rw [hdisk _ (hvrest g hg)]
        exact ⟨by omega, this.2⟩
      · have := hclean hd
        rw [hdisk _ (Ne.symm hvf)]
        exact ⟨by omega, this.2⟩
    · intro p v' hp _ hn
      simp only [hfr', List.mem_append, List.mem_singleton] at hn
      have hpf : p ≠ f.page := fun e => hn f (Or.inr rfl) e.symm
      by_cases hpv : p = v.page
      · subst hpv
        have := hI.cached v hvmem
        rw [this] at hp
        cases hp
        exact hvdisk
      · have := hI.uncached p v' hp (by simpa using hpf) (by
          intro g hg
          rcases List.mem_cons.mp (hperm.mem_iff.mp hg) with rfl | hg'
          · exact fun e => hpv e.symm
          · exact hn g (Or.inl hg'))
        rw [hdisk _ hpv]
        exact ⟨by omega, this.2⟩
    · intro p; rw [hsame.total]; exact hI.dom p
    · rw [hsame.total]; exact hlen.2
    · intro h hh
      rw [hsame.handles] at hh
      obtain ⟨g, hg, h1, h2⟩ := hI.handles h hh
      have hgv : g ≠ v := by
        rintro rfl
        have := mem_free_false_of_handle hh h1.symm
        rw [this] at hfree
        cases hfree
      rcases List.mem_cons.mp (hperm.mem_iff.mp hg) with rfl | hg'
      · exact (hgv rfl).elim
      · exact ⟨g, by simp [hfr', hg'], h1, h2⟩
    · rw [hsame.lost]; exact hI.lost
    · rw [hsame.total]; exact hI.totalPos




/-- what `read_page` preserves besides the invariant -/
structure SameR (s s' : Pager) : Prop where
  total : s'.total = s.total
  handles : s'.mem.handles = s.mem.handles
  nextHid : s'.mem.nextHid = s.mem.nextHid
  cfg : s'.cfgCache = s.cfgCache
  lost : s'.lost = s.lost

theorem SameR.refl (s : Pager) : SameR s s := ⟨rfl, rfl, rfl, rfl, rfl⟩

def ReadSpec (s : Pager) (σ : Nat → Option Nat) (p : Nat) : Pager × ReadResult → Prop
  | (s', .frame f) => Inv s' σ ∧ f ∈ s'.mem.cache.frames ∧ f.page = p ∧ SameR s s'
  | (s', .io) => s' = s ∧ σ p = none
  | (_, .oom) => True

theorem readPage_inv (D : Defects) (s : Pager) (σ : Nat → Option Nat) (p : Nat) (hI : Inv s σ) :
    ReadSpec s σ p (s.readPage D p) := by
  unfold Pager.readPage
  split
  · rename_i h0
    subst h0
    refine ⟨rfl, ?_⟩
    have := (hI.dom 0)
    cases h : σ 0 with
    | none => rfl
    | some v => rw [h] at this; simp at this
  · rename_i hp0
    split
    · rename_i f hget
      have := get_some hget
      exact ⟨hI, this.1, this.2, SameR.refl s⟩
    · rename_i hget
      have hnc := get_none hget
      split
      · rename_i hlen
        refine ⟨rfl, ?_⟩
        cases h : σ p with
        | none => rfl
        | some v =>
          have := hI.uncached p v h (by simp) hnc
          omega
      · rename_i hlen
        have hlen' : p < s.disk.len := by omega
        -- the page is allocated and its value is the one on disk
        have hdom : (σ p).isSome = true := (hI.dom p).mpr ⟨by omega, by have := hI.diskLen; omega⟩
        obtain ⟨v, hv⟩ := Option.isSome_iff_exists.mp hdom
        have hdisk := hI.uncached p v hv (by simp) hnc
        simp only []
        split
        · rename_i s' hcf
          let s1 : Pager := { s with mem := { s.mem with nextFid := s.mem.nextFid + 1 } }
          let f : Frame := { page := p, fid := s.mem.nextFid, val := s.disk.read p, dirty := false }
          have hI1 : InvX s1 σ (some f.page) :=
            { InvX.weaken hI (some p) with
              fidLt := fun g hg => Nat.lt_succ_of_lt (hI.fidLt g hg) }
          have := cacheFrame_inv D s1 σ f hI1 hnc (Nat.lt_succ_self _)
            (fun g hg => Nat.ne_of_lt (hI.fidLt g hg)) (by simp [f, hv, hdisk.2]) (fun _ => ⟨hlen', rfl⟩) s' hcf
          obtain ⟨h1, h2, h3⟩ := this
          exact ⟨h1, h2, rfl, ⟨h3.total, h3.handles, h3.nextHid, h3.cfg, h3.lost⟩⟩
        · trivial





theorem updFid_map_page (fid v : Nat) (l : List Frame) : (updFid fid (Frame.setVal v) l).map (·.page) = l.map (·.page) := by
  unfold updFid
  rw [List.map_map]
  apply List.map_congr_left
  intro x _
  simp only [Function.comp]
  split <;> rfl

theorem updFid_map_fid (fid v : Nat) (l : List Frame) : (updFid fid (Frame.setVal v) l).map (·.fid) = l.map (·.fid) := by
  unfold updFid
  rw [List.map_map]
  apply List.map_congr_left
  intro x _
  simp only [Function.comp]
  split <;> rfl

theorem eq_of_fid_eq {l : List Frame} (hnd : (l.map (·.fid)).Nodup) {a b : Frame} (ha : a ∈ l) (hb : b ∈ l)
    (h : a.fid = b.fid) : a = b := by
  induction l with
  | nil => cases ha
  | cons x xs ih =>
    simp only [List.map_cons, List.nodup_cons] at hnd
    rcases List.mem_cons.mp ha with rfl | ha' <;> rcases List.mem_cons.mp hb with rfl | hb'
    · rfl
    · exact (hnd.1 (h ▸ List.mem_map_of_mem hb')).elim
    · exact (hnd.1 (h ▸ List.mem_map_of_mem ha')).elim
    · exact ih hnd.2 ha' hb'

theorem eq_of_page_eq {l : List Frame} (hnd : (l.map (·.page)).Nodup) {a b : Frame} (ha : a ∈ l) (hb : b ∈ l)
    (h : a.page = b.page) : a = b := by
  induction l with
  | nil => cases ha
  | cons x xs ih =>
    simp only [List.map_cons, List.nodup_cons] at hnd
    rcases List.mem_cons.mp ha with rfl | ha' <;> rcases List.mem_cons.mp hb with rfl | hb'
    · rfl
    · exact (hnd.1 (h ▸ List.mem_map_of_mem hb')).elim
    · exact (hnd.1 (h ▸ List.mem_map_of_mem ha')).elim
    · exact ih hnd.2 ha' hb'

/-- Writing `v` through the frame `f` of the cache. -/
theorem update_inv (s : Pager) (σ : Nat → Option Nat) (f : Frame) (v : Nat) (hI : Inv s σ)
    (hf : f ∈ s.mem.cache.frames) :
    Inv { s with mem := s.mem.updateFrame f.fid (Frame.setVal v) } (fun q => if q = f.page then some v else σ q) := by
  have hmem : ∀ x', x' ∈ updFid f.fid (Frame.setVal v) s.mem.cache.frames →
      ∃ x ∈ s.mem.cache.frames, x' = if x.fid = f.fid then Frame.setVal v x else x := by
    intro x' hx'
    unfold updFid at hx'
    obtain ⟨x, hx, rfl⟩ := List.mem_map.mp hx'
    exact ⟨x, hx, rfl⟩
  constructor
  · show ((updFid f.fid (Frame.setVal v) s.mem.cache.frames).map (·.page)).Nodup
    rw [updFid_map_page]; exact hI.nodup
  · show ((updFid f.fid (Frame.setVal v) s.mem.cache.frames).map (·.fid)).Nodup
    rw [updFid_map_fid]; exact hI.fids
  · intro x' hx'
    obtain ⟨x, hx, rfl⟩ := hmem x' hx'
    have := hI.fidLt x hx
    split <;> exact this
  · intro x' hx'
    obtain ⟨x, hx, rfl⟩ := hmem x' hx'
    by_cases hxf : x.fid = f.fid
    · have : x = f := eq_of_fid_eq hI.fids hx hf hxf
      subst this
      simp [Frame.setVal]
    · simp only [hxf, if_false]
      have : x.page ≠ f.page := fun e => hxf (congrArg Frame.fid (eq_of_page_eq hI.nodup hx hf e))
      simp only [this, if_false]
      exact hI.cached x hx
  · intro x' hx' hd
    obtain ⟨x, hx, rfl⟩ := hmem x' hx'
    by_cases hxf : x.fid = f.fid
    · simp [hxf, Frame.setVal] at hd
    · simp only [hxf, if_false] at hd ⊢
      exact hI.clean x hx hd
  · intro p w hp _ hn
    have hn' : ∀ g ∈ s.mem.cache.frames, g.page ≠ p := by
      intro g hg
      have : g.page ∈ (updFid f.fid (Frame.setVal v) s.mem.cache.frames).map (·.page) := by
        rw [updFid_map_page]; exact List.mem_map_of_mem hg
      obtain ⟨g', hg', e⟩ := List.mem_map.mp this
      rw [← e]
      exact hn g' hg'
    have hpf : p ≠ f.page := fun e => hn' f hf e.symm
    simp only [hpf, if_false] at hp
    exact hI.uncached p w hp (by simp) hn'
  · intro p
    by_cases hpf : p = f.page
    · subst hpf
      simp only [if_true, Option.isSome_some, true_iff]
      exact page_lt_total hI hf
    · simp only [hpf, if_false]
      exact hI.dom p
  · exact hI.diskLen
  · intro h hh
    obtain ⟨g, hg, h1, h2⟩ := hI.handles h hh
    refine ⟨if g.fid = f.fid then Frame.setVal v g else g, ?_, ?_, ?_⟩
    · show _ ∈ updFid f.fid (Frame.setVal v) s.mem.cache.frames
      unfold updFid
      exact List.mem_map_of_mem (f := fun x => if x.fid = f.fid then Frame.setVal v x else x) hg
    · split <;> exact h1
    · split <;> exact h2
  · exact hI.lost
  · exact hI.totalPos




/-! ### checkpoint -/

theorem writeBack_read_other (d : Disk) (fs : List Frame) (p : Nat)
    (h : ∀ f ∈ fs, f.dirty = true → f.page ≠ p) : (writeBack d fs).read p = d.read p := by
  induction fs generalizing d with
  | nil => rfl
  | cons x xs ih =>
    simp only [writeBack]
    rw [ih _ (fun f hf => h f (List.mem_cons_of_mem _ hf))]
    split
    · rename_i hd
      have := h x List.mem_cons_self hd
      simp [Ne.symm this]
    · rfl

theorem writeBack_read_dirty (d : Disk) (fs : List Frame) (hnd : (fs.map (·.page)).Nodup) (f : Frame)
    (hf : f ∈ fs) (hd : f.dirty = true) : (writeBack d fs).read f.page = f.val := by
  induction fs generalizing d with
  | nil => cases hf
  | cons x xs ih =>
    simp only [List.map_cons, List.nodup_cons] at hnd
    simp only [writeBack]
    rcases List.mem_cons.mp hf with rfl | hf'
    · rw [writeBack_read_other]
      · simp [hd]
      · intro g hg _ e
        exact hnd.1 (e ▸ List.mem_map_of_mem hg)
    · exact ih _ hnd.2 hf'

theorem writeBack_len_ge (d : Disk) (fs : List Frame) : d.len ≤ (writeBack d fs).len := by
  induction fs generalizing d with
  | nil => exact Nat.le_refl _
  | cons x xs ih =>
    simp only [writeBack]
    refine Nat.le_trans ?_ (ih _)
    split
    · simp only [Disk.len_write]; omega
    · exact Nat.le_refl _

theorem writeBack_len_dirty (d : Disk) (fs : List Frame) (f : Frame) (hf : f ∈ fs) (hd : f.dirty = true) :
    f.page < (writeBack d fs).len := by
  induction fs generalizing d with
  | nil => cases hf
  | cons x xs ih =>
    simp only [writeBack]
    rcases List.mem_cons.mp hf with rfl | hf'
    · have := writeBack_len_ge (d.write f.page f.val) xs
      simp only [hd, if_true, Disk.len_write] at this ⊢
      omega
    · exact ih _ hf'

theorem writeBack_len_le (d : Disk) (fs : List Frame) (T : Nat) (hd : d.len ≤ T) (h : ∀ f ∈ fs, f.page < T) :
    (writeBack d fs).len ≤ T := by
  induction fs generalizing d with
  | nil => exact hd
  | cons x xs ih =>
    simp only [writeBack]
    apply ih _ _ (fun f hf => h f (List.mem_cons_of_mem _ hf))
    split
    · have := h x List.mem_cons_self
      simp only [Disk.len_write]; omega
    · exact hd

theorem park_same (m : Mem) (f : Frame) :
    (m.park f).cache = m.cache ∧ (m.park f).handles = m.handles ∧ (m.park f).nextFid = m.nextFid ∧
    (m.park f).nextHid = m.nextHid := by
  unfold Mem.park
  split <;> exact ⟨rfl, rfl, rfl, rfl⟩

theorem parkAll_same (m : Mem) (fs : List Frame) :
    (m.parkAll fs).cache = m.cache ∧ (m.parkAll fs).handles = m.handles ∧ (m.parkAll fs).nextFid = m.nextFid ∧
    (m.parkAll fs).nextHid = m.nextHid := by
  induction fs generalizing m with
  | nil => exact ⟨rfl, rfl, rfl, rfl⟩
  | cons x xs ih =>
    simp only [Mem.parkAll]
    obtain ⟨a, b, c, d⟩ := ih (m.park x)
    obtain ⟨a', b', c', d'⟩ := park_same m x
    exact ⟨a.trans a', b.trans b', c.trans c', d.trans d'⟩

/-- After a checkpoint with no frame pinned: the cache is empty and the file holds every page's value. -/
theorem flush_inv (D : Defects) (s : Pager) (σ : Nat → Option Nat) (hI : Inv s σ) (hh : s.mem.handles = []) :
    Inv (s.flush D) σ ∧ (s.flush D).mem.cache.frames = [] ∧ SameR s (s.flush D) ∧
    (s.flush D).mem.cache.capacity = (if D.clearZeroesCapacity then 0 else s.mem.cache.capacity) := by
  have hps := parkAll_same ({ s.mem with cache := (s.mem.cache.clear D).1 }) (s.mem.cache.clear D).2
  have hcache : (s.flush D).mem.cache = (s.mem.cache.clear D).1 := hps.1
  have hfr : (s.flush D).mem.cache.frames = [] := by rw [hcache]; rfl
  refine ⟨?_, hfr, ⟨rfl, ?_, ?_, rfl, rfl⟩, ?_⟩
  · have hdisk : (s.flush D).disk = writeBack s.disk s.mem.cache.frames := rfl
    constructor
    · rw [hfr]; simp
    · rw [hfr]; simp
    · rw [hfr]; intro f hf; cases hf
    · rw [hfr]; intro f hf; cases hf
    · rw [hfr]; intro f hf; cases hf
    · intro p v hp _ _
      rw [hdisk]
      by_cases hc : ∃ f ∈ s.mem.cache.frames, f.page = p
      · obtain ⟨f, hf, rfl⟩ := hc
        have hv := hI.cached f hf
        rw [hv] at hp
        cases hp
        by_cases hd : f.dirty = true
        · exact ⟨writeBack_len_dirty _ _ f hf hd, writeBack_read_dirty _ _ hI.nodup f hf hd⟩
        · have hd' : f.dirty = false := by simpa using hd
          have := hI.clean f hf hd'
          refine ⟨Nat.lt_of_lt_of_le this.1 (writeBack_len_ge _ _), ?_⟩
          rw [writeBack_read_other]
          · exact this.2
          · intro g hg hgd e
            have := eq_of_page_eq hI.nodup hg hf e
            subst this
            exact hd hgd
      · have hn : ∀ f ∈ s.mem.cache.frames, f.page ≠ p := fun f hf e => hc ⟨f, hf, e⟩
        have := hI.uncached p v hp (by simp) hn
        refine ⟨Nat.lt_of_lt_of_le this.1 (writeBack_len_ge _ _), ?_⟩
        rw [writeBack_read_other]
        · exact this.2
        · intro g hg _
          exact hn g hg
    · exact hI.dom
    · rw [hdisk]
      exact writeBack_len_le _ _ _ hI.diskLen (fun f hf => (page_lt_total hI hf).2)
    · intro h hmem
      have : (s.flush D).mem.handles = s.mem.handles := hps.2.1
      rw [this, hh] at hmem
      cases hmem
    · exact hI.lost
    · exact hI.totalPos
  · exact hps.2.1
  · exact hps.2.2.2
  · rw [hcache]; rfl




/-! ### the flat store the pager is compared with -/

/-- A flat page store: the last value written to every allocated page, the page counter, and which page each
    outstanding handle refers to. No cache, no disk, no capacity. -/
structure Spec where
  vals : List (Nat × Nat) := []
  total : Nat := 1
  pins : List (Nat × Nat) := []
  nextHid : Nat := 0
deriving Repr

def Spec.get (sp : Spec) (p : Nat) : Option Nat := sp.vals.lookup p
def Spec.put (sp : Spec) (p v : Nat) : Spec := { sp with vals := (p, v) :: sp.vals }
def Spec.pinOf (sp : Spec) (k : Nat) : Option (Nat × Nat) := sp.pins.find? (fun q => q.1 = k)

/-- One operation on the flat store (what every operation *means*, given that it did not run out of memory).
    `disk` looks at the file, which the flat store does not have: its answer here is a placeholder. -/
def Spec.step (sp : Spec) : POp → Spec × Out
  | .alloc => ({ sp.put sp.total 0 with total := sp.total + 1 }, .page sp.total)
  | .read p => match sp.get p with
    | some v => (sp, .val v)
    | none => (sp, .io)
  | .write p v => match sp.get p with
    | some _ => (sp.put p v, .ok)
    | none => (sp, .io)
  | .pin p => match sp.get p with
    | some _ => ({ sp with pins := sp.pins ++ [(sp.nextHid, p)], nextHid := sp.nextHid + 1 }, .handle sp.nextHid)
    | none => (sp, .io)
  | .unpin k => match sp.pinOf k with
    | some _ => ({ sp with pins := sp.pins.filter (fun q => q.1 != k) }, .ok)
    | none => (sp, .nohandle)
  | .hread k => match sp.pinOf k with
    | some q => (sp, match sp.get q.2 with | some v => .val v | none => .nohandle)
    | none => (sp, .nohandle)
  | .hwrite k v => match sp.pinOf k with
    | some q => (sp.put q.2 v, .ok)
    | none => (sp, .nohandle)
  | .flush => (sp, .ok)
  | .reopen => (sp, .ok)
  | .disk _ => (sp, .eof)

def Spec.run : Spec → List POp → Spec × List Out
  | sp, [] => (sp, [])
  | sp, op :: ops =>
    let (sp', o) := sp.step op
    let (sp'', os) := Spec.run sp' ops
    (sp'', o :: os)

def POp.isCheckpoint : POp → Bool
  | .flush | .reopen => true
  | _ => false

/-- checkpoints (and re-opens) happen only while no frame is referenced from outside the cache -/
def Spec.admissible : Spec → List POp → Bool
  | _, [] => true
  | sp, op :: ops => (!op.isCheckpoint || sp.pins.isEmpty) && Spec.admissible (sp.step op).1 ops

theorem Spec.get_put (sp : Spec) (p v : Nat) : (sp.put p v).get = fun q => if q = p then some v else sp.get q := by
  funext q
  unfold Spec.get Spec.put
  simp only [List.lookup_cons]
  by_cases h : q = p
  · subst h; simp
  · have : (q == p) = false := by simpa using h
    simp [this, h]

structure Coupled (s : Pager) (sp : Spec) : Prop where
  inv : Inv s sp.get
  total : sp.total = s.total
  pins : sp.pins = s.mem.handles.map (fun h => (h.hid, h.page))
  nextHid : sp.nextHid = s.mem.nextHid

/-- the invariant only looks at the frames, the disk, the counters and (monotonically) the handles -/
theorem Inv.transfer {s s' : Pager} {σ : Nat → Option Nat} (hI : Inv s σ)
    (hfr : s'.mem.cache.frames = s.mem.cache.frames) (hfid : s'.mem.nextFid = s.mem.nextFid)
    (hdisk : s'.disk = s.disk) (htot : s'.total = s.total) (hlost : s'.lost = s.lost)
    (hh : ∀ h ∈ s'.mem.handles, h ∈ s.mem.handles) : Inv s' σ := by
  constructor
  · rw [hfr]; exact hI.nodup
  · rw [hfr]; exact hI.fids
  · rw [hfr, hfid]; exact hI.fidLt
  · rw [hfr]; exact hI.cached
  · rw [hfr, hdisk]; exact hI.clean
  · rw [hfr, hdisk]; exact hI.uncached
  · rw [htot]; exact hI.dom
  · rw [htot, hdisk]; exact hI.diskLen
  · intro h hmem; rw [hfr]; exact hI.handles h (hh h hmem)
  · rw [hlost]; exact hI.lost
  · rw [htot]; exact hI.totalPos

theorem Coupled.pinOf {s sp} (hC : Coupled s sp) (k : Nat) :
    sp.pinOf k = (s.mem.handle? k).map (fun h => (h.hid, h.page)) := by
  unfold Spec.pinOf Mem.handle?
  rw [hC.pins, List.find?_map]
  rfl

theorem frameOf_cached {s σ} (hI : Inv s σ) {h : Handle} (hh : h ∈ s.mem.handles) :
    ∃ f ∈ s.mem.cache.frames, f.fid = h.fid ∧ f.page = h.page ∧ s.mem.frameOf h.fid = some f := by
  obtain ⟨f, hf, h1, h2⟩ := hI.handles h hh
  refine ⟨f, hf, h1, h2, ?_⟩
  unfold Mem.frameOf
  cases hfind : s.mem.cache.frames.find? (fun g => g.fid = h.fid) with
  | none =>
    rw [List.find?_eq_none] at hfind
    exact (hfind f hf (by simpa using h1)).elim
  | some f' =>
    have h3 : f'.fid = h.fid := by simpa using List.find?_some hfind
    have := eq_of_fid_eq hI.fids (List.mem_of_find?_eq_some hfind) hf (h3.trans h1.symm)
    simp [this]


/-! ### simulation: one step -/


def POp.isDisk : POp → Bool
  | .disk _ => true
  | _ => false

/-- conclusion of the simulation step -/
def StepOk (s : Pager) (sp : Spec) (D : Defects) (op : POp) : Prop :=
  Coupled (s.step D op).1 (sp.step op).1 ∧ (op.isDisk = false → (s.step D op).2 = (sp.step op).2)

theorem lost_contains_false {s σ} (hI : Inv s σ) (p : Nat) : s.lost.contains p = false := by
  rw [hI.lost]; rfl

theorem step_alloc (D : Defects) (s : Pager) (sp : Spec) (hC : Coupled s sp) (hoom : (s.step D .alloc).2 ≠ .oom) :
    StepOk s sp D .alloc := by
  have hI := hC.inv
  let s1 : Pager := { s with total := s.total + 1, mem := { s.mem with nextFid := s.mem.nextFid + 1 } }
  let f : Frame := { page := s.total, fid := s.mem.nextFid, val := 0, dirty := true }
  let σ' := (sp.put sp.total 0).get
  have hσ' : σ' = fun q => if q = s.total then some 0 else sp.get q := by
    show (sp.put sp.total 0).get = _
    rw [Spec.get_put, hC.total]
  have hlt : ∀ g ∈ s.mem.cache.frames, g.page ≠ s.total := fun g hg => Nat.ne_of_lt (page_lt_total hI hg).2
  have hI1 : InvX s1 σ' (some f.page) := by
    constructor
    · exact hI.nodup
    · exact hI.fids
    · exact fun g hg => Nat.lt_succ_of_lt (hI.fidLt g hg)
    · intro g hg
      rw [hσ']
      simp only [hlt g hg, if_false]
      exact hI.cached g hg
    · exact hI.clean
    · intro p v hp hx hn
      have hpt : p ≠ s.total := fun e => hx (by simp [f, e])
      rw [hσ'] at hp
      simp only [hpt, if_false] at hp
      exact hI.uncached p v hp (by simp) hn
    · intro p
      rw [hσ']
      by_cases hpt : p = s.total
      · subst hpt
        simp only [if_true, Option.isSome_some, true_iff]
        exact ⟨hI.totalPos, Nat.lt_succ_self _⟩
      · simp only [hpt, if_false]
        rw [hI.dom p]
        show _ ↔ 1 ≤ p ∧ p < s.total + 1
        omega
    · exact Nat.le_succ_of_le hI.diskLen
    · exact hI.handles
    · exact hI.lost
    · exact Nat.le_succ_of_le hI.totalPos
  have key := cacheFrame_inv D s1 σ' f hI1 hlt (Nat.lt_succ_self _)
    (fun g hg => Nat.ne_of_lt (hI.fidLt g hg)) (by rw [hσ']; simp [f]) (by simp [f])
  unfold StepOk
  have hstep : s.step D .alloc =
      match s1.cacheFrame D f with
      | (s', true) => (s', .page s.total)
      | (s', false) => ({ s' with lost := s.total :: s'.lost }, .oom) := rfl
  rw [hstep] at hoom ⊢
  cases hcf : s1.cacheFrame D f with
  | mk s' b =>
    cases b with
    | false => rw [hcf] at hoom; exact (hoom rfl).elim
    | true =>
      obtain ⟨h1, _, h3⟩ := key s' hcf
      simp only []
      refine ⟨⟨h1, ?_, ?_, ?_⟩, fun _ => ?_⟩
      · show sp.total + 1 = s'.total
        rw [h3.total, hC.total]
      · show sp.pins = _
        rw [h3.handles]; exact hC.pins
      · show sp.nextHid = _
        rw [h3.nextHid]; exact hC.nextHid
      · show Out.page s.total = Out.page sp.total
        rw [hC.total]



theorem step_read (D : Defects) (s : Pager) (sp : Spec) (p : Nat) (hC : Coupled s sp)
    (hoom : (s.step D (.read p)).2 ≠ .oom) : StepOk s sp D (.read p) := by
  have hI := hC.inv
  have hspec := readPage_inv D s sp.get p hI
  unfold StepOk
  have hstep : s.step D (.read p) =
      match s.readPage D p with
      | (s', .frame f) => (s', .val f.val)
      | (s', .oom) => (s', .oom)
      | (s', .io) => (s', .io) := by
    show (if s.lost.contains p = true then _ else _) = _
    rw [lost_contains_false hI]; rfl
  rw [hstep] at hoom ⊢
  cases hrp : s.readPage D p with
  | mk s' r =>
    rw [hrp] at hspec hoom
    cases r with
    | oom => exact (hoom rfl).elim
    | io =>
      obtain ⟨rfl, hnone⟩ := hspec
      simp only [Spec.step, hnone]
      exact ⟨hC, fun _ => by first | trivial | rfl⟩
    | frame f =>
      obtain ⟨h1, h2, h3, h4⟩ := hspec
      have hv : sp.get p = some f.val := h3 ▸ h1.cached f h2
      simp only [Spec.step, hv]
      exact ⟨⟨h1, by rw [h4.total]; exact hC.total, by rw [h4.handles]; exact hC.pins,
        by rw [h4.nextHid]; exact hC.nextHid⟩, fun _ => by first | trivial | rfl⟩

theorem step_write (D : Defects) (s : Pager) (sp : Spec) (p v : Nat) (hC : Coupled s sp)
    (hoom : (s.step D (.write p v)).2 ≠ .oom) : StepOk s sp D (.write p v) := by
  have hI := hC.inv
  have hspec := readPage_inv D s sp.get p hI
  unfold StepOk
  have hstep : s.step D (.write p v) =
      match s.readPage D p with
      | (s', .frame f) => ({ s' with mem := s'.mem.updateFrame f.fid (Frame.setVal v) }, .ok)
      | (s', .oom) => (s', .oom)
      | (s', .io) => (s', .io) := by
    show (if s.lost.contains p = true then _ else _) = _
    rw [lost_contains_false hI]; rfl
  rw [hstep] at hoom ⊢
  cases hrp : s.readPage D p with
  | mk s' r =>
    rw [hrp] at hspec hoom
    cases r with
    | oom => exact (hoom rfl).elim
    | io =>
      obtain ⟨rfl, hnone⟩ := hspec
      simp only [Spec.step, hnone]
      exact ⟨hC, fun _ => by first | trivial | rfl⟩
    | frame f =>
      obtain ⟨h1, h2, h3, h4⟩ := hspec
      have hv : sp.get p = some f.val := h3 ▸ h1.cached f h2
      have hu := update_inv s' sp.get f v h1 h2
      simp only [Spec.step, hv]
      refine ⟨⟨?_, by show sp.total = s'.total; rw [h4.total]; exact hC.total, ?_, ?_⟩, fun _ => by first | trivial | rfl⟩
      · rw [Spec.get_put, ← h3]; exact hu
      · show sp.pins = _
        have : (s'.mem.updateFrame f.fid (Frame.setVal v)).handles = s'.mem.handles := rfl
        rw [this, h4.handles]; exact hC.pins
      · show sp.nextHid = s'.mem.nextHid
        rw [h4.nextHid]; exact hC.nextHid

theorem step_pin (D : Defects) (s : Pager) (sp : Spec) (p : Nat) (hC : Coupled s sp)
    (hoom : (s.step D (.pin p)).2 ≠ .oom) : StepOk s sp D (.pin p) := by
  have hI := hC.inv
  have hspec := readPage_inv D s sp.get p hI
  unfold StepOk
  have hstep : s.step D (.pin p) =
      match s.readPage D p with
      | (s', .frame f) => ({ s' with mem := (s'.mem.addHandle f).1 }, .handle (s'.mem.addHandle f).2)
      | (s', .oom) => (s', .oom)
      | (s', .io) => (s', .io) := by
    show (if s.lost.contains p = true then _ else _) = _
    rw [lost_contains_false hI]; rfl
  rw [hstep] at hoom ⊢
  cases hrp : s.readPage D p with
  | mk s' r =>
    rw [hrp] at hspec hoom
    cases r with
    | oom => exact (hoom rfl).elim
    | io =>
      obtain ⟨rfl, hnone⟩ := hspec
      simp only [Spec.step, hnone]
      exact ⟨hC, fun _ => by first | trivial | rfl⟩
    | frame f =>
      obtain ⟨h1, h2, h3, h4⟩ := hspec
      have hv : sp.get p = some f.val := h3 ▸ h1.cached f h2
      simp only [Spec.step, hv]
      refine ⟨⟨?_, by show sp.total = s'.total; rw [h4.total]; exact hC.total, ?_, ?_⟩, fun _ => ?_⟩
      · -- one more handle, on a frame of the cache
        have hbase : Inv s' sp.get := h1
        constructor
        · exact hbase.nodup
        · exact hbase.fids
        · exact hbase.fidLt
        · exact hbase.cached
        · exact hbase.clean
        · exact hbase.uncached
        · exact hbase.dom
        · exact hbase.diskLen
        · intro h hh
          have : h ∈ s'.mem.handles ++ [{ hid := s'.mem.nextHid, fid := f.fid, page := f.page }] := hh
          rcases List.mem_append.mp this with hh' | hh'
          · exact hbase.handles h hh'
          · simp only [List.mem_singleton] at hh'
            subst hh'
            exact ⟨f, h2, rfl, rfl⟩
        · exact hbase.lost
        · exact hbase.totalPos
      · show sp.pins ++ [(sp.nextHid, p)] = (s'.mem.handles ++ [_]).map _
        rw [List.map_append, h4.handles, ← hC.pins, hC.nextHid, ← h4.nextHid, ← h3]
        rfl
      · show sp.nextHid + 1 = s'.mem.nextHid + 1
        rw [h4.nextHid, hC.nextHid]
      · show Out.handle s'.mem.nextHid = Out.handle sp.nextHid
        rw [h4.nextHid, hC.nextHid]



theorem step_unpin (D : Defects) (s : Pager) (sp : Spec) (k : Nat) (hC : Coupled s sp) :
    StepOk s sp D (.unpin k) := by
  have hI := hC.inv
  have hp := hC.pinOf k
  unfold StepOk
  cases hh : s.mem.handle? k with
  | none =>
    rw [hh] at hp
    simp only [Pager.step, hh, Spec.step, hp, Option.map_none]
    exact ⟨hC, fun _ => by first | trivial | rfl⟩
  | some h =>
    rw [hh] at hp
    simp only [Pager.step, hh, Spec.step, hp, Option.map_some]
    refine ⟨⟨?_, hC.total, ?_, hC.nextHid⟩, fun _ => by first | trivial | rfl⟩
    · refine Inv.transfer (s' := { s with mem := s.mem.dropHandle k }) hI rfl rfl rfl rfl rfl ?_
      intro h' hh'
      have : h' ∈ s.mem.handles.filter (fun h => h.hid != k) := hh'
      exact (List.mem_filter.mp this).1
    · show sp.pins.filter _ = (s.mem.handles.filter (fun h => h.hid != k)).map _
      rw [hC.pins, List.filter_map]
      rfl

theorem step_hread (D : Defects) (s : Pager) (sp : Spec) (k : Nat) (hC : Coupled s sp) :
    StepOk s sp D (.hread k) := by
  have hI := hC.inv
  have hp := hC.pinOf k
  unfold StepOk
  cases hh : s.mem.handle? k with
  | none =>
    rw [hh] at hp
    simp only [Pager.step, hh, Spec.step, hp, Option.map_none]
    exact ⟨hC, fun _ => by first | trivial | rfl⟩
  | some h =>
    rw [hh] at hp
    have hmem : h ∈ s.mem.handles := List.mem_of_find?_eq_some hh
    obtain ⟨f, hf, h1, h2, h3⟩ := frameOf_cached hI hmem
    have hv : sp.get h.page = some f.val := h2 ▸ hI.cached f hf
    simp only [Pager.step, hh, Spec.step, hp, Option.map_some, h3, hv]
    exact ⟨hC, fun _ => by first | trivial | rfl⟩

theorem step_hwrite (D : Defects) (s : Pager) (sp : Spec) (k v : Nat) (hC : Coupled s sp) :
    StepOk s sp D (.hwrite k v) := by
  have hI := hC.inv
  have hp := hC.pinOf k
  unfold StepOk
  cases hh : s.mem.handle? k with
  | none =>
    rw [hh] at hp
    simp only [Pager.step, hh, Spec.step, hp, Option.map_none]
    exact ⟨hC, fun _ => by first | trivial | rfl⟩
  | some h =>
    rw [hh] at hp
    have hmem : h ∈ s.mem.handles := List.mem_of_find?_eq_some hh
    obtain ⟨f, hf, h1, h2, _⟩ := frameOf_cached hI hmem
    have hu := update_inv s sp.get f v hI hf
    simp only [Pager.step, hh, Spec.step, hp, Option.map_some]
    refine ⟨⟨?_, hC.total, hC.pins, hC.nextHid⟩, fun _ => by first | trivial | rfl⟩
    rw [Spec.get_put, ← h2, ← h1]
    exact hu

theorem handles_nil_of_pins {s sp} (hC : Coupled s sp) (h : sp.pins = []) : s.mem.handles = [] := by
  have := hC.pins
  rw [h] at this
  exact List.map_eq_nil_iff.mp this.symm

theorem step_flush (D : Defects) (s : Pager) (sp : Spec) (hC : Coupled s sp) (hp : sp.pins = []) :
    StepOk s sp D .flush := by
  obtain ⟨h1, _, h3, _⟩ := flush_inv D s sp.get hC.inv (handles_nil_of_pins hC hp)
  unfold StepOk
  simp only [Pager.step, Spec.step]
  exact ⟨⟨h1, by rw [h3.total]; exact hC.total, by rw [h3.handles]; exact hC.pins,
    by rw [h3.nextHid]; exact hC.nextHid⟩, fun _ => by first | trivial | rfl⟩

theorem step_reopen (D : Defects) (s : Pager) (sp : Spec) (hC : Coupled s sp) (hp : sp.pins = []) :
    StepOk s sp D .reopen := by
  obtain ⟨h1, h2, h3, _⟩ := flush_inv D s sp.get hC.inv (handles_nil_of_pins hC hp)
  unfold StepOk
  simp only [Pager.step, Spec.step]
  refine ⟨⟨?_, ?_, ?_, ?_⟩, fun _ => by first | trivial | rfl⟩
  · exact Inv.transfer h1 (by rw [h2]; rfl) rfl rfl rfl rfl (fun h hh => hh)
  · show sp.total = (s.flush D).total
    rw [h3.total]; exact hC.total
  · show sp.pins = (s.flush D).mem.handles.map _
    rw [h3.handles]; exact hC.pins
  · show sp.nextHid = (s.flush D).mem.nextHid
    rw [h3.nextHid]; exact hC.nextHid

theorem step_disk (D : Defects) (s : Pager) (sp : Spec) (p : Nat) (hC : Coupled s sp) :
    StepOk s sp D (.disk p) := by
  unfold StepOk
  refine ⟨?_, fun h => by cases h⟩
  have : (s.step D (.disk p)).1 = s := by
    simp only [Pager.step]
    split
    · rfl
    · split <;> rfl
  rw [this]
  exact hC

/-- One operation of the pager, on a state that represents the flat store `sp`, that does not answer out-of-memory
    (and, for a checkpoint, with no frame pinned): the new state represents the new flat store, and the answer is the
    flat store's answer. For every combination of defect flags. -/
theorem step_coupled (D : Defects) (s : Pager) (sp : Spec) (op : POp) (hC : Coupled s sp)
    (hoom : (s.step D op).2 ≠ .oom)
    (hadm : (!op.isCheckpoint || sp.pins.isEmpty) = true) : StepOk s sp D op := by
  cases op with
  | alloc => exact step_alloc D s sp hC hoom
  | read p => exact step_read D s sp p hC hoom
  | write p v => exact step_write D s sp p v hC hoom
  | pin p => exact step_pin D s sp p hC hoom
  | unpin k => exact step_unpin D s sp k hC
  | hread k => exact step_hread D s sp k hC
  | hwrite k v => exact step_hwrite D s sp k v hC
  | flush => exact step_flush D s sp hC (List.isEmpty_iff.mp (by simpa [POp.isCheckpoint] using hadm))
  | reopen => exact step_reopen D s sp hC (List.isEmpty_iff.mp (by simpa [POp.isCheckpoint] using hadm))
  | disk p => exact step_disk D s sp p hC




/-! ### simulation: whole runs -/

/-- the answers of the pager and of the flat store agree on every operation that is not a raw look at the file -/
def OutsAgree : List POp → List Out → List Out → Prop
  | [], [], [] => True
  | op :: ops, o :: os, o' :: os' => (op.isDisk = false → o = o') ∧ OutsAgree ops os os'
  | _, _, _ => False

theorem run_coupled (D : Defects) (s : Pager) (sp : Spec) (ops : List POp) (hC : Coupled s sp)
    (hoom : ∀ o ∈ (s.run D ops).2, o ≠ .oom) (hadm : sp.admissible ops = true) :
    Coupled (s.run D ops).1 (sp.run ops).1 ∧ OutsAgree ops (s.run D ops).2 (sp.run ops).2 := by
  induction ops generalizing s sp with
  | nil => exact ⟨hC, trivial⟩
  | cons op ops ih =>
    simp only [Spec.admissible, Bool.and_eq_true] at hadm
    have hrun : s.run D (op :: ops) =
        (((s.step D op).1.run D ops).1, (s.step D op).2 :: ((s.step D op).1.run D ops).2) := rfl
    have hsrun : sp.run (op :: ops) =
        (((sp.step op).1.run ops).1, (sp.step op).2 :: ((sp.step op).1.run ops).2) := rfl
    rw [hrun] at hoom ⊢
    rw [hsrun]
    have hstep := step_coupled D s sp op hC (hoom _ List.mem_cons_self) hadm.1
    have := ih (s.step D op).1 (sp.step op).1 hstep.1 (fun o ho => hoom o (List.mem_cons_of_mem _ ho)) hadm.2
    exact ⟨this.1, hstep.2, this.2⟩

theorem init_coupled (cap : Nat) : Coupled (Pager.init cap) {} := by
  refine ⟨?_, rfl, rfl, rfl⟩
  constructor
  · exact List.nodup_nil
  · exact List.nodup_nil
  · intro f hf; cases hf
  · intro f hf; cases hf
  · intro f hf; cases hf
  · intro p v hp; cases hp
  · intro p
    show (none : Option Nat).isSome = true ↔ 1 ≤ p ∧ p < 1
    simp
    omega
  · exact Nat.le_refl 1
  · intro h hh; cases hh
  · rfl
  · exact Nat.le_refl 1

/-- What a reader gets for page `p`: the cached frame if there is one, else what the file holds. -/
def readThrough (s : Pager) (p : Nat) : Option Nat :=
  match s.mem.cache.get p with
  | some f => some f.val
  | none => if p ≠ 0 ∧ p < s.disk.len then some (s.disk.read p) else none

theorem readThrough_eq {s : Pager} {σ : Nat → Option Nat} (hI : Inv s σ) (p : Nat) : readThrough s p = σ p := by
  unfold readThrough
  cases hget : s.mem.cache.get p with
  | some f =>
    obtain ⟨hf, rfl⟩ := get_some hget
    exact (hI.cached f hf).symm
  | none =>
    have hnc := get_none hget
    cases hσ : σ p with
    | some v =>
      have := hI.uncached p v hσ (by simp) hnc
      have hd := (hI.dom p).mp (by simp [hσ])
      have hp0 : p ≠ 0 := by omega
      simp [hp0, this.1, this.2]
    | none =>
      have hd := hI.dom p
      rw [hσ] at hd
      have := hI.diskLen
      have : ¬(p ≠ 0 ∧ p < s.disk.len) := by
        intro ⟨h0, h1⟩
        have := hd.mpr ⟨by omega, by omega⟩
        cases this
      simp only [this, if_false]




/-! ### out of memory -/

/-- "every frame of the cache is referenced from outside, and the cache is full" -/
def AllPinned (m : Mem) : Prop :=
  m.cache.capacity ≤ m.cache.frames.length ∧ m.cache.frames ≠ [] ∧ ∀ f ∈ m.cache.frames, m.free f = false

theorem cacheFrame_false (D : Defects) (hD : D.cursorForwardOnly = false) (s : Pager) (f : Frame)
    (h : (s.cacheFrame D f).2 = false) : AllPinned s.mem := by
  apply insert_oom D hD s.mem.free s.mem.cache f
  unfold Pager.cacheFrame at h
  split at h
  · rename_i heq; rw [heq]
  · cases h
  · cases h
  · cases h

theorem readPage_oom (D : Defects) (hD : D.cursorForwardOnly = false) (s : Pager) (p : Nat)
    (h : (s.readPage D p).2 = .oom) : AllPinned s.mem := by
  unfold Pager.readPage at h
  split at h
  · cases h
  · split at h
    · cases h
    · split at h
      · cases h
      · simp only [] at h
        split at h
        · cases h
        · rename_i s' hcf
          have h2 := cacheFrame_false D hD _ _ (congrArg Prod.snd hcf)
          exact h2

theorem step_oom (D : Defects) (hD : D.cursorForwardOnly = false) (s : Pager) (op : POp)
    (h : (s.step D op).2 = .oom) : AllPinned s.mem := by
  cases op with
  | alloc =>
    simp only [Pager.step] at h
    split at h
    · cases h
    · rename_i s' hcf
      have h2 := cacheFrame_false D hD _ _ (congrArg Prod.snd hcf)
      exact h2
  | read p =>
    simp only [Pager.step] at h
    split at h
    · cases h
    · split at h
      · cases h
      · rename_i s' hrp; exact readPage_oom D hD s p (by rw [hrp])
      · cases h
  | write p v =>
    simp only [Pager.step] at h
    split at h
    · cases h
    · split at h
      · cases h
      · rename_i s' hrp; exact readPage_oom D hD s p (by rw [hrp])
      · cases h
  | pin p =>
    simp only [Pager.step] at h
    split at h
    · cases h
    · split at h
      · cases h
      · rename_i s' hrp; exact readPage_oom D hD s p (by rw [hrp])
      · cases h
  | unpin k => simp only [Pager.step] at h; split at h <;> cases h
  | hread k =>
    simp only [Pager.step] at h
    split at h
    · split at h <;> cases h
    · cases h
  | hwrite k v => simp only [Pager.step] at h; split at h <;> cases h
  | flush => cases h
  | reopen => cases h
  | disk p =>
    simp only [Pager.step] at h
    split at h
    · cases h
    · split at h <;> cases h

theorem length_le_of_nodup_subset {l m : List Nat} (hnd : l.Nodup) (hsub : ∀ x ∈ l, x ∈ m) : l.length ≤ m.length := by
  induction l generalizing m with
  | nil => exact Nat.zero_le _
  | cons x xs ih =>
    rw [List.nodup_cons] at hnd
    have hx : x ∈ m := hsub x List.mem_cons_self
    have : xs.length ≤ (m.erase x).length := by
      apply ih hnd.2
      intro y hy
      have hne : y ≠ x := fun e => hnd.1 (e ▸ hy)
      exact (List.mem_erase_of_ne hne).mpr (hsub y (List.mem_cons_of_mem _ hy))
    rw [List.length_erase_of_mem hx] at this
    have hpos : 0 < m.length := List.length_pos_of_mem hx
    simp only [List.length_cons]
    omega

theorem free_false_handle {m : Mem} {f : Frame} (h : m.free f = false) : ∃ h ∈ m.handles, h.fid = f.fid := by
  unfold Mem.free at h
  rw [List.all_eq_false] at h
  obtain ⟨x, hx, hx'⟩ := h
  exact ⟨x, hx, by simpa using hx'⟩

/-- If every frame is pinned and frames have distinct identities, at least `capacity` references are held. -/
theorem allPinned_handles {m : Mem} (hfid : (m.cache.frames.map (·.fid)).Nodup) (h : AllPinned m) :
    m.cache.capacity ≤ m.handles.length ∧ 1 ≤ m.handles.length := by
  have hle : (m.cache.frames.map (·.fid)).length ≤ (m.handles.map (·.fid)).length := by
    apply length_le_of_nodup_subset hfid
    intro x hx
    obtain ⟨f, hf, rfl⟩ := List.mem_map.mp hx
    obtain ⟨hd, hh, e⟩ := free_false_handle (h.2.2 f hf)
    exact List.mem_map.mpr ⟨hd, hh, e⟩
  simp only [List.length_map] at hle
  have hpos : 0 < m.cache.frames.length := List.length_pos_iff.mpr h.2.1
  exact ⟨Nat.le_trans h.1 hle, by omega⟩




/-! ### structural invariants of the cache: no page twice, size bounded by the capacity -/

def NoDup (c : Cache) : Prop := (c.frames.map (·.page)).Nodup
/-- a cache of capacity 0 still holds one frame (`insert` evicts only when it is non-empty) -/
def Bounded (c : Cache) : Prop := c.frames.length ≤ max c.capacity 1
def WF (c : Cache) : Prop := NoDup c ∧ Bounded c

theorem evict_wf (D : Defects) (free : Frame → Bool) (c : Cache) (h : WF c) : WF (c.evict D free).1 := by
  have hs := evict_spec D free c
  cases he : c.evict D free with
  | mk c' r =>
    rw [he] at hs
    cases r with
    | empty => obtain ⟨rfl, _⟩ := hs; exact h
    | oom =>
      obtain ⟨h1, h2⟩ := hs
      exact ⟨by unfold NoDup; rw [h1]; exact h.1, by unfold Bounded; rw [h1, h2]; exact h.2⟩
    | victim v =>
      obtain ⟨_, h2, h3⟩ := hs
      constructor
      · have := (h2.map (fun x : Frame => x.page)).nodup_iff.mp h.1
        simp only [List.map_cons, List.nodup_cons] at this
        exact this.2
      · have := h2.length_eq
        have hb := h.2
        unfold Bounded at hb ⊢
        show c'.frames.length ≤ max c'.capacity 1
        simp only [List.length_cons] at this
        rw [h3]; omega

theorem insert_wf (D : Defects) (free : Frame → Bool) (c : Cache) (f : Frame) (h : WF c) :
    WF (c.insert D free f).1 := by
  unfold Cache.insert
  cases hget : c.get f.page with
  | some old =>
    simp only []
    constructor
    · show ((c.frames.map (fun g => if g.page = f.page then f else g)).map (·.page)).Nodup
      have : (c.frames.map (fun g => if g.page = f.page then f else g)).map (·.page) = c.frames.map (·.page) := by
        rw [List.map_map]
        apply List.map_congr_left
        intro g _
        simp only [Function.comp]
        split
        · rename_i e; exact e.symm
        · rfl
      rw [this]; exact h.1
    · show (c.frames.map _).length ≤ _
      rw [List.length_map]; exact h.2
  | none =>
    have hnc := get_none hget
    have happ : ∀ (l : List Frame), (∀ g ∈ l, g ∈ c.frames) → (l.map (·.page)).Nodup →
        ((l ++ [f]).map (·.page)).Nodup := by
      intro l hsub hnd
      simp only [List.map_append, List.map_cons, List.map_nil]
      rw [List.nodup_append]
      refine ⟨hnd, by simp, ?_⟩
      intro a ha b hb
      simp only [List.mem_singleton] at hb
      subst hb
      obtain ⟨g, hg, rfl⟩ := List.mem_map.mp ha
      exact hnc g (hsub g hg)
    simp only []
    split
    · rename_i hfull
      have hs := evict_spec D free c
      split
      · rename_i c' heq
        rw [heq] at hs
        obtain ⟨h1, h2⟩ := hs
        exact ⟨by unfold NoDup; rw [h1]; exact h.1, by unfold Bounded; rw [h1, h2]; exact h.2⟩
      · rename_i c' heq
        rw [heq] at hs
        obtain ⟨rfl, h2⟩ := hs
        refine ⟨happ _ (fun g hg => hg) h.1, ?_⟩
        show (c'.frames ++ [f]).length ≤ _
        rw [h2]
        simp only [List.nil_append, List.length_cons, List.length_nil]
        omega
      · rename_i c' v heq
        rw [heq] at hs
        obtain ⟨_, h2, h3⟩ := hs
        have hnd := (h2.map (fun x : Frame => x.page)).nodup_iff.mp h.1
        simp only [List.map_cons, List.nodup_cons] at hnd
        refine ⟨happ _ (fun g hg => h2.mem_iff.mpr (List.mem_cons_of_mem _ hg)) hnd.2, ?_⟩
        have hl := h2.length_eq
        have hb := h.2
        unfold Bounded at hb ⊢
        show (c'.frames ++ [f]).length ≤ max c'.capacity 1
        simp only [List.length_append, List.length_cons, List.length_nil] at hl ⊢
        rw [h3]; omega
    · rename_i hfull
      refine ⟨happ _ (fun g hg => hg) h.1, ?_⟩
      unfold Bounded
      show (c.frames ++ [f]).length ≤ max c.capacity 1
      simp only [List.length_append, List.length_cons, List.length_nil]
      omega

theorem indexOfPage_some {p : Nat} {l : List Frame} {b i : Nat} (h : indexOfPage p l b = some i) :
    b ≤ i ∧ ∃ f, l[i - b]? = some f := by
  induction l generalizing b with
  | nil => simp [indexOfPage] at h
  | cons x xs ih =>
    simp only [indexOfPage] at h
    split at h
    · cases h
      exact ⟨Nat.le_refl _, x, by simp⟩
    · obtain ⟨h1, f, h2⟩ := ih h
      refine ⟨by omega, f, ?_⟩
      have : i - b = (i - (b + 1)) + 1 := by omega
      rw [this]
      simpa using h2

theorem remove_wf (c : Cache) (p : Nat) (h : WF c) : WF (c.remove p).1 := by
  unfold Cache.remove
  split
  · exact h
  · rename_i i hi
    obtain ⟨_, f, hf⟩ := indexOfPage_some hi
    simp only [Nat.sub_zero] at hf
    have hperm := swapRemoveAt_perm c.frames i f hf
    constructor
    · have := (hperm.map (fun x : Frame => x.page)).nodup_iff.mp h.1
      simp only [List.map_cons, List.nodup_cons] at this
      exact this.2
    · have hl := hperm.length_eq
      have hb := h.2
      unfold Bounded at hb ⊢
      show (swapRemoveAt c.frames i).length ≤ max c.capacity 1
      simp only [List.length_cons] at hl
      omega

theorem empty_wf (cap cur : Nat) : WF { capacity := cap, frames := [], cursor := cur } :=
  ⟨List.nodup_nil, Nat.zero_le _⟩

theorem updFid_wf (c : Cache) (fid v : Nat) (h : WF c) :
    WF { c with frames := updFid fid (Frame.setVal v) c.frames } := by
  constructor
  · show ((updFid fid (Frame.setVal v) c.frames).map (·.page)).Nodup
    rw [updFid_map_page]; exact h.1
  · show (updFid fid (Frame.setVal v) c.frames).length ≤ max c.capacity 1
    unfold updFid
    rw [List.length_map]; exact h.2

theorem cacheFrame_cache (D : Defects) (s : Pager) (f : Frame) :
    (s.cacheFrame D f).1.mem.cache = (s.mem.cache.insert D s.mem.free f).1 := by
  unfold Pager.cacheFrame
  split
  · rename_i c heq; rw [heq]
  · rename_i c old heq; rw [heq]; exact (park_same _ old).1
  · rename_i c heq; rw [heq]
  · rename_i c v heq; rw [heq]; simp only []; split <;> rfl

theorem readPage_wf (D : Defects) (s : Pager) (p : Nat) (h : WF s.mem.cache) : WF (s.readPage D p).1.mem.cache := by
  unfold Pager.readPage
  split
  · exact h
  · split
    · exact h
    · split
      · exact h
      · simp only []
        split
        · rename_i s' hcf
          have h1 := cacheFrame_cache D _ _ ▸ congrArg (fun x : Pager × Bool => x.1.mem.cache) hcf
          simp only [] at h1
          rw [← h1]
          exact insert_wf D _ _ _ h
        · rename_i s' hcf
          have h1 := cacheFrame_cache D _ _ ▸ congrArg (fun x : Pager × Bool => x.1.mem.cache) hcf
          simp only [] at h1
          rw [← h1]
          exact insert_wf D _ _ _ h




theorem cacheFrame_wf (D : Defects) (s : Pager) (f : Frame) (h : WF s.mem.cache) :
    WF (s.cacheFrame D f).1.mem.cache := by
  rw [cacheFrame_cache]; exact insert_wf D _ _ _ h

theorem flush_wf (D : Defects) (s : Pager) : WF (s.flush D).mem.cache := by
  have hps := parkAll_same ({ s.mem with cache := (s.mem.cache.clear D).1 }) (s.mem.cache.clear D).2
  have hcache : (s.flush D).mem.cache = (s.mem.cache.clear D).1 := hps.1
  rw [hcache]
  exact empty_wf _ _

theorem step_wf (D : Defects) (s : Pager) (op : POp) (h : WF s.mem.cache) : WF (s.step D op).1.mem.cache := by
  cases op with
  | alloc =>
    simp only [Pager.step]
    split
    · rename_i s' hcf
      have h1 := congrArg (fun x : Pager × Bool => x.1.mem.cache) hcf
      simp only [] at h1
      rw [← h1]; exact cacheFrame_wf D _ _ h
    · rename_i s' hcf
      have h1 := congrArg (fun x : Pager × Bool => x.1.mem.cache) hcf
      simp only [] at h1
      show WF s'.mem.cache
      rw [← h1]; exact cacheFrame_wf D _ _ h
  | read p =>
    have hr := readPage_wf D s p h
    simp only [Pager.step]
    split
    · exact h
    · split <;> (rename_i heq; rw [heq] at hr; exact hr)
  | write p v =>
    have hr := readPage_wf D s p h
    simp only [Pager.step]
    split
    · exact h
    · split
      · rename_i s' f heq; rw [heq] at hr
        exact updFid_wf s'.mem.cache f.fid v hr
      · rename_i heq; rw [heq] at hr; exact hr
      · rename_i heq; rw [heq] at hr; exact hr
  | pin p =>
    have hr := readPage_wf D s p h
    simp only [Pager.step]
    split
    · exact h
    · split
      · rename_i s' f heq; rw [heq] at hr; exact hr
      · rename_i heq; rw [heq] at hr; exact hr
      · rename_i heq; rw [heq] at hr; exact hr
  | unpin k =>
    simp only [Pager.step]
    split
    · exact h
    · exact h
  | hread k =>
    simp only [Pager.step]
    split
    · split <;> exact h
    · exact h
  | hwrite k v =>
    simp only [Pager.step]
    split
    · rename_i hd _; exact updFid_wf s.mem.cache hd.fid v h
    · exact h
  | flush => exact flush_wf D s
  | reopen => exact empty_wf _ _
  | disk p =>
    simp only [Pager.step]
    split
    · exact h
    · split <;> exact h

theorem run_wf (D : Defects) (s : Pager) (ops : List POp) (h : WF s.mem.cache) : WF (s.run D ops).1.mem.cache := by
  induction ops generalizing s with
  | nil => exact h
  | cons op ops ih => exact ih (s.step D op).1 (step_wf D s op h)

/-- every operation of the bare cache API except `set_capacity` -/
def COp.keepsCapacity : COp → Bool
  | .setcap _ => false
  | _ => true

theorem churnLoop_wf (D : Defects) (k : Nat) (m : Mem) (i ev : Nat) (h : WF m.cache) :
    WF (m.churnLoop D k i ev).1.cache := by
  induction k generalizing m i ev with
  | zero => exact h
  | succ k ih =>
    unfold Mem.churnLoop
    simp only []
    have hi := insert_wf D ({ m with nextFid := m.nextFid + 1 } : Mem).free m.cache
      { page := churnBase + i % 2, fid := m.nextFid, val := 0, dirty := false } h
    split <;> (rename_i heq; rw [heq] at hi)
    · exact hi
    · apply ih; rw [(park_same _ _).1]; exact hi
    · apply ih; exact hi
    · apply ih; exact hi

theorem cstep_wf (D : Defects) (m : Mem) (op : COp) (hop : op.keepsCapacity = true) (h : WF m.cache) :
    WF (m.cstep D op).1.cache := by
  cases op with
  | ins p v d =>
    simp only [Mem.cstep]
    have hi := insert_wf D ({ m with nextFid := m.nextFid + 1 } : Mem).free m.cache { page := p, fid := m.nextFid, val := v, dirty := d } h
    split <;> (rename_i heq; rw [heq] at hi)
    · exact hi
    · rw [(park_same _ _).1]; exact hi
    · exact hi
    · exact hi
  | get p => simp only [Mem.cstep]; split <;> exact h
  | pin p => simp only [Mem.cstep]; split <;> exact h
  | unpin k => simp only [Mem.cstep]; split <;> exact h
  | hread k =>
    simp only [Mem.cstep]
    split
    · split <;> exact h
    · exact h
  | hwrite k v =>
    simp only [Mem.cstep]
    split
    · rename_i hd _; exact updFid_wf m.cache hd.fid v h
    · exact h
  | hdirty k =>
    simp only [Mem.cstep]
    split
    · rename_i hd _
      constructor
      · show ((updFid hd.fid _ m.cache.frames).map (·.page)).Nodup
        have : (updFid hd.fid (fun f => { f with dirty := true }) m.cache.frames).map (·.page) =
            m.cache.frames.map (·.page) := by
          unfold updFid
          rw [List.map_map]
          apply List.map_congr_left
          intro x _
          simp only [Function.comp]
          split <;> rfl
        rw [this]; exact h.1
      · show (updFid hd.fid _ m.cache.frames).length ≤ _
        unfold updFid
        rw [List.length_map]; exact h.2
    · exact h
  | evict =>
    simp only [Mem.cstep]
    have he := evict_wf D m.free m.cache h
    split <;> (rename_i heq; rw [heq] at he; exact he)
  | rm p =>
    simp only [Mem.cstep]
    have hr := remove_wf m.cache p h
    split
    · rename_i c f heq; rw [heq] at hr
      split
      · exact hr
      · rw [(park_same _ _).1]; exact hr
    · rename_i c heq; rw [heq] at hr; exact hr
  | clear =>
    simp only [Mem.cstep]
    rw [(parkAll_same _ _).1]
    exact empty_wf _ _
  | drain =>
    simp only [Mem.cstep]
    rw [(parkAll_same _ _).1]
    exact empty_wf _ _
  | setcap n => cases hop
  | stat => exact h
  | churn n => exact churnLoop_wf D n m 0 0 h

theorem crun_wf (D : Defects) (m : Mem) (ops : List COp) (hops : ∀ op ∈ ops, op.keepsCapacity = true)
    (h : WF m.cache) : WF (m.crun D ops).1.cache := by
  induction ops generalizing m with
  | nil => exact h
  | cons op ops ih =>
    exact ih (m.cstep D op).1 (fun o ho => hops o (List.mem_cons_of_mem _ ho))
      (cstep_wf D m op (hops op List.mem_cons_self) h)




/-! ### capacity along a run; out-of-memory excluded by a pin bound; adaptive clients -/

theorem evict_capacity (D : Defects) (free : Frame → Bool) (c : Cache) : (c.evict D free).1.capacity = c.capacity := by
  have hs := evict_spec D free c
  cases he : c.evict D free with
  | mk c' r =>
    rw [he] at hs
    cases r with
    | empty => exact congrArg Cache.capacity hs.1
    | oom => exact hs.2
    | victim v => exact hs.2.2

theorem insert_capacity (D : Defects) (free : Frame → Bool) (c : Cache) (f : Frame) :
    (c.insert D free f).1.capacity = c.capacity := by
  unfold Cache.insert
  split
  · rfl
  · split
    · have := evict_capacity D free c
      split <;> (rename_i heq; rw [heq] at this; exact this)
    · rfl

theorem cacheFrame_capacity (D : Defects) (s : Pager) (f : Frame) :
    (s.cacheFrame D f).1.mem.cache.capacity = s.mem.cache.capacity ∧ (s.cacheFrame D f).1.cfgCache = s.cfgCache := by
  constructor
  · rw [cacheFrame_cache]; exact insert_capacity D _ _ f
  · unfold Pager.cacheFrame
    split
    · rfl
    · rfl
    · rfl
    · simp only []; split <;> rfl

theorem cacheFrame_capacity' {D : Defects} {s s' : Pager} {f : Frame} {b : Bool} (h : s.cacheFrame D f = (s', b)) :
    s'.mem.cache.capacity = s.mem.cache.capacity ∧ s'.cfgCache = s.cfgCache := by
  have := cacheFrame_capacity D s f
  rw [h] at this
  exact this

theorem readPage_capacity (D : Defects) (s : Pager) (p : Nat) :
    (s.readPage D p).1.mem.cache.capacity = s.mem.cache.capacity ∧ (s.readPage D p).1.cfgCache = s.cfgCache := by
  unfold Pager.readPage
  split
  · exact ⟨rfl, rfl⟩
  · split
    · exact ⟨rfl, rfl⟩
    · split
      · exact ⟨rfl, rfl⟩
      · simp only []
        split <;> (rename_i s' hcf; have hc := cacheFrame_capacity' hcf; exact hc)

/-- the capacity the cache runs with: as configured, or as read back from page zero after a re-open -/
def CapOk (cap : Nat) (s : Pager) : Prop := s.cfgCache = cap ∧ min cap 65535 ≤ s.mem.cache.capacity

theorem flush_capacity (s : Pager) :
    (s.flush Defects.none).mem.cache.capacity = s.mem.cache.capacity ∧ (s.flush Defects.none).cfgCache = s.cfgCache := by
  have hps := parkAll_same ({ s.mem with cache := (s.mem.cache.clear Defects.none).1 }) (s.mem.cache.clear Defects.none).2
  have hcache : (s.flush Defects.none).mem.cache = (s.mem.cache.clear Defects.none).1 := hps.1
  exact ⟨by rw [hcache]; rfl, rfl⟩

theorem step_capOk (cap : Nat) (s : Pager) (op : POp) (h : CapOk cap s) : CapOk cap (s.step Defects.none op).1 := by
  obtain ⟨h1, h2⟩ := h
  cases op with
  | alloc =>
    simp only [Pager.step]
    split <;>
      (rename_i s' hcf
       have hc := cacheFrame_capacity' hcf
       exact ⟨hc.2.trans h1, by rw [show s'.mem.cache.capacity = s.mem.cache.capacity from hc.1]; exact h2⟩)
  | read p =>
    have hc := readPage_capacity Defects.none s p
    simp only [Pager.step]
    split
    · exact ⟨h1, h2⟩
    · split <;> (rename_i heq; rw [heq] at hc; exact ⟨hc.2.trans h1, Nat.le_trans h2 (Nat.le_of_eq hc.1.symm)⟩)
  | write p v =>
    have hc := readPage_capacity Defects.none s p
    simp only [Pager.step]
    split
    · exact ⟨h1, h2⟩
    · split <;> (rename_i heq; rw [heq] at hc; exact ⟨hc.2.trans h1, Nat.le_trans h2 (Nat.le_of_eq hc.1.symm)⟩)
  | pin p =>
    have hc := readPage_capacity Defects.none s p
    simp only [Pager.step]
    split
    · exact ⟨h1, h2⟩
    · split <;> (rename_i heq; rw [heq] at hc; exact ⟨hc.2.trans h1, Nat.le_trans h2 (Nat.le_of_eq hc.1.symm)⟩)
  | unpin k => simp only [Pager.step]; split <;> exact ⟨h1, h2⟩
  | hread k =>
    simp only [Pager.step]
    split
    · split <;> exact ⟨h1, h2⟩
    · exact ⟨h1, h2⟩
  | hwrite k v => simp only [Pager.step]; split <;> exact ⟨h1, h2⟩
  | flush =>
    have hc := flush_capacity s
    exact ⟨hc.2.trans h1, Nat.le_trans h2 (Nat.le_of_eq hc.1.symm)⟩
  | reopen =>
    have hc := flush_capacity s
    refine ⟨hc.2.trans h1, ?_⟩
    show min cap 65535 ≤ headerCacheSize Defects.none (s.flush Defects.none).cfgCache
    rw [hc.2, h1]
    exact Nat.le_refl _
  | disk p =>
    simp only [Pager.step]
    split
    · exact ⟨h1, h2⟩
    · split <;> exact ⟨h1, h2⟩

/-- With the fixed code, an operation cannot run out of memory while fewer frames are pinned than the cache holds. -/
theorem no_oom_of_pin_bound (cap : Nat) (s : Pager) (sp : Spec) (op : POp) (hC : Coupled s sp) (hcap : CapOk cap s)
    (hb : sp.pins.length < min cap 65535) : (s.step Defects.none op).2 ≠ .oom := by
  intro h
  have := allPinned_handles hC.inv.fids (step_oom Defects.none rfl s op h)
  have hl : sp.pins.length = s.mem.handles.length := by rw [hC.pins, List.length_map]
  have := hcap.2
  omega



/-- A storage client: anything that decides its next pager operation from the answers it has received so far — the
    B+tree code, the catalog, the executor: every deterministic single-threaded user of the pager is one. `none` = done. -/
abbrev Client := List Out → Option POp

/-- the client talking to the pager (at most `fuel` operations); the result is the dialogue -/
def Pager.interact (D : Defects) (client : Client) : Nat → Pager → List Out → List (POp × Out)
  | 0, _, _ => []
  | n + 1, s, hist =>
    match client hist with
    | none => []
    | some op => (op, (s.step D op).2) :: Pager.interact D client n (s.step D op).1 (hist ++ [(s.step D op).2])

/-- the same client talking to the flat store -/
def Spec.interact (client : Client) : Nat → Spec → List Out → List (POp × Out)
  | 0, _, _ => []
  | n + 1, sp, hist =>
    match client hist with
    | none => []
    | some op => (op, (sp.step op).2) :: Spec.interact client n (sp.step op).1 (hist ++ [(sp.step op).2])

/-- What is asked of the client, checked on its dialogue with the flat store alone: it never looks at the file behind
    the pager's back, it checkpoints only while it holds no frame, and it never holds `bound` frames or more at once. -/
def Spec.clientOk (bound : Nat) (client : Client) : Nat → Spec → List Out → Bool
  | 0, _, _ => true
  | n + 1, sp, hist =>
    match client hist with
    | none => true
    | some op =>
      !op.isDisk && (!op.isCheckpoint || sp.pins.isEmpty) && decide (sp.pins.length < bound) &&
        Spec.clientOk bound client n (sp.step op).1 (hist ++ [(sp.step op).2])

theorem interact_refines (cap bound : Nat) (hb : bound ≤ min cap 65535) (client : Client) (n : Nat) (s : Pager)
    (sp : Spec) (hist : List Out) (hC : Coupled s sp) (hcap : CapOk cap s)
    (hok : Spec.clientOk bound client n sp hist = true) :
    Pager.interact Defects.none client n s hist = Spec.interact client n sp hist := by
  induction n generalizing s sp hist with
  | zero => rfl
  | succ n ih =>
    unfold Pager.interact Spec.interact
    unfold Spec.clientOk at hok
    cases hc : client hist with
    | none => rfl
    | some op =>
      simp only [hc, Bool.and_eq_true, decide_eq_true_eq] at hok
      obtain ⟨⟨⟨hnd, hadm⟩, hpins⟩, hrest⟩ := hok
      have hnd' : op.isDisk = false := by simpa using hnd
      have hnoom := no_oom_of_pin_bound cap s sp op hC hcap (Nat.lt_of_lt_of_le hpins hb)
      have hstep := step_coupled Defects.none s sp op hC hnoom hadm
      have hout : (s.step Defects.none op).2 = (sp.step op).2 := hstep.2 hnd'
      simp only []
      rw [hout]
      congr 1
      exact ih (s.step Defects.none op).1 (sp.step op).1 _ hstep.1 (step_capOk cap s op hcap) hrest


/-- the same for a fixed operation list: fewer than `bound` frames pinned before every operation -/
def Spec.pinBounded (bound : Nat) : Spec → List POp → Bool
  | _, [] => true
  | sp, op :: ops => decide (sp.pins.length < bound) && Spec.pinBounded bound (sp.step op).1 ops

theorem run_no_oom (cap bound : Nat) (hb : bound ≤ min cap 65535) (ops : List POp) (s : Pager) (sp : Spec)
    (hC : Coupled s sp) (hcap : CapOk cap s) (hadm : sp.admissible ops = true)
    (hpins : Spec.pinBounded bound sp ops = true) : ∀ o ∈ (s.run Defects.none ops).2, o ≠ .oom := by
  induction ops generalizing s sp with
  | nil => intro o ho; cases ho
  | cons op ops ih =>
    simp only [Spec.admissible, Spec.pinBounded, Bool.and_eq_true, decide_eq_true_eq] at hadm hpins
    have hrun : s.run Defects.none (op :: ops) =
        (((s.step Defects.none op).1.run Defects.none ops).1,
          (s.step Defects.none op).2 :: ((s.step Defects.none op).1.run Defects.none ops).2) := rfl
    rw [hrun]
    have hno := no_oom_of_pin_bound cap s sp op hC hcap (Nat.lt_of_lt_of_le hpins.1 hb)
    have hstep := step_coupled Defects.none s sp op hC hno hadm.1
    intro o ho
    rcases List.mem_cons.mp ho with rfl | ho
    · exact hno
    · exact ih (s.step Defects.none op).1 (sp.step op).1 hstep.1 (step_capOk cap s op hcap) hadm.2 hpins.2 o ho

theorem init_capOk (cap : Nat) : CapOk cap (Pager.init cap) := ⟨rfl, Nat.min_le_left _ _⟩

end AxVerif.Cache

namespace AxVerif.Config
/-! ### configuration -/

open AxVerif.Cache (Defects)

theorem clampPage_range (n : Nat) : 4096 ≤ clampPage n ∧ clampPage n ≤ 65536 := by
  unfold clampPage minPageSize maxPageSize
  omega

theorem nextPow2_ge (n : Nat) : n ≤ nextPow2 n := by
  unfold nextPow2
  split
  · assumption
  · have := @Nat.lt_log2_self (n - 1)
    omega

theorem nextPow2_pow (n : Nat) : ∃ k, nextPow2 n = 2 ^ k := by
  unfold nextPow2
  split
  · exact ⟨0, rfl⟩
  · exact ⟨_, rfl⟩

/-- it is the *least* power of two that is large enough -/
theorem nextPow2_least (n : Nat) (h : 1 < n) : nextPow2 n / 2 < n := by
  unfold nextPow2
  have h1 : ¬ n ≤ 1 := by omega
  simp only [h1, if_false]
  have := @Nat.log2_self_le (n - 1) (by omega)
  rw [Nat.pow_succ, Nat.mul_div_cancel _ (by decide : 0 < 2)]
  omega

theorem clampPage_pow2 (n : Nat) : ∃ k, 12 ≤ k ∧ k ≤ 16 ∧ clampPage n = 2 ^ k := by
  obtain ⟨j, hj⟩ := nextPow2_pow n
  unfold clampPage minPageSize maxPageSize
  rw [hj]
  by_cases h1 : j ≤ 12
  · refine ⟨12, by omega, by omega, ?_⟩
    have : 2 ^ j ≤ 2 ^ 12 := Nat.pow_le_pow_right (by decide) h1
    omega
  · by_cases h2 : j ≤ 16
    · refine ⟨j, by omega, h2, ?_⟩
      have a : 2 ^ 12 ≤ 2 ^ j := Nat.pow_le_pow_right (by decide) (by omega)
      have b : 2 ^ j ≤ 2 ^ 16 := Nat.pow_le_pow_right (by decide) h2
      omega
    · refine ⟨16, by omega, by omega, ?_⟩
      have a : 2 ^ 16 ≤ 2 ^ j := Nat.pow_le_pow_right (by decide) (by omega)
      omega

/-- a page size that is already legal is kept -/
theorem clampPage_fix (k : Nat) (h1 : 12 ≤ k) (h2 : k ≤ 16) : clampPage (2 ^ k) = 2 ^ k := by
  have : k = 12 ∨ k = 13 ∨ k = 14 ∨ k = 15 ∨ k = 16 := by omega
  rcases this with rfl | rfl | rfl | rfl | rfl <;> decide


end AxVerif.Config
