/-
  Lemmas for C11: paths through `next` links, the invariant tying the pointer-level allocator (`Pages.Alloc`) to the abstract
  FIFO allocator (`Pages.Abs`), and the list facts behind `checkOwnership_sound`. Core Lean only.
-/
import AxVerif.Model.Pages
import AxVerif.Lemmas.BTree
namespace AxVerif.Pages

/-! ### paths -/

/-- following `nx` from `a` visits exactly the pages of `l`, in order, none of them 0, and arrives at `b` -/
def Seg (nx : Nat → Nat) : Nat → List Nat → Nat → Prop
  | a, [], b => a = b
  | a, x :: xs, b => a = x ∧ x ≠ 0 ∧ Seg nx (nx x) xs b

theorem seg_append {nx : Nat → Nat} : ∀ {l1 l2 : List Nat} {a c : Nat},
    Seg nx a (l1 ++ l2) c ↔ ∃ b, Seg nx a l1 b ∧ Seg nx b l2 c := by
  intro l1
  induction l1 with
  | nil => intro l2 a c; simp [Seg]
  | cons x xs ih =>
    intro l2 a c
    simp only [List.cons_append, Seg, ih]
    constructor
    · rintro ⟨h1, h2, b, h3, h4⟩; exact ⟨b, ⟨h1, h2, h3⟩, h4⟩
    · rintro ⟨b, ⟨h1, h2, h3⟩, h4⟩; exact ⟨h1, h2, b, h3, h4⟩

theorem seg_setF {nx : Nat → Nat} {x v : Nat} : ∀ {l : List Nat} {a b : Nat}, x ∉ l →
    (Seg (setF nx x v) a l b ↔ Seg nx a l b) := by
  intro l
  induction l with
  | nil => intro a b _; simp [Seg]
  | cons y ys ih =>
    intro a b hx
    have hy : y ≠ x := fun h => hx (by simp [h])
    have hys : x ∉ ys := fun h => hx (by simp [h])
    simp only [Seg, setF, hy, if_false, ih hys]

theorem seg_mem_ne_zero {nx : Nat → Nat} : ∀ {l : List Nat} {a b : Nat}, Seg nx a l b → ∀ x ∈ l, x ≠ 0 := by
  intro l
  induction l with
  | nil => intro a b _ x hx; cases hx
  | cons y ys ih =>
    intro a b h x hx
    simp only [Seg] at h
    cases hx with
    | head => exact h.2.1
    | tail _ hx => exact ih h.2.2 x hx

theorem seg_head {nx : Nat → Nat} {a b : Nat} {l : List Nat} (h : Seg nx a l b) : a = l.headD b := by
  cases l with
  | nil => simpa [Seg] using h
  | cons x xs => simpa [Seg] using h.1

/-- the walk finds exactly the path when the fuel is enough -/
theorem walk_of_seg {nx : Nat → Nat} : ∀ {l : List Nat} {a fuel : Nat}, Seg nx a l 0 → l.length < fuel →
    walk nx fuel a = l := by
  intro l
  induction l with
  | nil =>
    intro a fuel h hf
    simp only [Seg] at h
    subst h
    cases fuel with
    | zero => simp at hf
    | succ f => simp [walk]
  | cons x xs ih =>
    intro a fuel h hf
    simp only [Seg] at h
    obtain ⟨rfl, hx, hrest⟩ := h
    cases fuel with
    | zero => simp at hf
    | succ f =>
      simp only [walk, hx, if_false]
      rw [ih hrest (by simpa using hf)]

theorem lastD_append_singleton (l : List Nat) (x : Nat) : FileDump.lastD (l ++ [x]) = x := by
  simp [FileDump.lastD]

theorem lastD_cons_cons (x y : Nat) (l : List Nat) : FileDump.lastD (x :: y :: l) = FileDump.lastD (y :: l) := by
  simp [FileDump.lastD, List.getLast?_cons_cons]

theorem lastD_mem {l : List Nat} (h : l ≠ []) : FileDump.lastD l ∈ l := by
  unfold FileDump.lastD
  cases hl : l.getLast? with
  | none => exact absurd (List.getLast?_eq_none_iff.mp hl) h
  | some x => simpa using List.mem_of_getLast? hl

/-- a non-empty list is its front part followed by its last element -/
theorem eq_append_lastD {l : List Nat} (h : l ≠ []) : ∃ pre, l = pre ++ [FileDump.lastD l] := by
  refine ⟨l.dropLast, ?_⟩
  unfold FileDump.lastD
  rw [List.getLast?_eq_some_getLast h]
  simp [List.dropLast_concat_getLast h]

/-! ### the invariant -/

/-- The pointer-level state `s` represents the abstract allocator `a`. -/
structure Inv (s : Alloc) (a : Abs) : Prop where
  total : s.total = a.total
  pos : 1 ≤ a.total
  path : Seg s.next s.first a.free 0
  last : s.last = FileDump.lastD a.free
  freeNodup : a.free.Nodup
  usedNodup : a.used.Nodup
  disj : ∀ p ∈ a.free, p ∉ a.used
  cover : ∀ p, (0 < p ∧ p < a.total) ↔ (p ∈ a.used ∨ p ∈ a.free)
  count : a.free.length + a.used.length + 1 = a.total
  kind : ∀ p ∈ a.free, s.ovf p ≠ some false

theorem inv_init : Inv Alloc.init Abs.init := by
  refine ⟨rfl, by decide, rfl, rfl, List.nodup_nil, List.nodup_nil, ?_, ?_, rfl, ?_⟩
  · intro p hp; cases hp
  · intro p; simp [Abs.init]; omega
  · intro p hp; cases hp

theorem Inv.first_eq {s : Alloc} {a : Abs} (h : Inv s a) : s.first = a.free.headD 0 := seg_head h.path

theorem Inv.freeList_eq {s : Alloc} {a : Abs} (h : Inv s a) : freeList s = a.free := by
  unfold freeList
  apply walk_of_seg h.path
  have := h.count; have := h.total; omega

theorem Inv.free_pos {s : Alloc} {a : Abs} (h : Inv s a) : ∀ p ∈ a.free, 0 < p ∧ p < a.total :=
  fun p hp => (h.cover p).mpr (Or.inr hp)

/-- allocation in a state that represents `a` -/
theorem alloc_inv {s : Alloc} {a : Abs} (h : Inv s a) (k : Bool) :
    Inv (alloc s k).1 a.alloc.1 ∧ (alloc s k).2 = .ok a.alloc.2 := by
  cases hf : a.free with
  | nil =>
    have hfirst : s.first = 0 := by rw [h.first_eq, hf]; rfl
    have hal : alloc s k = ({ s with total := s.total + 1, next := setF s.next s.total 0, ovf := setF s.ovf s.total (some k) }, .ok s.total) := by
      simp [alloc, hfirst]
    have habs : a.alloc = ({ a with total := a.total + 1, used := a.total :: a.used }, a.total) := by
      simp [Abs.alloc, hf]
    rw [hal, habs]
    refine ⟨⟨?_, ?_, ?_, ?_, ?_, ?_, ?_, ?_, ?_, ?_⟩, by simp [h.total]⟩
    · simp [h.total]
    · show 1 ≤ a.total + 1; omega
    · simp only [hf]; simp [Seg, hfirst]
    · simp only [hf]; have := h.last; rw [hf] at this; simpa using this
    · simp only [hf]; exact List.nodup_nil
    · simp only [List.nodup_cons]
      refine ⟨?_, h.usedNodup⟩
      intro hm
      have := (h.cover a.total).mpr (Or.inl hm)
      omega
    · simp only [hf]; intro p hp; cases hp
    · intro p
      simp only [hf, List.mem_cons, List.not_mem_nil, or_false]
      have := h.cover p
      rw [hf] at this
      simp only [List.not_mem_nil, or_false] at this
      constructor
      · intro hp
        by_cases hpe : p = a.total
        · exact Or.inl hpe
        · exact Or.inr (this.mp ⟨hp.1, by omega⟩)
      · intro hp
        cases hp with
        | inl hp => subst hp; have := h.pos; omega
        | inr hp => have := this.mpr hp; omega
    · have := h.count; rw [hf] at this; simp only [hf, List.length_cons, List.length_nil] at *; omega
    · simp only [hf]; intro p hp; cases hp
  | cons x xs =>
    have hpath := h.path
    rw [hf] at hpath
    simp only [Seg] at hpath
    obtain ⟨hfx, hx0, hrest⟩ := hpath
    have hfirst : s.first ≠ 0 := by rw [hfx]; exact hx0
    have hkind : s.ovf s.first ≠ some false := by
      rw [hfx]; exact h.kind x (by rw [hf]; simp)
    have hnd := h.freeNodup
    rw [hf, List.nodup_cons] at hnd
    have hal : alloc s k = ({ s with first := s.next s.first, last := (if s.last = s.first then 0 else s.last), next := setF s.next s.first 0, ovf := setF s.ovf s.first (some k) }, .ok s.first) := by
      simp [alloc, hfirst, hkind]
    have habs : a.alloc = ({ a with free := xs, used := x :: a.used }, x) := by
      simp [Abs.alloc, hf]
    rw [hal, habs]
    refine ⟨⟨h.total, h.pos, ?_, ?_, hnd.2, ?_, ?_, ?_, ?_, ?_⟩, by simp [hfx]⟩
    · show Seg (setF s.next s.first 0) (s.next s.first) xs 0
      rw [hfx, seg_setF hnd.1]; exact hrest
    · show (if s.last = s.first then 0 else s.last) = FileDump.lastD xs
      have hl := h.last
      rw [hf] at hl
      cases xs with
      | nil => simp [FileDump.lastD] at hl ⊢; simp [hl, hfx]
      | cons y ys =>
        rw [lastD_cons_cons] at hl
        have hmem : FileDump.lastD (y :: ys) ∈ y :: ys := lastD_mem (by simp)
        have hne : s.last ≠ s.first := by
          rw [hl, hfx]; intro he; rw [he] at hmem; exact hnd.1 hmem
        show (if s.last = s.first then 0 else s.last) = FileDump.lastD (y :: ys)
        rw [if_neg hne]; exact hl
    · show (x :: a.used).Nodup
      rw [List.nodup_cons]
      exact ⟨h.disj x (by rw [hf]; simp), h.usedNodup⟩
    · intro p hp hpu
      simp only [List.mem_cons] at hpu
      cases hpu with
      | inl hpx => subst hpx; exact hnd.1 hp
      | inr hpu => exact h.disj p (by rw [hf]; simp [hp]) hpu
    · intro p
      have := h.cover p
      rw [hf] at this
      simp only [List.mem_cons] at this ⊢
      rw [this]
      constructor
      · rintro (hu | hx | hxs)
        · exact Or.inl (Or.inr hu)
        · exact Or.inl (Or.inl hx)
        · exact Or.inr hxs
      · rintro ((hx | hu) | hxs)
        · exact Or.inr (Or.inl hx)
        · exact Or.inl hu
        · exact Or.inr (Or.inr hxs)
    · have := h.count; rw [hf] at this; simp only [List.length_cons] at *; omega
    · intro p hp
      show setF s.ovf s.first (some k) p ≠ some false
      have hpx : p ≠ s.first := by rw [hfx]; intro he; subst he; exact hnd.1 hp
      simp only [setF, hpx, if_false]
      exact h.kind p (by rw [hf]; simp [hp])

/-- giving back a page that has been handed out -/
theorem dealloc_inv {s : Alloc} {a : Abs} (h : Inv s a) (p : Nat) (k : Bool) (hp : p ∈ a.used) :
    Inv (dealloc {} s p k).1 (a.dealloc p) ∧ (dealloc {} s p k).2 = .ok () := by
  have hpos := (h.cover p).mpr (Or.inl hp)
  have hp0 : p ≠ 0 := by omega
  have hpf : p ∉ a.free := fun hm => h.disj p hm hp
  cases hf : a.free with
  | nil =>
    have hfirst : s.first = 0 := by rw [h.first_eq, hf]; rfl
    have hlast : s.last = 0 := by rw [h.last, hf]; rfl
    have hd : dealloc {} s p k = ({ s with first := p, last := p, next := setF s.next p 0, ovf := setF s.ovf p (some true) }, .ok ()) := by
      simp [dealloc, hp0, hfirst, hlast]
    rw [hd]
    refine ⟨⟨h.total, h.pos, ?_, ?_, ?_, ?_, ?_, ?_, ?_, ?_⟩, rfl⟩
    · simp [Abs.dealloc, hf, Seg, hp0, setF]
    · simp [Abs.dealloc, hf, FileDump.lastD]
    · simp [Abs.dealloc, hf]
    · exact h.usedNodup.erase p
    · intro q hq
      simp only [Abs.dealloc, hf, List.nil_append, List.mem_singleton] at hq
      subst hq
      simp only [Abs.dealloc]
      rw [h.usedNodup.mem_erase_iff]; simp
    · intro q
      simp only [Abs.dealloc, hf, List.nil_append, List.mem_singleton]
      rw [h.usedNodup.mem_erase_iff]
      have := h.cover q
      rw [hf] at this
      simp only [List.not_mem_nil, or_false] at this
      rw [this]
      constructor
      · intro hq
        by_cases he : q = p
        · exact Or.inr he
        · exact Or.inl ⟨he, hq⟩
      · rintro (⟨_, hq⟩ | he)
        · exact hq
        · subst he; exact hp
    · have := h.count
      rw [hf] at this
      simp only [Abs.dealloc, hf, List.nil_append, List.length_singleton, List.length_nil] at this ⊢
      rw [List.length_erase_of_mem hp]
      have : 0 < a.used.length := List.length_pos_of_mem hp
      omega
    · intro q hq
      simp only [Abs.dealloc, hf, List.nil_append, List.mem_singleton] at hq
      subst hq
      simp [setF]
  | cons x xs =>
    have hne : a.free ≠ [] := by rw [hf]; simp
    have hfirst : s.first ≠ 0 := by
      have := h.path; rw [hf] at this; simp only [Seg] at this; rw [this.1]; exact this.2.1
    have hlmem : FileDump.lastD a.free ∈ a.free := lastD_mem hne
    have hl0 : s.last ≠ 0 := by rw [h.last]; exact Nat.pos_iff_ne_zero.mp (h.free_pos _ hlmem).1
    have hlk : s.ovf s.last ≠ some false := by rw [h.last]; exact h.kind _ hlmem
    have hd : dealloc {} s p k = ({ s with last := p, next := setF (setF s.next s.last p) p 0, ovf := setF (setF s.ovf s.last (some true)) p (some true) }, .ok ()) := by
      simp [dealloc, hp0, hfirst, hl0, hlk]
    rw [hd]
    obtain ⟨pre, hpre⟩ := eq_append_lastD hne
    have hlp : s.last ≠ p := by rw [h.last]; intro he; rw [he] at hlmem; exact hpf hlmem
    have hnd := h.freeNodup
    rw [hpre, List.nodup_append] at hnd
    have hlpre : FileDump.lastD a.free ∉ pre := fun hm => hnd.2.2 _ hm _ (by simp) rfl
    refine ⟨⟨h.total, h.pos, ?_, ?_, ?_, ?_, ?_, ?_, ?_, ?_⟩, rfl⟩
    · -- the path: pre, then the old tail, then p
      show Seg (setF (setF s.next s.last p) p 0) s.first (a.free ++ [p]) 0
      have hpath := h.path
      rw [hpre, seg_append] at hpath
      obtain ⟨b, hseg1, hseg2⟩ := hpath
      simp only [Seg] at hseg2
      obtain ⟨hb, hbl0, _⟩ := hseg2
      rw [hpre, List.append_assoc, seg_append]
      refine ⟨b, ?_, ?_⟩
      · rw [seg_setF (fun hm => hpf (by rw [hpre]; simp [hm])), seg_setF (by rw [h.last]; exact hlpre)]
        exact hseg1
      · simp only [List.cons_append, List.nil_append, Seg]
        refine ⟨hb, hbl0, ?_, hp0, ?_⟩
        · rw [← h.last]; simp [setF, hlp]
        · simp [setF]
    · simp [Abs.dealloc, lastD_append_singleton]
    · simp only [Abs.dealloc]
      rw [List.nodup_append]
      refine ⟨h.freeNodup, by simp, ?_⟩
      intro q hq r hr
      simp only [List.mem_singleton] at hr
      subst hr
      intro he; subst he; exact hpf hq
    · exact h.usedNodup.erase p
    · intro q hq
      simp only [Abs.dealloc, List.mem_append, List.mem_singleton] at hq ⊢
      rw [h.usedNodup.mem_erase_iff]
      cases hq with
      | inl hq => intro hc; exact h.disj q hq hc.2
      | inr hq => intro hc; exact hc.1 hq
    · intro q
      simp only [Abs.dealloc, List.mem_append, List.mem_singleton]
      rw [h.usedNodup.mem_erase_iff, h.cover q]
      constructor
      · rintro (hu | hfr)
        · by_cases he : q = p
          · exact Or.inr (Or.inr he)
          · exact Or.inl ⟨he, hu⟩
        · exact Or.inr (Or.inl hfr)
      · rintro (⟨_, hu⟩ | hfr | he)
        · exact Or.inl hu
        · exact Or.inr hfr
        · subst he; exact Or.inl hp
    · have := h.count
      simp only [Abs.dealloc, List.length_append, List.length_singleton]
      rw [List.length_erase_of_mem hp]
      have : 0 < a.used.length := List.length_pos_of_mem hp
      omega
    · intro q hq
      simp only [Abs.dealloc, List.mem_append, List.mem_singleton] at hq
      show setF (setF s.ovf s.last (some true)) p (some true) q ≠ some false
      simp only [setF]
      split
      · simp
      · split
        · simp
        · cases hq with
          | inl hq => exact h.kind q hq
          | inr hq => contradiction

/-- setting the link of a page that has been handed out does not touch the free list -/
theorem link_inv {s : Alloc} {a : Abs} (h : Inv s a) (p q : Nat) (hp : p ∈ a.used) : Inv (link s p q).1 a := by
  have hpf : p ∉ a.free := fun hm => h.disj p hm hp
  unfold link
  split
  · exact h
  · split
    · exact h
    · refine ⟨h.total, h.pos, ?_, h.last, h.freeNodup, h.usedNodup, h.disj, h.cover, h.count, ?_⟩
      · show Seg (setF s.next p q) s.first a.free 0
        rw [seg_setF hpf]; exact h.path
      · intro r hr
        show setF s.ovf p (some true) r ≠ some false
        simp only [setF]
        split
        · simp
        · exact h.kind r hr

theorem flush_inv {s : Alloc} {a : Abs} (h : Inv s a) : Inv (flush s) a :=
  ⟨h.total, h.pos, h.path, h.last, h.freeNodup, h.usedNodup, h.disj, h.cover, h.count, by intro p _; simp [flush]⟩

/-- what the specification says a step answers (`none`: not specified — `link` may be refused on a B-tree frame) -/
def Abs.out (a : Abs) : Op → Option Out
  | .alloc _ => some (.page a.alloc.2)
  | .dealloc _ _ => some .ok
  | .link _ _ => none
  | .flush => some .ok

/-- one step of the pointer-level machine refines one step of the specification -/
theorem step_inv {s : Alloc} {a a' : Abs} (h : Inv s a) (op : Op) (hs : a.step op = some a') :
    Inv (step {} s op).1 a' ∧ ∀ o, a.out op = some o → (step {} s op).2 = o := by
  cases op with
  | alloc k =>
    simp only [Abs.step, Option.some.injEq] at hs
    subst hs
    obtain ⟨hi, ho⟩ := alloc_inv h k
    simp only [step]
    cases hal : alloc s k with
    | mk s' r =>
      rw [hal] at hi ho
      simp only at ho
      subst ho
      exact ⟨hi, by intro o ho; simp only [Abs.out, Option.some.injEq] at ho; exact ho⟩
  | dealloc p k =>
    simp only [Abs.step] at hs
    split at hs
    · next hp =>
      simp only [Option.some.injEq] at hs
      subst hs
      obtain ⟨hi, ho⟩ := dealloc_inv h p k hp
      simp only [step]
      cases hal : dealloc {} s p k with
      | mk s' r =>
        rw [hal] at hi ho
        simp only at ho
        subst ho
        exact ⟨hi, by intro o ho; simp only [Abs.out, Option.some.injEq] at ho; exact ho⟩
    · cases hs
  | link p q =>
    simp only [Abs.step] at hs
    split at hs
    · next hp =>
      simp only [Option.some.injEq] at hs
      subst hs
      have hi := link_inv h p q hp
      simp only [step]
      cases hal : link s p q with
      | mk s' r =>
        rw [hal] at hi
        cases r with
        | ok u => exact ⟨hi, by intro o ho; cases ho⟩
        | error e => exact ⟨hi, by intro o ho; cases ho⟩
    · cases hs
  | flush =>
    simp only [Abs.step, Option.some.injEq] at hs
    subst hs
    exact ⟨flush_inv h, by intro o ho; simp only [Abs.out, Option.some.injEq] at ho; simpa [step] using ho⟩

theorem run_inv : ∀ (ops : List Op) {s : Alloc} {a a' : Abs}, Inv s a → a.run ops = some a' → Inv (run {} s ops) a' := by
  intro ops
  induction ops with
  | nil => intro s a a' h hr; simp only [Abs.run, Option.some.injEq] at hr; subst hr; exact h
  | cons op ops ih =>
    intro s a a' h hr
    simp only [Abs.run] at hr
    cases hst : a.step op with
    | none => rw [hst] at hr; cases hr
    | some a1 =>
      rw [hst] at hr
      exact ih (step_inv h op hst).1 hr

end AxVerif.Pages

/-! ### facts behind `checkOwnership_sound` -/

namespace AxVerif.Pages
open AxVerif.BTree hiding Op Res
open FileDump

/-- `l` is what one meets following the `next` links of overflow-shaped pages from `a` until a page without successor:
    every member is an overflow-shaped page (`link x = some _`), none is page 0, the last one has `next = none` -/
def LinkPath (link : Nat → Option Nat) : Nat → List Nat → Prop
  | a, [] => a = 0
  | a, x :: xs => a = x ∧ x ≠ 0 ∧ ∃ n, link x = some n ∧ LinkPath link n xs

theorem walkFree_path {link : Nat → Option Nat} : ∀ {fuel a : Nat} {l : List Nat},
    walkFree link fuel a = some l → LinkPath link a l := by
  intro fuel
  induction fuel with
  | zero =>
    intro a l h
    simp only [walkFree] at h
    split at h
    · next ha => cases h; exact ha
    · cases h
  | succ fuel ih =>
    intro a l h
    simp only [walkFree] at h
    split at h
    · next ha => cases h; exact ha
    · next ha =>
      split at h
      · cases h
      · next n hn =>
        split at h
        · next l' hl' =>
          cases h
          exact ⟨rfl, ha, n, hn, ih hl'⟩
        · cases h

/-- a chain accepted by `chainLinked` is a link path from its first page -/
theorem chainLinked_path {link : Nat → Option Nat} : ∀ {c : List Nat}, chainLinked link c = true → (∀ x ∈ c, x ≠ 0) →
    LinkPath link (c.headD 0) c := by
  intro c
  induction c with
  | nil => intro _ _; rfl
  | cons x xs ih =>
    intro h hz
    cases xs with
    | nil =>
      simp only [chainLinked, beq_iff_eq] at h
      exact ⟨rfl, hz x (by simp), 0, h, rfl⟩
    | cons y ys =>
      simp only [chainLinked, Bool.and_eq_true, beq_iff_eq] at h
      exact ⟨rfl, hz x (by simp), y, h.1, ih h.2 (fun z hzm => hz z (by simp [hzm]))⟩

theorem linkPath_last_none {link : Nat → Option Nat} : ∀ {l : List Nat} {a : Nat}, LinkPath link a l → l ≠ [] →
    link (lastD l) = some 0 := by
  intro l
  induction l with
  | nil => intro a _ h; exact absurd rfl h
  | cons x xs ih =>
    intro a h _
    obtain ⟨_, _, n, hn, hrest⟩ := h
    cases xs with
    | nil =>
      simp only [LinkPath] at hrest
      subst hrest
      simpa [lastD] using hn
    | cons y ys =>
      rw [lastD_cons_cons]
      exact ih hrest (by simp)

/-- the two lists have the same length and are related position by position -/
def AllRel {α β : Type} (R : α → β → Prop) : List α → List β → Prop
  | [], [] => True
  | x :: xs, y :: ys => R x y ∧ AllRel R xs ys
  | _, _ => False

theorem allSome_allRel {α β : Type} (g : α → Option β) : ∀ {l : List α} {r : List β},
    FileDump.allSome (l.map g) = some r → AllRel (fun x y => g x = some y) l r := by
  intro l
  induction l with
  | nil => intro r h; simp only [List.map_nil, FileDump.allSome, Option.some.injEq] at h; subst h; trivial
  | cons x xs ih =>
    intro r h
    simp only [List.map_cons] at h
    cases hg : g x with
    | none => rw [hg] at h; simp [FileDump.allSome] at h
    | some y =>
      rw [hg] at h
      simp only [FileDump.allSome] at h
      split at h
      · next r' hr' =>
        cases h
        exact ⟨hg, ih hr'⟩
      · cases h

theorem AllRel.length_eq {α β : Type} {R : α → β → Prop} : ∀ {l : List α} {r : List β}, AllRel R l r → l.length = r.length := by
  intro l
  induction l with
  | nil => intro r h; cases r with
    | nil => rfl
    | cons _ _ => exact h.elim
  | cons x xs ih => intro r h; cases r with
    | nil => exact h.elim
    | cons y ys => simp [ih h.2]

theorem AllRel.get {α β : Type} {R : α → β → Prop} : ∀ {l : List α} {r : List β}, AllRel R l r →
    ∀ (i : Nat) (hi : i < l.length) (hj : i < r.length), R l[i] r[i] := by
  intro l
  induction l with
  | nil => intro r _ i hi; simp at hi
  | cons x xs ih =>
    intro r h i hi hj
    cases r with
    | nil => exact h.elim
    | cons y ys =>
      cases i with
      | zero => exact h.1
      | succ i => exact ih h.2 i (by simpa using hi) (by simpa using hj)

/-- index uniqueness in a list of lists whose concatenation has no duplicate -/
theorem flatten_nodup_index {L : List (List Nat)} (h : L.flatten.Nodup) :
    (∀ (i j : Nat) (hi : i < L.length) (hj : j < L.length) (p : Nat), p ∈ L[i] → p ∈ L[j] → i = j) ∧ ∀ l ∈ L, l.Nodup := by
  have h' := (List.pairwise_flatten (R := (· ≠ ·))).mp h
  refine ⟨?_, h'.1⟩
  intro i j hi hj p hpi hpj
  have hp := List.pairwise_iff_getElem.mp h'.2
  rcases Nat.lt_trichotomy i j with hlt | heq | hgt
  · exact absurd rfl (hp i j hi hj hlt p hpi p hpj)
  · exact heq
  · exact absurd rfl (hp j i hj hi hgt p hpj p hpi)

end AxVerif.Pages
