/- Helper lemmas for the parser part of C05: the Pratt parser reads back a fully parenthesised rendering. -/
import AxVerif.Model.Parser
namespace AxVerif.Parser

def D : Table := docTable

@[simp] theorem dt_or : D.or_ = (1, 2) := rfl
@[simp] theorem dt_and : D.and_ = (3, 4) := rfl
@[simp] theorem dt_eq : D.eq = (5, 6) := rfl
@[simp] theorem dt_neq : D.neq = (5, 6) := rfl
@[simp] theorem dt_lt : D.lt = (5, 6) := rfl
@[simp] theorem dt_gt : D.gt = (5, 6) := rfl
@[simp] theorem dt_le : D.le = (5, 6) := rfl
@[simp] theorem dt_ge : D.ge = (5, 6) := rfl
@[simp] theorem dt_like : D.like = (5, 6) := rfl
@[simp] theorem dt_in : D.in_ = (5, 6) := rfl
@[simp] theorem dt_between : D.between = (5, 6) := rfl
@[simp] theorem dt_is : D.is_ = (5, 6) := rfl
@[simp] theorem dt_plus : D.plus = (7, 8) := rfl
@[simp] theorem dt_minus : D.minus = (7, 8) := rfl
@[simp] theorem dt_star : D.star = (9, 10) := rfl
@[simp] theorem dt_slash : D.slash = (9, 10) := rfl
@[simp] theorem dt_percent : D.percent = (9, 10) := rfl
@[simp] theorem dt_concat : D.concat = (7, 8) := rfl
@[simp] theorem dt_notIn : D.notIn = some (5, 6) := rfl
@[simp] theorem dt_notBetween : D.notBetween = some (5, 6) := rfl
@[simp] theorem dt_notLike : D.notLike = some (5, 6) := rfl
@[simp] theorem dt_notOther : D.notOther = none := rfl
@[simp] theorem dt_comma : D.comma = none := rfl
@[simp] theorem dt_rparen : D.rparen = none := rfl
@[simp] theorem dt_prefixNot : D.prefixNot = 5 := rfl
@[simp] theorem dt_prefixMinus : D.prefixMinus = 11 := rfl
@[simp] theorem dt_prefixPlus : D.prefixPlus = 11 := rfl
@[simp] theorem dt_betweenBound : D.betweenBound = 5 := rfl

/-- a token list that ends an expression at every level: empty, or starting with `)`, `,` -/
def closing : List Tok → Bool
  | [] => true
  | .rparen :: _ => true
  | .comma :: _ => true
  | _ => false

/-- the loop stops at level `m` in front of `R` -/
def stops (m : Nat) : List Tok → Bool
  | [] => true
  | t :: r => match infixPower D t r.head? with
    | none => true
    | some (l, _) => l < m

theorem loop_stops (f m : Nat) (lhs : PExpr) (R : List Tok) (h : stops m R = true) :
    parseLoop D (f + 1) m lhs R = some (lhs, R) := by
  cases R with
  | nil => simp [parseLoop]
  | cons t r =>
    simp only [stops] at h
    simp only [parseLoop]
    cases hp : infixPower D t r.head? with
    | none => simp
    | some lr =>
      obtain ⟨l, rr⟩ := lr
      simp only [hp] at h
      simp only
      have : l < m := by simpa using h
      simp [this]

theorem closing_stops (m : Nat) (R : List Tok) (h : closing R = true) : stops m R = true := by
  cases R with
  | nil => rfl
  | cons t r =>
    cases t <;> simp [closing] at h <;> simp [stops, infixPower, D, docTable]


mutual
def cost : PExpr → Nat
  | .un _ e => cost e + 6
  | .bin _ l r => cost l + cost r + 10
  | .between _ e lo hi => cost e + cost lo + cost hi + 14
  | .inList _ e items => cost e + costList items + 10
  | _ => 2
def costList : List PExpr → Nat
  | [] => 0
  | e :: es => cost e + costList es + 2
end

theorem paren_append (ts R : List Tok) : paren ts ++ R = .lparen :: (ts ++ .rparen :: R) := by
  simp [paren]

/-- an operand in parentheses is parsed back at any level, provided what follows stops the loop there -/
theorem paren_op (e : PExpr)
    (ih : ∀ R, closing R = true → ∀ g, cost e ≤ g → parseBp D g 0 (full e ++ R) = some (e, R))
    (m : Nat) (R : List Tok) (hs : stops m R = true) (g : Nat) (hg : cost e + 2 ≤ g) :
    parseBp D g m (paren (full e) ++ R) = some (e, R) := by
  obtain ⟨k, rfl⟩ : ∃ k, g = k + 2 := ⟨g - 2, by omega⟩
  rw [paren_append]
  simp only [parseBp, parsePrefix]
  rw [ih (.rparen :: R) rfl k (by omega)]
  simp only
  exact loop_stops k m e R hs

theorem atom_loop (g : Nat) (a : PExpr) (R : List Tok) (hR : closing R = true) (rest : List Tok)
    (h : parsePrefix D (g + 1) rest = some (a, R)) : parseBp D (g + 2) 0 rest = some (a, R) := by
  simp only [parseBp, h]
  exact loop_stops g 0 a R (closing_stops 0 R hR)




theorem loop_bin0 (op : BinOp) (l r : PExpr) (Y R : List Tok) (k : Nat)
    (hr : parseBp D k (binPower D op).2 (.lparen :: Y) = some (r, R)) (hR : closing R = true) :
    parseLoop D (k + 2) 0 l (binTok op ++ .lparen :: Y) = some (.bin op l r, R) := by
  have hl := loop_stops k 0 (.bin op l r) R (closing_stops 0 R hR)
  cases op
  all_goals
    simp only [binPower, dt_or, dt_and, dt_eq, dt_neq, dt_lt, dt_gt, dt_le, dt_ge, dt_like, dt_notLike,
      dt_plus, dt_minus, dt_concat, dt_star, dt_slash, dt_percent, dt_is, Option.getD] at hr
    simp only [binTok, List.cons_append, List.nil_append]
    rw [parseLoop]
    simp only [infixPower, List.head?, dt_or, dt_and, dt_eq, dt_neq, dt_lt, dt_gt, dt_le, dt_ge, dt_like, dt_notLike,
      dt_plus, dt_minus, dt_concat, dt_star, dt_slash, dt_percent, dt_is, Nat.not_lt_zero, if_false]
    simp only [parseInfix, simpleBin, hr]
    exact hl

theorem fullList_single (e : PExpr) : fullList [e] = full e := by simp [fullList]
theorem fullList_cons2 (e e2 : PExpr) (r : List PExpr) :
    fullList (e :: e2 :: r) = full e ++ .comma :: fullList (e2 :: r) := by
  rw [fullList]

theorem full_paren_eq (e : PExpr) (Y : List Tok) : paren (full e) ++ Y = .lparen :: (full e ++ .rparen :: Y) := by
  simp [paren]

/-- a parenthesised operand at the head: the prefix step returns it and the loop goes on behind it -/
theorem paren_head (e : PExpr)
    (ih : ∀ R, closing R = true → ∀ g, cost e ≤ g → parseBp D g 0 (full e ++ R) = some (e, R))
    (m : Nat) (Y : List Tok) (f : Nat) (hf : cost e ≤ f) :
    parseBp D (f + 2) m (paren (full e) ++ Y) = parseLoop D (f + 1) m e Y := by
  rw [full_paren_eq]
  simp only [parseBp, parsePrefix]
  rw [ih (.rparen :: Y) rfl f hf]

theorem loop_between0 (neg : Bool) (e lo hi : PExpr) (Y1 Y2 R : List Tok) (k : Nat)
    (hlo : parseBp D k 5 (.lparen :: Y1) = some (lo, .kAnd :: .lparen :: Y2))
    (hhi : parseBp D k 5 (.lparen :: Y2) = some (hi, R)) (hR : closing R = true) :
    parseLoop D (k + 3) 0 e ((if neg then [.kNot, .kBetween] else [.kBetween]) ++ .lparen :: Y1)
      = some (.between neg e lo hi, R) := by
  have hl := loop_stops (k + 1) 0 (.between neg e lo hi) R (closing_stops 0 R hR)
  cases neg
  · simp only [Bool.false_eq_true, ↓reduceIte, List.cons_append, List.nil_append]
    rw [parseLoop]
    simp only [infixPower, dt_between, Nat.not_lt_zero, if_false]
    simp only [parseInfix, simpleBin]
    simp only [parseBetween, dt_betweenBound, hlo, hhi]
    exact hl
  · simp only [↓reduceIte, List.cons_append, List.nil_append]
    rw [parseLoop]
    simp only [infixPower, List.head?, dt_notBetween, Nat.not_lt_zero, if_false]
    simp only [parseInfix, simpleBin]
    simp only [parseBetween, dt_betweenBound, hlo, hhi]
    exact hl

theorem loop_in0 (neg : Bool) (e : PExpr) (items : List PExpr) (Y R : List Tok) (k : Nat)
    (hitems : parseList D k Y = some (items, .rparen :: R)) (hR : closing R = true) :
    parseLoop D (k + 2) 0 e ((if neg then [.kNot, .kIn, .lparen] else [.kIn, .lparen]) ++ Y)
      = some (.inList neg e items, R) := by
  have hl := loop_stops k 0 (.inList neg e items) R (closing_stops 0 R hR)
  cases neg
  · simp only [Bool.false_eq_true, ↓reduceIte, List.cons_append, List.nil_append]
    rw [parseLoop]
    simp only [infixPower, dt_in, Nat.not_lt_zero, if_false]
    simp only [parseInfix, simpleBin, hitems]
    exact hl
  · simp only [↓reduceIte, List.cons_append, List.nil_append]
    rw [parseLoop]
    simp only [infixPower, List.head?, dt_notIn, Nat.not_lt_zero, if_false]
    simp only [parseInfix, simpleBin, hitems]
    exact hl

theorem prefix_un (op : UnOp) (s : PExpr) (Y R : List Tok) (k : Nat)
    (hs : parseBp D k (unPower D op) (.lparen :: Y) = some (s, R)) :
    parsePrefix D (k + 1) (unTok op :: .lparen :: Y) = some (.un op s, R) := by
  cases op <;> simp only [unPower, dt_prefixPlus, dt_prefixMinus, dt_prefixNot] at hs <;>
    simp only [unTok, parsePrefix, dt_prefixPlus, dt_prefixMinus, dt_prefixNot, hs]


mutual
/-- a fully parenthesised expression followed by a closing token is parsed back at level 0 -/
theorem full_rt (e : PExpr) (h : ListsOk e = true) (R : List Tok) (hR : closing R = true)
    (g : Nat) (hg : cost e ≤ g) : parseBp D g 0 (full e ++ R) = some (e, R) := by
  cases e with
  | num i =>
    obtain ⟨k, rfl⟩ : ∃ k, g = k + 2 := ⟨g - 2, by simp only [cost] at hg; omega⟩
    apply atom_loop k _ R hR
    simp only [full]
    split
    · simp only [List.cons_append, List.nil_append, parsePrefix]
      congr 2; congr 1; omega
    · simp only [List.cons_append, List.nil_append, parsePrefix]
      congr 2; congr 1; omega
  | str s =>
    obtain ⟨k, rfl⟩ : ∃ k, g = k + 2 := ⟨g - 2, by simp only [cost] at hg; omega⟩
    exact atom_loop k _ R hR _ (by simp [full, parsePrefix])
  | bool b =>
    obtain ⟨k, rfl⟩ : ∃ k, g = k + 2 := ⟨g - 2, by simp only [cost] at hg; omega⟩
    exact atom_loop k _ R hR _ (by cases b <;> simp [full, parsePrefix])
  | null =>
    obtain ⟨k, rfl⟩ : ∃ k, g = k + 2 := ⟨g - 2, by simp only [cost] at hg; omega⟩
    exact atom_loop k _ R hR _ (by simp [full, parsePrefix])
  | ident s =>
    obtain ⟨k, rfl⟩ : ∃ k, g = k + 2 := ⟨g - 2, by simp only [cost] at hg; omega⟩
    apply atom_loop k _ R hR
    cases R with
    | nil => simp [full, parsePrefix]
    | cons t r => cases t <;> simp [closing] at hR <;> simp [full, parsePrefix]
  | qident a b =>
    obtain ⟨k, rfl⟩ : ∃ k, g = k + 2 := ⟨g - 2, by simp only [cost] at hg; omega⟩
    exact atom_loop k _ R hR _ (by simp [full, parsePrefix])
  | un op s =>
    simp only [ListsOk] at h
    simp only [cost] at hg
    obtain ⟨k, rfl⟩ : ∃ k, g = k + 2 := ⟨g - 2, by omega⟩
    have ih := fun R' hR' g' hg' => full_rt s h R' hR' g' hg'
    have hs : parseBp D k (unPower D op) (.lparen :: (full s ++ .rparen :: R)) = some (s, R) := by
      rw [← full_paren_eq]
      exact paren_op s ih _ R (closing_stops _ R hR) k (by omega)
    simp only [full, List.cons_append]
    rw [full_paren_eq, parseBp, prefix_un op s _ R k hs]
    exact loop_stops k 0 _ R (closing_stops 0 R hR)
  | bin op l r =>
    simp only [ListsOk, Bool.and_eq_true] at h
    simp only [cost] at hg
    obtain ⟨k, rfl⟩ : ∃ k, g = k + 3 := ⟨g - 3, by omega⟩
    have ihl := fun R' hR' g' hg' => full_rt l h.1 R' hR' g' hg'
    have ihr := fun R' hR' g' hg' => full_rt r h.2 R' hR' g' hg'
    simp only [full, List.append_assoc]
    rw [show k + 3 = (k + 1) + 2 from rfl, paren_head l ihl 0 _ (k + 1) (by omega), full_paren_eq]
    have hr : parseBp D k (binPower D op).2 (.lparen :: (full r ++ .rparen :: R)) = some (r, R) := by
      rw [← full_paren_eq]
      exact paren_op r ihr _ R (closing_stops _ R hR) _ (by omega)
    exact loop_bin0 op l r _ R k hr hR
  | between neg e lo hi =>
    simp only [ListsOk, Bool.and_eq_true] at h
    simp only [cost] at hg
    obtain ⟨k, rfl⟩ : ∃ k, g = k + 4 := ⟨g - 4, by omega⟩
    have ihe := fun R' hR' g' hg' => full_rt e h.1.1 R' hR' g' hg'
    have ihlo := fun R' hR' g' hg' => full_rt lo h.1.2 R' hR' g' hg'
    have ihhi := fun R' hR' g' hg' => full_rt hi h.2 R' hR' g' hg'
    simp only [full, List.append_assoc]
    rw [show k + 4 = (k + 2) + 2 from rfl, paren_head e ihe 0 _ (k + 2) (by omega)]
    have hlo : parseBp D k 5 (.lparen :: (full lo ++ .rparen :: (.kAnd :: .lparen :: (full hi ++ .rparen :: R))))
        = some (lo, .kAnd :: .lparen :: (full hi ++ .rparen :: R)) := by
      rw [← full_paren_eq]
      exact paren_op lo ihlo 5 _ (by simp [stops, infixPower]) _ (by omega)
    have hhi : parseBp D k 5 (.lparen :: (full hi ++ .rparen :: R)) = some (hi, R) := by
      rw [← full_paren_eq]
      exact paren_op hi ihhi 5 R (closing_stops 5 R hR) _ (by omega)
    have := loop_between0 neg e lo hi _ _ R k hlo hhi hR
    simp only [full_paren_eq, List.cons_append, List.nil_append] at this ⊢
    exact this
  | inList neg e items =>
    simp only [ListsOk, Bool.and_eq_true, Bool.not_eq_true', List.isEmpty_eq_false_iff] at h
    simp only [cost] at hg
    obtain ⟨k, rfl⟩ : ∃ k, g = k + 3 := ⟨g - 3, by omega⟩
    have ihe := fun R' hR' g' hg' => full_rt e h.1.1 R' hR' g' hg'
    have ihl := fullList_rt items h.1.2 h.2 R k (by omega)
    simp only [full, List.append_assoc]
    rw [show k + 3 = (k + 1) + 2 from rfl, paren_head e ihe 0 _ (k + 1) (by omega)]
    have := loop_in0 neg e items (fullList items ++ .rparen :: R) R k (by simpa using ihl) hR
    simpa using this

/-- the elements of an IN list, separated by commas, up to the closing parenthesis -/
theorem fullList_rt (es : List PExpr) (hne : es ≠ []) (h : ListsOkList es = true) (R : List Tok)
    (g : Nat) (hg : costList es ≤ g) :
    parseList D g (fullList es ++ .rparen :: R) = some (es, .rparen :: R) := by
  cases es with
  | nil => exact absurd rfl hne
  | cons e rest =>
    simp only [ListsOkList, Bool.and_eq_true] at h
    simp only [costList] at hg
    obtain ⟨k, rfl⟩ : ∃ k, g = k + 1 := ⟨g - 1, by omega⟩
    cases rest with
    | nil =>
      rw [fullList_single, parseList]
      rw [full_rt e h.1 (.rparen :: R) rfl k (by simp only [costList] at hg; omega)]
    | cons e2 rest2 =>
      rw [fullList_cons2, parseList]
      simp only [List.append_assoc, List.cons_append]
      rw [full_rt e h.1 (.comma :: (fullList (e2 :: rest2) ++ .rparen :: R)) rfl k (by omega)]
      simp only
      rw [fullList_rt (e2 :: rest2) (by simp) h.2 R k (by omega)]
end


mutual
theorem cost_le_len (e : PExpr) : cost e + 6 ≤ 8 * (full e).length := by
  cases e with
  | num i => simp only [cost, full]; split <;> simp
  | str s => simp [cost, full]
  | bool b => simp [cost, full]
  | null => simp [cost, full]
  | ident s => simp [cost, full]
  | qident a b => simp [cost, full]
  | un op s =>
    have := cost_le_len s
    simp only [cost, full, paren, List.length_cons, List.length_append, List.length_nil]
    omega
  | bin op l r =>
    have h1 := cost_le_len l
    have h2 := cost_le_len r
    simp only [cost, full, paren, List.length_cons, List.length_append, List.length_nil]
    omega
  | between neg e lo hi =>
    have h1 := cost_le_len e
    have h2 := cost_le_len lo
    have h3 := cost_le_len hi
    simp only [cost, full, paren, List.length_cons, List.length_append, List.length_nil]
    omega
  | inList neg e items =>
    have h1 := cost_le_len e
    have h2 := costList_le_len items
    simp only [cost, full, paren, List.length_cons, List.length_append, List.length_nil]
    omega

theorem costList_le_len (es : List PExpr) : costList es ≤ 8 * (fullList es).length := by
  cases es with
  | nil => simp [costList, fullList]
  | cons e rest =>
    have h1 := cost_le_len e
    cases rest with
    | nil =>
      rw [fullList_single]
      simp only [costList]
      omega
    | cons e2 rest2 =>
      have h2 := costList_le_len (e2 :: rest2)
      rw [fullList_cons2]
      simp only [costList, List.length_cons, List.length_append] at h2 ⊢
      omega
end

end AxVerif.Parser
