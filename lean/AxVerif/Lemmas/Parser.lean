/- Helper lemmas for the parser part of C05: the Pratt parser reads back a fully parenthesised rendering. -/
import AxVerif.Model.Parser
namespace AxVerif.Parser

def D : Table := docTable

@[simp] theorem dt_or : D.or_ = (1, 2) := rfl
@[simp] theorem dt_and : D.and_ = (3, 4) := rfl
@[simp] theorem dt_eq : D.eq = (5, 6) := rfl
@[simp] theorem dt_neq : D.neq = (5, 6) := rfl
@[simp] theorem dt_lt : D.lt = (5, 6) := rfl
@[simp] theorem dt_gt : D.gt = (5, 6) := rfl
@[simp] theorem dt_le : D.le = (5, 6) := rfl
@[simp] theorem dt_ge : D.ge = (5, 6) := rfl
@[simp] theorem dt_like : D.like = (5, 6) := rfl
@[simp] theorem dt_in : D.in_ = (5, 6) := rfl
@[simp] theorem dt_between : D.between = (5, 6) := rfl
@[simp] theorem dt_is : D.is_ = (5, 6) := rfl
@[simp] theorem dt_plus : D.plus = (7, 8) := rfl
@[simp] theorem dt_minus : D.minus = (7, 8) := rfl
@[simp] theorem dt_star : D.star = (9, 10) := rfl
@[simp] theorem dt_slash : D.slash = (9, 10) := rfl
@[simp] theorem dt_percent : D.percent = (9, 10) := rfl
@[simp] theorem dt_concat : D.concat = (7, 8) := rfl
@[simp] theorem dt_notIn : D.notIn = some (5, 6) := rfl
@[simp] theorem dt_notBetween : D.notBetween = some (5, 6) := rfl
@[simp] theorem dt_notLike : D.notLike = some (5, 6) := rfl
@[simp] theorem dt_notOther : D.notOther = none := rfl
@[simp] theorem dt_comma : D.comma = none := rfl
@[simp] theorem dt_rparen : D.rparen = none := rfl
@[simp] theorem dt_prefixNot : D.prefixNot = 5 := rfl
@[simp] theorem dt_prefixMinus : D.prefixMinus = 11 := rfl
@[simp] theorem dt_prefixPlus : D.prefixPlus = 11 := rfl
@[simp] theorem dt_betweenBound : D.betweenBound = 5 := rfl

/-- a token list that ends an expression at every level: empty, or starting with `)`, `,` -/
def closing : List Tok → Bool
  | [] => true
  | .rparen :: _ => true
  | .comma :: _ => true
  | _ => false

/-- the loop stops at level `m` in front of `R` -/
def stops (m : Nat) : List Tok → Bool
  | [] => true
  | t :: r => match infixPower D t r.head? with
    | none => true
    | some (l, _) => l < m

theorem loop_stops (f m : Nat) (lhs : PExpr) (R : List Tok) (h : stops m R = true) :
    parseLoop D (f + 1) m lhs R = some (lhs, R) := by
  cases R with
  | nil => simp [parseLoop]
  | cons t r =>
    simp only [stops] at h
    simp only [parseLoop]
    cases hp : infixPower D t r.head? with
    | none => simp
    | some lr =>
      obtain ⟨l, rr⟩ := lr
      simp only [hp] at h
      simp only
      have : l < m := by simpa using h
      simp [this]

theorem closing_stops (m : Nat) (R : List Tok) (h : closing R = true) : stops m R = true := by
  cases R with
  | nil => rfl
  | cons t r =>
    cases t <;> simp [closing] at h <;> simp [stops, infixPower, D, docTable]


mutual
def cost : PExpr → Nat
  | .un _ e => cost e + 6
  | .bin _ l r => cost l + cost r + 10
  | .between _ e lo hi => cost e + cost lo + cost hi + 14
  | .inList _ e items => cost e + costList items + 10
  | _ => 2
def costList : List PExpr → Nat
  | [] => 0
  | e :: es => cost e + costList es + 2
end

theorem paren_append (ts R : List Tok) : paren ts ++ R = .lparen :: (ts ++ .rparen :: R) := by
  simp [paren]

/-- an operand in parentheses is parsed back at any level, provided what follows stops the loop there -/
theorem paren_op (e : PExpr)
    (ih : ∀ R, closing R = true → ∀ g, cost e ≤ g → parseBp D g 0 (full e ++ R) = some (e, R))
    (m : Nat) (R : List Tok) (hs : stops m R = true) (g : Nat) (hg : cost e + 2 ≤ g) :
    parseBp D g m (paren (full e) ++ R) = some (e, R) := by
  obtain ⟨k, rfl⟩ : ∃ k, g = k + 2 := ⟨g - 2, by omega⟩
  rw [paren_append]
  simp only [parseBp, parsePrefix]
  rw [ih (.rparen :: R) rfl k (by omega)]
  simp only
  exact loop_stops k m e R hs

theorem atom_loop (g : Nat) (a : PExpr) (R : List Tok) (hR : closing R = true) (rest : List Tok)
    (h : parsePrefix D (g + 1) rest = some (a, R)) : parseBp D (g + 2) 0 rest = some (a, R) := by
  simp only [parseBp, h]
  exact loop_stops g 0 a R (closing_stops 0 R hR)




theorem loop_bin0 (op : BinOp) (l r : PExpr) (Y R : List Tok) (k : Nat)
    (hr : parseBp D k (binPower D op).2 (.lparen :: Y) = some (r, R)) (hR : closing R = true) :
    parseLoop D (k + 2) 0 l (binTok op ++ .lparen :: Y) = some (.bin op l r, R) := by
  have hl := loop_stops k 0 (.bin op l r) R (closing_stops 0 R hR)
  cases op
  all_goals
    simp only [binPower, dt_or, dt_and, dt_eq, dt_neq, dt_lt, dt_gt, dt_le, dt_ge, dt_like, dt_notLike,
      dt_plus, dt_minus, dt_concat, dt_star, dt_slash, dt_percent, dt_is, Option.getD] at hr
    simp only [binTok, List.cons_append, List.nil_append]
    rw [parseLoop]
    simp only [infixPower, List.head?, dt_or, dt_and, dt_eq, dt_neq, dt_lt, dt_gt, dt_le, dt_ge, dt_like, dt_notLike,
      dt_plus, dt_minus, dt_concat, dt_star, dt_slash, dt_percent, dt_is, Nat.not_lt_zero, if_false]
    simp only [parseInfix, simpleBin, hr]
    exact hl

theorem fullList_single (e : PExpr) : fullList [e] = full e := by simp [fullList]
theorem fullList_cons2 (e e2 : PExpr) (r : List PExpr) :
    fullList (e :: e2 :: r) = full e ++ .comma :: fullList (e2 :: r) := by
  rw [fullList]

theorem full_paren_eq (e : PExpr) (Y : List Tok) : paren (full e) ++ Y = .lparen :: (full e ++ .rparen :: Y) := by
  simp [paren]

/-- a parenthesised operand at the head: the prefix step returns it and the loop goes on behind it -/
theorem paren_head (e : PExpr)
    (ih : ∀ R, closing R = true → ∀ g, cost e ≤ g → parseBp D g 0 (full e ++ R) = some (e, R))
    (m : Nat) (Y : List Tok) (f : Nat) (hf : cost e ≤ f) :
    parseBp D (f + 2) m (paren (full e) ++ Y) = parseLoop D (f + 1) m e Y := by
  rw [full_paren_eq]
  simp only [parseBp, parsePrefix]
  rw [ih (.rparen :: Y) rfl f hf]

theorem loop_between0 (neg : Bool) (e lo hi : PExpr) (Y1 Y2 R : List Tok) (k : Nat)
    (hlo : parseBp D k 5 (.lparen :: Y1) = some (lo, .kAnd :: .lparen :: Y2))
    (hhi : parseBp D k 5 (.lparen :: Y2) = some (hi, R)) (hR : closing R = true) :
    parseLoop D (k + 3) 0 e ((if neg then [.kNot, .kBetween] else [.kBetween]) ++ .lparen :: Y1)
      = some (.between neg e lo hi, R) := by
  have hl := loop_stops (k + 1) 0 (.between neg e lo hi) R (closing_stops 0 R hR)
  cases neg
  · simp only [Bool.false_eq_true, ↓reduceIte, List.cons_append, List.nil_append]
    rw [parseLoop]
    simp only [infixPower, dt_between, Nat.not_lt_zero, if_false]
    simp only [parseInfix, simpleBin]
    simp only [parseBetween, dt_betweenBound, hlo, hhi]
    exact hl
  · simp only [↓reduceIte, List.cons_append, List.nil_append]
    rw [parseLoop]
    simp only [infixPower, List.head?, dt_notBetween, Nat.not_lt_zero, if_false]
    simp only [parseInfix, simpleBin]
    simp only [parseBetween, dt_betweenBound, hlo, hhi]
    exact hl

theorem loop_in0 (neg : Bool) (e : PExpr) (items : List PExpr) (Y R : List Tok) (k : Nat)
    (hitems : parseList D k Y = some (items, .rparen :: R)) (hR : closing R = true) :
    parseLoop D (k + 2) 0 e ((if neg then [.kNot, .kIn, .lparen] else [.kIn, .lparen]) ++ Y)
      = some (.inList neg e items, R) := by
  have hl := loop_stops k 0 (.inList neg e items) R (closing_stops 0 R hR)
  cases neg
  · simp only [Bool.false_eq_true, ↓reduceIte, List.cons_append, List.nil_append]
    rw [parseLoop]
    simp only [infixPower, dt_in, Nat.not_lt_zero, if_false]
    simp only [parseInfix, simpleBin, hitems]
    exact hl
  · simp only [↓reduceIte, List.cons_append, List.nil_append]
    rw [parseLoop]
    simp only [infixPower, List.head?, dt_notIn, Nat.not_lt_zero, if_false]
    simp only [parseInfix, simpleBin, hitems]
    exact hl

theorem prefix_un (op : UnOp) (s : PExpr) (Y R : List Tok) (k : Nat)
    (hs : parseBp D k (unPower D op) (.lparen :: Y) = some (s, R)) :
    parsePrefix D (k + 1) (unTok op :: .lparen :: Y) = some (.un op s, R) := by
  cases op <;> simp only [unPower, dt_prefixPlus, dt_prefixMinus, dt_prefixNot] at hs <;>
    simp only [unTok, parsePrefix, dt_prefixPlus, dt_prefixMinus, dt_prefixNot, hs]


mutual
/-- a fully parenthesised expression followed by a closing token is parsed back at level 0 -/
theorem full_rt (e : PExpr) (h : ListsOk e = true) (R : List Tok) (hR : closing R = true)
    (g : Nat) (hg : cost e ≤ g) : parseBp D g 0 (full e ++ R) = some (e, R) := by
  cases e with
  | num i =>
    obtain ⟨k, rfl⟩ : ∃ k, g = k + 2 := ⟨g - 2, by simp only [cost] at hg; omega⟩
    apply atom_loop k _ R hR
    simp only [full]
    split
    · simp only [List.cons_append, List.nil_append, parsePrefix]
      congr 2; congr 1; omega
    · simp only [List.cons_append, List.nil_append, parsePrefix]
      congr 2; congr 1; omega
  | str s =>
    obtain ⟨k, rfl⟩ : ∃ k, g = k + 2 := ⟨g - 2, by simp only [cost] at hg; omega⟩
    exact atom_loop k _ R hR _ (by simp [full, parsePrefix])
  | bool b =>
    obtain ⟨k, rfl⟩ : ∃ k, g = k + 2 := ⟨g - 2, by simp only [cost] at hg; omega⟩
    exact atom_loop k _ R hR _ (by cases b <;> simp [full, parsePrefix])
  | null =>
    obtain ⟨k, rfl⟩ : ∃ k, g = k + 2 := ⟨g - 2, by simp only [cost] at hg; omega⟩
    exact atom_loop k _ R hR _ (by simp [full, parsePrefix])
  | ident s =>
    obtain ⟨k, rfl⟩ : ∃ k, g = k + 2 := ⟨g - 2, by simp only [cost] at hg; omega⟩
    apply atom_loop k _ R hR
    cases R with
    | nil => simp [full, parsePrefix]
    | cons t r => cases t <;> simp [closing] at hR <;> simp [full, parsePrefix]
  | qident a b =>
    obtain ⟨k, rfl⟩ : ∃ k, g = k + 2 := ⟨g - 2, by simp only [cost] at hg; omega⟩
    exact atom_loop k _ R hR _ (by simp [full, parsePrefix])
  | un op s =>
    simp only [ListsOk] at h
    simp only [cost] at hg
    obtain ⟨k, rfl⟩ : ∃ k, g = k + 2 := ⟨g - 2, by omega⟩
    have ih := fun R' hR' g' hg' => full_rt s h R' hR' g' hg'
    have hs : parseBp D k (unPower D op) (.lparen :: (full s ++ .rparen :: R)) = some (s, R) := by
      rw [← full_paren_eq]
      exact paren_op s ih _ R (closing_stops _ R hR) k (by omega)
    simp only [full, List.cons_append]
    rw [full_paren_eq, parseBp, prefix_un op s _ R k hs]
    exact loop_stops k 0 _ R (closing_stops 0 R hR)
  | bin op l r =>
    simp only [ListsOk, Bool.and_eq_true] at h
    simp only [cost] at hg
    obtain ⟨k, rfl⟩ : ∃ k, g = k + 3 := ⟨g - 3, by omega⟩
    have ihl := fun R' hR' g' hg' => full_rt l h.1 R' hR' g' hg'
    have ihr := fun R' hR' g' hg' => full_rt r h.2 R' hR' g' hg'
    simp only [full, List.append_assoc]
    rw [show k + 3 = (k + 1) + 2 from rfl, paren_head l ihl 0 _ (k + 1) (by omega), full_paren_eq]
    have hr : parseBp D k (binPower D op).2 (.lparen :: (full r ++ .rparen :: R)) = some (r, R) := by
      rw [← full_paren_eq]
      exact paren_op r ihr _ R (closing_stops _ R hR) _ (by omega)
    exact loop_bin0 op l r _ R k hr hR
  | between neg e lo hi =>
    simp only [ListsOk, Bool.and_eq_true] at h
    simp only [cost] at hg
    obtain ⟨k, rfl⟩ : ∃ k, g = k + 4 := ⟨g - 4, by omega⟩
    have ihe := fun R' hR' g' hg' => full_rt e h.1.1 R' hR' g' hg'
    have ihlo := fun R' hR' g' hg' => full_rt lo h.1.2 R' hR' g' hg'
    have ihhi := fun R' hR' g' hg' => full_rt hi h.2 R' hR' g' hg'
    simp only [full, List.append_assoc]
    rw [show k + 4 = (k + 2) + 2 from rfl, paren_head e ihe 0 _ (k + 2) (by omega)]
    have hlo : parseBp D k 5 (.lparen :: (full lo ++ .rparen :: (.kAnd :: .lparen :: (full hi ++ .rparen :: R))))
        = some (lo, .kAnd :: .lparen :: (full hi ++ .rparen :: R)) := by
      rw [← full_paren_eq]
      exact paren_op lo ihlo 5 _ (by simp [stops, infixPower]) _ (by omega)
    have hhi : parseBp D k 5 (.lparen :: (full hi ++ .rparen :: R)) = some (hi, R) := by
      rw [← full_paren_eq]
      exact paren_op hi ihhi 5 R (closing_stops 5 R hR) _ (by omega)
    have := loop_between0 neg e lo hi _ _ R k hlo hhi hR
    simp only [full_paren_eq, List.cons_append, List.nil_append] at this ⊢
    exact this
  | inList neg e items =>
    simp only [ListsOk, Bool.and_eq_true, Bool.not_eq_true', List.isEmpty_eq_false_iff] at h
    simp only [cost] at hg
    obtain ⟨k, rfl⟩ : ∃ k, g = k + 3 := ⟨g - 3, by omega⟩
    have ihe := fun R' hR' g' hg' => full_rt e h.1.1 R' hR' g' hg'
    have ihl := fullList_rt items h.1.2 h.2 R k (by omega)
    simp only [full, List.append_assoc]
    rw [show k + 3 = (k + 1) + 2 from rfl, paren_head e ihe 0 _ (k + 1) (by omega)]
    have := loop_in0 neg e items (fullList items ++ .rparen :: R) R k (by simpa using ihl) hR
    simpa using this

/-- the elements of an IN list, separated by commas, up to the closing parenthesis -/
theorem fullList_rt (es : List PExpr) (hne : es ≠ []) (h : ListsOkList es = true) (R : List Tok)
    (g : Nat) (hg : costList es ≤ g) :
    parseList D g (fullList es ++ .rparen :: R) = some (es, .rparen :: R) := by
  cases es with
  | nil => exact absurd rfl hne
  | cons e rest =>
    simp only [ListsOkList, Bool.and_eq_true] at h
    simp only [costList] at hg
    obtain ⟨k, rfl⟩ : ∃ k, g = k + 1 := ⟨g - 1, by omega⟩
    cases rest with
    | nil =>
      rw [fullList_single, parseList]
      rw [full_rt e h.1 (.rparen :: R) rfl k (by simp only [costList] at hg; omega)]
    | cons e2 rest2 =>
      rw [fullList_cons2, parseList]
      simp only [List.append_assoc, List.cons_append]
      rw [full_rt e h.1 (.comma :: (fullList (e2 :: rest2) ++ .rparen :: R)) rfl k (by omega)]
      simp only
      rw [fullList_rt (e2 :: rest2) (by simp) h.2 R k (by omega)]
end


mutual
theorem cost_le_len (e : PExpr) : cost e + 6 ≤ 8 * (full e).length := by
  cases e with
  | num i => simp only [cost, full]; split <;> simp
  | str s => simp [cost, full]
  | bool b => simp [cost, full]
  | null => simp [cost, full]
  | ident s => simp [cost, full]
  | qident a b => simp [cost, full]
  | un op s =>
    have := cost_le_len s
    simp only [cost, full, paren, List.length_cons, List.length_append, List.length_nil]
    omega
  | bin op l r =>
    have h1 := cost_le_len l
    have h2 := cost_le_len r
    simp only [cost, full, paren, List.length_cons, List.length_append, List.length_nil]
    omega
  | between neg e lo hi =>
    have h1 := cost_le_len e
    have h2 := cost_le_len lo
    have h3 := cost_le_len hi
    simp only [cost, full, paren, List.length_cons, List.length_append, List.length_nil]
    omega
  | inList neg e items =>
    have h1 := cost_le_len e
    have h2 := costList_le_len items
    simp only [cost, full, paren, List.length_cons, List.length_append, List.length_nil]
    omega

theorem costList_le_len (es : List PExpr) : costList es ≤ 8 * (fullList es).length := by
  cases es with
  | nil => simp [costList, fullList]
  | cons e rest =>
    have h1 := cost_le_len e
    cases rest with
    | nil =>
      rw [fullList_single]
      simp only [costList]
      omega
    | cons e2 rest2 =>
      have h2 := costList_le_len (e2 :: rest2)
      rw [fullList_cons2]
      simp only [costList, List.length_cons, List.length_append] at h2 ⊢
      omega
end


/-! ## minimal parentheses -/

/-- the token after an expression may not turn an identifier into a qualified name or a call -/
def okHead : List Tok → Bool
  | .dot :: _ => false
  | .lparen :: _ => false
  | _ => true

theorem stops_mono (d d' : Nat) (R : List Tok) (h : stops d R = true) (hd : d ≤ d') : stops d' R = true := by
  cases R with
  | nil => rfl
  | cons t r =>
    simp only [stops] at h ⊢
    cases hp : infixPower D t r.head? with
    | none => simp
    | some lr =>
      simp only [hp] at h ⊢
      have : lr.1 < d := by simpa using h
      simp; omega

/-- what must hold of the tokens after an unparenthesised expression for it to be read back as a unit:
    they must stop the parse of its right-most operand, all the way down its right spine -/
def safeU : PExpr → List Tok → Prop
  | .un op s, R => stops (unPower D op) R = true ∧ (level D s < unPower D op ∨ safeU s R)
  | .bin op _ r, R => stops (binPower D op).2 R = true ∧ (level D r < (binPower D op).2 ∨ safeU r R)
  | .between _ _ _ hi, R => stops 5 R = true ∧ (level D hi < 7 ∨ safeU hi R)
  | _, _ => True

theorem level_bin (op : BinOp) (l r : PExpr) : level D (.bin op l r) = (binPower D op).1 := rfl
theorem level_un (op : UnOp) (s : PExpr) : level D (.un op s) = unPower D op := rfl

theorem rbp_eq (op : BinOp) : (binPower D op).2 = (binPower D op).1 + 1 := by
  cases op <;> simp [binPower]

/-- Lemma S: tokens that stop level `d` are safe behind any expression printed where a level ≥ `d` is required -/
theorem safe_of_stops (e : PExpr) (d c : Nat) (R : List Tok) (hs : stops d R = true) (hd : d ≤ c) :
    (level D e < c ∨ safeU e R) := by
  cases e with
  | un op s =>
    by_cases hl : level D (.un op s) < c
    · exact Or.inl hl
    · right
      rw [level_un] at hl
      simp only [safeU]
      exact ⟨stops_mono d _ R hs (by omega), safe_of_stops s d _ R hs (by omega)⟩
  | bin op l r =>
    by_cases hl : level D (.bin op l r) < c
    · exact Or.inl hl
    · right
      rw [level_bin] at hl
      have := rbp_eq op
      simp only [safeU]
      exact ⟨stops_mono d _ R hs (by omega), safe_of_stops r d _ R hs (by omega)⟩
  | between neg e lo hi =>
    by_cases hl : level D (.between neg e lo hi) < c
    · exact Or.inl hl
    · right
      have : level D (.between neg e lo hi) = 5 := rfl
      rw [this] at hl
      simp only [safeU]
      exact ⟨stops_mono d _ R hs (by omega), safe_of_stops hi d 7 R hs (by omega)⟩
  | num _ | str _ | bool _ | null | ident _ | qident _ _ | inList _ _ _ => right; simp [safeU]


mutual
def costM : PExpr → Nat
  | .un _ e => costM e + 12
  | .bin _ l r => costM l + costM r + 20
  | .between _ e lo hi => costM e + costM lo + costM hi + 30
  | .inList _ e items => costM e + costMList items + 20
  | _ => 4
def costMList : List PExpr → Nat
  | [] => 0
  | e :: es => costM e + costMList es + 8
end

/-- round trip of the unparenthesised rendering, in continuation form: if the loop, continued behind the
    expression with enough fuel, gives `res`, then so does the parser on the rendering followed by `R` -/
def MBstmt (e : PExpr) : Prop :=
  ∀ (m : Nat) (R : List Tok) (res : PExpr × List Tok) (f0 : Nat),
    m ≤ level D e → okHead R = true → safeU e R →
    (∀ f, f0 ≤ f → parseLoop D f m e R = some res) →
    ∀ g, f0 + costM e ≤ g → parseBp D g m (body D e ++ R) = some res

/-- the same for the rendering at a required level `c` (parenthesised iff the level of `e` is below `c`) -/
def Mstmt (e : PExpr) : Prop :=
  ∀ (c m : Nat) (R : List Tok) (res : PExpr × List Tok) (f0 : Nat),
    m ≤ c → okHead R = true → (level D e < c ∨ safeU e R) →
    (∀ f, f0 ≤ f → parseLoop D f m e R = some res) →
    ∀ g, f0 + costM e + 4 ≤ g → parseBp D g m (toks D c e ++ R) = some res

theorem stops_rparen (d : Nat) (R : List Tok) : stops d (.rparen :: R) = true := by
  simp [stops, infixPower]

theorem wrap_of_body (e : PExpr) (h : MBstmt e) : Mstmt e := by
  intro c m R res f0 hm hok hsafe hcont g hg
  simp only [toks, wrapIf]
  by_cases hl : level D e < c
  · simp only [hl, decide_true, if_true, List.cons_append, List.append_assoc, List.nil_append]
    obtain ⟨k, rfl⟩ : ∃ k, g = k + 2 := ⟨g - 2, by omega⟩
    have hsU : safeU e (.rparen :: R) := by
      rcases safe_of_stops e 0 0 (.rparen :: R) (stops_rparen 0 R) (Nat.le_refl 0) with h0 | h0
      · exact absurd h0 (Nat.not_lt_zero _)
      · exact h0
    have hin := h 0 (.rparen :: R) (e, .rparen :: R) 1 (Nat.zero_le _) rfl hsU
      (fun f hf => by
        obtain ⟨f', rfl⟩ : ∃ f', f = f' + 1 := ⟨f - 1, by omega⟩
        exact loop_stops f' 0 e _ (stops_rparen 0 R))
      k (by omega)
    simp only [parseBp, parsePrefix, hin]
    exact hcont (k + 1) (by omega)
  · simp only [hl, decide_false, Bool.false_eq_true, if_false]
    exact h m R res f0 (by omega) hok (by rcases hsafe with h1 | h1; exact absurd h1 hl; exact h1) hcont g (by omega)


/-! ### facts about the documented table -/

theorem lbp_le_leftCtx (op : BinOp) : (binPower D op).1 ≤ leftCtx D op := by
  cases op <;> simp [leftCtx, cmpLevel, binPower]

theorem leftCtx_le_rbp (op : BinOp) : leftCtx D op ≤ (binPower D op).2 := by
  cases op <;> simp [leftCtx, cmpLevel, binPower]

theorem un_left_fact (op1 : UnOp) (op : BinOp) (h : leftCtx D op ≤ unPower D op1) :
    (binPower D op).1 < unPower D op1 := by
  cases op1 <;> cases op <;> simp [leftCtx, cmpLevel, binPower, unPower] at h ⊢

theorem between_left_fact (op : BinOp) (h : leftCtx D op ≤ 5) : (binPower D op).1 < 5 := by
  cases op <;> simp [leftCtx, cmpLevel, binPower] at h ⊢

theorem stops_binTok (op : BinOp) (d : Nat) (X : List Tok) (h : (binPower D op).1 < d) :
    stops d (binTok op ++ X) = true := by
  cases op <;> simp [binTok, stops, infixPower, binPower] at h ⊢ <;> exact h

theorem okHead_binTok (op : BinOp) (X : List Tok) : okHead (binTok op ++ X) = true := by
  cases op <;> rfl

/-- left safety: a left operand printed at the level its operator requires is safe in front of that operator -/
theorem safe_left (l : PExpr) (op : BinOp) (X : List Tok) :
    level D l < leftCtx D op ∨ safeU l (binTok op ++ X) := by
  have hlb := lbp_le_leftCtx op
  cases l with
  | un op1 s1 =>
    by_cases hl : level D (.un op1 s1) < leftCtx D op
    · exact Or.inl hl
    · right
      rw [level_un] at hl
      have hf := un_left_fact op1 op (by omega)
      simp only [safeU]
      exact ⟨stops_binTok op _ X hf,
        safe_of_stops s1 ((binPower D op).1 + 1) _ _ (stops_binTok op _ X (by omega)) (by omega)⟩
  | bin op1 l1 r1 =>
    by_cases hl : level D (.bin op1 l1 r1) < leftCtx D op
    · exact Or.inl hl
    · right
      rw [level_bin] at hl
      have := rbp_eq op1
      simp only [safeU]
      exact ⟨stops_binTok op _ X (by omega),
        safe_of_stops r1 ((binPower D op).1 + 1) _ _ (stops_binTok op _ X (by omega)) (by omega)⟩
  | between neg e lo hi =>
    by_cases hl : level D (.between neg e lo hi) < leftCtx D op
    · exact Or.inl hl
    · right
      have h5 : level D (.between neg e lo hi) = 5 := rfl
      rw [h5] at hl
      have hf := between_left_fact op (by omega)
      simp only [safeU]
      exact ⟨stops_binTok op _ X hf,
        safe_of_stops hi ((binPower D op).1 + 1) 7 _ (stops_binTok op _ X (by omega)) (by omega)⟩
  | num _ | str _ | bool _ | null | ident _ | qident _ _ | inList _ _ _ => right; simp [safeU]

/-! ### first tokens -/

theorem toks_paren (c : Nat) (e : PExpr) (h : level D e < c) : toks D c e = .lparen :: (body D e ++ [.rparen]) := by
  simp [toks, wrapIf, h]

theorem toks_bare (c : Nat) (e : PExpr) (h : ¬ level D e < c) : toks D c e = body D e := by
  simp [toks, wrapIf, h]

/-- where a level ≥ 6 is required, the rendering never starts with NOT (needed behind IS) -/
theorem head_not_kNot (e : PExpr) (c : Nat) (hc : 6 ≤ c) (R X : List Tok) : toks D c e ++ R ≠ .kNot :: X := by
  by_cases hl : level D e < c
  · rw [toks_paren c e hl]; simp
  · rw [toks_bare c e hl]
    cases e with
    | num i => simp only [body]; split <;> simp
    | str s => simp [body]
    | bool b => cases b <;> simp [body]
    | null => simp [body]
    | ident s => simp [body]
    | qident a b => simp [body]
    | un op s =>
      rw [level_un] at hl
      cases op <;> simp [body, unTok, unPower] at hl ⊢
      omega
    | bin op l r =>
      rw [level_bin] at hl
      have hlc : 6 ≤ leftCtx D op := by have := lbp_le_leftCtx op; omega
      simp only [body, List.append_assoc]
      exact head_not_kNot l (leftCtx D op) hlc _ X
    | between neg e lo hi =>
      have h5 : level D (.between neg e lo hi) = 5 := rfl
      rw [h5] at hl; omega
    | inList neg e items =>
      have h5 : level D (.inList neg e items) = 5 := rfl
      rw [h5] at hl; omega

/-- the operand of a unary sign never starts with a number token, unless it is a non-negative literal -/
theorem head_not_num (s : PExpr) (hs : ∀ k : Int, s = .num k → k < 0) (R X : List Tok) (n : Nat) :
    toks D 11 s ++ R ≠ .num n :: X := by
  by_cases hl : level D s < 11
  · rw [toks_paren 11 s hl]; simp
  · rw [toks_bare 11 s hl]
    cases s with
    | num i =>
      have := hs i rfl
      simp [body, this]
    | str s => simp [body]
    | bool b => cases b <;> simp [body]
    | null => simp [body]
    | ident s => simp [body]
    | qident a b => simp [body]
    | un op s => cases op <;> simp [body, unTok]
    | bin op l r =>
      rw [level_bin] at hl
      exfalso; apply hl
      cases op <;> simp [binPower]
    | between neg e lo hi =>
      have h5 : level D (.between neg e lo hi) = 5 := rfl
      rw [h5] at hl; omega
    | inList neg e items =>
      have h5 : level D (.inList neg e items) = 5 := rfl
      rw [h5] at hl; omega


/-! ### one step of the loop, in continuation form (any level `m` not above the operator's left power) -/

theorem loop_bin (op : BinOp) (l r : PExpr) (m : Nat) (X R : List Tok) (res : PExpr × List Tok) (k : Nat)
    (hm : m ≤ (binPower D op).1) (hX : op = .is → ∀ Y, X ≠ .kNot :: Y)
    (hr : parseBp D k (binPower D op).2 X = some (r, R))
    (hc : parseLoop D (k + 1) m (.bin op l r) R = some res) :
    parseLoop D (k + 2) m l (binTok op ++ X) = some res := by
  cases op
  case is =>
    simp only [binPower, dt_is] at hr hm
    simp only [binTok, List.cons_append, List.nil_append]
    rw [parseLoop]
    simp only [infixPower, dt_is, Nat.not_lt.mpr hm, if_false]
    have hX' := hX rfl
    cases X with
    | nil => simp only [parseInfix, simpleBin, hr]; exact hc
    | cons t T =>
      cases t <;> first
        | exact absurd rfl (hX' T)
        | (simp only [parseInfix, simpleBin, hr]; exact hc)
  all_goals
    simp only [binPower, dt_or, dt_and, dt_eq, dt_neq, dt_lt, dt_gt, dt_le, dt_ge, dt_like, dt_notLike,
      dt_plus, dt_minus, dt_concat, dt_star, dt_slash, dt_percent, dt_is, Option.getD] at hr hm
    simp only [binTok, List.cons_append, List.nil_append]
    rw [parseLoop]
    simp only [infixPower, List.head?, dt_or, dt_and, dt_eq, dt_neq, dt_lt, dt_gt, dt_le, dt_ge, dt_like, dt_notLike,
      dt_plus, dt_minus, dt_concat, dt_star, dt_slash, dt_percent, dt_is, Nat.not_lt.mpr hm, if_false]
    simp only [parseInfix, simpleBin, hr]
    exact hc

theorem prefix_un_gen (op : UnOp) (s : PExpr) (X R : List Tok) (k : Nat)
    (hX : op = .neg → ∀ n Y, X ≠ .num n :: Y)
    (hs : parseBp D k (unPower D op) X = some (s, R)) :
    parsePrefix D (k + 1) (unTok op :: X) = some (.un op s, R) := by
  cases op
  case neg =>
    simp only [unPower, dt_prefixMinus] at hs
    have hX' := hX rfl
    cases X with
    | nil => simp only [unTok, parsePrefix, dt_prefixMinus, hs]
    | cons t T =>
      cases t <;> first
        | exact absurd rfl (hX' _ T)
        | simp only [unTok, parsePrefix, dt_prefixMinus, hs]
  all_goals
    simp only [unPower, dt_prefixPlus, dt_prefixNot] at hs
    simp only [unTok, parsePrefix, dt_prefixPlus, dt_prefixNot, hs]

theorem loop_between (neg : Bool) (e lo hi : PExpr) (m : Nat) (X1 X2 R : List Tok) (res : PExpr × List Tok) (k : Nat)
    (hm : m ≤ 5)
    (hlo : parseBp D k 5 X1 = some (lo, .kAnd :: X2))
    (hhi : parseBp D k 5 X2 = some (hi, R))
    (hc : parseLoop D (k + 2) m (.between neg e lo hi) R = some res) :
    parseLoop D (k + 3) m e ((if neg then [.kNot, .kBetween] else [.kBetween]) ++ X1) = some res := by
  cases neg
  · simp only [Bool.false_eq_true, ↓reduceIte, List.cons_append, List.nil_append]
    rw [parseLoop]
    simp only [infixPower, dt_between, Nat.not_lt.mpr hm, if_false]
    simp only [parseInfix, simpleBin]
    simp only [parseBetween, dt_betweenBound, hlo, hhi]
    exact hc
  · simp only [↓reduceIte, List.cons_append, List.nil_append]
    rw [parseLoop]
    simp only [infixPower, List.head?, dt_notBetween, Nat.not_lt.mpr hm, if_false]
    simp only [parseInfix, simpleBin]
    simp only [parseBetween, dt_betweenBound, hlo, hhi]
    exact hc

theorem loop_in (neg : Bool) (e : PExpr) (items : List PExpr) (m : Nat) (Y R : List Tok) (res : PExpr × List Tok)
    (k : Nat) (hm : m ≤ 5)
    (hitems : parseList D k Y = some (items, .rparen :: R))
    (hc : parseLoop D (k + 1) m (.inList neg e items) R = some res) :
    parseLoop D (k + 2) m e ((if neg then [.kNot, .kIn, .lparen] else [.kIn, .lparen]) ++ Y) = some res := by
  cases neg
  · simp only [Bool.false_eq_true, ↓reduceIte, List.cons_append, List.nil_append]
    rw [parseLoop]
    simp only [infixPower, dt_in, Nat.not_lt.mpr hm, if_false]
    simp only [parseInfix, simpleBin, hitems]
    exact hc
  · simp only [↓reduceIte, List.cons_append, List.nil_append]
    rw [parseLoop]
    simp only [infixPower, List.head?, dt_notIn, Nat.not_lt.mpr hm, if_false]
    simp only [parseInfix, simpleBin, hitems]
    exact hc


theorem printable_un (op : UnOp) (s : PExpr) (h : Printable (.un op s) = true) :
    Printable s = true ∧ (op = .neg → ∀ k : Int, s = .num k → k < 0) := by
  cases op <;> cases s <;> simp_all [Printable]

theorem body_un (op : UnOp) (s : PExpr) : body D (.un op s) = unTok op :: toks D (unPower D op) s := by
  simp [body, toks]

theorem body_bin (op : BinOp) (l r : PExpr) :
    body D (.bin op l r) = toks D (leftCtx D op) l ++ binTok op ++ toks D (binPower D op).2 r := by
  simp [body, toks]

theorem body_between (neg : Bool) (e lo hi : PExpr) :
    body D (.between neg e lo hi) =
      toks D 6 e ++ (if neg then [.kNot, .kBetween] else [.kBetween]) ++ toks D 7 lo ++ [.kAnd] ++ toks D 7 hi := by
  rw [body]; rfl

theorem body_inList (neg : Bool) (e : PExpr) (items : List PExpr) :
    body D (.inList neg e items) =
      toks D 6 e ++ (if neg then [.kNot, .kIn, .lparen] else [.kIn, .lparen]) ++ bodyList D items ++ [.rparen] := by
  rw [body]; rfl

theorem bodyList_single (e : PExpr) : bodyList D [e] = body D e := by simp [bodyList]
theorem bodyList_cons2 (e e2 : PExpr) (r : List PExpr) :
    bodyList D (e :: e2 :: r) = body D e ++ .comma :: bodyList D (e2 :: r) := by
  rw [bodyList]

theorem cont_stops (e : PExpr) (m : Nat) (R : List Tok) (h : stops m R = true) :
    ∀ f, 1 ≤ f → parseLoop D f m e R = some (e, R) := by
  intro f hf
  obtain ⟨f', rfl⟩ : ∃ f', f = f' + 1 := ⟨f - 1, by omega⟩
  exact loop_stops f' m e R h

mutual
theorem body_rt (e : PExpr) (h : Printable e = true) : MBstmt e := by
  intro m R res f0 hm hok hsafe hcont g hg
  cases e with
  | num i =>
    obtain ⟨k, rfl⟩ : ∃ k, g = k + 2 := ⟨g - 2, by simp only [costM] at hg; omega⟩
    have hp : parsePrefix D (k + 1) (body D (.num i) ++ R) = some (.num i, R) := by
      simp only [body]
      split
      · simp only [List.cons_append, List.nil_append, parsePrefix]
        congr 2; congr 1; omega
      · simp only [List.cons_append, List.nil_append, parsePrefix]
        congr 2; congr 1; omega
    rw [parseBp, hp]
    exact hcont (k + 1) (by simp only [costM] at hg; omega)
  | str s =>
    obtain ⟨k, rfl⟩ : ∃ k, g = k + 2 := ⟨g - 2, by simp only [costM] at hg; omega⟩
    rw [parseBp, show parsePrefix D (k + 1) (body D (.str s) ++ R) = some (.str s, R) from by simp [body, parsePrefix]]
    exact hcont (k + 1) (by simp only [costM] at hg; omega)
  | bool b =>
    obtain ⟨k, rfl⟩ : ∃ k, g = k + 2 := ⟨g - 2, by simp only [costM] at hg; omega⟩
    rw [parseBp, show parsePrefix D (k + 1) (body D (.bool b) ++ R) = some (.bool b, R) from by
      cases b <;> simp [body, parsePrefix]]
    exact hcont (k + 1) (by simp only [costM] at hg; omega)
  | null =>
    obtain ⟨k, rfl⟩ : ∃ k, g = k + 2 := ⟨g - 2, by simp only [costM] at hg; omega⟩
    rw [parseBp, show parsePrefix D (k + 1) (body D .null ++ R) = some (.null, R) from by simp [body, parsePrefix]]
    exact hcont (k + 1) (by simp only [costM] at hg; omega)
  | ident s =>
    obtain ⟨k, rfl⟩ : ∃ k, g = k + 2 := ⟨g - 2, by simp only [costM] at hg; omega⟩
    have hp : parsePrefix D (k + 1) (body D (.ident s) ++ R) = some (.ident s, R) := by
      cases R with
      | nil => simp [body, parsePrefix]
      | cons t r => cases t <;> simp [okHead] at hok <;> simp [body, parsePrefix]
    rw [parseBp, hp]
    exact hcont (k + 1) (by simp only [costM] at hg; omega)
  | qident a b =>
    obtain ⟨k, rfl⟩ : ∃ k, g = k + 2 := ⟨g - 2, by simp only [costM] at hg; omega⟩
    rw [parseBp, show parsePrefix D (k + 1) (body D (.qident a b) ++ R) = some (.qident a b, R) from by
      simp [body, parsePrefix]]
    exact hcont (k + 1) (by simp only [costM] at hg; omega)
  | un op s =>
    have hp := printable_un op s h
    have hM := wrap_of_body s (body_rt s hp.1)
    simp only [safeU] at hsafe
    simp only [costM] at hg
    obtain ⟨k, rfl⟩ : ∃ k, g = k + 2 := ⟨g - 2, by omega⟩
    have hs : parseBp D k (unPower D op) (toks D (unPower D op) s ++ R) = some (s, R) :=
      hM (unPower D op) (unPower D op) R (s, R) 1 (Nat.le_refl _) hok hsafe.2
        (cont_stops s _ R hsafe.1) k (by omega)
    rw [body_un, List.cons_append, parseBp,
      prefix_un_gen op s _ R k (fun hop n Y => by
        subst hop
        exact head_not_num s (hp.2 rfl) R Y n) hs]
    exact hcont (k + 1) (by omega)
  | bin op l r =>
    simp only [Printable, Bool.and_eq_true] at h
    have hMl := wrap_of_body l (body_rt l h.1)
    have hMr := wrap_of_body r (body_rt r h.2)
    simp only [safeU] at hsafe
    simp only [costM] at hg
    rw [level_bin] at hm
    rw [body_bin, List.append_assoc, List.append_assoc]
    refine hMl (leftCtx D op) m _ res (f0 + costM r + 8) (by have := lbp_le_leftCtx op; omega)
      (okHead_binTok op _) (safe_left l op _) ?_ g (by omega)
    intro f hf
    obtain ⟨k, rfl⟩ : ∃ k, f = k + 2 := ⟨f - 2, by omega⟩
    have hr : parseBp D k (binPower D op).2 (toks D (binPower D op).2 r ++ R) = some (r, R) :=
      hMr _ _ R (r, R) 1 (Nat.le_refl _) hok hsafe.2 (cont_stops r _ R hsafe.1) k (by omega)
    exact loop_bin op l r m _ R res k hm
      (fun hop Y => by
        subst hop
        exact head_not_kNot r _ (by simp [binPower]) R Y)
      hr (hcont (k + 1) (by omega))
  | between neg e lo hi =>
    simp only [Printable, Bool.and_eq_true] at h
    have hMe := wrap_of_body e (body_rt e h.1.1)
    have hMlo := wrap_of_body lo (body_rt lo h.1.2)
    have hMhi := wrap_of_body hi (body_rt hi h.2)
    simp only [safeU] at hsafe
    simp only [costM] at hg
    have hm5 : m ≤ 5 := hm
    rw [body_between]
    simp only [List.append_assoc]
    have hstop6 : ∀ X, stops 6 ((if neg then [Tok.kNot, .kBetween] else [.kBetween]) ++ X) = true := by
      intro X; cases neg <;> simp [stops, infixPower]
    have hok6 : ∀ X, okHead ((if neg then [Tok.kNot, .kBetween] else [.kBetween]) ++ X) = true := by
      intro X; cases neg <;> rfl
    refine hMe 6 m _ res (f0 + costM lo + costM hi + 12) (by omega) (hok6 _)
      (safe_of_stops e 6 6 _ (hstop6 _) (Nat.le_refl _)) ?_ g (by omega)
    intro f hf
    obtain ⟨k, rfl⟩ : ∃ k, f = k + 3 := ⟨f - 3, by omega⟩
    have hlo : parseBp D k 5 (toks D 7 lo ++ ([.kAnd] ++ (toks D 7 hi ++ R))) = some (lo, .kAnd :: (toks D 7 hi ++ R)) :=
      hMlo 7 5 _ (lo, _) 1 (by omega) rfl
        (safe_of_stops lo 4 7 _ (by simp [stops, infixPower]) (by omega))
        (cont_stops lo 5 _ (by simp [stops, infixPower])) k (by omega)
    have hhi : parseBp D k 5 (toks D 7 hi ++ R) = some (hi, R) :=
      hMhi 7 5 R (hi, R) 1 (by omega) hok hsafe.2 (cont_stops hi 5 R hsafe.1) k (by omega)
    exact loop_between neg e lo hi m _ _ R res k hm5 hlo hhi (hcont (k + 2) (by omega))
  | inList neg e items =>
    simp only [Printable, Bool.and_eq_true, Bool.not_eq_true', List.isEmpty_eq_false_iff] at h
    have hMe := wrap_of_body e (body_rt e h.1.1)
    simp only [costM] at hg
    have hm5 : m ≤ 5 := hm
    rw [body_inList]
    simp only [List.append_assoc]
    have hstop6 : ∀ X, stops 6 ((if neg then [Tok.kNot, .kIn, .lparen] else [.kIn, .lparen]) ++ X) = true := by
      intro X; cases neg <;> simp [stops, infixPower]
    have hok6 : ∀ X, okHead ((if neg then [Tok.kNot, .kIn, .lparen] else [.kIn, .lparen]) ++ X) = true := by
      intro X; cases neg <;> rfl
    refine hMe 6 m _ res (f0 + costMList items + 8) (by omega) (hok6 _)
      (safe_of_stops e 6 6 _ (hstop6 _) (Nat.le_refl _)) ?_ g (by omega)
    intro f hf
    obtain ⟨k, rfl⟩ : ∃ k, f = k + 2 := ⟨f - 2, by omega⟩
    have hitems := bodyList_rt items h.1.2 h.2 R k (by omega)
    exact loop_in neg e items m _ R res k hm5 (by simpa using hitems) (hcont (k + 1) (by omega))

theorem bodyList_rt (es : List PExpr) (hne : es ≠ []) (h : PrintableList es = true) (R : List Tok)
    (g : Nat) (hg : costMList es ≤ g) :
    parseList D g (bodyList D es ++ .rparen :: R) = some (es, .rparen :: R) := by
  cases es with
  | nil => exact absurd rfl hne
  | cons e rest =>
    simp only [PrintableList, Bool.and_eq_true] at h
    simp only [costMList] at hg
    obtain ⟨k, rfl⟩ : ∃ k, g = k + 1 := ⟨g - 1, by omega⟩
    have hB := body_rt e h.1
    have safe0 : ∀ R', stops 0 R' = true → safeU e R' := by
      intro R' hs
      rcases safe_of_stops e 0 0 R' hs (Nat.le_refl _) with h0 | h0
      · exact absurd h0 (Nat.not_lt_zero _)
      · exact h0
    cases rest with
    | nil =>
      rw [bodyList_single, parseList]
      rw [hB 0 (.rparen :: R) (e, .rparen :: R) 1 (Nat.zero_le _) rfl (safe0 _ (stops_rparen 0 R))
        (cont_stops e 0 _ (stops_rparen 0 R)) k (by simp only [costMList] at hg; omega)]
    | cons e2 rest2 =>
      rw [bodyList_cons2, parseList]
      simp only [List.append_assoc, List.cons_append]
      have hsc : stops 0 (.comma :: (bodyList D (e2 :: rest2) ++ .rparen :: R)) = true := by
        simp [stops, infixPower]
      rw [hB 0 _ (e, .comma :: (bodyList D (e2 :: rest2) ++ .rparen :: R)) 1 (Nat.zero_le _) rfl (safe0 _ hsc)
        (cont_stops e 0 _ hsc) k (by omega)]
      simp only
      rw [bodyList_rt (e2 :: rest2) (by simp) h.2 R k (by omega)]
end


/-! ### fuel bound -/

theorem toks_length_ge (c : Nat) (e : PExpr) : (body D e).length ≤ (toks D c e).length := by
  simp only [toks, wrapIf]
  split <;> simp <;> omega

mutual
theorem costM_le_len (e : PExpr) : costM e + 8 ≤ 32 * (body D e).length := by
  cases e with
  | num i => simp only [costM, body]; split <;> simp
  | str s => simp [costM, body]
  | bool b => simp [costM, body]
  | null => simp [costM, body]
  | ident s => simp [costM, body]
  | qident a b => simp [costM, body]
  | un op s =>
    have h1 := costM_le_len s
    have h2 := toks_length_ge (unPower D op) s
    rw [body_un]
    simp only [costM, List.length_cons]
    omega
  | bin op l r =>
    have h1 := costM_le_len l
    have h2 := costM_le_len r
    have h3 := toks_length_ge (leftCtx D op) l
    have h4 := toks_length_ge (binPower D op).2 r
    have h5 : 1 ≤ (binTok op).length := by cases op <;> simp [binTok]
    rw [body_bin]
    simp only [costM, List.length_append]
    omega
  | between neg e lo hi =>
    have h1 := costM_le_len e
    have h2 := costM_le_len lo
    have h3 := costM_le_len hi
    have h4 := toks_length_ge 6 e
    have h5 := toks_length_ge 7 lo
    have h6 := toks_length_ge 7 hi
    have h7 : 1 ≤ (if neg then [Tok.kNot, .kBetween] else [.kBetween]).length := by cases neg <;> simp
    rw [body_between]
    simp only [costM, List.length_append, List.length_cons, List.length_nil]
    omega
  | inList neg e items =>
    have h1 := costM_le_len e
    have h2 := costMList_le_len items
    have h4 := toks_length_ge 6 e
    have h7 : 2 ≤ (if neg then [Tok.kNot, .kIn, .lparen] else [.kIn, .lparen]).length := by cases neg <;> simp
    rw [body_inList]
    simp only [costM, List.length_append, List.length_cons, List.length_nil]
    omega

theorem costMList_le_len (es : List PExpr) : costMList es ≤ 32 * (bodyList D es).length := by
  cases es with
  | nil => simp [costMList, bodyList]
  | cons e rest =>
    have h1 := costM_le_len e
    cases rest with
    | nil =>
      rw [bodyList_single]
      simp only [costMList]
      omega
    | cons e2 rest2 =>
      have h2 := costMList_le_len (e2 :: rest2)
      rw [bodyList_cons2]
      simp only [costMList, List.length_cons, List.length_append] at h2 ⊢
      omega
end


/-! ## the lexer reads rendered tokens back -/

/-- what may follow the text of a token: the end of the input or a blank -/
def endOrBlank : List Nat → Bool
  | [] => true
  | 32 :: _ => true
  | _ => false

theorem takeWhileN_append (p : Nat → Bool) (a rest : List Nat) (ha : ∀ c ∈ a, p c = true)
    (hr : ∀ c r, rest = c :: r → p c = false) : takeWhileN p (a ++ rest) = (a, rest) := by
  induction a with
  | nil =>
    cases rest with
    | nil => rfl
    | cons c r => simp [takeWhileN, hr c r rfl]
  | cons x xs ih =>
    have hx := ha x (by simp)
    simp only [List.cons_append, takeWhileN, hx, if_true]
    rw [ih (fun c hc => ha c (by simp [hc]))]

theorem endOrBlank_head (p : Nat → Bool) (h32 : p 32 = false) (rest : List Nat) (h : endOrBlank rest = true) :
    ∀ c r, rest = c :: r → p c = false := by
  intro c r hc
  subst hc
  cases c with
  | zero => simp [endOrBlank] at h
  | succ n =>
    by_cases h32' : n + 1 = 32
    · rw [h32']; exact h32
    · exfalso
      simp only [endOrBlank] at h
      split at h <;> simp_all

/-! ### numbers -/

theorem natDigits_all (n : Nat) : ∀ c ∈ natDigits n, isDigit c = true := by
  fun_induction natDigits n with
  | case1 n h => intro c hc; simp at hc; subst hc; simp [isDigit]; omega
  | case2 n h ih =>
    intro c hc
    rcases List.mem_append.mp hc with h1 | h1
    · exact ih c h1
    · simp at h1; subst h1; simp [isDigit]; omega

theorem natDigits_ne_nil (n : Nat) : natDigits n ≠ [] := by
  fun_induction natDigits n <;> simp

theorem digitsVal_append (ds : List Nat) (d : Nat) : digitsVal (ds ++ [d]) = digitsVal ds * 10 + (d - 48) := by
  simp [digitsVal, List.foldl_append]

theorem digitsVal_natDigits (n : Nat) : digitsVal (natDigits n) = n := by
  fun_induction natDigits n with
  | case1 n h => simp [digitsVal]
  | case2 n h ih => rw [digitsVal_append, ih]; omega


/-! ### strings -/

theorem lexString_escape (s rest : List Nat) (hr : endOrBlank rest = true) :
    lexString (escapeQuotes s ++ 39 :: rest) = (s, rest) := by
  induction s with
  | nil =>
    simp only [escapeQuotes, List.nil_append]
    cases rest with
    | nil => simp [lexString]
    | cons c r =>
      have : c = 32 := by
        simp only [endOrBlank] at hr
        split at hr <;> simp_all
      subst this
      simp [lexString]
  | cons c cs ih =>
    simp only [escapeQuotes]
    by_cases hc : c = 39
    · subst hc
      simp only [if_true, List.cons_append, lexString, ih]
    · simp only [hc, if_false, List.cons_append]
      rw [lexString]
      · simp [ih]
      all_goals (intros; simp_all)

/-! ### character classes -/

theorem alpha_not_space_digit (c : Nat) (h : (isAlpha c || c == 95) = true) :
    isSpace c = false ∧ isDigit c = false := by
  simp only [isAlpha, isSpace, isDigit, Bool.or_eq_true, Bool.and_eq_true, decide_eq_true_eq, beq_iff_eq] at h ⊢
  constructor
  · simp only [Bool.or_eq_false_iff, beq_eq_false_iff_ne]; omega
  · simp only [Bool.and_eq_false_iff, decide_eq_false_iff_not]; omega

theorem digit_not_space (c : Nat) (h : isDigit c = true) : isSpace c = false := by
  simp only [isSpace, isDigit, Bool.and_eq_true, decide_eq_true_eq] at h ⊢
  simp only [Bool.or_eq_false_iff, beq_eq_false_iff_ne]; omega


theorem endOrBlank_cases (rest : List Nat) (h : endOrBlank rest = true) : rest = [] ∨ ∃ r, rest = 32 :: r := by
  cases rest with
  | nil => exact Or.inl rfl
  | cons c r =>
    right
    simp only [endOrBlank] at h
    split at h <;> simp_all

/-- one token: its text, followed by the end of the input or a blank, is read back as that token -/
theorem lex_tok (t : Tok) (ht : PrintableTok t = true) (rest : List Nat) (hr : endOrBlank rest = true) (f : Nat) :
    lex (f + 1) (tokText t ++ rest) = (lex f rest).map (t :: ·) := by
  cases t with
  | num n =>
    have hne := natDigits_ne_nil n
    have hall := natDigits_all n
    simp only [tokText]
    cases hd : natDigits n with
    | nil => exact absurd hd hne
    | cons d ds =>
      have hdig : isDigit d = true := hall d (by rw [hd]; simp)
      have hsp := digit_not_space d hdig
      have htw : takeWhileN isDigit (d :: (ds ++ rest)) = (natDigits n, rest) := by
        have := takeWhileN_append isDigit (natDigits n) rest hall
          (endOrBlank_head isDigit (by decide) rest hr)
        rw [hd] at this ⊢
        exact this
      simp only [List.cons_append, lex, hsp, hdig, Bool.false_eq_true, if_false, if_true, htw]
      rcases endOrBlank_cases rest hr with rfl | ⟨r, rfl⟩
      · simp [digitsVal_natDigits]
      · simp [digitsVal_natDigits]
  | str s =>
    simp only [tokText, List.cons_append, List.append_assoc, List.singleton_append]
    have := lexString_escape s rest hr
    simp [lex, isSpace, isDigit, isAlpha, this]
  | ident s =>
    simp only [PrintableTok] at ht
    cases s with
    | nil => simp at ht
    | cons c cs =>
      simp only [Bool.and_eq_true, beq_iff_eq] at ht
      obtain ⟨⟨hc, hall⟩, hkw⟩ := ht
      have hns := alpha_not_space_digit c hc
      have htw : takeWhileN isIdentChar (c :: (cs ++ rest)) = (c :: cs, rest) := by
        have := takeWhileN_append isIdentChar (c :: cs) rest (by simpa using hall)
          (endOrBlank_head isIdentChar (by decide) rest hr)
        simpa using this
      simp only [tokText, List.cons_append, lex, hns.1, hns.2, hc, Bool.false_eq_true, if_false, if_true, htw, hkw]
  | other s => simp [PrintableTok] at ht
  | kTrue | kFalse | kNull | kAnd | kOr | kNot | kLike | kIn | kBetween | kIs =>
    rcases endOrBlank_cases rest hr with rfl | ⟨r, rfl⟩ <;>
      simp [tokText, lex, isSpace, isDigit, isAlpha, isIdentChar, takeWhileN, keyword, lower]
  | lparen | rparen | comma | dot | eq | neq | lt | gt | le | ge | plus | minus | star | slash | percent | concat =>
    rcases endOrBlank_cases rest hr with rfl | ⟨r, rfl⟩ <;>
      simp [tokText, lex, isSpace, isDigit, isAlpha]


theorem tokText_length_pos (t : Tok) (ht : PrintableTok t = true) : 1 ≤ (tokText t).length := by
  cases t with
  | num n =>
    have := natDigits_ne_nil n
    simp only [tokText]
    cases h : natDigits n with
    | nil => exact absurd h this
    | cons d ds => simp
  | ident s => cases s <;> simp [PrintableTok] at ht <;> simp [tokText]
  | other s => simp [PrintableTok] at ht
  | str s => simp [tokText]
  | kTrue | kFalse | kNull | kAnd | kOr | kNot | kLike | kIn | kBetween | kIs
  | lparen | rparen | comma | dot | eq | neq | lt | gt | le | ge | plus | minus | star | slash | percent | concat =>
    simp [tokText]

theorem lex_nil (f : Nat) : lex (f + 1) [] = some [] := by simp [lex]

theorem lex_blank (f : Nat) (cs : List Nat) : lex (f + 1) (32 :: cs) = lex f cs := by
  simp [lex, isSpace]

theorem render_cons2 (t t2 : Tok) (ts : List Tok) : render (t :: t2 :: ts) = tokText t ++ 32 :: render (t2 :: ts) := by
  rw [render]
  intro h; cases h

theorem lex_render_fuel (ts : List Tok) (h : ∀ t ∈ ts, PrintableTok t = true) :
    ∀ f, (render ts).length < f → lex f (render ts) = some ts := by
  induction ts with
  | nil =>
    intro f hf
    obtain ⟨f', rfl⟩ : ∃ f', f = f' + 1 := ⟨f - 1, by omega⟩
    exact lex_nil f'
  | cons t ts ih =>
    intro f hf
    have ht := h t (by simp)
    have hpos := tokText_length_pos t ht
    cases ts with
    | nil =>
      simp only [render] at hf ⊢
      obtain ⟨f', rfl⟩ : ∃ f', f = f' + 2 := ⟨f - 2, by omega⟩
      have := lex_tok t ht [] rfl (f' + 1)
      simp only [List.append_nil] at this
      rw [this, lex_nil]
      rfl
    | cons t2 ts' =>
      rw [render_cons2] at hf ⊢
      simp only [List.length_append, List.length_cons] at hf
      obtain ⟨f', rfl⟩ : ∃ f', f = f' + 2 := ⟨f - 2, by omega⟩
      rw [lex_tok t ht _ rfl (f' + 1), lex_blank, ih (fun x hx => h x (by simp [hx])) f' (by omega)]
      rfl

/-- **The lexer reads the text of printable tokens back**: token texts separated by single blanks -/
theorem lex_render (ts : List Tok) (h : ∀ t ∈ ts, PrintableTok t = true) : lexAll (render ts) = some ts :=
  lex_render_fuel ts h _ (Nat.lt_succ_self _)


/-! ### the tokens of a rendering are printable -/

theorem wrapIf_printable (c : Bool) (ts : List Tok) (h : ∀ t ∈ ts, PrintableTok t = true) :
    ∀ t ∈ wrapIf c ts, PrintableTok t = true := by
  intro t ht
  cases c
  · exact h t (by simpa [wrapIf] using ht)
  · simp only [wrapIf, if_true, List.mem_cons, List.mem_append, List.mem_singleton, List.not_mem_nil, or_false] at ht
    rcases ht with (rfl | ht) | rfl
    · rfl
    · exact h t ht
    · rfl

theorem binTok_printable (op : BinOp) : ∀ t ∈ binTok op, PrintableTok t = true := by
  cases op <;> simp [binTok, PrintableTok]

mutual
theorem body_printable (e : PExpr) (h : IdentsOk e = true) : ∀ t ∈ body D e, PrintableTok t = true := by
  cases e with
  | num i => intro t ht; simp only [body] at ht; split at ht <;> simp at ht <;> rcases ht with rfl | rfl <;> rfl
  | str s => intro t ht; simp [body] at ht; subst ht; rfl
  | bool b => intro t ht; cases b <;> simp [body] at ht <;> subst ht <;> rfl
  | null => intro t ht; simp [body] at ht; subst ht; rfl
  | ident s => intro t ht; simp [body] at ht; subst ht; simpa [IdentsOk] using h
  | qident a b =>
    simp only [IdentsOk, Bool.and_eq_true] at h
    intro t ht; simp [body] at ht
    rcases ht with rfl | rfl | rfl
    · exact h.1
    · rfl
    · exact h.2
  | un op s =>
    simp only [IdentsOk] at h
    intro t ht
    simp only [body, List.mem_cons] at ht
    rcases ht with rfl | ht
    · cases op <;> rfl
    · exact wrapIf_printable _ _ (body_printable s h) t ht
  | bin op l r =>
    simp only [IdentsOk, Bool.and_eq_true] at h
    intro t ht
    simp only [body, List.mem_append] at ht
    rcases ht with (ht | ht) | ht
    · exact wrapIf_printable _ _ (body_printable l h.1) t ht
    · exact binTok_printable op t ht
    · exact wrapIf_printable _ _ (body_printable r h.2) t ht
  | between neg e lo hi =>
    simp only [IdentsOk, Bool.and_eq_true] at h
    intro t ht
    simp only [body, List.mem_append, List.mem_singleton] at ht
    rcases ht with (((ht | ht) | ht) | ht) | ht
    · exact wrapIf_printable _ _ (body_printable e h.1.1) t ht
    · cases neg <;> simp at ht <;> rcases ht with rfl | rfl <;> rfl
    · exact wrapIf_printable _ _ (body_printable lo h.1.2) t ht
    · subst ht; rfl
    · exact wrapIf_printable _ _ (body_printable hi h.2) t ht
  | inList neg e items =>
    simp only [IdentsOk, Bool.and_eq_true] at h
    intro t ht
    simp only [body, List.mem_append, List.mem_singleton] at ht
    rcases ht with ((ht | ht) | ht) | ht
    · exact wrapIf_printable _ _ (body_printable e h.1) t ht
    · cases neg <;> simp at ht <;> rcases ht with rfl | rfl | rfl <;> rfl
    · exact bodyList_printable items h.2 t ht
    · subst ht; rfl

theorem bodyList_printable (es : List PExpr) (h : IdentsOkList es = true) :
    ∀ t ∈ bodyList D es, PrintableTok t = true := by
  cases es with
  | nil => intro t ht; simp [bodyList] at ht
  | cons e rest =>
    simp only [IdentsOkList, Bool.and_eq_true] at h
    intro t ht
    cases rest with
    | nil =>
      rw [bodyList_single] at ht
      exact body_printable e h.1 t ht
    | cons e2 r2 =>
      rw [bodyList_cons2] at ht
      simp only [List.mem_append, List.mem_cons] at ht
      rcases ht with ht | rfl | ht
      · exact body_printable e h.1 t ht
      · rfl
      · exact bodyList_printable (e2 :: r2) h.2 t ht
end

end AxVerif.Parser
