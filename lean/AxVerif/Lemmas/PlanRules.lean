/- C06: every rule keeps the schema and the scoping of a plan; permutation congruence of plan evaluation (core Lean only). -/
import AxVerif.Lemmas.Plan
namespace AxVerif.Plan
open AxVerif.Sql AxVerif.Index

/-! ### columns of rewritten expressions -/

mutual
theorem cols_mapCols (f : Nat → Nat) (e : Expr) : cols (mapCols f e) = (cols e).map f := by
  match e with
  | .lit _ | .col _ => simp [mapCols, cols]
  | .not a | .neg a | .pos a | .isNull _ a | .strFn _ a => simp [mapCols, cols, cols_mapCols f a]
  | .coalesce xs => simp [mapCols, cols, colsList_mapCols f xs]
  | .and a b | .or a b | .cmp _ a b | .arith _ a b | .like _ a b | .concat a b | .nullif a b =>
    simp [mapCols, cols, cols_mapCols f a, cols_mapCols f b]
  | .between _ a b c => simp [mapCols, cols, cols_mapCols f a, cols_mapCols f b, cols_mapCols f c]
  | .inList _ a xs => simp [mapCols, cols, cols_mapCols f a, colsList_mapCols f xs]
  | .caseWhen parts => simp [mapCols, cols, colsList_mapCols f parts]
  | .caseOf x parts => simp [mapCols, cols, cols_mapCols f x, colsList_mapCols f parts]
theorem colsList_mapCols (f : Nat → Nat) (es : List Expr) : colsList (mapColsList f es) = (colsList es).map f := by
  match es with
  | [] => simp [mapColsList, colsList]
  | e :: es => simp [mapColsList, colsList, cols_mapCols f e, colsList_mapCols f es]
end

theorem inScope_and (w : Nat) (a b : Expr) : inScope w (.and a b) = (inScope w a && inScope w b) := by
  simp [inScope, cols, List.all_append]

theorem inScope_conjuncts (w : Nat) : ∀ (e : Expr), inScope w e = (conjuncts e).all (inScope w)
  | .and a b => by
    rw [inScope_and, inScope_conjuncts w a, inScope_conjuncts w b]
    simp [conjuncts, List.all_append]
  | .lit _ | .col _ | .not _ | .neg _ | .pos _ | .or _ _ | .cmp _ _ _ | .arith _ _ _ | .like _ _ _ | .isNull _ _
  | .between _ _ _ _ | .inList _ _ _ | .caseWhen _ | .caseOf _ _ | .strFn _ _ | .concat _ _ | .nullif _ _
  | .coalesce _ => by simp [conjuncts]

theorem inScope_foldl (w : Nat) (ps : List Expr) (acc : Expr) :
    inScope w (ps.foldl (fun a q => Expr.and a q) acc) = (inScope w acc && ps.all (inScope w)) := by
  induction ps generalizing acc with
  | nil => simp
  | cons p ps ih => simp [List.foldl, ih, inScope_and, Bool.and_assoc]

theorem inScopeOpt_combine (w : Nat) (ps : List Expr) : inScopeOpt w (combine ps) = ps.all (inScope w) := by
  cases ps with
  | nil => rfl
  | cons p ps => simp [combine, inScopeOpt, inScope_foldl]

theorem inScopeOpt_conjuncts (w : Nat) (on : Option Expr) : inScopeOpt w on = (optConj conjuncts on).all (inScope w) := by
  cases on with
  | none => rfl
  | some e => exact inScope_conjuncts w e

theorem inScope_mono {w w' : Nat} (h : w ≤ w') (e : Expr) (he : inScope w e = true) : inScope w' e = true := by
  simp only [inScope, List.all_eq_true, decide_eq_true_eq] at he ⊢
  exact fun i hi => Nat.lt_of_lt_of_le (he i hi) h

theorem inScope_iff (w : Nat) (e : Expr) : inScope w e = true ↔ ∀ i ∈ cols e, i < w := by
  simp [inScope]

theorem shiftDown_none (k : Nat) (e : Expr) : shiftDown {} k e = mapCols (· - k) e := rfl
theorem rewriteWith_none (m : List Nat) (e : Expr) : rewriteWith {} m e = mapCols (fun i => m.getD i i) e := rfl

/-! ### shapes -/

theorem filterOver_wellScoped (st : Store) (ps : List Expr) (c : Plan) :
    (filterOver (combine ps) c).wellScoped st = (c.wellScoped st && ps.all (inScope (c.width st))) := by
  cases ps with
  | nil => simp [combine, filterOver]
  | cons p ps => simp [combine, filterOver, Plan.wellScoped, inScope_foldl]

theorem filterOver_width (st : Store) (p : Option Expr) (c : Plan) : (filterOver p c).width st = c.width st := by
  simp [Plan.width, filterOver_tys]

theorem join_width (st : Store) (k : JoinKind) (on : Option Expr) (l r : Plan) :
    (Plan.join k on l r).width st = l.width st + r.width st := by
  simp [Plan.width, Plan.tys]

/-! ### what each rule does to schema and scoping -/

structure Keeps (st : Store) (p q : Plan) : Prop where
  tys : q.tys st = p.tys st
  scope : p.wellScoped st = true → q.wellScoped st = true

theorem filterMerge_keeps (st : Store) (p q : Plan) (h : filterMerge p = some q) : Keeps st p q := by
  unfold filterMerge at h
  split at h
  · simp only [Option.some.injEq] at h
    subst h
    constructor
    · simp [Plan.tys]
    · intro hs
      simp only [Plan.wellScoped, Plan.width, Plan.tys, Bool.and_eq_true] at hs ⊢
      rw [inScope_and]
      simp [hs.1.1, hs.1.2, hs.2]
  · simp at h

theorem filterPushdownJoin_shape (st : Store) (p q : Plan) (h : filterPushdownJoin {} st p = some q) :
    ∃ e k on l r, p = .filter e (.join k on l r) ∧ (k = .inner ∨ k = .cross) ∧
      q = .join k (combine (on.toList ++ (classify (l.width st) e).2.2))
        (filterOver (combine (classify (l.width st) e).1) l)
        (filterOver (combine ((classify (l.width st) e).2.1.map (shiftDown {} (l.width st)))) r) := by
  unfold filterPushdownJoin at h
  split at h
  · rename_i e k on l r
    split at h
    · rename_i hk
      simp only at h
      split at h
      · simp at h
      · simp only [Option.some.injEq] at h
        refine ⟨e, k, on, l, r, rfl, ?_, h.symm⟩
        simpa using hk
    · simp at h
  · simp at h

theorem filterPushdownJoin_keeps (st : Store) (p q : Plan) (h : filterPushdownJoin {} st p = some q) : Keeps st p q := by
  obtain ⟨e, k, on, l, r, rfl, _, rfl⟩ := filterPushdownJoin_shape st p q h
  constructor
  · simp [Plan.tys, filterOver_tys]
  · intro hs
    simp only [Plan.wellScoped, join_width, Bool.and_eq_true] at hs
    obtain ⟨⟨⟨hl, hr⟩, hon⟩, he⟩ := hs
    rw [inScope_conjuncts, classify_all (l.width st) e] at he
    simp only [Bool.and_eq_true] at he
    obtain ⟨h1, h2, h3⟩ := he
    simp only [Plan.wellScoped, filterOver_wellScoped, filterOver_width, Bool.and_eq_true, inScopeOpt_combine,
      List.all_append]
    refine ⟨⟨⟨hl, ?_⟩, ⟨hr, ?_⟩⟩, ?_, h3⟩
    · -- left conjuncts read left columns only
      rw [List.all_eq_true]
      intro x hx
      rw [inScope_iff]
      exact classify_left _ _ x hx
    · rw [List.all_map, List.all_eq_true]
      intro x hx
      simp only [Function.comp, shiftDown_none]
      rw [inScope_iff, cols_mapCols]
      intro i hi
      simp only [List.mem_map] at hi
      obtain ⟨j, hj, rfl⟩ := hi
      have h1' := classify_right _ _ x hx j hj
      have h2' := (inScope_iff _ _).mp (List.all_eq_true.mp h2 x hx) j hj
      omega
    · cases on with
      | none => simp
      | some o => simpa [inScopeOpt] using hon

theorem filterPushdownProject_shape (p q : Plan) (h : filterPushdownProject {} p = some q) :
    ∃ e items c mapping, p = .filter e (.project items c) ∧ colRefs items = some mapping ∧
      q = .project items (.filter (rewriteWith {} mapping e) c) := by
  unfold filterPushdownProject at h
  split at h
  · rename_i e items c
    split at h
    · rename_i mapping hm
      simp only [Option.some.injEq] at h
      exact ⟨e, items, c, mapping, rfl, hm, h.symm⟩
    · simp at h
  · simp at h

theorem filterPushdownProject_keeps (st : Store) (p q : Plan) (h : filterPushdownProject {} p = some q) : Keeps st p q := by
  obtain ⟨e, items, c, mapping, rfl, hm, rfl⟩ := filterPushdownProject_shape p q h
  have hitems := colRefs_spec items mapping hm
  constructor
  · simp [Plan.tys]
  · intro hs
    simp only [Plan.wellScoped, Plan.width, Plan.tys, Bool.and_eq_true, List.length_map] at hs
    obtain ⟨⟨hc, hit⟩, he⟩ := hs
    simp only [Plan.wellScoped, Plan.width, Plan.tys, Bool.and_eq_true]
    refine ⟨⟨hc, ?_⟩, hit⟩
    simp only [rewriteWith_none]
    rw [inScope_iff, cols_mapCols]
    intro i hi
    simp only [List.mem_map] at hi
    obtain ⟨j, hj, rfl⟩ := hi
    have hjl : j < items.length := (inScope_iff _ _).mp he j hj
    subst hitems
    simp only [List.length_map] at hjl
    have : mapping.getD j j = mapping[j] := by simp [List.getD_eq_getElem?_getD, hjl]
    rw [this]
    have := List.all_eq_true.mp hit (Expr.col mapping[j]) (by simp)
    simpa [inScope, cols] using this

theorem joinCommute_shape (st : Store) (p q : Plan) (h : joinCommute {} st p = some q) :
    ∃ k on l r, p = .join k on l r ∧ (k = .inner ∨ k = .cross) ∧
      q = .project (restoreOrder (l.width st) (r.width st))
        (.join k (on.map (mapCols (fun i => if i < l.width st then i + r.width st else i - l.width st))) r l) := by
  unfold joinCommute at h
  split at h
  · rename_i k on l r
    split at h
    · rename_i hk
      simp only [Bool.false_eq_true, if_false, Option.some.injEq] at h
      exact ⟨k, on, l, r, rfl, by simpa using hk, h.symm⟩
    · simp at h
  · simp at h

theorem joinCommute_keeps (st : Store) (p q : Plan) (h : joinCommute {} st p = some q) : Keeps st p q := by
  obtain ⟨k, on, l, r, rfl, _, rfl⟩ := joinCommute_shape st p q h
  constructor
  · simp only [Plan.tys, Plan.width]
    exact restoreOrder_tys _ _
  · intro hs
    simp only [Plan.wellScoped, Bool.and_eq_true] at hs
    obtain ⟨⟨hl, hr⟩, hon⟩ := hs
    simp only [Plan.wellScoped, join_width, Bool.and_eq_true]
    refine ⟨⟨⟨hr, hl⟩, ?_⟩, ?_⟩
    · cases on with
      | none => rfl
      | some o =>
        simp only [Option.map, inScopeOpt] at hon ⊢
        rw [inScope_iff, cols_mapCols]
        intro i hi
        simp only [List.mem_map] at hi
        obtain ⟨j, hj, rfl⟩ := hi
        have := (inScope_iff _ _).mp hon j hj
        split <;> omega
    · simp only [restoreOrder, List.all_append, List.all_map, Bool.and_eq_true, List.all_eq_true, List.mem_range]
      constructor
      · intro i hi; simp [Function.comp, inScope, cols]; omega
      · intro i hi; simp [Function.comp, inScope, cols]; omega

theorem joinAssoc_shape (st : Store) (p q : Plan) (h : joinAssoc {} st p = some q) :
    ∃ outer inner a b c, p = .join .inner outer (.join .inner inner a b) c ∧
      q = .join .inner
        (combine (optConj (collectInvolving {} (a.width st)) inner ++ optConj (collectInvolving {} (a.width st)) outer)) a
        (.join .inner (combine (optConj (collectForRange {} (a.width st)) outer ++ optConj (collectForRange {} (a.width st)) inner)) b c) := by
  unfold joinAssoc at h
  split at h
  · rename_i outer inner a b c
    simp only [Bool.false_eq_true, if_false, Option.some.injEq] at h
    exact ⟨outer, inner, a, b, c, rfl, h.symm⟩
  · simp at h

theorem collectInvolving_sub (k : Nat) (on : Option Expr) : ∀ e ∈ optConj (collectInvolving {} k) on, e ∈ optConj conjuncts on := by
  cases on with
  | none => simp [optConj]
  | some o =>
    intro e he
    simp only [optConj, collectInvolving, List.mem_filter] at he
    exact he.1

theorem collectForRange_scoped (k w : Nat) (on : Option Expr) (h : inScopeOpt (k + w) on = true) :
    (optConj (collectForRange {} k) on).all (inScope w) = true := by
  cases on with
  | none => simp [optConj]
  | some o =>
    simp only [inScopeOpt] at h
    rw [inScope_conjuncts, List.all_eq_true] at h
    simp only [optConj, collectForRange, List.all_map, List.all_eq_true, List.mem_filter]
    intro e he
    simp only [Function.comp, shiftDown_none]
    rw [inScope_iff, cols_mapCols]
    intro i hi
    simp only [List.mem_map] at hi
    obtain ⟨j, hj, rfl⟩ := hi
    have h1 := (inScope_iff _ _).mp (h e he.1) j hj
    have h2 : k ≤ j := by
      have := he.2
      simp only [allColsGe, Bool.false_eq_true, if_false, List.all_eq_true, decide_eq_true_eq] at this
      exact this j hj
    omega

theorem joinAssoc_keeps (st : Store) (p q : Plan) (h : joinAssoc {} st p = some q) : Keeps st p q := by
  obtain ⟨outer, inner, a, b, c, rfl, rfl⟩ := joinAssoc_shape st p q h
  constructor
  · simp [Plan.tys, List.append_assoc]
  · intro hs
    simp only [Plan.wellScoped, join_width, Bool.and_eq_true] at hs
    obtain ⟨⟨⟨⟨ha, hb⟩, hin⟩, hc⟩, hout⟩ := hs
    simp only [Plan.wellScoped, join_width, Bool.and_eq_true, inScopeOpt_combine, List.all_append]
    have hin' : inScopeOpt (a.width st + (b.width st + c.width st)) inner = true := by
      cases inner with
      | none => rfl
      | some o => exact inScope_mono (by omega) o hin
    have hout' : inScopeOpt (a.width st + (b.width st + c.width st)) outer = true := by
      rw [← Nat.add_assoc]; exact hout
    refine ⟨⟨ha, ⟨⟨hb, hc⟩, collectForRange_scoped _ _ _ hout', collectForRange_scoped _ _ _ hin'⟩⟩, ?_, ?_⟩
    · rw [List.all_eq_true]
      intro e he
      rw [inScopeOpt_conjuncts, List.all_eq_true] at hin'
      exact hin' e (collectInvolving_sub _ _ e he)
    · rw [List.all_eq_true]
      intro e he
      rw [inScopeOpt_conjuncts, List.all_eq_true] at hout'
      exact hout' e (collectInvolving_sub _ _ e he)

theorem boundOfConjunct_resid (ixcols : List Nat) (e : Expr) : ∀ x ∈ (boundOfConjunct ixcols e).2.2, x = e := by
  fun_cases boundOfConjunct ixcols e <;> simp_all

theorem filterToIndexScan_shape (st : Store) (k : Nat) (p q : Plan) (h : filterToIndexScan {} st k p = some q) :
    ∃ e t ix, p = .filter e (.scan t) ∧ (st.getD t default).indexes[k]? = some ix ∧
      nullableBounded (st.getD t default) ix.cols (extractBounds ix.cols e).1 (extractBounds ix.cols e).2.1 = true ∧
      q = .indexScan t k (extractBounds ix.cols e).1 (extractBounds ix.cols e).2.1 (extractBounds ix.cols e).2.2 := by
  unfold filterToIndexScan at h
  split at h
  · rename_i e t
    simp only at h
    split at h
    · simp at h
    · rename_i ix hix
      split at h
      · simp at h
      · split at h
        · simp at h
        · rename_i hnb
          simp only [Option.some.injEq] at h
          refine ⟨e, t, ix, rfl, hix, ?_, h.symm⟩
          simpa using hnb
  · simp at h

theorem filterToIndexScan_keeps (st : Store) (k : Nat) (p q : Plan) (h : filterToIndexScan {} st k p = some q) :
    Keeps st p q := by
  obtain ⟨e, t, ix, rfl, _, _, rfl⟩ := filterToIndexScan_shape st k p q h
  constructor
  · simp [Plan.tys]
  · intro hs
    simp only [Plan.wellScoped, Plan.width, Plan.tys, Bool.true_and] at hs
    simp only [Plan.wellScoped, extractBounds, inScopeOpt_combine, List.all_flatMap, List.all_map]
    rw [inScope_conjuncts, List.all_eq_true] at hs
    rw [List.all_eq_true]
    intro c hc
    simp only [Function.comp, List.all_eq_true]
    intro x hx
    rw [boundOfConjunct_resid ix.cols c x hx]
    exact hs c hc

/-! ### evaluation respects permutations of the inputs -/

theorem flatMap_perm_pointwise {α β} (l : List α) (f g : α → List β) (h : ∀ x ∈ l, (f x).Perm (g x)) :
    (l.flatMap f).Perm (l.flatMap g) := by
  induction l with
  | nil => simp
  | cons x xs ih =>
    simp only [List.flatMap_cons]
    exact (h x (by simp)).append (ih (fun y hy => h y (by simp [hy])))

theorem perm_any {α} {l l' : List α} (h : l.Perm l') (p : α → Bool) : l.any p = l'.any p := by
  induction h with
  | nil => rfl
  | cons x _ ih => simp [ih]
  | swap x y l => simp only [List.any_cons]; cases p x <;> cases p y <;> rfl
  | trans _ _ ih1 ih2 => exact ih1.trans ih2

theorem joinLeftPart_perm (m : Row → Row → Bool) (pad : Bool) (rw : Nat) {l l' r r' : List Row} (hl : l.Perm l')
    (hr : r.Perm r') : (joinLeftPart m pad rw l r).Perm (joinLeftPart m pad rw l' r') := by
  simp only [joinLeftPart]
  refine (List.Perm.flatMap_right _ hl).trans ?_
  apply flatMap_perm_pointwise
  intro a _
  have hm : (matchesOf m a r).Perm (matchesOf m a r') := by
    simp only [matchesOf]; exact (hr.filter _).map _
  simp only [hm.isEmpty_eq]
  split
  · exact List.Perm.refl _
  · exact hm

theorem unmatchedRight_perm (m : Row → Row → Bool) (lw : Nat) {l l' r r' : List Row} (hl : l.Perm l')
    (hr : r.Perm r') : (unmatchedRight m lw l r).Perm (unmatchedRight m lw l' r') := by
  simp only [unmatchedRight]
  have : (fun b => !(l.any (fun a => m a b))) = (fun b => !(l'.any (fun a => m a b))) := by
    funext b; rw [perm_any hl]
  rw [this]
  exact (hr.filter _).map _

theorem joinPure_perm (k : JoinKind) (m : Row → Row → Bool) (lw rw : Nat) {l l' r r' : List Row} (hl : l.Perm l')
    (hr : r.Perm r') : (joinPure k m lw rw l r).Perm (joinPure k m lw rw l' r') := by
  cases k <;> simp only [joinPure]
  · exact joinLeftPart_perm m false rw hl hr
  · exact joinLeftPart_perm m true rw hl hr
  · exact (joinLeftPart_perm m false rw hl hr).append (unmatchedRight_perm m lw hl hr)
  · exact (joinLeftPart_perm m true rw hl hr).append (unmatchedRight_perm m lw hl hr)
  · exact joinLeftPart_perm m false rw hl hr

/-! ### one step of the optimizer -/

/-- what a step from `p` to `q` guarantees -/
structure Sound (st : Store) (p q : Plan) : Prop where
  eval : (evalPlan st q).Perm (evalPlan st p)
  tys : q.tys st = p.tys st
  scope : q.wellScoped st = true

theorem rootSteps_sound (st : Store) (hwf : wfStore st = true) (hc : StoreConsistent st) (p q : Plan)
    (hs : p.wellScoped st = true) (h : q ∈ rootSteps {} st p) : Sound st p q := by
  simp only [rootSteps, List.mem_append, List.mem_filterMap, List.mem_cons, List.not_mem_nil, or_false, id] at h
  rcases h with ⟨o, (rfl | rfl | rfl | rfl | rfl), ho⟩ | ⟨k, _, hk⟩
  · -- filter merge
    have hk := filterMerge_keeps st p q ho
    refine ⟨?_, hk.tys, hk.scope hs⟩
    unfold filterMerge at ho
    split at ho
    · simp only [Option.some.injEq] at ho
      subst ho
      exact List.Perm.of_eq (filterMerge_eval st _ _ _)
    · simp at ho
  · -- filter pushdown through a join
    have hk := filterPushdownJoin_keeps st p q ho
    refine ⟨?_, hk.tys, hk.scope hs⟩
    obtain ⟨e, k, on, l, r, rfl, hkind, rfl⟩ := filterPushdownJoin_shape st p q ho
    exact List.Perm.of_eq (filterPushdownJoin_eval st hwf e k on l r hkind)
  · -- filter pushdown through a projection
    have hk := filterPushdownProject_keeps st p q ho
    refine ⟨?_, hk.tys, hk.scope hs⟩
    obtain ⟨e, items, c, mapping, rfl, hm, rfl⟩ := filterPushdownProject_shape p q ho
    simp only [Plan.wellScoped, Plan.width, Plan.tys, Bool.and_eq_true, List.length_map] at hs
    exact List.Perm.of_eq (filterPushdownProject_eval st hwf e items c mapping hm ((inScope_iff _ _).mp hs.2))
  · -- join commutativity
    have hk := joinCommute_keeps st p q ho
    refine ⟨?_, hk.tys, hk.scope hs⟩
    obtain ⟨k, on, l, r, rfl, hkind, rfl⟩ := joinCommute_shape st p q ho
    simp only [Plan.wellScoped, Bool.and_eq_true] at hs
    apply joinCommute_eval st hwf k on l r hkind
    intro e he
    subst he
    exact (inScope_iff _ _).mp hs.2
  · -- join associativity
    have hk := joinAssoc_keeps st p q ho
    refine ⟨?_, hk.tys, hk.scope hs⟩
    obtain ⟨outer, inner, a, b, c, rfl, rfl⟩ := joinAssoc_shape st p q ho
    simp only [Plan.wellScoped, join_width, Bool.and_eq_true] at hs
    apply List.Perm.of_eq
    apply joinAssoc_eval st hwf outer inner a b c
    intro e he
    subst he
    exact (inScope_iff _ _).mp hs.1.1.2
  · -- filter over a table scan to index scan
    have hkp := filterToIndexScan_keeps st k p q hk
    refine ⟨?_, hkp.tys, hkp.scope hs⟩
    obtain ⟨e, t, ix, rfl, hix, hnb, rfl⟩ := filterToIndexScan_shape st k p q hk
    exact indexScan_eval st hwf hc t k e ix hix hnb

theorem steps_sound (st : Store) (hwf : wfStore st = true) (hc : StoreConsistent st) :
    ∀ (p q : Plan), p.wellScoped st = true → q ∈ steps {} st p → Sound st p q := by
  intro p
  induction p with
  | scan t => intro q hs h; exact rootSteps_sound st hwf hc _ q hs h
  | indexScan t k lo hi r => intro q hs h; exact rootSteps_sound st hwf hc _ q hs h
  | filter e c ih =>
    intro q hs h
    simp only [steps, List.mem_append, List.mem_map] at h
    rcases h with h | ⟨c', hc', rfl⟩
    · exact rootSteps_sound st hwf hc _ q hs h
    · simp only [Plan.wellScoped, Bool.and_eq_true] at hs
      have s := ih c' hs.1 hc'
      refine ⟨?_, ?_, ?_⟩
      · simp only [evalPlan, s.tys]
        exact s.eval.filter _
      · simp [Plan.tys, s.tys]
      · simp [Plan.wellScoped, Plan.width, s.tys, s.scope]
        simpa [Plan.width] using hs.2
  | project items c ih =>
    intro q hs h
    simp only [steps, List.mem_append, List.mem_map] at h
    rcases h with h | ⟨c', hc', rfl⟩
    · exact rootSteps_sound st hwf hc _ q hs h
    · simp only [Plan.wellScoped, Bool.and_eq_true] at hs
      have s := ih c' hs.1 hc'
      refine ⟨?_, ?_, ?_⟩
      · simp only [evalPlan, s.tys]
        exact s.eval.filterMap _
      · simp [Plan.tys, s.tys]
      · simp only [Plan.wellScoped, Plan.width, s.tys, s.scope, Bool.true_and]
        simpa [Plan.width] using hs.2
  | join k on l r ihl ihr =>
    intro q hs h
    simp only [steps, List.mem_append, List.mem_map] at h
    simp only [Plan.wellScoped, Bool.and_eq_true] at hs
    rcases h with (h | ⟨l', hl', rfl⟩) | ⟨r', hr', rfl⟩
    · exact rootSteps_sound st hwf hc _ q (by simp [Plan.wellScoped, hs.1.1, hs.1.2, hs.2]) h
    · have s := ihl l' hs.1.1 hl'
      refine ⟨?_, ?_, ?_⟩
      · simp only [evalPlan, Plan.width, s.tys]
        exact joinPure_perm _ _ _ _ s.eval (List.Perm.refl _)
      · simp [Plan.tys, s.tys]
      · simp only [Plan.wellScoped, Plan.width, s.tys, s.scope, hs.1.2, Bool.true_and]
        simpa [Plan.width] using hs.2
    · have s := ihr r' hs.1.2 hr'
      refine ⟨?_, ?_, ?_⟩
      · simp only [evalPlan, Plan.width, s.tys]
        exact joinPure_perm _ _ _ _ (List.Perm.refl _) s.eval
      · simp [Plan.tys, s.tys]
      · simp only [Plan.wellScoped, Plan.width, s.tys, s.scope, hs.1.1, Bool.true_and]
        simpa [Plan.width] using hs.2

/-- the plans the optimizer can reach from `p`: any sequence of rule applications, anywhere in the plan -/
inductive Reachable (st : Store) : Plan → Plan → Prop
  | refl (p : Plan) : Reachable st p p
  | step {p q r : Plan} : Reachable st p q → r ∈ steps {} st q → Reachable st p r

theorem reachable_sound (st : Store) (hwf : wfStore st = true) (hc : StoreConsistent st) (p q : Plan)
    (hs : p.wellScoped st = true) (h : Reachable st p q) : Sound st p q := by
  induction h with
  | refl => exact ⟨List.Perm.refl _, rfl, hs⟩
  | step _ hstep ih =>
    have s := steps_sound st hwf hc _ _ ih.scope hstep
    exact ⟨s.eval.trans ih.eval, s.tys.trans ih.tys, s.scope⟩

end AxVerif.Plan
