/-
  Helper lemmas for the value model (C19): VarInt codec, Blob comparator.
  Core Lean only.
-/
import AxVerif.Model.Value
import AxVerif.Lemmas.Bytes
namespace AxVerif.Value
open AxVerif

/-! ### VarInt -/
namespace VarInt

theorem ofNat_toNat_lt (n : Nat) (h : n < 256) : (UInt8.ofNat n).toNat = n := by
  simp only [UInt8.toNat_ofNat']; omega

theorem scan_encodeU (fuel n : Nat) (rest : Bytes) (h : n < 128 ^ (fuel + 1)) :
    scan (fuel + 1) (encodeU (fuel + 1) n ++ rest) = some (encodeU (fuel + 1) n, rest) := by
  induction fuel generalizing n with
  | zero =>
    have hn : n < 128 := by simpa using h
    simp only [encodeU, hn, if_true, List.cons_append, List.nil_append, scan, ofNat_toNat_lt n (by omega)]
  | succ f ih =>
    rw [encodeU]
    split
    · rename_i hn
      simp only [List.cons_append, List.nil_append, scan, ofNat_toNat_lt n (by omega), hn, if_true]
    · rename_i hn
      have h1 : (UInt8.ofNat (n % 128 + 128)).toNat = n % 128 + 128 := ofNat_toNat_lt _ (by omega)
      have h2 : n / 128 < 128 ^ (f + 1) := by
        rw [Nat.pow_succ] at h
        omega
      have h3 : ¬ (n % 128 + 128 < 128) := by omega
      rw [List.cons_append, scan, h1, if_neg h3, ih (n / 128) h2]

theorem valueU_encodeU (fuel n : Nat) (h : n < 128 ^ (fuel + 1)) : valueU (encodeU (fuel + 1) n) = n := by
  induction fuel generalizing n with
  | zero =>
    have hn : n < 128 := by simpa using h
    simp only [encodeU, hn, if_true, valueU, ofNat_toNat_lt n (by omega)]
    omega
  | succ f ih =>
    rw [encodeU]
    split
    · rename_i hn
      simp only [valueU, ofNat_toNat_lt n (by omega)]; omega
    · rename_i hn
      have h1 : (UInt8.ofNat (n % 128 + 128)).toNat = n % 128 + 128 := ofNat_toNat_lt _ (by omega)
      have h2 : n / 128 < 128 ^ (f + 1) := by
        rw [Nat.pow_succ] at h
        omega
      rw [valueU, h1, ih (n / 128) h2]; omega

theorem encodeU_length (fuel n : Nat) : (encodeU fuel n).length ≤ fuel := by
  induction fuel generalizing n with
  | zero => simp [encodeU]
  | succ f ih =>
    rw [encodeU]; split
    · simp
    · have := ih (n / 128); simp only [List.length_cons]; omega

theorem encodeU_length_pos (fuel n : Nat) : 1 ≤ (encodeU (fuel + 1) n).length := by
  rw [encodeU]; split <;> simp

theorem sizeU_eq (fuel n : Nat) : sizeU fuel n = (encodeU fuel n).length := by
  induction fuel generalizing n with
  | zero => simp [encodeU, sizeU]
  | succ f ih =>
    rw [encodeU, sizeU]; split
    · simp
    · simp only [List.length_cons, ih]; omega

theorem scan_length {fuel : Nat} {bs p rest : Bytes} (h : scan fuel bs = some (p, rest)) :
    bs = p ++ rest ∧ 1 ≤ p.length ∧ p.length ≤ fuel := by
  induction fuel generalizing bs p with
  | zero => simp [scan] at h
  | succ f ih =>
    cases bs with
    | nil => simp [scan] at h
    | cons b bs =>
      rw [scan] at h
      split at h
      · simp only [Option.some.injEq, Prod.mk.injEq] at h
        obtain ⟨h1, h2⟩ := h
        subst h1; subst h2
        simp
      · split at h
        · rename_i p' r' hs
          simp only [Option.some.injEq, Prod.mk.injEq] at h
          obtain ⟨h1, h2⟩ := h
          subst h1; subst h2
          have := ih hs
          refine ⟨by simp [this.1], by simp, by simp only [List.length_cons]; omega⟩
        · simp at h

theorem scan_none_of_all_cont (fuel : Nat) (bs : Bytes) (h : ∀ b ∈ bs.take fuel, 128 ≤ b.toNat) :
    scan fuel bs = none := by
  induction fuel generalizing bs with
  | zero => rfl
  | succ f ih =>
    cases bs with
    | nil => rfl
    | cons b bs =>
      have hb : ¬ b.toNat < 128 := by
        have := h b (by simp)
        omega
      rw [scan, if_neg hb, ih bs (fun c hc => h c (by simp [hc]))]

end VarInt

/-! ### Blob comparator -/
namespace Blob

theorem beNat_lt (a : Bytes) : beNat a < 256 ^ a.length := by
  induction a with
  | nil => simp [beNat]
  | cons x xs ih =>
    simp only [beNat, List.length_cons, Nat.pow_succ]
    have := x.toNat_lt
    have h2 : x.toNat * 256 ^ xs.length ≤ 255 * 256 ^ xs.length := Nat.mul_le_mul_right _ (by omega)
    omega

/-- for equally long strings, big-endian integer order is lexicographic order -/
theorem beNat_cmp (a b : Bytes) (h : a.length = b.length) :
    (if beNat a < beNat b then Ordering.lt else if beNat a > beNat b then .gt else .eq) = lex a b := by
  induction a generalizing b with
  | nil =>
    cases b with
    | nil => simp [beNat, lex]
    | cons _ _ => simp at h
  | cons x xs ih =>
    cases b with
    | nil => simp at h
    | cons y ys =>
      simp only [List.length_cons, Nat.add_right_cancel_iff] at h
      have hx := beNat_lt xs
      have hy := beNat_lt ys
      rw [h] at hx
      simp only [beNat, lex, h]
      have ih' := ih ys h
      generalize hP : 256 ^ ys.length = P at *
      have hPpos : 0 < P := by rw [← hP]; exact Nat.pow_pos (by omega)
      by_cases h1 : x.toNat < y.toNat
      · have : x.toNat * P + P ≤ y.toNat * P := by
          have := Nat.mul_le_mul_right P (show x.toNat + 1 ≤ y.toNat by omega)
          rw [Nat.add_mul] at this; omega
        simp only [h1, if_true]
        rw [if_pos (by omega)]
      · by_cases h2 : x.toNat > y.toNat
        · have : y.toNat * P + P ≤ x.toNat * P := by
            have := Nat.mul_le_mul_right P (show y.toNat + 1 ≤ x.toNat by omega)
            rw [Nat.add_mul] at this; omega
          simp only [h1, h2, if_true, if_false]
          rw [if_neg (by omega), if_pos (by omega)]
        · have hxy : x.toNat = y.toNat := by omega
          simp only [h1, h2, if_false]
          rw [← ih', hxy]
          by_cases h3 : beNat xs < beNat ys
          · rw [if_pos (by omega), if_pos h3]
          · by_cases h4 : beNat xs > beNat ys
            · rw [if_neg (by omega), if_pos (by omega), if_neg h3, if_pos h4]
            · rw [if_neg (by omega), if_neg (by omega), if_neg h3, if_neg h4]


/-- how `lex` treats a common-length prefix -/
def andThen (o : Ordering) (k : Ordering) : Ordering := match o with | .eq => k | o => o

theorem lex_append (a1 b1 a2 b2 : Bytes) (h : a1.length = b1.length) :
    lex (a1 ++ a2) (b1 ++ b2) = andThen (lex a1 b1) (lex a2 b2) := by
  induction a1 generalizing b1 with
  | nil =>
    cases b1 with
    | nil => simp [lex, andThen]
    | cons _ _ => simp at h
  | cons x xs ih =>
    cases b1 with
    | nil => simp at h
    | cons y ys =>
      simp only [List.length_cons, Nat.add_right_cancel_iff] at h
      simp only [List.cons_append, lex]
      split
      · rfl
      · split
        · rfl
        · exact ih ys h

theorem lex_refl (a : Bytes) : lex a a = .eq := by
  induction a with
  | nil => rfl
  | cons x xs ih => simp [lex, ih]

theorem cmpPrefix_eq_lex (n : Nat) (a b : Bytes) (ha : n ≤ a.length) (hb : n ≤ b.length) :
    cmpPrefix n a b = lex (a.take n) (b.take n) := by
  induction n generalizing a b with
  | zero => simp [cmpPrefix, lex]
  | succ n ih =>
    match a, b, ha, hb with
    | x :: xs, y :: ys, ha, hb =>
      simp only [List.length_cons] at ha hb
      simp only [cmpPrefix, List.take_succ_cons, lex]
      rw [ih xs ys (by omega) (by omega)]

theorem cmpChunks_fst (n : Nat) (a b : Bytes) (ha : 8 * n ≤ a.length) (hb : 8 * n ≤ b.length) :
    (cmpChunks n a b).1 = lex (a.take (8 * n)) (b.take (8 * n)) := by
  induction n generalizing a b with
  | zero => simp [cmpChunks, lex]
  | succ n ih =>
    have e1 : a.take (8 * (n + 1)) = a.take 8 ++ (a.drop 8).take (8 * n) := by
      rw [show 8 * (n + 1) = 8 + 8 * n by omega, List.take_add]
    have e2 : b.take (8 * (n + 1)) = b.take 8 ++ (b.drop 8).take (8 * n) := by
      rw [show 8 * (n + 1) = 8 + 8 * n by omega, List.take_add]
    have hl : (a.take 8).length = (b.take 8).length := by
      simp only [List.length_take]; omega
    rw [e1, e2, lex_append _ _ _ _ hl, ← beNat_cmp _ _ hl]
    rw [cmpChunks]
    split
    · simp [andThen]
    · split
      · simp [andThen]
      · simp only [andThen]
        exact ih (a.drop 8) (b.drop 8) (by simp only [List.length_drop]; omega) (by simp only [List.length_drop]; omega)

theorem cmpChunks_snd (n : Nat) (a b : Bytes) (h : (cmpChunks n a b).1 = .eq) :
    (cmpChunks n a b).2 = (a.drop (8 * n), b.drop (8 * n)) := by
  induction n generalizing a b with
  | zero => simp [cmpChunks]
  | succ n ih =>
    rw [cmpChunks] at h ⊢
    split
    · rename_i h1; simp [h1] at h
    · rename_i h1
      split
      · rename_i h2; simp [h1, h2] at h
      · rename_i h2
        simp only [h1, h2, if_false] at h
        rw [ih _ _ h]
        simp only [List.drop_drop]
        rw [show 8 * (n + 1) = 8 + 8 * n by omega]

theorem lex_nil_left (b : Bytes) : lex [] b = compare 0 b.length := by
  cases b <;> simp [lex, compare, compareOfLessAndEq]

theorem lex_drop_min (a b : Bytes) :
    lex (a.drop (min a.length b.length)) (b.drop (min a.length b.length)) = compare a.length b.length := by
  rcases Nat.lt_trichotomy a.length b.length with h | h | h
  · have h1 : a.drop (min a.length b.length) = [] := by
      apply List.drop_eq_nil_of_le; omega
    rw [h1, Nat.compare_eq_lt.mpr h]
    cases hb : b.drop (min a.length b.length) with
    | nil =>
      have := congrArg List.length hb
      simp only [List.length_drop, List.length_nil] at this
      omega
    | cons _ _ => rfl
  · have h1 : a.drop (min a.length b.length) = [] := by
      apply List.drop_eq_nil_of_le; omega
    have h2 : b.drop (min a.length b.length) = [] := by
      apply List.drop_eq_nil_of_le; omega
    rw [h1, h2, Nat.compare_eq_eq.mpr h]; rfl
  · have h2 : b.drop (min a.length b.length) = [] := by
      apply List.drop_eq_nil_of_le; omega
    rw [h2, Nat.compare_eq_gt.mpr h]
    cases ha : a.drop (min a.length b.length) with
    | nil =>
      have := congrArg List.length ha
      simp only [List.length_drop, List.length_nil] at this
      omega
    | cons _ _ => rfl

theorem cmp_eq_lex (a b : Bytes) : cmp a b = lex a b := by
  have hm1 : min a.length b.length ≤ a.length := Nat.min_le_left _ _
  have hm2 : min a.length b.length ≤ b.length := Nat.min_le_right _ _
  generalize hm : min a.length b.length = m at hm1 hm2
  have hr : cmpCommon m a b = lex (a.take m) (b.take m) := by
    unfold cmpCommon
    split
    · have hf := cmpChunks_fst (m / 8) a b (by omega) (by omega)
      have e1 : a.take m = a.take (8 * (m / 8)) ++ (a.drop (8 * (m / 8))).take (m % 8) := by
        rw [← List.take_add]; congr 1; omega
      have e2 : b.take m = b.take (8 * (m / 8)) ++ (b.drop (8 * (m / 8))).take (m % 8) := by
        rw [← List.take_add]; congr 1; omega
      rw [e1, e2, lex_append _ _ _ _ (by simp only [List.length_take]; omega), ← hf]
      cases hc : cmpChunks (m / 8) a b with
      | mk o t =>
        cases t with
        | mk a' b' =>
          have hs := cmpChunks_snd (m / 8) a b
          rw [hc] at hs
          cases o with
          | eq =>
            have := hs rfl
            simp only [Prod.mk.injEq] at this
            simp only [andThen]
            rw [this.1, this.2]
            exact cmpPrefix_eq_lex _ _ _ (by simp only [List.length_drop]; omega) (by simp only [List.length_drop]; omega)
          | lt => rfl
          | gt => rfl
    · exact cmpPrefix_eq_lex m a b hm1 hm2
  unfold cmp
  simp only [hm]
  rw [hr]
  have e : lex a b = andThen (lex (a.take m) (b.take m)) (lex (a.drop m) (b.drop m)) := by
    conv => lhs; rw [← List.take_append_drop m a, ← List.take_append_drop m b]
    exact lex_append _ _ _ _ (by simp only [List.length_take]; omega)
  rw [e, ← hm, lex_drop_min, hm]
  cases lex (a.take m) (b.take m) <;> rfl


theorem lex_eq_iff (a b : Bytes) : lex a b = .eq ↔ a = b := by
  induction a generalizing b with
  | nil => cases b <;> simp [lex]
  | cons x xs ih =>
    cases b with
    | nil => simp [lex]
    | cons y ys =>
      simp only [lex]
      split
      · rename_i h; simp; intro h2; subst h2; omega
      · split
        · rename_i h; simp; intro h2; subst h2; omega
        · rename_i h1 h2
          have : x = y := UInt8.toNat_inj.mp (by omega)
          subst this
          simp [ih]

theorem lex_swap (a b : Bytes) : lex b a = (lex a b).swap := by
  induction a generalizing b with
  | nil => cases b <;> rfl
  | cons x xs ih =>
    cases b with
    | nil => rfl
    | cons y ys =>
      simp only [lex]
      by_cases h1 : x.toNat < y.toNat
      · rw [if_neg (by omega), if_pos (by omega), if_pos h1]; rfl
      · by_cases h2 : x.toNat > y.toNat
        · rw [if_pos (by omega), if_neg h1, if_pos h2]; rfl
        · rw [if_neg (by omega), if_neg (by omega), if_neg h1, if_neg h2]; exact ih ys

theorem lex_trans_lt (a b c : Bytes) (h1 : lex a b = .lt) (h2 : lex b c = .lt) : lex a c = .lt := by
  induction a generalizing b c with
  | nil =>
    cases b with
    | nil => simp [lex] at h1
    | cons y ys => cases c with
      | nil => simp [lex] at h2
      | cons z zs => rfl
  | cons x xs ih =>
    cases b with
    | nil => simp [lex] at h1
    | cons y ys => cases c with
      | nil => simp [lex] at h2
      | cons z zs =>
        simp only [lex] at h1 h2 ⊢
        by_cases hxy : x.toNat < y.toNat
        · by_cases hyz : y.toNat < z.toNat
          · rw [if_pos (by omega)]
          · by_cases hyz' : y.toNat > z.toNat
            · simp [hyz, hyz'] at h2
            · rw [if_pos (by omega)]
        · by_cases hxy' : x.toNat > y.toNat
          · simp [hxy, hxy'] at h1
          · simp only [hxy, hxy', if_false] at h1
            by_cases hyz : y.toNat < z.toNat
            · rw [if_pos (by omega)]
            · by_cases hyz' : y.toNat > z.toNat
              · simp [hyz, hyz'] at h2
              · simp only [hyz, hyz', if_false] at h2
                rw [if_neg (by omega), if_neg (by omega)]
                exact ih ys zs h1 h2


end Blob

/-! ### serialization helpers -/

theorem alignUp_one (c : Nat) : alignUp c 1 = c := by simp [alignUp]

theorem ofU32_toU32 (i : Int) (h : -2147483648 ≤ i ∧ i < 2147483648) : ofU32 (toU32 i) = i := by
  unfold ofU32 toU32; split <;> omega
theorem ofU64_toU64 (i : Int) (h : VarInt.InI64 i) : ofU64 (toU64 i) = i := by
  unfold VarInt.InI64 at h
  unfold ofU64 toU64; split <;> omega
theorem toU32_lt (i : Int) : toU32 i < 4294967296 := by unfold toU32; omega
theorem toU64_lt (i : Int) : toU64 i < 18446744073709551616 := by unfold toU64; omega

theorem drop_pre (pre bs rest : Bytes) : (pre ++ bs ++ rest).drop pre.length = bs ++ rest := by
  rw [List.append_assoc, List.drop_left']
  rfl


theorem le_alignUp (k : Kind) (c : Nat) : c ≤ alignUp c k.align := by
  cases k <;> simp only [Kind.align, alignUp] <;> omega

theorem serialize_ok_of_ne_null (v : Value) (h : v ≠ .null) : ∃ bs, serialize v = .ok bs := by
  cases v <;> first | exact absurd rfl h | exact ⟨_, rfl⟩

theorem layoutKeys_cons (c : Nat) (v : Value) (vs : List Value) (bs : Bytes) (hs : serialize v = .ok bs) :
    layoutKeys c (v :: vs) =
      List.replicate (alignUp c v.kind.align - c) 0 ++ bs ++ layoutKeys (alignUp c v.kind.align + bs.length) vs := by
  simp only [layoutKeys, hs]


theorem intVal_ofInt (k : Kind) (t lo hi : Int) (hr : k.intRange = some (lo, hi)) (h1 : lo ≤ t) :
    (Value.ofInt k t).intVal = some t := by
  cases k <;> simp only [Kind.intRange, Option.some.injEq, Prod.mk.injEq, reduceCtorEq] at hr <;>
    simp only [Value.ofInt, Value.intVal, Option.some.injEq] <;> omega


end AxVerif.Value
