/- Lemmas about slotted-page accounting (Model/Slotted.lean). Core Lean only. -/
import AxVerif.Model.Slotted
namespace AxVerif.Slotted

/-- two cells do not overlap -/
def Apart (a b : Nat × Nat) : Prop := a.1 + a.2 ≤ b.1 ∨ b.1 + b.2 ≤ a.1

/-- The accounting invariant: every cell lies between the free space pointer and the end of the page, aligned and
    non-empty; no two cells overlap; `free_space` is exactly what the cells and their slots leave; the slot array ends
    below the free space pointer. -/
structure Wf (p : SPage) : Prop where
  cells : ∀ c ∈ p.slots, p.fsp ≤ c.1 ∧ c.1 + c.2 ≤ p.cap ∧ c.1 % 8 = 0 ∧ c.2 % 8 = 0 ∧ 0 < c.2
  disjoint : p.slots.Pairwise Apart
  account : p.free + sumStorage p.slots = p.cap
  room : slotSize * p.slots.length ≤ p.fsp
  top : p.fsp ≤ p.cap

theorem apart_iff (a b : Nat × Nat) : apart a b = true ↔ Apart a b := by
  simp [apart, Apart]

theorem disjointB_pairwise : ∀ {l : List (Nat × Nat)}, disjointB l = true → l.Pairwise Apart := by
  intro l
  induction l with
  | nil => intro _; exact List.Pairwise.nil
  | cons c cs ih =>
    intro h
    simp only [disjointB, Bool.and_eq_true, List.all_eq_true] at h
    exact List.Pairwise.cons (fun b hb => (apart_iff c b).mp (h.1 b hb)) (ih h.2)

theorem wfB_sound {p : SPage} (h : wfB p = true) : Wf p := by
  simp only [wfB, Bool.and_eq_true, List.all_eq_true, decide_eq_true_eq] at h
  obtain ⟨⟨⟨⟨hc, hd⟩, ha⟩, hr⟩, ht⟩ := h
  refine ⟨?_, disjointB_pairwise hd, ha, hr, ht⟩
  intro c hcm
  have := hc c hcm
  simp only [cellOk, Bool.and_eq_true, decide_eq_true_eq] at this
  obtain ⟨⟨⟨⟨h1, h2⟩, h3⟩, h4⟩, h5⟩ := this
  exact ⟨h1, h2, h3, h4, h5⟩

theorem sumStorage_append (a b : List (Nat × Nat)) : sumStorage (a ++ b) = sumStorage a + sumStorage b := by
  induction a with
  | nil => simp [sumStorage]
  | cons c cs ih => simp [sumStorage, ih]; omega

theorem sumStorage_eraseIdx : ∀ {l : List (Nat × Nat)} {i : Nat} {c : Nat × Nat}, l[i]? = some c →
    sumStorage (l.eraseIdx i) + storage c.2 = sumStorage l := by
  intro l
  induction l with
  | nil => intro i c h; simp at h
  | cons x xs ih =>
    intro i c h
    cases i with
    | zero =>
      simp only [List.getElem?_cons_zero, Option.some.injEq] at h
      subst h
      simp [sumStorage]; omega
    | succ i =>
      simp only [List.getElem?_cons_succ] at h
      have := ih h
      simp only [List.eraseIdx_cons_succ, sumStorage]
      omega

theorem sumStorage_set : ∀ {l : List (Nat × Nat)} {i : Nat} {c : Nat × Nat} (n : Nat), l[i]? = some c →
    sumStorage (l.set i (c.1, n)) + storage c.2 = sumStorage l + storage n := by
  intro l
  induction l with
  | nil => intro i c n h; simp at h
  | cons x xs ih =>
    intro i c n h
    cases i with
    | zero =>
      simp only [List.getElem?_cons_zero, Option.some.injEq] at h
      subst h
      simp [sumStorage]; omega
    | succ i =>
      simp only [List.getElem?_cons_succ] at h
      have := ih n h
      simp only [List.set_cons_succ, sumStorage]
      omega

theorem removeSlot_wf {p q : SPage} {idx : Nat} (hw : Wf p) (h : removeSlot p idx = some q) : Wf q := by
  unfold removeSlot at h
  split at h
  · cases h
  · next c hc =>
    cases h
    have hsub : (p.slots.eraseIdx idx).Sublist p.slots := List.eraseIdx_sublist ..
    refine ⟨?_, hw.disjoint.sublist hsub, ?_, ?_, hw.top⟩
    · intro x hx
      exact hw.cells x (hsub.subset hx)
    · have := sumStorage_eraseIdx hc
      have := hw.account
      simp only
      omega
    · have hlen : (p.slots.eraseIdx idx).length ≤ p.slots.length := hsub.length_le
      have := hw.room
      simp only [slotSize] at *
      omega

/-- shrinking one cell in place keeps all cells pairwise apart -/
theorem pairwise_set_shrink : ∀ {l : List (Nat × Nat)} {i : Nat} {c : Nat × Nat} {n : Nat}, l.Pairwise Apart →
    l[i]? = some c → n ≤ c.2 → (l.set i (c.1, n)).Pairwise Apart := by
  intro l
  induction l with
  | nil => intro i c n _ h; simp at h
  | cons x xs ih =>
    intro i c n hp h hn
    rw [List.pairwise_cons] at hp
    obtain ⟨hx, hxs⟩ := hp
    cases i with
    | zero =>
      simp only [List.getElem?_cons_zero, Option.some.injEq] at h
      subst h
      simp only [List.set_cons_zero, List.pairwise_cons]
      refine ⟨?_, hxs⟩
      intro b hb
      have := hx b hb
      simp only [Apart] at this ⊢
      omega
    | succ i =>
      simp only [List.getElem?_cons_succ] at h
      simp only [List.set_cons_succ, List.pairwise_cons]
      refine ⟨?_, ih hxs h hn⟩
      intro b hb
      rcases List.mem_or_eq_of_mem_set hb with hb | hb
      · exact hx b hb
      · subst hb
        have := hx c (List.mem_of_getElem? h)
        simp only [Apart] at this ⊢
        omega

theorem replaceShrink_wf {p q : SPage} {idx n : Nat} (hw : Wf p) (h : replaceShrink Defects.none p idx n = some q) :
    Wf q := by
  unfold replaceShrink at h
  simp only [Defects.none, Bool.false_eq_true, ↓reduceIte] at h
  split at h
  · cases h
  · next c hc =>
    split at h
    · next hcond =>
      cases h
      obtain ⟨hle, hpos, hal⟩ := hcond
      have hcw := hw.cells c (List.mem_of_getElem? hc)
      refine ⟨?_, pairwise_set_shrink hw.disjoint hc hle, ?_, ?_, ?_⟩
      · intro x hx
        rcases List.mem_or_eq_of_mem_set hx with hx | hx
        · exact hw.cells x hx
        · subst hx
          simp only
          omega
      · have h1 := sumStorage_set n hc
        have h2 := hw.account
        simp only [storage] at h1
        simp only
        omega
      · simpa using hw.room
      · exact hw.top
    · cases h

theorem insertAt_wf {hdr : Nat} {p q : SPage} {idx size : Nat} (hw : Wf p) (h : insertAt hdr p idx size = some q) :
    Wf q := by
  unfold insertAt at h
  simp only at h
  split at h
  · next hcond =>
    cases h
    obtain ⟨hidx, hgap, hfree, hfsp, hal, hoff, hpos⟩ := hcond
    simp only [storage, slotSize] at hgap hfree
    have htop := hw.top
    have hroom := hw.room
    have hacc := hw.account
    simp only [slotSize] at hroom
    have htd : p.slots.take idx ++ p.slots.drop idx = p.slots := List.take_append_drop ..
    have hmem : ∀ x, x ∈ p.slots.take idx ∨ x ∈ p.slots.drop idx → x ∈ p.slots := by
      intro x hx
      rw [← htd]
      exact List.mem_append.mpr hx
    have hpw : (p.slots.take idx ++ p.slots.drop idx).Pairwise Apart := by rw [htd]; exact hw.disjoint
    rw [List.pairwise_append] at hpw
    obtain ⟨hpt, hpd, hcross⟩ := hpw
    refine ⟨?_, ?_, ?_, ?_, ?_⟩
    · intro x hx
      simp only [List.mem_append, List.mem_cons] at hx
      rcases hx with hx | hx | hx
      · have := hw.cells x (hmem x (Or.inl hx)); simp only; omega
      · subst hx; simp only; omega
      · have := hw.cells x (hmem x (Or.inr hx)); simp only; omega
    · simp only
      rw [List.pairwise_append]
      refine ⟨hpt, ?_, ?_⟩
      · rw [List.pairwise_cons]
        refine ⟨?_, hpd⟩
        intro b hb
        have := hw.cells b (hmem b (Or.inr hb))
        simp only [Apart]
        omega
      · intro a ha b hb
        simp only [List.mem_cons] at hb
        rcases hb with hb | hb
        · subst hb
          have := hw.cells a (hmem a (Or.inl ha))
          simp only [Apart]
          omega
        · exact hcross a ha b hb
    · simp only [sumStorage_append, sumStorage, storage, slotSize]
      have h1 : sumStorage (p.slots.take idx) + sumStorage (p.slots.drop idx) = sumStorage p.slots := by
        rw [← sumStorage_append, htd]
      omega
    · simp only [List.length_append, List.length_cons, List.length_take, List.length_drop, slotSize]
      omega
    · simp only
      omega
  · cases h

end AxVerif.Slotted
