/-
  Simulation of the MVCC machine (`Defects.none`) by the abstract snapshot-isolation machine, operation by operation.
-/
import AxVerif.Lemmas.Db
namespace AxVerif.Db
open AxVerif.Db

/-- what has to be shown for one operation -/
def StepOk (σ : State) (α : Spec.State) (op : Op) : Prop :=
  (stepCore D0 σ op).2 = (Spec.stepCore α op).2 ∧
  ∃ j, RelL (stepCore D0 σ op).1 (Spec.stepCore α op).1 j (lkS (stepCore D0 σ op).1) (lkA (Spec.stepCore α op).1)

theorem lookup_cons_if (n s : String) (v : β) (l : List (String × β)) :
    lookup n ((s, v) :: l) = if n = s then some v else lookup n l := by
  by_cases e : n = s
  · subst e; simp [lookup]
  · have : ¬ (s = n) := fun e' => e e'.symm
    simp [lookup, e, this]

theorem lookup_erase_if (n s : String) (l : List (String × β)) :
    lookup n (erase s l) = if n = s then none else lookup n l := by
  by_cases e : n = s
  · subst e; simp [lookup_erase_self]
  · simp [e, lookup_erase_ne s n l e]

/-- transport of the relation to states that agree on everything the relation looks at -/
theorem RelL.cast {σ σ' : State} {α α' : Spec.State} {j : Nat} {ls : String → Option Nat}
    {la : String → Option Spec.ATxn} (h : RelL σ α j ls la)
    (e1 : σ'.txns = σ.txns) (e2 : σ'.rows = σ.rows) (e3 : σ'.lastCommitted = σ.lastCommitted)
    (e4 : σ'.clog = σ.clog) (e5 : σ'.cat = σ.cat) (e6 : σ'.clock = σ.clock)
    (f1 : α'.committed = α.committed) (f2 : α'.log = α.log) (f3 : α'.cat = α.cat) (f4 : α'.clock = α.clock)
    (hs : ∀ n, lookup n σ'.sessions = ls n) (ha : ∀ n, lookup n α'.sessions = la n) :
    RelL σ' α' j (lkS σ') (lkA α') := by
  have h1 : lkS σ' = ls := funext hs
  have h2 : lkA α' = la := funext ha
  rw [h1, h2]
  refine ⟨h.core.of_eq e1 e2 e3 e4 e5 e6 f1 f2 f3 f4, ?_, h.sessNone, h.inj⟩
  intro name tid hn
  obtain ⟨a, g1, g2⟩ := h.sess name tid hn
  exact ⟨a, g1, g2.of_eq e1 e2⟩

theorem begin_ok (σ : State) (α : Spec.State) (h : Rel σ α) (s : String) : StepOk σ α (.begin s) := by
  unfold StepOk
  simp only [stepCore, Spec.stepCore]
  cases hl : lookup s σ.sessions with
  | none =>
    dsimp only
    obtain ⟨c1, _, tx, pres⟩ := begin_core σ α 0 h.core
    refine ⟨trivial, 0, ?_⟩
    have hfresh : ∀ name tid, lkS σ name = some tid → tid ≠ σ.txns.length := by
      intro name tid hn
      obtain ⟨a, _, ha⟩ := h.sess name tid hn
      have := ha.lt; omega
    have r := RelL.add h s σ.txns.length α.beginTxn c1 tx pres hfresh
    apply r.cast <;> try rfl
    · intro n
      show lookup n ((s, σ.txns.length) :: σ.sessions) = _
      rw [lookup_cons_if]; rfl
    · intro n
      show lookup n ((s, α.beginTxn) :: erase s α.sessions) = _
      rw [lookup_cons_if, lookup_erase_if]
      by_cases e : n = s <;> simp [e, lkA]
  | some old =>
    dsimp only
    obtain ⟨aold, _, hold⟩ := h.sess s old hl
    obtain ⟨c0, pres0⟩ := abort_core σ α 0 h.core old aold hold
    have r0 := RelL.remove h s old hl c0 pres0
    obtain ⟨c1, _, tx, pres⟩ := begin_core (σ.abortTxn old) α 0 c0
    refine ⟨trivial, 0, ?_⟩
    have hlen : (σ.abortTxn old).txns.length = σ.txns.length := by
      simp [State.abortTxn, setStatus]
    have hfresh : ∀ name tid, (fun n => if n = s then none else lkS σ n) name = some tid →
        tid ≠ (σ.abortTxn old).txns.length := by
      intro name tid hn
      by_cases e : name = s
      · simp [e] at hn
      · simp only [e, if_false] at hn
        obtain ⟨a, _, ha⟩ := h.sess name tid hn
        have := ha.lt; omega
    have r := RelL.add r0 s (σ.abortTxn old).txns.length α.beginTxn c1 tx pres hfresh
    apply r.cast <;> try rfl
    · intro n
      show lookup n ((s, (σ.abortTxn old).txns.length) :: erase s σ.sessions) = _
      rw [lookup_cons_if, lookup_erase_if]; rfl
    · intro n
      show lookup n ((s, α.beginTxn) :: erase s α.sessions) = _
      rw [lookup_cons_if, lookup_erase_if]; rfl

theorem nosession_ok (σ : State) (α : Spec.State) (h : Rel σ α) : 
    RelL σ α 0 (lkS σ) (lkA α) := h

theorem commit_ok (σ : State) (α : Spec.State) (h : Rel σ α) (s : String) : StepOk σ α (.commit s) := by
  unfold StepOk
  simp only [stepCore, Spec.stepCore]
  cases hl : lookup s σ.sessions with
  | none =>
    have hn : lookup s α.sessions = none := h.sessNone s hl
    rw [hn]
    exact ⟨rfl, 0, h⟩
  | some tid =>
    obtain ⟨a, ha, hr⟩ := h.sess s tid hl
    have ha' : lookup s α.sessions = some a := ha
    rw [ha']
    dsimp only
    obtain ⟨hok, c1, pres⟩ := commitC_core σ α 0 h.core tid a hr
    refine ⟨by rw [hok], 0, ?_⟩
    have r := RelL.remove h s tid hl c1 pres
    apply r.cast <;> try rfl
    · intro n
      show lookup n (erase s (σ.commitC D0 tid).1.sessions) = _
      rw [commitC_sessions, lookup_erase_if]; rfl
    · intro n
      show lookup n (erase s (α.commitC a).1.sessions) = _
      rw [spec_commitC_sessions, lookup_erase_if]; rfl

theorem abort_ok_aux (σ : State) (α : Spec.State) (h : Rel σ α) (s : String) (tid : Nat)
    (hl : lookup s σ.sessions = some tid) :
    ∃ a, lookup s α.sessions = some a ∧
      RelL ((σ.abortTxn tid).endSession s) { α with sessions := erase s α.sessions } 0
        (lkS ((σ.abortTxn tid).endSession s)) (lkA { α with sessions := erase s α.sessions }) := by
  obtain ⟨a, ha, hr⟩ := h.sess s tid hl
  refine ⟨a, ha, ?_⟩
  obtain ⟨c1, pres⟩ := abort_core σ α 0 h.core tid a hr
  have r := RelL.remove h s tid hl c1 pres
  apply r.cast <;> try rfl
  · intro n
    show lookup n (erase s σ.sessions) = _
    rw [lookup_erase_if]; rfl
  · intro n
    show lookup n (erase s α.sessions) = _
    rw [lookup_erase_if]; rfl

theorem rollback_ok (σ : State) (α : Spec.State) (h : Rel σ α) (s : String) : StepOk σ α (.rollback s) := by
  unfold StepOk
  simp only [stepCore, Spec.stepCore]
  cases hl : lookup s σ.sessions with
  | none =>
    have hn : lookup s α.sessions = none := h.sessNone s hl
    rw [hn]
    exact ⟨rfl, 0, h⟩
  | some tid =>
    obtain ⟨a, ha, r⟩ := abort_ok_aux σ α h s tid hl
    rw [ha]
    exact ⟨rfl, 0, r⟩

theorem drop_ok (σ : State) (α : Spec.State) (h : Rel σ α) (s : String) : StepOk σ α (.drop s) := by
  unfold StepOk
  simp only [stepCore, Spec.stepCore]
  cases hl : lookup s σ.sessions with
  | none =>
    have hn : lookup s α.sessions = none := h.sessNone s hl
    rw [hn]
    exact ⟨rfl, 0, h⟩
  | some tid =>
    obtain ⟨a, ha, r⟩ := abort_ok_aux σ α h s tid hl
    rw [ha]
    exact ⟨rfl, 0, r⟩

theorem exec_ok (σ : State) (α : Spec.State) (h : Rel σ α) (s : String) (st : Stmt) : StepOk σ α (.exec s st) := by
  unfold StepOk
  simp only [stepCore, Spec.stepCore]
  cases hl : lookup s σ.sessions with
  | none =>
    have hn : lookup s α.sessions = none := h.sessNone s hl
    rw [hn]
    exact ⟨rfl, 0, h⟩
  | some tid =>
    obtain ⟨a, ha, hr⟩ := h.sess s tid hl
    have ha' : lookup s α.sessions = some a := ha
    rw [ha']
    dsimp only
    obtain ⟨hp, c1, tx, pres⟩ := stmt_core σ α 0 h.core tid a hr st
    refine ⟨by rw [hp], 0 + countIns (σ.stmt D0 tid 0 st).2.effs, ?_⟩
    have r := RelL.own h s tid hl _ c1 tx pres
    apply r.cast <;> try rfl
    · intro n
      show lookup n (σ.stmt D0 tid 0 st).1.sessions = _
      rw [stmt_sessions]; rfl
    · intro n
      show lookup n ((s, (Spec.stmt α.cat α.clock a 0 st).1) :: erase s α.sessions) = _
      rw [lookup_cons_if, lookup_erase_if]
      by_cases e : n = s <;> simp [e, lkA]

theorem sess_ne_new (σ : State) (α : Spec.State) (h : Rel σ α) (tid' : Nat) (hex : ∃ name, lkS σ name = some tid') :
    tid' ≠ σ.txns.length := by
  obtain ⟨name, hn⟩ := hex
  obtain ⟨a, _, ha⟩ := h.sess name tid' hn
  have := ha.lt; omega

theorem spec_commit_sessions (α : Spec.State) (a : Spec.ATxn) : (α.commitTxn a).1.sessions = α.sessions := by
  unfold Spec.State.commitTxn; split <;> rfl

theorem auto_ok (σ : State) (α : Spec.State) (h : Rel σ α) (st : Stmt) : StepOk σ α (.auto st) := by
  unfold StepOk
  simp only [stepCore, Spec.stepCore]
  obtain ⟨c1, htid, tx1, pres1⟩ := begin_core σ α 0 h.core
  rcases hb : σ.beginTxn D0 with ⟨σ1, tid⟩
  simp only [hb] at c1 htid tx1 pres1
  subst htid
  obtain ⟨hp, c2, tx2, pres2⟩ := stmt_core σ1 α 0 c1 _ _ tx1 st
  have hs1 : σ1.sessions = σ.sessions := by
    have := congrArg (fun x => x.1.sessions) hb
    simpa [State.beginTxn] using this.symm
  rcases hx : σ1.stmt D0 σ.txns.length 0 st with ⟨σ2, p⟩
  rcases hy : Spec.stmt α.cat α.clock α.beginTxn 0 st with ⟨a', p'⟩
  have hs2 : σ2.sessions = σ.sessions := by
    have := stmt_sessions σ1 σ.txns.length 0 st
    rw [hx] at this; rw [← hs1]; exact this
  simp only [hx, hy] at hp c2 tx2 pres2
  subst hp
  dsimp only
  by_cases he : p.out.isErr = true
  · simp only [he, if_true]
    obtain ⟨c3, pres3⟩ := abort_core σ2 α _ c2 _ a' tx2
    refine ⟨trivial, 0 + countIns p.effs, ?_⟩
    have r := RelL.anon h c3 (fun tid' a'' hex h' =>
      pres3 tid' a'' (sess_ne_new σ α h tid' hex)
        (pres2 tid' a'' (sess_ne_new σ α h tid' hex) (pres1 tid' a'' h')))
    apply r.cast <;> try rfl
    · intro n
      show lookup n σ2.sessions = _
      rw [hs2]; rfl
    · intro n; rfl
  · simp only [he, Bool.false_eq_true, if_false]
    obtain ⟨hok, c3, pres3⟩ := commitC_core σ2 α _ c2 _ a' tx2
    refine ⟨by rw [hok], 0 + countIns p.effs, ?_⟩
    have r := RelL.anon h c3 (fun tid' a'' hex h' =>
      pres3 tid' a'' (sess_ne_new σ α h tid' hex)
        (pres2 tid' a'' (sess_ne_new σ α h tid' hex) (pres1 tid' a'' h')))
    apply r.cast <;> try rfl
    · intro n
      show lookup n (σ2.commitC D0 σ.txns.length).1.sessions = _
      rw [commitC_sessions, hs2]; rfl
    · intro n
      show lookup n (α.commitC a').1.sessions = _
      rw [spec_commitC_sessions]; rfl

theorem batch_ok (σ : State) (α : Spec.State) (h : Rel σ α) (sts : List Stmt) : StepOk σ α (.batch sts) := by
  unfold StepOk
  simp only [stepCore, Spec.stepCore]
  obtain ⟨c1, htid, tx1, pres1⟩ := begin_core σ α 0 h.core
  rcases hb : σ.beginTxn D0 with ⟨σ1, tid⟩
  simp only [hb] at c1 htid tx1 pres1
  subst htid
  obtain ⟨hp, ⟨j2, c2⟩, tx2, pres2⟩ := batch_core α σ.txns.length sts σ1 0 α.beginTxn c1 tx1
  have hs1 : σ1.sessions = σ.sessions := by
    have := congrArg (fun x => x.1.sessions) hb
    simpa [State.beginTxn] using this.symm
  rcases hx : State.batch D0 σ1 σ.txns.length 0 sts with ⟨σ2, outs, r⟩
  rcases hy : Spec.batch α.cat α.clock α.beginTxn 0 sts with ⟨a', outs', r'⟩
  have hs2 : σ2.sessions = σ.sessions := by
    have := batch_sessions σ.txns.length sts σ1 0
    rw [hx] at this; rw [← hs1]; exact this
  simp only [hx, hy] at hp c2 tx2 pres2
  simp only [Prod.mk.injEq] at hp
  obtain ⟨hp1, hp2⟩ := hp
  subst hp1 hp2
  cases r with
  | some e =>
    dsimp only
    obtain ⟨c3, pres3⟩ := abort_core σ2 α _ c2 _ a' tx2
    refine ⟨rfl, j2, ?_⟩
    have rr := RelL.anon h c3 (fun tid' a'' hex h' =>
      pres3 tid' a'' (sess_ne_new σ α h tid' hex)
        (pres2 tid' a'' (sess_ne_new σ α h tid' hex) (pres1 tid' a'' h')))
    apply rr.cast <;> try rfl
    · intro n
      show lookup n σ2.sessions = _
      rw [hs2]; rfl
    · intro n; rfl
  | none =>
    dsimp only
    obtain ⟨hok, c3, pres3⟩ := commitC_core σ2 α _ c2 _ a' tx2
    refine ⟨by rw [hok], j2, ?_⟩
    have rr := RelL.anon h c3 (fun tid' a'' hex h' =>
      pres3 tid' a'' (sess_ne_new σ α h tid' hex)
        (pres2 tid' a'' (sess_ne_new σ α h tid' hex) (pres1 tid' a'' h')))
    apply rr.cast <;> try rfl
    · intro n
      show lookup n (σ2.commitC D0 σ.txns.length).1.sessions = _
      rw [commitC_sessions, hs2]; rfl
    · intro n
      show lookup n (α.commitC a').1.sessions = _
      rw [spec_commitC_sessions]; rfl

theorem spec_tick (α : Spec.State) :
    α.commitTxn α.beginTxn = ({ α with log := α.log ++ [(α.log.length, [])] }, true) := by
  have hf : ∀ (l : View), l.filter (fun _ => false) = [] := fun l => by simp
  have ht : ∀ (l : View), l.filter (fun _ => true) = l := fun l => by simp
  simp [Spec.State.commitTxn, Spec.State.beginTxn, Spec.conflict, Spec.ATxn.ws, Spec.ATxn.view, View.applyAll,
    takeOver, hf, ht]

theorem tick_ok (σ : State) (α : Spec.State) (h : Rel σ α) : StepOk σ α .tick := by
  unfold StepOk
  simp only [stepCore, Spec.stepCore]
  obtain ⟨c1, htid, tx1, pres1⟩ := begin_core σ α 0 h.core
  rcases hb : σ.beginTxn D0 with ⟨σ1, tid⟩
  simp only [hb] at c1 htid tx1 pres1
  subst htid
  have hs1 : σ1.sessions = σ.sessions := by
    have := congrArg (fun x => x.1.sessions) hb
    simpa [State.beginTxn] using this.symm
  dsimp only
  obtain ⟨_, c3, pres3⟩ := commit_core σ1 α 0 c1 _ _ tx1
  rw [spec_tick] at c3
  refine ⟨trivial, 0, ?_⟩
  have rr := RelL.anon h c3 (fun tid' a'' hex h' =>
    pres3 tid' a'' (sess_ne_new σ α h tid' hex) (pres1 tid' a'' h'))
  apply rr.cast <;> try rfl
  · intro n
    show lookup n (σ1.commitTxn σ.txns.length).1.sessions = _
    rw [commitTxn_sessions, hs1]; rfl
  · intro n; rfl

theorem nop_ok (σ : State) (α : Spec.State) (h : Rel σ α) : StepOk σ α .nop := by
  unfold StepOk
  simp only [stepCore, Spec.stepCore]
  exact ⟨trivial, 0, h⟩

theorem stepCore_ok (σ : State) (α : Spec.State) (h : Rel σ α) (op : Op) : StepOk σ α op := by
  cases op with
  | begin s => exact begin_ok σ α h s
  | commit s => exact commit_ok σ α h s
  | rollback s => exact rollback_ok σ α h s
  | drop s => exact drop_ok σ α h s
  | exec s st => exact exec_ok σ α h s st
  | auto st => exact auto_ok σ α h st
  | batch sts => exact batch_ok σ α h sts
  | tick => exact tick_ok σ α h
  | nop => exact nop_ok σ α h

/-- one operation: same output, and the relation holds again -/
theorem step_ok (σ : State) (α : Spec.State) (h : Rel σ α) (op : Op) :
    (step D0 σ op).2 = (Spec.step α op).2 ∧ Rel (step D0 σ op).1 (Spec.step α op).1 := by
  obtain ⟨ho, j, r⟩ := stepCore_ok σ α h op
  unfold step Spec.step
  refine ⟨ho, ?_⟩
  unfold Rel
  have c := r.core
  have r' : RelL { (stepCore D0 σ op).1 with clock := (stepCore D0 σ op).1.clock + 1 }
      { (Spec.stepCore α op).1 with clock := (Spec.stepCore α op).1.clock + 1 } 0
      (lkS (stepCore D0 σ op).1) (lkA (Spec.stepCore α op).1) := by
    refine ⟨⟨c.cinv, ⟨c.sinv.stamps, c.sinv.sorted, ?_⟩, c.cat, ?_, c.committed, c.log⟩, ?_, r.sessNone, r.inj⟩
    · intro row hrow
      have := c.sinv.bound row hrow
      unfold ridLt at *; simp only at *; omega
    · show (stepCore D0 σ op).1.clock + 1 = (Spec.stepCore α op).1.clock + 1
      rw [c.clock]
    · intro name tid hn
      obtain ⟨a, g1, g2⟩ := r.sess name tid hn
      exact ⟨a, g1, g2.of_eq rfl rfl⟩
  exact r'

theorem init_rel (cat : Catalog) : Rel (State.init cat) (Spec.State.init cat) := by
  unfold Rel
  refine ⟨⟨?_, ?_, rfl, rfl, rfl, rfl⟩, ?_, ?_, ?_⟩
  · constructor <;> simp [State.init]
  · constructor <;> simp [State.init]
  · intro name tid hn; simp [lkS, State.init, lookup] at hn
  · intro name _; simp [lkA, Spec.State.init, lookup]
  · intro n1 n2 tid hn; simp [lkS, State.init, lookup] at hn

theorem runFrom_ok : ∀ (ops : List Op) (σ : State) (α : Spec.State) (acc : List Out), Rel σ α →
    (runFrom D0 σ ops acc).2 = (Spec.runFrom α ops acc).2 ∧ Rel (runFrom D0 σ ops acc).1 (Spec.runFrom α ops acc).1
  | [], σ, α, acc, h => ⟨rfl, h⟩
  | op :: ops, σ, α, acc, h => by
    obtain ⟨ho, hr⟩ := step_ok σ α h op
    simp only [runFrom, Spec.runFrom]
    rw [ho]
    exact runFrom_ok ops _ _ _ hr

end AxVerif.Db
