/- Helper lemmas for the write-ahead-logging protocol model (C01 / C02 / C08). -/
import AxVerif.Model.Recovery
namespace AxVerif.Recovery
open AxVerif AxVerif.Durable

/-! ### analysis is local to a transaction's own records -/

theorem winnerStep_of_ne {t : Nat} {r : Rec} (h : r.tid ≠ t) (w : Bool) : winnerStep t w r = w := by
  cases r <;> simp_all [winnerStep, Rec.tid]

theorem foldl_winnerStep_of_ne {t : Nat} (rs : List Rec) (h : ∀ r ∈ rs, r.tid ≠ t) (w : Bool) :
    rs.foldl (winnerStep t) w = w := by
  induction rs generalizing w with
  | nil => rfl
  | cons r rs ih =>
    simp only [List.foldl_cons]
    rw [winnerStep_of_ne (h r (by simp))]
    exact ih (fun r' hr' => h r' (by simp [hr'])) w

theorem isWinner_append_right {a b : List Rec} {t : Nat} (h : ∀ r ∈ b, r.tid ≠ t) :
    isWinner (a ++ b) t = isWinner a t := by
  simp only [isWinner, List.foldl_append]
  exact foldl_winnerStep_of_ne b h _

theorem isWinner_append_left {a b : List Rec} {t : Nat} (h : ∀ r ∈ a, r.tid ≠ t) :
    isWinner (a ++ b) t = isWinner b t := by
  simp only [isWinner, List.foldl_append]
  rw [foldl_winnerStep_of_ne a h]

/-- A winner has a COMMIT record. -/
theorem foldl_winnerStep_true {t : Nat} (rs : List Rec) (w : Bool)
    (h : rs.foldl (winnerStep t) w = true) : w = true ∨ Rec.commit t ∈ rs := by
  induction rs generalizing w with
  | nil => exact Or.inl h
  | cons r rs ih =>
    simp only [List.foldl_cons] at h
    rcases ih _ h with h1 | h1
    · cases r with
      | op t' d => simp [winnerStep] at h1; exact Or.inl h1
      | commit t' =>
        simp only [winnerStep] at h1
        by_cases e : t' = t
        · subst e; exact Or.inr (by simp)
        · simp [e] at h1; exact Or.inl h1
      | abort t' =>
        simp only [winnerStep] at h1
        by_cases e : t' = t
        · simp [e] at h1
        · simp [e] at h1; exact Or.inl h1
    · exact Or.inr (by simp [h1])

theorem commit_mem_of_isWinner {rs : List Rec} {t : Nat} (h : isWinner rs t = true) : Rec.commit t ∈ rs := by
  rcases foldl_winnerStep_true rs false h with h1 | h1
  · cases h1
  · exact h1

/-! ### folds that agree on the members of the list -/

theorem foldl_congr_mem {α β : Type} (f g : β → α → β) (l : List α) (s : β)
    (h : ∀ s, ∀ a ∈ l, f s a = g s a) : l.foldl f s = l.foldl g s := by
  induction l generalizing s with
  | nil => rfl
  | cons a l ih =>
    simp only [List.foldl_cons]
    rw [h s a (by simp)]
    exact ih _ (fun s' a' ha' => h s' a' (by simp [ha']))

/-! ### recovery splits at a point that no transaction spans -/

def TxDisjoint (a b : List Rec) : Prop := ∀ r ∈ a, ∀ r' ∈ b, r.tid ≠ r'.tid

theorem replay_append (s : DbState) (a b : List Rec) (h : TxDisjoint a b) :
    replay s (a ++ b) = replay (replay s a) b := by
  simp only [replay, replayIn, List.foldl_append]
  have ha : a.foldl (redoStep (a ++ b)) s = a.foldl (redoStep a) s := by
    apply foldl_congr_mem
    intro s' r hr
    cases r with
    | op t d =>
      simp only [redoStep]
      rw [isWinner_append_right (t := t) (fun r' hr' => (h _ hr r' hr').symm)]
    | commit t => rfl
    | abort t => rfl
  rw [ha]
  apply foldl_congr_mem
  intro s' r hr
  cases r with
  | op t d =>
    simp only [redoStep]
    rw [isWinner_append_left (t := t) (fun r' hr' => h r' hr' _ hr)]
  | commit t => rfl
  | abort t => rfl

theorem replay_nil (s : DbState) : replay s [] = s := rfl

/-! ### quiescence -/

theorem quiescent_iff (rs : List Rec) :
    quiescent rs = true ↔ ∀ r ∈ rs, ∃ r' ∈ rs, r'.isFinish = true ∧ r'.tid = r.tid := by
  simp only [quiescent, List.all_eq_true, List.any_eq_true, Bool.and_eq_true, beq_iff_eq]

theorem quiescent_append {a b : List Rec} (ha : quiescent a = true) (hb : quiescent b = true) :
    quiescent (a ++ b) = true := by
  rw [quiescent_iff] at *
  intro r hr
  rcases List.mem_append.mp hr with h | h
  · obtain ⟨r', hr', hf⟩ := ha r h
    exact ⟨r', List.mem_append.mpr (Or.inl hr'), hf⟩
  · obtain ⟨r', hr', hf⟩ := hb r h
    exact ⟨r', List.mem_append.mpr (Or.inr hr'), hf⟩

/-- In a well-formed history nothing after a quiescent prefix belongs to a transaction of that prefix. -/
theorem txDisjoint_of_wf {a b : List Rec} (hw : WfRecs (a ++ b)) (hq : quiescent a = true) : TxDisjoint a b := by
  intro r hr r' hr' e
  obtain ⟨f, hf, hfin, htid⟩ := (quiescent_iff a).mp hq r hr
  have hp := (List.pairwise_append.mp hw).2.2 f hf r' hr'
  exact hp ⟨hfin, by rw [htid, e]⟩

theorem WfRecs.left {a b : List Rec} (h : WfRecs (a ++ b)) : WfRecs a := (List.pairwise_append.mp h).1

/-! ### bookkeeping of the event-level views -/

def countStep (p : Nat × Nat) : Ev → Nat × Nat
  | .append _ => (p.1, p.2 + 1)
  | .force => (p.2, p.2)
  | .checkpoint => (p.2, p.2)
  | .ack _ => p

def counts (es : List Ev) : Nat × Nat := es.foldl countStep (0, 0)

theorem durableCount_eq (es : List Ev) : durableCount es = (counts es).1 := by
  unfold durableCount counts
  congr 1

def evRecs : Ev → List Rec
  | .append r => [r]
  | _ => []

theorem appended_append (a b : List Ev) : appended (a ++ b) = appended a ++ appended b := by
  induction a with
  | nil => rfl
  | cons e a ih =>
    cases e <;> simp [appended, ih]

theorem appended_snoc (es : List Ev) (e : Ev) : appended (es ++ [e]) = appended es ++ evRecs e := by
  rw [appended_append]
  cases e <;> rfl

theorem counts_snoc (es : List Ev) (e : Ev) : counts (es ++ [e]) = countStep (counts es) e := by
  simp [counts, List.foldl_append]

theorem run_snoc (es : List Ev) (e : Ev) : run (es ++ [e]) = step (run es) e := by
  simp [run, List.foldl_append]

/-! ### the invariant linking the machine to the history -/

structure Inv (es : List Ev) (old : List Rec) : Prop where
  hist : appended es = old ++ (run es).log ++ (run es).buf
  cdur : (counts es).1 = (old ++ (run es).log).length
  call : (counts es).2 = (appended es).length
  stab : (run es).stable = replay [] old
  quie : quiescent old = true

theorem inv_nil : Inv [] [] := by
  constructor <;> simp [run, init, counts, appended, replay_nil, quiescent]

theorem inv_step (es : List Ev) (e : Ev) (old : List Rec) (h : Inv es old)
    (hw : WfRecs (appended (es ++ [e]))) : ∃ old', Inv (es ++ [e]) old' := by
  obtain ⟨hist, cdur, call, stab, quie⟩ := h
  cases e with
  | append r =>
    refine ⟨old, ?_⟩
    constructor
    · rw [appended_snoc, run_snoc, hist]; simp [step, evRecs]
    · rw [counts_snoc, run_snoc]; simp [countStep, step, cdur]
    · rw [counts_snoc, appended_snoc]; simp [countStep, evRecs, call]
    · rw [run_snoc]; simpa [step] using stab
    · exact quie
  | force =>
    refine ⟨old, ?_⟩
    constructor
    · rw [appended_snoc, run_snoc, hist]; simp [step, evRecs]
    · rw [counts_snoc, run_snoc]
      simp only [countStep, step]
      rw [call, hist]; simp [List.append_assoc]
    · rw [counts_snoc, appended_snoc]; simp [countStep, evRecs, call]
    · rw [run_snoc]; simpa [step] using stab
    · exact quie
  | ack t =>
    refine ⟨old, ?_⟩
    constructor
    · rw [appended_snoc, run_snoc, hist]; simp [step, evRecs]
    · rw [counts_snoc, run_snoc]; simp [countStep, step, cdur]
    · rw [counts_snoc, appended_snoc]; simp [countStep, evRecs, call]
    · rw [run_snoc]; simpa [step] using stab
    · exact quie
  | checkpoint =>
    have happ : appended (es ++ [Ev.checkpoint]) = appended es := by rw [appended_snoc]; simp [evRecs]
    rw [happ] at hw
    by_cases hq : quiescent ((run es).log ++ (run es).buf) = true
    · refine ⟨old ++ ((run es).log ++ (run es).buf), ?_⟩
      have hdis : TxDisjoint old ((run es).log ++ (run es).buf) := by
        apply txDisjoint_of_wf _ quie
        rw [← List.append_assoc, ← hist]; exact hw
      constructor
      · rw [happ, run_snoc, hist]; simp [step, hq]
      · rw [counts_snoc, run_snoc]
        simp only [countStep, step, hq, if_true]
        rw [call, hist]; simp [List.append_assoc]
      · rw [counts_snoc, happ]; simp [countStep, call]
      · rw [run_snoc]
        simp only [step, hq, if_true]
        rw [stab, replay_append _ _ _ hdis]
      · exact quiescent_append quie hq
    · refine ⟨old, ?_⟩
      constructor
      · rw [happ, run_snoc, hist]; simp [step, hq]
      · rw [counts_snoc, run_snoc]
        simp only [countStep, step, hq]
        rw [call, hist]; simp [List.append_assoc]
      · rw [counts_snoc, happ]; simp [countStep, call]
      · rw [run_snoc]; simpa [step, hq] using stab
      · exact quie

theorem snoc_induction {α : Type} {P : List α → Prop} (nil : P [])
    (snoc : ∀ l a, P l → P (l ++ [a])) : ∀ l, P l := by
  intro l
  have h : ∀ r : List α, P r.reverse := by
    intro r
    induction r with
    | nil => exact nil
    | cons a r ih => rw [List.reverse_cons]; exact snoc _ _ ih
  have := h l.reverse
  rwa [List.reverse_reverse] at this

theorem inv_exists (es : List Ev) : WfRecs (appended es) → ∃ old, Inv es old := by
  refine snoc_induction (P := fun es => WfRecs (appended es) → ∃ old, Inv es old) ?_ ?_ es
  · intro _; exact ⟨[], inv_nil⟩
  · intro es e ih hw
    have hw' : WfRecs (appended es) := by
      rw [appended_snoc] at hw; exact hw.left
    obtain ⟨old, hinv⟩ := ih hw'
    exact inv_step es e old hinv hw

end AxVerif.Recovery
