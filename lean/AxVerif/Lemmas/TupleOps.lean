/-
  Helper lemmas for the tuple model, part 5: the writers on bytes refine the logical operations
  (`build`, `addVersion`, `delete`, `vacuumWith`), size bookkeeping, and the logical vacuum theorem.
-/
import AxVerif.Lemmas.TupleChain
namespace AxVerif.Tuple
open AxVerif

/-! ### `applyMods` / `changedIdx` -/

theorem applyMods_length (m : Mods) : ∀ (i : Nat) (vs : List Cell), (applyMods m i vs).length = vs.length := by
  intro i vs
  induction vs generalizing i with
  | nil => rfl
  | cons v vs ih => simp [applyMods, ih]

theorem applyMods_getElem? (m : Mods) : ∀ (vs : List Cell) (i j : Nat),
    (applyMods m i vs)[j]? = (vs[j]?).map (newCell m (i + j)) := by
  intro vs
  induction vs with
  | nil => intro i j; simp [applyMods]
  | cons v vs ih =>
    intro i j
    cases j with
    | zero => simp [applyMods]
    | succ j =>
      simp only [applyMods, List.getElem?_cons_succ, ih (i + 1) j]
      have : i + 1 + j = i + (j + 1) := by omega
      rw [this]

theorem mem_changedIdx (m : Mods) : ∀ (vs : List Cell) (i x : Nat),
    x ∈ changedIdx m i vs ↔ (i ≤ x ∧ x < i + vs.length ∧ (lookupMod m x).isSome) := by
  intro vs
  induction vs with
  | nil => intro i x; simp [changedIdx]; omega
  | cons v vs ih =>
    intro i x
    simp only [changedIdx, List.mem_append, ih (i + 1) x, List.length_cons]
    constructor
    · rintro (h | ⟨h1, h2, h3⟩)
      · cases hl : lookupMod m i with
        | none => simp [hl] at h
        | some c =>
          simp only [hl, List.mem_singleton] at h
          subst h
          exact ⟨Nat.le_refl _, by omega, by simp [hl]⟩
      · exact ⟨by omega, by omega, h3⟩
    · rintro ⟨h1, h2, h3⟩
      by_cases hx : x = i
      · left
        subst hx
        cases hl : lookupMod m x with
        | none => simp [hl] at h3
        | some c => simp
      · right; exact ⟨by omega, by omega, h3⟩

theorem changedIdx_length_le (m : Mods) : ∀ (vs : List Cell) (i : Nat), (changedIdx m i vs).length ≤ vs.length := by
  intro vs
  induction vs with
  | nil => intro i; simp [changedIdx]
  | cons v vs ih =>
    intro i
    have := ih (i + 1)
    simp only [changedIdx, List.length_append, List.length_cons]
    cases lookupMod m i <;> simp <;> omega

/-- the values of an update fit the columns they are written to -/
def ModsFit (P : Params) (sch : Schema) (m : Mods) : Prop :=
  ∀ e, e ∈ m → ∃ k, sch.vals[e.1]? = some k ∧ (∀ p, e.2 = some p → FitsKind P k p)

theorem lookupMod_mem (m : Mods) (i : Nat) (c : Cell) (h : lookupMod m i = some c) : (i, c) ∈ m := by
  induction m with
  | nil => simp [lookupMod] at h
  | cons e m ih =>
    obtain ⟨j, v⟩ := e
    simp only [lookupMod] at h
    by_cases hj : j = i
    · simp only [hj, if_true, Option.some.injEq] at h
      subst hj h; simp
    · simp only [hj, if_false] at h
      exact List.mem_cons_of_mem _ (ih h)

theorem applyMods_fit (P : Params) (sch : Schema) (m : Mods) (hm : ModsFit P sch m) :
    ∀ (ks : List Kind) (vs : List Cell) (i : Nat), (∀ j k, ks[j]? = some k → sch.vals[i + j]? = some k) →
      CellsFit P ks vs → CellsFit P ks (applyMods m i vs) := by
  intro ks
  induction ks with
  | nil =>
    intro vs i _ h
    cases vs with
    | nil => simp [applyMods, CellsFit]
    | cons _ _ => simp [CellsFit] at h
  | cons k ks ih =>
    intro vs i hk h
    cases vs with
    | nil => simp [CellsFit] at h
    | cons v vs =>
      have htl : CellsFit P ks vs := by cases v <;> simp only [CellsFit] at h <;> first | exact h | exact h.2
      have ih' := ih vs (i + 1) (by
        intro j k' hj
        have := hk (j + 1) k' (by simpa using hj)
        rw [← this]; congr 1; omega) htl
      simp only [applyMods, newCell]
      cases hl : lookupMod m i with
      | none =>
        cases v with
        | none => simpa [CellsFit] using ih'
        | some p =>
          simp only [CellsFit] at h ⊢
          exact ⟨h.1, ih'⟩
      | some c =>
        obtain ⟨k', hk', hfit⟩ := hm (i, c) (lookupMod_mem m i c hl)
        have hk0 := hk 0 k (by simp)
        simp only [Nat.add_zero] at hk0
        rw [hk0] at hk'; cases hk'
        cases c with
        | none => simpa [CellsFit] using ih'
        | some p =>
          simp only [CellsFit]
          exact ⟨hfit p rfl, ih'⟩

/-! ### position independence of the delta block -/

theorem encBlock_shift (P : Params) (hP : P.Wf) (sch : Schema) :
    ∀ (rest : List (LVersion × List Nat)) (B rel : Nat), 8 ∣ B → encBlock P sch (B + rel) rest = encBlock P sch rel rest := by
  intro rest
  induction rest with
  | nil => intro B rel _; rfl
  | cons x rest ih =>
    intro B rel hB
    obtain ⟨v, c⟩ := x
    have a8 : AlignOk P.dhAlign := by rw [hP.dha]; exact Or.inr (Or.inr (Or.inr rfl))
    simp only [encBlock, padTo_shift a8 hB]
    rw [Nat.add_assoc, ih B _ hB]

theorem encBlock_cons_ne_nil (P : Params) (hP : P.Wf) (sch : Schema) (rel : Nat) (x : LVersion × List Nat)
    (rest : List (LVersion × List Nat)) : (encBlock P sch rel (x :: rest)).isEmpty = false := by
  have := encBlock_length_ge P hP sch (x :: rest) rel
  cases h : encBlock P sch rel (x :: rest) with
  | nil => rw [h] at this; simp at this
  | cons _ _ => rfl

/-- what `add_version_with` finds behind the (aligned) end of the main part: the delta block -/
theorem drop_encode (P : Params) (hP : P.Wf) (sch : Schema) (L : LRow) :
    (encode P sch L).drop (alignUp (encMain P sch L.cur.creator L.deleter L.cur.ver L.keys L.cur.vals).length P.dhAlign)
      = encBlock P sch 0 L.hist := by
  have a8 : AlignOk 8 := Or.inr (Or.inr (Or.inr rfl))
  rw [encode_eq]
  generalize encMain P sch L.cur.creator L.deleter L.cur.ver L.keys L.cur.vals = M
  by_cases hE : (L.hist.isEmpty && !L.trail) = true
  · have hnil : L.hist = [] := by
      simp only [Bool.and_eq_true, List.isEmpty_iff] at hE; exact hE.1
    rw [if_pos hE, hnil]
    simp only [encBlock, List.append_nil]
    apply List.drop_eq_nil_of_le
    rw [hP.dha]; exact alignUp_ge a8
  · rw [if_neg hE, hP.dha, ← length_append_padTo M a8, List.drop_left]

/-! ### `addVersion` refines `LRow.update` -/

theorem any_idx_false (P : Params) (sch : Schema) (m : Mods) (hm : ModsFit P sch m) :
    m.any (fun e => decide (sch.vals.length ≤ e.1)) = false := by
  rw [List.any_eq_false]
  intro e he
  obtain ⟨k, hk, _⟩ := hm e he
  have : e.1 < sch.vals.length := by
    by_cases h : e.1 < sch.vals.length
    · exact h
    · rw [List.getElem?_eq_none (by omega)] at hk; cases hk
  simp only [decide_eq_true_eq]; omega

theorem addVersion_encode (P : Params) (hP : P.Wf) (sch : Schema) (L : LRow) (hw : WfRow P sch L) (m : Mods) (t : Nat)
    (hm : ModsFit P sch m) :
    addVersion {} P sch (encode P sch L) m t = .ok (encode P sch (L.update t m)) := by
  have a8 : AlignOk 8 := Or.inr (Or.inr (Or.inr rfl))
  by_cases hme : m.isEmpty = true
  · simp [addVersion, LRow.update, hme]
  · have hany := any_idx_false P sch m hm
    -- what the code reads back from the current bytes
    have hex := drop_encode P hP sch L
    obtain ⟨lay, hpl, hxmin, _, hver, hend, hl⟩ := parseLast_main P hP sch L.cur.creator L.deleter L.cur.ver L.keys L.cur.vals
      ((if L.hist.isEmpty && !L.trail then [] else padTo (encMain P sch L.cur.creator L.deleter L.cur.ver L.keys L.cur.vals).length P.dhAlign)
        ++ encBlock P sch 0 L.hist) hw.creator hw.deleter hw.ver hw.keys hw.cur
    have hdE : encMain P sch L.cur.creator L.deleter L.cur.ver L.keys L.cur.vals
        ++ ((if L.hist.isEmpty && !L.trail then [] else padTo (encMain P sch L.cur.creator L.deleter L.cur.ver L.keys L.cur.vals).length P.dhAlign)
        ++ encBlock P sch 0 L.hist) = encode P sch L := by
      rw [encode_eq]; simp only [List.append_assoc]
    rw [hdE] at hpl hl
    have hrow := toRow_of_layoutOk hl
    rw [← hend] at hex
    unfold addVersion
    simp only [hme, Bool.false_eq_true, if_false, hany, hpl, hrow, hex, hxmin, hver, Bool.false_and]
    -- the new row
    have hupd : L.update t m = { keys := L.keys, cur := { creator := t, ver := (L.cur.ver + 1) % 256, vals := applyMods m 0 L.cur.vals }, hist := (L.cur, changedIdx m 0 L.cur.vals) :: L.hist, deleter := none, trail := L.trail } := by
      simp only [LRow.update, hme, Bool.false_eq_true, if_false]
    rw [hupd, encode_eq]
    simp only [List.isEmpty_cons, Bool.false_and, Bool.false_eq_true, if_false]
    generalize hM' : encMain P sch t none ((L.cur.ver + 1) % 256) L.keys (applyMods m 0 L.cur.vals) = M'
    generalize hDl : encDelta P sch L.cur.creator L.cur.ver L.cur.vals (changedIdx m 0 L.cur.vals) = Dl
    have hB : 8 ∣ (M' ++ padTo M'.length P.dhAlign).length := by
      rw [hP.dha, length_append_padTo M' a8]; exact alignUp_dvd8 _
    have hp0 : padTo 0 P.dhAlign = [] := by simp [padTo, alignUp, hP.dha, zeros]
    congr 1
    cases hh : L.hist with
    | nil => simp [encBlock, hDl, hp0]
    | cons x rest =>
      rw [encBlock_cons_ne_nil P hP sch 0 x rest]
      simp only [Bool.false_eq_true, if_false]
      -- the old block moves behind the new delta: to the next aligned offset, and nothing inside it changes
      have hsplit : encBlock P sch 0 ((L.cur, changedIdx m 0 L.cur.vals) :: x :: rest)
          = Dl ++ encBlock P sch Dl.length (x :: rest) := by
        simp only [encBlock, hDl, hp0, List.nil_append, Nat.zero_add, List.length_append, List.append_assoc]
      rw [hsplit]
      have hblock : encBlock P sch Dl.length (x :: rest)
          = padTo (M' ++ padTo M'.length P.dhAlign ++ Dl).length P.dhAlign ++ encBlock P sch 0 (x :: rest) := by
        obtain ⟨v, c⟩ := x
        have hpad : padTo (M' ++ padTo M'.length P.dhAlign ++ Dl).length P.dhAlign = padTo Dl.length P.dhAlign := by
          rw [List.length_append (as := M' ++ padTo M'.length P.dhAlign)]
          exact padTo_shift (by rw [hP.dha]; exact a8) hB
        rw [hpad]
        simp only [encBlock, hp0, List.nil_append, Nat.zero_add, List.append_assoc, List.length_append]
        congr 2
        have hal : Dl.length + ((padTo Dl.length P.dhAlign).length + (encDelta P sch v.creator v.ver v.vals c).length)
            = alignUp Dl.length 8 + (encDelta P sch v.creator v.ver v.vals c).length := by
          have := alignUp_ge (c := Dl.length) a8
          rw [padTo_length, hP.dha]; omega
        rw [hal, encBlock_shift P hP sch rest _ _ (alignUp_dvd8 _)]
      rw [hblock]
      simp only [List.append_assoc]

theorem update_wf (P : Params) (sch : Schema) (L : LRow) (hw : WfRow P sch L) (m : Mods) (t : Nat)
    (hm : ModsFit P sch m) (ht : t < 2 ^ 64) (hn : sch.vals.length < 256) : WfRow P sch (L.update t m) := by
  by_cases hme : m.isEmpty = true
  · simpa [LRow.update, hme] using hw
  · have hupd : L.update t m = { keys := L.keys, cur := { creator := t, ver := (L.cur.ver + 1) % 256, vals := applyMods m 0 L.cur.vals }, hist := (L.cur, changedIdx m 0 L.cur.vals) :: L.hist, deleter := none, trail := L.trail } := by
      simp only [LRow.update, hme, Bool.false_eq_true, if_false]
    rw [hupd]
    have hlen := hw.cur.length
    refine ⟨hw.keys, ?_, ht, Nat.mod_lt _ (by omega), trivial, ?_, ?_, hw.hist⟩
    · exact applyMods_fit P sch m hm sch.vals L.cur.vals 0 (by intro j k hj; simpa using hj) hw.cur
    · refine ⟨hw.cur, ?_, ?_, hw.creator, hw.ver⟩
      · intro i hi
        rw [mem_changedIdx] at hi
        omega
      · have := changedIdx_length_le m L.cur.vals 0
        omega
    · intro j _ hj
      simp only [applyMods_getElem?, Nat.zero_add]
      cases hv : L.cur.vals[j]? with
      | none => rfl
      | some v =>
        have hjl : j < L.cur.vals.length := by
          by_cases h : j < L.cur.vals.length
          · exact h
          · rw [List.getElem?_eq_none (by omega)] at hv; cases hv
        have : lookupMod m j = none := by
          cases hl : lookupMod m j with
          | none => rfl
          | some c =>
            exfalso; apply hj
            rw [mem_changedIdx]
            exact ⟨Nat.zero_le _, by omega, by simp [hl]⟩
        simp [newCell, this]

/-! ### `build`, `delete` -/

theorem build_encode (P : Params) (sch : Schema) (row : Row) (x : Nat) :
    build {} P sch row x = .ok (encode P sch (LRow.insert row.keys row.vals x)) := by
  simp [build, encode, LRow.insert, encBlock]

theorem insert_wf (P : Params) (sch : Schema) (row : Row) (x : Nat)
    (hk : CellsFit P sch.keys (row.keys.map some)) (hv : CellsFit P sch.vals row.vals) (hx : x < 2 ^ 64) :
    WfRow P sch (LRow.insert row.keys row.vals x) :=
  ⟨hk, hv, hx, by simp [LRow.insert], trivial, trivial⟩

/-- everything behind the header; it does not depend on the deleter -/
def encRest (P : Params) (sch : Schema) (L : LRow) : Bytes :=
  mkBitmap L.cur.vals
    ++ emitCells P (24 + (mkBitmap L.cur.vals).length) sch.keys (L.keys.map some)
    ++ emitCells P (24 + (mkBitmap L.cur.vals).length
        + (emitCells P (24 + (mkBitmap L.cur.vals).length) sch.keys (L.keys.map some)).length) sch.vals L.cur.vals
    ++ (if L.hist.isEmpty && !L.trail then []
        else padTo (24 + (mkBitmap L.cur.vals).length
          + (emitCells P (24 + (mkBitmap L.cur.vals).length) sch.keys (L.keys.map some)).length
          + (emitCells P (24 + (mkBitmap L.cur.vals).length
            + (emitCells P (24 + (mkBitmap L.cur.vals).length) sch.keys (L.keys.map some)).length) sch.vals L.cur.vals).length)
          P.dhAlign)
    ++ encBlock P sch 0 L.hist

theorem encode_split (P : Params) (hP : P.Wf) (sch : Schema) (L : LRow) :
    encode P sch L = encHeader P L.cur.creator L.deleter L.cur.ver ++ encRest P sch L := by
  simp only [encode, encMain, encRest, List.length_append, encHeader_length P hP, List.append_assoc, Nat.add_assoc]

theorem delete_encode (P : Params) (hP : P.Wf) (sch : Schema) (L : LRow) (hw : WfRow P sch L) (t : Nat) :
    delete P (encode P sch L) t = .ok (encode P sch (L.delete t)) := by
  unfold delete
  rw [encode_split P hP sch L, readHeader_encHeader P hP _ _ _ _ hw.creator hw.deleter hw.ver]
  simp only
  have hdel : L.delete t = { L with deleter := some t } := rfl
  rw [hdel, encode_split P hP sch { L with deleter := some t }]
  have hrest : encRest P sch { L with deleter := some t } = encRest P sch L := rfl
  rw [hrest]
  simp only [encHeader, List.append_assoc]
  rw [List.take_left' (le64_length _), show 16 = 8 + 8 from rfl, ← List.drop_drop, List.drop_left' (le64_length _),
    List.drop_left' (le64_length _)]
  simp only [xmaxField]

theorem delete_wf (P : Params) (sch : Schema) (L : LRow) (hw : WfRow P sch L) (t : Nat) (ht : t < 2 ^ 63) :
    WfRow P sch (L.delete t) :=
  ⟨hw.keys, hw.cur, hw.creator, hw.ver, ht, hw.hist⟩

/-! ### `vacuumWith` refines `LRow.vacuum` -/

theorem skipDelta_enc (P : Params) (hP : P.Wf) (sch : Schema) (d : Bytes) (v : LVersion) (ch : List Nat)
    (hok : DeltaOk P sch v ch) (pre post : Bytes) (cursor : Nat)
    (hB : 8 ∣ pre.length) (hcur : alignUp cursor P.dhAlign = pre.length)
    (hd : d = pre ++ encDelta P sch v.creator v.ver v.vals ch ++ post) :
    (∃ DH, slice d (alignUp cursor P.dhAlign) P.dhSize = .ok DH ∧ rdLE (DH.take 8) = v.creator)
      ∧ skipDelta P sch d cursor = .ok (v.creator, pre.length + (encDelta P sch v.creator v.ver v.vals ch).length) := by
  have hvl : v.vals.length = sch.vals.length := hok.fit.length
  have hbm : bitmapSize sch.vals.length = (mkBitmap v.vals).length := by rw [mkBitmap_length, hvl]
  have hDl : (encDeltaHeader P v.creator v.ver).length = 16 := encDeltaHeader_length P hP _ _
  have hrd1 : rdLE ((encDeltaHeader P v.creator v.ver).take 8) = v.creator := by
    simp only [encDeltaHeader, List.append_assoc]
    rw [List.take_left' (le64_length _), rdLE_le64 _ hok.creator]
  have hdE : encDelta P sch v.creator v.ver v.vals ch = encDeltaHeader P v.creator v.ver ++ [UInt8.ofNat ch.length]
      ++ mkBitmap v.vals ++ emitChanges P sch.vals v.vals (P.dhSize + 1 + bitmapSize v.vals.length) ch := rfl
  rw [hdE] at hd ⊢
  generalize encDeltaHeader P v.creator v.ver = DH at hDl hrd1 hd ⊢
  generalize hCH : emitChanges P sch.vals v.vals (P.dhSize + 1 + bitmapSize v.vals.length) ch = CH at hd ⊢
  have h1 : slice d (alignUp cursor P.dhAlign) P.dhSize = .ok DH := by
    rw [hd, hcur]
    have : pre ++ (DH ++ [UInt8.ofNat ch.length] ++ mkBitmap v.vals ++ CH) ++ post
        = pre ++ DH ++ ([UInt8.ofNat ch.length] ++ mkBitmap v.vals ++ CH ++ post) := by simp only [List.append_assoc]
    rw [this]
    exact slice_append' _ _ _ _ _ rfl (by rw [hDl, hP.dh])
  have h2 : getByte d (alignUp cursor P.dhAlign + P.dhSize) = .ok (UInt8.ofNat ch.length) := by
    rw [hd, hcur]
    have : pre ++ (DH ++ [UInt8.ofNat ch.length] ++ mkBitmap v.vals ++ CH) ++ post
        = (pre ++ DH) ++ UInt8.ofNat ch.length :: (mkBitmap v.vals ++ CH ++ post) := by simp only [List.append_assoc, List.cons_append, List.nil_append]
    rw [this]
    have hl : pre.length + P.dhSize = (pre ++ DH).length := by rw [List.length_append, hDl, hP.dh]
    rw [hl]; exact getByte_append _ _ _
  have h3 : slice d (alignUp cursor P.dhAlign + P.dhSize + 1) (bitmapSize sch.vals.length) = .ok (mkBitmap v.vals) := by
    rw [hd, hcur]
    have : pre ++ (DH ++ [UInt8.ofNat ch.length] ++ mkBitmap v.vals ++ CH) ++ post
        = (pre ++ DH ++ [UInt8.ofNat ch.length]) ++ mkBitmap v.vals ++ (CH ++ post) := by simp only [List.append_assoc]
    rw [this]
    exact slice_append' _ _ _ _ _ (by simp only [List.length_append, hDl, hP.dh, List.length_cons, List.length_nil]) hbm
  have hpre' : (pre ++ DH ++ [UInt8.ofNat ch.length] ++ mkBitmap v.vals).length
      = pre.length + (P.dhSize + 1 + bitmapSize v.vals.length) := by
    simp only [List.length_append, hDl, hP.dh, List.length_cons, List.length_nil, mkBitmap_length]; omega
  have hd4 : d = (pre ++ DH ++ [UInt8.ofNat ch.length] ++ mkBitmap v.vals)
      ++ emitChanges P sch.vals v.vals (P.dhSize + 1 + bitmapSize v.vals.length) ch ++ post := by
    rw [hd, hCH]; simp only [List.append_assoc]
  obtain ⟨offs', h4, _, _, _⟩ := applyChanges_emit P hP sch d v.vals pre.length hB hok.fit ch
    (P.dhSize + 1 + bitmapSize v.vals.length) (pre ++ DH ++ [UInt8.ofNat ch.length] ++ mkBitmap v.vals) post
    (List.replicate sch.vals.length 0) hpre' hd4 hok.idx (by simp)
  rw [hCH] at h4
  have hcur4 : alignUp cursor P.dhAlign + P.dhSize + 1 + bitmapSize sch.vals.length
      = (pre ++ DH ++ [UInt8.ofNat ch.length] ++ mkBitmap v.vals).length := by
    rw [hpre', hcur, hvl]; omega
  refine ⟨⟨DH, h1, hrd1⟩, ?_⟩
  unfold skipDelta
  simp only [h1, h2, h3, toNat_ofNat_lt _ hok.nch, hcur4, h4, hrd1]
  congr 2
  simp only [List.length_append, hDl, List.length_cons, List.length_nil, mkBitmap_length]
  omega

theorem encBlock_keepHist_prefix (P : Params) (sch : Schema) (h : Nat) :
    ∀ (rest : List (LVersion × List Nat)) (rel : Nat) (cov : Bool),
      ∃ tl, encBlock P sch rel rest = encBlock P sch rel (keepHist h cov rest) ++ tl := by
  intro rest
  induction rest with
  | nil => intro rel cov; exact ⟨[], by simp [keepHist, encBlock]⟩
  | cons x rest ih =>
    intro rel cov
    obtain ⟨v, c⟩ := x
    simp only [keepHist]
    split
    · obtain ⟨tl, htl⟩ := ih (rel + (padTo rel P.dhAlign ++ encDelta P sch v.creator v.ver v.vals c).length) cov
      exact ⟨tl, by simp only [encBlock, List.append_assoc]; rw [htl]⟩
    · split
      · exact ⟨_, by simp only [encBlock, List.nil_append]; rfl⟩
      · obtain ⟨tl, htl⟩ := ih (rel + (padTo rel P.dhAlign ++ encDelta P sch v.creator v.ver v.vals c).length) true
        exact ⟨tl, by simp only [encBlock, List.append_assoc]; rw [htl]⟩

theorem vacLoop_block (P : Params) (hP : P.Wf) (sch : Schema) (d : Bytes) (h : Nat) :
    ∀ (rest : List (LVersion × List Nat)) (rel : Nat) (pre : Bytes) (B : Nat) (newer : List Cell) (cov : Bool) (fuel : Nat),
      8 ∣ B → pre.length = B + rel → d = pre ++ encBlock P sch rel rest →
      HistOk P sch newer rest → rest.length ≤ fuel →
      vacLoop {} P sch d h fuel pre.length cov pre.length
        = .ok (pre.length + (encBlock P sch rel (keepHist h cov rest)).length) := by
  intro rest
  induction rest with
  | nil =>
    intro rel pre B newer cov fuel _ _ hd _ _
    simp only [keepHist, encBlock, List.length_nil, Nat.add_zero]
    cases fuel with
    | zero => rfl
    | succ f =>
      have hge := alignUp_ge (c := pre.length) (a := 8) (Or.inr (Or.inr (Or.inr rfl)))
      have : moreDeltas {} P d pre.length = false := by
        simp only [moreDeltas, Bool.false_eq_true, if_false, decide_eq_false_iff_not, hP.dha, hP.dh]
        rw [hd]; simp only [encBlock, List.append_nil]; omega
      simp only [vacLoop, this]
      rfl
  | cons x rest ih =>
    intro rel pre B newer cov fuel hB hpre hd hh hfuel
    obtain ⟨v, ch⟩ := x
    obtain ⟨hok, _, hrest⟩ := hh
    cases fuel with
    | zero => simp at hfuel
    | succ f =>
      have a8 : AlignOk 8 := Or.inr (Or.inr (Or.inr rfl))
      have hpl : (pre ++ padTo rel P.dhAlign).length = B + alignUp rel 8 := by
        have := alignUp_ge (c := rel) a8
        simp only [List.length_append, padTo_length, hP.dha]; omega
      have hB' : 8 ∣ (pre ++ padTo rel P.dhAlign).length := by
        rw [hpl]; exact Nat.dvd_add hB (alignUp_dvd8 rel)
      have hcur : alignUp pre.length P.dhAlign = (pre ++ padTo rel P.dhAlign).length := by
        rw [hpl, hpre, hP.dha, alignUp_shift a8 hB]
      have hd1 : d = (pre ++ padTo rel P.dhAlign) ++ encDelta P sch v.creator v.ver v.vals ch
          ++ (encBlock P sch (rel + (padTo rel P.dhAlign ++ encDelta P sch v.creator v.ver v.vals ch).length) rest) := by
        rw [hd]; simp only [encBlock, List.append_assoc]
      obtain ⟨⟨DH, hs, hx⟩, hsk⟩ := skipDelta_enc P hP sch d v ch hok (pre ++ padTo rel P.dhAlign) _ pre.length hB' hcur hd1
      have hmore : moreDeltas {} P d pre.length = true := by
        have h17 := encDelta_length_ge P hP sch v.creator v.ver v.vals ch
        simp only [moreDeltas, Bool.false_eq_true, if_false, decide_eq_true_eq, hcur, hP.dh]
        rw [hd1]; simp only [List.length_append]; omega
      have hpre2 : (pre ++ padTo rel P.dhAlign ++ encDelta P sch v.creator v.ver v.vals ch).length
          = B + (rel + (padTo rel P.dhAlign ++ encDelta P sch v.creator v.ver v.vals ch).length) := by
        simp only [List.length_append] at hpl ⊢; omega
      have hd2 : d = (pre ++ padTo rel P.dhAlign ++ encDelta P sch v.creator v.ver v.vals ch)
          ++ encBlock P sch (rel + (padTo rel P.dhAlign ++ encDelta P sch v.creator v.ver v.vals ch).length) rest := by
        rw [hd1]
      have hlen2 : (pre ++ padTo rel P.dhAlign).length + (encDelta P sch v.creator v.ver v.vals ch).length
          = (pre ++ padTo rel P.dhAlign ++ encDelta P sch v.creator v.ver v.vals ch).length := by
        simp only [List.length_append]
      simp only [vacLoop, hmore, if_true, hs, hx, Bool.not_false, Bool.true_and, keepHist]
      by_cases h1 : h ≤ v.creator
      · have hc : (decide (h ≤ v.creator) || !cov) = true := by simp [h1]
        have hcov : (cov || decide (v.creator < h)) = cov := by
          have : ¬ v.creator < h := by omega
          simp [this]
        rw [if_pos hc, if_pos h1, hsk]
        simp only [hcov, hlen2]
        rw [ih _ _ B v.vals cov f hB hpre2 hd2 hrest (by simpa using hfuel)]
        simp only [encBlock, List.length_append]; congr 1; omega
      · rw [if_neg h1]
        cases cov with
        | true =>
          have hc : (decide (h ≤ v.creator) || !true) = false := by simp [h1]
          rw [hc]; simp [encBlock]
        | false =>
          have hc : (decide (h ≤ v.creator) || !false) = true := by simp
          have hcov : (false || decide (v.creator < h)) = true := by
            have : v.creator < h := by omega
            simp [this]
          rw [if_pos hc, hsk]
          simp only [hcov, hlen2, Bool.false_eq_true, if_false]
          rw [ih _ _ B v.vals true f hB hpre2 hd2 hrest (by simpa using hfuel)]
          simp only [encBlock, List.length_append]; congr 1; omega

theorem vacuum_encode (P : Params) (hP : P.Wf) (sch : Schema) (L : LRow) (hw : WfRow P sch L) (h : Nat) :
    vacuumWith {} P sch (encode P sch L) h
      = .ok ((encode P sch L).length - (encode P sch (L.vacuum h)).length, encode P sch (L.vacuum h)) := by
  have a8 : AlignOk 8 := Or.inr (Or.inr (Or.inr rfl))
  obtain ⟨lay, hpl, hxmin, _, _, hend, _⟩ := parseLast_main P hP sch L.cur.creator L.deleter L.cur.ver L.keys L.cur.vals
    ((if L.hist.isEmpty && !L.trail then [] else padTo (encMain P sch L.cur.creator L.deleter L.cur.ver L.keys L.cur.vals).length P.dhAlign)
      ++ encBlock P sch 0 L.hist) hw.creator hw.deleter hw.ver hw.keys hw.cur
  have hdE : encMain P sch L.cur.creator L.deleter L.cur.ver L.keys L.cur.vals
      ++ ((if L.hist.isEmpty && !L.trail then [] else padTo (encMain P sch L.cur.creator L.deleter L.cur.ver L.keys L.cur.vals).length P.dhAlign)
      ++ encBlock P sch 0 L.hist) = encode P sch L := by
    rw [encode_eq]; simp only [List.append_assoc]
  rw [hdE] at hpl
  unfold vacuumWith
  simp only [hpl, hend, hxmin]
  generalize hM : encMain P sch L.cur.creator L.deleter L.cur.ver L.keys L.cur.vals = M at hdE ⊢
  cases hh : L.hist with
  | nil =>
    have hv : L.vacuum h = L := by simp [LRow.vacuum, hh]
    have hle : (encode P sch L).length ≤ alignUp M.length P.dhAlign := by
      rw [encode_eq, hM, hh, hP.dha]
      have := alignUp_ge (c := M.length) a8
      simp only [List.isEmpty_nil, Bool.true_and, encBlock, List.append_nil, List.length_append]
      split <;> simp <;> omega
    rw [if_pos hle, hv]; simp
  | cons x rest =>
    have hE : (L.hist.isEmpty && !L.trail) = false := by simp [hh]
    have hd2 : encode P sch L = (M ++ padTo M.length P.dhAlign) ++ encBlock P sch 0 L.hist := by
      rw [encode_eq, hM, hE]; simp
    have hpre : (M ++ padTo M.length P.dhAlign).length = alignUp M.length 8 + 0 := by
      rw [hP.dha, length_append_padTo M a8]; rfl
    have hgt : ¬ (encode P sch L).length ≤ alignUp M.length P.dhAlign := by
      have h1 := encBlock_length_ge P hP sch L.hist 0
      have h2 : L.hist.length = rest.length + 1 := by rw [hh]; rfl
      rw [hd2, List.length_append, hpre, hP.dha]
      omega
    rw [if_neg hgt]
    have hfuel : L.hist.length ≤ (encode P sch L).length := by
      have := encBlock_length_ge P hP sch L.hist 0
      rw [hd2]; simp only [List.length_append]; omega
    have hloop := vacLoop_block P hP sch (encode P sch L) h L.hist 0 (M ++ padTo M.length P.dhAlign) (alignUp M.length 8)
      L.cur.vals (decide (L.cur.creator < h)) (encode P sch L).length (alignUp_dvd8 _) hpre hd2 hw.hist hfuel
    rw [hpre, Nat.add_zero, ← hP.dha] at hloop
    rw [hloop]
    -- the kept prefix is the encoding of the vacuumed row
    have hvac : encode P sch (L.vacuum h) = (M ++ padTo M.length P.dhAlign)
        ++ encBlock P sch 0 (keepHist h (decide (L.cur.creator < h)) L.hist) := by
      have : L.vacuum h = { L with hist := keepHist h (decide (L.cur.creator < h)) L.hist, trail := true } := by
        simp [LRow.vacuum, hh]
      rw [this, encode_eq]
      simp only [Bool.not_true, Bool.and_false, Bool.false_eq_true, if_false, hM]
    obtain ⟨tl, htl⟩ := encBlock_keepHist_prefix P sch h L.hist 0 (decide (L.cur.creator < h))
    have hlenv : (encode P sch (L.vacuum h)).length
        = alignUp M.length P.dhAlign + (encBlock P sch 0 (keepHist h (decide (L.cur.creator < h)) L.hist)).length := by
      rw [hvac, List.length_append, hpre, hP.dha, Nat.add_zero]
    simp only [Except.ok.injEq, Prod.mk.injEq]
    refine ⟨by rw [hlenv], ?_⟩
    rw [← hlenv, hvac]
    have : encode P sch L = ((M ++ padTo M.length P.dhAlign)
        ++ encBlock P sch 0 (keepHist h (decide (L.cur.creator < h)) L.hist)) ++ tl := by
      rw [hd2, htl]; simp only [List.append_assoc]
    rw [this, List.take_left]

theorem keepHist_histOk (P : Params) (sch : Schema) (h : Nat) :
    ∀ (rest : List (LVersion × List Nat)) (newer : List Cell) (cov : Bool),
      HistOk P sch newer rest → HistOk P sch newer (keepHist h cov rest) := by
  intro rest
  induction rest with
  | nil => intro _ _ hh; simpa [keepHist] using hh
  | cons x rest ih =>
    intro newer cov hh
    obtain ⟨v, c⟩ := x
    obtain ⟨h1, h2, h3⟩ := hh
    simp only [keepHist]
    split
    · exact ⟨h1, h2, ih v.vals cov h3⟩
    · split
      · trivial
      · exact ⟨h1, h2, ih v.vals true h3⟩

theorem vacuum_wf (P : Params) (sch : Schema) (L : LRow) (hw : WfRow P sch L) (h : Nat) : WfRow P sch (L.vacuum h) := by
  unfold LRow.vacuum
  split
  · exact hw
  · exact ⟨hw.keys, hw.cur, hw.creator, hw.ver, hw.deleter, keepHist_histOk P sch h _ _ _ hw.hist⟩

/-! ### the logical vacuum theorem -/

/-- the snapshot is at or above the horizon `h` of a row: every writer of the row below `h` is the reader itself or
    committed before the snapshot -/
def AtOrAbove (s : Snapshot) (h : Nat) (L : LRow) : Prop :=
  ∀ v, v ∈ L.cur :: L.hist.map (·.1) → v.creator < h → creatorVisible {} s v.creator = true

theorem firstVisible_keepHist (s : Snapshot) (h : Nat) :
    ∀ (rest : List (LVersion × List Nat)),
      (∀ v, v ∈ rest.map (·.1) → v.creator < h → creatorVisible {} s v.creator = true) →
      firstVisible {} s ((keepHist h false rest).map (·.1)) = firstVisible {} s (rest.map (·.1)) := by
  intro rest
  induction rest with
  | nil => intro _; rfl
  | cons x rest ih =>
    intro hv
    obtain ⟨v, c⟩ := x
    have hv' : ∀ w, w ∈ rest.map (·.1) → w.creator < h → creatorVisible {} s w.creator = true :=
      fun w hw => hv w (by simp only [List.map_cons, List.mem_cons]; exact Or.inr hw)
    simp only [keepHist]
    by_cases h1 : h ≤ v.creator
    · rw [if_pos h1]
      simp only [List.map_cons, firstVisible, ih hv']
    · rw [if_neg h1]
      have hvis := hv v (by simp) (by omega)
      simp [firstVisible, hvis]

theorem specVisible_vacuum (s : Snapshot) (h : Nat) (L : LRow) (ha : AtOrAbove s h L) :
    specVisible {} s (L.vacuum h) = specVisible {} s L := by
  unfold LRow.vacuum
  split
  · rfl
  · unfold specVisible
    simp only [firstVisible]
    by_cases hc : creatorVisible {} s L.cur.creator = true
    · simp [hc]
    · have hge : ¬ L.cur.creator < h := by
        intro hlt; exact hc (ha L.cur (by simp) hlt)
      have hd : decide (L.cur.creator < h) = false := by simp [hge]
      rw [hd, firstVisible_keepHist s h L.hist (fun v hv => ha v (by simp only [List.mem_cons]; exact Or.inr hv))]

/-! ### size bookkeeping -/

theorem emitVal_length (P : Params) (hP : P.Wf) (k : Kind) (c : Nat) (p : Bytes) :
    c + (emitVal P k c p).length = alignUp c (P.align k) + (encPayload k p).length := by
  have := alignUp_ge (c := c) (hP.align_ok k)
  simp only [emitVal, List.length_append, padTo_length]; omega

theorem sizeCells_eq (P : Params) (hP : P.Wf) : ∀ (ks : List Kind) (cs : List Cell) (c : Nat),
    sizeCells P c ks cs = c + (emitCells P c ks cs).length := by
  intro ks
  induction ks with
  | nil => intro cs c; simp [sizeCells, emitCells]
  | cons k ks ih =>
    intro cs c
    cases cs with
    | nil => simp [sizeCells, emitCells]
    | cons x cs =>
      cases x with
      | none => simp only [sizeCells, emitCells, ih]
      | some p =>
        simp only [sizeCells, emitCells, List.length_append]
        rw [← emitVal_length P hP k c p, ih]
        omega

theorem emitChanges_shift (P : Params) (hP : P.Wf) (kinds : List Kind) (old : List Cell) (B : Nat) (hB : 8 ∣ B) :
    ∀ (is : List Nat) (rel : Nat), emitChanges P kinds old (B + rel) is = emitChanges P kinds old rel is := by
  intro is
  induction is with
  | nil => intro rel; rfl
  | cons i is ih =>
    intro rel
    simp only [emitChanges]
    split
    · rename_i p k _ _
      rw [Nat.add_assoc, emitVal_shift P hP k B (rel + 1) hB]
      have : B + (rel + 1) + (emitVal P k (rel + 1) p).length = B + (rel + 1 + (emitVal P k (rel + 1) p).length) := by omega
      rw [this, ih]
    · rw [Nat.add_assoc, ih]

theorem sizeChanges_eq (P : Params) (hP : P.Wf) (kinds : List Kind) (old : List Cell) : ∀ (is : List Nat) (c : Nat),
    sizeChanges P kinds old c is = c + (emitChanges P kinds old c is).length := by
  intro is
  induction is with
  | nil => intro c; simp [sizeChanges, emitChanges]
  | cons i is ih =>
    intro c
    simp only [sizeChanges, emitChanges]
    split
    · rename_i p k _ _
      simp only [List.length_cons, List.length_append]
      rw [← emitVal_length P hP k (c + 1) p, ih]
      omega
    · simp only [List.length_cons, ih]; omega

theorem encMain_length (P : Params) (hP : P.Wf) (sch : Schema) (xmin : Nat) (xmax : Option Nat) (ver : Nat)
    (keys : List Bytes) (vals : List Cell) :
    (encMain P sch xmin xmax ver keys vals).length
      = sizeCells P (sizeCells P (P.hdrSize + bitmapSize vals.length) sch.keys (keys.map some)) sch.vals vals := by
  simp only [encMain, List.length_append, encHeader_length P hP, mkBitmap_length, sizeCells_eq P hP, hP.hdr]

/-- `compute_initial_size` is the number of bytes `build` writes -/
theorem computeInitialSize_eq (P : Params) (hP : P.Wf) (sch : Schema) (row : Row) (x : Nat)
    (hl : row.vals.length = sch.vals.length) :
    computeInitialSize P sch row = (encMain P sch x none 0 row.keys row.vals).length := by
  rw [encMain_length P hP, computeInitialSize, hl]

/-- `calculate_new_tuple_size` is the number of bytes `add_version_with` writes -/
theorem calcNewTupleSize_eq (P : Params) (hP : P.Wf) (sch : Schema) (L : LRow) (m : Mods) (t : Nat)
    (hme : m.isEmpty = false) :
    calcNewTupleSize {} P sch L.keys (applyMods m 0 L.cur.vals) L.cur.vals (changedIdx m 0 L.cur.vals)
        (encBlock P sch 0 L.hist).length
      = (encode P sch (L.update t m)).length := by
  have a8 : AlignOk 8 := Or.inr (Or.inr (Or.inr rfl))
  have hupd : L.update t m = { keys := L.keys, cur := { creator := t, ver := (L.cur.ver + 1) % 256, vals := applyMods m 0 L.cur.vals }, hist := (L.cur, changedIdx m 0 L.cur.vals) :: L.hist, deleter := none, trail := L.trail } := by
    simp only [LRow.update, hme, Bool.false_eq_true, if_false]
  rw [hupd, encode_eq]
  simp only [List.isEmpty_cons, Bool.false_and, Bool.false_eq_true, if_false]
  have hml := encMain_length P hP sch t none ((L.cur.ver + 1) % 256) L.keys (applyMods m 0 L.cur.vals)
  generalize encMain P sch t none ((L.cur.ver + 1) % 256) L.keys (applyMods m 0 L.cur.vals) = M' at hml ⊢
  unfold calcNewTupleSize
  simp only [← hml, Bool.false_eq_true, if_false]
  have hp0 : padTo 0 P.dhAlign = [] := by simp [padTo, alignUp, hP.dha, zeros]
  have hMl : (M' ++ padTo M'.length P.dhAlign).length = alignUp M'.length P.dhAlign := by
    rw [hP.dha]; exact length_append_padTo M' a8
  -- the new delta
  have hdelta : sizeChanges P sch.vals L.cur.vals
        (alignUp M'.length P.dhAlign + P.dhSize + 1 + bitmapSize (applyMods m 0 L.cur.vals).length) (changedIdx m 0 L.cur.vals)
      = alignUp M'.length P.dhAlign
        + (encDelta P sch L.cur.creator L.cur.ver L.cur.vals (changedIdx m 0 L.cur.vals)).length := by
    rw [sizeChanges_eq P hP, applyMods_length]
    have : alignUp M'.length P.dhAlign + P.dhSize + 1 + bitmapSize L.cur.vals.length
        = alignUp M'.length P.dhAlign + (P.dhSize + 1 + bitmapSize L.cur.vals.length) := by omega
    rw [this, emitChanges_shift P hP _ _ _ (by rw [hP.dha]; exact alignUp_dvd8 _)]
    simp only [encDelta, List.length_append, encDeltaHeader_length P hP, List.length_cons, List.length_nil,
      mkBitmap_length, hP.dh]
    omega
  rw [hdelta]
  generalize hDl : encDelta P sch L.cur.creator L.cur.ver L.cur.vals (changedIdx m 0 L.cur.vals) = Dl
  cases hh : L.hist with
  | nil =>
    have := alignUp_ge (c := M'.length) (a := 8) a8
    have h0 : alignUp 0 8 = 0 := by simp [alignUp]
    simp only [encBlock, hDl, List.length_nil, List.length_append, padTo_length, List.append_nil,
      if_true, hP.dha, h0]
    omega
  | cons x rest =>
    have hne : (encBlock P sch 0 (x :: rest)).length ≠ 0 := by
      have := encBlock_length_ge P hP sch (x :: rest) 0
      simp only [List.length_cons] at this; omega
    rw [if_neg hne]
    obtain ⟨v, c⟩ := x
    have hB : 8 ∣ alignUp M'.length P.dhAlign := by rw [hP.dha]; exact alignUp_dvd8 _
    have hpad : (padTo Dl.length P.dhAlign).length = alignUp (alignUp M'.length P.dhAlign + Dl.length) P.dhAlign
        - (alignUp M'.length P.dhAlign + Dl.length) := by
      rw [padTo_length, hP.dha, alignUp_shift a8 (by rw [hP.dha] at hB; exact hB)]; omega
    have hge := alignUp_ge (c := alignUp M'.length P.dhAlign + Dl.length) (a := 8) a8
    have hal : Dl.length + ((padTo Dl.length P.dhAlign).length + (encDelta P sch v.creator v.ver v.vals c).length)
        = alignUp Dl.length 8 + (encDelta P sch v.creator v.ver v.vals c).length := by
      have := alignUp_ge (c := Dl.length) a8
      rw [padTo_length, hP.dha]; omega
    simp only [encBlock, hDl, hp0, List.nil_append, Nat.zero_add, List.length_append, hMl]
    rw [hal, encBlock_shift P hP sch rest _ _ (alignUp_dvd8 _), hpad]
    rw [hP.dha] at hge ⊢
    omega

/-! ### operation sequences -/

/-- an operation with values that fit the schema and ids that fit the header fields -/
def OpOk (P : Params) (sch : Schema) : LOp → Prop
  | .update t m => ModsFit P sch m ∧ t < 2 ^ 64
  | .delete t => t < 2 ^ 63
  | .vacuum _ => True

theorem run_refines (P : Params) (hP : P.Wf) (sch : Schema) (hn : sch.vals.length < 256) :
    ∀ (ops : List LOp) (L : LRow), WfRow P sch L → (∀ op, op ∈ ops → OpOk P sch op) →
      runB {} P sch ops (encode P sch L) = .ok (encode P sch (runL ops L)) ∧ WfRow P sch (runL ops L) := by
  intro ops
  induction ops with
  | nil => intro L hw _; exact ⟨rfl, hw⟩
  | cons op ops ih =>
    intro L hw hops
    have hop := hops op (by simp)
    have hrest : ∀ o, o ∈ ops → OpOk P sch o := fun o ho => hops o (by simp [ho])
    cases op with
    | update t m =>
      obtain ⟨hm, ht⟩ := hop
      have h1 := addVersion_encode P hP sch L hw m t hm
      have h2 := update_wf P sch L hw m t hm ht hn
      simp only [runB, LOp.applyB, h1, runL, LOp.applyL]
      exact ih _ h2 hrest
    | delete t =>
      have h1 := delete_encode P hP sch L hw t
      have h2 := delete_wf P sch L hw t hop
      simp only [runB, LOp.applyB, h1, runL, LOp.applyL]
      exact ih _ h2 hrest
    | vacuum h =>
      have h1 := vacuum_encode P hP sch L hw h
      have h2 := vacuum_wf P sch L hw h
      simp only [runB, LOp.applyB, h1, runL, LOp.applyL]
      exact ih _ h2 hrest

end AxVerif.Tuple
