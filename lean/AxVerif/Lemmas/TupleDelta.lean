/-
  Helper lemmas for the tuple model, part 3: one delta (`applyDelta` on `encDelta`), the delta block, the walk.
-/
import AxVerif.Lemmas.TupleMain
namespace AxVerif.Tuple
open AxVerif

theorem emitVal_shift (P : Params) (hP : P.Wf) (k : Kind) (B r : Nat) (hB : 8 ∣ B) (p : Bytes) :
    emitVal P k (B + r) p = emitVal P k r p := by
  simp only [emitVal, padTo_shift (hP.align_ok k) hB]

theorem CellsFit.kind_some {P : Params} {ks : List Kind} {cs : List Cell} (h : CellsFit P ks cs) (i : Nat)
    (hi : i < cs.length) : ∃ k, ks[i]? = some k := by
  have := h.length
  exact ⟨ks[i]'(by omega), by simp⟩

theorem toNat_ofNat_lt (i : Nat) (h : i < 256) : (UInt8.ofNat i).toNat = i := by
  simp only [UInt8.toNat_ofNat']; omega

/-- the change entries of a delta, read back: the offsets of the listed columns are redirected to the stored old
    values, all other offsets stay -/
theorem applyChanges_emit (P : Params) (hP : P.Wf) (sch : Schema) (d : Bytes) (old : List Cell) (B : Nat) (hB : 8 ∣ B)
    (hfit : CellsFit P sch.vals old) :
    ∀ (is : List Nat) (rel : Nat) (pre post : Bytes) (offs : List Nat),
      pre.length = B + rel →
      d = pre ++ emitChanges P sch.vals old rel is ++ post →
      (∀ i, i ∈ is → i < old.length ∧ i < 256) →
      offs.length = sch.vals.length →
      ∃ offs', applyChanges P sch d (mkBitmap old) is.length pre.length offs
            = .ok (offs', pre.length + (emitChanges P sch.vals old rel is).length)
        ∧ offs'.length = offs.length
        ∧ (∀ j, j ∉ is → offs'[j]? = offs[j]?)
        ∧ (∀ j k p, j ∈ is → sch.vals[j]? = some k → old[j]? = some (some p) →
            ∃ o e, offs'[j]? = some o ∧ deser P k d o = .ok (p, e)) := by
  have hlen := hfit.length
  intro is
  induction is with
  | nil =>
    intro rel pre post offs _ _ _ _
    exact ⟨offs, by simp [applyChanges, emitChanges], rfl, fun _ _ => rfl, by intro j k p hj; simp at hj⟩
  | cons i is ih =>
    intro rel pre post offs hpre hd hidx hoffs
    obtain ⟨hi, hi256⟩ := hidx i (by simp)
    have hidx' : ∀ i', i' ∈ is → i' < old.length ∧ i' < 256 := fun i' h => hidx i' (by simp [h])
    obtain ⟨k, hk⟩ := hfit.kind_some i hi
    have hbyte : getByte d pre.length = .ok (UInt8.ofNat i) := by
      rw [hd]
      cases hc : old[i]? with
      | none => simp at hc; omega
      | some c =>
        cases c <;> simp only [emitChanges, hc, hk, List.cons_append, List.append_assoc] <;> exact getByte_append _ _ _
    cases hc : old[i]? with
    | none => simp at hc; omega
    | some c =>
      cases c with
      | none =>
        -- NULL in the old version: only the index byte was written
        have hem : emitChanges P sch.vals old rel (i :: is) = UInt8.ofNat i :: emitChanges P sch.vals old (rel + 1) is := by
          simp only [emitChanges, hc, hk]
        have hnull : checkNull (mkBitmap old) i = .ok true := by
          rw [checkNull_mkBitmap old i hi]; simp [isNullAt, hc]
        rw [hem] at hd ⊢
        have hd' : d = (pre ++ [UInt8.ofNat i]) ++ emitChanges P sch.vals old (rel + 1) is ++ post := by
          rw [hd]; simp only [List.append_assoc, List.cons_append, List.nil_append]
        obtain ⟨offs', h1, h2, h3, h4⟩ := ih (rel + 1) (pre ++ [UInt8.ofNat i]) post offs
          (by simp only [List.length_append, List.length_cons, List.length_nil]; omega) hd' hidx' hoffs
        refine ⟨offs', ?_, h2, ?_, ?_⟩
        · simp only [List.length_cons, applyChanges, hbyte, toNat_ofNat_lt i hi256, hnull]
          simp only [List.length_append, List.length_cons, List.length_nil] at h1
          rw [h1]; congr 2; omega
        · intro j hj
          exact h3 j (by intro h; exact hj (by simp [h]))
        · intro j k' p hj hk' hp
          rcases List.mem_cons.mp hj with rfl | hj'
          · rw [hc] at hp; cases hp
          · exact h4 j k' p hj' hk' hp
      | some p =>
        have hfk : FitsKind P k p := hfit.get i k p hk hc
        have hem : emitChanges P sch.vals old rel (i :: is) = UInt8.ofNat i :: emitVal P k (rel + 1) p
            ++ emitChanges P sch.vals old (rel + 1 + (emitVal P k (rel + 1) p).length) is := by
          simp only [emitChanges, hc, hk]
        have hnull : checkNull (mkBitmap old) i = .ok false := by
          rw [checkNull_mkBitmap old i hi]; simp [isNullAt, hc]
        rw [hem] at hd ⊢
        have hpl : (pre ++ [UInt8.ofNat i]).length = B + (rel + 1) := by
          simp only [List.length_append, List.length_cons, List.length_nil]; omega
        have hev : emitVal P k (rel + 1) p = emitVal P k (pre ++ [UInt8.ofNat i]).length p := by
          rw [hpl, emitVal_shift P hP k B (rel + 1) hB]
        have hde : deser P k d (pre.length + 1) = .ok (p, pre.length + 1 + (emitVal P k (rel + 1) p).length) := by
          have h := deser_emitVal P hP k p hfk (pre ++ [UInt8.ofNat i])
            (emitChanges P sch.vals old (rel + 1 + (emitVal P k (rel + 1) p).length) is ++ post)
          rw [← hev] at h
          have hd2 : d = pre ++ [UInt8.ofNat i] ++ emitVal P k (rel + 1) p
              ++ (emitChanges P sch.vals old (rel + 1 + (emitVal P k (rel + 1) p).length) is ++ post) := by
            rw [hd]; simp only [List.append_assoc, List.cons_append, List.nil_append]
          rw [hd2]
          simpa only [List.length_append, List.length_cons, List.length_nil] using h
        have hd' : d = (pre ++ [UInt8.ofNat i] ++ emitVal P k (rel + 1) p)
            ++ emitChanges P sch.vals old (rel + 1 + (emitVal P k (rel + 1) p).length) is ++ post := by
          rw [hd]; simp only [List.append_assoc, List.cons_append, List.nil_append]
        have hoffs1 : (offs.set i (pre.length + 1)).length = sch.vals.length := by simp [hoffs]
        obtain ⟨offs', h1, h2, h3, h4⟩ := ih (rel + 1 + (emitVal P k (rel + 1) p).length)
          (pre ++ [UInt8.ofNat i] ++ emitVal P k (rel + 1) p) post (offs.set i (pre.length + 1))
          (by simp only [List.length_append, List.length_cons, List.length_nil]; omega) hd' hidx' hoffs1
        refine ⟨offs', ?_, by rw [h2]; simp, ?_, ?_⟩
        · simp only [List.length_cons, applyChanges, hbyte, toNat_ofNat_lt i hi256, hnull, hk, hde]
          simp only [List.length_append, List.length_cons, List.length_nil] at h1
          rw [h1]; congr 2
          simp only [List.length_append, List.length_cons]; omega
        · intro j hj
          have hji : j ≠ i := by intro h; exact hj (by simp [h])
          rw [h3 j (by intro h; exact hj (by simp [h]))]
          exact List.getElem?_set_ne (by omega)
        · intro j k' p' hj hk' hp
          by_cases hjs : j ∈ is
          · exact h4 j k' p' hjs hk' hp
          · rcases List.mem_cons.mp hj with rfl | hj'
            · rw [hk] at hk'; rw [hc] at hp
              cases hk'; cases hp
              refine ⟨pre.length + 1, _, ?_, hde⟩
              rw [h3 j hjs]
              have : j < offs.length := by omega
              simp [this]
            · exact absurd hj' hjs

/-! ### one delta -/

/-- side conditions of one history entry: the older version fits the schema, the changed columns exist and their
    number and indices fit a byte, the creator fits a `u64` -/
structure DeltaOk (P : Params) (sch : Schema) (v : LVersion) (ch : List Nat) : Prop where
  fit : CellsFit P sch.vals v.vals
  idx : ∀ i, i ∈ ch → i < v.vals.length ∧ i < 256
  nch : ch.length < 256
  creator : v.creator < 2 ^ 64
  ver : v.ver < 256

theorem encDelta_length_ge (P : Params) (hP : P.Wf) (sch : Schema) (xmin ver : Nat) (old : List Cell) (ch : List Nat) :
    17 ≤ (encDelta P sch xmin ver old ch).length := by
  simp only [encDelta, List.length_append, encDeltaHeader_length P hP, List.length_cons, List.length_nil]
  omega

theorem applyDelta_enc (P : Params) (hP : P.Wf) (sch : Schema) (d : Bytes) (v : LVersion) (ch : List Nat)
    (hok : DeltaOk P sch v ch) (pre post : Bytes) (cursor : Nat) (lay : Layout) (keys : List Bytes) (newer : List Cell)
    (hB : 8 ∣ pre.length) (hcur : alignUp cursor P.dhAlign = pre.length)
    (hd : d = pre ++ encDelta P sch v.creator v.ver v.vals ch ++ post)
    (hl : LayoutOk P sch d lay keys newer)
    (hsame : ∀ j, j ∉ ch → v.vals[j]? = newer[j]?) :
    ∃ lay', applyDelta P sch d lay cursor = .ok (lay', pre.length + (encDelta P sch v.creator v.ver v.vals ch).length)
      ∧ lay'.vxmin = v.creator ∧ lay'.vxmax = some lay.vxmin ∧ lay'.version = v.ver ∧ lay'.dataEnd = lay.dataEnd
      ∧ LayoutOk P sch d lay' keys v.vals := by
  have hvl : v.vals.length = sch.vals.length := hok.fit.length
  have hbm : bitmapSize sch.vals.length = (mkBitmap v.vals).length := by rw [mkBitmap_length, hvl]
  -- name the pieces of the delta
  have hDl : (encDeltaHeader P v.creator v.ver).length = 16 := encDeltaHeader_length P hP _ _
  have hrd1 : rdLE ((encDeltaHeader P v.creator v.ver).take 8) = v.creator := by
    simp only [encDeltaHeader, List.append_assoc]
    rw [List.take_left' (le64_length _), rdLE_le64 _ hok.creator]
  have hrd2 : rdLE (((encDeltaHeader P v.creator v.ver).drop 8).take 1) = v.ver := by
    simp only [encDeltaHeader, List.append_assoc]
    rw [List.drop_left' (le64_length _)]
    simp only [List.cons_append, List.nil_append, List.take_succ_cons, List.take_zero]
    exact rdLE_byte _ hok.ver
  have hdE : encDelta P sch v.creator v.ver v.vals ch = encDeltaHeader P v.creator v.ver ++ [UInt8.ofNat ch.length]
      ++ mkBitmap v.vals ++ emitChanges P sch.vals v.vals (P.dhSize + 1 + bitmapSize v.vals.length) ch := rfl
  rw [hdE] at hd ⊢
  generalize encDeltaHeader P v.creator v.ver = DH at hDl hrd1 hrd2 hd ⊢
  generalize hCH : emitChanges P sch.vals v.vals (P.dhSize + 1 + bitmapSize v.vals.length) ch = CH at hd ⊢
  -- 1. the header
  have h1 : slice d (alignUp cursor P.dhAlign) P.dhSize = .ok DH := by
    rw [hd, hcur]
    have : pre ++ (DH ++ [UInt8.ofNat ch.length] ++ mkBitmap v.vals ++ CH) ++ post
        = pre ++ DH ++ ([UInt8.ofNat ch.length] ++ mkBitmap v.vals ++ CH ++ post) := by simp only [List.append_assoc]
    rw [this]
    exact slice_append' _ _ _ _ _ rfl (by rw [hDl, hP.dh])
  -- 2. the number of changes
  have h2 : getByte d (alignUp cursor P.dhAlign + P.dhSize) = .ok (UInt8.ofNat ch.length) := by
    rw [hd, hcur]
    have : pre ++ (DH ++ [UInt8.ofNat ch.length] ++ mkBitmap v.vals ++ CH) ++ post
        = (pre ++ DH) ++ UInt8.ofNat ch.length :: (mkBitmap v.vals ++ CH ++ post) := by simp only [List.append_assoc, List.cons_append, List.nil_append]
    rw [this]
    have hl : pre.length + P.dhSize = (pre ++ DH).length := by rw [List.length_append, hDl, hP.dh]
    rw [hl]; exact getByte_append _ _ _
  -- 3. the bitmap
  have h3 : slice d (alignUp cursor P.dhAlign + P.dhSize + 1) (bitmapSize sch.vals.length) = .ok (mkBitmap v.vals) := by
    rw [hd, hcur]
    have : pre ++ (DH ++ [UInt8.ofNat ch.length] ++ mkBitmap v.vals ++ CH) ++ post
        = (pre ++ DH ++ [UInt8.ofNat ch.length]) ++ mkBitmap v.vals ++ (CH ++ post) := by simp only [List.append_assoc]
    rw [this]
    exact slice_append' _ _ _ _ _ (by simp only [List.length_append, hDl, hP.dh, List.length_cons, List.length_nil]) hbm
  -- 4. the changes
  have hpre' : (pre ++ DH ++ [UInt8.ofNat ch.length] ++ mkBitmap v.vals).length
      = pre.length + (P.dhSize + 1 + bitmapSize v.vals.length) := by
    simp only [List.length_append, hDl, hP.dh, List.length_cons, List.length_nil, mkBitmap_length]; omega
  have hd4 : d = (pre ++ DH ++ [UInt8.ofNat ch.length] ++ mkBitmap v.vals)
      ++ emitChanges P sch.vals v.vals (P.dhSize + 1 + bitmapSize v.vals.length) ch ++ post := by
    rw [hd, hCH]; simp only [List.append_assoc]
  obtain ⟨offs', h4, h4l, h4same, h4rd⟩ := applyChanges_emit P hP sch d v.vals pre.length hB hok.fit ch
    (P.dhSize + 1 + bitmapSize v.vals.length) (pre ++ DH ++ [UInt8.ofNat ch.length] ++ mkBitmap v.vals) post lay.valOffs
    hpre' hd4 hok.idx hl.valsAt.len_o
  rw [hCH] at h4
  have hcur4 : alignUp cursor P.dhAlign + P.dhSize + 1 + bitmapSize sch.vals.length
      = (pre ++ DH ++ [UInt8.ofNat ch.length] ++ mkBitmap v.vals).length := by
    rw [hpre', hcur, hvl]; omega
  refine ⟨{ lay with vxmax := some lay.vxmin, version := v.ver, vxmin := v.creator,
                     nullStart := alignUp cursor P.dhAlign + P.dhSize + 1, valOffs := offs' }, ?_, rfl, rfl, rfl, rfl, ?_⟩
  · unfold applyDelta
    simp only [h1, h2, h3, toNat_ofNat_lt _ hok.nch, hcur4, h4, hrd1, hrd2]
    congr 2
    simp only [List.length_append, hDl, List.length_cons, List.length_nil, mkBitmap_length]
    omega
  · refine ⟨hl.keysAt, ⟨by rw [h4l]; exact hl.valsAt.len_o, hvl, ?_⟩, h3⟩
    intro j k o p hk ho hp
    by_cases hj : j ∈ ch
    · obtain ⟨o', e, ho', hde⟩ := h4rd j k p hj hk hp
      simp only at ho
      rw [ho] at ho'; cases ho'
      exact ⟨e, hde⟩
    · simp only at ho
      rw [h4same j hj] at ho
      rw [hsame j hj] at hp
      exact hl.valsAt.rd j k o p hk ho hp

/-! ### the delta block and the walk -/

/-- consistency of a history below a version with values `newer`: every entry is well formed and agrees with the
    next newer version on the columns its update did not touch -/
def HistOk (P : Params) (sch : Schema) : List Cell → List (LVersion × List Nat) → Prop
  | _, [] => True
  | newer, (v, ch) :: rest =>
    DeltaOk P sch v ch ∧ (∀ j, j < sch.vals.length → j ∉ ch → v.vals[j]? = newer[j]?) ∧ HistOk P sch v.vals rest

theorem encBlock_length_ge (P : Params) (hP : P.Wf) (sch : Schema) :
    ∀ (rest : List (LVersion × List Nat)) (rel : Nat), rest.length ≤ (encBlock P sch rel rest).length := by
  intro rest
  induction rest with
  | nil => intro rel; simp
  | cons x rest ih =>
    intro rel
    obtain ⟨v, c⟩ := x
    simp only [encBlock, List.length_append, List.length_cons]
    have := encDelta_length_ge P hP sch v.creator v.ver v.vals c
    have := ih (rel + ((padTo rel P.dhAlign).length + (encDelta P sch v.creator v.ver v.vals c).length))
    omega

theorem walk_none_of_short (P : Params) (sch : Schema) (s : Snapshot) (d : Bytes) (fuel cursor : Nat) (lay : Layout)
    (h : d.length < alignUp cursor P.dhAlign + P.dhSize) : walk {} P sch s d fuel cursor lay = .ok none := by
  cases fuel with
  | zero => rfl
  | succ f =>
    have : moreDeltas {} P d cursor = false := by simp [moreDeltas]; omega
    simp only [walk, this]
    rfl

theorem walk_block (P : Params) (hP : P.Wf) (sch : Schema) (s : Snapshot) (keys : List Bytes) (d : Bytes) :
    ∀ (rest : List (LVersion × List Nat)) (rel : Nat) (pre post : Bytes) (B : Nat) (lay : Layout) (newer : List Cell)
      (fuel : Nat),
      8 ∣ B → pre.length = B + rel →
      d = pre ++ encBlock P sch rel rest ++ post → post.length < 16 →
      newer.length = sch.vals.length →
      HistOk P sch newer rest →
      LayoutOk P sch d lay keys newer →
      rest.length ≤ fuel →
      match firstVisible {} s (rest.map (·.1)) with
      | some v => ∃ lay', walk {} P sch s d fuel pre.length lay = .ok (some lay') ∧ LayoutOk P sch d lay' keys v.vals
      | none => walk {} P sch s d fuel pre.length lay = .ok none := by
  intro rest
  induction rest with
  | nil =>
    intro rel pre post B lay newer fuel _ _ hd hpost _ _ _ _
    simp only [List.map_nil, firstVisible]
    apply walk_none_of_short
    have hge := alignUp_ge (c := pre.length) (a := 8) (Or.inr (Or.inr (Or.inr rfl)))
    rw [hd, hP.dha, hP.dh]
    simp only [encBlock, List.append_nil, List.length_append]
    omega
  | cons x rest ih =>
    intro rel pre post B lay newer fuel hB hpre hd hpost hnl hh hl hfuel
    obtain ⟨v, ch⟩ := x
    obtain ⟨hok, hsame, hrest⟩ := hh
    cases fuel with
    | zero => simp at hfuel
    | succ f =>
      have a8 : AlignOk 8 := Or.inr (Or.inr (Or.inr rfl))
      -- the delta sits behind its alignment gap
      have hpl : (pre ++ padTo rel P.dhAlign).length = B + alignUp rel 8 := by
        have := alignUp_ge (c := rel) a8
        simp only [List.length_append, padTo_length, hP.dha]; omega
      have hB' : 8 ∣ (pre ++ padTo rel P.dhAlign).length := by
        rw [hpl]; exact Nat.dvd_add hB (alignUp_dvd8 rel)
      have hcur : alignUp pre.length P.dhAlign = (pre ++ padTo rel P.dhAlign).length := by
        rw [hpl, hpre, hP.dha, alignUp_shift a8 hB]
      have hd1 : d = (pre ++ padTo rel P.dhAlign) ++ encDelta P sch v.creator v.ver v.vals ch
          ++ (encBlock P sch (rel + (padTo rel P.dhAlign ++ encDelta P sch v.creator v.ver v.vals ch).length) rest ++ post) := by
        rw [hd]; simp only [encBlock, List.append_assoc]
      have hsame' : ∀ j, j ∉ ch → v.vals[j]? = newer[j]? := by
        intro j hj
        by_cases hjl : j < sch.vals.length
        · exact hsame j hjl hj
        · have h1 : v.vals.length = sch.vals.length := hok.fit.length
          rw [List.getElem?_eq_none (by omega), List.getElem?_eq_none (by omega)]
      obtain ⟨lay', ha, hxmin, _, _, _, hl'⟩ := applyDelta_enc P hP sch d v ch hok (pre ++ padTo rel P.dhAlign) _ pre.length lay
        keys newer hB' hcur hd1 hl hsame'
      have hmore : moreDeltas {} P d pre.length = true := by
        have h17 := encDelta_length_ge P hP sch v.creator v.ver v.vals ch
        simp only [moreDeltas, Bool.false_eq_true, if_false, decide_eq_true_eq, hcur, hP.dh]
        rw [hd1]; simp only [List.length_append]; omega
      have hvis : (committedBefore {} s lay'.vxmin || (!({} : Defects).walkIgnoresOwnVersions && decide (lay'.vxmin = s.xid)))
          = creatorVisible {} s v.creator := by
        rw [hxmin]; simp only [creatorVisible, Bool.not_false, Bool.true_and]; exact Bool.or_comm _ _
      simp only [List.map_cons, firstVisible]
      by_cases hv : creatorVisible {} s v.creator = true
      · rw [if_pos hv]
        refine ⟨lay', ?_, hl'⟩
        simp only [walk, hmore, if_true, ha, hvis, hv]
      · rw [if_neg hv]
        have hw : walk {} P sch s d (f + 1) pre.length lay
            = walk {} P sch s d f ((pre ++ padTo rel P.dhAlign).length + (encDelta P sch v.creator v.ver v.vals ch).length) lay' := by
          simp only [walk, hmore, if_true, ha, hvis, hv]
          simp
        rw [hw]
        have hpre2 : (pre ++ padTo rel P.dhAlign ++ encDelta P sch v.creator v.ver v.vals ch).length
            = B + (rel + (padTo rel P.dhAlign ++ encDelta P sch v.creator v.ver v.vals ch).length) := by
          simp only [List.length_append] at hpl ⊢; omega
        have hd2 : d = (pre ++ padTo rel P.dhAlign ++ encDelta P sch v.creator v.ver v.vals ch)
            ++ encBlock P sch (rel + (padTo rel P.dhAlign ++ encDelta P sch v.creator v.ver v.vals ch).length) rest ++ post := by
          rw [hd1]; simp only [List.append_assoc]
        have := ih (rel + (padTo rel P.dhAlign ++ encDelta P sch v.creator v.ver v.vals ch).length)
          (pre ++ padTo rel P.dhAlign ++ encDelta P sch v.creator v.ver v.vals ch) post B lay' v.vals f hB hpre2 hd2 hpost
          hok.fit.length hrest hl' (by simpa using hfuel)
        simp only [List.length_append] at this ⊢
        exact this

end AxVerif.Tuple
