/- Helper lemmas for C10 (B+tree checker soundness, spec map, rebalancing helpers). Core Lean only. -/
import AxVerif.Model.BTree
import AxVerif.Model.Balance
namespace AxVerif.BTree

/-! ### ascending lists -/

theorem ascending_cons {a : Nat} {l : List Nat} (h : ascending (a :: l) = true) :
    (∀ x ∈ l, a < x) ∧ ascending l = true := by
  induction l generalizing a with
  | nil => simp [ascending]
  | cons b rest ih =>
    simp only [ascending, Bool.and_eq_true, decide_eq_true_eq] at h
    obtain ⟨hab, hrest⟩ := h
    have ⟨hb, _⟩ := ih hrest
    refine ⟨?_, hrest⟩
    intro x hx
    cases hx with
    | head => exact hab
    | tail _ hx => exact Nat.lt_trans hab (hb x hx)

theorem ascending_pairwise {l : List Nat} (h : ascending l = true) : l.Pairwise (· < ·) := by
  induction l with
  | nil => exact List.Pairwise.nil
  | cons a rest ih =>
    have ⟨h1, h2⟩ := ascending_cons h
    exact List.Pairwise.cons h1 (ih h2)

theorem pairwise_lt_nodup {l : List Nat} (h : l.Pairwise (· < ·)) : l.Nodup := by
  induction h with
  | nil => exact List.Pairwise.nil
  | cons hx _ ih =>
    refine List.Pairwise.cons ?_ ih
    intro y hy heq
    have := hx y hy
    omega

/-! ### association lookup -/

theorem keysOf_append (a b : List (Nat × Val)) : keysOf (a ++ b) = keysOf a ++ keysOf b := by
  simp [keysOf]

theorem mem_keysOf {l : List (Nat × Val)} {e : Nat × Val} (h : e ∈ l) : e.1 ∈ keysOf l := by
  simp only [keysOf, List.mem_map]
  exact ⟨e, h, rfl⟩

theorem alookup_none_of_not_mem {k : Nat} {l : List (Nat × Val)} (h : ∀ e ∈ l, e.1 ≠ k) : alookup k l = none := by
  induction l with
  | nil => rfl
  | cons e rest ih =>
    obtain ⟨k', v⟩ := e
    have h1 : k' ≠ k := h (k', v) (List.mem_cons_self ..)
    have h2 : ∀ e ∈ rest, e.1 ≠ k := fun e he => h e (List.mem_cons_of_mem _ he)
    simp only [alookup]
    rw [if_neg (fun hh => h1 hh.symm)]
    exact ih h2

theorem alookup_append_right {k : Nat} {a b : List (Nat × Val)} (h : ∀ e ∈ a, e.1 ≠ k) :
    alookup k (a ++ b) = alookup k b := by
  induction a with
  | nil => rfl
  | cons e rest ih =>
    obtain ⟨k', v⟩ := e
    have h1 : k' ≠ k := h (k', v) (List.mem_cons_self ..)
    have h2 : ∀ e ∈ rest, e.1 ≠ k := fun e he => h e (List.mem_cons_of_mem _ he)
    simp only [List.cons_append, alookup]
    rw [if_neg (fun hh => h1 hh.symm)]
    exact ih h2

theorem alookup_append_left {k : Nat} {a b : List (Nat × Val)} (h : ∀ e ∈ b, e.1 ≠ k) :
    alookup k (a ++ b) = alookup k a := by
  induction a with
  | nil => simpa [alookup] using alookup_none_of_not_mem h
  | cons e rest ih =>
    obtain ⟨k', v⟩ := e
    simp only [List.cons_append, alookup]
    split
    · rfl
    · exact ih

theorem alookup_mem {k : Nat} {v : Val} {l : List (Nat × Val)} (h : alookup k l = some v) : (k, v) ∈ l := by
  induction l with
  | nil => simp [alookup] at h
  | cons e rest ih =>
    obtain ⟨k', v'⟩ := e
    simp only [alookup] at h
    split at h
    · next heq =>
      cases h
      subst heq
      exact List.mem_cons_self ..
    · exact List.mem_cons_of_mem _ (ih h)

/-- in a list with distinct keys, membership determines the lookup -/
theorem alookup_of_mem {k : Nat} {v : Val} {l : List (Nat × Val)} (hs : (keysOf l).Pairwise (· < ·))
    (h : (k, v) ∈ l) : alookup k l = some v := by
  induction l with
  | nil => cases h
  | cons e rest ih =>
    obtain ⟨k', v'⟩ := e
    simp only [keysOf, List.map_cons, List.pairwise_cons] at hs
    obtain ⟨hlt, hrest⟩ := hs
    simp only [alookup]
    cases h with
    | head => simp
    | tail _ h =>
      have : k' < k := hlt k (mem_keysOf h)
      rw [if_neg (by omega)]
      exact ih hrest h

/-! ### binary search -/

theorem getElem?_keys_lt {l : List (Nat × Val)} (hs : (keysOf l).Pairwise (· < ·)) {i j : Nat} {a b : Nat × Val}
    (hi : l[i]? = some a) (hj : l[j]? = some b) (hij : i < j) : a.1 < b.1 := by
  induction l generalizing i j with
  | nil => simp at hi
  | cons e rest ih =>
    simp only [keysOf, List.map_cons, List.pairwise_cons] at hs
    obtain ⟨hlt, hrest⟩ := hs
    cases j with
    | zero => omega
    | succ j =>
      simp only [List.getElem?_cons_succ] at hj
      cases i with
      | zero =>
        simp only [List.getElem?_cons_zero, Option.some.injEq] at hi
        subst hi
        exact hlt b.1 (mem_keysOf (List.mem_of_getElem? hj))
      | succ i =>
        simp only [List.getElem?_cons_succ] at hi
        exact ih hrest hi hj (by omega)

theorem mem_getElem? {l : List (Nat × Val)} {e : Nat × Val} (h : e ∈ l) : ∃ i : Nat, l[i]? = some e := by
  obtain ⟨i, hi, rfl⟩ := List.getElem_of_mem h
  exact ⟨i, by simp [hi]⟩

/-- Invariant of `binary_search_page`: everything left of `lo` is smaller than `k`, everything from `hi` on is larger. -/
theorem bsearch_correct (cells : List (Nat × Val)) (k : Nat) (hs : (keysOf cells).Pairwise (· < ·)) :
    ∀ (fuel lo hi : Nat), hi ≤ cells.length → hi - lo < fuel →
      (∀ i e, cells[i]? = some e → i < lo → e.1 < k) →
      (∀ i e, cells[i]? = some e → hi ≤ i → k < e.1) →
      bsearch cells k fuel lo hi = alookup k cells := by
  intro fuel
  induction fuel with
  | zero => intro lo hi _ h; omega
  | succ fuel ih =>
    intro lo hi hhi hfuel hlow hhigh
    unfold bsearch
    split
    · next hlt =>
      have hmid : lo + (hi - lo) / 2 < cells.length := by omega
      have hget : cells[lo + (hi - lo) / 2]? = some cells[lo + (hi - lo) / 2] := by simp [hmid]
      simp only [hget]
      generalize hc : cells[lo + (hi - lo) / 2] = c at hget
      obtain ⟨k', v⟩ := c
      simp only
      split
      · next heq =>
        subst heq
        exact (alookup_of_mem hs (List.mem_of_getElem? hget)).symm
      · next hne =>
        split
        · next hlt' =>
          apply ih (lo + (hi - lo) / 2 + 1) hi hhi (by omega)
          · intro i e he hi'
            by_cases hieq : i = lo + (hi - lo) / 2
            · subst hieq
              rw [hget] at he
              cases he
              exact hlt'
            · have : e.1 < k' := getElem?_keys_lt hs he hget (by omega)
              omega
          · exact hhigh
        · next hge =>
          apply ih lo (lo + (hi - lo) / 2) (by omega) (by omega) hlow
          intro i e he hi'
          by_cases hieq : i = lo + (hi - lo) / 2
          · subst hieq
            rw [hget] at he
            cases he
            show k < k'
            omega
          · have : k' < e.1 := getElem?_keys_lt hs hget he (by omega)
            omega
    · next hge =>
      -- empty window: no cell has key k
      symm
      apply alookup_none_of_not_mem
      intro e he heq
      obtain ⟨i, hi'⟩ := mem_getElem? he
      by_cases hil : i < lo
      · have := hlow i e hi' hil
        omega
      · have := hhigh i e hi' (by omega)
        omega

theorem leafSearch_correct {cells : List (Nat × Val)} (hs : (keysOf cells).Pairwise (· < ·)) (k : Nat) :
    leafSearch cells k = alookup k cells := by
  unfold leafSearch
  apply bsearch_correct cells k hs (cells.length + 1) 0 cells.length (Nat.le_refl _) (by omega)
  · intro i e _ hi; omega
  · intro i e he hi
    have : i < cells.length := by
      rcases Nat.lt_or_ge i cells.length with h | h
      · exact h
      · simp [List.getElem?_eq_none h] at he
    omega

/-! ### the tree read off the graph -/

theorem inLo_of {lo : Option Nat} {k : Nat} (h : inLo lo k = true) : ∀ l, lo = some l → l ≤ k := by
  intro l hl
  subst hl
  simpa [inLo] using h

theorem inHi_of {hi : Option Nat} {k : Nat} (h : inHi hi k = true) : ∀ u, hi = some u → k < u := by
  intro u hu
  subst hu
  simpa [inHi] using h

theorem inLo_weaken {lo : Option Nat} {s k : Nat} (h : s ≤ k) (hlo : ∀ l, lo = some l → l ≤ s) : inLo lo k = true := by
  cases lo with
  | none => rfl
  | some l =>
    have := hlo l rfl
    simp [inLo]
    omega

/-- every key of a bounded subtree lies in its interval -/
theorem bounded_keys {t : T} : ∀ {lo hi : Option Nat}, t.bounded lo hi = true →
    ∀ e ∈ t.toList, inLo lo e.1 = true ∧ inHi hi e.1 = true := by
  induction t with
  | leaf id cells =>
    intro lo hi h e he
    simp only [T.bounded, Bool.and_eq_true, List.all_eq_true] at h
    have := h.2 e.1 (mem_keysOf he)
    simpa using this
  | last id r ih =>
    intro lo hi h e he
    exact ih h e he
  | cons id ch s rest ihc ihr =>
    intro lo hi h e he
    simp only [T.bounded, Bool.and_eq_true] at h
    obtain ⟨⟨⟨hslo, hshi⟩, hch⟩, hrest⟩ := h
    simp only [T.toList, List.mem_append] at he
    cases he with
    | inl he =>
      have ⟨h1, h2⟩ := ihc hch e he
      refine ⟨h1, ?_⟩
      have hs : e.1 < s := inHi_of h2 s rfl
      cases hi with
      | none => rfl
      | some u =>
        have := inHi_of hshi u rfl
        simp [inHi]
        omega
    | inr he =>
      have ⟨h1, h2⟩ := ihr hrest e he
      refine ⟨?_, h2⟩
      have hs : s ≤ e.1 := inLo_of h1 s rfl
      cases lo with
      | none => rfl
      | some l =>
        have := inLo_of hslo l rfl
        simp [inLo]
        omega

/-- in-order keys of a bounded tree are strictly increasing -/
theorem bounded_sorted {t : T} : ∀ {lo hi : Option Nat}, t.bounded lo hi = true →
    (keysOf t.toList).Pairwise (· < ·) := by
  induction t with
  | leaf id cells =>
    intro lo hi h
    simp only [T.bounded, Bool.and_eq_true] at h
    exact ascending_pairwise h.1
  | last id r ih =>
    intro lo hi h
    exact ih h
  | cons id ch s rest ihc ihr =>
    intro lo hi h
    simp only [T.bounded, Bool.and_eq_true] at h
    obtain ⟨⟨_, hch⟩, hrest⟩ := h
    simp only [T.toList, keysOf_append, List.pairwise_append]
    refine ⟨ihc hch, ihr hrest, ?_⟩
    intro a ha b hb
    simp only [keysOf, List.mem_map] at ha hb
    obtain ⟨ea, hea, rfl⟩ := ha
    obtain ⟨eb, heb, rfl⟩ := hb
    have h1 := inHi_of (bounded_keys hch ea hea).2 s rfl
    have h2 := inLo_of (bounded_keys hrest eb heb).1 s rfl
    omega

/-- The code's search on a bounded tree finds exactly what the in-order list holds. -/
theorem T.lookup_eq {t : T} : ∀ {lo hi : Option Nat}, t.bounded lo hi = true →
    ∀ k, t.lookup k = alookup k t.toList := by
  induction t with
  | leaf id cells =>
    intro lo hi h k
    simp only [T.bounded, Bool.and_eq_true] at h
    exact leafSearch_correct (ascending_pairwise h.1) k
  | last id r ih =>
    intro lo hi h k
    exact ih h k
  | cons id ch s rest ihc ihr =>
    intro lo hi h k
    simp only [T.bounded, Bool.and_eq_true] at h
    obtain ⟨⟨_, hch⟩, hrest⟩ := h
    simp only [T.lookup, T.toList]
    split
    · next hlt =>
      rw [ihc hch k]
      symm
      apply alookup_append_left
      intro e he heq
      have := inLo_of (bounded_keys hrest e he).1 s rfl
      omega
    · next hge =>
      rw [ihr hrest k]
      symm
      apply alookup_append_right
      intro e he heq
      have := inHi_of (bounded_keys hch e he).2 s rfl
      omega

/-! ### graph walks agree with the tree that was read off -/

theorem buildInt_lookup {f : Nat → Option T} {g : Nat → Option Val} {k id : Nat}
    (hf : ∀ c t, f c = some t → g c = t.lookup k) :
    ∀ (cells : List IntCell) (right : Nat) (t : T), buildInt f id cells right = some t →
      g (findChild k cells right) = t.lookup k := by
  intro cells
  induction cells with
  | nil =>
    intro right t h
    simp only [buildInt, Option.map_eq_some_iff] at h
    obtain ⟨r, hr, rfl⟩ := h
    simpa [findChild, T.lookup] using hf right r hr
  | cons c cs ih =>
    intro right t h
    simp only [buildInt] at h
    split at h
    · next ch rest hch hrest =>
      cases h
      simp only [findChild, T.lookup]
      split
      · exact hf c.left ch hch
      · exact ih right rest hrest
    · cases h

theorem buildInt_not_leaf {f : Nat → Option T} {id : Nat} {cells : List IntCell} {right i : Nat} {c : List (Nat × Val)}
    (h : buildInt f id cells right = some (.leaf i c)) : False := by
  cases cells with
  | nil =>
    simp only [buildInt, Option.map_eq_some_iff] at h
    obtain ⟨r, _, hr⟩ := h
    cases hr
  | cons x xs =>
    simp only [buildInt] at h
    split at h
    · cases h
    · cases h

theorem extract_lookup (d : Dump) (k : Nat) : ∀ (fuel id : Nat) (t : T), extract d fuel id = some t →
    lookupG d fuel id k = t.lookup k := by
  intro fuel
  induction fuel with
  | zero => intro id t h; simp [extract] at h
  | succ fuel ih =>
    intro id t h
    simp only [extract] at h
    simp only [lookupG]
    split at h
    · cases h
    · next prev next cells hp =>
      cases h
      simp [T.lookup]
    · next prev next right cells hp =>
      exact buildInt_lookup (g := fun c => lookupG d fuel c k) (fun c t hc => ih c t hc) cells right t h

/-- contents of a list of leaves -/
def concatCells : List (Nat × List (Nat × Val)) → List (Nat × Val)
  | [] => []
  | (_, c) :: r => c ++ concatCells r

theorem concatCells_append (a b : List (Nat × List (Nat × Val))) :
    concatCells (a ++ b) = concatCells a ++ concatCells b := by
  induction a with
  | nil => rfl
  | cons e r ih =>
    obtain ⟨_, c⟩ := e
    simp [concatCells, ih]

theorem toList_eq_concat (t : T) : t.toList = concatCells t.leafList := by
  induction t with
  | leaf id cells => simp [T.toList, T.leafList, concatCells]
  | last id r ih => simpa [T.toList, T.leafList] using ih
  | cons id ch s rest ihc ihr => simp [T.toList, T.leafList, concatCells_append, ihc, ihr]

theorem leafList_ne_nil (t : T) : t.leafList ≠ [] := by
  induction t with
  | leaf id cells => simp [T.leafList]
  | last id r ih => simpa [T.leafList] using ih
  | cons id ch s rest ihc _ => simp [T.leafList, ihc]

/-- every leaf of the tree is the page of that id in the dump -/
def LeavesMatch (d : Dump) (l : List (Nat × List (Nat × Val))) : Prop :=
  ∀ p ∈ l, ∃ pr nx cells, d.page p.1 = some (.leaf pr nx cells) ∧ leafEntries cells = p.2

theorem buildInt_leaves {d : Dump} {f : Nat → Option T} {id : Nat}
    (hf : ∀ c t, f c = some t → LeavesMatch d t.leafList) :
    ∀ (cells : List IntCell) (right : Nat) (t : T), buildInt f id cells right = some t → LeavesMatch d t.leafList := by
  intro cells
  induction cells with
  | nil =>
    intro right t h
    simp only [buildInt, Option.map_eq_some_iff] at h
    obtain ⟨r, hr, rfl⟩ := h
    exact hf right r hr
  | cons c cs ih =>
    intro right t h
    simp only [buildInt] at h
    split at h
    · next ch rest hch hrest =>
      cases h
      intro p hp
      simp only [T.leafList, List.mem_append] at hp
      cases hp with
      | inl hp => exact hf c.left ch hch p hp
      | inr hp => exact ih right rest hrest p hp
    · cases h

theorem extract_leaves (d : Dump) : ∀ (fuel id : Nat) (t : T), extract d fuel id = some t →
    LeavesMatch d t.leafList := by
  intro fuel
  induction fuel with
  | zero => intro id t h; simp [extract] at h
  | succ fuel ih =>
    intro id t h
    simp only [extract] at h
    split at h
    · cases h
    · next prev next cells hp =>
      cases h
      intro p hp
      simp only [T.leafList, List.mem_singleton] at hp
      subst hp
      exact ⟨prev, next, cells, hp, rfl⟩
    · next prev next right cells hp =>
      exact buildInt_leaves (fun c t hc => ih c t hc) cells right t h

theorem buildInt_leftmost {f : Nat → Option T} {g : Nat → Option Nat} {id : Nat}
    (hf : ∀ c t, f c = some t → g c = t.leafList.head?.map (·.1)) :
    ∀ (cells : List IntCell) (right : Nat) (t : T), buildInt f id cells right = some t →
      g (match cells with | [] => right | c :: _ => c.left) = t.leafList.head?.map (·.1) := by
  intro cells right t h
  cases cells with
  | nil =>
    simp only [buildInt, Option.map_eq_some_iff] at h
    obtain ⟨r, hr, rfl⟩ := h
    simpa [T.leafList] using hf right r hr
  | cons c cs =>
    simp only [buildInt] at h
    split at h
    · next ch rest hch hrest =>
      cases h
      have := hf c.left ch hch
      simp only [T.leafList]
      rw [this]
      cases hl : ch.leafList with
      | nil => exact absurd hl (leafList_ne_nil ch)
      | cons a b => simp
    · cases h

theorem extract_leftmost (d : Dump) : ∀ (fuel id : Nat) (t : T), extract d fuel id = some t →
    leftmost d fuel id = t.leafList.head?.map (·.1) := by
  intro fuel
  induction fuel with
  | zero => intro id t h; simp [extract] at h
  | succ fuel ih =>
    intro id t h
    simp only [extract] at h
    simp only [leftmost]
    split at h
    · cases h
    · next prev next cells hp =>
      cases h
      simp [T.leafList]
    · next prev next right cells hp =>
      exact buildInt_leftmost (g := leftmost d fuel) (fun c t hc => ih c t hc) cells right t h

theorem scanFrom_zero (d : Dump) (fuel : Nat) : scanFrom d fuel 0 = [] := by
  cases fuel <;> simp [scanFrom]

/-- Following `next` from the first leaf of a correctly linked leaf list reads the leaves in order. -/
theorem scan_links (d : Dump) : ∀ (l : List (Nat × List (Nat × Val))) (p fuel : Nat),
    LeavesMatch d l → linksOk d p (l.map (·.1)) = true → (∀ e ∈ l, e.1 ≠ 0) → l.length ≤ fuel →
    scanFrom d fuel ((l.head?.map (·.1)).getD 0) = concatCells l := by
  intro l
  induction l with
  | nil => intro p fuel _ _ _ _; simp [scanFrom_zero, concatCells]
  | cons e rest ih =>
    intro p fuel hm hl hnz hf
    obtain ⟨id, cells⟩ := e
    cases fuel with
    | zero => simp at hf
    | succ fuel =>
      obtain ⟨pr, nx, pc, hpage, hcells⟩ := hm (id, cells) (List.mem_cons_self ..)
      have hid : id ≠ 0 := hnz (id, cells) (List.mem_cons_self ..)
      simp only [List.map_cons, linksOk, hpage, Bool.and_eq_true, beq_iff_eq] at hl
      obtain ⟨⟨_, hnx⟩, hrest⟩ := hl
      simp only [List.head?_cons, Option.map_some, Option.getD_some, scanFrom, if_neg hid, hpage, concatCells]
      simp only at hcells
      rw [hcells]
      congr 1
      have := ih id fuel (fun q hq => hm q (List.mem_cons_of_mem _ hq)) hrest
        (fun q hq => hnz q (List.mem_cons_of_mem _ hq)) (by simp at hf; omega)
      rw [← this, hnx]
      cases rest with
      | nil => simp
      | cons a b => simp

/-! ### backward scan -/

theorem getLast?_append_ne {α : Type} (a b : List α) (h : b ≠ []) : (a ++ b).getLast? = b.getLast? := by
  rw [List.getLast?_append]
  cases hb : b.getLast? with
  | none => exact absurd (List.getLast?_eq_none_iff.mp hb) h
  | some x => rfl

theorem buildInt_rightmost {f : Nat → Option T} {g : Nat → Option Nat} {id : Nat}
    (hf : ∀ c t, f c = some t → g c = t.leafList.getLast?.map (·.1)) :
    ∀ (cells : List IntCell) (right : Nat) (t : T), buildInt f id cells right = some t →
      g right = t.leafList.getLast?.map (·.1) := by
  intro cells
  induction cells with
  | nil =>
    intro right t h
    simp only [buildInt, Option.map_eq_some_iff] at h
    obtain ⟨r, hr, rfl⟩ := h
    simpa [T.leafList] using hf right r hr
  | cons c cs ih =>
    intro right t h
    simp only [buildInt] at h
    split at h
    · next ch rest hch hrest =>
      cases h
      rw [ih right rest hrest]
      simp only [T.leafList]
      rw [getLast?_append_ne _ _ (leafList_ne_nil rest)]
    · cases h

theorem extract_rightmost (d : Dump) : ∀ (fuel id : Nat) (t : T), extract d fuel id = some t →
    rightmost d fuel id = t.leafList.getLast?.map (·.1) := by
  intro fuel
  induction fuel with
  | zero => intro id t h; simp [extract] at h
  | succ fuel ih =>
    intro id t h
    simp only [extract] at h
    simp only [rightmost]
    split at h
    · cases h
    · next prev next cells hp =>
      cases h
      simp [T.leafList]
    · next prev next right cells hp =>
      exact buildInt_rightmost (g := rightmost d fuel) (fun c t hc => ih c t hc) cells right t h

theorem scanBackFrom_zero (d : Dump) (fuel : Nat) : scanBackFrom d fuel 0 = some [] := by
  cases fuel <;> simp [scanBackFrom]

/-- Walking `prev` from the last leaf of a correctly linked list of non-empty leaves reads them backwards, and then
    goes on from the page before the first one. -/
theorem scanBack_links (d : Dump) : ∀ (l : List (Nat × List (Nat × Val))) (p k : Nat),
    LeavesMatch d l → linksOk d p (l.map (·.1)) = true → (∀ e ∈ l, e.1 ≠ 0) → (∀ e ∈ l, e.2 ≠ []) →
    scanBackFrom d (l.length + k) ((l.getLast?.map (·.1)).getD p) =
      (scanBackFrom d k p).map fun r => (concatCells l).reverse ++ r := by
  intro l
  induction l with
  | nil => intro p k _ _ _ _; simp [concatCells]
  | cons e rest ih =>
    intro p k hm hl hnz hne
    obtain ⟨id, cells⟩ := e
    obtain ⟨pr, nx, pc, hpage, hcells⟩ := hm (id, cells) (List.mem_cons_self ..)
    have hid : id ≠ 0 := hnz (id, cells) (List.mem_cons_self ..)
    have hcne : cells ≠ [] := hne (id, cells) (List.mem_cons_self ..)
    simp only [List.map_cons, linksOk, hpage, Bool.and_eq_true, beq_iff_eq] at hl
    obtain ⟨⟨hpr, _⟩, hrest⟩ := hl
    simp only at hcells
    have hpcne : pc.isEmpty = false := by
      cases pc with
      | nil =>
        simp only [leafEntries, List.map_nil] at hcells
        exact absurd hcells.symm hcne
      | cons a b => rfl
    -- this leaf, entered with fuel k + 1
    have hthis : scanBackFrom d (k + 1) id = (scanBackFrom d k p).map fun r => cells.reverse ++ r := by
      simp only [scanBackFrom, if_neg hid, hpage, hpcne, hcells, hpr]
      rfl
    cases rest with
    | nil =>
      simp only [List.getLast?_singleton, Option.map_some, Option.getD_some, List.length_cons, List.length_nil,
        concatCells, List.append_nil]
      rw [show 0 + 1 + k = k + 1 by omega]
      exact hthis
    | cons e2 rest2 =>
      have hih := ih id (k + 1) (fun q hq => hm q (List.mem_cons_of_mem _ hq)) hrest
        (fun q hq => hnz q (List.mem_cons_of_mem _ hq)) (fun q hq => hne q (List.mem_cons_of_mem _ hq))
      have hlast : ((id, cells) :: e2 :: rest2).getLast? = (e2 :: rest2).getLast? := by simp [List.getLast?_cons_cons]
      have hlast2 : ((e2 :: rest2).getLast?.map (·.1)).getD p = ((e2 :: rest2).getLast?.map (·.1)).getD id := by
        cases hgl : (e2 :: rest2).getLast? with
        | none => simp at hgl
        | some x => simp
      rw [hlast, hlast2]
      rw [show ((id, cells) :: e2 :: rest2).length + k = (e2 :: rest2).length + (k + 1) by simp; omega]
      rw [hih, hthis]
      cases scanBackFrom d k p with
      | none => rfl
      | some r => simp [concatCells, List.reverse_append, List.append_assoc]

/-! ### uniform depth -/

theorem height_depths {t : T} : ∀ {h : Nat} (d : Nat), t.height = some h → ∀ x ∈ t.leafDepths d, x = d + h := by
  induction t with
  | leaf id cells =>
    intro h d hh x hx
    simp only [T.height, Option.some.injEq] at hh
    simp only [T.leafDepths, List.mem_singleton] at hx
    omega
  | last id r ih =>
    intro h d hh x hx
    simp only [T.height, Option.map_eq_some_iff] at hh
    obtain ⟨a, ha, rfl⟩ := hh
    have := ih (d + 1) ha x hx
    omega
  | cons id ch s rest ihc ihr =>
    intro h d hh x hx
    simp only [T.height] at hh
    split at hh
    · next a b ha hb =>
      split at hh
      · next heq =>
        cases hh
        simp only [T.leafDepths, List.mem_append] at hx
        cases hx with
        | inl hx => have := ihc (d + 1) ha x hx; omega
        | inr hx => exact ihr d hb x hx
      · cases hh
    · cases hh

/-! ### distinct page ids -/

theorem mergeF_perm : ∀ (f : Nat) (xs ys : List Nat), (mergeF f xs ys).Perm (xs ++ ys) := by
  intro f
  induction f with
  | zero => intro xs ys; exact List.Perm.refl _
  | succ f ih =>
    intro xs ys
    cases xs with
    | nil => simp [mergeF]
    | cons x xs =>
      cases ys with
      | nil => simp [mergeF]
      | cons y ys =>
        simp only [mergeF]
        split
        · exact List.Perm.cons x (ih xs (y :: ys))
        · have h1 : (y :: mergeF f (x :: xs) ys).Perm (y :: (x :: xs ++ ys)) := List.Perm.cons y (ih (x :: xs) ys)
          exact h1.trans List.perm_middle.symm

theorem msort_perm : ∀ (f : Nat) (l : List Nat), (msort f l).Perm l := by
  intro f
  induction f with
  | zero => intro l; exact List.Perm.refl _
  | succ f ih =>
    intro l
    simp only [msort]
    split
    · exact List.Perm.refl _
    · have h1 := mergeF_perm l.length (msort f (l.take (l.length / 2))) (msort f (l.drop (l.length / 2)))
      have h2 := List.Perm.append (ih (l.take (l.length / 2))) (ih (l.drop (l.length / 2)))
      rw [List.take_append_drop] at h2
      exact h1.trans h2

theorem distinct_nodup {l : List Nat} (h : distinct l = true) : l.Nodup := by
  have hp : (msort l.length l).Perm l := msort_perm l.length l
  have hn : (msort l.length l).Nodup := pairwise_lt_nodup (ascending_pairwise h)
  exact hp.nodup_iff.mp hn

/-! ### the spec map -/

theorem alookup_sinsert (k : Nat) (v : Val) (m : List (Nat × Val)) (k' : Nat) :
    alookup k' (sinsert k v m) = if k' = k then some v else alookup k' m := by
  induction m with
  | nil => simp [sinsert, alookup]
  | cons e rest ih =>
    obtain ⟨k0, v0⟩ := e
    simp only [sinsert]
    split
    · next hlt => simp only [alookup]
    · next hge =>
      split
      · next heq =>
        subst heq
        simp only [alookup]
        split <;> rfl
      · next hne =>
        simp only [alookup, ih]
        split
        · next h0 =>
          subst h0
          rw [if_neg (by omega)]
        · rfl

theorem mem_keysOf_sinsert {k : Nat} {v : Val} {m : List (Nat × Val)} {x : Nat}
    (h : x ∈ keysOf (sinsert k v m)) : x = k ∨ x ∈ keysOf m := by
  induction m with
  | nil => simp [sinsert, keysOf] at h; exact Or.inl h
  | cons e rest ih =>
    obtain ⟨k0, v0⟩ := e
    simp only [sinsert] at h
    split at h
    · simp only [keysOf, List.map_cons, List.mem_cons] at h ⊢
      rcases h with h | h | h
      · exact Or.inl h
      · exact Or.inr (Or.inl h)
      · exact Or.inr (Or.inr h)
    · split at h
      · next heq =>
        simp only [keysOf, List.map_cons, List.mem_cons] at h ⊢
        rcases h with h | h
        · exact Or.inl h
        · exact Or.inr (Or.inr h)
      · simp only [keysOf, List.map_cons, List.mem_cons] at h ⊢
        rcases h with h | h
        · exact Or.inr (Or.inl h)
        · rcases ih h with h | h
          · exact Or.inl h
          · exact Or.inr (Or.inr h)

theorem sinsert_sorted (k : Nat) (v : Val) {m : List (Nat × Val)} (h : (keysOf m).Pairwise (· < ·)) :
    (keysOf (sinsert k v m)).Pairwise (· < ·) := by
  induction m with
  | nil => simp [sinsert, keysOf]
  | cons e rest ih =>
    obtain ⟨k0, v0⟩ := e
    simp only [keysOf, List.map_cons, List.pairwise_cons] at h
    obtain ⟨hlt, hrest⟩ := h
    simp only [sinsert]
    split
    · next hk =>
      simp only [keysOf, List.map_cons, List.pairwise_cons, List.mem_cons]
      refine ⟨?_, hlt, hrest⟩
      intro x hx
      rcases hx with hx | hx
      · omega
      · have := hlt x hx; omega
    · split
      · next heq =>
        subst heq
        simp only [keysOf, List.map_cons, List.pairwise_cons]
        exact ⟨hlt, hrest⟩
      · next hne =>
        simp only [keysOf, List.map_cons, List.pairwise_cons]
        refine ⟨?_, ih hrest⟩
        intro x hx
        rcases mem_keysOf_sinsert hx with hx | hx
        · omega
        · exact hlt x hx

theorem mem_keysOf_serase {k : Nat} {m : List (Nat × Val)} {x : Nat} (h : x ∈ keysOf (serase k m)) : x ∈ keysOf m := by
  induction m with
  | nil => simpa [serase] using h
  | cons e rest ih =>
    obtain ⟨k0, v0⟩ := e
    simp only [serase] at h
    split at h
    · simp only [keysOf, List.map_cons, List.mem_cons]
      exact Or.inr h
    · simp only [keysOf, List.map_cons, List.mem_cons] at h ⊢
      rcases h with h | h
      · exact Or.inl h
      · exact Or.inr (ih h)

theorem serase_sorted (k : Nat) {m : List (Nat × Val)} (h : (keysOf m).Pairwise (· < ·)) :
    (keysOf (serase k m)).Pairwise (· < ·) := by
  induction m with
  | nil => simp [serase, keysOf]
  | cons e rest ih =>
    obtain ⟨k0, v0⟩ := e
    simp only [keysOf, List.map_cons, List.pairwise_cons] at h
    obtain ⟨hlt, hrest⟩ := h
    simp only [serase]
    split
    · exact hrest
    · simp only [keysOf, List.map_cons, List.pairwise_cons]
      exact ⟨fun x hx => hlt x (mem_keysOf_serase hx), ih hrest⟩

theorem alookup_serase (k : Nat) {m : List (Nat × Val)} (h : (keysOf m).Pairwise (· < ·)) (k' : Nat) :
    alookup k' (serase k m) = if k' = k then none else alookup k' m := by
  induction m with
  | nil => simp [serase, alookup]
  | cons e rest ih =>
    obtain ⟨k0, v0⟩ := e
    simp only [keysOf, List.map_cons, List.pairwise_cons] at h
    obtain ⟨hlt, hrest⟩ := h
    simp only [serase]
    split
    · next heq =>
      subst heq
      split
      · next h2 =>
        subst h2
        apply alookup_none_of_not_mem
        intro e he heq
        have := hlt e.1 (mem_keysOf he)
        omega
      · next h2 => simp only [alookup, if_neg h2]
    · next hne =>
      simp only [alookup, ih hrest]
      split
      · next h0 =>
        subst h0
        rw [if_neg (by omega)]
      · rfl

theorem specStep_sorted {m : List (Nat × Val)} (h : (keysOf m).Pairwise (· < ·)) (op : Op) :
    (keysOf (specStep m op).1).Pairwise (· < ·) := by
  cases op <;> simp only [specStep]
  · split
    · exact h
    · exact sinsert_sorted _ _ h
  · split
    · exact sinsert_sorted _ _ h
    · exact h
  · exact sinsert_sorted _ _ h
  · split
    · exact serase_sorted _ h
    · exact h
  · exact h
  · exact h

theorem specRun_sorted : ∀ (ops : List Op) {m : List (Nat × Val)}, (keysOf m).Pairwise (· < ·) →
    (keysOf (specRun m ops)).Pairwise (· < ·) := by
  intro ops
  induction ops with
  | nil => intro m h; exact h
  | cons op ops ih => intro m h; exact ih (specStep_sorted h op)

/-- Two key-sorted lists that answer every lookup alike are the same list. -/
theorem sorted_ext : ∀ {a b : List (Nat × Val)}, (keysOf a).Pairwise (· < ·) → (keysOf b).Pairwise (· < ·) →
    (∀ k, alookup k a = alookup k b) → a = b := by
  intro a
  induction a with
  | nil =>
    intro b _ _ h
    cases b with
    | nil => rfl
    | cons e r =>
      obtain ⟨k, v⟩ := e
      have := h k
      simp [alookup] at this
  | cons ea ra ih =>
    intro b ha hb h
    obtain ⟨ka, va⟩ := ea
    cases b with
    | nil =>
      have := h ka
      simp [alookup] at this
    | cons eb rb =>
      obtain ⟨kb, vb⟩ := eb
      simp only [keysOf, List.map_cons, List.pairwise_cons] at ha hb
      obtain ⟨hlta, hra⟩ := ha
      obtain ⟨hltb, hrb⟩ := hb
      have hk : ka = kb := by
        rcases Nat.lt_trichotomy ka kb with hlt | heq | hgt
        · -- ka is not a key of b
          have h1 := h ka
          simp only [alookup, if_true] at h1
          rw [if_neg (by omega)] at h1
          have hmem := alookup_mem h1.symm
          have := hltb ka (mem_keysOf hmem)
          omega
        · exact heq
        · have h1 := h kb
          simp only [alookup, if_true] at h1
          rw [if_neg (by omega)] at h1
          have hmem := alookup_mem h1
          have := hlta kb (mem_keysOf hmem)
          omega
      subst hk
      have hv : va = vb := by
        have h1 := h ka
        simpa [alookup] using h1
      subst hv
      congr 1
      apply ih hra hrb
      intro k
      have h1 := h k
      simp only [alookup] at h1
      split at h1
      · next heq =>
        subst heq
        rw [alookup_none_of_not_mem, alookup_none_of_not_mem]
        · intro e he heq; have := hltb e.1 (mem_keysOf he); omega
        · intro e he heq; have := hlta e.1 (mem_keysOf he); omega
      · exact h1

end AxVerif.BTree
