import AxVerif.Model.BTree
import AxVerif.Model.Balance
namespace AxVerif.BTree
end AxVerif.BTree
