/-
  Helper lemmas for the value model (C19): IEEE binary64 on bit patterns — monotonicity of the decoding,
  IEEE comparison = comparison of exact values, exactness and scaling invariance of round-to-nearest-even.
-/
import AxVerif.Lemmas.ValueOrder
namespace AxVerif.Value
open AxVerif

theorem f64_scaledMag_def (a : Nat) (ha : a < 9223372036854775808) :
    f64.scaledMag a =
      (if a / 4503599627370496 = 0 then a % 4503599627370496 else 4503599627370496 + a % 4503599627370496)
        * 2 ^ (max (a / 4503599627370496) 1 - 1) := by
  have h1 : a / 4503599627370496 % 2048 = a / 4503599627370496 := Nat.mod_eq_of_lt (by omega)
  simp only [FloatFmt.scaledMag, FloatFmt.sig, FloatFmt.expField, FloatFmt.frac, FloatFmt.scaleOff, FloatFmt.bias, f64,
    Nat.reducePow, Nat.reduceSub, Nat.reduceAdd, Nat.add_zero, h1]

theorem f64_infMag' : f64.infMag = 9218868437227405312 := by decide

theorem pow_le_pow2 {a b : Nat} (h : a ≤ b) : 2 ^ a ≤ 2 ^ b := Nat.pow_le_pow_right (by omega) h

theorem f64_scaledMag_mono (a b : Nat) (hb : b < 9223372036854775808) (h : a < b) :
    f64.scaledMag a < f64.scaledMag b := by
  rw [f64_scaledMag_def a (by omega), f64_scaledMag_def b hb]
  generalize hea : a / 4503599627370496 = ea
  generalize hfa : a % 4503599627370496 = fa
  generalize heb : b / 4503599627370496 = eb
  generalize hfb : b % 4503599627370496 = fb
  have hfa' : fa < 4503599627370496 := by omega
  have hfb' : fb < 4503599627370496 := by omega
  have hord : ea < eb ∨ (ea = eb ∧ fa < fb) := by omega
  rcases hord with h1 | ⟨h1, h2⟩
  · by_cases hz : ea = 0
    · -- subnormal below anything with a larger exponent field
      subst hz
      have hb0 : eb ≠ 0 := by omega
      simp only [if_true, if_neg hb0]
      have : 1 ≤ 2 ^ (max eb 1 - 1) := Nat.one_le_two_pow
      calc fa * 2 ^ (max 0 1 - 1) = fa := by simp
        _ < 4503599627370496 + fb := by omega
        _ = (4503599627370496 + fb) * 1 := by omega
        _ ≤ (4503599627370496 + fb) * 2 ^ (max eb 1 - 1) := Nat.mul_le_mul_left _ this
    · have hb0 : eb ≠ 0 := by omega
      simp only [if_neg hz, if_neg hb0]
      have e1 : max ea 1 - 1 = ea - 1 := by omega
      have e2 : max eb 1 - 1 = (ea - 1) + 1 + (eb - ea - 1) := by omega
      rw [e1, e2, Nat.pow_add, Nat.pow_add]
      have hXpos : 0 < 2 ^ (ea - 1) := Nat.pow_pos (by omega)
      generalize 2 ^ (ea - 1) = X at *
      have hX : 1 ≤ 2 ^ (eb - ea - 1) := Nat.one_le_two_pow
      generalize 2 ^ (eb - ea - 1) = Y at *
      -- (P + fa) X < 2 P X ≤ (P + fb) X 2 Y
      have s1 : (4503599627370496 + fa) * X ≤ 9007199254740991 * X := Nat.mul_le_mul_right _ (by omega)
      have s2 : (4503599627370496 + fb) * (X * 2 ^ 1 * Y) = (4503599627370496 + fb) * 2 * (X * Y) := by
        simp only [Nat.pow_one, Nat.mul_assoc, Nat.mul_left_comm, Nat.mul_comm]
      rw [s2]
      have s3 : 9007199254740992 * (X * 1) ≤ (4503599627370496 + fb) * 2 * (X * Y) :=
        Nat.mul_le_mul (by omega) (Nat.mul_le_mul_left _ hX)
      have : 9007199254740991 * X < 9007199254740992 * X :=
        Nat.mul_lt_mul_of_lt_of_le (show 9007199254740991 < 9007199254740992 by omega) (Nat.le_refl X) hXpos
      omega
  · subst h1
    by_cases hz : ea = 0
    · simp only [hz, if_true]
      have : 0 < 2 ^ (max 0 1 - 1) := Nat.pow_pos (by omega)
      exact Nat.mul_lt_mul_of_lt_of_le h2 (Nat.le_refl _) this
    · simp only [if_neg hz]
      have : 0 < 2 ^ (max ea 1 - 1) := Nat.pow_pos (by omega)
      exact Nat.mul_lt_mul_of_lt_of_le (by omega) (Nat.le_refl _) this

theorem f64_scaledMag_zero : f64.scaledMag 0 = 0 := by decide

theorem f64_scaledMag_mag (b : Nat) : f64.scaledMag (f64.mag b) = f64.scaledMag b := by
  have h1 : (b % 9223372036854775808) / 4503599627370496 % 2048 = b / 4503599627370496 % 2048 := by omega
  have h2 : (b % 9223372036854775808) % 4503599627370496 = b % 4503599627370496 := by omega
  simp only [FloatFmt.scaledMag, FloatFmt.sig, FloatFmt.expField, FloatFmt.frac, FloatFmt.mag, FloatFmt.signBit, f64,
    Nat.reducePow, Nat.reduceAdd, h1, h2]
  rfl

theorem f64_mag_lt (b : Nat) : f64.mag b < 9223372036854775808 := by
  simp only [FloatFmt.mag, FloatFmt.signBit, f64, Nat.reduceAdd, Nat.reducePow]; omega

/-- strict monotonicity turned into an `icmp` identity -/
theorem icmp_scaledMag (a b : Nat) (ha : a < 9223372036854775808) (hb : b < 9223372036854775808) :
    icmp (f64.scaledMag a) (f64.scaledMag b) = icmp a b := by
  rcases Nat.lt_trichotomy a b with h | h | h
  · have := f64_scaledMag_mono a b hb h
    rw [(icmp_lt_iff _ _).mpr (by omega), (icmp_lt_iff _ _).mpr (by omega)]
  · subst h; rw [(icmp_eq_iff _ _).mpr rfl, (icmp_eq_iff _ _).mpr rfl]
  · have := f64_scaledMag_mono b a ha h
    rw [(icmp_gt_iff _ _).mpr (by omega), (icmp_gt_iff _ _).mpr (by omega)]

theorem icmp_neg (a b : Int) : icmp (-a) (-b) = icmp b a := by
  unfold icmp
  by_cases h1 : a < b
  · rw [if_neg (by omega), if_neg (by omega), if_neg (by omega), if_neg (by omega)]
  · by_cases h2 : a = b
    · subst h2; simp
    · rw [if_pos (by omega), if_pos (by omega)]

theorem f64_scaledMag_pos (a : Nat) (ha : a < 9223372036854775808) (h : 0 < a) : 0 < f64.scaledMag a := by
  have := f64_scaledMag_mono 0 a ha h
  omega

theorem f64_ext_def (x : Nat) (hx : f64.isNaN x = false) :
    f64.ext x = if f64.mag x = 9218868437227405312 then (if f64.isNeg x then .negInf else .posInf)
      else .fin (if f64.isNeg x then -(f64.scaledMag (f64.mag x) : Int) else (f64.scaledMag (f64.mag x) : Int)) := by
  unfold FloatFmt.ext
  rw [hx]
  simp only [Bool.false_eq_true, if_false, FloatFmt.isInf, f64_infMag', beq_iff_eq, f64_scaledMag_mag]

theorem mixed1 (ma mb sa sb : Nat) (za : (ma = 0 ∧ sa = 0) ∨ (0 < ma ∧ 0 < sa))
    (zb : (mb = 0 ∧ sb = 0) ∨ (0 < mb ∧ 0 < sb)) : icmp (ma : Int) (-(mb : Int)) = icmp (sa : Int) (-(sb : Int)) := by
  unfold icmp
  split <;> split <;> (try split) <;> (try split) <;> first | rfl | (exfalso; omega)
theorem mixed2 (ma mb sa sb : Nat) (za : (ma = 0 ∧ sa = 0) ∨ (0 < ma ∧ 0 < sa))
    (zb : (mb = 0 ∧ sb = 0) ∨ (0 < mb ∧ 0 < sb)) : icmp (-(ma : Int)) (mb : Int) = icmp (-(sa : Int)) (sb : Int) := by
  unfold icmp
  split <;> split <;> (try split) <;> (try split) <;> first | rfl | (exfalso; omega)

theorem ieee_core (I ma mb sa sb : Nat) (na nb : Bool) (hI : 0 < I) (ha : ma ≤ I) (hb : mb ≤ I)
    (za : (ma = 0 ∧ sa = 0) ∨ (0 < ma ∧ 0 < sa)) (zb : (mb = 0 ∧ sb = 0) ∨ (0 < mb ∧ 0 < sb))
    (hc : icmp sa sb = icmp ma mb) (hc' : icmp sb sa = icmp mb ma) :
    icmp (if na then -(ma : Int) else ma) (if nb then -(mb : Int) else mb) =
      Ext.cmp (if ma = I then (if na then .negInf else .posInf) else .fin (if na then -(sa : Int) else sa))
        (if mb = I then (if nb then .negInf else .posInf) else .fin (if nb then -(sb : Int) else sb)) := by
  cases na <;> cases nb <;> simp only [Bool.false_eq_true, if_false, if_true] <;>
    by_cases h1 : ma = I <;> by_cases h2 : mb = I <;>
    simp only [h1, h2, if_true, if_false, Ext.cmp, Ext.rank] <;>
    first
    | exact hc.symm
    | (rw [icmp_neg, icmp_neg]; exact hc'.symm)
    | exact mixed1 _ _ _ _ za zb
    | exact mixed2 _ _ _ _ za zb
    | (unfold icmp
       split <;> split <;> (try split) <;> (try split) <;> first | rfl | (exfalso; omega))

/-- IEEE comparison of bit patterns (sign, then exponent field and fraction as one magnitude) is comparison of the
    exact values: for all non-NaN `f64` bit patterns. -/
theorem ieeeCmp_eq_ext (a b : Nat) (ha : f64.isNaN a = false) (hb : f64.isNaN b = false) :
    ieeeCmp a b = some (Ext.cmp (f64.ext a) (f64.ext b)) := by
  have hma := f64_mag_lt a
  have hmb := f64_mag_lt b
  rw [f64_ext_def a ha, f64_ext_def b hb]
  unfold ieeeCmp f64Key
  rw [ha, hb]
  simp only [Bool.or_self, Bool.false_eq_true, if_false, Option.some.injEq]
  simp only [FloatFmt.isNaN, f64_infMag', decide_eq_false_iff_not, Nat.not_lt] at ha hb
  have hz := f64_scaledMag_zero
  have za : (f64.mag a = 0 ∧ f64.scaledMag (f64.mag a) = 0) ∨ (0 < f64.mag a ∧ 0 < f64.scaledMag (f64.mag a)) := by
    rcases Nat.eq_zero_or_pos (f64.mag a) with h | h
    · left; exact ⟨h, by rw [h]; exact hz⟩
    · right; exact ⟨h, f64_scaledMag_pos _ hma h⟩
  have zb : (f64.mag b = 0 ∧ f64.scaledMag (f64.mag b) = 0) ∨ (0 < f64.mag b ∧ 0 < f64.scaledMag (f64.mag b)) := by
    rcases Nat.eq_zero_or_pos (f64.mag b) with h | h
    · left; exact ⟨h, by rw [h]; exact hz⟩
    · right; exact ⟨h, f64_scaledMag_pos _ hmb h⟩
  exact ieee_core _ _ _ _ _ _ _ (by omega) ha hb za zb (icmp_scaledMag _ _ hma hmb) (icmp_scaledMag _ _ hmb hma)

theorem roundShift_nonneg (m : Nat) (sh : Int) (h : 0 ≤ sh) : roundShift m sh = m * 2 ^ sh.toNat := by
  unfold roundShift; rw [if_pos h]

theorem f64_roundMag_formula (m s : Nat) (hm : 0 < m) (hL : m.log2 ≤ 52) :
    f64.roundMag m ((s : Int) - 1074) =
      min ((if 52 ≤ m.log2 + s then m.log2 + s - 52 else 0) * 4503599627370496
            + m * 2 ^ (if 52 ≤ m.log2 + s then 52 - m.log2 else s)) 9218868437227405312 := by
  unfold FloatFmt.roundMag
  rw [if_neg (by omega)]
  simp only [FloatFmt.bias, FloatFmt.infMag, FloatFmt.emax, f64, Nat.reducePow, Nat.reduceSub, Nat.reduceMul]
  generalize m.log2 = L at *
  rw [roundShift_nonneg _ _ (by omega)]
  have e1 : ((s : Int) - 1074 - (max ((L : Int) + ((s : Int) - 1074)) (1 - ((1023 : Nat) : Int)) - ((52 : Nat) : Int))).toNat
      = (if 52 ≤ L + s then 52 - L else s) := by
    split <;> omega
  have e2 : (max ((L : Int) + ((s : Int) - 1074)) (1 - ((1023 : Nat) : Int)) + ((1023 : Nat) : Int) - 1).toNat
      = (if 52 ≤ L + s then L + s - 52 else 0) := by
    split <;> omega
  rw [e1, e2]

theorem pow_split (a b c : Nat) (h : a + b = c) : 2 ^ a * 2 ^ b = 2 ^ c := by
  rw [← Nat.pow_add, h]

theorem rm_aux1 (L s M : Nat) (hM1 : 4503599627370496 ≤ M) (hM2 : M < 9007199254740992) (hs : L + s ≤ 2097) :
    min ((L + s - 52) * 4503599627370496 + M) 9218868437227405312 = (L + s - 52) * 4503599627370496 + M ∧
    (L + s - 52) * 4503599627370496 + M < 9218868437227405312 ∧
    ((L + s - 52) * 4503599627370496 + M) / 4503599627370496 = L + s - 52 + 1 ∧
    ((L + s - 52) * 4503599627370496 + M) % 4503599627370496 = M - 4503599627370496 ∧
    4503599627370496 + (M - 4503599627370496) = M ∧ max (L + s - 52 + 1) 1 - 1 = L + s - 52 := by
  omega

theorem rm_aux2 (M : Nat) (h : M < 4503599627370496) :
    min (0 * 4503599627370496 + M) 9218868437227405312 = M ∧ M / 4503599627370496 = 0 ∧ M % 4503599627370496 = M := by
  omega

/-- If no bit is lost (the significand has at most 53 bits) and the exponent is in range, rounding to `f64` is exact:
    the result is finite and decodes to `m · 2^s` (in units of 2^-1074). -/
theorem f64_roundMag_exact (m s : Nat) (hm : 0 < m) (hL : m.log2 ≤ 52) (hs : m.log2 + s ≤ 2097) :
    f64.roundMag m ((s : Int) - 1074) < 9218868437227405312 ∧
      f64.scaledMag (f64.roundMag m ((s : Int) - 1074)) = m * 2 ^ s := by
  rw [f64_roundMag_formula m s hm hL]
  have hlo : 2 ^ m.log2 ≤ m := Nat.log2_self_le (by omega)
  have hhi : m < 2 ^ (m.log2 + 1) := Nat.lt_log2_self
  generalize m.log2 = L at *
  by_cases hn : 52 ≤ L + s
  · simp only [if_pos hn]
    have hP : 2 ^ L * 2 ^ (52 - L) = 4503599627370496 := by rw [pow_split L (52 - L) 52 (by omega)]
    have hP2 : 2 ^ (L + 1) * 2 ^ (52 - L) = 9007199254740992 := by rw [pow_split (L + 1) (52 - L) 53 (by omega)]
    have hM1 : 4503599627370496 ≤ m * 2 ^ (52 - L) := by
      rw [← hP]; exact Nat.mul_le_mul_right _ hlo
    have hM2 : m * 2 ^ (52 - L) < 9007199254740992 := by
      rw [← hP2]; exact Nat.mul_lt_mul_of_lt_of_le hhi (Nat.le_refl _) (Nat.pow_pos (by omega))
    have hfin : m * 2 ^ s = m * 2 ^ (52 - L) * 2 ^ (L + s - 52) := by
      rw [Nat.mul_assoc, pow_split (52 - L) (L + s - 52) s (by omega)]
    rw [hfin]
    obtain ⟨a1, a2, a3, a4, a5, a6⟩ := rm_aux1 L s _ hM1 hM2 hs
    rw [a1]
    refine ⟨a2, ?_⟩
    rw [f64_scaledMag_def _ (Nat.lt_trans a2 (by omega)), a3, a4, if_neg (by omega), a5, a6]
  · simp only [if_neg hn]
    have hlt : m * 2 ^ s < 4503599627370496 := by
      have h1 : m * 2 ^ s < 2 ^ (L + 1) * 2 ^ s := Nat.mul_lt_mul_of_lt_of_le hhi (Nat.le_refl _) (Nat.pow_pos (by omega))
      rw [pow_split (L + 1) s (L + 1 + s) rfl] at h1
      have h52 : 2 ^ (L + 1 + s) ≤ 2 ^ 52 := Nat.pow_le_pow_right (by omega) (by omega)
      exact Nat.lt_of_lt_of_le h1 h52
    obtain ⟨a1, a2, a3⟩ := rm_aux2 _ hlt
    rw [a1]
    refine ⟨Nat.lt_trans hlt (by omega), ?_⟩
    rw [f64_scaledMag_def _ (Nat.lt_trans hlt (by omega)), a2, a3]
    simp only [if_true, Nat.zero_le, Nat.max_eq_right, Nat.sub_self, Nat.pow_zero, Nat.mul_one]

theorem log2_mul_pow2 (m j : Nat) (hm : 0 < m) : (m * 2 ^ j).log2 = m.log2 + j := by
  have hlo : 2 ^ m.log2 ≤ m := Nat.log2_self_le (by omega)
  have hhi : m < 2 ^ (m.log2 + 1) := Nat.lt_log2_self
  have hpos : 0 < 2 ^ j := Nat.pow_pos (by omega)
  rw [Nat.log2_eq_iff (Nat.ne_of_gt (Nat.mul_pos hm hpos))]
  constructor
  · rw [← pow_split m.log2 j _ rfl]; exact Nat.mul_le_mul_right _ hlo
  · rw [← pow_split (m.log2 + 1) j (m.log2 + j + 1) (by omega)]
    exact Nat.mul_lt_mul_of_lt_of_le hhi (Nat.le_refl _) hpos

theorem roundShift_scale (m j : Nat) (sh : Int) :
    roundShift (m * 2 ^ j) (sh - (j : Int)) = roundShift m sh := by
  unfold roundShift
  by_cases h1 : 0 ≤ sh - (j : Int)
  · rw [if_pos h1, if_pos (by omega), Nat.mul_assoc, pow_split j (sh - (j : Int)).toNat sh.toNat (by omega)]
  · rw [if_neg h1]
    by_cases h2 : 0 ≤ sh
    · rw [if_pos h2]
      -- the shift only removes zeros that the scaling put there
      obtain ⟨a, rfl⟩ := Int.eq_ofNat_of_zero_le h2
      have hs : (-((a : Int) - (j : Int))).toNat + a = j := by omega
      have hs1 : 1 ≤ (-((a : Int) - (j : Int))).toNat := by omega
      simp only [Int.toNat_natCast]
      generalize (-((a : Int) - (j : Int))).toNat = s' at *
      subst hs
      have e1 : m * 2 ^ (s' + a) = (m * 2 ^ a) * 2 ^ s' := by
        rw [Nat.mul_assoc, pow_split a s' (s' + a) (by omega)]
      have hp : 0 < 2 ^ s' := Nat.pow_pos (by omega)
      have hq : 0 < 2 ^ (s' - 1) := Nat.pow_pos (by omega)
      simp only [e1, Nat.mul_div_cancel _ hp, Nat.mul_mod_left]
      rw [if_neg (by omega)]
    · rw [if_neg h2]
      have hs : (-(sh - (j : Int))).toNat = (-sh).toNat + j := by omega
      rw [hs]
      generalize (-sh).toNat = s at *
      have hs1 : 1 ≤ s := by omega
      have hpj : 0 < 2 ^ j := Nat.pow_pos (by omega)
      have e1 : 2 ^ (s + j) = 2 ^ s * 2 ^ j := (pow_split s j _ rfl).symm
      have e2 : 2 ^ (s + j - 1) = 2 ^ (s - 1) * 2 ^ j := (pow_split (s - 1) j _ (by omega)).symm
      simp only [e1, e2, Nat.mul_div_mul_right _ _ hpj, Nat.mul_mod_mul_right]
      have c1 : (m % 2 ^ s * 2 ^ j > 2 ^ (s - 1) * 2 ^ j) ↔ (m % 2 ^ s > 2 ^ (s - 1)) :=
        Nat.mul_lt_mul_right hpj
      have c2 : (m % 2 ^ s * 2 ^ j = 2 ^ (s - 1) * 2 ^ j) ↔ (m % 2 ^ s = 2 ^ (s - 1)) :=
        Nat.mul_right_cancel_iff hpj
      simp only [c1, c2]

theorem roundMag_scale (f : FloatFmt) (m j : Nat) (e : Int) (hm : 0 < m) :
    f.roundMag (m * 2 ^ j) (e - (j : Int)) = f.roundMag m e := by
  have hpos : 0 < 2 ^ j := Nat.pow_pos (by omega)
  unfold FloatFmt.roundMag
  rw [if_neg (Nat.ne_of_gt (Nat.mul_pos hm hpos)), if_neg (Nat.ne_of_gt hm), log2_mul_pow2 m j hm]
  have hE : (((m.log2 + j : Nat) : Int) + (e - (j : Int))) = (m.log2 : Int) + e := by omega
  simp only [hE]
  have hsh : e - (j : Int) - (max ((m.log2 : Int) + e) (1 - (f.bias : Int)) - (f.mbits : Int))
      = (e - (max ((m.log2 : Int) + e) (1 - (f.bias : Int)) - (f.mbits : Int))) - (j : Int) := by omega
  rw [hsh, roundShift_scale]

/-- An integer that is representable (`m = S · 2^(t−1074)` with a significand `S` of at most 53 bits and `t` in
    range) converts to `f64` exactly. -/
theorem f64_round_representable (m S t : Nat) (hS : 0 < S) (hL : S.log2 ≤ 52) (ht : S.log2 + t ≤ 2097)
    (h : m * unitScale = S * 2 ^ t) :
    f64.roundMag m 0 < 9218868437227405312 ∧ f64.scaledMag (f64.roundMag m 0) = m * unitScale := by
  have hex := f64_roundMag_exact S t hS hL ht
  have key : f64.roundMag m 0 = f64.roundMag S ((t : Int) - 1074) := by
    by_cases h1 : 1074 ≤ t
    · -- m = S · 2^(t − 1074)
      have hm : m = S * 2 ^ (t - 1074) := by
        have : S * 2 ^ t = S * 2 ^ (t - 1074) * unitScale := by
          rw [Nat.mul_assoc, unitScale, pow_split (t - 1074) 1074 t (by omega)]
        rw [this] at h
        exact Nat.eq_of_mul_eq_mul_right (show 0 < unitScale from Nat.pow_pos (by omega)) h
      rw [hm]
      have := roundMag_scale f64 S (t - 1074) ((t : Int) - 1074) hS
      have e : (t : Int) - 1074 - ((t - 1074 : Nat) : Int) = 0 := by omega
      rw [e] at this
      exact this
    · -- S = m · 2^(1074 − t)
      have hS' : S = m * 2 ^ (1074 - t) := by
        have : m * unitScale = m * 2 ^ (1074 - t) * 2 ^ t := by
          rw [Nat.mul_assoc, unitScale, pow_split (1074 - t) t 1074 (by omega)]
        rw [this] at h
        exact (Nat.eq_of_mul_eq_mul_right (Nat.pow_pos (by omega)) h).symm
      have hm : 0 < m := by
        rcases Nat.eq_zero_or_pos m with h0 | h0
        · rw [h0] at hS'; omega
        · exact h0
      have := roundMag_scale f64 m (1074 - t) 0 hm
      have e : (0 : Int) - ((1074 - t : Nat) : Int) = (t : Int) - 1074 := by omega
      rw [e, ← hS'] at this
      exact this.symm
  rw [key, h]
  exact hex

theorem f64_mag_add_sign (R : Nat) (hR : R < 9223372036854775808) :
    f64.mag (9223372036854775808 + R) = R ∧ f64.isNeg (9223372036854775808 + R) = true ∧
    f64.mag R = R ∧ f64.isNeg R = false := by
  simp only [FloatFmt.mag, FloatFmt.isNeg, FloatFmt.signBit, f64, Nat.reduceAdd, Nat.reducePow, beq_iff_eq,
    beq_eq_false_iff_ne]
  omega

/-- exact value of the `f64` that `intToFloat` produces for a representable integer -/
theorem f64_ext_intToFloat (i : Int) (S t : Nat) (hS : 0 < S) (hL : S.log2 ≤ 52) (ht : S.log2 + t ≤ 2097)
    (h : i.natAbs * unitScale = S * 2 ^ t) :
    f64.ext (intToFloat f64 i) = .fin (i * (unitScale : Int)) := by
  obtain ⟨hfin, hval⟩ := f64_round_representable i.natAbs S t hS hL ht h
  unfold intToFloat
  generalize f64.roundMag i.natAbs 0 = R at *
  have hR : R < 9223372036854775808 := by omega
  obtain ⟨m1, n1, m2, n2⟩ := f64_mag_add_sign R hR
  have hsb : f64.signBit = 9223372036854775808 := by decide
  by_cases hneg : i < 0
  · rw [if_pos hneg, hsb]
    have hnan : f64.isNaN (9223372036854775808 + R) = false := by
      simp only [FloatFmt.isNaN, m1, f64_infMag', decide_eq_false_iff_not]; omega
    rw [f64_ext_def _ hnan, m1, n1, if_neg (by omega), if_pos rfl, hval]
    have : (i.natAbs : Int) = -i := by omega
    rw [Int.natCast_mul, this, Int.neg_mul, Int.neg_neg]
  · rw [if_neg hneg, Nat.zero_add]
    have hnan : f64.isNaN R = false := by
      simp only [FloatFmt.isNaN, m2, f64_infMag', decide_eq_false_iff_not]; omega
    rw [f64_ext_def _ hnan, m2, n2, if_neg (by omega), if_neg (by simp), hval]
    have : (i.natAbs : Int) = i := by omega
    rw [Int.natCast_mul, this]

theorem intToFloat_zero : intToFloat f64 0 = 0 := by decide

/-- integers up to 2^53 in magnitude are exactly representable in `f64` -/
theorem f64_ext_intToFloat_small (i : Int) (h : i.natAbs ≤ 9007199254740992) :
    f64.ext (intToFloat f64 i) = .fin (i * (unitScale : Int)) := by
  by_cases h0 : i = 0
  · subst h0
    have hnan : f64.isNaN 0 = false := by decide
    have hm : f64.mag 0 = 0 := by decide
    have hn : f64.isNeg 0 = false := by decide
    rw [intToFloat_zero, f64_ext_def _ hnan, hm, hn, if_neg (by omega), if_neg (by simp), f64_scaledMag_zero,
      Int.zero_mul]
    rfl
  · by_cases h53 : i.natAbs = 9007199254740992
    · apply f64_ext_intToFloat i 1 1127 (by omega) (by decide) (by decide)
      rw [h53, unitScale, Nat.one_mul, show (9007199254740992 : Nat) = 2 ^ 53 by decide, pow_split 53 1074 1127 rfl]
    · apply f64_ext_intToFloat i i.natAbs 1074 (by omega) ?_ ?_ rfl
      · have : i.natAbs.log2 < 53 := (Nat.log2_lt (by omega)).mpr (by omega)
        omega
      · have : i.natAbs.log2 < 53 := (Nat.log2_lt (by omega)).mpr (by omega)
        omega

theorem f64_scaledMag_inj (a b : Nat) (ha : a < 9223372036854775808) (hb : b < 9223372036854775808)
    (h : f64.scaledMag a = f64.scaledMag b) : a = b := by
  rcases Nat.lt_trichotomy a b with h1 | h1 | h1
  · have := f64_scaledMag_mono a b hb h1; omega
  · exact h1
  · have := f64_scaledMag_mono b a ha h1; omega

theorem f64_bits_split (p : Nat) (hp : p < 18446744073709551616) :
    p = (if f64.isNeg p then 9223372036854775808 else 0) + f64.mag p := by
  simp only [FloatFmt.mag, FloatFmt.isNeg, FloatFmt.signBit, f64, Nat.reduceAdd, Nat.reducePow, beq_iff_eq]
  split <;> omega

theorem f64_ext_nan_iff (p : Nat) : f64.ext p = .nan ↔ f64.isNaN p = true := by
  unfold FloatFmt.ext
  by_cases h : f64.isNaN p = true
  · simp [h]
  · simp only [h, Bool.false_eq_true, if_false, iff_false]
    split
    · split <;> simp
    · simp

/-- two `f64` bit patterns with the same exact value hash alike (they are the same pattern, or the two zeros, or NaNs) -/
theorem f64_ext_inj (p q : Nat) (hp : p < 18446744073709551616) (hq : q < 18446744073709551616)
    (h : f64.ext p = f64.ext q) : canonF64 p = canonF64 q := by
  by_cases hnp : f64.isNaN p = true
  · have hnq : f64.isNaN q = true := (f64_ext_nan_iff q).mp (h ▸ (f64_ext_nan_iff p).mpr hnp)
    simp only [canonF64, hnp, hnq, if_true]
  · have hnq : ¬ f64.isNaN q = true := fun hq' => hnp ((f64_ext_nan_iff p).mp (h.symm ▸ (f64_ext_nan_iff q).mpr hq'))
    simp only [Bool.not_eq_true] at hnp hnq
    rw [f64_ext_def p hnp, f64_ext_def q hnq] at h
    have sp := f64_bits_split p hp
    have sq := f64_bits_split q hq
    have hmp := f64_mag_lt p
    have hmq := f64_mag_lt q
    have hpos_p : 0 < f64.mag p → 0 < f64.scaledMag (f64.mag p) := f64_scaledMag_pos _ hmp
    have hpos_q : 0 < f64.mag q → 0 < f64.scaledMag (f64.mag q) := f64_scaledMag_pos _ hmq
    have hinj := f64_scaledMag_inj (f64.mag p) (f64.mag q) hmp hmq
    have hz := f64_scaledMag_zero
    simp only [canonF64, hnp, hnq, Bool.false_eq_true, if_false]
    generalize f64.mag p = mp at *
    generalize f64.mag q = mq at *
    generalize f64.isNeg p = np at *
    generalize f64.isNeg q = nq at *
    by_cases h1 : mp = 9218868437227405312 <;> by_cases h2 : mq = 9218868437227405312 <;>
      cases np <;> cases nq <;>
      simp only [h1, h2, if_true, if_false, Bool.false_eq_true, reduceCtorEq, Ext.fin.injEq] at h sp sq ⊢
    all_goals
      first
      | omega
      | (have e : mp = mq := hinj (by omega)
         have e2 : p = q := by omega
         rw [e, e2])
      | (have e1 : mp = 0 := by
           rcases Nat.eq_zero_or_pos mp with h0 | h0
           · exact h0
           · have := hpos_p h0; omega
         have e2 : mq = 0 := by
           rcases Nat.eq_zero_or_pos mq with h0 | h0
           · exact h0
           · have := hpos_q h0; omega
         rw [if_pos e1, if_pos e2])

theorem f32_isNeg_eq (b : Nat) (hb : b < 4294967296) : f32.isNeg b = decide (2147483648 ≤ b) := by
  simp only [FloatFmt.isNeg, FloatFmt.signBit, f32, Nat.reduceAdd, Nat.reducePow]
  by_cases h : 2147483648 ≤ b
  · have : b / 2147483648 % 2 = 1 := by omega
    simp [this, h]
  · have : b / 2147483648 % 2 = 0 := by omega
    simp [this, h]
theorem f32_mag_eq (b : Nat) : f32.mag b = b % 2147483648 := by
  simp only [FloatFmt.mag, FloatFmt.signBit, f32, Nat.reduceAdd, Nat.reducePow]
theorem f32_expField_eq (b : Nat) : f32.expField b = b / 8388608 % 256 := by
  simp only [FloatFmt.expField, f32, Nat.reducePow]
theorem f32_frac_eq (b : Nat) : f32.frac b = b % 8388608 := by
  simp only [FloatFmt.frac, f32, Nat.reducePow]
theorem f32_infMag : f32.infMag = 2139095040 := by decide

theorem widen_nan (b : Nat) (hb : b < 4294967296) (h : f32.isNaN b = true) : f64.isNaN (widen b) = true := by
  have hy : f32.frac b % f32.quietBit * 536870912 < 2251799813685248 := by
    have : f32.quietBit = 4194304 := by decide
    rw [this]
    have : f32.frac b % 4194304 < 4194304 := Nat.mod_lt _ (by omega)
    omega
  unfold widen
  rw [if_pos h]
  have hsb : f64.signBit = 9223372036854775808 := by decide
  have hq64 : f64.quietBit = 2251799813685248 := by decide
  generalize f32.frac b % f32.quietBit * 536870912 = y at *
  simp only [FloatFmt.isNaN, FloatFmt.mag, hsb, f64_infMag', hq64, decide_eq_true_eq]
  split <;> omega

theorem widen_inf (b : Nat) (hb : b < 4294967296) (h1 : f32.isNaN b = false) (h2 : f32.isInf b = true) :
    f64.ext (widen b) = if f32.isNeg b then .negInf else .posInf := by
  unfold widen
  rw [h1, h2]
  simp only [Bool.false_eq_true, if_false, if_true]
  have hsb : f64.signBit = 9223372036854775808 := by decide
  rw [hsb, f64_infMag']
  cases f32.isNeg b <;> simp only [Bool.false_eq_true, if_false, if_true] <;> decide


theorem f32_scaleOff : f32.scaleOff = 925 := by decide

theorem f32_sig_lt (b : Nat) : f32.sig b < 16777216 := by
  have hp : 2 ^ f32.mbits = 8388608 := by decide
  simp only [FloatFmt.sig, f32_frac_eq, hp]
  split <;> omega

theorem f32_qexp_eq (b : Nat) : f32.qexp b = ((max (f32.expField b) 1 + 924 : Nat) : Int) - 1074 := by
  have hb : f32.bias = 127 := by decide
  have hm : f32.mbits = 23 := rfl
  simp only [FloatFmt.qexp, hb, hm]
  omega

theorem widen_finite (b : Nat) (hb : b < 4294967296) (h1 : f32.isNaN b = false) (h2 : f32.isInf b = false) :
    f64.ext (widen b) =
      .fin (if f32.isNeg b then -(f32.scaledMag b : Int) else (f32.scaledMag b : Int)) := by
  have hsb : f64.signBit = 9223372036854775808 := by decide
  have hexp : f32.expField b ≤ 255 := by rw [f32_expField_eq]; omega
  unfold widen
  rw [h1, h2]
  simp only [Bool.false_eq_true, if_false, hsb]
  -- the rounded magnitude is finite and decodes to the f32's own value
  have hR : f64.roundMag (f32.sig b) (f32.qexp b) < 9218868437227405312 ∧
      f64.scaledMag (f64.roundMag (f32.sig b) (f32.qexp b)) = f32.scaledMag b := by
    by_cases h0 : f32.sig b = 0
    · have : f64.roundMag 0 (f32.qexp b) = 0 := by simp [FloatFmt.roundMag]
      rw [h0, this]
      refine ⟨by omega, ?_⟩
      rw [f64_scaledMag_zero, FloatFmt.scaledMag, h0, Nat.zero_mul]
    · have hlt := f32_sig_lt b
      have hlog : (f32.sig b).log2 < 24 := (Nat.log2_lt h0).mpr (by omega)
      rw [f32_qexp_eq]
      obtain ⟨e1, e2⟩ := f64_roundMag_exact (f32.sig b) (max (f32.expField b) 1 + 924) (by omega) (by omega) (by omega)
      refine ⟨e1, ?_⟩
      rw [e2, FloatFmt.scaledMag, f32_scaleOff]
      congr 2
      omega
  obtain ⟨hfin, hval⟩ := hR
  generalize f64.roundMag (f32.sig b) (f32.qexp b) = R at *
  obtain ⟨m1, n1, m2, n2⟩ := f64_mag_add_sign R (by omega)
  cases f32.isNeg b
  · simp only [Bool.false_eq_true, if_false, Nat.zero_add]
    have hnan : f64.isNaN R = false := by
      simp only [FloatFmt.isNaN, m2, f64_infMag', decide_eq_false_iff_not]; omega
    rw [f64_ext_def _ hnan, m2, n2, if_neg (by omega), if_neg (by simp), hval]
  · simp only [if_true]
    have hnan : f64.isNaN (9223372036854775808 + R) = false := by
      simp only [FloatFmt.isNaN, m1, f64_infMag', decide_eq_false_iff_not]; omega
    rw [f64_ext_def _ hnan, m1, n1, if_neg (by omega), if_pos rfl, hval]

/-- `f32 as f64` is exact: the widened bit pattern denotes the same extended real (NaN to NaN, ±∞ to ±∞). -/
theorem widen_exact (b : Nat) (hb : b < 4294967296) : f64.ext (widen b) = f32.ext b := by
  unfold FloatFmt.ext
  by_cases h1 : f32.isNaN b = true
  · have := widen_nan b hb h1
    rw [h1, if_pos rfl]
    exact (f64_ext_nan_iff _).mpr this
  · simp only [Bool.not_eq_true] at h1
    by_cases h2 : f32.isInf b = true
    · have := widen_inf b hb h1 h2
      rw [h1, h2]
      simp only [Bool.false_eq_true, if_false, if_true]
      exact this
    · simp only [Bool.not_eq_true] at h2
      have := widen_finite b hb h1 h2
      rw [h1, h2]
      simp only [Bool.false_eq_true, if_false]
      exact this

theorem unitScale_pos' : 0 < unitScale := by unfold unitScale; exact Nat.pow_pos (by omega)

theorem roundMag_le (f : FloatFmt) (m : Nat) (e : Int) : f.roundMag m e ≤ f.infMag := by
  unfold FloatFmt.roundMag
  split
  · exact Nat.zero_le _
  · exact Nat.min_le_right _ _

theorem intToFloat_lt (i : Int) : intToFloat f64 i < 18446744073709551616 := by
  have := roundMag_le f64 i.natAbs 0
  have hsb : f64.signBit = 9223372036854775808 := by decide
  rw [f64_infMag'] at this
  unfold intToFloat
  rw [hsb]
  split <;> omega

theorem widen_lt (b : Nat) : widen b < 18446744073709551616 := by
  have h1 := roundMag_le f64 (f32.sig b) (f32.qexp b)
  have hsb : f64.signBit = 9223372036854775808 := by decide
  have hq64 : f64.quietBit = 2251799813685248 := by decide
  have hq32 : f32.quietBit = 4194304 := by decide
  rw [f64_infMag'] at h1
  unfold widen
  simp only [hsb, f64_infMag', hq64, hq32]
  have : f32.frac b % 4194304 < 4194304 := Nat.mod_lt _ (by omega)
  generalize f32.frac b % 4194304 = y at *
  split <;> split <;> (try split) <;> omega

/-- every numeric value has an `f64` image, a 64-bit pattern -/
theorem toF64_some (v : Value) (hw : v.Wf) (hc : v.cls = 2) : ∃ t, v.toF64 = some t ∧ t < 18446744073709551616 := by
  cases v <;> simp only [Value.cls] at hc <;> first | omega | skip
  · exact ⟨_, rfl, intToFloat_lt _⟩
  · exact ⟨_, rfl, intToFloat_lt _⟩
  · exact ⟨_, rfl, intToFloat_lt _⟩
  · exact ⟨_, rfl, intToFloat_lt _⟩
  · exact ⟨_, rfl, widen_lt _⟩
  · exact ⟨_, rfl, hw⟩

theorem toF64_int (v : Value) (i : Int) (h : v.intVal = some i) : v.toF64 = some (intToFloat f64 i) := by
  cases v <;> simp only [Value.intVal, Option.some.injEq, reduceCtorEq] at h <;> subst h <;> rfl

theorem ext_int (v : Value) (i : Int) (h : v.intVal = some i) : v.ext = some (.fin (i * (unitScale : Int))) := by
  cases v <;> simp only [Value.intVal, Option.some.injEq, reduceCtorEq] at h <;> subst h <;> rfl

/-- a numeric value is an integer or a float whose exact value is (trivially) an `f64` value -/
theorem int_or_repr (v : Value) (hw : v.Wf) (x : Ext) (hx : v.ext = some x) :
    (∃ i, v.intVal = some i) ∨ (∃ d, d < 18446744073709551616 ∧ f64.ext d = x ∧ v.toF64 = some d) := by
  cases v <;> simp only [Value.ext, Option.some.injEq, reduceCtorEq] at hx
  · exact Or.inl ⟨_, rfl⟩
  · exact Or.inl ⟨_, rfl⟩
  · exact Or.inl ⟨_, rfl⟩
  · exact Or.inl ⟨_, rfl⟩
  · rename_i b
    exact Or.inr ⟨widen b, widen_lt b, by rw [widen_exact b hw, hx], rfl⟩
  · rename_i b
    exact Or.inr ⟨b, hw, hx, rfl⟩

theorem f64_ext_zero : f64.ext (intToFloat f64 0) = .fin (0 * (unitScale : Int)) :=
  f64_ext_intToFloat_small 0 (by decide)

/-- an integer whose value is the value of some `f64` converts to `f64` without rounding -/
theorem int_repr_exact (i : Int) (d : Nat) (h : f64.ext d = .fin (i * (unitScale : Int))) :
    f64.ext (intToFloat f64 i) = .fin (i * (unitScale : Int)) := by
  have hnan : f64.isNaN d = false := by
    cases hn : f64.isNaN d
    · rfl
    · rw [(f64_ext_nan_iff d).mpr hn] at h; exact absurd h (by simp)
  have hm := f64_mag_lt d
  rw [f64_ext_def d hnan] at h
  have hnan' := hnan
  simp only [FloatFmt.isNaN, f64_infMag', decide_eq_false_iff_not, Nat.not_lt] at hnan'
  split at h
  · split at h <;> exact absurd h (by simp)
  · rename_i hfin
    simp only [Ext.fin.injEq] at h
    -- |i| · 2^1074 is the magnitude of d
    have habs : i.natAbs * unitScale = f64.scaledMag (f64.mag d) := by
      have hu := unitScale_pos'
      have e1 : ((i.natAbs * unitScale : Nat) : Int) = (i * (unitScale : Int)).natAbs := by
        rw [Int.natAbs_mul, Int.natAbs_natCast]
      have e2 : (i * (unitScale : Int)).natAbs = f64.scaledMag (f64.mag d) := by
        rw [← h]; split <;> simp
      omega
    rw [f64_scaledMag_def _ hm] at habs
    generalize hsig : (if f64.mag d / 4503599627370496 = 0 then f64.mag d % 4503599627370496
      else 4503599627370496 + f64.mag d % 4503599627370496) = sig at habs
    have hsig_lt : sig < 9007199254740992 := by rw [← hsig]; split <;> omega
    by_cases h0 : sig = 0
    · have : i = 0 := by
        rw [h0, Nat.zero_mul] at habs
        have hu := unitScale_pos'
        rcases Nat.eq_zero_or_pos i.natAbs with hz | hz
        · omega
        · have := Nat.mul_pos hz hu; omega
      subst this
      exact f64_ext_zero
    · have hlog : sig.log2 < 53 := (Nat.log2_lt h0).mpr (by omega)
      exact f64_ext_intToFloat i sig (max (f64.mag d / 4503599627370496) 1 - 1) (by omega) (by omega) (by omega) habs

theorem eqKey_num_ext (v : Value) (x : Ext) (h : v.eqKey = .num x) : v.ext = some x := by
  cases v <;> simp only [Value.eqKey, EqKey.num.injEq, reduceCtorEq] at h <;> subst h <;> rfl

theorem hashKey_num (v : Value) (t : Nat) (hc : v.cls = 2) (ht : v.toF64 = some t) :
    hashKey {} v = 2 :: le64 (canonF64 t) := by
  cases v <;> simp only [Value.cls] at hc <;> first | omega | skip
  all_goals simp only [hashKey, ht, Bool.false_eq_true, if_false]

/-- for numeric values: equal exact values have `f64` images with equal canonical bits -/
theorem canon_of_ext_eq (a b : Value) (ha : a.Wf) (hb : b.Wf) (x : Ext) (hxa : a.ext = some x) (hxb : b.ext = some x)
    (ta tb : Nat) (hta : a.toF64 = some ta) (htb : b.toF64 = some tb) : canonF64 ta = canonF64 tb := by
  have key : ∀ (v : Value), v.Wf → v.ext = some x → (∃ d, f64.ext d = x) → ∀ t, v.toF64 = some t →
      t < 18446744073709551616 ∧ f64.ext t = x := by
    intro v hv hx ⟨d, hd⟩ t ht
    rcases int_or_repr v hv x hx with ⟨i, hi⟩ | ⟨d', hd'lt, hd'x, hd't⟩
    · rw [toF64_int v i hi] at ht
      simp only [Option.some.injEq] at ht
      subst ht
      rw [ext_int v i hi] at hx
      simp only [Option.some.injEq] at hx
      subst hx
      exact ⟨intToFloat_lt i, int_repr_exact i d hd⟩
    · rw [hd't] at ht
      simp only [Option.some.injEq] at ht
      subst ht
      exact ⟨hd'lt, hd'x⟩
  rcases int_or_repr a ha x hxa with ⟨i, hi⟩ | ⟨d, _, hdx, _⟩
  · rcases int_or_repr b hb x hxb with ⟨j, hj⟩ | ⟨d, _, hdx, _⟩
    · -- both integers: the same integer
      rw [ext_int a i hi] at hxa
      rw [ext_int b j hj] at hxb
      simp only [Option.some.injEq] at hxa hxb
      have hij : i * (unitScale : Int) = j * (unitScale : Int) := by
        have := hxa.trans hxb.symm
        simpa using this
      have hu : (0 : Int) < (unitScale : Int) := by have := unitScale_pos'; omega
      have : i = j := Int.eq_of_mul_eq_mul_right (by omega) hij
      subst this
      rw [toF64_int a i hi] at hta
      rw [toF64_int b i hj] at htb
      simp only [Option.some.injEq] at hta htb
      rw [← hta, ← htb]
    · obtain ⟨l1, e1⟩ := key a ha hxa ⟨d, hdx⟩ ta hta
      obtain ⟨l2, e2⟩ := key b hb hxb ⟨d, hdx⟩ tb htb
      exact f64_ext_inj ta tb l1 l2 (e1.trans e2.symm)
  · obtain ⟨l1, e1⟩ := key a ha hxa ⟨d, hdx⟩ ta hta
    obtain ⟨l2, e2⟩ := key b hb hxb ⟨d, hdx⟩ tb htb
    exact f64_ext_inj ta tb l1 l2 (e1.trans e2.symm)


/-! ### the shipped comparison (through `f64`, IEEE NaN, raw-bit hashing) on the fragment where it is right -/


/-- Values on which comparing through `f64` is harmless: integers of magnitude ≤ 2^53, no NaN. -/
def Value.Safe : Value → Prop
  | .bigint i => i.natAbs ≤ 9007199254740992
  | .biguint n => n ≤ 9007199254740992
  | .float b => f32.isNaN b = false
  | .double b => f64.isNaN b = false
  | _ => True

instance (v : Value) : Decidable v.Safe := by
  cases v <;> unfold Value.Safe <;> infer_instance

theorem f32_ext_nan_iff (p : Nat) : f32.ext p = .nan ↔ f32.isNaN p = true := by
  unfold FloatFmt.ext
  by_cases h : f32.isNaN p = true
  · simp [h]
  · simp only [h, Bool.false_eq_true, if_false, iff_false]
    split
    · split <;> simp
    · simp

/-- on safe values the `f64` image has exactly the value of the original, and it is not NaN -/
theorem safe_image (v : Value) (hw : v.Wf) (hs : v.Safe) (x : Ext) (hx : v.ext = some x) :
    v.toF64.map f64.ext = some x ∧ x ≠ .nan := by
  cases v <;> simp only [Value.ext, Option.some.injEq, reduceCtorEq] at hx <;> subst hx <;>
    simp only [Value.toF64, Option.map_some, Option.some.injEq]
  · rename_i i
    simp only [Value.Wf] at hw
    exact ⟨f64_ext_intToFloat_small i (by omega), by simp⟩
  · rename_i i
    exact ⟨f64_ext_intToFloat_small i hs, by simp⟩
  · rename_i n
    simp only [Value.Wf] at hw
    exact ⟨f64_ext_intToFloat_small n (by omega), by simp⟩
  · rename_i n
    exact ⟨f64_ext_intToFloat_small n (by simp only [Value.Safe] at hs; omega), by simp⟩
  · rename_i b
    refine ⟨widen_exact b hw, ?_⟩
    intro h
    have := (f32_ext_nan_iff b).mp h
    simp only [Value.Safe] at hs
    rw [hs] at this; exact absurd this (by simp)
  · rename_i b
    refine ⟨trivial, ?_⟩
    intro h
    have := (f64_ext_nan_iff b).mp h
    simp only [Value.Safe] at hs
    rw [hs] at this; exact absurd this (by simp)

theorem numCmp_shipped_safe (a b : Value) (ha : a.Wf) (hb : b.Wf) (sa : a.Safe) (sb : b.Safe)
    (x y : Ext) (hx : a.ext = some x) (hy : b.ext = some y) :
    numCmp Defects.asShipped a b = numCmp {} a b := by
  obtain ⟨ia, na⟩ := safe_image a ha sa x hx
  obtain ⟨ib, nb⟩ := safe_image b hb sb y hy
  rw [numCmp_spec a b x y hx hy]
  simp only [numCmp, Defects.asShipped, if_true, ia, ib, true_and]
  rw [if_neg (by simp only [not_or]; exact ⟨na, nb⟩)]


set_option linter.unusedSimpArgs false in
theorem cmp_num_D (D : Defects) (a b : Value) (ca : a.cls = 2) (cb : b.cls = 2) :
    partialCmp D a b = numCmp D a b ∧ eq D a b = (numCmp D a b == some .eq) := by
  cases a <;> simp only [Value.cls, Nat.reduceEqDiff] at ca <;> cases b <;> simp only [Value.cls, Nat.reduceEqDiff] at cb <;>
    simp only [partialCmp, eq, Value.cls, and_self, if_true]

set_option linter.unusedSimpArgs false in
theorem cmp_nonnum_D (D D' : Defects) (a b : Value) (h : ¬ (a.cls = 2 ∧ b.cls = 2)) :
    partialCmp D a b = partialCmp D' a b ∧ eq D a b = eq D' a b := by
  cases a <;> cases b <;> simp only [Value.cls, Nat.reduceEqDiff, and_self, not_true_eq_false] at h <;>
    simp only [partialCmp, eq, Value.cls, Nat.reduceEqDiff, and_false, false_and, if_false, and_self]

/-- On safe values (integers up to 2^53 in magnitude, no NaN) the shipped comparison through `f64` is the
    comparison by exact mathematical value. -/
theorem shipped_cmp_agrees (a b : Value) (ha : a.Wf) (hb : b.Wf) (sa : a.Safe) (sb : b.Safe) :
    partialCmp Defects.asShipped a b = partialCmp {} a b ∧ eq Defects.asShipped a b = eq {} a b := by
  by_cases h : a.cls = 2 ∧ b.cls = 2
  · obtain ⟨x, hx⟩ := (ext_isSome_iff a).mp h.1
    obtain ⟨y, hy⟩ := (ext_isSome_iff b).mp h.2
    have hn := numCmp_shipped_safe a b ha hb sa sb x y hx hy
    obtain ⟨p1, e1⟩ := cmp_num_D Defects.asShipped a b h.1 h.2
    obtain ⟨p2, e2⟩ := cmp_num_D {} a b h.1 h.2
    rw [p1, p2, e1, e2, hn]
    exact ⟨rfl, rfl⟩
  · exact cmp_nonnum_D _ _ a b h

/-- With both comparison defects on, the model's numeric comparison *is* IEEE `partial_cmp` of the two `f64`
    images on their bit patterns — what `a.to_f64().partial_cmp(&b.to_f64())` computes. -/
theorem shipped_numCmp_is_ieee (a b : Value) (ta tb : Nat) (hta : a.toF64 = some ta) (htb : b.toF64 = some tb) :
    numCmp Defects.asShipped a b = ieeeCmp ta tb := by
  simp only [numCmp, Defects.asShipped, if_true, hta, htb, Option.map_some, true_and]
  by_cases h1 : f64.isNaN ta = true
  · have := (f64_ext_nan_iff ta).mpr h1
    simp only [ieeeCmp, h1, Bool.true_or, if_true, this, true_or]
  · by_cases h2 : f64.isNaN tb = true
    · have := (f64_ext_nan_iff tb).mpr h2
      simp only [ieeeCmp, h2, Bool.or_true, if_true, this, or_true]
    · simp only [Bool.not_eq_true] at h1 h2
      have n1 : f64.ext ta ≠ .nan := fun h => by rw [(f64_ext_nan_iff ta).mp h] at h1; exact absurd h1 (by simp)
      have n2 : f64.ext tb ≠ .nan := fun h => by rw [(f64_ext_nan_iff tb).mp h] at h2; exact absurd h2 (by simp)
      rw [if_neg (by simp only [not_or]; exact ⟨n1, n2⟩), ieeeCmp_eq_ext ta tb h1 h2]


theorem hashKey_num_raw (v : Value) (t : Nat) (hc : v.cls = 2) (ht : v.toF64 = some t) :
    hashKey Defects.asShipped v = 2 :: le64 t := by
  cases v <;> simp only [Value.cls, Nat.reduceEqDiff] at hc
  all_goals simp only [hashKey, ht, Defects.asShipped, if_true]

theorem canon_id (t : Nat) (ht : t < 18446744073709551616) (hn : f64.isNaN t = false) (hz : t ≠ 9223372036854775808) :
    canonF64 t = t := by
  simp only [canonF64, hn, Bool.false_eq_true, if_false]
  split
  · rename_i h
    simp only [FloatFmt.mag, FloatFmt.signBit, f64, Nat.reduceAdd, Nat.reducePow] at h
    omega
  · rfl

/-- As shipped, equal values hash equally except where a negative zero is involved. -/
theorem shipped_eq_imp_hash_eq (a b : Value) (ha : a.Wf) (hb : b.Wf)
    (hza : a.toF64 ≠ some 9223372036854775808) (hzb : b.toF64 ≠ some 9223372036854775808)
    (h : eq Defects.asShipped a b = true) : hashKey Defects.asShipped a = hashKey Defects.asShipped b := by
  by_cases hc : a.cls = 2 ∧ b.cls = 2
  · obtain ⟨ta, hta, lta⟩ := toF64_some a ha hc.1
    obtain ⟨tb, htb, ltb⟩ := toF64_some b hb hc.2
    rw [(cmp_num_D Defects.asShipped a b hc.1 hc.2).2] at h
    simp only [numCmp, Defects.asShipped, if_true, hta, htb, Option.map_some, true_and, beq_iff_eq] at h
    split at h
    · exact absurd h (by simp)
    · rename_i hnn
      simp only [not_or] at hnn
      simp only [Option.some.injEq, Ext.cmp_eq_iff] at h
      have hcanon := f64_ext_inj ta tb lta ltb h
      have n1 : f64.isNaN ta = false := by
        cases hn : f64.isNaN ta
        · rfl
        · exact absurd ((f64_ext_nan_iff ta).mpr hn) hnn.1
      have n2 : f64.isNaN tb = false := by
        cases hn : f64.isNaN tb
        · rfl
        · exact absurd ((f64_ext_nan_iff tb).mpr hn) hnn.2
      rw [canon_id ta lta n1 (fun e => hza (by rw [hta, e])), canon_id tb ltb n2 (fun e => hzb (by rw [htb, e]))] at hcanon
      rw [hashKey_num_raw a ta hc.1 hta, hashKey_num_raw b tb hc.2 htb, hcanon]
  · rw [(cmp_nonnum_D Defects.asShipped {} a b hc).2, eq_iff_key] at h
    cases a <;> cases b <;> simp only [Value.eqKey, reduceCtorEq, EqKey.bool.injEq, EqKey.blob.injEq] at h <;>
      first
      | rfl
      | (subst h; rfl)
      | (exfalso; exact hc ⟨rfl, rfl⟩)

end AxVerif.Value
