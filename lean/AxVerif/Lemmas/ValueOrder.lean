/-
  Helper lemmas for the value model (C19): equality, ordering, hashing of `Value`.
-/
import AxVerif.Lemmas.Value
namespace AxVerif.Value
open AxVerif

theorem icmp_eq_iff (a b : Int) : icmp a b = .eq ↔ a = b := by
  unfold icmp; split
  · simp; omega
  · split <;> simp_all
theorem icmp_lt_iff (a b : Int) : icmp a b = .lt ↔ a < b := by
  unfold icmp; split
  · simp_all
  · split <;> simp_all
theorem icmp_gt_iff (a b : Int) : icmp a b = .gt ↔ b < a := by
  unfold icmp; split
  · simp; omega
  · split
    · simp; omega
    · simp; omega
theorem icmp_swap (a b : Int) : icmp b a = (icmp a b).swap := by
  unfold icmp
  by_cases h1 : a < b
  · rw [if_pos h1, if_neg (by omega), if_neg (by omega)]; rfl
  · by_cases h2 : a = b
    · subst h2; simp
    · rw [if_neg h1, if_neg h2, if_pos (by omega)]; rfl

namespace Ext
theorem cmp_eq_iff (x y : Ext) : cmp x y = .eq ↔ x = y := by
  cases x <;> cases y <;> simp [cmp, rank, icmp_eq_iff]
theorem cmp_swap (x y : Ext) : cmp y x = (cmp x y).swap := by
  cases x <;> cases y <;> simp only [cmp] <;> exact icmp_swap _ _
theorem cmp_lt_trans (x y z : Ext) (h1 : cmp x y = .lt) (h2 : cmp y z = .lt) : cmp x z = .lt := by
  cases x <;> cases y <;> cases z <;> simp only [cmp, rank, icmp_lt_iff] at * <;> omega
theorem cmp_refl (x : Ext) : cmp x x = .eq := (cmp_eq_iff x x).mpr rfl
end Ext

theorem ext_isSome_iff (a : Value) : a.cls = 2 ↔ ∃ x, a.ext = some x := by
  cases a <;> simp [Value.cls, Value.ext]

theorem numCmp_spec (a b : Value) (x y : Ext) (ha : a.ext = some x) (hb : b.ext = some y) :
    numCmp {} a b = some (Ext.cmp x y) := by
  simp only [numCmp, Bool.false_eq_true, if_false, ha, hb, false_and]

theorem eq_numeric (a b : Value) (x y : Ext) (ha : a.ext = some x) (hb : b.ext = some y) :
    eq {} a b = (Ext.cmp x y == .eq) := by
  have ca := (ext_isSome_iff a).mpr ⟨x, ha⟩
  have cb := (ext_isSome_iff b).mpr ⟨y, hb⟩
  have hn := numCmp_spec a b x y ha hb
  cases a <;> cases b <;> simp only [Value.cls] at ca cb <;>
    first
    | omega
    | (simp only [eq, Value.cls, hn, and_self, if_true]; rfl)

theorem partialCmp_numeric (a b : Value) (x y : Ext) (ha : a.ext = some x) (hb : b.ext = some y) :
    partialCmp {} a b = some (Ext.cmp x y) := by
  have ca := (ext_isSome_iff a).mpr ⟨x, ha⟩
  have cb := (ext_isSome_iff b).mpr ⟨y, hb⟩
  have hn := numCmp_spec a b x y ha hb
  cases a <;> cases b <;> simp only [Value.cls] at ca cb <;>
    first
    | omega
    | simp only [partialCmp, Value.cls, hn, and_self, if_true]

inductive EqKey
  | null
  | bool (b : Bool)
  | num (x : Ext)
  | blob (d : Bytes)

def Value.eqKey : Value → EqKey
  | .null => .null
  | .bool b => .bool b
  | .blob d => .blob d
  | .int i => .num (.fin (i * (unitScale : Int)))
  | .bigint i => .num (.fin (i * (unitScale : Int)))
  | .uint n => .num (.fin ((n : Int) * (unitScale : Int)))
  | .biguint n => .num (.fin ((n : Int) * (unitScale : Int)))
  | .float b => .num (f32.ext b)
  | .double b => .num (f64.ext b)

set_option linter.unusedSimpArgs false in
theorem eq_iff_key (a b : Value) : eq {} a b = true ↔ a.eqKey = b.eqKey := by
  cases a <;> cases b <;>
    first
    | (rw [eq_numeric _ _ _ _ rfl rfl]
       simp only [Value.eqKey, EqKey.num.injEq, beq_iff_eq, Ext.cmp_eq_iff])
    | simp only [eq, Value.eqKey, Value.cls, reduceCtorEq, Bool.false_eq_true, EqKey.bool.injEq, EqKey.blob.injEq,
        beq_iff_eq, Blob.cmp_eq_lex, Blob.lex_eq_iff, false_and, and_false, if_false, Nat.reduceEqDiff]

def bcode (b : Bool) : Int := if b then 1 else 0

/-- the order `partialCmp` induces on keys -/
def EqKey.cmp : EqKey → EqKey → Option Ordering
  | .bool x, .bool y => some (icmp (bcode x) (bcode y))
  | .num x, .num y => some (Ext.cmp x y)
  | .blob x, .blob y => some (Blob.lex x y)
  | _, _ => none

def EqKey.cls : EqKey → Nat
  | .null => 0 | .bool _ => 1 | .num _ => 2 | .blob _ => 3

theorem eqKey_cls (a : Value) : a.eqKey.cls = a.cls := by cases a <;> rfl

set_option linter.unusedSimpArgs false in
theorem partialCmp_key (a b : Value) : partialCmp {} a b = EqKey.cmp a.eqKey b.eqKey := by
  cases a <;> cases b <;>
    first
    | (rw [partialCmp_numeric _ _ _ _ rfl rfl]; rfl)
    | simp only [partialCmp, Value.eqKey, EqKey.cmp, Value.cls, bcode, Blob.cmp_eq_lex, reduceCtorEq, false_and, and_false,
        if_false, Nat.reduceEqDiff]

theorem icmp_lt_trans (a b c : Int) (h1 : icmp a b = .lt) (h2 : icmp b c = .lt) : icmp a c = .lt := by
  rw [icmp_lt_iff] at h1 h2 ⊢; omega

theorem bcode_inj (x y : Bool) : bcode x = bcode y ↔ x = y := by cases x <;> cases y <;> simp [bcode]

namespace EqKey
theorem cmp_eq_iff (k l : EqKey) : cmp k l = some .eq ↔ k = l ∧ k.cls ≠ 0 := by
  cases k <;> cases l <;> simp [cmp, cls, icmp_eq_iff, bcode_inj, Ext.cmp_eq_iff, Blob.lex_eq_iff]
theorem cmp_swap (k l : EqKey) : cmp l k = (cmp k l).map Ordering.swap := by
  cases k <;> cases l <;> simp only [cmp, Option.map_some, Option.map_none]
  · rw [icmp_swap]
  · rw [Ext.cmp_swap]
  · rw [Blob.lex_swap]
theorem cmp_lt_trans (k l m : EqKey) (h1 : cmp k l = some .lt) (h2 : cmp l m = some .lt) : cmp k m = some .lt := by
  cases k <;> cases l <;> simp only [cmp, reduceCtorEq, Option.some.injEq] at h1 <;>
    cases m <;> simp only [cmp, reduceCtorEq, Option.some.injEq] at h2 ⊢
  · exact icmp_lt_trans _ _ _ h1 h2
  · exact Ext.cmp_lt_trans _ _ _ h1 h2
  · exact Blob.lex_trans_lt _ _ _ h1 h2
theorem cmp_isSome_iff (k l : EqKey) : (cmp k l).isSome ↔ k.cls = l.cls ∧ k.cls ≠ 0 := by
  cases k <;> cases l <;> simp [cmp, cls]
end EqKey

theorem unitScale_pos : (0 : Int) < (unitScale : Int) := by
  have : 0 < unitScale := by unfold unitScale; exact Nat.pow_pos (by omega)
  omega

theorem icmp_scale (i j : Int) : icmp (i * (unitScale : Int)) (j * (unitScale : Int)) = icmp i j := by
  have hu := unitScale_pos
  unfold icmp
  have h1 : i * (unitScale : Int) < j * (unitScale : Int) ↔ i < j := Int.mul_lt_mul_right hu
  have h2 : i * (unitScale : Int) = j * (unitScale : Int) ↔ i = j := by
    constructor
    · intro h; exact Int.eq_of_mul_eq_mul_right (by omega) h
    · intro h; rw [h]
  simp only [h1, h2]

theorem scale_inj (i j : Int) : i * (unitScale : Int) = j * (unitScale : Int) ↔ i = j := by
  have hu := unitScale_pos
  constructor
  · intro h; exact Int.eq_of_mul_eq_mul_right (by omega) h
  · intro h; rw [h]

theorem sortCmp_nonnull (D : Defects) (a b : Value) (ha : a.cls ≠ 0) (hb : b.cls ≠ 0) :
    sortCmp D a b = (partialCmp D a b).getD .eq := by
  cases a <;> simp only [Value.cls, ne_eq, not_true_eq_false] at ha <;>
    cases b <;> simp only [Value.cls, ne_eq, not_true_eq_false] at hb <;> rfl

theorem cls_zero_iff (a : Value) : a.cls = 0 ↔ a = .null := by
  cases a <;> simp [Value.cls]

end AxVerif.Value
