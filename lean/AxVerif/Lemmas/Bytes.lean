/- Lemmas about the little-endian helpers. -/
import AxVerif.Model.Bytes
namespace AxVerif

theorem rd32_ofNat (n : Nat) (h : n < 2^32) :
    rd32 (UInt8.ofNat n) (UInt8.ofNat (n / 256)) (UInt8.ofNat (n / 65536)) (UInt8.ofNat (n / 16777216)) = n := by
  simp only [rd32, UInt8.toNat_ofNat']
  omega

@[simp] theorem le32_length (n : Nat) : (le32 n).length = 4 := rfl
@[simp] theorem le16_length (n : Nat) : (le16 n).length = 2 := rfl
@[simp] theorem le64_length (n : Nat) : (le64 n).length = 8 := rfl

theorem take32_le32 (n : Nat) (rest : Bytes) (h : n < 2^32) :
    take32 (le32 n ++ rest) = some (n, rest) := by
  simp only [le32, List.cons_append, List.nil_append, take32, rd32_ofNat n h]

theorem rd16_ofNat (n : Nat) (h : n < 2^16) :
    rd16 (UInt8.ofNat n) (UInt8.ofNat (n / 256)) = n := by
  simp only [rd16, UInt8.toNat_ofNat']
  omega

theorem take16_le16 (n : Nat) (rest : Bytes) (h : n < 2^16) :
    take16 (le16 n ++ rest) = some (n, rest) := by
  simp only [le16, List.cons_append, List.nil_append, take16, rd16_ofNat n h]

theorem take64_le64 (n : Nat) (rest : Bytes) (h : n < 2^64) :
    take64 (le64 n ++ rest) = some (n, rest) := by
  unfold take64 le64
  rw [List.append_assoc, take32_le32 _ _ (by omega)]
  simp only
  rw [take32_le32 _ _ (by omega)]
  simp only [Option.some.injEq, Prod.mk.injEq, and_true]
  omega

theorem take32_length {d rest : Bytes} {n : Nat} (h : take32 d = some (n, rest)) :
    d.length = rest.length + 4 ∧ n < 2^32 := by
  match d, h with
  | a :: b :: c :: e :: r, h =>
    simp only [take32, Option.some.injEq, Prod.mk.injEq] at h
    obtain ⟨h1, h2⟩ := h
    subst h2
    refine ⟨by simp, ?_⟩
    have ha := a.toNat_lt; have hb := b.toNat_lt; have hc := c.toNat_lt; have he := e.toNat_lt
    simp only [rd32] at h1
    omega

end AxVerif
