/- helper lemmas for Model/Db.lean (C03, C04) -/
import AxVerif.Model.Db
