/-
  Helper lemmas for `Model/Db.lean`: the invariant of the MVCC machine and its simulation by the abstract
  snapshot-isolation machine `Db.Spec` (used by `Thm/C04.lean`, `Thm/C03.lean`).  Everything here is for
  `Defects.none`.
-/
import AxVerif.Model.Db
namespace AxVerif.Db
open AxVerif.Db

/-! ### association lists -/

theorem lookup_cons_self (k : String) (v : α) (l : List (String × α)) : lookup k ((k, v) :: l) = some v := by
  simp [lookup]

theorem lookup_cons_ne (k k' : String) (v : α) (l : List (String × α)) (h : k' ≠ k) :
    lookup k ((k', v) :: l) = lookup k l := by
  simp [lookup, h]

theorem lookup_erase_self (k : String) (l : List (String × α)) : lookup k (erase k l) = none := by
  induction l with
  | nil => rfl
  | cons x xs ih =>
    obtain ⟨k', v⟩ := x
    by_cases h : k' = k
    · simp [erase, h, ih]
    · simp [erase, h, lookup, ih]

theorem lookup_erase_ne (k k' : String) (l : List (String × α)) (h : k' ≠ k) :
    lookup k' (erase k l) = lookup k' l := by
  induction l with
  | nil => rfl
  | cons x xs ih =>
    obtain ⟨k'', v⟩ := x
    by_cases h1 : k'' = k
    · subst h1
      have : ¬ (k'' = k') := fun e => h e.symm
      simp [erase, lookup, this, ih]
    · by_cases h2 : k'' = k'
      · subst h2
        simp [erase, h, lookup]
      · simp [erase, h1, lookup, h2, ih]

/-! ### row-id order -/

theorem ridLt_irrefl (a : Rid) : ¬ ridLt a a := by
  unfold ridLt; omega

theorem ridLt_trans {a b c : Rid} (h1 : ridLt a b) (h2 : ridLt b c) : ridLt a c := by
  unfold ridLt at *; omega

theorem ridLt_asymm {a b : Rid} (h1 : ridLt a b) (h2 : ridLt b a) : False := by
  unfold ridLt at *; omega

theorem ridLt_total (a b : Rid) : ridLt a b ∨ a = b ∨ ridLt b a := by
  obtain ⟨a1, a2⟩ := a
  obtain ⟨b1, b2⟩ := b
  unfold ridLt
  simp only [Prod.mk.injEq]
  omega

/-- strictly increasing row ids -/
def SortedV (v : View) : Prop := v.Pairwise (fun a b => ridLt a.rid b.rid)

theorem sorted_ext : ∀ (l1 l2 : View), SortedV l1 → SortedV l2 → (∀ x, x ∈ l1 ↔ x ∈ l2) → l1 = l2
  | [], [], _, _, _ => rfl
  | [], b :: t2, _, _, h => by
    have := (h b).2 (List.mem_cons_self ..)
    simp at this
  | a :: t1, [], _, _, h => by
    have := (h a).1 (List.mem_cons_self ..)
    simp at this
  | a :: t1, b :: t2, h1, h2, h => by
    have h1' := List.pairwise_cons.1 h1
    have h2' := List.pairwise_cons.1 h2
    have hab : a = b := by
      have ha := (h a).1 (List.mem_cons_self ..)
      have hb := (h b).2 (List.mem_cons_self ..)
      rcases List.mem_cons.1 ha with e | ha'
      · exact e
      · rcases List.mem_cons.1 hb with e | hb'
        · exact e.symm
        · exact (ridLt_asymm (h1'.1 b hb') (h2'.1 a ha')).elim
    subst hab
    have : t1 = t2 := by
      apply sorted_ext t1 t2 h1'.2 h2'.2
      intro x
      constructor
      · intro hx
        have := (h x).1 (List.mem_cons_of_mem _ hx)
        rcases List.mem_cons.1 this with e | hx'
        · subst e; exact (ridLt_irrefl _ (h1'.1 x hx)).elim
        · exact hx'
      · intro hx
        have := (h x).2 (List.mem_cons_of_mem _ hx)
        rcases List.mem_cons.1 this with e | hx'
        · subst e; exact (ridLt_irrefl _ (h2'.1 x hx)).elim
        · exact hx'
    rw [this]

theorem mem_insertRid (x y : ARow) (l : View) : y ∈ insertRid x l ↔ y = x ∨ y ∈ l := by
  induction l with
  | nil => simp [insertRid]
  | cons z zs ih =>
    unfold insertRid
    split
    · simp
    · simp only [List.mem_cons, ih]
      constructor
      · rintro (h | h | h) <;> simp [h]
      · rintro (h | h | h) <;> simp [h]

theorem sorted_insertRid (x : ARow) (l : View) (hs : SortedV l) (hx : ∀ y ∈ l, y.rid ≠ x.rid) :
    SortedV (insertRid x l) := by
  induction l with
  | nil => simp [insertRid, SortedV]
  | cons z zs ih =>
    have hz := List.pairwise_cons.1 hs
    unfold insertRid
    split
    · rename_i hlt
      apply List.pairwise_cons.2
      refine ⟨?_, hs⟩
      intro y hy
      rcases List.mem_cons.1 hy with e | hy'
      · subst e; exact hlt
      · exact ridLt_trans hlt (hz.1 y hy')
    · rename_i hnlt
      have hzx : ridLt z.rid x.rid := by
        rcases ridLt_total x.rid z.rid with h | h | h
        · exact (hnlt h).elim
        · exact ((hx z (List.mem_cons_self ..)) h.symm).elim
        · exact h
      apply List.pairwise_cons.2
      refine ⟨?_, ih hz.2 (fun y hy => hx y (List.mem_cons_of_mem _ hy))⟩
      intro y hy
      rcases (mem_insertRid x y zs).1 hy with e | hy'
      · subst e; exact hzx
      · exact hz.1 y hy'

theorem mem_foldr_insertRid (xs l : View) (y : ARow) : y ∈ xs.foldr insertRid l ↔ y ∈ xs ∨ y ∈ l := by
  induction xs with
  | nil => simp
  | cons x xs ih =>
    simp only [List.foldr_cons, mem_insertRid, ih, List.mem_cons]
    constructor
    · rintro (h | h | h) <;> simp [h]
    · rintro ((h | h) | h) <;> simp [h]

theorem sorted_foldr_insertRid (xs l : View) (hl : SortedV l) (hxs : SortedV xs)
    (hd : ∀ x ∈ xs, ∀ y ∈ l, y.rid ≠ x.rid) : SortedV (xs.foldr insertRid l) := by
  induction xs with
  | nil => simpa using hl
  | cons x xs ih =>
    have hx := List.pairwise_cons.1 hxs
    simp only [List.foldr_cons]
    apply sorted_insertRid
    · exact ih hx.2 (fun a ha => hd a (List.mem_cons_of_mem _ ha))
    · intro y hy
      rcases (mem_foldr_insertRid xs l y).1 hy with h | h
      · intro e
        have := hx.1 y h
        rw [e] at this
        exact ridLt_irrefl _ this
      · exact hd x (List.mem_cons_self ..) y h

theorem mem_takeOver (base mine : View) (ws : List Rid) (y : ARow) :
    y ∈ takeOver base mine ws ↔ (y ∈ mine ∧ ws.contains y.rid = true) ∨ (y ∈ base ∧ ws.contains y.rid = false) := by
  unfold takeOver
  rw [mem_foldr_insertRid]
  simp [List.mem_filter]

theorem sorted_takeOver (base mine : View) (ws : List Rid) (hb : SortedV base) (hm : SortedV mine) :
    SortedV (takeOver base mine ws) := by
  unfold takeOver
  apply sorted_foldr_insertRid
  · exact List.Pairwise.filter _ hb
  · exact List.Pairwise.filter _ hm
  · intro x hx y hy e
    simp only [List.mem_filter] at hx hy
    rw [e] at hy
    have h1 := hx.2
    have h2 := hy.2
    simp only [List.contains_eq_mem, decide_eq_true_eq, Bool.not_eq_eq_eq_not, Bool.not_true,
      decide_eq_false_iff_not] at h1 h2
    exact h2 h1

/-! ### rows and snapshots (specification: `Defects.none`) -/

abbrev D0 : Defects := Defects.none

/-- every transaction id stamped on the row -/
def Row.owners (r : Row) : List Nat := r.versions.map (·.creator) ++ r.deleters

theorem any_congr_mem {p q : α → Bool} : ∀ (l : List α), (∀ x ∈ l, p x = q x) → l.any p = l.any q
  | [], _ => rfl
  | x :: xs, h => by
    simp only [List.any_cons]
    rw [h x (List.mem_cons_self ..), any_congr_mem xs (fun y hy => h y (List.mem_cons_of_mem _ hy))]

theorem find_congr_mem {p q : α → Bool} : ∀ (l : List α), (∀ x ∈ l, p x = q x) → l.find? p = l.find? q
  | [], _ => rfl
  | x :: xs, h => by
    simp only [List.find?_cons]
    rw [h x (List.mem_cons_self ..), find_congr_mem xs (fun y hy => h y (List.mem_cons_of_mem _ hy))]

theorem filterMap_congr_mem {f g : α → Option β} : ∀ (l : List α), (∀ x ∈ l, f x = g x) → l.filterMap f = l.filterMap g
  | [], _ => rfl
  | x :: xs, h => by
    simp only [List.filterMap_cons]
    rw [h x (List.mem_cons_self ..), filterMap_congr_mem xs (fun y hy => h y (List.mem_cons_of_mem _ hy))]

theorem rowVisible_none (s : Snapshot) (r : Row) :
    rowVisible D0 s r =
      if r.deleters.any s.sees then none else (r.versions.find? (fun v => s.sees v.creator)).map (·.vals) := by
  simp [rowVisible, D0, Defects.none]

/-- what a snapshot reads from a row depends only on which of the row's stamps it sees -/
theorem rowVisible_congr (s1 s2 : Snapshot) (r : Row) (h : ∀ u ∈ r.owners, s1.sees u = s2.sees u) :
    rowVisible D0 s1 r = rowVisible D0 s2 r := by
  rw [rowVisible_none, rowVisible_none]
  have h1 : r.deleters.any s1.sees = r.deleters.any s2.sees :=
    any_congr_mem _ (fun x hx => h x (by simp [Row.owners, hx]))
  have h2 : r.versions.find? (fun v => s1.sees v.creator) = r.versions.find? (fun v => s2.sees v.creator) :=
    find_congr_mem _ (fun v hv => h v.creator (by
      simp only [Row.owners, List.mem_append, List.mem_map]
      exact Or.inl ⟨v, hv, rfl⟩))
  rw [h1, h2]

theorem toARow_congr (s1 s2 : Snapshot) (r : Row) (h : ∀ u ∈ r.owners, s1.sees u = s2.sees u) :
    r.toARow D0 s1 = r.toARow D0 s2 := by
  simp only [Row.toARow, rowVisible_congr s1 s2 r h]

theorem sees_self (s : Snapshot) : s.sees s.xid = true := by simp [Snapshot.sees]

theorem update_none (s : Snapshot) (c : Nat) (x : Val) (r : Row) :
    r.update D0 s c x = match rowVisible D0 s r with
      | none => r
      | some vis => { r with versions := ⟨s.xid, vis.set c x⟩ :: r.versions } := by
  unfold Row.update
  cases rowVisible D0 s r <;> simp [D0, Defects.none]

theorem delete_none (s : Snapshot) (r : Row) :
    r.delete D0 s = match rowVisible D0 s r with
      | none => r
      | some _ => { r with deleters := s.xid :: r.deleters } := by
  unfold Row.delete
  cases rowVisible D0 s r <;> simp [D0, Defects.none]

theorem apply_rid (s : Snapshot) (r : Row) (e : Effect) : (r.apply D0 s e).rid = r.rid := by
  cases e with
  | ins _ _ _ => rfl
  | upd rid c x =>
    simp only [Row.apply]
    split
    · rw [update_none]; split <;> rfl
    · rfl
  | del rid =>
    simp only [Row.apply]
    split
    · rw [delete_none]; split <;> rfl
    · rfl

theorem apply_table (s : Snapshot) (r : Row) (e : Effect) : (r.apply D0 s e).table = r.table := by
  cases e with
  | ins _ _ _ => rfl
  | upd rid c x =>
    simp only [Row.apply]
    split
    · rw [update_none]; split <;> rfl
    · rfl
  | del rid =>
    simp only [Row.apply]
    split
    · rw [delete_none]; split <;> rfl
    · rfl

/-- the writer reads its own write -/
theorem toARow_apply_own (s : Snapshot) (r : Row) (e : Effect) :
    (r.apply D0 s e).toARow D0 s = (r.toARow D0 s).bind (fun a => a.apply e) := by
  cases e with
  | ins _ _ _ => simp [Row.apply, ARow.apply]
  | upd rid c x =>
    simp only [Row.apply]
    by_cases hr : r.rid = rid
    · simp only [hr, if_true]
      rw [update_none]
      cases hv : rowVisible D0 s r with
      | none => simp [Row.toARow, hv]
      | some vis =>
        have hd : r.deleters.any s.sees = false := by
          rw [rowVisible_none] at hv
          by_cases h : r.deleters.any s.sees = true
          · simp [h] at hv
          · simpa using h
        simp only [Row.toARow, hv, Option.map_some, Option.bind_some, ARow.apply, hr, if_true]
        rw [rowVisible_none]
        simp [hd, sees_self]
    · simp only [hr, if_false]
      cases hv : rowVisible D0 s r with
      | none => simp [Row.toARow, hv]
      | some vis => simp [Row.toARow, hv, ARow.apply, hr]
  | del rid =>
    simp only [Row.apply]
    by_cases hr : r.rid = rid
    · simp only [hr, if_true]
      rw [delete_none]
      cases hv : rowVisible D0 s r with
      | none => simp [Row.toARow, hv]
      | some vis =>
        simp only [Row.toARow, hv, Option.map_some, Option.bind_some, ARow.apply, hr, if_true]
        rw [rowVisible_none]
        simp [sees_self]
    · simp only [hr, if_false]
      cases hv : rowVisible D0 s r with
      | none => simp [Row.toARow, hv]
      | some vis => simp [Row.toARow, hv, ARow.apply, hr]

/-- a snapshot that does not see the writer reads what it read before -/
theorem toARow_apply_other (s S : Snapshot) (r : Row) (e : Effect) (h : S.sees s.xid = false) :
    (r.apply D0 s e).toARow D0 S = r.toARow D0 S := by
  cases e with
  | ins _ _ _ => rfl
  | upd rid c x =>
    simp only [Row.apply]
    split
    · rw [update_none]
      split
      · rfl
      · simp only [Row.toARow]
        rw [rowVisible_none, rowVisible_none]
        simp [h]
    · rfl
  | del rid =>
    simp only [Row.apply]
    split
    · rw [delete_none]
      split
      · rfl
      · simp only [Row.toARow]
        rw [rowVisible_none, rowVisible_none]
        simp [h]
    · rfl

theorem view_applyEffect_own (s : Snapshot) (rows : List Row) (e : Effect) :
    view D0 s (applyEffect D0 s rows e) = (view D0 s rows).apply e := by
  cases e with
  | ins rid t vals =>
    simp only [applyEffect, view, View.apply, List.filterMap_append]
    congr 1
    simp [Row.toARow, rowVisible_none, sees_self]
  | upd rid c x =>
    simp only [applyEffect, view, View.apply, List.filterMap_map, List.filterMap_filterMap]
    apply filterMap_congr_mem
    intro r _
    exact toARow_apply_own s r _
  | del rid =>
    simp only [applyEffect, view, View.apply, List.filterMap_map, List.filterMap_filterMap]
    apply filterMap_congr_mem
    intro r _
    exact toARow_apply_own s r _

theorem view_applyEffect_other (s S : Snapshot) (rows : List Row) (e : Effect) (h : S.sees s.xid = false) :
    view D0 S (applyEffect D0 s rows e) = view D0 S rows := by
  cases e with
  | ins rid t vals =>
    simp only [applyEffect, view, List.filterMap_append]
    simp [Row.toARow, rowVisible_none, h]
  | upd rid c x =>
    simp only [applyEffect, view, List.filterMap_map]
    apply filterMap_congr_mem
    intro r _
    exact toARow_apply_other s S r _ h
  | del rid =>
    simp only [applyEffect, view, List.filterMap_map]
    apply filterMap_congr_mem
    intro r _
    exact toARow_apply_other s S r _ h

theorem view_applyEffects_own (s : Snapshot) : ∀ (es : List Effect) (rows : List Row),
    view D0 s (applyEffects D0 s rows es) = (view D0 s rows).applyAll es
  | [], _ => rfl
  | e :: es, rows => by
    simp only [applyEffects, View.applyAll, List.foldl_cons]
    have := view_applyEffects_own s es (applyEffect D0 s rows e)
    simp only [applyEffects, View.applyAll] at this
    rw [this, view_applyEffect_own]

theorem view_applyEffects_other (s S : Snapshot) (h : S.sees s.xid = false) : ∀ (es : List Effect) (rows : List Row),
    view D0 S (applyEffects D0 s rows es) = view D0 S rows
  | [], _ => rfl
  | e :: es, rows => by
    simp only [applyEffects, List.foldl_cons]
    have := view_applyEffects_other s S h es (applyEffect D0 s rows e)
    simp only [applyEffects] at this
    rw [this, view_applyEffect_other s S rows e h]

/-! ### the coordinator -/

theorem mem_idsWith (st : Status) : ∀ (txns : List Txn) (k u : Nat),
    u ∈ idsWith st txns k ↔ ∃ t, k ≤ u ∧ txns[u - k]? = some t ∧ t.status = st
  | [], k, u => by simp [idsWith]
  | t :: ts, k, u => by
    have ih := mem_idsWith st ts (k + 1) u
    unfold idsWith
    by_cases hst : t.status = st
    · simp only [hst, if_true, List.mem_cons, ih]
      constructor
      · rintro (h | ⟨t', h1, h2, h3⟩)
        · subst h; exact ⟨t, Nat.le_refl _, by simp, hst⟩
        · refine ⟨t', by omega, ?_, h3⟩
          have : u - k = (u - (k + 1)) + 1 := by omega
          rw [this]; simpa using h2
      · rintro ⟨t', h1, h2, h3⟩
        by_cases hu : u = k
        · exact Or.inl hu
        · right
          refine ⟨t', by omega, ?_, h3⟩
          have : u - k = (u - (k + 1)) + 1 := by omega
          rw [this] at h2; simpa using h2
    · simp only [hst, if_false, ih]
      constructor
      · rintro ⟨t', h1, h2, h3⟩
        refine ⟨t', by omega, ?_, h3⟩
        have : u - k = (u - (k + 1)) + 1 := by omega
        rw [this]; simpa using h2
      · rintro ⟨t', h1, h2, h3⟩
        by_cases hu : u = k
        · subst hu
          simp at h2
          subst h2
          exact (hst h3).elim
        · refine ⟨t', by omega, ?_, h3⟩
          have : u - k = (u - (k + 1)) + 1 := by omega
          rw [this] at h2; simpa using h2

theorem mem_idsWith0 (st : Status) (txns : List Txn) (u : Nat) :
    u ∈ idsWith st txns 0 ↔ ∃ t, txns[u]? = some t ∧ t.status = st := by
  rw [mem_idsWith]; simp

/-- invariant of the coordinator: transaction table, last-committed, commit log, snapshots -/
structure CInvF (txns : List Txn) (lastCommitted : Nat) (clog : List (Nat × List Rid)) : Prop where
  xid : ∀ (i : Nat) (t : Txn), txns[i]? = some t → t.snap.xid = i
  lc_bound : lastCommitted = 0 ∨ lastCommitted < txns.length
  lc_max : ∀ (u : Nat) (t : Txn), txns[u]? = some t → t.status = .committed → u ≤ lastCommitted
  clog_comm : ∀ e ∈ clog, ∃ t, txns[e.1]? = some t ∧ t.status = .committed ∧ t.ws = e.2
  comm_clog : ∀ (u : Nat) (t : Txn), txns[u]? = some t → t.status = .committed → u ∈ clog.map (·.1)
  start_le : ∀ (i : Nat) (t : Txn), txns[i]? = some t → t.startTs ≤ clog.length
  /-- a snapshot counts as "committed before" exactly the transactions that had committed when it was taken -/
  snap_clog : ∀ (i : Nat) (t : Txn), txns[i]? = some t → ∀ u, u ≠ i →
    (t.snap.cb u = true ↔ u ∈ (clog.take t.startTs).map (·.1))
  /-- first committer wins: a later committer that wrote a common row began after the earlier one committed -/
  fcw : ∀ (i j : Nat) (ei ej : Nat × List Rid), i < j → clog[i]? = some ei → clog[j]? = some ej →
    overlaps ei.2 ej.2 = true → ∃ t, txns[ej.1]? = some t ∧ i < t.startTs

abbrev CInv (σ : State) : Prop := CInvF σ.txns σ.lastCommitted σ.clog

/-- invariant tying the version chains to the transaction table; `j` = next row index within the current operation -/
structure SInvF (rows : List Row) (txns : List Txn) (clock : Nat) (j : Nat) : Prop where
  stamps : ∀ r ∈ rows, ∀ u ∈ r.owners, ∃ t, txns[u]? = some t ∧ r.rid ∈ t.ws
  sorted : rows.Pairwise (fun a b => ridLt a.rid b.rid)
  bound : ∀ r ∈ rows, ridLt r.rid (clock, j)

abbrev SInv (σ : State) (j : Nat) : Prop := SInvF σ.rows σ.txns σ.clock j

theorem freshSnap_none (σ : State) :
    σ.freshSnap D0 = ⟨σ.txns.length, some σ.lastCommitted, idsWith .active σ.txns 0, idsWith .aborted σ.txns 0⟩ := by
  simp [State.freshSnap, D0, Defects.none]

/-- a snapshot taken now counts exactly the committed transactions as committed before it -/
theorem fresh_cb (σ : State) (h : CInv σ) (u : Nat) (hu : u ≠ σ.txns.length) :
    (σ.freshSnap D0).cb u = true ↔ ∃ t, σ.txns[u]? = some t ∧ t.status = .committed := by
  rw [freshSnap_none]
  simp only [Snapshot.cb, Bool.and_eq_true, Bool.not_eq_eq_eq_not, Bool.not_true, decide_eq_false_iff_not,
    List.contains_eq_mem, decide_eq_false_iff_not, mem_idsWith0]
  constructor
  · rintro ⟨⟨h1, h2⟩, h3⟩
    have hlt : u < σ.txns.length := by
      rcases h.lc_bound with h0 | h0
      · rw [h0] at h1
        have : u = 0 := by omega
        subst this
        omega
      · omega
    have hget : σ.txns[u]? = some σ.txns[u] := List.getElem?_eq_getElem hlt
    refine ⟨σ.txns[u], hget, ?_⟩
    cases hs : σ.txns[u].status with
    | active => exact (h2 ⟨_, hget, hs⟩).elim
    | aborted => exact (h3 ⟨_, hget, hs⟩).elim
    | committed => rfl
  · rintro ⟨t, h1, h2⟩
    refine ⟨⟨?_, ?_⟩, ?_⟩
    · have := h.lc_max u t h1 h2
      omega
    · rintro ⟨t', h1', h2'⟩
      rw [h1] at h1'; cases h1'
      rw [h2] at h2'; cases h2'
    · rintro ⟨t', h1', h2'⟩
      rw [h1] at h1'; cases h1'
      rw [h2] at h2'; cases h2'

theorem getElem?_snoc {l : List α} {x t : α} {i : Nat} :
    (l ++ [x])[i]? = some t ↔ l[i]? = some t ∨ (i = l.length ∧ t = x) := by
  rw [List.getElem?_append]
  split
  · rename_i h
    constructor
    · intro h'; exact Or.inl h'
    · rintro (h' | ⟨h', _⟩)
      · exact h'
      · omega
  · rename_i h
    have hn : l[i]? = none := List.getElem?_eq_none_iff.2 (by omega)
    constructor
    · intro h'
      right
      by_cases hi : i = l.length
      · subst hi; simp at h'; exact ⟨rfl, h'.symm⟩
      · have : i - l.length = (i - l.length - 1) + 1 := by omega
        rw [this] at h'; simp at h'
    · rintro (h' | ⟨h', h''⟩)
      · rw [hn] at h'; cases h'
      · subst h'; subst h''; simp

theorem getElem?_lt {l : List α} {t : α} {i : Nat} (h : l[i]? = some t) : i < l.length := by
  rcases Nat.lt_or_ge i l.length with h' | h'
  · exact h'
  · rw [List.getElem?_eq_none_iff.2 h'] at h; cases h

theorem getElem?_modify_some {l : List α} {f : α → α} {tid i : Nat} {t' : α} :
    (l.modify tid f)[i]? = some t' ↔ ∃ t, l[i]? = some t ∧ t' = if tid = i then f t else t := by
  rw [List.getElem?_modify]
  cases l[i]? with
  | none => simp
  | some t =>
    simp only [Option.map_eq_map, Option.map_some, Option.some.injEq]
    constructor
    · intro h; exact ⟨t, rfl, h.symm⟩
    · rintro ⟨t2, h1, h2⟩; subst h1; exact h2.symm

/-! #### begin -/

theorem CInv.begin (σ : State) (h : CInv σ) : CInv (σ.beginTxn D0).1 := by
  have hfresh := fresh_cb σ h
  simp only [State.beginTxn]
  constructor
  · intro i t hi
    rcases getElem?_snoc.1 hi with h1 | ⟨h1, h2⟩
    · exact h.xid i t h1
    · subst h1; subst h2; rw [freshSnap_none]
  · rcases h.lc_bound with h0 | h0
    · exact Or.inl h0
    · right; simp only [List.length_append, List.length_singleton]; omega
  · intro u t hu hst
    rcases getElem?_snoc.1 hu with h1 | ⟨h1, h2⟩
    · exact h.lc_max u t h1 hst
    · subst h2; cases hst
  · intro e he
    obtain ⟨t, h1, h2, h3⟩ := h.clog_comm e he
    exact ⟨t, getElem?_snoc.2 (Or.inl h1), h2, h3⟩
  · intro u t hu hst
    rcases getElem?_snoc.1 hu with h1 | ⟨h1, h2⟩
    · exact h.comm_clog u t h1 hst
    · subst h2; cases hst
  · intro i t hi
    rcases getElem?_snoc.1 hi with h1 | ⟨h1, h2⟩
    · exact h.start_le i t h1
    · subst h2; exact Nat.le_refl _
  · intro i t hi u hu
    rcases getElem?_snoc.1 hi with h1 | ⟨h1, h2⟩
    · exact h.snap_clog i t h1 u hu
    · subst h1; subst h2
      simp only [List.take_length]
      rw [hfresh u hu]
      constructor
      · rintro ⟨t, h1, h2⟩; exact h.comm_clog u t h1 h2
      · intro hm
        obtain ⟨e, he, rfl⟩ := List.mem_map.1 hm
        obtain ⟨t, h1, h2, _⟩ := h.clog_comm e he
        exact ⟨t, h1, h2⟩
  · intro i j ei ej hij hi hj hov
    obtain ⟨t, h1, h2⟩ := h.fcw i j ei ej hij hi hj hov
    exact ⟨t, getElem?_snoc.2 (Or.inl h1), h2⟩

theorem SInv.begin (σ : State) (j : Nat) (h : SInv σ j) : SInv (σ.beginTxn D0).1 j := by
  simp only [State.beginTxn]
  refine ⟨?_, h.sorted, h.bound⟩
  intro r hr u hu
  obtain ⟨t, h1, h2⟩ := h.stamps r hr u hu
  exact ⟨t, getElem?_snoc.2 (Or.inl h1), h2⟩

/-! #### abort, commit -/

theorem getElem?_setStatus {txns : List Txn} {tid i : Nat} {st : Status} {t' : Txn} :
    (setStatus txns tid st)[i]? = some t' ↔
      ∃ t, txns[i]? = some t ∧ t' = if tid = i then { t with status := st } else t := by
  unfold setStatus
  exact getElem?_modify_some

theorem setStatus_same_fields {txns : List Txn} {tid i : Nat} {st : Status} {t' : Txn}
    (h : (setStatus txns tid st)[i]? = some t') :
    ∃ t, txns[i]? = some t ∧ t'.snap = t.snap ∧ t'.startTs = t.startTs ∧ t'.ws = t.ws ∧
      (tid ≠ i → t' = t) ∧ (tid = i → t'.status = st) := by
  obtain ⟨t, h1, h2⟩ := getElem?_setStatus.1 h
  refine ⟨t, h1, ?_⟩
  by_cases hi : tid = i
  · simp [h2, hi]
  · simp [h2, hi]

theorem setStatus_get_other {txns : List Txn} {tid i : Nat} {st : Status} {t : Txn}
    (h : txns[i]? = some t) (hne : tid ≠ i) : (setStatus txns tid st)[i]? = some t :=
  getElem?_setStatus.2 ⟨t, h, by simp [hne]⟩

theorem setStatus_get_any {txns : List Txn} {tid i : Nat} {st : Status} {t : Txn}
    (h : txns[i]? = some t) : ∃ t', (setStatus txns tid st)[i]? = some t' ∧ t'.startTs = t.startTs ∧ t'.ws = t.ws := by
  by_cases hi : tid = i
  · exact ⟨{ t with status := st }, getElem?_setStatus.2 ⟨t, h, by simp [hi]⟩, rfl, rfl⟩
  · exact ⟨t, setStatus_get_other h hi, rfl, rfl⟩

theorem CInv.abort (σ : State) (h : CInv σ) (tid : Nat) (t : Txn) (ht : σ.txns[tid]? = some t)
    (hact : t.status = .active) : CInv (σ.abortTxn tid) := by
  have hne : ∀ (u : Nat) (t0 : Txn), σ.txns[u]? = some t0 → t0.status = .committed → tid ≠ u := by
    intro u t0 h0 hc e
    subst e
    rw [ht] at h0; cases h0
    rw [hact] at hc; cases hc
  simp only [State.abortTxn]
  constructor
  · intro i t' hi
    obtain ⟨t0, h0, hs, _⟩ := setStatus_same_fields hi
    rw [hs]; exact h.xid i t0 h0
  · simpa [setStatus] using h.lc_bound
  · intro u t' hu hst
    obtain ⟨t0, h0, _, _, _, hother, hself⟩ := setStatus_same_fields hu
    by_cases e : tid = u
    · rw [hself e] at hst; cases hst
    · rw [hother e] at hst; exact h.lc_max u t0 h0 hst
  · intro e he
    obtain ⟨t0, h1, h2, h3⟩ := h.clog_comm e he
    exact ⟨t0, setStatus_get_other h1 (hne _ _ h1 h2), h2, h3⟩
  · intro u t' hu hst
    obtain ⟨t0, h0, _, _, _, hother, hself⟩ := setStatus_same_fields hu
    by_cases e : tid = u
    · rw [hself e] at hst; cases hst
    · rw [hother e] at hst; exact h.comm_clog u t0 h0 hst
  · intro i t' hi
    obtain ⟨t0, h0, _, hs, _⟩ := setStatus_same_fields hi
    rw [hs]; exact h.start_le i t0 h0
  · intro i t' hi u hu
    obtain ⟨t0, h0, hs1, hs2, _⟩ := setStatus_same_fields hi
    rw [hs1, hs2]; exact h.snap_clog i t0 h0 u hu
  · intro i j ei ej hij hi hj hov
    obtain ⟨t0, h1, h2⟩ := h.fcw i j ei ej hij hi hj hov
    obtain ⟨t', h3, h4, _⟩ := setStatus_get_any (tid := tid) (st := .aborted) h1
    exact ⟨t', h3, by omega⟩

theorem SInv.setStatus (σ : State) (j : Nat) (h : SInv σ j) (tid : Nat) (st : Status) (lc : Nat)
    (cl : List (Nat × List Rid)) :
    SInv { σ with txns := setStatus σ.txns tid st, lastCommitted := lc, clog := cl } j := by
  refine ⟨?_, h.sorted, h.bound⟩
  intro r hr u hu
  obtain ⟨t, h1, h2⟩ := h.stamps r hr u hu
  obtain ⟨t', h3, _, h4⟩ := setStatus_get_any (tid := tid) (st := st) h1
  exact ⟨t', h3, by rw [h4]; exact h2⟩

theorem SInv.abort (σ : State) (j : Nat) (h : SInv σ j) (tid : Nat) : SInv (σ.abortTxn tid) j :=
  SInv.setStatus σ j h tid .aborted σ.lastCommitted σ.clog

theorem commitTxn_eq (σ : State) (tid : Nat) (t : Txn) (ht : σ.txns[tid]? = some t) :
    σ.commitTxn tid =
      if conflictIn σ.clog t then (σ.abortTxn tid, false)
      else ({ σ with txns := setStatus σ.txns tid .committed,
                     lastCommitted := if tid > σ.lastCommitted then tid else σ.lastCommitted,
                     clog := σ.clog ++ [(tid, t.ws)] }, true) := by
  simp [State.commitTxn, ht, State.abortTxn]

theorem CInv.commit (σ : State) (h : CInv σ) (tid : Nat) (t : Txn) (ht : σ.txns[tid]? = some t)
    (hact : t.status = .active) : CInv (σ.commitTxn tid).1 := by
  rw [commitTxn_eq σ tid t ht]
  split
  · exact CInv.abort σ h tid t ht hact
  · rename_i hnc
    have hne : ∀ (u : Nat) (t0 : Txn), σ.txns[u]? = some t0 → t0.status = .committed → tid ≠ u := by
      intro u t0 h0 hc e
      subst e
      rw [ht] at h0; cases h0
      rw [hact] at hc; cases hc
    have htlt : tid < σ.txns.length := getElem?_lt ht
    constructor
    · intro i t' hi
      obtain ⟨t0, h0, hs, _⟩ := setStatus_same_fields hi
      rw [hs]; exact h.xid i t0 h0
    · show (if tid > σ.lastCommitted then tid else σ.lastCommitted) = 0 ∨
        (if tid > σ.lastCommitted then tid else σ.lastCommitted) < (setStatus σ.txns tid .committed).length
      have hl : (setStatus σ.txns tid .committed).length = σ.txns.length := by simp [setStatus]
      rw [hl]
      rcases h.lc_bound with h0 | h0 <;> split <;> omega
    · intro u t' hu hst
      show u ≤ (if tid > σ.lastCommitted then tid else σ.lastCommitted)
      obtain ⟨t0, h0, _, _, _, hother, _⟩ := setStatus_same_fields hu
      by_cases e : tid = u
      · subst e; split <;> omega
      · rw [hother e] at hst
        have := h.lc_max u t0 h0 hst
        split <;> omega
    · intro e he
      rcases List.mem_append.1 he with he | he
      · obtain ⟨t0, h1, h2, h3⟩ := h.clog_comm e he
        exact ⟨t0, setStatus_get_other h1 (hne _ _ h1 h2), h2, h3⟩
      · simp only [List.mem_singleton] at he
        subst he
        exact ⟨{ t with status := .committed }, getElem?_setStatus.2 ⟨t, ht, by simp⟩, rfl, rfl⟩
    · intro u t' hu hst
      obtain ⟨t0, h0, _, _, _, hother, _⟩ := setStatus_same_fields hu
      simp only [List.map_append, List.map_cons, List.map_nil, List.mem_append, List.mem_singleton]
      by_cases e : tid = u
      · exact Or.inr e.symm
      · rw [hother e] at hst; exact Or.inl (h.comm_clog u t0 h0 hst)
    · intro i t' hi
      obtain ⟨t0, h0, _, hs, _⟩ := setStatus_same_fields hi
      rw [hs]
      have := h.start_le i t0 h0
      simp only [List.length_append, List.length_singleton]; omega
    · intro i t' hi u hu
      obtain ⟨t0, h0, hs1, hs2, _⟩ := setStatus_same_fields hi
      rw [hs1, hs2, List.take_append_of_le_length (h.start_le i t0 h0)]
      exact h.snap_clog i t0 h0 u hu
    · intro i j ei ej hij hi hj hov
      have hjl : j < (σ.clog ++ [(tid, t.ws)]).length := getElem?_lt hj
      simp only [List.length_append, List.length_singleton] at hjl
      by_cases hjo : j < σ.clog.length
      · rw [List.getElem?_append_left hjo] at hj
        rw [List.getElem?_append_left (by omega)] at hi
        obtain ⟨t0, h1, h2⟩ := h.fcw i j ei ej hij hi hj hov
        obtain ⟨t', h3, h4, _⟩ := setStatus_get_any (tid := tid) (st := .committed) h1
        exact ⟨t', h3, by omega⟩
      · have hj' : j = σ.clog.length := by omega
        subst hj'
        rw [List.getElem?_append_left hij] at hi
        have hej : ej = (tid, t.ws) := by
          have := getElem?_snoc.1 hj
          rcases this with h' | ⟨_, h'⟩
          · exact absurd (getElem?_lt h') (by omega)
          · exact h'
        subst hej
        refine ⟨{ t with status := .committed }, getElem?_setStatus.2 ⟨t, ht, by simp⟩, ?_⟩
        show i < t.startTs
        rcases Nat.lt_or_ge i t.startTs with hlt | hge
        · exact hlt
        · exfalso
          apply hnc
          unfold conflictIn
          apply List.any_eq_true.2
          refine ⟨ei, ?_, hov⟩
          apply List.mem_iff_getElem?.2
          refine ⟨i - t.startTs, ?_⟩
          rw [List.getElem?_drop]
          have : t.startTs + (i - t.startTs) = i := by omega
          rw [this]; exact hi

theorem SInv.commit (σ : State) (j : Nat) (h : SInv σ j) (tid : Nat) : SInv (σ.commitTxn tid).1 j := by
  unfold State.commitTxn
  split
  · exact h
  · split
    · exact SInv.setStatus σ j h tid .aborted σ.lastCommitted σ.clog
    · exact SInv.setStatus σ j h tid .committed _ _

/-! #### writes -/

theorem owners_apply (s : Snapshot) (r : Row) (e : Effect) :
    ∀ u ∈ (r.apply D0 s e).owners, u ∈ r.owners ∨ (u = s.xid ∧ r.rid = e.rid) := by
  intro u hu
  cases e with
  | ins _ _ _ => exact Or.inl hu
  | upd rid c x =>
    simp only [Row.apply] at hu
    by_cases hr : r.rid = rid
    · simp only [hr, if_true] at hu
      rw [update_none] at hu
      cases hv : rowVisible D0 s r with
      | none => rw [hv] at hu; exact Or.inl hu
      | some vis =>
        rw [hv] at hu
        simp only [Row.owners, List.map_cons, List.cons_append, List.mem_cons] at hu
        rcases hu with h | h
        · exact Or.inr ⟨h, hr⟩
        · exact Or.inl h
    · simp only [hr, if_false] at hu; exact Or.inl hu
  | del rid =>
    simp only [Row.apply] at hu
    by_cases hr : r.rid = rid
    · simp only [hr, if_true] at hu
      rw [delete_none] at hu
      cases hv : rowVisible D0 s r with
      | none => rw [hv] at hu; exact Or.inl hu
      | some vis =>
        rw [hv] at hu
        simp only [Row.owners, List.mem_append, List.mem_cons] at hu
        rcases hu with h | h | h
        · exact Or.inl (by simp [Row.owners, h])
        · exact Or.inr ⟨h, hr⟩
        · exact Or.inl (by simp [Row.owners, h])
    · simp only [hr, if_false] at hu; exact Or.inl hu

theorem owners_applyEffect (s : Snapshot) (rows : List Row) (e : Effect) (Q : Nat → Rid → Prop)
    (h : ∀ r ∈ rows, ∀ u ∈ r.owners, Q u r.rid) (hq : Q s.xid e.rid) :
    ∀ r ∈ applyEffect D0 s rows e, ∀ u ∈ r.owners, Q u r.rid := by
  intro r' hr' u hu
  have key : ∀ (e' : Effect), e'.rid = e.rid → r' ∈ rows.map (fun r => r.apply D0 s e') → Q u r'.rid := by
    intro e' he' hm
    obtain ⟨r, hr, rfl⟩ := List.mem_map.1 hm
    rw [apply_rid]
    rcases owners_apply s r e' u hu with h1 | ⟨h1, h2⟩
    · exact h r hr u h1
    · rw [h1, h2, he']; exact hq
  cases e with
  | ins rid t vals =>
    simp only [applyEffect, List.mem_append, List.mem_singleton] at hr'
    rcases hr' with h1 | h1
    · exact h r' h1 u hu
    · subst h1
      simp only [Row.owners, List.map_cons, List.map_nil, List.append_nil, List.mem_singleton] at hu
      subst hu; exact hq
  | upd rid c x => exact key _ rfl hr'
  | del rid => exact key _ rfl hr'

theorem owners_applyEffects (s : Snapshot) (Q : Nat → Rid → Prop) : ∀ (es : List Effect) (rows : List Row),
    (∀ r ∈ rows, ∀ u ∈ r.owners, Q u r.rid) → (∀ e ∈ es, Q s.xid e.rid) →
    ∀ r ∈ applyEffects D0 s rows es, ∀ u ∈ r.owners, Q u r.rid
  | [], _, h, _ => h
  | e :: es, rows, h, hq => by
    simp only [applyEffects, List.foldl_cons]
    exact owners_applyEffects s Q es _
      (owners_applyEffect s rows e Q h (hq e (List.mem_cons_self ..)))
      (fun e' he' => hq e' (List.mem_cons_of_mem _ he'))

/-- the INSERT effects of a plan carry the row ids `(c, j), (c, j+1), …` in order -/
def InsFrom (c : Nat) : Nat → List Effect → Prop
  | _, [] => True
  | j, e :: es => match e with
    | .ins rid _ _ => rid = (c, j) ∧ InsFrom c (j + 1) es
    | _ => InsFrom c j es

theorem sorted_applyEffect (s : Snapshot) (c j : Nat) (e : Effect) (es : List Effect) (rows : List Row)
    (hi : InsFrom c j (e :: es))
    (hs : rows.Pairwise (fun a b => ridLt a.rid b.rid)) (hb : ∀ r ∈ rows, ridLt r.rid (c, j)) :
    (applyEffect D0 s rows e).Pairwise (fun a b => ridLt a.rid b.rid) ∧
    (∀ r ∈ applyEffect D0 s rows e, ridLt r.rid (c, j + countIns [e])) ∧ InsFrom c (j + countIns [e]) es := by
  have key : ∀ (e' : Effect), (rows.map (fun r => r.apply D0 s e')).Pairwise (fun a b => ridLt a.rid b.rid) ∧
      (∀ r ∈ rows.map (fun r => r.apply D0 s e'), ridLt r.rid (c, j)) := by
    intro e'
    constructor
    · rw [List.pairwise_map]
      simpa only [apply_rid] using hs
    · intro r hr
      obtain ⟨r0, hr0, rfl⟩ := List.mem_map.1 hr
      rw [apply_rid]; exact hb r0 hr0
  cases e with
  | ins rid t vals =>
    simp only [InsFrom] at hi
    obtain ⟨hrid, hi'⟩ := hi
    subst hrid
    simp only [applyEffect, countIns]
    refine ⟨?_, ?_, hi'⟩
    · rw [List.pairwise_append]
      refine ⟨hs, by simp, ?_⟩
      intro a ha b hb'
      simp only [List.mem_singleton] at hb'
      subst hb'; exact hb a ha
    · intro r hr
      simp only [List.mem_append, List.mem_singleton] at hr
      rcases hr with h1 | h1
      · have := hb r h1
        unfold ridLt at *; simp only at *; omega
      · subst h1; unfold ridLt; simp
  | upd rid c' x =>
    simp only [InsFrom] at hi
    simp only [applyEffect, countIns, Nat.add_zero]
    exact ⟨(key _).1, (key _).2, hi⟩
  | del rid =>
    simp only [InsFrom] at hi
    simp only [applyEffect, countIns, Nat.add_zero]
    exact ⟨(key _).1, (key _).2, hi⟩

theorem countIns_cons (e : Effect) (es : List Effect) : countIns (e :: es) = countIns [e] + countIns es := by
  cases e <;> simp [countIns] <;> omega

theorem sorted_applyEffects (s : Snapshot) (c : Nat) : ∀ (es : List Effect) (j : Nat) (rows : List Row),
    InsFrom c j es → rows.Pairwise (fun a b => ridLt a.rid b.rid) → (∀ r ∈ rows, ridLt r.rid (c, j)) →
    (applyEffects D0 s rows es).Pairwise (fun a b => ridLt a.rid b.rid) ∧
    (∀ r ∈ applyEffects D0 s rows es, ridLt r.rid (c, j + countIns es))
  | [], j, rows, _, hs, hb => by simpa [applyEffects, countIns] using ⟨hs, hb⟩
  | e :: es, j, rows, hi, hs, hb => by
    obtain ⟨h1, h2, h3⟩ := sorted_applyEffect s c j e es rows hi hs hb
    have := sorted_applyEffects s c es (j + countIns [e]) _ h3 h1 h2
    simp only [applyEffects, List.foldl_cons]
    rw [countIns_cons, ← Nat.add_assoc]
    exact this

theorem write_none (σ : State) (tid : Nat) (es : List Effect) :
    σ.write D0 tid es =
      { σ with rows := applyEffects D0 (σ.snapOf tid) σ.rows es,
               txns := σ.txns.modify tid (fun t => { t with ws := t.ws ++ es.map Effect.rid }) } := by
  simp [State.write, D0, Defects.none, Defects.usesIndex]

theorem modify_ws_fields {txns : List Txn} {tid i : Nat} {w : List Rid} {t' : Txn}
    (h : (txns.modify tid (fun t => { t with ws := t.ws ++ w }))[i]? = some t') :
    ∃ t, txns[i]? = some t ∧ t'.snap = t.snap ∧ t'.startTs = t.startTs ∧ t'.status = t.status ∧
      (tid ≠ i → t' = t) ∧ (tid = i → t'.ws = t.ws ++ w) := by
  obtain ⟨t, h1, h2⟩ := getElem?_modify_some.1 h
  refine ⟨t, h1, ?_⟩
  by_cases hi : tid = i <;> simp [h2, hi]

theorem modify_ws_get {txns : List Txn} {tid i : Nat} {w : List Rid} {t : Txn} (h : txns[i]? = some t) :
    ∃ t', (txns.modify tid (fun t => { t with ws := t.ws ++ w }))[i]? = some t' ∧ t'.snap = t.snap ∧
      t'.startTs = t.startTs ∧ t'.status = t.status ∧ (tid ≠ i → t' = t) ∧ (tid = i → t'.ws = t.ws ++ w) := by
  by_cases hi : tid = i
  · exact ⟨{ t with ws := t.ws ++ w }, getElem?_modify_some.2 ⟨t, h, by simp [hi]⟩, rfl, rfl, rfl,
      fun e => (e hi).elim, fun _ => rfl⟩
  · exact ⟨t, getElem?_modify_some.2 ⟨t, h, by simp [hi]⟩, rfl, rfl, rfl, fun _ => rfl, fun e => (hi e).elim⟩

theorem CInv.write (σ : State) (h : CInv σ) (tid : Nat) (t : Txn) (ht : σ.txns[tid]? = some t)
    (hact : t.status = .active) (es : List Effect) : CInv (σ.write D0 tid es) := by
  rw [write_none]
  have hne : ∀ (u : Nat) (t0 : Txn), σ.txns[u]? = some t0 → t0.status = .committed → tid ≠ u := by
    intro u t0 h0 hc e
    subst e
    rw [ht] at h0; cases h0
    rw [hact] at hc; cases hc
  constructor
  · intro i t' hi
    obtain ⟨t0, h0, hs, _⟩ := modify_ws_fields hi
    rw [hs]; exact h.xid i t0 h0
  · simpa using h.lc_bound
  · intro u t' hu hst
    obtain ⟨t0, h0, _, _, hs, _⟩ := modify_ws_fields hu
    rw [hs] at hst; exact h.lc_max u t0 h0 hst
  · intro e he
    obtain ⟨t0, h1, h2, h3⟩ := h.clog_comm e he
    obtain ⟨t', h4, _, _, _, h5, _⟩ := modify_ws_get (tid := tid) (w := es.map Effect.rid) h1
    rw [h5 (hne _ _ h1 h2)] at h4
    exact ⟨t0, h4, h2, h3⟩
  · intro u t' hu hst
    obtain ⟨t0, h0, _, _, hs, _⟩ := modify_ws_fields hu
    rw [hs] at hst; exact h.comm_clog u t0 h0 hst
  · intro i t' hi
    obtain ⟨t0, h0, _, hs, _⟩ := modify_ws_fields hi
    rw [hs]; exact h.start_le i t0 h0
  · intro i t' hi u hu
    obtain ⟨t0, h0, hs1, hs2, _⟩ := modify_ws_fields hi
    rw [hs1, hs2]; exact h.snap_clog i t0 h0 u hu
  · intro i j ei ej hij hi hj hov
    obtain ⟨t0, h1, h2⟩ := h.fcw i j ei ej hij hi hj hov
    obtain ⟨t', h3, _, h4, _⟩ := modify_ws_get (tid := tid) (w := es.map Effect.rid) h1
    exact ⟨t', h3, by omega⟩

theorem snapOf_eq (σ : State) (tid : Nat) (t : Txn) (ht : σ.txns[tid]? = some t) : σ.snapOf tid = t.snap := by
  simp [State.snapOf, ht]

theorem SInv.write (σ : State) (hc : CInv σ) (j : Nat) (h : SInv σ j) (tid : Nat) (t : Txn)
    (ht : σ.txns[tid]? = some t) (es : List Effect) (hi : InsFrom σ.clock j es) :
    SInv (σ.write D0 tid es) (j + countIns es) := by
  rw [write_none]
  have hxid : (σ.snapOf tid).xid = tid := by rw [snapOf_eq σ tid t ht]; exact hc.xid tid t ht
  obtain ⟨hs, hb⟩ := sorted_applyEffects (σ.snapOf tid) σ.clock es j σ.rows hi h.sorted h.bound
  refine ⟨?_, hs, hb⟩
  apply owners_applyEffects (σ.snapOf tid)
    (fun u rid => ∃ t', (σ.txns.modify tid (fun t => { t with ws := t.ws ++ es.map Effect.rid }))[u]? = some t' ∧
      rid ∈ t'.ws)
  · intro r hr u hu
    obtain ⟨t0, h1, h2⟩ := h.stamps r hr u hu
    obtain ⟨t', h3, _, _, _, h5, h6⟩ := modify_ws_get (tid := tid) (w := es.map Effect.rid) h1
    refine ⟨t', h3, ?_⟩
    by_cases e : tid = u
    · rw [h6 e]; exact List.mem_append_left _ h2
    · rw [h5 e]; exact h2
  · intro e he
    rw [hxid]
    obtain ⟨t', h3, _, _, _, _, h6⟩ := modify_ws_get (tid := tid) (w := es.map Effect.rid) ht
    refine ⟨t', h3, ?_⟩
    rw [h6 rfl]
    exact List.mem_append_right _ (List.mem_map_of_mem he)

/-! #### plans -/

theorem insFrom_cons_ins (c j : Nat) (t : String) (vals : List Val) (p : Plan) (h : InsFrom c (j + 1) p.effs) :
    InsFrom c j (p.cons (Effect.ins (c, j) t vals)).effs := by
  simp [Plan.cons, InsFrom, h]

theorem insFrom_planIns (ts : TableSchema) (c : Nat) : ∀ (rows : List (List Val)) (pb : Option Probe) (v : View) (j : Nat),
    InsFrom c j (planIns ts c pb v rows j).effs
  | [], pb, v, j => by simp [planIns, InsFrom]
  | r :: rs, pb, v, j => by
    unfold planIns
    split
    · simp [InsFrom]
    · split
      · simp [InsFrom]
      · split
        · simp [InsFrom]
        · exact insFrom_cons_ins c j _ _ _ (insFrom_planIns ts c rs _ _ (j + 1))

theorem insFrom_planUpd (ts : TableSchema) (ci : Nat) (col : Col) (add : Bool) (x : Val)
    (p : Option (Nat × CmpOp × Val)) (c : Nat) : ∀ (rs : List ARow) (pb : Option Probe) (v : View) (j : Nat),
    InsFrom c j (planUpd ts ci col add x p pb v rs).effs
  | [], pb, v, j => by simp [planUpd, InsFrom]
  | r :: rs, pb, v, j => by
    unfold planUpd
    split
    · split
      · simp [InsFrom]
      · split
        · simp [InsFrom]
        · split
          · simp [InsFrom]
          · split
            · simp [InsFrom]
            · simp only [Plan.cons, InsFrom]
              exact insFrom_planUpd ts ci col add x p c rs _ _ j
    · exact insFrom_planUpd ts ci col add x p c rs pb v j

theorem insFrom_planDel (t : String) (p : Option (Nat × CmpOp × Val)) (c : Nat) : ∀ (rs : List ARow) (j : Nat),
    InsFrom c j (planDel t p rs).effs
  | [], j => by simp [planDel, InsFrom]
  | r :: rs, j => by
    unfold planDel
    split
    · simp only [Plan.cons, InsFrom]
      exact insFrom_planDel t p c rs j
    · exact insFrom_planDel t p c rs j

theorem insFrom_planStmt (pb : Option Probe) (cat : Catalog) (c j : Nat) (v : View) (st : Stmt) :
    InsFrom c j (planStmt pb cat c j v st).effs := by
  cases st with
  | sel t p =>
    simp only [planStmt]
    split
    · simp [InsFrom]
    · split <;> simp [InsFrom]
  | ins t rows =>
    simp only [planStmt]
    split
    · simp [InsFrom]
    · split
      · simp [InsFrom]
      · exact insFrom_planIns _ c rows pb v j
  | upd t col add x p =>
    simp only [planStmt]
    split
    · simp [InsFrom]
    · split
      · simp [InsFrom]
      · split
        · simp [InsFrom]
        · exact insFrom_planUpd _ _ _ _ _ _ c v pb v j
  | del t p =>
    simp only [planStmt]
    split
    · simp [InsFrom]
    · split
      · simp [InsFrom]
      · exact insFrom_planDel _ _ c v j

/-! #### what a fresh snapshot reads -/

def State.isCommitted (σ : State) (u : Nat) : Prop := ∃ t, σ.txns[u]? = some t ∧ t.status = .committed

theorem fresh_sees (σ : State) (h : CInv σ) (u : Nat) (hu : u < σ.txns.length) :
    (σ.freshSnap D0).sees u = true ↔ σ.isCommitted u := by
  have hne : u ≠ σ.txns.length := by omega
  have hx : (σ.freshSnap D0).xid = σ.txns.length := by rw [freshSnap_none]
  simp only [Snapshot.sees, Bool.or_eq_true, beq_iff_eq, hx, hne, false_or]
  exact fresh_cb σ h u hne

theorem bool_eq_of_iff {a b : Bool} (h : a = true ↔ b = true) : a = b := by
  cases a <;> cases b <;> simp_all

theorem view_fresh_eq (σ σ' : State) (hc : CInv σ) (hc' : CInv σ') (rows : List Row)
    (hown : ∀ r ∈ rows, ∀ u ∈ r.owners, u < σ.txns.length ∧ u < σ'.txns.length)
    (hst : ∀ u, σ.isCommitted u ↔ σ'.isCommitted u) :
    view D0 (σ.freshSnap D0) rows = view D0 (σ'.freshSnap D0) rows := by
  apply filterMap_congr_mem
  intro r hr
  apply toARow_congr
  intro u hu
  apply bool_eq_of_iff
  rw [fresh_sees σ hc u (hown r hr u hu).1, fresh_sees σ' hc' u (hown r hr u hu).2]
  exact hst u

theorem owners_lt (σ : State) (j : Nat) (h : SInv σ j) : ∀ r ∈ σ.rows, ∀ u ∈ r.owners, u < σ.txns.length := by
  intro r hr u hu
  obtain ⟨t, h1, _⟩ := h.stamps r hr u hu
  exact getElem?_lt h1

theorem toARow_rid {s : Snapshot} {r : Row} {y : ARow} (h : r.toARow D0 s = some y) :
    y.rid = r.rid ∧ y.table = r.table := by
  simp only [Row.toARow] at h
  cases hv : rowVisible D0 s r with
  | none => rw [hv] at h; cases h
  | some vals => rw [hv] at h; cases h; exact ⟨rfl, rfl⟩

theorem mem_view {s : Snapshot} {rows : List Row} {y : ARow} :
    y ∈ view D0 s rows ↔ ∃ r ∈ rows, r.toARow D0 s = some y := by
  simp [view, List.mem_filterMap]

theorem sorted_view (s : Snapshot) (rows : List Row) (h : rows.Pairwise (fun a b => ridLt a.rid b.rid)) :
    SortedV (view D0 s rows) := by
  unfold SortedV view
  apply List.Pairwise.filterMap _ _ h
  intro a a' haa b hb b' hb'
  rw [(toARow_rid hb).1, (toARow_rid hb').1]; exact haa

theorem mem_overlaps {a b : List Rid} {x : Rid} (ha : x ∈ a) (hb : x ∈ b) : overlaps a b = true := by
  unfold overlaps
  apply List.any_eq_true.2
  exact ⟨x, ha, by simpa using hb⟩

/-- **commit**: after a successful commit a fresh snapshot reads, for every row the committer wrote, what the
    committer read, and for every other row what a fresh snapshot read before -/
theorem view_after_commit (σ : State) (hc : CInv σ) (j : Nat) (hs : SInv σ j) (tid : Nat) (t : Txn)
    (ht : σ.txns[tid]? = some t) (hact : t.status = .active) (hnc : conflictIn σ.clog t = false) :
    view D0 ((σ.commitTxn tid).1.freshSnap D0) σ.rows =
      takeOver (view D0 (σ.freshSnap D0) σ.rows) (view D0 t.snap σ.rows) t.ws := by
  have hc' : CInv (σ.commitTxn tid).1 := CInv.commit σ hc tid t ht hact
  have hxid : t.snap.xid = tid := hc.xid tid t ht
  have hlen : (σ.commitTxn tid).1.txns.length = σ.txns.length := by
    rw [commitTxn_eq σ tid t ht]; simp [hnc, setStatus]
  -- committed status after the commit
  have hcomm : ∀ u, (σ.commitTxn tid).1.isCommitted u ↔ (u = tid ∨ σ.isCommitted u) := by
    intro u
    rw [commitTxn_eq σ tid t ht]
    simp only [hnc, Bool.false_eq_true, if_false, State.isCommitted]
    constructor
    · rintro ⟨t', h1, h2⟩
      obtain ⟨t0, h0, _, _, _, hother, _⟩ := setStatus_same_fields h1
      by_cases e : tid = u
      · exact Or.inl e.symm
      · rw [hother e] at h2; exact Or.inr ⟨t0, h0, h2⟩
    · rintro (e | ⟨t0, h0, h2⟩)
      · subst e
        exact ⟨{ t with status := .committed }, getElem?_setStatus.2 ⟨t, ht, by simp⟩, rfl⟩
      · have hne : tid ≠ u := by
          intro e; subst e
          rw [ht] at h0; cases h0
          rw [hact] at h2; cases h2
        exact ⟨t0, setStatus_get_other h0 hne, h2⟩
  have hnotc : ¬ σ.isCommitted tid := by
    rintro ⟨t0, h0, h2⟩
    rw [ht] at h0; cases h0
    rw [hact] at h2; cases h2
  -- per-row claims
  have claim1 : ∀ r ∈ σ.rows, r.rid ∈ t.ws →
      r.toARow D0 ((σ.commitTxn tid).1.freshSnap D0) = r.toARow D0 t.snap := by
    intro r hr hws
    apply toARow_congr
    intro u hu
    apply bool_eq_of_iff
    have hult := owners_lt σ j hs r hr u hu
    rw [fresh_sees _ hc' u (by rw [hlen]; exact hult), hcomm]
    by_cases e : u = tid
    · subst e
      simp [Snapshot.sees, hxid]
    · have hsees : t.snap.sees u = t.snap.cb u := by simp [Snapshot.sees, hxid, e]
      rw [hsees, hc.snap_clog tid t ht u e]
      simp only [e, false_or]
      constructor
      · rintro ⟨tu, h1, h2⟩
        obtain ⟨en, hen, hen1⟩ := List.mem_map.1 (hc.comm_clog u tu h1 h2)
        obtain ⟨tu', h1', _, h3'⟩ := hc.clog_comm en hen
        rw [hen1, h1] at h1'; cases h1'
        obtain ⟨tu'', h1'', hrid⟩ := hs.stamps r hr u hu
        rw [h1] at h1''; cases h1''
        have hov : overlaps en.2 t.ws = true := by
          rw [← h3']; exact mem_overlaps hrid hws
        have hsplit : en ∈ σ.clog.take t.startTs ++ σ.clog.drop t.startTs := by
          rw [List.take_append_drop]; exact hen
        rcases List.mem_append.1 hsplit with h | h
        · exact List.mem_map.2 ⟨en, h, hen1⟩
        · exfalso
          have : conflictIn σ.clog t = true := by
            unfold conflictIn
            exact List.any_eq_true.2 ⟨en, h, hov⟩
          rw [hnc] at this; cases this
      · intro hm
        obtain ⟨en, hen, hen1⟩ := List.mem_map.1 hm
        obtain ⟨tu, h1, h2, _⟩ := hc.clog_comm en (List.mem_of_mem_take hen)
        rw [hen1] at h1
        exact ⟨tu, h1, h2⟩
  have claim2 : ∀ r ∈ σ.rows, r.rid ∉ t.ws →
      r.toARow D0 ((σ.commitTxn tid).1.freshSnap D0) = r.toARow D0 (σ.freshSnap D0) := by
    intro r hr hws
    apply toARow_congr
    intro u hu
    apply bool_eq_of_iff
    have hult := owners_lt σ j hs r hr u hu
    rw [fresh_sees _ hc' u (by rw [hlen]; exact hult), fresh_sees σ hc u hult, hcomm]
    have e : u ≠ tid := by
      intro e; subst e
      obtain ⟨t0, h0, hrid⟩ := hs.stamps r hr u hu
      rw [ht] at h0; cases h0
      exact hws hrid
    simp [e]
  apply sorted_ext
  · exact sorted_view _ _ hs.sorted
  · exact sorted_takeOver _ _ _ (sorted_view _ _ hs.sorted) (sorted_view _ _ hs.sorted)
  · intro y
    rw [mem_takeOver, mem_view, mem_view, mem_view]
    constructor
    · rintro ⟨r, hr, hy⟩
      have hrid := (toARow_rid hy).1
      by_cases hws : r.rid ∈ t.ws
      · left
        rw [claim1 r hr hws] at hy
        exact ⟨⟨r, hr, hy⟩, by simpa [hrid] using hws⟩
      · right
        rw [claim2 r hr hws] at hy
        exact ⟨⟨r, hr, hy⟩, by simpa [hrid] using hws⟩
    · rintro (⟨⟨r, hr, hy⟩, hws⟩ | ⟨⟨r, hr, hy⟩, hws⟩)
      · have hrid := (toARow_rid hy).1
        have hws' : r.rid ∈ t.ws := by simpa [hrid] using hws
        exact ⟨r, hr, by rw [claim1 r hr hws']; exact hy⟩
      · have hrid := (toARow_rid hy).1
        have hws' : r.rid ∉ t.ws := by simpa [hrid] using hws
        exact ⟨r, hr, by rw [claim2 r hr hws']; exact hy⟩

/-! ### simulation of the MVCC machine by the abstract machine -/

/-- transaction `tid` of the MVCC machine and the abstract transaction `a` are in step -/
def TxRel (σ : State) (tid : Nat) (a : Spec.ATxn) : Prop :=
  ∃ t, σ.txns[tid]? = some t ∧ t.status = .active ∧ view D0 t.snap σ.rows = a.view ∧ t.ws = a.ws ∧
    t.startTs = a.beginIdx

/-- everything of the relation between the two machines except the sessions -/
structure Core (σ : State) (α : Spec.State) (j : Nat) : Prop where
  cinv : CInv σ
  sinv : SInv σ j
  cat : σ.cat = α.cat
  clock : σ.clock = α.clock
  committed : view D0 (σ.freshSnap D0) σ.rows = α.committed
  log : α.log.map (·.2) = σ.clog.map (·.2)

theorem SInv.mono (σ : State) (j k : Nat) (h : SInv σ j) : SInv σ (j + k) := by
  refine ⟨h.stamps, h.sorted, ?_⟩
  intro r hr
  have := h.bound r hr
  unfold ridLt at *; simp only at *; omega

theorem active_not_committed {σ : State} {tid : Nat} {t : Txn} (ht : σ.txns[tid]? = some t)
    (hact : t.status = .active) : ¬ σ.isCommitted tid := by
  rintro ⟨t0, h0, h2⟩
  rw [ht] at h0; cases h0
  rw [hact] at h2; cases h2

/-- no snapshot of another transaction, and no fresh snapshot, sees an active transaction -/
theorem other_not_sees (σ : State) (hc : CInv σ) (tid tid' : Nat) (t t' : Txn) (ht : σ.txns[tid]? = some t)
    (hact : t.status = .active) (ht' : σ.txns[tid']? = some t') (hne : tid' ≠ tid) :
    t'.snap.sees tid = false := by
  have hx : t'.snap.xid = tid' := hc.xid tid' t' ht'
  cases hcb : t'.snap.cb tid with
  | false => simp [Snapshot.sees, hx, hcb]; exact fun e => hne e.symm
  | true =>
    exfalso
    have := (hc.snap_clog tid' t' ht' tid (fun e => hne e.symm)).1 hcb
    obtain ⟨en, hen, hen1⟩ := List.mem_map.1 this
    obtain ⟨tu, h1, h2, _⟩ := hc.clog_comm en (List.mem_of_mem_take hen)
    rw [hen1] at h1
    exact active_not_committed ht hact ⟨tu, h1, h2⟩

theorem fresh_not_sees (σ : State) (hc : CInv σ) (tid : Nat) (t : Txn) (ht : σ.txns[tid]? = some t)
    (hact : t.status = .active) : (σ.freshSnap D0).sees tid = false := by
  cases h : (σ.freshSnap D0).sees tid with
  | false => rfl
  | true => exact ((active_not_committed ht hact) ((fresh_sees σ hc tid (getElem?_lt ht)).1 h)).elim

/-! #### begin -/

theorem begin_core (σ : State) (α : Spec.State) (j : Nat) (h : Core σ α j) :
    Core (σ.beginTxn D0).1 α j ∧ (σ.beginTxn D0).2 = σ.txns.length ∧
    TxRel (σ.beginTxn D0).1 σ.txns.length α.beginTxn ∧
    (∀ tid' a', TxRel σ tid' a' → TxRel (σ.beginTxn D0).1 tid' a') := by
  have hc1 := CInv.begin σ h.cinv
  have hs1 := SInv.begin σ j h.sinv
  have hcommitted : view D0 ((σ.beginTxn D0).1.freshSnap D0) σ.rows = view D0 (σ.freshSnap D0) σ.rows := by
    symm
    apply view_fresh_eq σ _ h.cinv hc1
    · intro r hr u hu
      have := owners_lt σ j h.sinv r hr u hu
      simp only [State.beginTxn, List.length_append, List.length_singleton]
      omega
    · intro u
      simp only [State.isCommitted, State.beginTxn]
      constructor
      · rintro ⟨t, h1, h2⟩; exact ⟨t, getElem?_snoc.2 (Or.inl h1), h2⟩
      · rintro ⟨t, h1, h2⟩
        rcases getElem?_snoc.1 h1 with h1' | ⟨_, h1'⟩
        · exact ⟨t, h1', h2⟩
        · subst h1'; cases h2
  refine ⟨⟨hc1, hs1, h.cat, h.clock, ?_, h.log⟩, rfl, ?_, ?_⟩
  · show view D0 ((σ.beginTxn D0).1.freshSnap D0) σ.rows = α.committed
    rw [hcommitted]; exact h.committed
  · refine ⟨⟨σ.freshSnap D0, .active, [], σ.clog.length⟩, ?_, rfl, ?_, rfl, ?_⟩
    · simp [State.beginTxn]
    · show view D0 (σ.freshSnap D0) σ.rows = (Spec.State.beginTxn α).view
      simp only [Spec.State.beginTxn, Spec.ATxn.view, View.applyAll, List.foldl_nil]
      exact h.committed
    · show σ.clog.length = α.log.length
      have := congrArg List.length h.log
      simpa using this.symm
  · rintro tid' a' ⟨t, h1, h2, h3, h4, h5⟩
    exact ⟨t, getElem?_snoc.2 (Or.inl h1), h2, h3, h4, h5⟩

/-! #### abort -/

theorem abort_core (σ : State) (α : Spec.State) (j : Nat) (h : Core σ α j) (tid : Nat) (a : Spec.ATxn)
    (hr : TxRel σ tid a) :
    Core (σ.abortTxn tid) α j ∧ (∀ tid' a', tid' ≠ tid → TxRel σ tid' a' → TxRel (σ.abortTxn tid) tid' a') := by
  obtain ⟨t, ht, hact, _⟩ := hr
  have hc1 := CInv.abort σ h.cinv tid t ht hact
  have hs1 := SInv.abort σ j h.sinv tid
  refine ⟨⟨hc1, hs1, h.cat, h.clock, ?_, h.log⟩, ?_⟩
  · show view D0 ((σ.abortTxn tid).freshSnap D0) σ.rows = α.committed
    rw [← h.committed]
    symm
    apply view_fresh_eq σ _ h.cinv hc1
    · intro r hr u hu
      have := owners_lt σ j h.sinv r hr u hu
      simp only [State.abortTxn, setStatus, List.length_modify]
      omega
    · intro u
      simp only [State.isCommitted, State.abortTxn]
      constructor
      · rintro ⟨t0, h1, h2⟩
        have hne : tid ≠ u := by
          intro e; subst e
          exact active_not_committed ht hact ⟨t0, h1, h2⟩
        exact ⟨t0, setStatus_get_other h1 hne, h2⟩
      · rintro ⟨t', h1, h2⟩
        obtain ⟨t0, h0, _, _, _, hother, hself⟩ := setStatus_same_fields h1
        by_cases e : tid = u
        · rw [hself e] at h2; cases h2
        · rw [hother e] at h2; exact ⟨t0, h0, h2⟩
  · rintro tid' a' hne ⟨t', h1, h2, h3, h4, h5⟩
    exact ⟨t', setStatus_get_other h1 (fun e => hne e.symm), h2, h3, h4, h5⟩

/-! #### commit -/

theorem conflict_eq (σ : State) (α : Spec.State) (hlog : α.log.map (·.2) = σ.clog.map (·.2)) (t : Txn)
    (a : Spec.ATxn) (hws : t.ws = a.ws) (hst : t.startTs = a.beginIdx) :
    Spec.conflict α.log a = conflictIn σ.clog t := by
  unfold Spec.conflict conflictIn
  have h1 : (α.log.drop a.beginIdx).any (fun e => overlaps e.2 a.ws) =
      ((α.log.map (·.2)).drop a.beginIdx).any (fun w => overlaps w a.ws) := by
    rw [← List.map_drop, List.any_map]; rfl
  have h2 : (σ.clog.drop t.startTs).any (fun e => overlaps e.2 t.ws) =
      ((σ.clog.map (·.2)).drop t.startTs).any (fun w => overlaps w t.ws) := by
    rw [← List.map_drop, List.any_map]; rfl
  rw [h1, h2, hlog, hws, hst]

theorem commit_core (σ : State) (α : Spec.State) (j : Nat) (h : Core σ α j) (tid : Nat) (a : Spec.ATxn)
    (hr : TxRel σ tid a) :
    (σ.commitTxn tid).2 = (α.commitTxn a).2 ∧ Core (σ.commitTxn tid).1 (α.commitTxn a).1 j ∧
    (∀ tid' a', tid' ≠ tid → TxRel σ tid' a' → TxRel (σ.commitTxn tid).1 tid' a') := by
  have hr0 := hr
  obtain ⟨t, ht, hact, hview, hws, hst⟩ := hr
  have hce := conflict_eq σ α h.log t a hws hst
  rw [commitTxn_eq σ tid t ht]
  unfold Spec.State.commitTxn
  rw [hce]
  cases hcf : conflictIn σ.clog t with
  | true =>
    simp only [if_true]
    obtain ⟨h1, h2⟩ := abort_core σ α j h tid a hr0
    exact ⟨trivial, h1, h2⟩
  | false =>
    simp only [Bool.false_eq_true, if_false]
    have hc1 : CInv (σ.commitTxn tid).1 := CInv.commit σ h.cinv tid t ht hact
    have hs1 : SInv (σ.commitTxn tid).1 j := SInv.commit σ j h.sinv tid
    have hv := view_after_commit σ h.cinv j h.sinv tid t ht hact hcf
    rw [commitTxn_eq σ tid t ht] at hc1 hs1 hv
    simp only [hcf, Bool.false_eq_true, if_false] at hc1 hs1 hv
    refine ⟨trivial, ⟨hc1, hs1, h.cat, h.clock, ?_, ?_⟩, ?_⟩
    · show view D0 (State.freshSnap D0 _) σ.rows = takeOver α.committed a.view a.ws
      rw [hv, h.committed, hview, hws]
    · show (α.log ++ [(a.beginIdx, a.ws)]).map (·.2) = (σ.clog ++ [(tid, t.ws)]).map (·.2)
      simp [h.log, hws]
    · rintro tid' a' hne ⟨t', h1, h2, h3, h4, h5⟩
      exact ⟨t', setStatus_get_other h1 (fun e => hne e.symm), h2, h3, h4, h5⟩

theorem spec_commit_false (α : Spec.State) (a : Spec.ATxn) (h : (α.commitTxn a).2 = false) :
    (α.commitTxn a).1 = α := by
  unfold Spec.State.commitTxn at h ⊢
  split
  · rfl
  · rename_i hc; simp [hc] at h

/-- commit with the constraint re-check -/
theorem commitC_core (σ : State) (α : Spec.State) (j : Nat) (h : Core σ α j) (tid : Nat) (a : Spec.ATxn)
    (hr : TxRel σ tid a) :
    (σ.commitC D0 tid).2 = (α.commitC a).2 ∧ Core (σ.commitC D0 tid).1 (α.commitC a).1 j ∧
    (∀ tid' a', tid' ≠ tid → TxRel σ tid' a' → TxRel (σ.commitC D0 tid).1 tid' a') := by
  obtain ⟨hok, c1, pres⟩ := commit_core σ α j h tid a hr
  obtain ⟨c0, pres0⟩ := abort_core σ α j h tid a hr
  unfold State.commitC Spec.State.commitC
  rw [hok]
  cases h2 : (α.commitTxn a).2 with
  | false =>
    simp only [Bool.false_eq_true, if_false]
    rw [spec_commit_false α a h2] at c1
    exact ⟨trivial, c1, pres⟩
  | true =>
    simp only [if_true]
    have hch : constraintsHold σ.cat (view D0 ((σ.commitTxn tid).1.freshSnap D0) (σ.commitTxn tid).1.rows) =
        constraintsHold α.cat (α.commitTxn a).1.committed := by
      rw [c1.committed, h.cat]
    have hflag : D0.uniqueNotRecheckedAtCommit = false := rfl
    have hflag' : D0.commitChecksInsertedKeysOnly = false := rfl
    rw [hflag, hflag', hch]
    cases h3 : constraintsHold α.cat (α.commitTxn a).1.committed with
    | false =>
      simp only [Bool.not_false, Bool.and_self, Bool.false_and, Bool.false_or, if_true]
      exact ⟨trivial, c0, pres0⟩
    | true =>
      simp only [Bool.not_false, Bool.not_true, Bool.and_false, Bool.false_and, Bool.false_or, Bool.false_eq_true,
        if_false]
      exact ⟨trivial, c1, pres⟩

/-- `keyTaken` looks at the catalog, the rows, and the commit-log entries since the transaction began -/
theorem keyTaken_congr {σ σ' : State} {tid : Nat} {t t' : Txn} (hc : σ'.cat = σ.cat) (hr : σ'.rows = σ.rows)
    (ht : σ.txns[tid]? = some t) (ht' : σ'.txns[tid]? = some t')
    (hl : σ'.clog.drop t'.startTs = σ.clog.drop t.startTs) : σ'.keyTaken tid = σ.keyTaken tid := by
  unfold State.keyTaken
  rw [ht, ht', hc, hr]
  simp only [hl]

/-! #### statements -/

theorem stmt_none (σ : State) (tid j : Nat) (st : Stmt) :
    σ.stmt D0 tid j st =
      if (planStmt none σ.cat σ.clock j (view D0 (σ.snapOf tid) σ.rows) st).out.isErr
      then (σ, planStmt none σ.cat σ.clock j (view D0 (σ.snapOf tid) σ.rows) st)
      else (σ.write D0 tid (planStmt none σ.cat σ.clock j (view D0 (σ.snapOf tid) σ.rows) st).effs,
            planStmt none σ.cat σ.clock j (view D0 (σ.snapOf tid) σ.rows) st) := by
  simp only [State.stmt, D0, Defects.none, Defects.usesIndex, Bool.not_false, Bool.and_true, Bool.or_self,
    Bool.false_eq_true, if_false]
  split <;> rename_i h <;> simp [h]

theorem write_core (σ : State) (α : Spec.State) (j : Nat) (h : Core σ α j) (tid : Nat) (a : Spec.ATxn)
    (hr : TxRel σ tid a) (es : List Effect) (hi : InsFrom σ.clock j es) :
    Core (σ.write D0 tid es) α (j + countIns es) ∧
    TxRel (σ.write D0 tid es) tid { a with effs := a.effs ++ es } ∧
    (∀ tid' a', tid' ≠ tid → TxRel σ tid' a' → TxRel (σ.write D0 tid es) tid' a') := by
  obtain ⟨t, ht, hact, hview, hws, hst⟩ := hr
  have hc1 := CInv.write σ h.cinv tid t ht hact es
  have hs1 := SInv.write σ h.cinv j h.sinv tid t ht es hi
  have hsnap : σ.snapOf tid = t.snap := snapOf_eq σ tid t ht
  have hxid : t.snap.xid = tid := h.cinv.xid tid t ht
  have hrows : (σ.write D0 tid es).rows = applyEffects D0 t.snap σ.rows es := by rw [write_none, hsnap]
  have htx : (σ.write D0 tid es).txns = σ.txns.modify tid (fun t => { t with ws := t.ws ++ es.map Effect.rid }) := by
    rw [write_none]
  have hlen : (σ.write D0 tid es).txns.length = σ.txns.length := by rw [htx]; simp
  refine ⟨⟨hc1, hs1, ?_, ?_, ?_, ?_⟩, ?_, ?_⟩
  · rw [write_none]; exact h.cat
  · rw [write_none]; exact h.clock
  · rw [← h.committed]
    have e1 : view D0 ((σ.write D0 tid es).freshSnap D0) (σ.write D0 tid es).rows =
        view D0 (σ.freshSnap D0) (σ.write D0 tid es).rows := by
      symm
      apply view_fresh_eq σ _ h.cinv hc1
      · intro r hr u hu
        have := owners_lt _ _ hs1 r hr u hu
        rw [hlen] at this
        exact ⟨this, by rw [hlen]; exact this⟩
      · intro u
        simp only [State.isCommitted, htx]
        constructor
        · rintro ⟨t0, h1, h2⟩
          obtain ⟨t', h3, _, _, h4, _⟩ := modify_ws_get (tid := tid) (w := es.map Effect.rid) h1
          exact ⟨t', h3, by rw [h4]; exact h2⟩
        · rintro ⟨t', h1, h2⟩
          obtain ⟨t0, h0, _, _, h4, _⟩ := modify_ws_fields h1
          exact ⟨t0, h0, by rw [← h4]; exact h2⟩
    rw [e1, hrows]
    apply view_applyEffects_other
    rw [hxid]
    exact fresh_not_sees σ h.cinv tid t ht hact
  · rw [write_none]; exact h.log
  · obtain ⟨t', h3, h4, h5, h6, _, h7⟩ := modify_ws_get (tid := tid) (w := es.map Effect.rid) ht
    refine ⟨t', by rw [htx]; exact h3, by rw [h6]; exact hact, ?_, ?_, by rw [h5]; exact hst⟩
    · rw [h4, hrows, view_applyEffects_own, hview]
      simp [Spec.ATxn.view, View.applyAll, List.foldl_append]
    · rw [h7 rfl, hws]
      simp [Spec.ATxn.ws]
  · rintro tid' a' hne ⟨t', h1, h2, h3, h4, h5⟩
    obtain ⟨t'', h6, _, _, _, h7, _⟩ := modify_ws_get (tid := tid) (w := es.map Effect.rid) h1
    rw [h7 (fun e => hne e.symm)] at h6
    refine ⟨t', by rw [htx]; exact h6, h2, ?_, h4, h5⟩
    rw [hrows, ← h3]
    apply view_applyEffects_other
    rw [hxid]
    exact other_not_sees σ h.cinv tid tid' t t' ht hact h1 hne

theorem stmt_core (σ : State) (α : Spec.State) (j : Nat) (h : Core σ α j) (tid : Nat) (a : Spec.ATxn)
    (hr : TxRel σ tid a) (st : Stmt) :
    (σ.stmt D0 tid j st).2 = (Spec.stmt α.cat α.clock a j st).2 ∧
    Core (σ.stmt D0 tid j st).1 α (j + countIns (σ.stmt D0 tid j st).2.effs) ∧
    TxRel (σ.stmt D0 tid j st).1 tid (Spec.stmt α.cat α.clock a j st).1 ∧
    (∀ tid' a', tid' ≠ tid → TxRel σ tid' a' → TxRel (σ.stmt D0 tid j st).1 tid' a') := by
  have hr0 := hr
  obtain ⟨t, ht, hact, hview, hws, hst⟩ := hr
  have hplan : planStmt none σ.cat σ.clock j (view D0 (σ.snapOf tid) σ.rows) st = planStmt none α.cat α.clock j a.view st := by
    rw [snapOf_eq σ tid t ht, hview, h.cat, h.clock]
  rw [stmt_none]
  unfold Spec.stmt
  rw [hplan]
  by_cases he : (planStmt none α.cat α.clock j a.view st).out.isErr = true
  · simp only [if_pos he]
    exact ⟨trivial, ⟨h.cinv, SInv.mono σ j _ h.sinv, h.cat, h.clock, h.committed, h.log⟩, hr0, fun _ _ _ h' => h'⟩
  · simp only [if_neg he]
    have hi : InsFrom σ.clock j (planStmt none α.cat α.clock j a.view st).effs := by
      rw [← h.cat, ← h.clock]; exact insFrom_planStmt _ _ _ _ _ _
    obtain ⟨h1, h2, h3⟩ := write_core σ α j h tid a hr0 _ hi
    exact ⟨trivial, h1, h2, h3⟩

theorem batch_core (α : Spec.State) (tid : Nat) : ∀ (sts : List Stmt) (σ : State) (j : Nat) (a : Spec.ATxn),
    Core σ α j → TxRel σ tid a →
    (State.batch D0 σ tid j sts).2 = (Spec.batch α.cat α.clock a j sts).2 ∧
    (∃ j', Core (State.batch D0 σ tid j sts).1 α j') ∧
    TxRel (State.batch D0 σ tid j sts).1 tid (Spec.batch α.cat α.clock a j sts).1 ∧
    (∀ tid' a', tid' ≠ tid → TxRel σ tid' a' → TxRel (State.batch D0 σ tid j sts).1 tid' a')
  | [], σ, j, a, h, hr => by
    simp only [State.batch, Spec.batch]
    exact ⟨trivial, ⟨j, h⟩, hr, fun _ _ _ h' => h'⟩
  | st :: sts, σ, j, a, h, hr => by
    obtain ⟨h1, h2, h3, h4⟩ := stmt_core σ α j h tid a hr st
    rcases hx : σ.stmt D0 tid j st with ⟨σ1, p⟩
    rcases hy : Spec.stmt α.cat α.clock a j st with ⟨a1, p'⟩
    simp only [hx, hy] at h1 h2 h3 h4
    subst h1
    simp only [State.batch, Spec.batch, hx, hy]
    obtain ⟨g1, g2, g3, g4⟩ := batch_core α tid sts σ1 (j + countIns p.effs) a1 h2 h3
    cases ho : p.out with
    | err e =>
      dsimp only
      exact ⟨rfl, ⟨_, h2⟩, h3, h4⟩
    | okN n =>
      dsimp only
      refine ⟨?_, g2, g3, fun tid' a' hne h' => g4 tid' a' hne (h4 tid' a' hne h')⟩
      simp only [g1]
    | rows rs =>
      dsimp only
      refine ⟨?_, g2, g3, fun tid' a' hne h' => g4 tid' a' hne (h4 tid' a' hne h')⟩
      simp only [g1]

/-! #### sessions -/

/-- the relation between the two machines; `ls`, `la` are the session tables as lookup functions -/
structure RelL (σ : State) (α : Spec.State) (j : Nat) (ls : String → Option Nat) (la : String → Option Spec.ATxn) :
    Prop where
  core : Core σ α j
  sess : ∀ name tid, ls name = some tid → ∃ a, la name = some a ∧ TxRel σ tid a
  sessNone : ∀ name, ls name = none → la name = none
  inj : ∀ n1 n2 tid, ls n1 = some tid → ls n2 = some tid → n1 = n2

/-- the transaction of session `s` made a step -/
theorem RelL.own {σ σ' : State} {α α' : Spec.State} {j j' : Nat} {ls : String → Option Nat}
    {la : String → Option Spec.ATxn} (h : RelL σ α j ls la) (s : String) (tid : Nat) (hs : ls s = some tid)
    (a' : Spec.ATxn) (hc : Core σ' α' j') (hown : TxRel σ' tid a')
    (hoth : ∀ tid' a'', tid' ≠ tid → TxRel σ tid' a'' → TxRel σ' tid' a'') :
    RelL σ' α' j' ls (fun n => if n = s then some a' else la n) := by
  refine ⟨hc, ?_, ?_, h.inj⟩
  · intro name tid' hn
    by_cases e : name = s
    · subst e
      rw [hs] at hn; cases hn
      exact ⟨a', by simp, hown⟩
    · obtain ⟨a'', h1, h2⟩ := h.sess name tid' hn
      have hne : tid' ≠ tid := fun e' => e (h.inj name s tid (by rw [hn, e']) hs)
      exact ⟨a'', by simp [e, h1], hoth tid' a'' hne h2⟩
  · intro name hn
    by_cases e : name = s
    · subst e; rw [hs] at hn; cases hn
    · simp [e, h.sessNone name hn]

/-- session `s` ended -/
theorem RelL.remove {σ σ' : State} {α α' : Spec.State} {j j' : Nat} {ls : String → Option Nat}
    {la : String → Option Spec.ATxn} (h : RelL σ α j ls la) (s : String) (tid : Nat) (hs : ls s = some tid)
    (hc : Core σ' α' j') (hoth : ∀ tid' a'', tid' ≠ tid → TxRel σ tid' a'' → TxRel σ' tid' a'') :
    RelL σ' α' j' (fun n => if n = s then none else ls n) (fun n => if n = s then none else la n) := by
  refine ⟨hc, ?_, ?_, ?_⟩
  · intro name tid' hn
    by_cases e : name = s
    · simp [e] at hn
    · simp only [e, if_false] at hn
      obtain ⟨a'', h1, h2⟩ := h.sess name tid' hn
      have hne : tid' ≠ tid := fun e' => e (h.inj name s tid (by rw [hn, e']) hs)
      exact ⟨a'', by simp [e, h1], hoth tid' a'' hne h2⟩
  · intro name hn
    by_cases e : name = s
    · simp [e]
    · simp only [e, if_false] at hn; simp [e, h.sessNone name hn]
  · intro n1 n2 tid' h1 h2
    by_cases e1 : n1 = s
    · simp [e1] at h1
    · by_cases e2 : n2 = s
      · simp [e2] at h2
      · simp only [e1, if_false] at h1; simp only [e2, if_false] at h2
        exact h.inj n1 n2 tid' h1 h2

/-- a new session `s` with the fresh transaction `N` -/
theorem RelL.add {σ σ' : State} {α α' : Spec.State} {j j' : Nat} {ls : String → Option Nat}
    {la : String → Option Spec.ATxn} (h : RelL σ α j ls la) (s : String) (N : Nat) (a' : Spec.ATxn)
    (hc : Core σ' α' j') (hnew : TxRel σ' N a')
    (hall : ∀ tid' a'', TxRel σ tid' a'' → TxRel σ' tid' a'')
    (hfresh : ∀ name tid, ls name = some tid → tid ≠ N) :
    RelL σ' α' j' (fun n => if n = s then some N else ls n) (fun n => if n = s then some a' else la n) := by
  refine ⟨hc, ?_, ?_, ?_⟩
  · intro name tid' hn
    by_cases e : name = s
    · simp only [e, if_true, Option.some.injEq] at hn
      subst hn
      exact ⟨a', by simp [e], hnew⟩
    · simp only [e, if_false] at hn
      obtain ⟨a'', h1, h2⟩ := h.sess name tid' hn
      exact ⟨a'', by simp [e, h1], hall tid' a'' h2⟩
  · intro name hn
    by_cases e : name = s
    · simp [e] at hn
    · simp only [e, if_false] at hn; simp [e, h.sessNone name hn]
  · intro n1 n2 tid' h1 h2
    by_cases e1 : n1 = s
    · by_cases e2 : n2 = s
      · rw [e1, e2]
      · simp only [e1, if_true, Option.some.injEq] at h1
        simp only [e2, if_false] at h2
        exact ((hfresh n2 tid' h2) h1.symm).elim
    · by_cases e2 : n2 = s
      · simp only [e2, if_true, Option.some.injEq] at h2
        simp only [e1, if_false] at h1
        exact ((hfresh n1 tid' h1) h2.symm).elim
      · simp only [e1, if_false] at h1; simp only [e2, if_false] at h2
        exact h.inj n1 n2 tid' h1 h2

/-- a step that concerns no session (autocommit transaction) -/
theorem RelL.anon {σ σ' : State} {α α' : Spec.State} {j j' : Nat} {ls : String → Option Nat}
    {la : String → Option Spec.ATxn} (h : RelL σ α j ls la) (hc : Core σ' α' j')
    (hall : ∀ tid' a'', (∃ name, ls name = some tid') → TxRel σ tid' a'' → TxRel σ' tid' a'') :
    RelL σ' α' j' ls la := by
  refine ⟨hc, ?_, h.sessNone, h.inj⟩
  intro name tid' hn
  obtain ⟨a'', h1, h2⟩ := h.sess name tid' hn
  exact ⟨a'', h1, hall tid' a'' ⟨name, hn⟩ h2⟩

theorem TxRel.lt {σ : State} {tid : Nat} {a : Spec.ATxn} (h : TxRel σ tid a) : tid < σ.txns.length := by
  obtain ⟨t, ht, _⟩ := h
  exact getElem?_lt ht

def lkS (σ : State) : String → Option Nat := fun n => lookup n σ.sessions
def lkA (α : Spec.State) : String → Option Spec.ATxn := fun n => lookup n α.sessions

/-- the relation at operation boundaries -/
def Rel (σ : State) (α : Spec.State) : Prop := RelL σ α 0 (lkS σ) (lkA α)

theorem Core.of_eq {σ σ' : State} {α α' : Spec.State} {j : Nat} (h : Core σ α j)
    (e1 : σ'.txns = σ.txns) (e2 : σ'.rows = σ.rows) (e3 : σ'.lastCommitted = σ.lastCommitted)
    (e4 : σ'.clog = σ.clog) (e5 : σ'.cat = σ.cat) (e6 : σ'.clock = σ.clock)
    (f1 : α'.committed = α.committed) (f2 : α'.log = α.log) (f3 : α'.cat = α.cat) (f4 : α'.clock = α.clock) :
    Core σ' α' j := by
  obtain ⟨c1, c2, c3, c4, c5, c6, c7⟩ := σ
  obtain ⟨d1, d2, d3, d4, d5, d6, d7⟩ := σ'
  obtain ⟨a1, a2, a3, a4, a5⟩ := α
  obtain ⟨b1, b2, b3, b4, b5⟩ := α'
  simp only at e1 e2 e3 e4 e5 e6 f1 f2 f3 f4
  subst e1 e2 e3 e4 e5 e6 f1 f2 f3 f4
  exact ⟨h.cinv, h.sinv, h.cat, h.clock, h.committed, h.log⟩

theorem TxRel.of_eq {σ σ' : State} {tid : Nat} {a : Spec.ATxn} (h : TxRel σ tid a)
    (e1 : σ'.txns = σ.txns) (e2 : σ'.rows = σ.rows) : TxRel σ' tid a := by
  unfold TxRel at *
  rw [e1, e2]; exact h

theorem lk_cons (s : String) (v : α) (l : List (String × α)) :
    (fun n => lookup n ((s, v) :: l)) = fun n => if n = s then some v else lookup n l := by
  funext n
  by_cases e : n = s
  · subst e; simp [lookup]
  · have : ¬ (s = n) := fun e' => e e'.symm
    simp [lookup, e, this]

theorem lk_erase (s : String) (l : List (String × α)) :
    (fun n => lookup n (erase s l)) = fun n => if n = s then none else lookup n l := by
  funext n
  by_cases e : n = s
  · subst e; simp [lookup_erase_self]
  · simp [e, lookup_erase_ne s n l e]

theorem commitTxn_sessions (σ : State) (tid : Nat) : (σ.commitTxn tid).1.sessions = σ.sessions := by
  unfold State.commitTxn
  split
  · rfl
  · split <;> rfl

theorem commitTxn_cat (σ : State) (tid : Nat) : (σ.commitTxn tid).1.cat = σ.cat := by
  unfold State.commitTxn
  split
  · rfl
  · split <;> rfl

theorem stmt_sessions (σ : State) (tid j : Nat) (st : Stmt) : (σ.stmt D0 tid j st).1.sessions = σ.sessions := by
  rw [stmt_none]
  split
  · rfl
  · rw [write_none]

theorem batch_sessions (tid : Nat) : ∀ (sts : List Stmt) (σ : State) (j : Nat),
    (State.batch D0 σ tid j sts).1.sessions = σ.sessions
  | [], σ, j => rfl
  | st :: sts, σ, j => by
    simp only [State.batch]
    cases ho : (σ.stmt D0 tid j st).2.out with
    | err e => dsimp only; exact stmt_sessions σ tid j st
    | okN n => dsimp only; rw [batch_sessions tid sts]; exact stmt_sessions σ tid j st
    | rows rs => dsimp only; rw [batch_sessions tid sts]; exact stmt_sessions σ tid j st

theorem commitC_sessions (σ : State) (tid : Nat) : (σ.commitC D0 tid).1.sessions = σ.sessions := by
  unfold State.commitC
  split
  · split
    · rfl
    · exact commitTxn_sessions σ tid
  · exact commitTxn_sessions σ tid

theorem spec_commitC_sessions (α : Spec.State) (a : Spec.ATxn) : (α.commitC a).1.sessions = α.sessions := by
  unfold Spec.State.commitC
  split
  · split
    · rfl
    · unfold Spec.State.commitTxn; split <;> rfl
  · rfl

end AxVerif.Db
