/- Helper lemmas for the tuple model (C18): umbrella module. -/
import AxVerif.Lemmas.TupleBase
import AxVerif.Lemmas.TupleMain
import AxVerif.Lemmas.TupleDelta
import AxVerif.Lemmas.TupleChain
import AxVerif.Lemmas.TupleOps
