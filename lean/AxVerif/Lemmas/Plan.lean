/- Helper lemmas for the C06 theorems: expressions under re-indexing, conjunctions, plan invariants (core Lean only). -/
import AxVerif.Model.Plan
import AxVerif.Lemmas.Sql
import AxVerif.Lemmas.Index
namespace AxVerif.Plan
open AxVerif.Sql AxVerif.Index

/-! ### expressions under re-indexing of their columns -/

/-- the rows / schemas agree on column `i` (read through `f` on the primed side) -/
def AgreeAt (f : Nat → Nat) (tys tys' : List Ty) (row row' : Row) (i : Nat) : Prop :=
  row'[f i]? = row[i]? ∧ tys'.getD (f i) .bigint = tys.getD i .bigint

theorem isNullLit_mapCols (f : Nat → Nat) (e : Expr) : isNullLit (mapCols f e) = isNullLit e := by
  cases e <;> simp [mapCols, isNullLit]

mutual
theorem rtInt32_mapCols (f : Nat → Nat) (tys tys' : List Ty) (e : Expr)
    (h : ∀ i ∈ cols e, tys'.getD (f i) .bigint = tys.getD i .bigint) :
    rtInt32 tys' (mapCols f e) = rtInt32 tys e := by
  match e with
  | .lit v => cases v <;> simp [mapCols, rtInt32]
  | .col i =>
    have := h i (by simp [cols])
    simp only [mapCols, rtInt32, this]
  | .neg e =>
    have ih := rtInt32_mapCols f tys tys' e (fun i hi => h i (by simpa [cols] using hi))
    cases e with
    | lit v => cases v <;> simp [mapCols, rtInt32]
    | _ => simp only [mapCols, rtInt32] at ih ⊢ <;> exact ih
  | .pos e =>
    simp only [mapCols, rtInt32]
    exact rtInt32_mapCols f tys tys' e (fun i hi => h i (by simpa [cols] using hi))
  | .caseWhen parts =>
    simp only [mapCols, rtInt32]
    exact rtInt32Results_mapCols f tys tys' parts (fun i hi => h i (by simpa [cols] using hi))
  | .caseOf x parts =>
    simp only [mapCols, rtInt32]
    exact rtInt32Results_mapCols f tys tys' parts (fun i hi => h i (by simp [cols, hi]))
  | .not _ | .and _ _ | .or _ _ | .cmp _ _ _ | .arith _ _ _ | .like _ _ _ | .isNull _ _ | .between _ _ _ _
  | .inList _ _ _ | .strFn _ _ | .concat _ _ | .nullif _ _ | .coalesce _ => simp [mapCols, rtInt32]
theorem rtInt32Results_mapCols (f : Nat → Nat) (tys tys' : List Ty) (es : List Expr)
    (h : ∀ i ∈ colsList es, tys'.getD (f i) .bigint = tys.getD i .bigint) :
    rtInt32Results tys' (mapColsList f es) = rtInt32Results tys es := by
  match es with
  | [] => simp [mapColsList, rtInt32Results]
  | [e] =>
    have he := rtInt32_mapCols f tys tys' e (fun i hi => h i (by simp [colsList, hi]))
    simp only [mapColsList, rtInt32Results, he, isNullLit_mapCols]
  | c :: r :: rest =>
    have hr := rtInt32_mapCols f tys tys' r (fun i hi => h i (by simp [colsList, hi]))
    have hs := rtInt32Results_mapCols f tys tys' rest (fun i hi => h i (by simp [colsList, hi]))
    simp only [mapColsList, rtInt32Results, hr, hs, isNullLit_mapCols]
end

mutual
theorem inferTyO_mapCols (f : Nat → Nat) (tys tys' : List Ty) (e : Expr)
    (h : ∀ i ∈ cols e, tys'.getD (f i) .bigint = tys.getD i .bigint) :
    inferTyO tys' (mapCols f e) = inferTyO tys e := by
  match e with
  | .lit v => cases v <;> simp [mapCols, inferTyO]
  | .col i =>
    have := h i (by simp [cols])
    simp only [mapCols, inferTyO, this]
  | .neg a | .pos a =>
    simp only [mapCols, inferTyO]
    exact inferTyO_mapCols f tys tys' a (fun i hi => h i (by simpa [cols] using hi))
  | .arith _ a b =>
    have ha := inferTyO_mapCols f tys tys' a (fun i hi => h i (by simp [cols, hi]))
    have hb := inferTyO_mapCols f tys tys' b (fun i hi => h i (by simp [cols, hi]))
    simp only [mapCols, inferTyO, ha, hb]
  | .caseWhen parts =>
    simp only [mapCols, inferTyO]
    exact inferResults_mapCols f tys tys' parts (fun i hi => h i (by simpa [cols] using hi))
  | .caseOf x parts =>
    simp only [mapCols, inferTyO]
    exact inferResults_mapCols f tys tys' parts (fun i hi => h i (by simp [cols, hi]))
  | .strFn g a => cases g <;> simp [mapCols, inferTyO]
  | .nullif a b =>
    simp only [mapCols, inferTyO]
    exact inferTyO_mapCols f tys tys' a (fun i hi => h i (by simp [cols, hi]))
  | .coalesce xs =>
    simp only [mapCols, inferTyO]
    exact inferFirst_mapCols f tys tys' xs (fun i hi => h i (by simpa [cols] using hi))
  | .not _ | .and _ _ | .or _ _ | .cmp _ _ _ | .like _ _ _ | .isNull _ _ | .between _ _ _ _
  | .inList _ _ _ | .concat _ _ => simp [mapCols, inferTyO]
theorem inferResults_mapCols (f : Nat → Nat) (tys tys' : List Ty) (es : List Expr)
    (h : ∀ i ∈ colsList es, tys'.getD (f i) .bigint = tys.getD i .bigint) :
    inferResults tys' (mapColsList f es) = inferResults tys es := by
  match es with
  | [] => simp [mapColsList, inferResults]
  | [e] =>
    have he := inferTyO_mapCols f tys tys' e (fun i hi => h i (by simp [colsList, hi]))
    simp only [mapColsList, inferResults, he]
  | c :: r :: rest =>
    have hr := inferTyO_mapCols f tys tys' r (fun i hi => h i (by simp [colsList, hi]))
    have hs := inferResults_mapCols f tys tys' rest (fun i hi => h i (by simp [colsList, hi]))
    simp only [mapColsList, inferResults, hr, hs]
theorem inferFirst_mapCols (f : Nat → Nat) (tys tys' : List Ty) (es : List Expr)
    (h : ∀ i ∈ colsList es, tys'.getD (f i) .bigint = tys.getD i .bigint) :
    inferFirst tys' (mapColsList f es) = inferFirst tys es := by
  match es with
  | [] => simp [mapColsList, inferFirst]
  | e :: es =>
    have he := inferTyO_mapCols f tys tys' e (fun i hi => h i (by simp [colsList, hi]))
    have hs := inferFirst_mapCols f tys tys' es (fun i hi => h i (by simp [colsList, hi]))
    simp only [mapColsList, inferFirst, he, hs]
end

mutual
theorem rtUnsigned_mapCols (f : Nat → Nat) (tys tys' : List Ty) (e : Expr)
    (h : ∀ i ∈ cols e, tys'.getD (f i) .bigint = tys.getD i .bigint) :
    rtUnsigned tys' (mapCols f e) = rtUnsigned tys e := by
  match e with
  | .col i =>
    have := h i (by simp [cols])
    simp only [mapCols, rtUnsigned, this]
  | .pos a =>
    simp only [mapCols, rtUnsigned]
    exact rtUnsigned_mapCols f tys tys' a (fun i hi => h i (by simpa [cols] using hi))
  | .arith _ a b =>
    have ha := rtUnsigned_mapCols f tys tys' a (fun i hi => h i (by simp [cols, hi]))
    have hb := rtUnsigned_mapCols f tys tys' b (fun i hi => h i (by simp [cols, hi]))
    simp only [mapCols, rtUnsigned, ha, hb]
  | .caseWhen parts =>
    simp only [mapCols, rtUnsigned]
    exact rtUnsignedResults_mapCols f tys tys' parts (fun i hi => h i (by simpa [cols] using hi))
  | .caseOf x parts =>
    simp only [mapCols, rtUnsigned]
    exact rtUnsignedResults_mapCols f tys tys' parts (fun i hi => h i (by simp [cols, hi]))
  | .nullif a b =>
    have ha := inferTyO_mapCols f tys tys' a (fun i hi => h i (by simp [cols, hi]))
    simp only [mapCols, rtUnsigned, inferTy, ha]
  | .coalesce xs =>
    have hx := inferFirst_mapCols f tys tys' xs (fun i hi => h i (by simpa [cols] using hi))
    simp only [mapCols, rtUnsigned, hx]
  | .lit _ | .neg _ | .not _ | .and _ _ | .or _ _ | .cmp _ _ _ | .like _ _ _ | .isNull _ _ | .between _ _ _ _
  | .inList _ _ _ | .strFn _ _ | .concat _ _ => simp [mapCols, rtUnsigned]
theorem rtUnsignedResults_mapCols (f : Nat → Nat) (tys tys' : List Ty) (es : List Expr)
    (h : ∀ i ∈ colsList es, tys'.getD (f i) .bigint = tys.getD i .bigint) :
    rtUnsignedResults tys' (mapColsList f es) = rtUnsignedResults tys es := by
  match es with
  | [] => simp [mapColsList, rtUnsignedResults]
  | [e] =>
    have he := rtUnsigned_mapCols f tys tys' e (fun i hi => h i (by simp [colsList, hi]))
    simp only [mapColsList, rtUnsignedResults, he, isNullLit_mapCols]
  | c :: r :: rest =>
    have hr := rtUnsigned_mapCols f tys tys' r (fun i hi => h i (by simp [colsList, hi]))
    have hs := rtUnsignedResults_mapCols f tys tys' rest (fun i hi => h i (by simp [colsList, hi]))
    simp only [mapColsList, rtUnsignedResults, hr, hs, isNullLit_mapCols]
end

mutual
theorem eval_mapCols (f : Nat → Nat) (tys tys' : List Ty) (row row' : Row) (e : Expr)
    (h : ∀ i ∈ cols e, AgreeAt f tys tys' row row' i) :
    eval {} tys' row' (mapCols f e) = eval {} tys row e := by
  match e with
  | .lit v => simp [mapCols, eval]
  | .col i =>
    have := (h i (by simp [cols])).1
    simp [mapCols, eval, this]
  | .not a =>
    have ha := eval_mapCols f tys tys' row row' a (fun i hi => h i (by simpa [cols] using hi))
    simp [mapCols, eval, ha]
  | .pos a =>
    have ha := eval_mapCols f tys tys' row row' a (fun i hi => h i (by simpa [cols] using hi))
    simp [mapCols, eval, ha]
  | .neg a =>
    have ha := eval_mapCols f tys tys' row row' a (fun i hi => h i (by simpa [cols] using hi))
    have hr := rtInt32_mapCols f tys tys' a (fun i hi => (h i (by simpa [cols] using hi)).2)
    have hu := rtUnsigned_mapCols f tys tys' a (fun i hi => (h i (by simpa [cols] using hi)).2)
    simp [mapCols, eval, ha, hr, hu]
  | .and a b =>
    have ha := eval_mapCols f tys tys' row row' a (fun i hi => h i (by simp [cols, hi]))
    have hb := eval_mapCols f tys tys' row row' b (fun i hi => h i (by simp [cols, hi]))
    simp [mapCols, eval, ha, hb]
  | .or a b =>
    have ha := eval_mapCols f tys tys' row row' a (fun i hi => h i (by simp [cols, hi]))
    have hb := eval_mapCols f tys tys' row row' b (fun i hi => h i (by simp [cols, hi]))
    simp [mapCols, eval, ha, hb]
  | .cmp op a b =>
    have ha := eval_mapCols f tys tys' row row' a (fun i hi => h i (by simp [cols, hi]))
    have hb := eval_mapCols f tys tys' row row' b (fun i hi => h i (by simp [cols, hi]))
    simp [mapCols, eval, ha, hb]
  | .arith op a b =>
    have ha := eval_mapCols f tys tys' row row' a (fun i hi => h i (by simp [cols, hi]))
    have hb := eval_mapCols f tys tys' row row' b (fun i hi => h i (by simp [cols, hi]))
    have hua := rtUnsigned_mapCols f tys tys' a (fun i hi => (h i (by simp [cols, hi])).2)
    have hub := rtUnsigned_mapCols f tys tys' b (fun i hi => (h i (by simp [cols, hi])).2)
    simp [mapCols, eval, ha, hb, hua, hub]
  | .like n a b =>
    have ha := eval_mapCols f tys tys' row row' a (fun i hi => h i (by simp [cols, hi]))
    have hb := eval_mapCols f tys tys' row row' b (fun i hi => h i (by simp [cols, hi]))
    simp [mapCols, eval, ha, hb]
  | .isNull n a =>
    have ha := eval_mapCols f tys tys' row row' a (fun i hi => h i (by simpa [cols] using hi))
    simp [mapCols, eval, ha]
  | .strFn g a =>
    have ha := eval_mapCols f tys tys' row row' a (fun i hi => h i (by simpa [cols] using hi))
    simp [mapCols, eval, ha]
  | .concat a b =>
    have ha := eval_mapCols f tys tys' row row' a (fun i hi => h i (by simp [cols, hi]))
    have hb := eval_mapCols f tys tys' row row' b (fun i hi => h i (by simp [cols, hi]))
    simp [mapCols, eval, ha, hb]
  | .nullif a b =>
    have ha := eval_mapCols f tys tys' row row' a (fun i hi => h i (by simp [cols, hi]))
    have hb := eval_mapCols f tys tys' row row' b (fun i hi => h i (by simp [cols, hi]))
    have ht := inferTyO_mapCols f tys tys' a (fun i hi => (h i (by simp [cols, hi])).2)
    simp [mapCols, eval, ha, hb, inferTy, ht]
  | .coalesce xs =>
    have hx := evalList_mapCols f tys tys' row row' xs (fun i hi => h i (by simpa [cols] using hi))
    have ht := inferFirst_mapCols f tys tys' xs (fun i hi => (h i (by simpa [cols] using hi)).2)
    simp [mapCols, eval, hx, ht]
  | .between n a lo hi =>
    have ha := eval_mapCols f tys tys' row row' a (fun i hi => h i (by simp [cols, hi]))
    have hl := eval_mapCols f tys tys' row row' lo (fun i hi => h i (by simp [cols, hi]))
    have hh := eval_mapCols f tys tys' row row' hi (fun i hi => h i (by simp [cols, hi]))
    simp [mapCols, eval, ha, hl, hh]
  | .inList n a xs =>
    have ha := eval_mapCols f tys tys' row row' a (fun i hi => h i (by simp [cols, hi]))
    have hx := evalList_mapCols f tys tys' row row' xs (fun i hi => h i (by simp [cols, hi]))
    simp [mapCols, eval, ha, hx]
  | .caseWhen parts =>
    have hp := evalCaseWhen_mapCols f tys tys' row row' parts (fun i hi => h i (by simpa [cols] using hi))
    simp [mapCols, eval, hp]
  | .caseOf x parts =>
    have hx := eval_mapCols f tys tys' row row' x (fun i hi => h i (by simp [cols, hi]))
    have hp := fun v => evalCaseOf_mapCols f tys tys' row row' v parts (fun i hi => h i (by simp [cols, hi]))
    simp only [mapCols, eval, hx]
    cases eval {} tys row x with
    | error e => rfl
    | ok v => exact hp v
theorem evalCaseWhen_mapCols (f : Nat → Nat) (tys tys' : List Ty) (row row' : Row) (es : List Expr)
    (h : ∀ i ∈ colsList es, AgreeAt f tys tys' row row' i) :
    evalCaseWhen {} tys' row' (mapColsList f es) = evalCaseWhen {} tys row es := by
  match es with
  | [] => simp [mapColsList, evalCaseWhen]
  | [e] =>
    have he := eval_mapCols f tys tys' row row' e (fun i hi => h i (by simp [colsList, hi]))
    simp [mapColsList, evalCaseWhen, he]
  | c :: r :: rest =>
    have hc := eval_mapCols f tys tys' row row' c (fun i hi => h i (by simp [colsList, hi]))
    have hr := eval_mapCols f tys tys' row row' r (fun i hi => h i (by simp [colsList, hi]))
    have hs := evalCaseWhen_mapCols f tys tys' row row' rest (fun i hi => h i (by simp [colsList, hi]))
    simp [mapColsList, evalCaseWhen, hc, hr, hs]
theorem evalCaseOf_mapCols (f : Nat → Nat) (tys tys' : List Ty) (row row' : Row) (v : Value) (es : List Expr)
    (h : ∀ i ∈ colsList es, AgreeAt f tys tys' row row' i) :
    evalCaseOf {} tys' row' v (mapColsList f es) = evalCaseOf {} tys row v es := by
  match es with
  | [] => simp [mapColsList, evalCaseOf]
  | [e] =>
    have he := eval_mapCols f tys tys' row row' e (fun i hi => h i (by simp [colsList, hi]))
    simp [mapColsList, evalCaseOf, he]
  | c :: r :: rest =>
    have hc := eval_mapCols f tys tys' row row' c (fun i hi => h i (by simp [colsList, hi]))
    have hr := eval_mapCols f tys tys' row row' r (fun i hi => h i (by simp [colsList, hi]))
    have hs := evalCaseOf_mapCols f tys tys' row row' v rest (fun i hi => h i (by simp [colsList, hi]))
    simp [mapColsList, evalCaseOf, hc, hr, hs]
theorem evalList_mapCols (f : Nat → Nat) (tys tys' : List Ty) (row row' : Row) (es : List Expr)
    (h : ∀ i ∈ colsList es, AgreeAt f tys tys' row row' i) :
    evalList {} tys' row' (mapColsList f es) = evalList {} tys row es := by
  match es with
  | [] => simp [mapColsList, evalList]
  | e :: es =>
    have he := eval_mapCols f tys tys' row row' e (fun i hi => h i (by simp [colsList, hi]))
    have hs := evalList_mapCols f tys tys' row row' es (fun i hi => h i (by simp [colsList, hi]))
    simp [mapColsList, evalList, he, hs]
end

theorem evalPred_mapCols (f : Nat → Nat) (tys tys' : List Ty) (row row' : Row) (e : Expr)
    (h : ∀ i ∈ cols e, AgreeAt f tys tys' row row' i) :
    evalPred {} tys' (mapCols f e) row' = evalPred {} tys e row := by
  simp only [evalPred, eval_mapCols f tys tys' row row' e h]

theorem holds_mapCols (f : Nat → Nat) (tys tys' : List Ty) (row row' : Row) (e : Expr)
    (h : ∀ i ∈ cols e, AgreeAt f tys tys' row row' i) :
    holds tys' (mapCols f e) row' = holds tys e row := by
  simp only [holds, evalPred_mapCols f tys tys' row row' e h]

mutual
theorem mapCols_id (e : Expr) : mapCols (fun i => i) e = e := by
  match e with
  | .lit _ | .col _ => simp [mapCols]
  | .not a | .neg a | .pos a | .isNull _ a | .strFn _ a => simp [mapCols, mapCols_id a]
  | .and a b | .or a b | .cmp _ a b | .arith _ a b | .like _ a b | .concat a b | .nullif a b =>
    simp [mapCols, mapCols_id a, mapCols_id b]
  | .coalesce xs => simp [mapCols, mapColsList_id xs]
  | .between _ a b c => simp [mapCols, mapCols_id a, mapCols_id b, mapCols_id c]
  | .inList _ a xs => simp [mapCols, mapCols_id a, mapColsList_id xs]
  | .caseWhen parts => simp [mapCols, mapColsList_id parts]
  | .caseOf x parts => simp [mapCols, mapCols_id x, mapColsList_id parts]
theorem mapColsList_id (es : List Expr) : mapColsList (fun i => i) es = es := by
  match es with
  | [] => simp [mapColsList]
  | e :: es => simp [mapColsList, mapCols_id e, mapColsList_id es]
end

/-- an expression sees only the columns it reads -/
theorem holds_ext (tys tys' : List Ty) (row row' : Row) (e : Expr)
    (h : ∀ i ∈ cols e, row'[i]? = row[i]? ∧ tys'.getD i .bigint = tys.getD i .bigint) :
    holds tys' e row' = holds tys e row := by
  have := holds_mapCols (fun i => i) tys tys' row row' e h
  rwa [mapCols_id] at this

/-! ### conjunctions -/

theorem holds_and (tys : List Ty) (p q : Expr) (r : Row) :
    holds tys (.and p q) r = (holds tys p r && holds tys q r) := by
  simp only [holds, evalPred, eval]
  cases hp : eval {} tys r p with
  | error e => simp
  | ok vp =>
    cases hq : eval {} tys r q with
    | error e => cases vp <;> simp <;> (rename_i b; cases b <;> simp)
    | ok vq =>
      cases vp <;> cases vq <;> simp [asTV, and3, TV.toValue] <;>
        (try (rename_i a b; cases a <;> cases b <;> simp [and3, TV.toValue])) <;>
        (try (rename_i a; cases a <;> simp [and3, TV.toValue]))

theorem holds_conjuncts (tys : List Ty) (r : Row) : ∀ (e : Expr), holds tys e r = (conjuncts e).all (holds tys · r)
  | .and a b => by
    rw [holds_and, holds_conjuncts tys r a, holds_conjuncts tys r b]
    simp [conjuncts, List.all_append]
  | .lit _ | .col _ | .not _ | .neg _ | .pos _ | .or _ _ | .cmp _ _ _ | .arith _ _ _ | .like _ _ _ | .isNull _ _
  | .between _ _ _ _ | .inList _ _ _ | .caseWhen _ | .caseOf _ _ | .strFn _ _ | .concat _ _ | .nullif _ _
  | .coalesce _ => by simp [conjuncts]

theorem holds_foldl_and (tys : List Ty) (r : Row) (ps : List Expr) (acc : Expr) :
    holds tys (ps.foldl (fun a q => Expr.and a q) acc) r = (holds tys acc r && ps.all (holds tys · r)) := by
  induction ps generalizing acc with
  | nil => simp
  | cons p ps ih => simp [List.foldl, ih, holds_and, Bool.and_assoc]

theorem holdsOpt_combine (tys : List Ty) (r : Row) (ps : List Expr) :
    holdsOpt tys (combine ps) r = ps.all (holds tys · r) := by
  cases ps with
  | nil => simp [combine, holdsOpt]
  | cons p ps => simp [combine, holdsOpt, holds_foldl_and]

theorem holdsOpt_toList (tys : List Ty) (r : Row) (on : Option Expr) :
    holdsOpt tys on r = on.toList.all (holds tys · r) := by
  cases on <;> simp [holdsOpt]

/-- `classify` splits the conjuncts into three lists; together they are all of them -/
theorem classify_all (lw : Nat) (p : Expr) (f : Expr → Bool) :
    (conjuncts p).all f = ((classify lw p).1.all f && ((classify lw p).2.1.all f && (classify lw p).2.2.all f)) := by
  unfold classify
  induction conjuncts p with
  | nil => simp
  | cons e es ih =>
    simp only [List.foldr_cons, List.all_cons, ih]
    split
    · simp [Bool.and_assoc]
    · split
      · simp only [List.all_cons]
        cases f e <;> simp
      · simp only [List.all_cons]
        cases f e <;> simp

theorem classify_left (lw : Nat) (p : Expr) : ∀ e ∈ (classify lw p).1, ∀ i ∈ cols e, i < lw := by
  unfold classify
  induction conjuncts p with
  | nil => simp
  | cons e es ih =>
    simp only [List.foldr_cons]
    split
    · rename_i h
      intro x hx
      simp only [List.mem_cons] at hx
      rcases hx with rfl | hx
      · intro i hi
        simp only [anyCol, Bool.and_eq_true, Bool.not_eq_eq_eq_not, Bool.not_true, List.any_eq_false] at h
        have := h.2 i hi
        simpa using this
      · exact ih x hx
    · split <;> exact ih

theorem classify_right (lw : Nat) (p : Expr) : ∀ e ∈ (classify lw p).2.1, ∀ i ∈ cols e, lw ≤ i := by
  unfold classify
  induction conjuncts p with
  | nil => simp
  | cons e es ih =>
    simp only [List.foldr_cons]
    split
    · exact ih
    · split
      · rename_i h
        intro x hx
        simp only [List.mem_cons] at hx
        rcases hx with rfl | hx
        · intro i hi
          simp only [anyCol, Bool.and_eq_true, Bool.not_eq_eq_eq_not, Bool.not_true, List.any_eq_false] at h
          have := h.2 i hi
          simpa using this
        · exact ih x hx
      · exact ih

/-! ### well-formed rows -/

theorem conformsRow_length {tys : List Ty} {r : Row} (h : conformsRow tys r = true) : r.length = tys.length := by
  simp only [conformsRow, Bool.and_eq_true, beq_iff_eq] at h
  exact h.1

theorem conformsRow_at {tys : List Ty} {r : Row} (h : conformsRow tys r = true) (i : Nat) (hi : i < r.length) :
    conformsV (tys.getD i .bigint) (r.getD i .null) = true := by
  simp only [conformsRow, Bool.and_eq_true, List.all_eq_true, List.mem_range] at h
  exact h.2 i hi

theorem conformsRow_intro {tys : List Ty} {r : Row} (hl : r.length = tys.length)
    (h : ∀ i, i < r.length → conformsV (tys.getD i .bigint) (r.getD i .null) = true) : conformsRow tys r = true := by
  simp only [conformsRow, Bool.and_eq_true, beq_iff_eq, List.all_eq_true, List.mem_range]
  exact ⟨hl, h⟩

theorem castTo_idem (ty : Ty) (v w : Value) (h : castTo ty v = .ok w) : castTo ty w = .ok w := by
  cases v <;> cases ty <;> simp [castTo] at h ⊢ <;>
    (try (split at h <;> simp at h <;> subst h <;> simp [castTo, *])) <;>
    (try (subst h; simp [castTo]))

theorem conformsV_of_castTo (ty : Ty) (v w : Value) (h : castTo ty v = .ok w) : conformsV ty w = true := by
  simp [conformsV, castTo_idem ty v w h]

theorem conformsV_null (ty : Ty) : conformsV ty .null = true := by
  simp [conformsV, castTo]

theorem conformsRow_nulls (tys : List Ty) : conformsRow tys (nulls tys.length) = true := by
  apply conformsRow_intro
  · simp [nulls]
  · intro i hi
    have : (nulls tys.length).getD i .null = .null := by
      simp [nulls, List.getD_eq_getElem?_getD, List.getElem?_replicate]
      split <;> rfl
    rw [this]; exact conformsV_null _

theorem conformsRow_append {t1 t2 : List Ty} {a b : Row} (ha : conformsRow t1 a = true) (hb : conformsRow t2 b = true) :
    conformsRow (t1 ++ t2) (a ++ b) = true := by
  have hla := conformsRow_length ha
  have hlb := conformsRow_length hb
  apply conformsRow_intro
  · simp [hla, hlb]
  · intro i hi
    by_cases h : i < a.length
    · have h1 : (t1 ++ t2).getD i .bigint = t1.getD i .bigint := by
        simp [List.getD_eq_getElem?_getD, List.getElem?_append_left (hla ▸ h)]
      have h2 : (a ++ b).getD i .null = a.getD i .null := by
        simp [List.getD_eq_getElem?_getD, List.getElem?_append_left h]
      rw [h1, h2]; exact conformsRow_at ha i h
    · have h' : a.length ≤ i := Nat.le_of_not_lt h
      have h1 : (t1 ++ t2).getD i .bigint = t2.getD (i - a.length) .bigint := by
        simp [List.getD_eq_getElem?_getD, List.getElem?_append_right (hla ▸ h'), hla]
      have h2 : (a ++ b).getD i .null = b.getD (i - a.length) .null := by
        simp [List.getD_eq_getElem?_getD, List.getElem?_append_right h']
      rw [h1, h2]
      apply conformsRow_at hb
      simp at hi; omega

/-! ### shapes of join results -/

theorem mem_joinLeftPart (m : Row → Row → Bool) (pad : Bool) (rw : Nat) (l r : List Row) (x : Row)
    (h : x ∈ joinLeftPart m pad rw l r) :
    (∃ a ∈ l, ∃ b ∈ r, x = a ++ b) ∨ (∃ a ∈ l, x = a ++ nulls rw) := by
  simp only [joinLeftPart, List.mem_flatMap] at h
  obtain ⟨a, ha, hx⟩ := h
  split at hx
  · simp only [List.mem_singleton] at hx
    exact Or.inr ⟨a, ha, hx⟩
  · rw [mem_matchesOf] at hx
    obtain ⟨b, hb, _, rfl⟩ := hx
    exact Or.inl ⟨a, ha, b, hb, rfl⟩

theorem mem_unmatchedRight (m : Row → Row → Bool) (lw : Nat) (l r : List Row) (x : Row)
    (h : x ∈ unmatchedRight m lw l r) : ∃ b ∈ r, x = nulls lw ++ b := by
  simp only [unmatchedRight, List.mem_map, List.mem_filter] at h
  obtain ⟨b, ⟨hb, _⟩, rfl⟩ := h
  exact ⟨b, hb, rfl⟩

theorem mem_joinPure (k : JoinKind) (m : Row → Row → Bool) (lw rw : Nat) (l r : List Row) (x : Row)
    (h : x ∈ joinPure k m lw rw l r) :
    (∃ a ∈ l, ∃ b ∈ r, x = a ++ b) ∨ (∃ a ∈ l, x = a ++ nulls rw) ∨ (∃ b ∈ r, x = nulls lw ++ b) := by
  cases k <;> simp only [joinPure, List.mem_append] at h
  · rcases mem_joinLeftPart _ _ _ _ _ _ h with h | h
    · exact Or.inl h
    · exact Or.inr (Or.inl h)
  · rcases mem_joinLeftPart _ _ _ _ _ _ h with h | h
    · exact Or.inl h
    · exact Or.inr (Or.inl h)
  · rcases h with h | h
    · rcases mem_joinLeftPart _ _ _ _ _ _ h with h | h
      · exact Or.inl h
      · exact Or.inr (Or.inl h)
    · exact Or.inr (Or.inr (mem_unmatchedRight _ _ _ _ _ h))
  · rcases h with h | h
    · rcases mem_joinLeftPart _ _ _ _ _ _ h with h | h
      · exact Or.inl h
      · exact Or.inr (Or.inl h)
    · exact Or.inr (Or.inr (mem_unmatchedRight _ _ _ _ _ h))
  · rcases mem_joinLeftPart _ _ _ _ _ _ h with h | h
    · exact Or.inl h
    · exact Or.inr (Or.inl h)

/-! ### projections -/

theorem projectRow_conforms (tys : List Ty) (items : List Expr) (r r' : Row)
    (h : projectRow {} tys items r = .ok r') : conformsRow (items.map (inferTy tys)) r' = true := by
  simp only [projectRow] at h
  obtain ⟨hl, hi⟩ := mapE_ok _ _ _ h
  apply conformsRow_intro
  · simp [hl]
  · intro i hlt
    have hi' := hi i (hl ▸ hlt) hlt
    have h1 : (items.map (inferTy tys)).getD i .bigint = inferTy tys items[i] := by
      simp [List.getD_eq_getElem?_getD, hl ▸ hlt]
    have h2 : r'.getD i .null = r'[i] := by
      simp [List.getD_eq_getElem?_getD, hlt]
    rw [h1, h2]
    cases he : eval {} tys r items[i] with
    | error e => simp [he] at hi'
    | ok v =>
      simp only [he] at hi'
      exact conformsV_of_castTo _ _ _ hi'

/-! ### every row a plan produces has the plan's schema -/

theorem fetch_mem (rows : Rows) (rid : Nat) (row : Row) (h : fetch rows rid = some row) : (rid, row) ∈ rows := by
  simp only [fetch, Option.map_eq_some_iff] at h
  obtain ⟨x, hx, rfl⟩ := h
  have hm := List.mem_of_find?_eq_some hx
  have hp := List.find?_some hx
  simp only [beq_iff_eq] at hp
  rw [← hp]
  exact hm

theorem scan_subset (ix : Index) (rows : Rows) (lo hi : List Bound) (x : Row) (h : x ∈ Index.scan ix rows lo hi) :
    ∃ rid, (rid, x) ∈ rows := by
  simp only [Index.scan, List.mem_filterMap] at h
  obtain ⟨e, _, he⟩ := h
  exact ⟨e.rid, fetch_mem _ _ _ he⟩

theorem wfStore_table {st : Store} (h : wfStore st = true) (t : Nat) : wfTable (st.getD t default) = true := by
  simp only [wfStore, List.all_eq_true] at h
  by_cases ht : t < st.length
  · have : st.getD t default = st[t] := by simp [List.getD_eq_getElem?_getD, ht]
    rw [this]; exact h _ (List.getElem_mem ht)
  · have : st.getD t default = default := by
      simp [List.getD_eq_getElem?_getD, List.getElem?_eq_none (Nat.le_of_not_lt ht)]
    rw [this]; rfl

theorem wfTable_row {tb : STable} (h : wfTable tb = true) {x : Nat × Row} (hx : x ∈ tb.rows) :
    conformsRow tb.tys x.2 = true := by
  simp only [wfTable, List.all_eq_true, Bool.and_eq_true] at h
  exact (h x hx).1

theorem evalPlan_conforms (st : Store) (hst : wfStore st = true) :
    ∀ (p : Plan) (x : Row), x ∈ evalPlan st p → conformsRow (p.tys st) x = true
  | .scan t, x, hx => by
    simp only [evalPlan, List.mem_map] at hx
    obtain ⟨y, hy, rfl⟩ := hx
    exact wfTable_row (wfStore_table hst t) hy
  | .indexScan t k lo hi resid, x, hx => by
    simp only [evalPlan, indexScanRows] at hx
    split at hx
    · simp at hx
    · simp only [List.mem_filter] at hx
      obtain ⟨rid, hr⟩ := scan_subset _ _ _ _ _ hx.1
      exact wfTable_row (wfStore_table hst t) hr
  | .filter p c, x, hx => by
    simp only [evalPlan, List.mem_filter] at hx
    exact evalPlan_conforms st hst c x hx.1
  | .project items c, x, hx => by
    simp only [evalPlan, List.mem_filterMap] at hx
    obtain ⟨r, _, hr⟩ := hx
    split at hr
    · rename_i r' hp
      simp only [Option.some.injEq] at hr
      subst hr
      exact projectRow_conforms _ _ _ _ hp
    · simp at hr
  | .join k on l r, x, hx => by
    simp only [evalPlan] at hx
    have hl := evalPlan_conforms st hst l
    have hr := evalPlan_conforms st hst r
    simp only [Plan.tys]
    rcases mem_joinPure _ _ _ _ _ _ _ hx with ⟨a, ha, b, hb, rfl⟩ | ⟨a, ha, rfl⟩ | ⟨b, hb, rfl⟩
    · exact conformsRow_append (hl a ha) (hr b hb)
    · exact conformsRow_append (hl a ha) (by simpa [Plan.width] using conformsRow_nulls (r.tys st))
    · exact conformsRow_append (by simpa [Plan.width] using conformsRow_nulls (l.tys st)) (hr b hb)

/-! ### FilterMerge -/

theorem filterMerge_eval (st : Store) (p q : Expr) (c : Plan) :
    evalPlan st (.filter (.and p q) c) = evalPlan st (.filter p (.filter q c)) := by
  simp only [evalPlan, Plan.tys, List.filter_filter]
  congr 1
  funext r
  exact holds_and _ _ _ _

/-! ### FilterPushdownJoin -/

theorem getElem?_append_left' {α} (a b : List α) (i : Nat) (h : i < a.length) : (a ++ b)[i]? = a[i]? :=
  List.getElem?_append_left h

theorem holds_left (ltys rtys : List Ty) (a b : Row) (e : Expr) (ha : a.length = ltys.length)
    (hc : ∀ i ∈ cols e, i < ltys.length) : holds (ltys ++ rtys) e (a ++ b) = holds ltys e a := by
  apply holds_ext
  intro i hi
  have h := hc i hi
  constructor
  · rw [List.getElem?_append_left (ha ▸ h)]
  · simp [List.getD_eq_getElem?_getD, List.getElem?_append_left h]

theorem holds_right (ltys rtys : List Ty) (a b : Row) (e : Expr) (ha : a.length = ltys.length)
    (hc : ∀ i ∈ cols e, ltys.length ≤ i) :
    holds rtys (mapCols (· - ltys.length) e) b = holds (ltys ++ rtys) e (a ++ b) := by
  apply holds_mapCols
  intro i hi
  have h := hc i hi
  constructor
  · rw [List.getElem?_append_right (ha ▸ h), ha]
  · simp [List.getD_eq_getElem?_getD, List.getElem?_append_right h]

theorem filterOver_tys (st : Store) (p : Option Expr) (c : Plan) : (filterOver p c).tys st = c.tys st := by
  cases p <;> simp [filterOver, Plan.tys]

theorem all_congr_mem {α} (l : List α) (p q : α → Bool) (h : ∀ x ∈ l, p x = q x) : l.all p = l.all q := by
  induction l with
  | nil => rfl
  | cons x xs ih =>
    simp only [List.all_cons, h x (by simp), ih (fun y hy => h y (by simp [hy]))]

theorem filterOver_eval (st : Store) (ps : List Expr) (c : Plan) :
    evalPlan st (filterOver (combine ps) c) = (evalPlan st c).filter (fun r => ps.all (holds (c.tys st) · r)) := by
  cases ps with
  | nil =>
    simp only [combine, filterOver, List.all_nil]
    exact (List.filter_eq_self.mpr (fun _ _ => rfl)).symm
  | cons p ps =>
    simp only [combine, filterOver, evalPlan]
    congr 1
    funext r
    simp [holds_foldl_and]

/-- the algebra behind the rule: filtering the pairs of a join = joining the filtered inputs on a stronger condition -/
theorem flatMap_filter_pairs (L R : List Row) (m m' : Row → Row → Bool) (PL PR P : Row → Bool)
    (h : ∀ a ∈ L, ∀ b ∈ R, (m a b && P (a ++ b)) = (PL a && (PR b && m' a b))) :
    (L.flatMap (fun a => (R.filter (m a)).map (a ++ ·))).filter P
      = (L.filter PL).flatMap (fun a => ((R.filter PR).filter (m' a)).map (a ++ ·)) := by
  induction L with
  | nil => simp
  | cons a L ih =>
    have ih' := ih (fun a' ha' b hb => h a' (by simp [ha']) b hb)
    simp only [List.flatMap_cons, List.filter_append, ih']
    have key : ((R.filter (m a)).map (a ++ ·)).filter P
        = if PL a then ((R.filter PR).filter (m' a)).map (a ++ ·) else [] := by
      rw [List.filter_map, List.filter_filter]
      split
      · rename_i hpl
        rw [List.filter_filter]
        congr 1
        apply List.filter_congr
        intro b hb
        have := h a (by simp) b hb
        simp only [hpl, Bool.true_and] at this
        simp only [Function.comp]
        rw [Bool.and_comm] at this
        rw [this, Bool.and_comm]
      · rename_i hpl
        have : R.filter (fun b => (P ∘ fun x => a ++ x) b && m a b) = [] := by
          apply List.filter_eq_nil_iff.mpr
          intro b hb
          have := h a (by simp) b hb
          simp only [Bool.not_eq_true] at hpl
          simp only [hpl, Bool.false_and] at this
          simp only [Function.comp]
          rw [Bool.and_comm]
          simp [this]
        rw [this]; rfl
    rw [key]
    cases hpl : PL a <;> simp [List.filter_cons, hpl]

theorem joinPure_inner (m : Row → Row → Bool) (lw rw : Nat) (l r : List Row) :
    joinPure .inner m lw rw l r = l.flatMap (fun a => (r.filter (m a)).map (a ++ ·)) := by
  simp [joinPure, joinLeftPart, matchesOf]

theorem joinPure_cross (m : Row → Row → Bool) (lw rw : Nat) (l r : List Row) :
    joinPure .cross m lw rw l r = l.flatMap (fun a => (r.filter (m a)).map (a ++ ·)) := by
  simp [joinPure, joinLeftPart, matchesOf]

theorem evalPlan_length (st : Store) (hst : wfStore st = true) (p : Plan) (x : Row) (hx : x ∈ evalPlan st p) :
    x.length = (p.tys st).length :=
  conformsRow_length (evalPlan_conforms st hst p x hx)

theorem filterPushdownJoin_eval (st : Store) (hst : wfStore st = true) (p : Expr) (k : JoinKind) (on : Option Expr)
    (l r : Plan) (hk : k = .inner ∨ k = .cross) :
    let lw := l.width st
    let c := classify lw p
    evalPlan st (.join k (combine (on.toList ++ c.2.2)) (filterOver (combine c.1) l)
        (filterOver (combine (c.2.1.map (shiftDown {} lw))) r))
      = evalPlan st (.filter p (.join k on l r)) := by
  intro lw c
  have hL := evalPlan_length st hst l
  have hjoin : ∀ (m : Row → Row → Bool) (a b : Nat) (x y : List Row),
      joinPure k m a b x y = x.flatMap (fun u => (y.filter (m u)).map (u ++ ·)) := by
    intro m a b x y
    rcases hk with rfl | rfl
    · exact joinPure_inner _ _ _ _ _
    · exact joinPure_cross _ _ _ _ _
  simp only [evalPlan, Plan.tys, filterOver_tys, filterOver_eval, hjoin]
  symm
  apply flatMap_filter_pairs
  intro a ha b hb
  have hal : a.length = (l.tys st).length := hL a ha
  rw [holds_conjuncts, classify_all lw p]
  have h1 : c.1.all (fun e => holds (l.tys st ++ r.tys st) e (a ++ b)) = c.1.all (fun e => holds (l.tys st) e a) := by
    apply all_congr_mem
    intro e he
    exact holds_left _ _ _ _ _ hal (classify_left lw p e he)
  have h2 : c.2.1.all (fun e => holds (l.tys st ++ r.tys st) e (a ++ b))
      = (c.2.1.map (shiftDown {} lw)).all (fun e => holds (r.tys st) e b) := by
    rw [List.all_map]
    apply all_congr_mem
    intro e he
    simp only [Function.comp, shiftDown]
    exact (holds_right _ _ _ _ _ hal (classify_right lw p e he)).symm
  have h3 : holdsOpt (l.tys st ++ r.tys st) (combine (on.toList ++ c.2.2)) (a ++ b)
      = (holdsOpt (l.tys st ++ r.tys st) on (a ++ b) && c.2.2.all (fun e => holds (l.tys st ++ r.tys st) e (a ++ b))) := by
    rw [holdsOpt_combine, List.all_append, ← holdsOpt_toList]
  show (holdsOpt _ on (a ++ b) && _) = _
  rw [h3]
  change (_ && (List.all c.1 _ && (List.all c.2.1 _ && List.all c.2.2 _))) = _
  rw [h1, h2]
  generalize holdsOpt (l.tys st ++ r.tys st) on (a ++ b) = x1
  generalize c.1.all (fun e => holds (l.tys st) e a) = x2
  generalize (c.2.1.map (shiftDown {} lw)).all (fun e => holds (r.tys st) e b) = x3
  generalize c.2.2.all (fun e => holds (l.tys st ++ r.tys st) e (a ++ b)) = x4
  cases x1 <;> cases x2 <;> cases x3 <;> cases x4 <;> rfl

/-! ### FilterPushdownProject -/

theorem colRefs_spec : ∀ (items : List Expr) (mapping : List Nat), colRefs items = some mapping → items = mapping.map Expr.col
  | [], mapping, h => by simp [colRefs] at h; subst h; rfl
  | .col i :: es, mapping, h => by
    simp only [colRefs, Option.map_eq_some_iff] at h
    obtain ⟨m, hm, rfl⟩ := h
    simp [colRefs_spec es m hm]
  | .lit _ :: _, _, h | .not _ :: _, _, h | .neg _ :: _, _, h | .pos _ :: _, _, h | .and _ _ :: _, _, h
  | .or _ _ :: _, _, h | .cmp _ _ _ :: _, _, h | .arith _ _ _ :: _, _, h | .like _ _ _ :: _, _, h
  | .isNull _ _ :: _, _, h | .between _ _ _ _ :: _, _, h | .inList _ _ _ :: _, _, h => by simp [colRefs] at h

theorem conformsV_castTo (ty : Ty) (v : Value) (h : conformsV ty v = true) : castTo ty v = .ok v := by
  simp only [conformsV] at h
  split at h
  · rename_i w hw
    simp only [beq_iff_eq] at h
    rw [hw, h]
  · simp at h

/-- a projection of plain column references copies the referenced values -/
theorem project_cols_agree (tys : List Ty) (mapping : List Nat) (r r' : Row) (hr : conformsRow tys r = true)
    (h : projectRow {} tys (mapping.map Expr.col) r = .ok r') :
    r'.length = mapping.length ∧ ∀ j (hj : j < mapping.length), r'[j]? = r[mapping[j]]? := by
  simp only [projectRow] at h
  obtain ⟨hl, hi⟩ := mapE_ok _ _ _ h
  simp only [List.length_map] at hl
  refine ⟨hl, ?_⟩
  intro j hj
  have hj' : j < r'.length := hl ▸ hj
  have := hi j (by simpa using hj) hj'
  simp only [List.getElem_map, eval] at this
  cases hv : r[mapping[j]]? with
  | none => simp [hv] at this
  | some v =>
    simp only [hv] at this
    have hlt : mapping[j] < r.length := by
      rcases Nat.lt_or_ge mapping[j] r.length with h | h
      · exact h
      · rw [List.getElem?_eq_none h] at hv; simp at hv
    have hc := conformsRow_at hr mapping[j] hlt
    have hgd : r.getD mapping[j] .null = v := by simp [List.getD_eq_getElem?_getD, hv]
    rw [hgd] at hc
    have hcast := conformsV_castTo _ _ hc
    simp only [inferTy, inferTyO, Option.getD] at this
    rw [hcast] at this
    simp only [Except.ok.injEq] at this
    rw [List.getElem?_eq_getElem hj', ← this]

theorem filter_filterMap_comm {α β} (l : List α) (f : α → Option β) (q : β → Bool) (q' : α → Bool)
    (h : ∀ x ∈ l, ∀ y, f x = some y → q y = q' x) : (l.filterMap f).filter q = (l.filter q').filterMap f := by
  induction l with
  | nil => simp
  | cons x xs ih =>
    have ih' := ih (fun z hz => h z (by simp [hz]))
    cases hf : f x with
    | none =>
      simp only [List.filterMap_cons, hf, ih', List.filter_cons]
      split <;> simp [List.filterMap_cons, hf]
    | some y =>
      have := h x (by simp) y hf
      simp only [List.filterMap_cons, hf, List.filter_cons, this, ih']
      split <;> simp [List.filterMap_cons, hf]

theorem filterPushdownProject_eval (st : Store) (hst : wfStore st = true) (p : Expr) (items : List Expr) (c : Plan)
    (mapping : List Nat) (hm : colRefs items = some mapping) (hscope : ∀ i ∈ cols p, i < items.length) :
    evalPlan st (.project items (.filter (rewriteWith {} mapping p) c)) = evalPlan st (.filter p (.project items c)) := by
  have hitems := colRefs_spec items mapping hm
  subst hitems
  simp only [evalPlan, Plan.tys]
  symm
  apply filter_filterMap_comm
  intro r hr r' hpr
  split at hpr
  · rename_i r'' hproj
    simp only [Option.some.injEq] at hpr
    subst hpr
    obtain ⟨hl, hag⟩ := project_cols_agree _ _ _ _ (evalPlan_conforms st hst c r hr) hproj
    simp only [rewriteWith]
    symm
    apply holds_mapCols
    intro i hi
    have hlt : i < mapping.length := by simpa using hscope i hi
    constructor
    · have : mapping.getD i i = mapping[i] := by simp [List.getD_eq_getElem?_getD, hlt]
      show r[mapping.getD i i]? = r''[i]?
      rw [this, hag i hlt]
    · simp [List.getD_eq_getElem?_getD, hlt, inferTy, inferTyO]
  · simp at hpr

/-! ### JoinCommutativity -/

theorem mapE_of_forall {α β} (f : α → Except Err β) : ∀ (xs : List α) (ys : List β) (_ : ys.length = xs.length)
    (_ : ∀ i (hi : i < xs.length) (hj : i < ys.length), f xs[i] = .ok ys[i]), mapE f xs = .ok ys
  | [], [], _, _ => rfl
  | [], _ :: _, hl, _ => by simp at hl
  | _ :: _, [], hl, _ => by simp at hl
  | x :: xs, y :: ys, hl, h => by
    have h0 := h 0 (by simp) (by simp)
    simp only [List.getElem_cons_zero] at h0
    have ih := mapE_of_forall f xs ys (by simpa using hl) (fun i hi hj => by
      have := h (i + 1) (by simpa using hi) (by simpa using hj)
      simpa using this)
    simp [mapE, h0, ih]

theorem range_map_getD {α} (l : List α) (d : α) : (List.range l.length).map (fun i => l.getD i d) = l := by
  apply List.ext_getElem
  · simp
  · intro i h1 h2
    simp [List.getD_eq_getElem?_getD, h2]

theorem restoreOrder_tys (ltys rtys : List Ty) :
    (restoreOrder ltys.length rtys.length).map (inferTy (rtys ++ ltys)) = ltys ++ rtys := by
  simp only [restoreOrder, List.map_append, List.map_map]
  congr 1
  · conv => rhs; rw [← range_map_getD ltys .bigint]
    apply List.map_congr_left
    intro i _
    simp [Function.comp, inferTy, inferTyO, List.getD_eq_getElem?_getD, List.getElem?_append_right]
  · conv => rhs; rw [← range_map_getD rtys .bigint]
    apply List.map_congr_left
    intro i hi
    simp only [List.mem_range] at hi
    simp [Function.comp, inferTy, inferTyO, List.getD_eq_getElem?_getD, List.getElem?_append_left hi]

theorem restoreOrder_length (lw rw : Nat) : (restoreOrder lw rw).length = lw + rw := by
  simp [restoreOrder]

theorem restoreOrder_getElem (lw rw i : Nat) (h : i < (restoreOrder lw rw).length) :
    (restoreOrder lw rw)[i] = if i < lw then Expr.col (rw + i) else Expr.col (i - lw) := by
  simp only [restoreOrder]
  rw [List.getElem_append]
  split
  · rename_i h1
    simp at h1
    simp [h1]
  · rename_i h1
    simp at h1
    simp [Nat.not_lt.mpr h1]

/-- the restoring projection turns `b ++ a` back into `a ++ b` -/
theorem projectRow_restore (ltys rtys : List Ty) (a b : Row) (ha : conformsRow ltys a = true)
    (hb : conformsRow rtys b = true) :
    projectRow {} (rtys ++ ltys) (restoreOrder ltys.length rtys.length) (b ++ a) = .ok (a ++ b) := by
  have hla := conformsRow_length ha
  have hlb := conformsRow_length hb
  simp only [projectRow]
  apply mapE_of_forall
  · simp [restoreOrder_length, hla, hlb]
  · intro i hi hj
    rw [restoreOrder_getElem _ _ i hi]
    rw [restoreOrder_length] at hi
    by_cases h : i < ltys.length
    · simp only [h, if_true, eval]
      have h1 : (b ++ a)[rtys.length + i]? = a[i]? := by
        rw [List.getElem?_append_right (by omega)]; congr 1; omega
      have hia : i < a.length := hla ▸ h
      rw [h1, List.getElem?_eq_getElem hia]
      have h2 : inferTy (rtys ++ ltys) (Expr.col (rtys.length + i)) = ltys.getD i .bigint := by
        simp [inferTy, inferTyO, List.getD_eq_getElem?_getD, List.getElem?_append_right]
      have hc := conformsRow_at ha i hia
      have hg : a.getD i .null = a[i] := by simp [List.getD_eq_getElem?_getD, hia]
      rw [hg] at hc
      simp only [h2, conformsV_castTo _ _ hc]
      congr 1
      rw [List.getElem_append_left hia]
    · simp only [h, if_false, eval]
      have hge : ltys.length ≤ i := Nat.le_of_not_lt h
      have hib : i - ltys.length < b.length := by omega
      have h1 : (b ++ a)[i - ltys.length]? = b[i - ltys.length]? := List.getElem?_append_left hib
      rw [h1, List.getElem?_eq_getElem hib]
      have h2 : inferTy (rtys ++ ltys) (Expr.col (i - ltys.length)) = rtys.getD (i - ltys.length) .bigint := by
        simp [inferTy, inferTyO, List.getD_eq_getElem?_getD, List.getElem?_append_left (hlb ▸ hib)]
      have hc := conformsRow_at hb (i - ltys.length) hib
      have hg : b.getD (i - ltys.length) .null = b[i - ltys.length] := by simp [List.getD_eq_getElem?_getD, hib]
      rw [hg] at hc
      simp only [h2, conformsV_castTo _ _ hc]
      congr 1
      rw [List.getElem_append_right (by omega)]
      congr 1
      omega

/-- the re-indexed condition on `b ++ a` is the condition on `a ++ b` -/
theorem holds_commuted (ltys rtys : List Ty) (a b : Row) (e : Expr) (ha : a.length = ltys.length)
    (hb : b.length = rtys.length) (hscope : ∀ i ∈ cols e, i < ltys.length + rtys.length) :
    holds (rtys ++ ltys) (mapCols (fun i => if i < ltys.length then i + rtys.length else i - ltys.length) e) (b ++ a)
      = holds (ltys ++ rtys) e (a ++ b) := by
  apply holds_mapCols
  intro i hi
  have hs := hscope i hi
  by_cases h : i < ltys.length
  · simp only [AgreeAt, h, if_true]
    constructor
    · rw [List.getElem?_append_right (by omega), List.getElem?_append_left (by omega)]
      congr 1; omega
    · simp only [List.getD_eq_getElem?_getD]
      rw [List.getElem?_append_right (by omega), List.getElem?_append_left h]
      congr 2; omega
  · simp only [AgreeAt, h, if_false]
    have hge : ltys.length ≤ i := Nat.le_of_not_lt h
    constructor
    · rw [List.getElem?_append_left (by omega), List.getElem?_append_right (by omega)]
      congr 1; omega
    · simp only [List.getD_eq_getElem?_getD]
      rw [List.getElem?_append_left (by omega), List.getElem?_append_right hge]

theorem filterMap_eq_map_of_forall {α β} (l : List α) (f : α → Option β) (g : α → β) (h : ∀ x ∈ l, f x = some (g x)) :
    l.filterMap f = l.map g := by
  induction l with
  | nil => rfl
  | cons x xs ih => simp [List.filterMap_cons, h x (by simp), ih (fun y hy => h y (by simp [hy]))]

theorem joinCommute_eval (st : Store) (hst : wfStore st = true) (k : JoinKind) (on : Option Expr) (l r : Plan)
    (hk : k = .inner ∨ k = .cross) (hscope : ∀ e, on = some e → ∀ i ∈ cols e, i < l.width st + r.width st) :
    let lw := l.width st
    let rw := r.width st
    (evalPlan st (.project (restoreOrder lw rw)
        (.join k (on.map (mapCols (fun i => if i < lw then i + rw else i - lw))) r l))).Perm
      (evalPlan st (.join k on l r)) := by
  intro lw rw
  have hL := evalPlan_conforms st hst l
  have hR := evalPlan_conforms st hst r
  have hjoin : ∀ (m : Row → Row → Bool) (a b : Nat) (x y : List Row),
      joinPure k m a b x y = x.flatMap (fun u => (y.filter (m u)).map (u ++ ·)) := by
    intro m a b x y
    rcases hk with rfl | rfl
    · exact joinPure_inner _ _ _ _ _
    · exact joinPure_cross _ _ _ _ _
  simp only [evalPlan, Plan.tys, hjoin]
  -- the projection maps every pair `b ++ a` to `a ++ b`
  refine List.Perm.trans (List.Perm.of_eq (filterMap_eq_map_of_forall _ _ (fun x => x.drop rw ++ x.take rw) ?_)) ?_
  · intro x hx
    simp only [List.mem_flatMap, List.mem_map, List.mem_filter] at hx
    obtain ⟨b, hb, a, ⟨ha, _⟩, rfl⟩ := hx
    have hlb := conformsRow_length (hR b hb)
    have := projectRow_restore (l.tys st) (r.tys st) a b (hL a ha) (hR b hb)
    simp only [lw, rw, Plan.width, this]
    simp [← hlb]
  rw [List.map_flatMap]
  have hswap := pairs_swap (fun a b => holdsOpt (l.tys st ++ r.tys st) on (a ++ b)) (fun a b => a ++ b)
    (evalPlan st l) (evalPlan st r)
  refine List.Perm.trans (List.Perm.of_eq ?_) hswap.symm
  apply flatMap_congr_mem
  intro b hb
  have hlb := conformsRow_length (hR b hb)
  rw [List.map_map]
  have hfil : (evalPlan st l).filter (fun a => holdsOpt (r.tys st ++ l.tys st)
        (on.map (mapCols (fun i => if i < lw then i + rw else i - lw))) (b ++ a))
      = (evalPlan st l).filter (fun a => holdsOpt (l.tys st ++ r.tys st) on (a ++ b)) := by
    apply List.filter_congr
    intro a ha
    have hla := conformsRow_length (hL a ha)
    cases on with
    | none => rfl
    | some e =>
      simp only [Option.map, holdsOpt]
      exact holds_commuted _ _ _ _ _ hla hlb (hscope e rfl)
  rw [hfil]
  apply List.map_congr_left
  intro a _
  simp [Function.comp, rw, Plan.width, ← hlb]

/-! ### JoinAssociativity -/

theorem holdsOpt_conjuncts (tys : List Ty) (on : Option Expr) (r : Row) :
    holdsOpt tys on r = (optConj conjuncts on).all (holds tys · r) := by
  cases on with
  | none => simp [holdsOpt, optConj]
  | some e => exact holds_conjuncts tys r e

theorem all_filter_split {α} (l : List α) (q f : α → Bool) :
    l.all f = ((l.filter q).all f && (l.filter (fun x => !q x)).all f) := by
  induction l with
  | nil => rfl
  | cons x xs ih =>
    cases hq : q x
    · simp only [List.all_cons, List.filter_cons, ih, hq, Bool.not_false, if_true, Bool.false_eq_true, if_false]
      generalize f x = u
      generalize (xs.filter q).all f = v
      generalize (xs.filter fun x => !q x).all f = w
      cases u <;> cases v <;> cases w <;> rfl
    · simp only [List.all_cons, List.filter_cons, ih, hq, Bool.not_true, if_true, Bool.false_eq_true, if_false]
      generalize f x = u
      generalize (xs.filter q).all f = v
      generalize (xs.filter fun x => !q x).all f = w
      cases u <;> cases v <;> cases w <;> rfl

theorem filter_flatMap_if {α β} (l : List α) (p : α → Bool) (h : α → List β) :
    (l.filter p).flatMap h = l.flatMap (fun x => if p x then h x else []) := by
  induction l with
  | nil => rfl
  | cons x xs ih =>
    simp only [List.filter_cons, List.flatMap_cons]
    cases p x <;> simp [ih]

theorem allColsGe_not_below (k : Nat) (e : Expr) : allColsGe {} k e = !anyColBelow {} k e := by
  show ((cols e).all fun i => decide (k ≤ i)) = !((cols e).any fun i => decide (i < k))
  induction cols e with
  | nil => rfl
  | cons i is ih =>
    have hd : decide (k ≤ i) = !decide (i < k) := by
      by_cases h : k ≤ i
      · simp [h, Nat.not_lt.mpr h]
      · simp [h, Nat.lt_of_not_le h]
    simp only [List.all_cons, List.any_cons, ih, Bool.not_or, hd]

theorem conjuncts_cols : ∀ (e0 e : Expr), e ∈ conjuncts e0 → ∀ i ∈ cols e, i ∈ cols e0
  | .and p q, e, he, i, hi => by
    simp only [conjuncts, List.mem_append] at he
    simp only [cols, List.mem_append]
    rcases he with he | he
    · exact Or.inl (conjuncts_cols p e he i hi)
    · exact Or.inr (conjuncts_cols q e he i hi)
  | .lit _, e, he, i, hi | .col _, e, he, i, hi | .not _, e, he, i, hi | .neg _, e, he, i, hi | .pos _, e, he, i, hi
  | .or _ _, e, he, i, hi | .cmp _ _ _, e, he, i, hi | .arith _ _ _, e, he, i, hi | .like _ _ _, e, he, i, hi
  | .isNull _ _, e, he, i, hi | .between _ _ _ _, e, he, i, hi | .inList _ _ _, e, he, i, hi
  | .caseWhen _, e, he, i, hi | .caseOf _ _, e, he, i, hi | .strFn _ _, e, he, i, hi | .concat _ _, e, he, i, hi
  | .nullif _ _, e, he, i, hi | .coalesce _, e, he, i, hi => by
    simp only [conjuncts, List.mem_singleton] at he
    subst he
    exact hi

/-- both shapes of a three-way inner join enumerate the triples in the same order -/
theorem assoc_shape (A B C : List Row) (mi : Row → Row → Bool) (mo : Row → Row → Bool) (mbc mac : Row → Row → Bool)
    (h : ∀ a ∈ A, ∀ b ∈ B, ∀ c ∈ C, (mi a b && mo (a ++ b) c) = (mbc b c && mac a (b ++ c))) :
    (A.flatMap (fun a => (B.filter (mi a)).map (a ++ ·))).flatMap (fun ab => (C.filter (mo ab)).map (ab ++ ·))
      = A.flatMap (fun a => ((B.flatMap (fun b => (C.filter (mbc b)).map (b ++ ·))).filter (mac a)).map (a ++ ·)) := by
  rw [List.flatMap_assoc]
  apply flatMap_congr_mem
  intro a ha
  rw [List.flatMap_map, filter_flatMap_if, List.filter_flatMap, List.map_flatMap]
  apply flatMap_congr_mem
  intro b hb
  rw [List.filter_map, List.map_map, List.filter_filter]
  have : (if mi a b then (C.filter (mo (a ++ b))).map (a ++ b ++ ·) else [])
      = (C.filter (fun c => mi a b && mo (a ++ b) c)).map (a ++ b ++ ·) := by
    cases mi a b <;> simp
  rw [this]
  have hf : C.filter (fun c => mi a b && mo (a ++ b) c)
      = C.filter (fun c => (mac a ∘ fun x => b ++ x) c && mbc b c) := by
    apply List.filter_congr
    intro c hc
    rw [h a ha b hb c hc, Bool.and_comm]
    rfl
  rw [hf]
  apply List.map_congr_left
  intro c _
  simp [Function.comp, List.append_assoc]

theorem joinAssoc_eval (st : Store) (hst : wfStore st = true) (outer inner : Option Expr) (a b c : Plan)
    (hscope : ∀ e, inner = some e → ∀ i ∈ cols e, i < a.width st + b.width st) :
    let aw := a.width st
    evalPlan st (.join .inner
        (combine (optConj (collectInvolving {} aw) inner ++ optConj (collectInvolving {} aw) outer)) a
        (.join .inner (combine (optConj (collectForRange {} aw) outer ++ optConj (collectForRange {} aw) inner)) b c))
      = evalPlan st (.join .inner outer (.join .inner inner a b) c) := by
  intro aw
  have hA := evalPlan_length st hst a
  have hB := evalPlan_length st hst b
  simp only [evalPlan, Plan.tys, joinPure_inner]
  symm
  apply assoc_shape
  intro x hx y hy z hz
  have hxl := hA x hx
  have hyl := hB y hy
  -- everything is read on the triple `x ++ y ++ z` with the schema of the three inputs
  have hin : holdsOpt (a.tys st ++ b.tys st) inner (x ++ y)
      = (optConj conjuncts inner).all (holds (a.tys st ++ (b.tys st ++ c.tys st)) · (x ++ (y ++ z))) := by
    rw [holdsOpt_conjuncts]
    apply all_congr_mem
    intro e he
    rw [← List.append_assoc, ← List.append_assoc]
    symm
    apply holds_left _ _ _ _ _ (by simp [hxl, hyl])
    intro i hi
    cases inner with
    | none => simp [optConj] at he
    | some e0 =>
      simp only [optConj] at he
      have := hscope e0 rfl i (conjuncts_cols e0 e he i hi)
      simpa [Plan.width] using this
  have hout : holdsOpt (a.tys st ++ b.tys st ++ c.tys st) outer (x ++ y ++ z)
      = (optConj conjuncts outer).all (holds (a.tys st ++ (b.tys st ++ c.tys st)) · (x ++ (y ++ z))) := by
    rw [holdsOpt_conjuncts, List.append_assoc, List.append_assoc]
  -- the two new conditions
  have hge : ∀ (on : Option Expr),
      (optConj (collectForRange {} aw) on).all (holds (b.tys st ++ c.tys st) · (y ++ z))
        = ((optConj conjuncts on).filter (allColsGe {} aw)).all (holds (a.tys st ++ (b.tys st ++ c.tys st)) · (x ++ (y ++ z))) := by
    intro on
    cases on with
    | none => simp [optConj]
    | some e0 =>
      simp only [optConj, collectForRange, List.all_map]
      apply all_congr_mem
      intro e he
      simp only [List.mem_filter] at he
      have h2 : ∀ i ∈ cols e, aw ≤ i := by
        have := he.2
        simpa [allColsGe] using this
      simp only [Function.comp, shiftDown]
      exact holds_right _ _ _ _ _ hxl (fun i hi => by simpa [aw, Plan.width] using h2 i hi)
  have hlt : ∀ (on : Option Expr),
      (optConj (collectInvolving {} aw) on).all (holds (a.tys st ++ (b.tys st ++ c.tys st)) · (x ++ (y ++ z)))
        = ((optConj conjuncts on).filter (fun e => !allColsGe {} aw e)).all
            (holds (a.tys st ++ (b.tys st ++ c.tys st)) · (x ++ (y ++ z))) := by
    intro on
    cases on with
    | none => simp [optConj]
    | some e0 =>
      simp only [optConj, collectInvolving]
      congr 1
      apply List.filter_congr
      intro e _
      rw [allColsGe_not_below]; simp
  rw [hin, hout, holdsOpt_combine, holdsOpt_combine, List.all_append, List.all_append, hge, hge, hlt, hlt]
  rw [all_filter_split (optConj conjuncts inner) (allColsGe {} aw), all_filter_split (optConj conjuncts outer) (allColsGe {} aw)]
  generalize ((optConj conjuncts inner).filter (allColsGe {} aw)).all _ = i1
  generalize ((optConj conjuncts inner).filter (fun e => !allColsGe {} aw e)).all _ = i2
  generalize ((optConj conjuncts outer).filter (allColsGe {} aw)).all _ = o1
  generalize ((optConj conjuncts outer).filter (fun e => !allColsGe {} aw e)).all _ = o2
  cases i1 <;> cases i2 <;> cases o1 <;> cases o2 <;> rfl

/-! ### range bounds -/

theorem keyPos_spec : ∀ (ixcols : List Nat) (c pos : Nat), keyPos ixcols c = some pos → ixcols[pos]? = some c
  | [], _, _, h => by simp [keyPos] at h
  | x :: xs, c, pos, h => by
    simp only [keyPos] at h
    split at h
    · rename_i hx
      simp only [Option.some.injEq] at h
      subst h; simp [hx]
    · simp only [Option.map_eq_some_iff] at h
      obtain ⟨q, hq, rfl⟩ := h
      simpa using keyPos_spec xs c q hq

theorem keyOf_at (ixcols : List Nat) (r : Row) (pos c : Nat) (h : ixcols[pos]? = some c) :
    (keyOf ixcols r)[pos]? = some (r.getD c .null) := by
  simp [keyOf, List.getElem?_map, h]

theorem cmp3_null_right' (op : CmpOp) (a : Value) : cmp3 op a .null = none := by
  cases a <;> rfl

theorem holds_swap_lt (o : Ordering) : CmpOp.holds .gt o.swap = CmpOp.holds .lt o := by cases o <;> rfl
theorem holds_swap_le (o : Ordering) : CmpOp.holds .ge o.swap = CmpOp.holds .le o := by cases o <;> rfl
theorem holds_swap_eq (o : Ordering) : CmpOp.holds .eq o.swap = CmpOp.holds .eq o := by cases o <;> rfl

theorem cmp3_of_nonnull (op : CmpOp) (a b : Value) (ha : a ≠ .null) (hb : b ≠ .null) :
    cmp3 op a b = some (op.holds (a.cmp b)) := by
  cases a <;> cases b <;> simp_all [cmp3]

/-- `a > b` is `b < a`, `a ≥ b` is `b ≤ a`, equality is symmetric -/
theorem cmp3_flip (a b : Value) :
    cmp3 .gt a b = cmp3 .lt b a ∧ cmp3 .ge a b = cmp3 .le b a ∧ cmp3 .eq a b = cmp3 .eq b a := by
  by_cases ha : a = .null
  · subst ha; simp [cmp3_null_left, cmp3_null_right']
  by_cases hb : b = .null
  · subst hb; simp [cmp3_null_left, cmp3_null_right']
  rw [cmp3_of_nonnull _ a b ha hb, cmp3_of_nonnull _ a b ha hb, cmp3_of_nonnull _ a b ha hb,
    cmp3_of_nonnull _ b a hb ha, cmp3_of_nonnull _ b a hb ha, cmp3_of_nonnull _ b a hb ha]
  rw [Value.cmp_swap b a]
  generalize b.cmp a = o
  cases o <;> simp [CmpOp.holds, Ordering.swap] <;> decide

theorem cmp3_le_split (a b : Value) :
    (cmp3 .le a b == some true) = (cmp3 .lt a b == some true || cmp3 .eq a b == some true) := by
  by_cases ha : a = .null
  · subst ha; simp [cmp3_null_left]
  by_cases hb : b = .null
  · subst hb; simp [cmp3_null_right']
  simp only [cmp3_of_nonnull _ a b ha hb]
  generalize a.cmp b = o
  cases o <;> rfl

theorem cmp3_ge_split (a b : Value) :
    (cmp3 .ge a b == some true) = (cmp3 .gt a b == some true || cmp3 .eq a b == some true) := by
  by_cases ha : a = .null
  · subst ha; simp [cmp3_null_left]
  by_cases hb : b = .null
  · subst hb; simp [cmp3_null_right']
  simp only [cmp3_of_nonnull _ a b ha hb]
  generalize a.cmp b = o
  cases o <;> rfl

theorem cmp3_eq_split (a b : Value) :
    (cmp3 .eq a b == some true)
      = ((cmp3 .lt a b == some true || cmp3 .eq a b == some true) && (cmp3 .gt a b == some true || cmp3 .eq a b == some true)) := by
  by_cases ha : a = .null
  · subst ha; simp [cmp3_null_left]
  by_cases hb : b = .null
  · subst hb; simp [cmp3_null_right']
  simp only [cmp3_of_nonnull _ a b ha hb]
  generalize a.cmp b = o
  cases o <;> rfl

/-- the truth of `column op literal` read off the row -/
theorem holds_cmp_col_lit (tys : List Ty) (op : CmpOp) (c : Nat) (v : Value) (r : Row) :
    holds tys (.cmp op (.col c) (.lit v)) r = (cmp3 op (r.getD c .null) v == some true) := by
  simp only [holds, evalPred, eval, List.getD_eq_getElem?_getD]
  cases hc : r[c]? with
  | none => simp [cmp3_null_left]
  | some kv =>
    simp only [Option.getD_some]
    cases h : cmp3 op kv v with
    | none => simp [TV.toValue]
    | some b => cases b <;> simp [TV.toValue]

theorem holds_cmp_lit_col (tys : List Ty) (op : CmpOp) (c : Nat) (v : Value) (r : Row) :
    holds tys (.cmp op (.lit v) (.col c)) r = (cmp3 op v (r.getD c .null) == some true) := by
  simp only [holds, evalPred, eval, List.getD_eq_getElem?_getD]
  cases hc : r[c]? with
  | none => simp [cmp3_null_right']
  | some kv =>
    simp only [Option.getD_some]
    cases h : cmp3 op v kv with
    | none => simp [TV.toValue]
    | some b => cases b <;> simp [TV.toValue]

theorem boundOk_start (key : List Value) (pos : Nat) (v kv : Value) (incl : Bool) (hk : key[pos]? = some kv) :
    boundOk true key ⟨pos, v, incl⟩ = (cmp3 .lt v kv == some true || (incl && cmp3 .eq v kv == some true)) := by
  simp [boundOk, hk]

theorem boundOk_end (key : List Value) (pos : Nat) (v kv : Value) (incl : Bool) (hk : key[pos]? = some kv) :
    boundOk false key ⟨pos, v, incl⟩ = (cmp3 .gt v kv == some true || (incl && cmp3 .eq v kv == some true)) := by
  simp [boundOk, hk]

theorem boundsColLit_spec (pos : Nat) (v kv : Value) (op : CmpOp) (lo hi : List Bound) (key : List Value)
    (hk : key[pos]? = some kv) (h : boundsColLit pos v op = some (lo, hi)) :
    (cmp3 op kv v == some true) = (lo.all (boundOk true key) && hi.all (boundOk false key)) := by
  obtain ⟨f1, f2, f3⟩ := cmp3_flip kv v
  obtain ⟨g1, g2, _⟩ := cmp3_flip v kv
  cases op <;> simp only [boundsColLit, Option.some.injEq, Prod.mk.injEq, reduceCtorEq] at h
  · obtain ⟨rfl, rfl⟩ := h
    simp only [List.all_cons, List.all_nil, Bool.and_true, boundOk_start key pos v kv _ hk, boundOk_end key pos v kv _ hk,
      Bool.true_and]
    rw [f3]; exact cmp3_eq_split v kv
  · obtain ⟨rfl, rfl⟩ := h
    simp only [List.all_cons, List.all_nil, Bool.and_true, boundOk_end key pos v kv _ hk, Bool.false_and, Bool.or_false,
      Bool.true_and]
    rw [g1]
  · obtain ⟨rfl, rfl⟩ := h
    simp only [List.all_cons, List.all_nil, Bool.and_true, boundOk_end key pos v kv _ hk, Bool.true_and]
    rw [← g2]; exact cmp3_ge_split v kv
  · obtain ⟨rfl, rfl⟩ := h
    simp only [List.all_cons, List.all_nil, Bool.and_true, boundOk_start key pos v kv _ hk, Bool.false_and, Bool.or_false]
    rw [f1]
  · obtain ⟨rfl, rfl⟩ := h
    simp only [List.all_cons, List.all_nil, Bool.and_true, boundOk_start key pos v kv _ hk, Bool.true_and]
    rw [f2]; exact cmp3_le_split v kv

theorem boundsLitCol_spec (pos : Nat) (v kv : Value) (op : CmpOp) (lo hi : List Bound) (key : List Value)
    (hk : key[pos]? = some kv) (h : boundsLitCol pos v op = some (lo, hi)) :
    (cmp3 op v kv == some true) = (lo.all (boundOk true key) && hi.all (boundOk false key)) := by
  cases op <;> simp only [boundsLitCol, Option.some.injEq, Prod.mk.injEq, reduceCtorEq] at h
  · obtain ⟨rfl, rfl⟩ := h
    simp only [List.all_cons, List.all_nil, Bool.and_true, boundOk_start key pos v kv _ hk, boundOk_end key pos v kv _ hk,
      Bool.true_and]
    exact cmp3_eq_split v kv
  · obtain ⟨rfl, rfl⟩ := h
    simp only [List.all_cons, List.all_nil, Bool.and_true, boundOk_start key pos v kv _ hk, Bool.false_and, Bool.or_false]
  · obtain ⟨rfl, rfl⟩ := h
    simp only [List.all_cons, List.all_nil, Bool.and_true, boundOk_start key pos v kv _ hk, Bool.true_and]
    exact cmp3_le_split v kv
  · obtain ⟨rfl, rfl⟩ := h
    simp only [List.all_cons, List.all_nil, Bool.and_true, boundOk_end key pos v kv _ hk, Bool.false_and, Bool.or_false,
      Bool.true_and]
  · obtain ⟨rfl, rfl⟩ := h
    simp only [List.all_cons, List.all_nil, Bool.and_true, boundOk_end key pos v kv _ hk, Bool.true_and]
    exact cmp3_ge_split v kv

/-- A conjunct is TRUE on a row exactly if the row's key satisfies the bounds taken from it and its residual part holds:
    bounds lose nothing and admit nothing. -/
theorem boundOfConjunct_spec (ixcols : List Nat) (tys : List Ty) (r : Row) (e : Expr) :
    holds tys e r = ((boundOfConjunct ixcols e).1.all (boundOk true (keyOf ixcols r))
      && ((boundOfConjunct ixcols e).2.1.all (boundOk false (keyOf ixcols r))
      && (boundOfConjunct ixcols e).2.2.all (holds tys · r))) := by
  fun_cases boundOfConjunct ixcols e
  · -- column op literal, usable
    rename_i op c v lo hi hb
    simp only [hb, List.all_nil, Bool.and_true]
    simp only [Option.bind_eq_some_iff] at hb
    obtain ⟨pos, hpos, hb⟩ := hb
    rw [holds_cmp_col_lit]
    exact boundsColLit_spec pos v _ op lo hi _ (keyOf_at ixcols r pos c (keyPos_spec _ _ _ hpos)) hb
  · rename_i op c v hb
    simp [hb]
  · rename_i op v c lo hi hb
    simp only [hb, List.all_nil, Bool.and_true]
    simp only [Option.bind_eq_some_iff] at hb
    obtain ⟨pos, hpos, hb⟩ := hb
    rw [holds_cmp_lit_col]
    exact boundsLitCol_spec pos v _ op lo hi _ (keyOf_at ixcols r pos c (keyPos_spec _ _ _ hpos)) hb
  · rename_i op v c hb
    simp [hb]
  · simp

theorem all_and3 {α} (l : List α) (f g h : α → Bool) :
    l.all (fun x => f x && (g x && h x)) = (l.all f && (l.all g && l.all h)) := by
  induction l with
  | nil => rfl
  | cons x xs ih =>
    simp only [List.all_cons, ih]
    generalize f x = a; generalize g x = b; generalize h x = c
    generalize xs.all f = a'; generalize xs.all g = b'; generalize xs.all h = c'
    cases a <;> cases b <;> cases c <;> cases a' <;> cases b' <;> cases c' <;> rfl

/-- `range_bounds_sound`, exact form: the predicate is TRUE on a row iff the key of the row lies inside the extracted
    bounds and the residual predicate is TRUE. -/
theorem extractBounds_spec (ixcols : List Nat) (tys : List Ty) (p : Expr) (r : Row) :
    holds tys p r = (boundsOk (extractBounds ixcols p).1 (extractBounds ixcols p).2.1 (keyOf ixcols r)
      && holdsOpt tys (extractBounds ixcols p).2.2 r) := by
  rw [holds_conjuncts]
  simp only [extractBounds, boundsOk, holdsOpt_combine, List.all_flatMap, List.all_map]
  rw [Bool.and_assoc, ← all_and3]
  apply all_congr_mem
  intro e _
  simp only [Function.comp]
  rw [boundOfConjunct_spec ixcols tys r e]

/-! ### index scan = filter over the table scan -/

theorem boundOk_null (start : Bool) (key : List Value) (b : Bound) (h : key[b.pos]? = some .null) :
    boundOk start key b = false := by
  simp only [boundOk, h]
  cases start <;> simp [cmp3_null_right']

theorem boundsOk_false_of_null (lo hi : List Bound) (key : List Value) (j : Nat) (hj : key[j]? = some .null)
    (hb : (lo ++ hi).any (fun b => b.pos == j) = true) : boundsOk lo hi key = false := by
  simp only [List.any_append, Bool.or_eq_true, List.any_eq_true, beq_iff_eq] at hb
  simp only [boundsOk]
  rcases hb with ⟨b, hb, rfl⟩ | ⟨b, hb, rfl⟩
  · have : lo.all (boundOk true key) = false := by
      apply List.all_eq_false.mpr
      exact ⟨b, hb, by simp [boundOk_null true key b hj]⟩
    simp [this]
  · have : hi.all (boundOk false key) = false := by
      apply List.all_eq_false.mpr
      exact ⟨b, hb, by simp [boundOk_null false key b hj]⟩
    simp [this]

theorem wfTable_notNull {tb : STable} (h : wfTable tb = true) {x : Nat × Row} (hx : x ∈ tb.rows) (c : Nat)
    (hn : x.2.getD c .null = .null) : tb.notNull.getD c false = false := by
  simp only [wfTable, List.all_eq_true, Bool.and_eq_true] at h
  have := (h x hx).2
  simp only [respectsNotNull, List.all_eq_true, List.mem_range] at this
  by_cases hc : c < tb.notNull.length
  · have := this c hc
    simp only [hn, bne_self_eq_false, Bool.or_false, Bool.not_eq_eq_eq_not, Bool.not_true] at this
    exact this
  · simp [List.getD_eq_getElem?_getD, List.getElem?_eq_none (Nat.le_of_not_lt hc)]

theorem hasNull_witness (k : List Value) (h : hasNull k = true) : ∃ j : Nat, k[j]? = some Value.null := by
  simp only [hasNull, List.any_eq_true, beq_iff_eq] at h
  obtain ⟨v, hv, rfl⟩ := h
  obtain ⟨j, hj, hjv⟩ := List.getElem_of_mem hv
  exact ⟨j, by simp [hj, hjv]⟩

/-- a row with NULL in the key is rejected by the bounds, provided every nullable key position carries a bound -/
theorem boundsOk_false_of_hasNull (tb : STable) (hwf : wfTable tb = true) (ixcols : List Nat) (lo hi : List Bound)
    (hnb : nullableBounded tb ixcols lo hi = true) (x : Nat × Row) (hx : x ∈ tb.rows)
    (hn : hasNull (keyOf ixcols x.2) = true) : boundsOk lo hi (keyOf ixcols x.2) = false := by
  obtain ⟨j, hj⟩ := hasNull_witness _ hn
  have hjl : j < ixcols.length := by
    rcases Nat.lt_or_ge j ixcols.length with h | h
    · exact h
    · simp [keyOf, List.getElem?_map, List.getElem?_eq_none h] at hj
  have hcol : x.2.getD (ixcols.getD j 0) .null = .null := by
    simp only [keyOf, List.getElem?_map, List.getElem?_eq_getElem hjl, Option.map_some, Option.some.injEq] at hj
    simpa [List.getD_eq_getElem?_getD, hjl] using hj
  have hnn := wfTable_notNull hwf hx _ hcol
  simp only [nullableBounded, List.all_eq_true, List.mem_range] at hnb
  have := hnb j hjl
  simp only [hnn, Bool.false_or] at this
  exact boundsOk_false_of_null lo hi _ j hj this

theorem getD_mem_of_index {st : Store} {t k : Nat} {ix : Index} (h : (st.getD t default).indexes[k]? = some ix) :
    st.getD t default ∈ st := by
  by_cases ht : t < st.length
  · have : st.getD t default = st[t] := by simp [List.getD_eq_getElem?_getD, ht]
    rw [this]; exact List.getElem_mem ht
  · have : st.getD t default = default := by
      simp [List.getD_eq_getElem?_getD, List.getElem?_eq_none (Nat.le_of_not_lt ht)]
    rw [this] at h
    have hd : (default : STable).indexes = [] := rfl
    rw [hd] at h
    simp at h

/-- `index_scan_eq_filter`: over a consistent index, the index scan with the bounds extracted from a predicate and the
    residual re-checked returns the rows the filter over the table scan returns. -/
theorem indexScan_eval (st : Store) (hwf : wfStore st = true) (hc : StoreConsistent st) (t k : Nat) (p : Expr)
    (ix : Index) (hix : (st.getD t default).indexes[k]? = some ix)
    (hnb : nullableBounded (st.getD t default) ix.cols (extractBounds ix.cols p).1 (extractBounds ix.cols p).2.1 = true) :
    (evalPlan st (.indexScan t k (extractBounds ix.cols p).1 (extractBounds ix.cols p).2.1 (extractBounds ix.cols p).2.2)).Perm
      (evalPlan st (.filter p (.scan t))) := by
  have hmem := getD_mem_of_index hix
  obtain ⟨hrids, hcons⟩ := hc _ hmem
  have hixc := hcons ix (List.mem_of_getElem? hix)
  have hwft := wfStore_table hwf t
  simp only [evalPlan, indexScanRows, hix, Plan.tys]
  have hs := scan_perm ix (st.getD t default).rows (extractBounds ix.cols p).1 (extractBounds ix.cols p).2.1 hixc hrids
  refine (hs.filter _).trans (List.Perm.of_eq ?_)
  rw [List.filter_map, List.filter_map, List.filter_filter]
  congr 1
  apply List.filter_congr
  intro x hx
  simp only [Function.comp]
  rw [extractBounds_spec ix.cols (st.getD t default).tys p x.2]
  cases hn : hasNull (keyOf ix.cols x.2)
  · simp [Bool.and_comm]
  · have := boundsOk_false_of_hasNull _ hwft ix.cols _ _ hnb x hx hn
    simp [this]

end AxVerif.Plan
