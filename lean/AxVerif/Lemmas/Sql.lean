/- Helper lemmas for the C05 theorems (core Lean only). -/
import AxVerif.Model.Sql
deriving instance DecidableEq for Except

namespace AxVerif.Sql

@[simp] theorem asTV_toValue (t : TV) : asTV t.toValue = .ok t := by
  rcases t with _ | _ | _ <;> rfl

/-! ### IN -/

theorem cmp3_null_left (op : CmpOp) (b : Value) : cmp3 op .null b = none := by
  cases b <;> rfl

theorem in3_null_aux (vs : List Value) : in3 .null vs = none ∨ in3 .null vs = some false := by
  induction vs with
  | nil => exact Or.inr rfl
  | cons y ys ih =>
    simp only [in3, cmp3_null_left]
    rcases ih with h | h <;> rw [h] <;> simp [or3]

theorem in3_null_left (vs : List Value) (h : vs ≠ []) : in3 .null vs = none := by
  cases vs with
  | nil => exact absurd rfl h
  | cons y ys =>
    simp only [in3, cmp3_null_left]
    rcases in3_null_aux ys with h | h <;> rw [h] <;> simp [or3]

theorem in3_with_null (v : Value) (vs : List Value) (hn : Value.null ∈ vs) :
    in3 v vs = some true ∨ in3 v vs = none := by
  induction vs with
  | nil => simp at hn
  | cons y ys ih =>
    simp only [in3]
    rcases List.mem_cons.mp hn with h | h
    · subst h
      have : cmp3 .eq v .null = none := by cases v <;> rfl
      rw [this]
      rcases h2 : in3 v ys with _ | _ | _ <;> simp [or3]
    · rcases ih h with h2 | h2 <;> rw [h2] <;>
        rcases cmp3 .eq v y with _ | _ | _ <;> simp [or3]

/-- `x IN (y, ys…)` written out: `x = y OR (x = … OR FALSE)` -/
def orChain (e : Expr) : List Expr → Expr
  | [] => .lit (.bool false)
  | x :: xs => .or (.cmp .eq e x) (orChain e xs)

/-- value-level form of the IN abbreviation (the tested expression evaluates to `v`) -/
theorem evalList_orChain (tys : List Ty) (row : Row) (e : Expr) (v : Value)
    (he : eval {} tys row e = .ok v) (xs : List Expr) :
    (match evalList {} tys row xs with
     | .error x => Except.error x
     | .ok vs => Except.ok (in3 v vs).toValue) = eval {} tys row (orChain e xs) := by
  induction xs with
  | nil => simp [evalList, in3, eval, TV.toValue, orChain]
  | cons x xs ih =>
    simp only [evalList, orChain, eval, he]
    cases hx : eval {} tys row x with
    | error err => simp
    | ok vx =>
      simp only
      rw [← ih]
      cases hxs : evalList {} tys row xs with
      | error err => simp
      | ok vs => simp [in3, asTV_toValue]

theorem evalIn_orChain (tys : List Ty) (row : Row) (e : Expr) (neg : Bool) (x : Expr) (xs : List Expr) :
    eval {} tys row (.inList neg e (x :: xs)) =
      eval {} tys row (if neg then .not (orChain e (x :: xs)) else orChain e (x :: xs)) := by
  cases he : eval {} tys row e with
  | error err =>
    cases neg <;> simp [eval, he, orChain]
  | ok v =>
    have h := evalList_orChain tys row e v he (x :: xs)
    cases neg
    · simp only [Bool.false_eq_true, if_false]
      rw [← h]
      simp only [eval, he]
      cases evalList {} tys row (x :: xs) <;> simp [negIf]
    · simp only [if_true]
      simp only [eval] at h ⊢
      rw [← h]
      simp only [he]
      cases evalList {} tys row (x :: xs) <;> simp [negIf, asTV_toValue]

/-! ### WHERE -/

/-- is the predicate TRUE on this row? -/
def isTrueOn (p : Row → Except Err Bool) (r : Row) : Bool :=
  match p r with
  | .ok true => true
  | _ => false

theorem filterRows_eq (p : Row → Except Err Bool) (rows out : List Row)
    (h : filterRows p rows = .ok out) : out = rows.filter (isTrueOn p) := by
  induction rows generalizing out with
  | nil => simp [filterRows] at h; simp [h]
  | cons r rs ih =>
    simp only [filterRows] at h
    cases hp : p r with
    | error e => simp [hp] at h
    | ok b =>
      simp only [hp] at h
      cases hrs : filterRows p rs with
      | error e => simp [hrs] at h
      | ok out' =>
        simp only [hrs] at h
        have := ih out' hrs
        cases b <;> simp at h <;> simp [List.filter, isTrueOn, hp, ← h, this]


/-! ### joins -/

theorem mem_matchesOf (m : Row → Row → Bool) (a : Row) (r : List Row) (x : Row) :
    x ∈ matchesOf m a r ↔ ∃ b, b ∈ r ∧ m a b = true ∧ x = a ++ b := by
  simp only [matchesOf, List.mem_map, List.mem_filter]
  constructor
  · rintro ⟨b, ⟨hb, hm⟩, rfl⟩; exact ⟨b, hb, hm, rfl⟩
  · rintro ⟨b, hb, hm, rfl⟩; exact ⟨b, ⟨hb, hm⟩, rfl⟩

theorem matchesOf_isEmpty (m : Row → Row → Bool) (a : Row) (r : List Row) :
    (matchesOf m a r).isEmpty = !(r.any (m a)) := by
  induction r with
  | nil => rfl
  | cons b bs ih =>
    simp only [matchesOf, List.filter, List.any] at ih ⊢
    cases h : m a b <;> simp [h] at ih ⊢
    exact ih

/-- inner part of a join: all matching pairs, left-major order -/
def innerPairs (m : Row → Row → Bool) (l r : List Row) : List Row :=
  l.flatMap (fun a => matchesOf m a r)

/-- left rows without any match -/
def unmatchedLeft (m : Row → Row → Bool) (rw : Nat) (l r : List Row) : List Row :=
  (l.filter (fun a => !(r.any (m a)))).map (· ++ nulls rw)

theorem joinLeftPart_false (m : Row → Row → Bool) (rw : Nat) (l r : List Row) :
    joinLeftPart m false rw l r = innerPairs m l r := by
  simp [joinLeftPart, innerPairs]

theorem joinLeftPart_true_perm (m : Row → Row → Bool) (rw : Nat) (l r : List Row) :
    (joinLeftPart m true rw l r).Perm (innerPairs m l r ++ unmatchedLeft m rw l r) := by
  induction l with
  | nil => simp [joinLeftPart, innerPairs, unmatchedLeft]
  | cons a as ih =>
    simp only [joinLeftPart, innerPairs, unmatchedLeft, List.flatMap_cons, Bool.and_true] at ih ⊢
    rw [matchesOf_isEmpty]
    cases h : r.any (m a)
    · -- unmatched: the padded row
      have he : matchesOf m a r = [] := by
        have := matchesOf_isEmpty m a r
        rw [h] at this
        simpa using this
      simp only [Bool.not_false, if_true, he, List.nil_append, List.filter_cons, h]
      simp only [List.map_cons, List.singleton_append]
      exact (List.Perm.cons _ ih).trans List.perm_middle.symm
    · simp only [Bool.not_true, Bool.false_eq_true, if_false, List.filter_cons, h]
      rw [List.append_assoc]
      exact List.Perm.append_left _ ih



theorem flatMap_append_perm {β γ} (r : List β) (g h : β → List γ) :
    (r.flatMap (fun b => g b ++ h b)).Perm (r.flatMap g ++ r.flatMap h) := by
  induction r with
  | nil => simp
  | cons b bs ih =>
    simp only [List.flatMap_cons]
    -- (g b ++ h b) ++ X  ~  (g b ++ G) ++ (h b ++ H)
    have h1 : (g b ++ h b ++ List.flatMap (fun b => g b ++ h b) bs).Perm
        (g b ++ h b ++ (List.flatMap g bs ++ List.flatMap h bs)) := List.Perm.append_left _ ih
    refine h1.trans ?_
    simp only [List.append_assoc]
    refine List.Perm.append_left _ ?_
    rw [← List.append_assoc, ← List.append_assoc]
    exact List.Perm.append_right _ List.perm_append_comm

theorem flatMap_ite_singleton {β γ} (r : List β) (p : β → Bool) (f : β → γ) :
    r.flatMap (fun b => if p b then [f b] else []) = (r.filter p).map f := by
  induction r with
  | nil => rfl
  | cons b bs ih =>
    simp only [List.flatMap_cons, List.filter_cons, ih]
    cases p b <;> simp

/-- the matching pairs enumerated left-major or right-major are the same multiset -/
theorem pairs_swap {γ} (m : Row → Row → Bool) (f : Row → Row → γ) (l r : List Row) :
    (l.flatMap (fun a => (r.filter (m a)).map (f a))).Perm
      (r.flatMap (fun b => (l.filter (fun a => m a b)).map (fun a => f a b))) := by
  induction l with
  | nil => simp
  | cons a as ih =>
    simp only [List.flatMap_cons]
    have hfun : (fun b => ((a :: as).filter (fun a => m a b)).map (fun a => f a b)) =
        (fun b => (if m a b then [f a b] else []) ++ (as.filter (fun a => m a b)).map (fun a => f a b)) := by
      funext b
      simp only [List.filter_cons]
      cases m a b <;> simp
    rw [hfun]
    refine List.Perm.trans ?_ (flatMap_append_perm r _ _).symm
    rw [flatMap_ite_singleton]
    exact List.Perm.append_left _ ih

theorem flatMap_congr_mem {β γ} (r : List β) (f g : β → List γ) (h : ∀ b ∈ r, f b = g b) :
    r.flatMap f = r.flatMap g := by
  induction r with
  | nil => rfl
  | cons b bs ih =>
    simp only [List.flatMap_cons]
    rw [h b (by simp), ih (fun x hx => h x (by simp [hx]))]

/-- move the first `n` columns of a row behind the others -/
def swapCols (n : Nat) (row : Row) : Row := row.drop n ++ row.take n

theorem swapCols_append (a b : Row) : swapCols a.length (a ++ b) = b ++ a := by
  simp [swapCols]

/-- RIGHT JOIN is the mirror image of LEFT JOIN: join the inputs the other way round with the converse
    condition, then put the columns back in order — the same multiset of rows. -/
theorem joinRight_mirror (m : Row → Row → Bool) (lw rw : Nat) (l r : List Row)
    (hr : ∀ b ∈ r, b.length = rw) :
    (joinPure .right m lw rw l r).Perm
      ((joinPure .left (fun b a => m a b) rw lw r l).map (swapCols rw)) := by
  simp only [joinPure]
  rw [joinLeftPart_false]
  have h1 := (joinLeftPart_true_perm (fun b a => m a b) lw r l).map (swapCols rw)
  refine List.Perm.trans ?_ h1.symm
  rw [List.map_append]
  refine List.Perm.append ?_ ?_
  · -- matching pairs
    simp only [innerPairs, matchesOf, List.map_flatMap, List.map_map]
    have h2 := pairs_swap m (fun a b => a ++ b) l r
    refine h2.trans (List.Perm.of_eq ?_)
    refine flatMap_congr_mem _ _ _ ?_
    intro b hb
    refine List.map_congr_left ?_
    intro a _
    simp only [Function.comp]
    rw [← hr b hb, swapCols_append]
  · refine List.Perm.of_eq ?_
    simp only [unmatchedRight, unmatchedLeft, List.map_map]
    refine List.map_congr_left ?_
    intro b hb
    simp only [Function.comp, List.mem_filter] at hb ⊢
    rw [← hr b hb.1, swapCols_append]



/-! ### DISTINCT -/

theorem mem_dedup (rs : List Row) (x : Row) : x ∈ dedup rs ↔ x ∈ rs := by
  induction rs with
  | nil => simp [dedup]
  | cons r rs ih =>
    simp only [dedup, List.mem_cons, List.mem_filter, ih, bne_iff_ne, ne_eq]
    constructor
    · rintro (h | ⟨h, _⟩)
      · exact Or.inl h
      · exact Or.inr h
    · intro h
      by_cases hx : x = r
      · exact Or.inl hx
      · rcases h with h | h
        · exact absurd h hx
        · exact Or.inr ⟨h, hx⟩

theorem nodup_dedup (rs : List Row) : (dedup rs).Nodup := by
  induction rs with
  | nil => simp [dedup]
  | cons r rs ih =>
    simp only [dedup, List.nodup_cons, List.mem_filter, bne_iff_ne, ne_eq, not_and]
    exact ⟨fun _ h => h trivial, ih.filter _⟩

theorem dedup_sublist (rs : List Row) : (dedup rs).Sublist rs := by
  induction rs with
  | nil => simp [dedup]
  | cons r rs ih =>
    simp only [dedup]
    exact List.Sublist.cons_cons _ ((List.filter_sublist).trans ih)

theorem dedup_of_nodup (rs : List Row) (h : rs.Nodup) : dedup rs = rs := by
  induction rs with
  | nil => rfl
  | cons r rs ih =>
    rw [List.nodup_cons] at h
    simp only [dedup, ih h.2]
    congr 1
    rw [List.filter_eq_self]
    intro a ha
    simp only [bne_iff_ne, ne_eq]
    rintro rfl
    exact h.1 ha

/-! ### ORDER BY: insertion sort -/

theorem perm_insertSorted {α} (le : α → α → Bool) (x : α) (xs : List α) :
    (insertSorted le x xs).Perm (x :: xs) := by
  induction xs with
  | nil => simp [insertSorted]
  | cons y ys ih =>
    simp only [insertSorted]
    cases le x y
    · simp only [Bool.false_eq_true, if_false]
      exact (List.Perm.cons y ih).trans (List.Perm.swap x y ys)
    · simp

theorem perm_sortBy {α} (le : α → α → Bool) (xs : List α) : (sortBy le xs).Perm xs := by
  induction xs with
  | nil => simp [sortBy]
  | cons x xs ih =>
    simp only [sortBy]
    exact (perm_insertSorted le x _).trans (List.Perm.cons x ih)

theorem sorted_insertSorted {α} (le : α → α → Bool)
    (total : ∀ a b, le a b = true ∨ le b a = true)
    (trans : ∀ a b c, le a b = true → le b c = true → le a c = true)
    (x : α) (xs : List α) (h : xs.Pairwise (fun a b => le a b = true)) :
    (insertSorted le x xs).Pairwise (fun a b => le a b = true) := by
  induction xs with
  | nil => simp [insertSorted]
  | cons y ys ih =>
    simp only [insertSorted]
    rw [List.pairwise_cons] at h
    cases hxy : le x y
    · simp only [Bool.false_eq_true, if_false]
      have hyx : le y x = true := by
        rcases total x y with h1 | h1
        · rw [hxy] at h1; exact absurd h1 (by simp)
        · exact h1
      rw [List.pairwise_cons]
      refine ⟨?_, ih h.2⟩
      intro z hz
      have := (perm_insertSorted le x ys).mem_iff.mp hz
      rcases List.mem_cons.mp this with rfl | hz'
      · exact hyx
      · exact h.1 z hz'
    · simp only [if_true]
      rw [List.pairwise_cons]
      refine ⟨?_, List.pairwise_cons.mpr h⟩
      intro z hz
      rcases List.mem_cons.mp hz with rfl | hz'
      · exact hxy
      · exact trans _ _ _ hxy (h.1 z hz')

theorem sorted_sortBy {α} (le : α → α → Bool)
    (total : ∀ a b, le a b = true ∨ le b a = true)
    (trans : ∀ a b c, le a b = true → le b c = true → le a c = true)
    (xs : List α) : (sortBy le xs).Pairwise (fun a b => le a b = true) := by
  induction xs with
  | nil => simp [sortBy]
  | cons x xs ih =>
    simp only [sortBy]
    exact sorted_insertSorted le total trans x _ ih

/-! ### LIMIT / OFFSET -/

theorem limitOffset_length (l : Nat) (o : Nat) (rows : List Row) :
    (limitOffset (some l) o rows).length = min l (rows.length - o) := by
  simp [limitOffset]


/-! ### comparators: total preorders -/

/-- an `Ordering`-valued comparator is a total preorder -/
structure IsPreorderCmp {α} (c : α → α → Ordering) : Prop where
  swap : ∀ a b, c b a = (c a b).swap
  trans : ∀ a b d, c a b ≠ .gt → c b d ≠ .gt → c a d ≠ .gt
  eqCompat : ∀ a b d, c a b = .eq → c b d = c a d

theorem cmpNat_eq (a b : Nat) : cmpNat a b = .eq ↔ a = b := by
  unfold cmpNat; repeat' split
  all_goals first | (simp; omega) | simp_all
theorem cmpInt_eq (a b : Int) : cmpInt a b = .eq ↔ a = b := by
  unfold cmpInt; repeat' split
  all_goals first | (simp; omega) | simp_all

theorem cmpNat_pre : IsPreorderCmp cmpNat where
  swap a b := by
    unfold cmpNat; repeat' split
    all_goals first | rfl | omega
  trans a b d := by
    unfold cmpNat; repeat' split
    all_goals first | (simp; done) | omega
  eqCompat a b d h := by rw [(cmpNat_eq a b).mp h]

theorem cmpInt_pre : IsPreorderCmp cmpInt where
  swap a b := by
    unfold cmpInt; repeat' split
    all_goals first | rfl | omega
  trans a b d := by
    unfold cmpInt; repeat' split
    all_goals first | (simp; done) | omega
  eqCompat a b d h := by rw [(cmpInt_eq a b).mp h]

theorem IsPreorderCmp.lt_of_lt_of_le {α} {c : α → α → Ordering} (h : IsPreorderCmp c) {a b d : α}
    (h1 : c a b = .lt) (h2 : c b d ≠ .gt) : c a d = .lt := by
  have t := h.trans a b d (by rw [h1]; decide) h2
  cases had : c a d with
  | lt => rfl
  | gt => exact absurd had t
  | eq =>
    have hda : c d a = .eq := by rw [h.swap a d, had]; rfl
    have := h.eqCompat d a b hda
    rw [h1] at this
    have hbd : c b d = .gt := by rw [h.swap d b, ← this]; rfl
    exact absurd hbd h2

theorem IsPreorderCmp.lt_of_le_of_lt {α} {c : α → α → Ordering} (h : IsPreorderCmp c) {a b d : α}
    (h1 : c a b ≠ .gt) (h2 : c b d = .lt) : c a d = .lt := by
  have t := h.trans a b d h1 (by rw [h2]; decide)
  cases had : c a d with
  | lt => rfl
  | gt => exact absurd had t
  | eq =>
    have := h.eqCompat a d b had
    have hdb : c d b = .gt := by rw [h.swap b d, h2]; rfl
    rw [hdb] at this
    exact absurd this.symm h1

theorem lex_pre {α β} {c1 : α → α → Ordering} {c2 : β → β → Ordering}
    (h1 : IsPreorderCmp c1) (h2 : IsPreorderCmp c2) :
    IsPreorderCmp (fun (a b : α × β) => lexOrd (c1 a.1 b.1) (c2 a.2 b.2)) where
  swap a b := by
    simp only [lexOrd]
    rw [h1.swap a.1 b.1, h2.swap a.2 b.2]
    cases c1 a.1 b.1 <;> simp [Ordering.swap]
  trans a b d := by
    intro hab hbd
    cases e1 : c1 a.1 b.1 with
    | gt => simp [lexOrd, e1] at hab
    | lt =>
      have : c1 b.1 d.1 ≠ .gt := by
        intro hg; simp [lexOrd, hg] at hbd
      simp [lexOrd, h1.lt_of_lt_of_le e1 this]
    | eq =>
      cases e2 : c1 b.1 d.1 with
      | gt => simp [lexOrd, e2] at hbd
      | lt =>
        have : c1 a.1 b.1 ≠ .gt := by rw [e1]; decide
        simp [lexOrd, h1.lt_of_le_of_lt this e2]
      | eq =>
        have e3 : c1 a.1 d.1 = .eq := by rw [← h1.eqCompat _ _ _ e1, e2]
        simp only [lexOrd, e1, e2, e3] at hab hbd ⊢
        exact h2.trans _ _ _ hab hbd
  eqCompat a b d h := by
    simp only [lexOrd] at h ⊢
    cases hab : c1 a.1 b.1 <;> simp [hab] at h
    rw [h1.eqCompat _ _ _ hab, h2.eqCompat _ _ _ h]


theorem cmpText_cons (a b : Nat) (as bs : List Nat) :
    cmpText (a :: as) (b :: bs) = lexOrd (cmpNat a b) (cmpText as bs) := rfl

theorem cmpText_eq (a b : List Nat) : cmpText a b = .eq ↔ a = b := by
  induction a generalizing b with
  | nil => cases b <;> simp [cmpText]
  | cons x xs ih =>
    cases b with
    | nil => simp [cmpText]
    | cons y ys =>
      rw [cmpText_cons]
      cases h : cmpNat x y <;> simp only [lexOrd]
      · have : x ≠ y := fun e => by rw [(cmpNat_eq x y).mpr e] at h; cases h
        simp [this]
      · rw [ih, (cmpNat_eq x y).mp h]; simp
      · have : x ≠ y := fun e => by rw [(cmpNat_eq x y).mpr e] at h; cases h
        simp [this]

theorem cmpText_swap (a b : List Nat) : cmpText b a = (cmpText a b).swap := by
  induction a generalizing b with
  | nil => cases b <;> rfl
  | cons x xs ih =>
    cases b with
    | nil => rfl
    | cons y ys =>
      rw [cmpText_cons, cmpText_cons, cmpNat_pre.swap x y, ih ys]
      cases cmpNat x y <;> rfl

theorem cmpText_trans (a b d : List Nat) : cmpText a b ≠ .gt → cmpText b d ≠ .gt → cmpText a d ≠ .gt := by
  induction a generalizing b d with
  | nil => cases d <;> simp [cmpText]
  | cons x xs ih =>
    cases b with
    | nil => simp [cmpText]
    | cons y ys =>
      cases d with
      | nil => simp [cmpText]
      | cons z zs =>
        rw [cmpText_cons, cmpText_cons, cmpText_cons]
        intro hab hbd
        cases e1 : cmpNat x y with
        | gt => simp [lexOrd, e1] at hab
        | lt =>
          have : cmpNat y z ≠ .gt := by intro hg; simp [lexOrd, hg] at hbd
          simp [lexOrd, cmpNat_pre.lt_of_lt_of_le e1 this]
        | eq =>
          cases e2 : cmpNat y z with
          | gt => simp [lexOrd, e2] at hbd
          | lt =>
            have : cmpNat x y ≠ .gt := by rw [e1]; decide
            simp [lexOrd, cmpNat_pre.lt_of_le_of_lt this e2]
          | eq =>
            have e3 : cmpNat x z = .eq := by rw [← cmpNat_pre.eqCompat _ _ _ e1, e2]
            simp only [lexOrd, e1, e2, e3] at hab hbd ⊢
            exact ih ys zs hab hbd

theorem cmpText_pre : IsPreorderCmp cmpText where
  swap := cmpText_swap
  trans := cmpText_trans
  eqCompat a b d h := by rw [(cmpText_eq a b).mp h]


theorem Value.cmp_eq (a b : Value) : a.cmp b = .eq ↔ a = b := by
  cases a <;> cases b <;> simp only [Value.cmp, Value.rank] <;>
    first
    | (rw [cmpInt_eq]; simp; done)
    | (rw [cmpText_eq]; simp; done)
    | (rw [cmpNat_eq]; simp; done)
    | (rename_i x y; cases x <;> cases y <;> decide)
    | skip
  -- rat
  rename_i n d n' d'
  simp only [lexOrd]
  cases h : cmpInt n n' with
  | eq => simp only; rw [cmpNat_eq, (cmpInt_eq _ _).mp h]; simp
  | lt =>
    have : n ≠ n' := fun e => by rw [(cmpInt_eq _ _).mpr e] at h; cases h
    simp [this]
  | gt =>
    have : n ≠ n' := fun e => by rw [(cmpInt_eq _ _).mpr e] at h; cases h
    simp [this]

theorem Value.cmp_swap (a b : Value) : b.cmp a = (a.cmp b).swap := by
  cases a <;> cases b <;> simp only [Value.cmp, Value.rank] <;>
    first
    | exact cmpInt_pre.swap _ _
    | exact cmpNat_pre.swap _ _
    | exact cmpText_pre.swap _ _
    | exact (lex_pre cmpInt_pre cmpNat_pre).swap (_, _) (_, _)
    | decide

theorem Value.cmp_trans (a b d : Value) : a.cmp b ≠ .gt → b.cmp d ≠ .gt → a.cmp d ≠ .gt := by
  cases a <;> cases b <;> cases d <;> simp only [Value.cmp, Value.rank] <;>
    first
    | exact cmpInt_pre.trans _ _ _
    | exact cmpNat_pre.trans _ _ _
    | exact cmpText_pre.trans _ _ _
    | exact (lex_pre cmpInt_pre cmpNat_pre).trans (_, _) (_, _) (_, _)
    | (intro h1 h2; first | exact absurd (by decide) h1 | exact absurd (by decide) h2 | exact h1 | exact h2 | decide)

theorem Value.cmp_pre : IsPreorderCmp Value.cmp where
  swap := Value.cmp_swap
  trans := Value.cmp_trans
  eqCompat a b d h := by rw [(Value.cmp_eq a b).mp h]


theorem cmpNullable_eq (nf : Bool) (a b : Value) : cmpNullable nf a b = .eq ↔ a = b := by
  cases a <;> cases b <;> simp only [cmpNullable] <;>
    first
    | (cases nf <;> simp; done)
    | exact Value.cmp_eq _ _
    | simp

theorem cmpNullable_pre (nf : Bool) : IsPreorderCmp (cmpNullable nf) where
  swap a b := by
    cases a <;> cases b <;> simp only [cmpNullable] <;>
      first
      | (cases nf <;> rfl)
      | exact Value.cmp_swap _ _
      | rfl
  trans a b d := by
    cases a <;> cases b <;> cases d <;> simp only [cmpNullable] <;>
      first
      | exact Value.cmp_trans _ _ _
      | (cases nf <;> simp; done)
      | (cases nf <;> intro h1 h2 <;> first | exact h1 | exact h2 | exact absurd rfl h1 | exact absurd rfl h2 | decide)
  eqCompat a b d h := by rw [(cmpNullable_eq nf a b).mp h]

theorem swap_pre {α} {c : α → α → Ordering} (h : IsPreorderCmp c) :
    IsPreorderCmp (fun a b => (c a b).swap) where
  swap a b := by rw [h.swap a b]
  trans a b d := by
    intro h1 h2
    have h1' : c b a ≠ .gt := by rw [h.swap a b]; exact h1
    have h2' : c d b ≠ .gt := by rw [h.swap b d]; exact h2
    have := h.trans d b a h2' h1'
    rw [h.swap a d] at this
    exact this
  eqCompat a b d h1 := by
    have : c a b = .eq := by cases hc : c a b <;> simp [hc, Ordering.swap] at h1 ⊢
    rw [h.eqCompat a b d this]

theorem cmpKey_pre (nf asc : Bool) : IsPreorderCmp (cmpKey nf asc) := by
  cases asc
  · exact swap_pre (cmpNullable_pre nf)
  · exact cmpNullable_pre nf

theorem cmpKeys_pre (nf : Bool) (dirs : List Bool) : IsPreorderCmp (cmpKeys nf dirs) := by
  induction dirs with
  | nil => exact ⟨fun _ _ => rfl, fun _ _ _ _ _ => by simp [cmpKeys], fun _ _ _ _ => rfl⟩
  | cons asc dirs ih =>
    have hk := cmpKey_pre nf asc
    have := lex_pre (c1 := fun (a b : Value) => cmpKey nf asc a b) (c2 := cmpKeys nf dirs) hk ih
    exact {
      swap := fun a b => this.swap (a.headD .null, a.tail) (b.headD .null, b.tail)
      trans := fun a b d => this.trans (a.headD .null, a.tail) (b.headD .null, b.tail) (d.headD .null, d.tail)
      eqCompat := fun a b d => this.eqCompat (a.headD .null, a.tail) (b.headD .null, b.tail) (d.headD .null, d.tail) }

theorem leKeys_total (nf : Bool) (dirs : List Bool) (a b : List Value × Row) :
    leKeys nf dirs a b = true ∨ leKeys nf dirs b a = true := by
  simp only [leKeys, bne_iff_ne, ne_eq]
  rw [(cmpKeys_pre nf dirs).swap a.1 b.1]
  cases cmpKeys nf dirs a.1 b.1 <;> simp [Ordering.swap]

theorem leKeys_trans (nf : Bool) (dirs : List Bool) (a b d : List Value × Row) :
    leKeys nf dirs a b = true → leKeys nf dirs b d = true → leKeys nf dirs a d = true := by
  simp only [leKeys, bne_iff_ne, ne_eq]
  exact (cmpKeys_pre nf dirs).trans a.1 b.1 d.1



/-! ### GROUP BY -/

theorem groupBy_keys_nodup {α} (key : α → List Value) (xs : List α) :
    ((groupBy key xs).map (·.1)).Nodup := by
  induction xs with
  | nil => simp [groupBy]
  | cons x xs ih =>
    simp only [groupBy]
    split
    · -- key already present: keys unchanged
      have : (List.map (fun g => if g.1 == key x then (g.1, x :: g.2) else g) (groupBy key xs)).map (·.1)
          = (groupBy key xs).map (·.1) := by
        rw [List.map_map]
        refine List.map_congr_left ?_
        intro g _
        simp only [Function.comp]
        split <;> rfl
      rw [this]; exact ih
    · rename_i h
      simp only [List.map_cons, List.nodup_cons]
      refine ⟨?_, ih⟩
      intro hm
      rcases List.mem_map.mp hm with ⟨g, hg, hk⟩
      apply h
      rw [List.any_eq_true]
      exact ⟨g, hg, by simp [hk]⟩

/-- every input row falls into some group -/
theorem groupBy_covers {α} (key : α → List Value) (xs : List α) (y : α) (hy : y ∈ xs) :
    ∃ g, g ∈ groupBy key xs ∧ g.1 = key y := by
  induction xs with
  | nil => simp at hy
  | cons x xs ih =>
    simp only [groupBy]
    have keep : ∀ g0, g0 ∈ groupBy key xs →
        ∃ g, g ∈ List.map (fun g => if g.1 == key x then (g.1, x :: g.2) else g) (groupBy key xs) ∧ g.1 = g0.1 := by
      intro g0 hg0
      refine ⟨_, List.mem_map.mpr ⟨g0, hg0, rfl⟩, ?_⟩
      split <;> rfl
    split
    · rename_i hany
      rcases List.mem_cons.mp hy with rfl | hy'
      · rcases List.any_eq_true.mp hany with ⟨g0, hg0, hk⟩
        rcases keep g0 hg0 with ⟨g, hg, hk'⟩
        exact ⟨g, hg, by rw [hk']; simpa using hk⟩
      · rcases ih hy' with ⟨g0, hg0, hk⟩
        rcases keep g0 hg0 with ⟨g, hg, hk'⟩
        exact ⟨g, hg, by rw [hk', hk]⟩
    · rcases List.mem_cons.mp hy with rfl | hy'
      · exact ⟨_, List.mem_cons_self, rfl⟩
      · rcases ih hy' with ⟨g0, hg0, hk⟩
        exact ⟨g0, List.mem_cons_of_mem _ hg0, hk⟩

/-- the members of the group with key `k` are exactly the inputs with that key, in input order -/
theorem groupBy_members {α} (key : α → List Value) (xs : List α) (g : List Value × List α)
    (hg : g ∈ groupBy key xs) : g.2 = xs.filter (fun x => key x == g.1) ∧ g.2 ≠ [] := by
  induction xs generalizing g with
  | nil => simp [groupBy] at hg
  | cons x xs ih =>
    simp only [groupBy] at hg
    split at hg
    · rcases List.mem_map.mp hg with ⟨g0, hg0, rfl⟩
      have := ih g0 hg0
      split
      · rename_i hk
        have hk' : key x = g0.1 := by simpa using Eq.symm (by simpa using hk)
        simp only [List.filter_cons, hk', beq_self_eq_true, if_true]
        exact ⟨by rw [this.1], by simp⟩
      · rename_i hk
        have hk' : (key x == g0.1) = false := by
          cases h : key x == g0.1
          · rfl
          · exfalso; apply hk; simp at h; simp [h]
        simp only [List.filter_cons, hk']
        exact ⟨this.1, this.2⟩
    · rename_i hnone
      rcases List.mem_cons.mp hg with rfl | hg'
      · simp only [List.filter_cons, beq_self_eq_true, if_true]
        refine ⟨?_, by simp⟩
        congr 1
        symm
        rw [List.filter_eq_nil_iff]
        intro y hy hky
        -- then some group has this key
        rcases groupBy_covers key xs y hy with ⟨g, hg, hk⟩
        apply hnone
        rw [List.any_eq_true]
        refine ⟨g, hg, ?_⟩
        rw [hk]
        simpa using hky
      · have := ih g hg'
        have hk' : (key x == g.1) = false := by
          cases h : key x == g.1
          · rfl
          · exfalso; apply hnone; rw [List.any_eq_true]; exact ⟨g, hg', by simp at h; simp [h]⟩
        simp only [List.filter_cons, hk']
        exact this


theorem addToGroup_noop {α} (k : List Value) (x : α) (gs : List (List Value × List α))
    (h : ∀ g ∈ gs, g.1 ≠ k) :
    gs.map (fun g => if g.1 == k then (g.1, x :: g.2) else g) = gs := by
  induction gs with
  | nil => rfl
  | cons g gs ih =>
    simp only [List.map_cons]
    have : (g.1 == k) = false := by
      cases hh : g.1 == k
      · rfl
      · exact absurd (by simpa using hh) (h g (by simp))
    rw [this, ih (fun g' hg' => h g' (by simp [hg']))]
    simp

theorem addToGroup_perm {α} (k : List Value) (x : α) (gs : List (List Value × List α))
    (hn : (gs.map (·.1)).Nodup) (hex : ∃ g ∈ gs, g.1 = k) :
    ((gs.map (fun g => if g.1 == k then (g.1, x :: g.2) else g)).flatMap (·.2)).Perm
      (x :: gs.flatMap (·.2)) := by
  induction gs with
  | nil => rcases hex with ⟨g, hg, _⟩; simp at hg
  | cons g gs ih =>
    simp only [List.map_cons, List.nodup_cons] at hn
    simp only [List.map_cons, List.flatMap_cons]
    cases hk : g.1 == k
    · simp only [Bool.false_eq_true, if_false]
      have hex' : ∃ g' ∈ gs, g'.1 = k := by
        rcases hex with ⟨g', hg', hk'⟩
        rcases List.mem_cons.mp hg' with rfl | h
        · rw [hk'] at hk; simp at hk
        · exact ⟨g', h, hk'⟩
      exact (List.Perm.append_left _ (ih hn.2 hex')).trans List.perm_middle
    · simp only [if_true]
      have hk' : g.1 = k := by simpa using hk
      rw [addToGroup_noop k x gs]
      · simp
      · intro g' hg' he
        apply hn.1
        rw [hk', ← he]
        exact List.mem_map.mpr ⟨g', hg', rfl⟩

/-- GROUP BY partitions its input: the groups put together are a permutation of the input rows -/
theorem groupBy_perm {α} (key : α → List Value) (xs : List α) :
    ((groupBy key xs).flatMap (·.2)).Perm xs := by
  induction xs with
  | nil => simp [groupBy]
  | cons x xs ih =>
    simp only [groupBy]
    split
    · rename_i hany
      have hex : ∃ g ∈ groupBy key xs, g.1 = key x := by
        rcases List.any_eq_true.mp hany with ⟨g, hg, hk⟩
        exact ⟨g, hg, by simpa using hk⟩
      exact (addToGroup_perm (key x) x _ (groupBy_keys_nodup key xs) hex).trans (List.Perm.cons x ih)
    · simp only [List.flatMap_cons, List.singleton_append]
      exact List.Perm.cons x ih

/-! ### mapE, DELETE, UPDATE -/

theorem mapE_ok {α β} (f : α → Except Err β) (xs : List α) (ys : List β) (h : mapE f xs = .ok ys) :
    ys.length = xs.length ∧ ∀ i (hi : i < xs.length) (hj : i < ys.length), f xs[i] = .ok ys[i] := by
  induction xs generalizing ys with
  | nil => simp [mapE] at h; subst h; simp
  | cons x xs ih =>
    simp only [mapE] at h
    cases hx : f x with
    | error e => simp [hx] at h
    | ok y =>
      simp only [hx] at h
      cases hxs : mapE f xs with
      | error e => simp [hxs] at h
      | ok ys' =>
        simp only [hxs, Except.ok.injEq] at h
        subst h
        have := ih ys' hxs
        refine ⟨by simp [this.1], ?_⟩
        intro i hi hj
        cases i with
        | zero => simpa using hx
        | succ i => simpa using this.2 i (by simpa using hi) (by simpa using hj)

theorem mapE_bool_eq (p : Row → Except Err Bool) (rows : List Row) (bs : List Bool)
    (h : mapE p rows = .ok bs) : bs = rows.map (isTrueOn p) := by
  induction rows generalizing bs with
  | nil => simp [mapE] at h; simp [h]
  | cons r rs ih =>
    simp only [mapE] at h
    cases hp : p r with
    | error e => simp [hp] at h
    | ok b =>
      simp only [hp] at h
      cases hrs : mapE p rs with
      | error e => simp [hrs] at h
      | ok bs' =>
        simp only [hrs, Except.ok.injEq] at h
        subst h
        rw [ih bs' hrs]
        cases b <;> simp [isTrueOn, hp]

theorem zip_map_filter {α} (f : α → Bool) (g : Bool → Bool) (xs : List α) :
    ((xs.zip (xs.map f)).filter (fun t => g t.2)).map (·.1) = xs.filter (fun x => g (f x)) := by
  induction xs with
  | nil => rfl
  | cons x xs ih =>
    simp only [List.map_cons, List.zip_cons_cons, List.filter_cons]
    cases g (f x) <;> simp [ih]

theorem filter_length_split {α} (f : α → Bool) (xs : List α) :
    (xs.filter (fun x => !f x)).length + (xs.filter f).length = xs.length := by
  induction xs with
  | nil => rfl
  | cons x xs ih =>
    simp only [List.filter_cons]
    cases f x <;> simp <;> omega

theorem deleteRows_eq (p : Row → Except Err Bool) (rows rest : List Row) (n : Nat)
    (h : deleteRows p rows = .ok (rest, n)) :
    rest = rows.filter (fun r => !isTrueOn p r) ∧ n = (rows.filter (isTrueOn p)).length ∧
    rest.length + n = rows.length := by
  simp only [deleteRows] at h
  cases hm : mapE p rows with
  | error e => simp [hm] at h
  | ok bs =>
    simp only [hm, Except.ok.injEq, Prod.mk.injEq] at h
    have hb := mapE_bool_eq p rows bs hm
    subst hb
    obtain ⟨h1, h2⟩ := h
    have e1 := zip_map_filter (isTrueOn p) (fun b => !b) rows
    have e2 := zip_map_filter (isTrueOn p) (fun b => b) rows

    have hn : n = (rows.filter (isTrueOn p)).length := by
      rw [← h2]
      have := congrArg List.length e2
      rw [List.length_map] at this
      exact this
    have hr : rest = rows.filter (fun r => !isTrueOn p r) := by rw [← h1]; exact e1
    refine ⟨hr, hn, ?_⟩
    rw [hr, hn]
    have := filter_length_split (isTrueOn p) rows
    omega


theorem updateRows_eq (p : Row → Except Err Bool) (assign : Row → Except Err Row) (rows rows' : List Row) (n : Nat)
    (h : updateRows p assign rows = .ok (rows', n)) :
    n = (rows.filter (isTrueOn p)).length ∧ rows'.length = rows.length ∧
    ∀ i (hi : i < rows.length) (hj : i < rows'.length),
      (isTrueOn p rows[i] = true → assign rows[i] = .ok rows'[i]) ∧
      (isTrueOn p rows[i] = false → rows'[i] = rows[i]) := by
  simp only [updateRows] at h
  cases hm : mapE p rows with
  | error e => simp [hm] at h
  | ok bs =>
    simp only [hm] at h
    have hb := mapE_bool_eq p rows bs hm
    subst hb
    cases hu : mapE (fun (t : Row × Bool) => if t.2 then assign t.1 else .ok t.1)
        (rows.zip (rows.map (isTrueOn p))) with
    | error e => simp [hu] at h
    | ok out =>
      simp only [hu, Except.ok.injEq, Prod.mk.injEq] at h
      obtain ⟨h1, h2⟩ := h
      subst h1
      have hk := mapE_ok _ _ _ hu
      have hlen : out.length = rows.length := by rw [hk.1]; simp
      refine ⟨?_, hlen, ?_⟩
      · rw [← h2, List.filter_map, List.length_map]
        congr 1
      · intro i hi hj
        have hz : i < (rows.zip (rows.map (isTrueOn p))).length := by simp [hi]
        have := hk.2 i hz hj
        simp only [List.getElem_zip, List.getElem_map] at this
        constructor
        · intro ht; rw [ht] at this; simpa using this
        · intro hf; rw [hf] at this
          simp only [Bool.false_eq_true, if_false, Except.ok.injEq] at this
          exact this.symm

/-! ### aggregates -/

theorem nonNull_cons_null (vs : List Value) : nonNull (.null :: vs) = nonNull vs := by
  simp [nonNull]

theorem nonNull_mem (vs : List Value) (v : Value) : v ∈ nonNull vs ↔ v ∈ vs ∧ v ≠ .null := by
  simp [nonNull]

theorem sumInts_eq (vs : List Int) (s : Int) (h : sumInts {} (vs.map .int) = .ok s) : s = vs.sum := by
  induction vs generalizing s with
  | nil => simp [sumInts] at h; simp [h]
  | cons v vs ih =>
    simp only [List.map_cons, sumInts] at h
    cases hs : sumInts {} (vs.map .int) with
    | error e => simp [hs] at h
    | ok s' =>
      simp only [hs] at h
      split at h
      · simp only [Except.ok.injEq] at h
        rw [← h, ih s' hs]; simp
      · simp at h

theorem minVal_cons (x : Value) (xs : List Value) :
    minVal (x :: xs) = if minVal xs = .null then x
      else if x.cmp (minVal xs) == .gt then minVal xs else x := by
  simp only [minVal]
  cases minVal xs <;> simp

theorem maxVal_cons (x : Value) (xs : List Value) :
    maxVal (x :: xs) = if maxVal xs = .null then x
      else if x.cmp (maxVal xs) == .lt then maxVal xs else x := by
  simp only [maxVal]
  cases maxVal xs <;> simp

theorem cmp_self (v : Value) : v.cmp v = .eq := (Value.cmp_eq v v).mpr rfl

theorem minVal_spec (vs : List Value) (hnn : ∀ v ∈ vs, v ≠ .null) :
    (vs = [] → minVal vs = .null) ∧
    (vs ≠ [] → minVal vs ∈ vs ∧ ∀ v ∈ vs, (minVal vs).cmp v ≠ .gt) := by
  induction vs with
  | nil => exact ⟨fun _ => rfl, fun h => absurd rfl h⟩
  | cons x xs ih =>
    have ih' := ih (fun v hv => hnn v (by simp [hv]))
    refine ⟨fun h => by simp at h, fun _ => ?_⟩
    rw [minVal_cons]
    cases xs with
    | nil =>
      simp only [minVal, if_true, List.mem_singleton, forall_eq]
      exact ⟨trivial, by rw [cmp_self]; decide⟩
    | cons y ys =>
      have hm := ih'.2 (by simp)
      have hmn : minVal (y :: ys) ≠ .null := hnn _ (by simp [hm.1])
      rw [if_neg hmn]
      split
      · rename_i hgt
        have hgt' : x.cmp (minVal (y :: ys)) = .gt := by simpa using hgt
        refine ⟨by simp [hm.1], ?_⟩
        intro v hv
        rcases List.mem_cons.mp hv with rfl | hv'
        · rw [Value.cmp_swap v, hgt']; decide
        · exact hm.2 v hv'
      · rename_i hngt
        have h1 : x.cmp (minVal (y :: ys)) ≠ .gt := by simpa using hngt
        refine ⟨by simp, ?_⟩
        intro v hv
        rcases List.mem_cons.mp hv with rfl | hv'
        · rw [cmp_self]; decide
        · exact Value.cmp_trans _ _ _ h1 (hm.2 v hv')

theorem maxVal_spec (vs : List Value) (hnn : ∀ v ∈ vs, v ≠ .null) :
    (vs = [] → maxVal vs = .null) ∧
    (vs ≠ [] → maxVal vs ∈ vs ∧ ∀ v ∈ vs, v.cmp (maxVal vs) ≠ .gt) := by
  induction vs with
  | nil => exact ⟨fun _ => rfl, fun h => absurd rfl h⟩
  | cons x xs ih =>
    have ih' := ih (fun v hv => hnn v (by simp [hv]))
    refine ⟨fun h => by simp at h, fun _ => ?_⟩
    rw [maxVal_cons]
    cases xs with
    | nil =>
      simp only [maxVal, if_true, List.mem_singleton, forall_eq]
      exact ⟨trivial, by rw [cmp_self]; decide⟩
    | cons y ys =>
      have hm := ih'.2 (by simp)
      have hmn : maxVal (y :: ys) ≠ .null := hnn _ (by simp [hm.1])
      rw [if_neg hmn]
      split
      · rename_i hlt
        have hlt' : x.cmp (maxVal (y :: ys)) = .lt := by simpa using hlt
        refine ⟨by simp [hm.1], ?_⟩
        intro v hv
        rcases List.mem_cons.mp hv with rfl | hv'
        · rw [hlt']; decide
        · exact hm.2 v hv'
      · rename_i hnlt
        have h1 : x.cmp (maxVal (y :: ys)) ≠ .lt := by simpa using hnlt
        have h1' : (maxVal (y :: ys)).cmp x ≠ .gt := by
          rw [Value.cmp_swap x]; cases hc : x.cmp (maxVal (y :: ys)) <;> simp_all [Ordering.swap]
        refine ⟨by simp, ?_⟩
        intro v hv
        rcases List.mem_cons.mp hv with rfl | hv'
        · rw [cmp_self]; decide
        · exact Value.cmp_trans _ _ _ (hm.2 v hv') h1'



theorem mapE_fst {α β} (F : Nat × α → Except Err (Nat × β)) (hF : ∀ s v, F s = .ok v → v.1 = s.1)
    (sets : List (Nat × α)) (vals : List (Nat × β)) (h : mapE F sets = .ok vals) :
    vals.map (·.1) = sets.map (·.1) := by
  induction sets generalizing vals with
  | nil => simp [mapE] at h; simp [h]
  | cons s ss ih =>
    simp only [mapE] at h
    cases hs : F s with
    | error e => simp [hs] at h
    | ok v =>
      simp only [hs] at h
      cases hr : mapE F ss with
      | error e => simp [hr] at h
      | ok rest =>
        simp only [hr, Except.ok.injEq] at h
        subst h
        simp only [List.map_cons]
        rw [ih rest hr, hF s v hs]

theorem evalSets_fst (tys : List Ty) (row : Row) (sets : List (Nat × Expr)) (vals : List (Nat × Value))
    (h : evalSets {} tys row sets = .ok vals) : vals.map (·.1) = sets.map (·.1) := by
  refine mapE_fst _ ?_ sets vals h
  intro s v hv
  split at hv
  · simp at hv
  · split at hv
    · simp at hv
    · simp only [Except.ok.injEq] at hv
      rw [← hv]

end AxVerif.Sql
