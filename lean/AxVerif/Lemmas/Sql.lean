/- Helper lemmas for the C05 theorems (core Lean only). -/
import AxVerif.Model.Sql
namespace AxVerif.Sql

@[simp] theorem asTV_toValue (t : TV) : asTV t.toValue = .ok t := by
  rcases t with _ | _ | _ <;> rfl

/-! ### IN -/

theorem cmp3_null_left (op : CmpOp) (b : Value) : cmp3 op .null b = none := by
  cases b <;> rfl

theorem in3_null_aux (vs : List Value) : in3 .null vs = none ∨ in3 .null vs = some false := by
  induction vs with
  | nil => exact Or.inr rfl
  | cons y ys ih =>
    simp only [in3, cmp3_null_left]
    rcases ih with h | h <;> rw [h] <;> simp [or3]

theorem in3_null_left (vs : List Value) (h : vs ≠ []) : in3 .null vs = none := by
  cases vs with
  | nil => exact absurd rfl h
  | cons y ys =>
    simp only [in3, cmp3_null_left]
    rcases in3_null_aux ys with h | h <;> rw [h] <;> simp [or3]

theorem in3_with_null (v : Value) (vs : List Value) (hn : Value.null ∈ vs) :
    in3 v vs = some true ∨ in3 v vs = none := by
  induction vs with
  | nil => simp at hn
  | cons y ys ih =>
    simp only [in3]
    rcases List.mem_cons.mp hn with h | h
    · subst h
      have : cmp3 .eq v .null = none := by cases v <;> rfl
      rw [this]
      rcases h2 : in3 v ys with _ | _ | _ <;> simp [or3]
    · rcases ih h with h2 | h2 <;> rw [h2] <;>
        rcases cmp3 .eq v y with _ | _ | _ <;> simp [or3]

/-- `x IN (y, ys…)` written out: `x = y OR (x = … OR FALSE)` -/
def orChain (e : Expr) : List Expr → Expr
  | [] => .lit (.bool false)
  | x :: xs => .or (.cmp .eq e x) (orChain e xs)

/-- value-level form of the IN abbreviation (the tested expression evaluates to `v`) -/
theorem evalList_orChain (tys : List Ty) (row : Row) (e : Expr) (v : Value)
    (he : eval {} tys row e = .ok v) (xs : List Expr) :
    (match evalList {} tys row xs with
     | .error x => Except.error x
     | .ok vs => Except.ok (in3 v vs).toValue) = eval {} tys row (orChain e xs) := by
  induction xs with
  | nil => simp [evalList, in3, eval, TV.toValue, orChain]
  | cons x xs ih =>
    simp only [evalList, orChain, eval, he]
    cases hx : eval {} tys row x with
    | error err => simp
    | ok vx =>
      simp only
      rw [← ih]
      cases hxs : evalList {} tys row xs with
      | error err => simp
      | ok vs => simp [in3, asTV_toValue]

theorem evalIn_orChain (tys : List Ty) (row : Row) (e : Expr) (neg : Bool) (x : Expr) (xs : List Expr) :
    eval {} tys row (.inList neg e (x :: xs)) =
      eval {} tys row (if neg then .not (orChain e (x :: xs)) else orChain e (x :: xs)) := by
  cases he : eval {} tys row e with
  | error err =>
    cases neg <;> simp [eval, he, orChain]
  | ok v =>
    have h := evalList_orChain tys row e v he (x :: xs)
    cases neg
    · simp only [Bool.false_eq_true, if_false]
      rw [← h]
      simp only [eval, he]
      cases evalList {} tys row (x :: xs) <;> simp [negIf]
    · simp only [if_true]
      simp only [eval] at h ⊢
      rw [← h]
      simp only [he]
      cases evalList {} tys row (x :: xs) <;> simp [negIf, asTV_toValue]

end AxVerif.Sql
