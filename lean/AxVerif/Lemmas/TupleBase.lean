/-
  Helper lemmas for the tuple model, part 1: alignment arithmetic, slices, the blob length prefix,
  null bitmaps, one value (`deser ∘ emitVal`).
-/
import AxVerif.Model.Tuple
import AxVerif.Lemmas.Bytes
namespace AxVerif.Tuple
open AxVerif

deriving instance DecidableEq for Except

/-! ### alignment -/

def AlignOk (a : Nat) : Prop := a = 1 ∨ a = 2 ∨ a = 4 ∨ a = 8

instance (a : Nat) : Decidable (AlignOk a) := inferInstanceAs (Decidable (a = 1 ∨ a = 2 ∨ a = 4 ∨ a = 8))

theorem alignUp_ge {c a : Nat} (h : AlignOk a) : c ≤ alignUp c a := by
  rcases h with rfl | rfl | rfl | rfl <;> simp only [alignUp] <;> omega

theorem alignUp_lt {c a : Nat} (h : AlignOk a) : alignUp c a < c + a := by
  rcases h with rfl | rfl | rfl | rfl <;> simp only [alignUp] <;> omega

theorem alignUp_shift {b r a : Nat} (h : AlignOk a) (hb : 8 ∣ b) : alignUp (b + r) a = b + alignUp r a := by
  obtain ⟨q, rfl⟩ := hb
  rcases h with rfl | rfl | rfl | rfl <;> simp only [alignUp] <;> omega

theorem alignUp_dvd8 (c : Nat) : 8 ∣ alignUp c 8 := by
  refine ⟨(c + 8 - 1) / 8, ?_⟩
  simp only [alignUp]; omega

theorem alignUp_of_dvd8 {c : Nat} (h : 8 ∣ c) : alignUp c 8 = c := by
  obtain ⟨q, rfl⟩ := h
  simp only [alignUp]; omega

theorem alignUp_one (c : Nat) : alignUp c 1 = c := by simp [alignUp]

@[simp] theorem zeros_length (n : Nat) : (zeros n).length = n := by simp [zeros]

@[simp] theorem padTo_length (c a : Nat) : (padTo c a).length = alignUp c a - c := by simp [padTo]

theorem padTo_shift {b r a : Nat} (h : AlignOk a) (hb : 8 ∣ b) : padTo (b + r) a = padTo r a := by
  simp only [padTo, alignUp_shift h hb]
  congr 1; omega

theorem padTo_one (c : Nat) : padTo c 1 = [] := by simp [padTo, alignUp_one, zeros]

/-- after the gap the offset is the aligned one -/
theorem length_append_padTo (pre : List UInt8) {a : Nat} (h : AlignOk a) :
    (pre ++ padTo pre.length a).length = alignUp pre.length a := by
  have := alignUp_ge (c := pre.length) h
  simp only [List.length_append, padTo_length]; omega

/-! ### slices -/

theorem slice_append (pre x post : Bytes) : slice (pre ++ x ++ post) pre.length x.length = .ok x := by
  unfold slice
  have h : pre.length + x.length ≤ (pre ++ x ++ post).length := by simp only [List.length_append]; omega
  rw [if_pos h, List.append_assoc, List.drop_left, List.take_left]

theorem slice_append' (pre x post : Bytes) (o n : Nat) (ho : o = pre.length) (hn : n = x.length) :
    slice (pre ++ x ++ post) o n = .ok x := by
  subst ho hn; exact slice_append pre x post

theorem getByte_append (pre : Bytes) (b : UInt8) (post : Bytes) : getByte (pre ++ b :: post) pre.length = .ok b := by
  simp [getByte]

theorem getElem?_append_cons (pre : Bytes) (b : UInt8) (post : Bytes) : (pre ++ b :: post)[pre.length]? = some b := by
  simp

/-! ### the blob length prefix -/

theorem unleb_leb (f : Nat) : ∀ (n : Nat) (rest : Bytes), n < 128 ^ (f + 1) →
    unleb (f + 1) (leb (f + 1) n ++ rest) = some (n, (leb (f + 1) n).length) := by
  induction f with
  | zero =>
    intro n rest h
    have h : n < 128 := by simpa using h
    simp only [leb, h, if_true, List.cons_append, List.nil_append, unleb, UInt8.toNat_ofNat']
    have : n % 2 ^ 8 = n := Nat.mod_eq_of_lt (by omega)
    simp [this, h]
  | succ f ih =>
    intro n rest h
    by_cases hn : n < 128
    · simp only [leb, hn, if_true, List.cons_append, List.nil_append, unleb, UInt8.toNat_ofNat']
      have : n % 2 ^ 8 = n := Nat.mod_eq_of_lt (by omega)
      simp [this, hn]
    · have hdiv : n / 128 < 128 ^ (f + 1) := by
        apply Nat.div_lt_of_lt_mul
        rw [Nat.pow_succ, Nat.mul_comm] at h
        exact h
      have ih' := ih (n / 128) rest hdiv
      rw [leb, if_neg hn, List.cons_append, unleb]
      have hb : (UInt8.ofNat (n % 128 + 128)).toNat = n % 128 + 128 := by
        simp only [UInt8.toNat_ofNat']; omega
      rw [hb, if_neg (by omega), ih']
      simp only [List.length_cons, Option.some.injEq, Prod.mk.injEq, and_true]
      omega

theorem unleb_leb10 (n : Nat) (rest : Bytes) (h : n < 128 ^ 10) :
    unleb 10 (leb 10 n ++ rest) = some (n, (leb 10 n).length) := unleb_leb 9 n rest h

theorem leb_length_pos (f n : Nat) : 0 < (leb (f + 1) n).length := by
  unfold leb; split <;> simp

/-! ### null bitmaps -/

theorem testBit_sum (b0 b1 b2 b3 b4 b5 b6 b7 : Bool) :
    let w := UInt8.ofNat (bitVal b0 1 + bitVal b1 2 + bitVal b2 4 + bitVal b3 8 + bitVal b4 16 + bitVal b5 32
      + bitVal b6 64 + bitVal b7 128)
    testBit w 0 = b0 ∧ testBit w 1 = b1 ∧ testBit w 2 = b2 ∧ testBit w 3 = b3 ∧ testBit w 4 = b4 ∧ testBit w 5 = b5
      ∧ testBit w 6 = b6 ∧ testBit w 7 = b7 := by
  revert b0 b1 b2 b3 b4 b5 b6 b7
  decide

theorem testBit_bitmapByte (f : Nat → Bool) (j t : Nat) (ht : t < 8) : testBit (bitmapByte f j) t = f (8 * j + t) := by
  have h := testBit_sum (f (8 * j)) (f (8 * j + 1)) (f (8 * j + 2)) (f (8 * j + 3)) (f (8 * j + 4)) (f (8 * j + 5))
    (f (8 * j + 6)) (f (8 * j + 7))
  simp only at h
  obtain ⟨h0, h1, h2, h3, h4, h5, h6, h7⟩ := h
  unfold bitmapByte
  match t, ht with
  | 0, _ => simpa using h0
  | 1, _ => exact h1
  | 2, _ => exact h2
  | 3, _ => exact h3
  | 4, _ => exact h4
  | 5, _ => exact h5
  | 6, _ => exact h6
  | 7, _ => exact h7

@[simp] theorem mkBitmap_length (vals : List Cell) : (mkBitmap vals).length = bitmapSize vals.length := by
  simp [mkBitmap]

theorem checkNull_mkBitmap (vals : List Cell) (i : Nat) (h : i < vals.length) :
    checkNull (mkBitmap vals) i = .ok (isNullAt vals i) := by
  unfold checkNull mkBitmap
  have hj : i / 8 < bitmapSize vals.length := by unfold bitmapSize; omega
  rw [List.getElem?_map, List.getElem?_range hj]
  simp only [Option.map_some]
  rw [testBit_bitmapByte _ _ _ (Nat.mod_lt _ (by omega))]
  congr 2
  omega

/-! ### side conditions on the extracted constants -/

/-- what the model and the proofs assume about the constants extracted from the code -/
def Params.Wf (P : Params) : Prop :=
  P.hdrSize = 24 ∧ P.hdrAlign = 8 ∧ P.hdrXminOff = 0 ∧ P.hdrXmaxOff = 8 ∧ P.hdrVerOff = 16 ∧
  P.dhSize = 16 ∧ P.dhAlign = 8 ∧ P.dhXminOff = 0 ∧ P.dhVerOff = 8 ∧ P.cellAlign = 8 ∧
  P.boolSize = 1 ∧ P.boolAlign = 1 ∧ P.blobAlign = 1 ∧
  AlignOk P.intAlign ∧ AlignOk P.bigintAlign ∧ AlignOk P.uintAlign ∧ AlignOk P.biguintAlign ∧
  AlignOk P.floatAlign ∧ AlignOk P.doubleAlign

instance (P : Params) : Decidable P.Wf := by unfold Params.Wf; exact inferInstance

theorem Params.Wf.hdr {P : Params} (h : P.Wf) : P.hdrSize = 24 := h.1
theorem Params.Wf.dh {P : Params} (h : P.Wf) : P.dhSize = 16 := h.2.2.2.2.2.1
theorem Params.Wf.dha {P : Params} (h : P.Wf) : P.dhAlign = 8 := h.2.2.2.2.2.2.1
theorem Params.Wf.cella {P : Params} (h : P.Wf) : P.cellAlign = 8 := h.2.2.2.2.2.2.2.2.2.1

theorem Params.Wf.align_ok {P : Params} (h : P.Wf) (k : Kind) : AlignOk (P.align k) := by
  obtain ⟨_, _, _, _, _, _, _, _, _, _, _, hb, hbl, h1, h2, h3, h4, h5, h6⟩ := h
  cases k <;> simp only [Params.align] <;> first | assumption | (rw [hb]; exact Or.inl rfl) | (rw [hbl]; exact Or.inl rfl)

theorem Params.Wf.bool_align {P : Params} (h : P.Wf) : P.align .bool = 1 := h.2.2.2.2.2.2.2.2.2.2.2.1
theorem Params.Wf.blob_align {P : Params} (h : P.Wf) : P.align .blob = 1 := h.2.2.2.2.2.2.2.2.2.2.2.2.1

/-! ### one value -/

/-- a payload a value of kind `k` can have -/
def FitsKind (P : Params) (k : Kind) (p : Bytes) : Prop :=
  match k with
  | .blob => 2 * p.length < 128 ^ 10
  | .bool => p = [0] ∨ p = [1]
  | k => p.length = P.size k

instance (P : Params) (k : Kind) (p : Bytes) : Decidable (FitsKind P k p) := by
  unfold FitsKind; cases k <;> exact inferInstance

theorem deser_fixed (a n : Nat) (ha : AlignOk a) (p pre post : Bytes) (hp : p.length = n) :
    (match slice (pre ++ (padTo pre.length a ++ p) ++ post) (alignUp pre.length a) n with
      | .ok q => (.ok (q, alignUp pre.length a + n) : R (Bytes × Nat))
      | .error e => .error e)
    = .ok (p, pre.length + (padTo pre.length a ++ p).length) := by
  have h1 : pre ++ (padTo pre.length a ++ p) ++ post = (pre ++ padTo pre.length a) ++ p ++ post := by
    simp only [List.append_assoc]
  rw [h1, slice_append' _ _ _ _ _ (length_append_padTo pre ha).symm hp.symm]
  have := alignUp_ge (c := pre.length) ha
  simp only [List.length_append, padTo_length, hp]
  congr 2; omega

theorem deser_emitVal (P : Params) (hP : P.Wf) (k : Kind) (p : Bytes) (hf : FitsKind P k p) (pre post : Bytes) :
    deser P k (pre ++ emitVal P k pre.length p ++ post) pre.length
      = .ok (p, pre.length + (emitVal P k pre.length p).length) := by
  cases k
  case blob =>
    simp only [FitsKind] at hf
    simp only [deser, emitVal, hP.blob_align, padTo_one, List.nil_append, encPayload, maxVarint]
    have hlen : ¬ (pre ++ (leb 10 (2 * p.length) ++ p) ++ post).length < pre.length := by
      simp only [List.length_append]; omega
    rw [if_neg hlen]
    have hd : List.drop pre.length (pre ++ (leb 10 (2 * p.length) ++ p) ++ post) = leb 10 (2 * p.length) ++ (p ++ post) := by
      rw [List.append_assoc, List.drop_left, List.append_assoc]
    rw [hd, unleb_leb10 _ _ hf]
    simp only
    have h2 : ¬ (2 * p.length % 2 = 1) := by omega
    rw [if_neg h2]
    have h3 : ¬ ((pre ++ (leb 10 (2 * p.length) ++ p) ++ post).length - pre.length < (leb 10 (2 * p.length)).length + 2 * p.length / 2) := by
      simp only [List.length_append]; omega
    rw [if_neg h3]
    have hd2 : List.drop (pre.length + (leb 10 (2 * p.length)).length) (pre ++ (leb 10 (2 * p.length) ++ p) ++ post) = p ++ post := by
      have : pre ++ (leb 10 (2 * p.length) ++ p) ++ post = (pre ++ leb 10 (2 * p.length)) ++ (p ++ post) := by
        simp only [List.append_assoc]
      rw [this, ← List.length_append, List.drop_left]
    rw [hd2]
    have : 2 * p.length / 2 = p.length := by omega
    rw [this, List.take_left]
    simp only [List.length_append]
    congr 2; omega
  case bool =>
    simp only [FitsKind] at hf
    simp only [deser, emitVal, hP.bool_align, padTo_one, List.nil_append, encPayload]
    have key : ∀ b : UInt8, (b = 0 ∨ b = 1) →
        (if (pre ++ [b] ++ post).length < pre.length then (.error .panic : R (Bytes × Nat))
          else match (pre ++ [b] ++ post)[pre.length]? with
            | none => .error .err
            | some c => .ok ([if c = 0 then 0 else 1], pre.length + 1))
        = .ok ([b], pre.length + [b].length) := by
      intro b hb
      have hlen : ¬ (pre ++ [b] ++ post).length < pre.length := by
        simp only [List.length_append]; omega
      rw [if_neg hlen]
      have : (pre ++ [b] ++ post)[pre.length]? = some b := by simp
      rw [this]
      rcases hb with rfl | rfl <;> simp
    rcases hf with rfl | rfl
    · exact key 0 (Or.inl rfl)
    · exact key 1 (Or.inr rfl)
  all_goals
    simp only [FitsKind] at hf
    simp only [deser, emitVal, encPayload]
    exact deser_fixed _ _ (hP.align_ok _) p pre post hf

end AxVerif.Tuple
