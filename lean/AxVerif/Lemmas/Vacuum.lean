/-
  Helper lemmas for `Model/Vacuum.lean` (property C13): VACUUM preserves the invariant and the simulation relation of
  `Lemmas/Db.lean` / `Lemmas/DbSim.lean`.  Everything here is for `Defects.none`, `VDefects.none`.
-/
import AxVerif.Model.Vacuum
import AxVerif.Lemmas.DbHist
namespace AxVerif.Db
open AxVerif.Db

end AxVerif.Db
