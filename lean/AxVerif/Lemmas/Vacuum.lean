/-
  Helper lemmas for `Model/Vacuum.lean` (property C13): VACUUM preserves the invariant and the simulation relation of
  `Lemmas/Db.lean` / `Lemmas/DbSim.lean`.  Everything here is for `Defects.none` (`D0`) and `VDefects.none` (`V0`).
-/
import AxVerif.Model.Vacuum
import AxVerif.Lemmas.DbHist
namespace AxVerif.Db
open AxVerif.Db

abbrev V0 : VDefects := VDefects.none

/-! ### one row -/

theorem liveVersions_none (s : Snapshot) (r : Row) :
    liveVersions V0 s r = r.versions.filter (fun v => !s.aborted.contains v.creator) := by
  simp [liveVersions, V0, VDefects.none]

theorem deletedForVacuum_none (s : Snapshot) (r : Row) : deletedForVacuum V0 s r = r.deleters.any s.cb := by
  simp [deletedForVacuum, V0, VDefects.none]

theorem liveVersions_subset (V : VDefects) (s : Snapshot) (r : Row) : ∀ v ∈ liveVersions V s r, v ∈ r.versions := by
  intro v hv
  unfold liveVersions at hv
  split at hv
  · cases hrv : r.versions with
    | nil => rw [hrv] at hv; simp at hv
    | cons x tl =>
      rw [hrv] at hv
      dsimp only at hv
      split at hv
      · simp at hv
      · exact hv
  · exact (List.mem_filter.1 hv).1

/-- the row pass of the specification, unfolded -/
theorem Row.vacuum_none (s : Snapshot) (h : Nat) (r : Row) :
    r.vacuum V0 s h =
      if (r.versions.filter (fun v => !s.aborted.contains v.creator)).isEmpty then none
      else if r.deleters.any s.cb then none
      else some { r with versions := trimChain h (r.versions.filter (fun v => !s.aborted.contains v.creator)),
                         deleters := r.deleters.filter (fun d => !s.aborted.contains d) } := by
  simp only [Row.vacuum, liveVersions_none, deletedForVacuum_none]

theorem trimTail_sublist (h : Nat) : ∀ (kept : Bool) (l : List Version), (trimTail h kept l).Sublist l
  | _, [] => List.Sublist.refl _
  | kept, w :: ws => by
    unfold trimTail
    split
    · exact List.Sublist.cons_cons _ (trimTail_sublist h _ ws)
    · exact List.nil_sublist _

theorem trimChain_sublist (h : Nat) (l : List Version) : (trimChain h l).Sublist l := by
  cases l with
  | nil => exact List.Sublist.refl _
  | cons v tl => exact List.Sublist.cons_cons _ (trimTail_sublist h _ tl)

theorem trimChain_subset (h : Nat) (vs : List Version) : ∀ v ∈ trimChain h vs, v ∈ vs :=
  fun _ hv => (trimChain_sublist h vs).subset hv

/-- number of versions older than the horizon -/
def belowCount (h : Nat) (l : List Version) : Nat := (l.filter (fun w => decide (w.creator < h))).length

/-- below the head `vaccum_with` keeps at most one version older than the horizon, and none if a newer kept version is
    already older than the horizon -/
theorem belowCount_trimTail (h : Nat) : ∀ (kept : Bool) (l : List Version),
    belowCount h (trimTail h kept l) ≤ if kept then 0 else 1
  | _, [] => by simp [trimTail, belowCount]
  | kept, w :: ws => by
    unfold trimTail
    by_cases hge : h ≤ w.creator
    · have hnb : ¬ w.creator < h := by omega
      have ih := belowCount_trimTail h (kept || decide (w.creator < h)) ws
      simp only [hge, decide_true, Bool.true_or, if_true]
      simp only [hnb, decide_false, Bool.or_false] at ih ⊢
      unfold belowCount at ih ⊢
      simp only [List.filter_cons, hnb, decide_false, Bool.false_eq_true, if_false]
      exact ih
    · have hb : w.creator < h := by omega
      cases kept with
      | true => simp [hge, belowCount]
      | false =>
        have ih := belowCount_trimTail h (false || decide (w.creator < h)) ws
        simp only [hb, decide_true, Bool.or_true, if_true] at ih
        simp only [hge, decide_false, Bool.not_false, Bool.or_true, if_true, Bool.false_eq_true, if_false]
        unfold belowCount at ih ⊢
        simp only [List.filter_cons, hb, decide_true, if_true, List.length_cons]
        simp only [Bool.false_or] at ih ⊢
        omega

theorem belowCount_trimChain (h : Nat) (l : List Version) : belowCount h (trimChain h l) ≤ 1 := by
  cases l with
  | nil => simp [trimChain, belowCount]
  | cons v tl =>
    have ih := belowCount_trimTail h (decide (v.creator < h)) tl
    unfold trimChain belowCount at *
    simp only [List.filter_cons]
    by_cases hb : v.creator < h
    · simp only [hb, decide_true, if_true, List.length_cons] at ih ⊢
      omega
    · simp only [hb, decide_false, Bool.false_eq_true, if_false] at ih ⊢
      exact ih

theorem trimChain_head (h : Nat) (vs : List Version) : (trimChain h vs).head? = vs.head? := by
  cases vs <;> rfl

/-- what survives of a row carries the same id and table and a subset of the stamps -/
theorem Row.vacuum_some {V : VDefects} {s : Snapshot} {h : Nat} {r r' : Row} (hv : r.vacuum V s h = some r') :
    r'.rid = r.rid ∧ r'.table = r.table ∧ (∀ v ∈ r'.versions, v ∈ r.versions) ∧ (∀ d ∈ r'.deleters, d ∈ r.deleters) ∧
      r'.versions = trimChain h (liveVersions V s r) ∧ r'.deleters = r.deleters.filter (fun d => !s.aborted.contains d) ∧
      (liveVersions V s r).isEmpty = false ∧ deletedForVacuum V s r = false := by
  unfold Row.vacuum at hv
  by_cases h1 : (liveVersions V s r).isEmpty = true
  · simp [h1] at hv
  · by_cases h2 : deletedForVacuum V s r = true
    · simp [h1, h2] at hv
    · simp only [h1, h2, Bool.false_eq_true, if_false, Option.some.injEq] at hv
      subst hv
      refine ⟨rfl, rfl, ?_, ?_, rfl, rfl, by simpa using h1, by simpa using h2⟩
      · intro v hv
        exact liveVersions_subset V s r v (trimChain_subset _ _ v hv)
      · intro d hd
        exact (List.mem_filter.1 hd).1

theorem Row.vacuum_owners {V : VDefects} {s : Snapshot} {h : Nat} {r r' : Row} (hv : r.vacuum V s h = some r') :
    ∀ u ∈ r'.owners, u ∈ r.owners := by
  obtain ⟨_, _, h1, h2, _⟩ := Row.vacuum_some hv
  intro u hu
  simp only [Row.owners, List.mem_append, List.mem_map] at hu ⊢
  rcases hu with ⟨v, hv', rfl⟩ | hd
  · exact Or.inl ⟨v, h1 v hv', rfl⟩
  · exact Or.inr (h2 u hd)

/-- **One row.**  `s` = the vacuum transaction's snapshot.  For a snapshot `S` that sees, among the row's stamps, exactly
    the transactions `s` counts as committed, and when every stamp that `s` does not count as committed is in `s`'s aborted
    set (no transaction is active), the row reads the same before and after the row pass; a removed row reads `none`. -/
theorem Row.vacuum_view (s S : Snapshot) (h : Nat) (r : Row)
    (hS : ∀ u ∈ r.owners, S.sees u = s.cb u)
    (hab : ∀ u ∈ r.owners, s.aborted.contains u = !s.cb u) :
    (r.vacuum V0 s h).bind (Row.toARow D0 S) = r.toARow D0 S := by
  have hver : ∀ v ∈ r.versions, v.creator ∈ r.owners := fun v hv => by
    simp only [Row.owners, List.mem_append, List.mem_map]; exact Or.inl ⟨v, hv, rfl⟩
  have hdel : ∀ d ∈ r.deleters, d ∈ r.owners := fun d hd => by
    simp only [Row.owners, List.mem_append]; exact Or.inr hd
  have hfil : r.versions.filter (fun v => !s.aborted.contains v.creator) = r.versions.filter (fun v => S.sees v.creator) := by
    apply List.filter_congr
    intro v hv
    rw [hab _ (hver v hv), hS _ (hver v hv)]; simp
  have hany : r.deleters.any s.cb = r.deleters.any S.sees :=
    any_congr_mem _ (fun d hd => (hS d (hdel d hd)).symm)
  rw [Row.vacuum_none, hfil, hany]
  simp only [Row.toARow]
  rw [rowVisible_none]
  cases hvs : r.versions.filter (fun v => S.sees v.creator) with
  | nil =>
    have : r.versions.find? (fun v => S.sees v.creator) = none := by
      rw [← List.head?_filter, hvs]; rfl
    simp [this]
  | cons v tl =>
    have hfind : r.versions.find? (fun v => S.sees v.creator) = some v := by
      rw [← List.head?_filter, hvs]; rfl
    have hvsees : S.sees v.creator = true := by
      have : v ∈ r.versions.filter (fun v => S.sees v.creator) := by rw [hvs]; exact List.mem_cons_self ..
      exact (List.mem_filter.1 this).2
    cases hd : r.deleters.any S.sees with
    | true => simp
    | false =>
      simp only [List.isEmpty_cons, Bool.false_eq_true, if_false, Option.bind_some]
      unfold Row.toARow
      rw [rowVisible_none]
      have hd' : (r.deleters.filter (fun d => !s.aborted.contains d)).any S.sees = false := by
        rw [List.any_filter]
        apply Bool.eq_false_iff.2
        intro hc
        obtain ⟨d, hdm, hdd⟩ := List.any_eq_true.1 hc
        have : r.deleters.any S.sees = true := List.any_eq_true.2 ⟨d, hdm, by simp at hdd; exact hdd.2⟩
        rw [hd] at this; cases this
      simp only [hd', Bool.false_eq_true, if_false, hfind, trimChain, List.find?_cons, hvsees, Option.map_some]

/-! ### abort everything -/

/-- what `abort_all` does to one entry -/
def killTxn (t : Txn) : Txn := if t.status = .active then { t with status := .aborted } else t

theorem abortAll_eq (txns : List Txn) : abortAll txns = txns.map killTxn := rfl

theorem killTxn_fields (t : Txn) :
    (killTxn t).snap = t.snap ∧ (killTxn t).startTs = t.startTs ∧ (killTxn t).ws = t.ws ∧
    ((killTxn t).status = .committed ↔ t.status = .committed) ∧ (killTxn t).status ≠ .active := by
  unfold killTxn
  by_cases h : t.status = .active
  · simp [h]
  · simp [h]

theorem getElem?_abortAll {txns : List Txn} {i : Nat} {t' : Txn} :
    (abortAll txns)[i]? = some t' ↔ ∃ t, txns[i]? = some t ∧ t' = killTxn t := by
  rw [abortAll_eq, List.getElem?_map]
  cases txns[i]? with
  | none => simp
  | some t => simp [eq_comm]

/-- `abort_all` + the end of every session -/
def State.killAll (σ : State) : State := { σ with txns := abortAll σ.txns, sessions := [] }

theorem killAll_committed (σ : State) (u : Nat) : (σ.killAll).isCommitted u ↔ σ.isCommitted u := by
  simp only [State.isCommitted, State.killAll]
  constructor
  · rintro ⟨t', h1, h2⟩
    obtain ⟨t, ht, rfl⟩ := getElem?_abortAll.1 h1
    exact ⟨t, ht, (killTxn_fields t).2.2.2.1.1 h2⟩
  · rintro ⟨t, ht, h2⟩
    exact ⟨killTxn t, getElem?_abortAll.2 ⟨t, ht, rfl⟩, (killTxn_fields t).2.2.2.1.2 h2⟩

theorem killAll_no_active (σ : State) (u : Nat) (t : Txn) (h : (σ.killAll).txns[u]? = some t) : t.status ≠ .active := by
  obtain ⟨t0, _, rfl⟩ := getElem?_abortAll.1 h
  exact (killTxn_fields t0).2.2.2.2

theorem CInv.killAll (σ : State) (h : CInv σ) : CInv σ.killAll := by
  simp only [State.killAll]
  constructor
  · intro i t' hi
    obtain ⟨t, ht, rfl⟩ := getElem?_abortAll.1 hi
    rw [(killTxn_fields t).1]; exact h.xid i t ht
  · simpa [abortAll] using h.lc_bound
  · intro u t' hu hst
    obtain ⟨t, ht, rfl⟩ := getElem?_abortAll.1 hu
    exact h.lc_max u t ht ((killTxn_fields t).2.2.2.1.1 hst)
  · intro e he
    obtain ⟨t, h1, h2, h3⟩ := h.clog_comm e he
    refine ⟨killTxn t, getElem?_abortAll.2 ⟨t, h1, rfl⟩, (killTxn_fields t).2.2.2.1.2 h2, ?_⟩
    rw [(killTxn_fields t).2.2.1]; exact h3
  · intro u t' hu hst
    obtain ⟨t, ht, rfl⟩ := getElem?_abortAll.1 hu
    exact h.comm_clog u t ht ((killTxn_fields t).2.2.2.1.1 hst)
  · intro i t' hi
    obtain ⟨t, ht, rfl⟩ := getElem?_abortAll.1 hi
    rw [(killTxn_fields t).2.1]; exact h.start_le i t ht
  · intro i t' hi u hu
    obtain ⟨t, ht, rfl⟩ := getElem?_abortAll.1 hi
    rw [(killTxn_fields t).1, (killTxn_fields t).2.1]; exact h.snap_clog i t ht u hu
  · intro i j ei ej hij hi hj hov
    obtain ⟨t, h1, h2⟩ := h.fcw i j ei ej hij hi hj hov
    exact ⟨killTxn t, getElem?_abortAll.2 ⟨t, h1, rfl⟩, by rw [(killTxn_fields t).2.1]; exact h2⟩

theorem SInv.killAll (σ : State) (j : Nat) (h : SInv σ j) : SInv σ.killAll j := by
  refine ⟨?_, h.sorted, h.bound⟩
  intro r hr u hu
  obtain ⟨t, h1, h2⟩ := h.stamps r hr u hu
  exact ⟨killTxn t, getElem?_abortAll.2 ⟨t, h1, rfl⟩, by rw [(killTxn_fields t).2.2.1]; exact h2⟩

theorem killAll_length (σ : State) : σ.killAll.txns.length = σ.txns.length := by simp [State.killAll, abortAll]

theorem Core.killAll (σ : State) (α : Spec.State) (j : Nat) (h : Core σ α j) : Core σ.killAll α j := by
  have hc1 := CInv.killAll σ h.cinv
  refine ⟨hc1, SInv.killAll σ j h.sinv, h.cat, h.clock, ?_, h.log⟩
  show view D0 (σ.killAll.freshSnap D0) σ.rows = α.committed
  rw [← h.committed]
  symm
  apply view_fresh_eq σ _ h.cinv hc1
  · intro r hr u hu
    have := owners_lt σ j h.sinv r hr u hu
    rw [killAll_length]; omega
  · intro u; exact (killAll_committed σ u).symm

/-! ### the vacuum snapshot -/

/-- facts about a snapshot taken when no transaction is active (`sV` = the vacuum transaction's snapshot) -/
theorem quiet_snapshot (σ1 : State) (hc : CInv σ1) (hna : ∀ (u : Nat) (t : Txn), σ1.txns[u]? = some t → t.status ≠ Status.active)
    (u : Nat) (hu : u < σ1.txns.length) :
    ((σ1.freshSnap D0).cb u = true ↔ σ1.isCommitted u) ∧
    (σ1.freshSnap D0).aborted.contains u = !(σ1.freshSnap D0).cb u ∧
    (σ1.freshSnap D0).sees u = (σ1.freshSnap D0).cb u := by
  have hne : u ≠ σ1.txns.length := by omega
  have h1 := fresh_cb σ1 hc u hne
  refine ⟨h1, ?_, ?_⟩
  · have hget : σ1.txns[u]? = some σ1.txns[u] := List.getElem?_eq_getElem hu
    have hmem : (σ1.freshSnap D0).aborted.contains u = true ↔ σ1.txns[u].status = .aborted := by
      rw [freshSnap_none]
      simp only [List.contains_eq_mem, decide_eq_true_eq, mem_idsWith0]
      constructor
      · rintro ⟨t, ht, hs⟩
        rw [hget] at ht; cases ht; exact hs
      · intro hs; exact ⟨_, hget, hs⟩
    cases hst : σ1.txns[u].status with
    | active => exact ((hna u _ hget) hst).elim
    | committed =>
      have hcb : (σ1.freshSnap D0).cb u = true := h1.2 ⟨_, hget, hst⟩
      have : (σ1.freshSnap D0).aborted.contains u = false := by
        apply Bool.eq_false_iff.2
        intro hc'
        have := hmem.1 hc'
        rw [hst] at this; cases this
      rw [this, hcb]; rfl
    | aborted =>
      have hcb : (σ1.freshSnap D0).cb u = false := by
        apply Bool.eq_false_iff.2
        intro hc'
        obtain ⟨t, ht, hs⟩ := h1.1 hc'
        rw [hget] at ht; cases ht
        rw [hst] at hs; cases hs
      rw [hmem.2 hst, hcb]; rfl
  · have hx : (σ1.freshSnap D0).xid = σ1.txns.length := by rw [freshSnap_none]
    simp [Snapshot.sees, hx, hne]

/-! ### the frame: abort everything, one transaction around a change of the stored rows -/

theorem beginTxn_eq (σ : State) :
    σ.beginTxn D0 = ({ σ with txns := σ.txns ++ [⟨σ.freshSnap D0, .active, [], σ.clog.length⟩] }, σ.txns.length) := rfl

theorem frame_rel (σ : State) (α : Spec.State) (h : Rel σ α) (clean : Snapshot → Nat → List Row → List Row)
    (cix : Snapshot → Index → Index)
    (hsub : ∀ s hz rows, ∀ r' ∈ clean s hz rows, ∃ r ∈ rows, r'.rid = r.rid ∧ ∀ u ∈ r'.owners, u ∈ r.owners)
    (hsorted : ∀ s hz (rows : List Row), rows.Pairwise (fun a b => ridLt a.rid b.rid) →
      (clean s hz rows).Pairwise (fun a b => ridLt a.rid b.rid))
    (hview : ∀ s hz rows S,
      (∀ r ∈ rows, ∀ u ∈ r.owners, S.sees u = s.cb u ∧ s.aborted.contains u = !s.cb u) →
      view D0 S (clean s hz rows) = view D0 S rows) :
    Rel (σ.vacuumWith D0 false clean (fun _ txns => txns) cix) α.quiesce := by
  -- σ1: everything aborted
  have c1 : Core σ.killAll α 0 := Core.killAll σ α 0 h.core
  have hna := killAll_no_active σ
  -- σ2: the vacuum transaction has begun
  obtain ⟨c2, _, tx2, _⟩ := begin_core σ.killAll α 0 c1
  rw [beginTxn_eq] at c2 tx2
  generalize hσ2 : ({ σ.killAll with txns := σ.killAll.txns ++ [⟨σ.killAll.freshSnap D0, .active, [], σ.killAll.clog.length⟩] } : State) = σ2 at c2 tx2
  have hσ2rows : σ2.rows = σ.rows := by rw [← hσ2]; rfl
  have hσ2txns : σ2.txns = σ.killAll.txns ++ [⟨σ.killAll.freshSnap D0, .active, [], σ.killAll.clog.length⟩] := by rw [← hσ2]
  have hσ2sess : σ2.sessions = [] := by rw [← hσ2]; rfl
  have hσ2lc : σ2.lastCommitted = σ.lastCommitted := by rw [← hσ2]; rfl
  have hσ2clock : σ2.clock = σ.clock := by rw [← hσ2]; rfl
  let vt := σ.killAll.txns.length
  let sV := σ.killAll.freshSnap D0
  have hsnap : σ2.snapOf vt = sV := by
    unfold State.snapOf
    rw [hσ2txns]
    simp [vt, sV]
  -- the stamps of the stored rows
  have hown : ∀ r ∈ σ2.rows, ∀ u ∈ r.owners, u < σ.killAll.txns.length := by
    intro r hr u hu
    rw [hσ2rows] at hr
    have := owners_lt σ 0 h.core.sinv r hr u hu
    rw [killAll_length]; exact this
  have hq := fun u hu => quiet_snapshot σ.killAll c1.cinv hna u hu
  -- σ3: the rows are cleaned
  generalize hr' : clean (σ2.snapOf vt) σ2.lastCommitted σ2.rows = rows'
  have hr'' : rows' = clean sV σ2.lastCommitted σ2.rows := by rw [← hr', hsnap]
  have hS3 : SInvF rows' σ2.txns σ2.clock 0 := by
    rw [hr'']
    refine ⟨?_, hsorted _ _ _ c2.sinv.sorted, ?_⟩
    · intro r' hr' u hu
      obtain ⟨r, hr, _, hsubo⟩ := hsub _ _ _ r' hr'
      obtain ⟨t, h1, h2⟩ := c2.sinv.stamps r hr u (hsubo u hu)
      obtain ⟨r0, hr0, hrid, _⟩ := hsub _ _ _ r' hr'
      exact ⟨t, h1, by
        obtain ⟨r1, hr1, hrid1, hsub1⟩ := hsub _ _ _ r' hr'
        obtain ⟨t', h1', h2'⟩ := c2.sinv.stamps r1 hr1 u (hsub1 u hu)
        rw [h1] at h1'; cases h1'
        rw [hrid1]; exact h2'⟩
    · intro r' hr'
      obtain ⟨r, hr, hrid, _⟩ := hsub _ _ _ r' hr'
      rw [hrid]; exact c2.sinv.bound r hr
  have hv3 : ∀ S, (∀ r ∈ σ2.rows, ∀ u ∈ r.owners, S.sees u = sV.cb u) → view D0 S rows' = view D0 S σ2.rows := by
    intro S hS
    rw [hr'']
    apply hview
    intro r hr u hu
    exact ⟨hS r hr u hu, (hq u (hown r hr u hu)).2.1⟩
  generalize hσ3 : ({ σ2 with rows := rows', txns := σ2.txns, index := cix (σ2.snapOf vt) σ2.index } : State) = σ3
  have hfresh3 : σ3.freshSnap D0 = σ2.freshSnap D0 := by rw [← hσ3]; rfl
  have c3 : Core σ3 α 0 := by
    rw [← hσ3]
    refine ⟨c2.cinv, hS3, c2.cat, c2.clock, ?_, c2.log⟩
    show view D0 (σ2.freshSnap D0) rows' = α.committed
    rw [← c2.committed]
    apply hv3
    intro r hr u hu
    have hult := hown r hr u hu
    apply bool_eq_of_iff
    have hlt2 : u < σ2.txns.length := by rw [hσ2txns]; simp; omega
    rw [fresh_sees σ2 c2.cinv u hlt2, (hq u hult).1]
    simp only [State.isCommitted, hσ2txns]
    constructor
    · rintro ⟨t, h1, h2⟩
      rcases getElem?_snoc.1 h1 with h1' | ⟨_, h1'⟩
      · exact ⟨t, h1', h2⟩
      · subst h1'; cases h2
    · rintro ⟨t, h1, h2⟩; exact ⟨t, getElem?_snoc.2 (Or.inl h1), h2⟩
  have tx3 : TxRel σ3 vt α.beginTxn := by
    obtain ⟨t, ht, hact, hvw, hws, hst⟩ := tx2
    refine ⟨t, by rw [← hσ3]; exact ht, hact, ?_, hws, hst⟩
    have htsnap : t.snap = sV := by
      have := hsnap
      unfold State.snapOf at this
      rw [show σ2.txns[vt]? = some t from ht] at this
      exact this
    rw [← hvw, ← hσ3]
    show view D0 t.snap rows' = view D0 t.snap σ2.rows
    rw [htsnap]
    apply hv3
    intro r hr u hu
    exact (hq u (hown r hr u hu)).2.2
  -- σ5: the vacuum transaction commits
  obtain ⟨_, c5, _⟩ := commit_core σ3 α 0 c3 vt α.beginTxn tx3
  rw [spec_tick] at c5
  -- assemble
  have hunf : σ.vacuumWith D0 false clean (fun _ txns => txns) cix =
      { (σ3.commitTxn vt).1 with clock := (σ3.commitTxn vt).1.clock + 1 } := by
    subst hσ3
    subst hr'
    subst hσ2
    rfl
  rw [hunf]
  unfold Rel
  have hsess5 : (σ3.commitTxn vt).1.sessions = [] := by
    rw [commitTxn_sessions, ← hσ3]; exact hσ2sess
  refine ⟨⟨c5.cinv, ⟨c5.sinv.stamps, c5.sinv.sorted, ?_⟩, c5.cat, ?_, c5.committed, c5.log⟩, ?_, ?_, ?_⟩
  · intro row hrow
    have := c5.sinv.bound row hrow
    unfold ridLt at *; simp only at *; omega
  · show (σ3.commitTxn vt).1.clock + 1 = α.clock + 1
    have := c5.clock
    simp only at this
    rw [this]
  · intro name tid hn
    simp [lkS, hsess5, lookup] at hn
  · intro name _
    simp [lkA, Spec.State.quiesce, lookup]
  · intro n1 n2 tid hn
    simp [lkS, hsess5, lookup] at hn

/-! ### reopen and VACUUM keep the simulation relation -/

theorem quiesce_rel (σ : State) (α : Spec.State) (h : Rel σ α) : Rel (σ.quiesce D0) α.quiesce := by
  unfold State.quiesce
  apply frame_rel σ α h
  · intro s hz rows r' hr'; exact ⟨r', hr', rfl, fun u hu => hu⟩
  · intro s hz rows hp; exact hp
  · intro s hz rows S _; rfl

theorem mem_vacuumRows {V : VDefects} {s : Snapshot} {h : Nat} {rows : List Row} {r' : Row} :
    r' ∈ vacuumRows V s h rows ↔ ∃ r ∈ rows, r.vacuum V s h = some r' := by
  simp [vacuumRows, List.mem_filterMap]

theorem vacuumRows_sorted (V : VDefects) (s : Snapshot) (h : Nat) (rows : List Row)
    (hp : rows.Pairwise (fun a b => ridLt a.rid b.rid)) :
    (vacuumRows V s h rows).Pairwise (fun a b => ridLt a.rid b.rid) := by
  unfold vacuumRows
  apply List.Pairwise.filterMap _ _ hp
  intro a a' haa b hb b' hb'
  rw [(Row.vacuum_some hb).1, (Row.vacuum_some hb').1]; exact haa

/-- **All rows.**  Under the hypotheses of `Row.vacuum_view` for every row, the whole store reads the same -/
theorem vacuumRows_view (s S : Snapshot) (h : Nat) (rows : List Row)
    (hS : ∀ r ∈ rows, ∀ u ∈ r.owners, S.sees u = s.cb u ∧ s.aborted.contains u = !s.cb u) :
    view D0 S (vacuumRows V0 s h rows) = view D0 S rows := by
  unfold view vacuumRows
  rw [List.filterMap_filterMap]
  apply filterMap_congr_mem
  intro r hr
  exact Row.vacuum_view s S h r (fun u hu => (hS r hr u hu).1) (fun u hu => (hS r hr u hu).2)

theorem vacuum_eq_frame (σ : State) :
    σ.vacuum D0 V0 = σ.vacuumWith D0 false (vacuumRows V0) (fun _ txns => txns) (vacuumIndex V0) := rfl

theorem vacuum_rel (σ : State) (α : Spec.State) (h : Rel σ α) : Rel (σ.vacuum D0 V0) α.quiesce := by
  rw [vacuum_eq_frame]
  apply frame_rel σ α h
  · intro s hz rows r' hr'
    obtain ⟨r, hr, hv⟩ := mem_vacuumRows.1 hr'
    exact ⟨r, hr, (Row.vacuum_some hv).1, Row.vacuum_owners hv⟩
  · intro s hz rows hp; exact vacuumRows_sorted V0 s hz rows hp
  · intro s hz rows S hS; exact vacuumRows_view s S hz rows hS

/-! ### histories with VACUUM and reopen -/

/-- the relation for the machine with VACUUM: the database states are related and no session is marked killed -/
def VRel (τ : VState) (α : Spec.State) : Prop := Rel τ.db α ∧ τ.killed = []

theorem vstep_ok (τ : VState) (α : Spec.State) (h : VRel τ α) (o : VOp) :
    (vstep D0 V0 τ o).2 = .out (Spec.vstep α o).2 ∧ VRel (vstep D0 V0 τ o).1 (Spec.vstep α o).1 := by
  obtain ⟨hr, hk⟩ := h
  cases o with
  | vacuum =>
    refine ⟨rfl, ?_, ?_⟩
    · exact vacuum_rel τ.db α hr
    · show (if V0.vacuumLeavesSessionsOpen = true then τ.db.sessions.map (·.1) ++ τ.killed else τ.killed) = []
      simp [V0, VDefects.none, hk]
  | reopen => exact ⟨rfl, quiesce_rel τ.db α hr, rfl⟩
  | op o =>
    obtain ⟨ho, hr'⟩ := step_ok τ.db α hr o
    have hplain : vstep D0 V0 τ (.op o) = ({ τ with db := (step D0 τ.db o).1 }, .out (step D0 τ.db o).2) ∨
        vstep D0 V0 τ (.op o) = ({ db := (step D0 τ.db o).1, killed := [] }, .out (step D0 τ.db o).2) := by
      cases o <;> simp [vstep, hk]
    rcases hplain with e | e
    · rw [e]; exact ⟨by simp only [Spec.vstep]; rw [ho], by simpa [Spec.vstep] using hr', hk⟩
    · rw [e]; exact ⟨by simp only [Spec.vstep]; rw [ho], by simpa [Spec.vstep] using hr', rfl⟩

theorem vinit_rel (cat : Catalog) : VRel (VState.init cat) (Spec.State.init cat) := ⟨init_rel cat, rfl⟩

theorem vrunFrom_ok : ∀ (ops : List VOp) (τ : VState) (α : Spec.State), VRel τ α →
    vrunFrom D0 V0 τ ops = (Spec.vouts α ops).map VOut.out ∧ VRel (vfinal D0 V0 τ ops) (Spec.vfinal α ops)
  | [], _, _, h => ⟨rfl, h⟩
  | o :: os, τ, α, h => by
    obtain ⟨ho, hr⟩ := vstep_ok τ α h o
    obtain ⟨h1, h2⟩ := vrunFrom_ok os _ _ hr
    simp only [vrunFrom, Spec.vouts, vfinal, Spec.vfinal, List.map_cons]
    exact ⟨by rw [ho, h1], h2⟩

/-- every state reachable by a history with VACUUM and reopen is related to the abstract state of that history -/
theorem vreach_rel (cat : Catalog) (ops : List VOp) :
    VRel (vfinal D0 V0 (VState.init cat) ops) (Spec.vfinal (Spec.State.init cat) ops) :=
  (vrunFrom_ok ops _ _ (vinit_rel cat)).2

/-! ### finished transactions stay what they are -/

/-- every transaction that is finished (committed or aborted) in `σ` has the same status in `σ'` -/
def FinishedSame (σ σ' : State) : Prop :=
  ∀ (u : Nat) (t : Txn), σ.txns[u]? = some t → t.status ≠ Status.active → ∃ t', σ'.txns[u]? = some t' ∧ t'.status = t.status

/-- every transaction of `σ` has the same status in `σ'` -/
def SameStatus (σ σ' : State) : Prop :=
  ∀ (u : Nat) (t : Txn), σ.txns[u]? = some t → ∃ t', σ'.txns[u]? = some t' ∧ t'.status = t.status

theorem FinishedSame.refl (σ : State) : FinishedSame σ σ := fun _ t h _ => ⟨t, h, rfl⟩

theorem FinishedSame.trans {a b c : State} (h1 : FinishedSame a b) (h2 : FinishedSame b c) : FinishedSame a c := by
  intro u t ht hna
  obtain ⟨t1, g1, g2⟩ := h1 u t ht hna
  obtain ⟨t2, g3, g4⟩ := h2 u t1 g1 (by rw [g2]; exact hna)
  exact ⟨t2, g3, by rw [g4, g2]⟩

theorem SameStatus.finished {a b : State} (h : SameStatus a b) : FinishedSame a b := fun u t ht _ => h u t ht

theorem SameStatus.refl (σ : State) : SameStatus σ σ := fun _ t h => ⟨t, h, rfl⟩

theorem SameStatus.trans {a b c : State} (h1 : SameStatus a b) (h2 : SameStatus b c) : SameStatus a c := by
  intro u t ht
  obtain ⟨t1, g1, g2⟩ := h1 u t ht
  obtain ⟨t2, g3, g4⟩ := h2 u t1 g1
  exact ⟨t2, g3, by rw [g4, g2]⟩

theorem FinishedSame.of_txns {σ σ' : State} (h : σ'.txns = σ.txns) : FinishedSame σ σ' := by
  intro u t ht _; exact ⟨t, by rw [h]; exact ht, rfl⟩

theorem sameStatus_begin (σ : State) : SameStatus σ (σ.beginTxn D0).1 := by
  intro u t ht
  exact ⟨t, getElem?_snoc.2 (Or.inl ht), rfl⟩

/-- changing the status of a transaction that is active (or does not exist) leaves the finished ones alone -/
theorem finishedSame_setStatus (σ : State) (tid : Nat) (st : Status) (lc : Nat) (cl : List (Nat × List Rid))
    (hact : ∀ t, σ.txns[tid]? = some t → t.status = Status.active) :
    FinishedSame σ { σ with txns := setStatus σ.txns tid st, lastCommitted := lc, clog := cl } := by
  intro u t ht hna
  have hne : tid ≠ u := by
    intro e; subst e; exact hna (hact t ht)
  exact ⟨t, setStatus_get_other ht hne, rfl⟩

theorem finishedSame_abort (σ : State) (tid : Nat) (hact : ∀ t, σ.txns[tid]? = some t → t.status = Status.active) :
    FinishedSame σ (σ.abortTxn tid) :=
  finishedSame_setStatus σ tid .aborted σ.lastCommitted σ.clog hact

theorem finishedSame_commit (σ : State) (tid : Nat) (hact : ∀ t, σ.txns[tid]? = some t → t.status = Status.active) :
    FinishedSame σ (σ.commitTxn tid).1 := by
  unfold State.commitTxn
  split
  · exact FinishedSame.refl σ
  · split
    · exact finishedSame_setStatus σ tid .aborted σ.lastCommitted σ.clog hact
    · exact finishedSame_setStatus σ tid .committed _ _ hact

theorem finishedSame_commitC (σ : State) (tid : Nat) (hact : ∀ t, σ.txns[tid]? = some t → t.status = Status.active) :
    FinishedSame σ (σ.commitC D0 tid).1 := by
  unfold State.commitC
  split
  · split
    · exact finishedSame_abort σ tid hact
    · exact finishedSame_commit σ tid hact
  · exact finishedSame_commit σ tid hact

theorem sameStatus_write (σ : State) (tid : Nat) (es : List Effect) : SameStatus σ (σ.write D0 tid es) := by
  rw [write_none]
  intro u t ht
  obtain ⟨t', h1, _, _, h2, _⟩ := modify_ws_get (tid := tid) (w := es.map Effect.rid) ht
  exact ⟨t', h1, h2⟩

theorem sameStatus_stmt (σ : State) (tid j : Nat) (st : Stmt) : SameStatus σ (σ.stmt D0 tid j st).1 := by
  rw [stmt_none]
  split
  · exact SameStatus.refl σ
  · exact sameStatus_write σ tid _

theorem sameStatus_batch (tid : Nat) : ∀ (sts : List Stmt) (σ : State) (j : Nat), SameStatus σ (State.batch D0 σ tid j sts).1
  | [], σ, j => SameStatus.refl σ
  | st :: sts, σ, j => by
    simp only [State.batch]
    cases ho : (σ.stmt D0 tid j st).2.out with
    | err e => dsimp only; exact sameStatus_stmt σ tid j st
    | okN n => dsimp only; exact (sameStatus_stmt σ tid j st).trans (sameStatus_batch tid sts _ _)
    | rows rs => dsimp only; exact (sameStatus_stmt σ tid j st).trans (sameStatus_batch tid sts _ _)

theorem endSession_txns (σ : State) (s : String) : (σ.endSession s).txns = σ.txns := rfl

/-- the new transaction of `beginTxn` is active, and still is after statements -/
theorem new_txn_active (σ σ' : State) (hs : SameStatus (σ.beginTxn D0).1 σ') :
    ∀ t, σ'.txns[σ.txns.length]? = some t → t.status = Status.active := by
  intro t ht
  have h0 : (σ.beginTxn D0).1.txns[σ.txns.length]? = some ⟨σ.freshSnap D0, .active, [], σ.clog.length⟩ := by
    simp [State.beginTxn]
  obtain ⟨t', h1, h2⟩ := hs _ _ h0
  rw [ht] at h1; cases h1
  exact h2

/-- the transaction of a session is active -/
theorem session_active {σ : State} {α : Spec.State} (h : Rel σ α) {s : String} {tid : Nat}
    (hl : lookup s σ.sessions = some tid) : ∀ t, σ.txns[tid]? = some t → t.status = Status.active := by
  obtain ⟨a, _, t0, ht0, hact, _⟩ := h.sess s tid hl
  intro t ht
  rw [ht0] at ht; cases ht; exact hact

/-- **one operation**: a finished transaction keeps its status -/
theorem stepCore_finished (σ : State) (α : Spec.State) (h : Rel σ α) (op : Op) : FinishedSame σ (stepCore D0 σ op).1 := by
  cases op with
  | begin s =>
    simp only [stepCore]
    cases hl : lookup s σ.sessions with
    | none => exact (sameStatus_begin σ).finished
    | some old =>
      dsimp only
      have h1 : FinishedSame σ ((σ.abortTxn old).endSession s) := finishedSame_abort σ old (session_active h hl)
      exact h1.trans (sameStatus_begin _).finished
  | commit s =>
    simp only [stepCore]
    cases hl : lookup s σ.sessions with
    | none => exact FinishedSame.refl σ
    | some tid => exact finishedSame_commitC σ tid (session_active h hl)
  | rollback s =>
    simp only [stepCore]
    cases hl : lookup s σ.sessions with
    | none => exact FinishedSame.refl σ
    | some tid => exact finishedSame_abort σ tid (session_active h hl)
  | drop s =>
    simp only [stepCore]
    cases hl : lookup s σ.sessions with
    | none => exact FinishedSame.refl σ
    | some tid => exact finishedSame_abort σ tid (session_active h hl)
  | exec s st =>
    simp only [stepCore]
    cases hl : lookup s σ.sessions with
    | none => exact FinishedSame.refl σ
    | some tid => exact (sameStatus_stmt σ tid 0 st).finished
  | auto st =>
    simp only [stepCore]
    have hb := sameStatus_begin σ
    have hs := sameStatus_stmt (σ.beginTxn D0).1 (σ.beginTxn D0).2 0 st
    have hact := new_txn_active σ _ hs
    have h12 : FinishedSame σ ((σ.beginTxn D0).1.stmt D0 (σ.beginTxn D0).2 0 st).1 := (hb.trans hs).finished
    split
    · exact h12.trans (finishedSame_abort _ _ hact)
    · exact h12.trans (finishedSame_commitC _ _ hact)
  | batch sts =>
    simp only [stepCore]
    have hb := sameStatus_begin σ
    have hs := sameStatus_batch (σ.beginTxn D0).2 sts (σ.beginTxn D0).1 0
    have hact := new_txn_active σ _ hs
    have h12 : FinishedSame σ (State.batch D0 (σ.beginTxn D0).1 (σ.beginTxn D0).2 0 sts).1 := (hb.trans hs).finished
    rcases hbt : State.batch D0 (σ.beginTxn D0).1 (σ.beginTxn D0).2 0 sts with ⟨σ2, outs, r⟩
    have hσ2 : (State.batch D0 (σ.beginTxn D0).1 (σ.beginTxn D0).2 0 sts).1 = σ2 := by rw [hbt]
    rw [hσ2] at h12 hact
    cases r with
    | some e => exact h12.trans (finishedSame_abort _ _ hact)
    | none => exact h12.trans (finishedSame_commitC _ _ hact)
  | tick =>
    simp only [stepCore]
    have hb := sameStatus_begin σ
    have hact := new_txn_active σ _ (SameStatus.refl _)
    exact hb.finished.trans (finishedSame_commit _ _ hact)
  | nop => exact FinishedSame.refl σ

theorem step_finished (σ : State) (α : Spec.State) (h : Rel σ α) (op : Op) : FinishedSame σ (step D0 σ op).1 :=
  (stepCore_finished σ α h op).trans (FinishedSame.of_txns rfl)

/-- VACUUM and reopen, after `abort_all`: every transaction keeps the status it has then -/
theorem frame_finished_kill (σ : State) (clean : Snapshot → Nat → List Row → List Row)
    (cix : Snapshot → Index → Index) :
    FinishedSame σ.killAll (σ.vacuumWith D0 false clean (fun _ txns => txns) cix) := by
  have h2 : FinishedSame σ.killAll (σ.killAll.beginTxn D0).1 := (sameStatus_begin _).finished
  generalize hσ3 : ({ (σ.killAll.beginTxn D0).1 with
      rows := clean ((σ.killAll.beginTxn D0).1.snapOf (σ.killAll.beginTxn D0).2) σ.killAll.lastCommitted (σ.killAll.beginTxn D0).1.rows,
      index := cix ((σ.killAll.beginTxn D0).1.snapOf (σ.killAll.beginTxn D0).2) (σ.killAll.beginTxn D0).1.index } : State) = σ3
  have h3 : FinishedSame (σ.killAll.beginTxn D0).1 σ3 := by
    apply FinishedSame.of_txns; rw [← hσ3]
  have hact : ∀ t, σ3.txns[σ.killAll.txns.length]? = some t → t.status = Status.active := by
    intro t ht
    rw [← hσ3] at ht
    exact new_txn_active σ.killAll _ (SameStatus.refl _) t ht
  have h4 : FinishedSame σ3 (σ3.commitTxn σ.killAll.txns.length).1 := finishedSame_commit _ _ hact
  have h5 : FinishedSame (σ3.commitTxn σ.killAll.txns.length).1
      { (σ3.commitTxn σ.killAll.txns.length).1 with clock := (σ3.commitTxn σ.killAll.txns.length).1.clock + 1 } :=
    FinishedSame.of_txns rfl
  have hunf : σ.vacuumWith D0 false clean (fun _ txns => txns) cix =
      { (σ3.commitTxn σ.killAll.txns.length).1 with clock := (σ3.commitTxn σ.killAll.txns.length).1.clock + 1 } := by
    subst hσ3; rfl
  rw [hunf]
  exact ((h2.trans h3).trans h4).trans h5

theorem finishedSame_killAll (σ : State) : FinishedSame σ σ.killAll := by
  intro u t ht hna
  refine ⟨killTxn t, getElem?_abortAll.2 ⟨t, ht, rfl⟩, ?_⟩
  unfold killTxn; simp [hna]

/-- VACUUM and reopen: the finished transactions keep their status (the active ones become aborted) -/
theorem frame_finished (σ : State) (clean : Snapshot → Nat → List Row → List Row)
    (cix : Snapshot → Index → Index) :
    FinishedSame σ (σ.vacuumWith D0 false clean (fun _ txns => txns) cix) :=
  (finishedSame_killAll σ).trans (frame_finished_kill σ clean cix)

theorem vstep_finished (τ : VState) (α : Spec.State) (h : VRel τ α) (o : VOp) : FinishedSame τ.db (vstep D0 V0 τ o).1.db := by
  cases o with
  | vacuum => exact frame_finished τ.db (vacuumRows V0) (vacuumIndex V0)
  | reopen => exact frame_finished τ.db (fun _ _ rows => rows) (fun _ ix => ix)
  | op o =>
    have hk := h.2
    have e : (vstep D0 V0 τ (.op o)).1.db = (step D0 τ.db o).1 := by
      cases o <;> simp [vstep, hk]
    rw [e]; exact step_finished τ.db α h.1 o

theorem vfinal_finished : ∀ (ops : List VOp) (τ : VState) (α : Spec.State), VRel τ α →
    FinishedSame τ.db (vfinal D0 V0 τ ops).db
  | [], τ, _, _ => FinishedSame.refl _
  | o :: os, τ, α, h => by
    have h1 := vstep_finished τ α h o
    have hr := (vstep_ok τ α h o).2
    exact h1.trans (vfinal_finished os _ _ hr)

theorem vfinal_append (D : Defects) (V : VDefects) : ∀ (a b : List VOp) (τ : VState),
    vfinal D V τ (a ++ b) = vfinal D V (vfinal D V τ a) b
  | [], _, _ => rfl
  | o :: os, b, τ => by simp [vfinal, vfinal_append D V os b]

theorem vrunFrom_append (D : Defects) (V : VDefects) : ∀ (a b : List VOp) (τ : VState),
    vrunFrom D V τ (a ++ b) = vrunFrom D V τ a ++ vrunFrom D V (vfinal D V τ a) b
  | [], _, _ => rfl
  | o :: os, b, τ => by simp [vrunFrom, vfinal, vrunFrom_append D V os b]

/-- the snapshot of the vacuum transaction when VACUUM runs in state `σ` -/
def vacSnap (σ : State) : Snapshot := σ.killAll.freshSnap D0

/-- **Admissible snapshots.**  `σ` reachable, VACUUM runs, then any further history `later` (more VACUUMs, reopens, sessions,
    statements): the snapshot of a transaction beginning at that point sees, among the transactions that existed when the
    VACUUM ran, exactly those the vacuum snapshot counts as committed; and for the vacuum snapshot every other one of them
    is in its aborted set. -/
theorem later_snapshot_admissible (τ : VState) (α : Spec.State) (h : VRel τ α) (later : List VOp) (u : Nat)
    (hu : u < τ.db.txns.length) :
    ((vfinal D0 V0 τ (VOp.vacuum :: later)).db.freshSnap D0).sees u = (vacSnap τ.db).cb u ∧
    (vacSnap τ.db).aborted.contains u = !(vacSnap τ.db).cb u := by
  have c1 : Core τ.db.killAll α 0 := Core.killAll τ.db α 0 h.1.core
  have hu1 : u < τ.db.killAll.txns.length := by rw [killAll_length]; exact hu
  obtain ⟨q1, q2, _⟩ := quiet_snapshot τ.db.killAll c1.cinv (killAll_no_active τ.db) u hu1
  refine ⟨?_, q2⟩
  -- the state after the vacuum and after `later`
  have hv := vstep_ok τ α h .vacuum
  have hL := (vrunFrom_ok later _ _ hv.2).2
  have hfin : FinishedSame τ.db.killAll (vfinal D0 V0 τ (VOp.vacuum :: later)).db := by
    have a1 : FinishedSame τ.db.killAll (vstep D0 V0 τ .vacuum).1.db := frame_finished_kill τ.db (vacuumRows V0) (vacuumIndex V0)
    exact a1.trans (vfinal_finished later _ _ hv.2)
  have hget : τ.db.killAll.txns[u]? = some τ.db.killAll.txns[u] := List.getElem?_eq_getElem hu1
  obtain ⟨t', g1, g2⟩ := hfin u _ hget (killAll_no_active τ.db u _ hget)
  have hultL : u < (vfinal D0 V0 τ (VOp.vacuum :: later)).db.txns.length := getElem?_lt g1
  apply bool_eq_of_iff
  have hLr : VRel (vfinal D0 V0 τ (VOp.vacuum :: later)) (Spec.vfinal α (VOp.vacuum :: later)) := hL
  rw [fresh_sees _ hLr.1.core.cinv u hultL]
  show _ ↔ (τ.db.killAll.freshSnap D0).cb u = true
  rw [q1]
  constructor
  · rintro ⟨t, ht, hs⟩
    rw [g1] at ht; cases ht
    exact ⟨_, hget, by rw [← g2]; exact hs⟩
  · rintro ⟨t, ht, hs⟩
    rw [hget] at ht; cases ht
    exact ⟨t', g1, by rw [g2]; exact hs⟩

/-- the version a snapshot selects is the head of what VACUUM keeps -/
theorem Row.vacuum_keeps_selected (s S : Snapshot) (h : Nat) (r r' : Row)
    (hS : ∀ u ∈ r.owners, S.sees u = s.cb u)
    (hab : ∀ u ∈ r.owners, s.aborted.contains u = !s.cb u)
    (hv : r.vacuum V0 s h = some r') (v : Version) (hsel : r.versions.find? (fun v => S.sees v.creator) = some v) :
    r'.versions.head? = some v := by
  obtain ⟨_, _, _, _, hvers, _, _, _⟩ := Row.vacuum_some hv
  rw [hvers, trimChain_head, liveVersions_none]
  have hver : ∀ v ∈ r.versions, v.creator ∈ r.owners := fun v hv => by
    simp only [Row.owners, List.mem_append, List.mem_map]; exact Or.inl ⟨v, hv, rfl⟩
  have hfil : r.versions.filter (fun v => !s.aborted.contains v.creator) = r.versions.filter (fun v => S.sees v.creator) := by
    apply List.filter_congr
    intro v hv
    rw [hab _ (hver v hv), hS _ (hver v hv)]; simp
  rw [hfil, List.head?_filter, hsel]

/-! ### what VACUUM leaves behind -/

theorem commitTxn_rows (σ : State) (tid : Nat) : (σ.commitTxn tid).1.rows = σ.rows := by
  unfold State.commitTxn
  split
  · rfl
  · split <;> rfl

theorem snapOf_begin (σ1 : State) : (σ1.beginTxn D0).1.snapOf σ1.txns.length = σ1.freshSnap D0 := by
  simp [State.snapOf, State.beginTxn]

theorem frame_rows (σ : State) (clean : Snapshot → Nat → List Row → List Row) (cix : Snapshot → Index → Index) :
    (σ.vacuumWith D0 false clean (fun _ txns => txns) cix).rows = clean (vacSnap σ) σ.lastCommitted σ.rows := by
  simp only [State.vacuumWith]
  rw [commitTxn_rows]
  show clean ((σ.killAll.beginTxn D0).1.snapOf σ.killAll.txns.length) σ.lastCommitted σ.rows = _
  rw [snapOf_begin]; rfl

theorem vacuum_rows (σ : State) :
    (σ.vacuum D0 V0).rows = vacuumRows V0 (vacSnap σ) σ.lastCommitted σ.rows := frame_rows σ (vacuumRows V0) (vacuumIndex V0)

theorem overlaps_nil (a : List Rid) : overlaps a [] = false := by
  unfold overlaps; simp

theorem frame_coordinator (σ : State) (hc : CInv σ) (clean : Snapshot → Nat → List Row → List Row)
    (cix : Snapshot → Index → Index) :
    (σ.vacuumWith D0 false clean (fun _ txns => txns) cix).lastCommitted = σ.txns.length ∧
    (σ.vacuumWith D0 false clean (fun _ txns => txns) cix).txns.length = σ.txns.length + 1 := by
  simp only [State.vacuumWith]
  generalize hσ3 : ({ (σ.killAll.beginTxn D0).1 with
      rows := clean ((σ.killAll.beginTxn D0).1.snapOf (σ.killAll.beginTxn D0).2) σ.killAll.lastCommitted (σ.killAll.beginTxn D0).1.rows,
      index := cix ((σ.killAll.beginTxn D0).1.snapOf (σ.killAll.beginTxn D0).2) (σ.killAll.beginTxn D0).1.index } : State) = σ3
  have hget : σ3.txns[σ.killAll.txns.length]? = some ⟨σ.killAll.freshSnap D0, .active, [], σ.killAll.clog.length⟩ := by
    rw [← hσ3]; simp [State.beginTxn]
  have hlen3 : σ3.txns.length = σ.txns.length + 1 := by
    rw [← hσ3]; simp [State.beginTxn, killAll_length]
  have hlc3 : σ3.lastCommitted = σ.lastCommitted := by rw [← hσ3]; rfl
  have hnc : conflictIn σ3.clog ⟨σ.killAll.freshSnap D0, .active, [], σ.killAll.clog.length⟩ = false := by
    unfold conflictIn; simp [overlaps_nil]
  have hgoal : ((σ3.commitTxn σ.killAll.txns.length).1.lastCommitted = σ.txns.length) ∧
      (σ3.commitTxn σ.killAll.txns.length).1.txns.length = σ.txns.length + 1 := by
    rw [commitTxn_eq σ3 _ _ hget, hnc]
    simp only [Bool.false_eq_true, if_false, setStatus, List.length_modify, hlen3, hlc3, killAll_length]
    refine ⟨?_, trivial⟩
    rcases hc.lc_bound with h0 | h0 <;> split <;> omega
  subst hσ3
  exact hgoal

/-- versions written by transaction `u` -/
def Row.stampedBy (u : Nat) (r : Row) : Nat := (r.versions.filter (fun w => w.creator == u)).length

def stampedBy (u : Nat) : List Row → Nat
  | [] => 0
  | r :: rs => r.stampedBy u + stampedBy u rs

/-- a list all of whose creators are ≤ `h` splits into those equal to `h` and those below -/
theorem length_le_stamped_add_below (h : Nat) : ∀ (l : List Version), (∀ w ∈ l, w.creator ≤ h) →
    l.length = (l.filter (fun w => w.creator == h)).length + belowCount h l
  | [], _ => rfl
  | w :: ws, hle => by
    have ih := length_le_stamped_add_below h ws (fun x hx => hle x (List.mem_cons_of_mem _ hx))
    have hw := hle w (List.mem_cons_self ..)
    unfold belowCount at ih ⊢
    simp only [List.filter_cons, List.length_cons]
    by_cases e : w.creator = h
    · have hnb : ¬ w.creator < h := by omega
      simp only [e, beq_self_eq_true, if_true, List.length_cons, Nat.lt_irrefl, decide_false, Bool.false_eq_true, if_false]
      omega
    · have hb : w.creator < h := by omega
      have hne : (w.creator == h) = false := by simpa using e
      simp only [hne, Bool.false_eq_true, if_false, hb, decide_true, if_true, List.length_cons]
      omega

/-- **Shape of a vacuumed row.**  `σ` reachable (related to an abstract state).  Every row that survives VACUUM has no delete
    mark left, at least one version, only versions of committed transactions (none newer than the horizon), all of them
    stored before in the same order, and at most ONE version older than the horizon: everything behind it is gone. -/
theorem vacuum_row_shape (σ : State) (α : Spec.State) (h : Rel σ α) (r r' : Row) (hr : r ∈ σ.rows)
    (hv : r.vacuum V0 (vacSnap σ) σ.lastCommitted = some r') :
    r'.deleters = [] ∧ r'.versions ≠ [] ∧ (∀ w ∈ r'.versions, σ.isCommitted w.creator ∧ w.creator ≤ σ.lastCommitted) ∧
    r'.versions.Sublist r.versions ∧ belowCount σ.lastCommitted r'.versions ≤ 1 := by
  have c1 : Core σ.killAll α 0 := Core.killAll σ α 0 h.core
  have hq : ∀ u ∈ r.owners, ((vacSnap σ).cb u = true ↔ σ.isCommitted u) ∧ (vacSnap σ).aborted.contains u = !(vacSnap σ).cb u := by
    intro u hu
    have hult : u < σ.killAll.txns.length := by rw [killAll_length]; exact owners_lt σ 0 h.core.sinv r hr u hu
    obtain ⟨q1, q2, _⟩ := quiet_snapshot σ.killAll c1.cinv (killAll_no_active σ) u hult
    exact ⟨q1.trans (killAll_committed σ u), q2⟩
  have hver : ∀ v ∈ r.versions, v.creator ∈ r.owners := fun v hv => by
    simp only [Row.owners, List.mem_append, List.mem_map]; exact Or.inl ⟨v, hv, rfl⟩
  have hdel : ∀ d ∈ r.deleters, d ∈ r.owners := fun d hd => by
    simp only [Row.owners, List.mem_append]; exact Or.inr hd
  obtain ⟨_, _, _, _, hvers, hdels, hne, hnd⟩ := Row.vacuum_some hv
  rw [liveVersions_none] at hvers hne
  rw [deletedForVacuum_none] at hnd
  have hlive : ∀ w ∈ r.versions.filter (fun v => !(vacSnap σ).aborted.contains v.creator), σ.isCommitted w.creator := by
    intro w hw
    obtain ⟨hw1, hw2⟩ := List.mem_filter.1 hw
    obtain ⟨q1, q2⟩ := hq _ (hver w hw1)
    rw [q2] at hw2
    exact q1.1 (by simpa using hw2)
  refine ⟨?_, ?_, ?_, ?_, ?_⟩
  · rw [hdels]
    apply List.filter_eq_nil_iff.2
    intro d hd hnab
    obtain ⟨q1, q2⟩ := hq _ (hdel d hd)
    rw [q2] at hnab
    have hcb : (vacSnap σ).cb d = true := by simpa using hnab
    have : r.deleters.any (vacSnap σ).cb = true := List.any_eq_true.2 ⟨d, hd, hcb⟩
    rw [hnd] at this; cases this
  · rw [hvers]
    cases hl : r.versions.filter (fun v => !(vacSnap σ).aborted.contains v.creator) with
    | nil => rw [hl] at hne; simp at hne
    | cons x tl => simp [trimChain]
  · intro w hw
    rw [hvers] at hw
    have hc := hlive w (trimChain_subset _ _ w hw)
    obtain ⟨t, ht, hst⟩ := hc
    exact ⟨⟨t, ht, hst⟩, h.core.cinv.lc_max _ t ht hst⟩
  · rw [hvers]
    exact (trimChain_sublist _ _).trans List.filter_sublist
  · rw [hvers]; exact belowCount_trimChain _ _

/-- a vacuumed row stores at most the versions the horizon transaction wrote on it, plus one -/
theorem vacuum_row_size_le (σ : State) (α : Spec.State) (h : Rel σ α) (r r' : Row) (hr : r ∈ σ.rows)
    (hv : r.vacuum V0 (vacSnap σ) σ.lastCommitted = some r') :
    1 ≤ r'.size ∧ r'.size ≤ r.stampedBy σ.lastCommitted + 1 := by
  obtain ⟨s1, s2, s3, s4, s5⟩ := vacuum_row_shape σ α h r r' hr hv
  have hlen := length_le_stamped_add_below σ.lastCommitted r'.versions (fun w hw => (s3 w hw).2)
  have hst : (r'.versions.filter (fun w => w.creator == σ.lastCommitted)).length ≤ r.stampedBy σ.lastCommitted :=
    (s4.filter _).length_le
  unfold Row.size
  rw [s1]
  have hpos : 1 ≤ r'.versions.length := by
    cases hvs : r'.versions with
    | nil => exact (s2 hvs).elim
    | cons x tl => simp
  simp only [List.length_nil, Nat.add_zero]
  omega

theorem sizeRows_vacuum_le (σ : State) (α : Spec.State) (h : Rel σ α) : ∀ (rows : List Row), (∀ r ∈ rows, r ∈ σ.rows) →
    (vacuumRows V0 (vacSnap σ) σ.lastCommitted rows).length ≤ sizeRows (vacuumRows V0 (vacSnap σ) σ.lastCommitted rows) ∧
    sizeRows (vacuumRows V0 (vacSnap σ) σ.lastCommitted rows) ≤
      (vacuumRows V0 (vacSnap σ) σ.lastCommitted rows).length + stampedBy σ.lastCommitted rows
  | [], _ => ⟨Nat.le_refl _, Nat.le_refl _⟩
  | r :: rs, hm => by
    have ih := sizeRows_vacuum_le σ α h rs (fun x hx => hm x (List.mem_cons_of_mem _ hx))
    unfold vacuumRows at ih ⊢
    simp only [List.filterMap_cons, stampedBy]
    cases hv : r.vacuum V0 (vacSnap σ) σ.lastCommitted with
    | none => dsimp only; omega
    | some r' =>
      have := vacuum_row_size_le σ α h r r' (hm r (List.mem_cons_self ..)) hv
      simp only [sizeRows, List.length_cons]
      omega

theorem stampedBy_zero (u : Nat) : ∀ (rows : List Row), (∀ r ∈ rows, ∀ w ∈ r.versions, w.creator ≠ u) → stampedBy u rows = 0
  | [], _ => rfl
  | r :: rs, h => by
    have ih := stampedBy_zero u rs (fun x hx => h x (List.mem_cons_of_mem _ hx))
    have h0 : r.stampedBy u = 0 := by
      unfold Row.stampedBy
      rw [List.length_eq_zero_iff]
      apply List.filter_eq_nil_iff.2
      intro w hw hc
      exact h r (List.mem_cons_self ..) w hw (by simpa using hc)
    simp [stampedBy, ih, h0]

theorem stampedBy_le_length (u : Nat) : ∀ (rows : List Row),
    (∀ r ∈ rows, ∀ w ∈ r.versions.tail, w.creator ≠ u) → stampedBy u rows ≤ rows.length
  | [], _ => Nat.le_refl _
  | r :: rs, h => by
    have ih := stampedBy_le_length u rs (fun x hx => h x (List.mem_cons_of_mem _ hx))
    have h1 : r.stampedBy u ≤ 1 := by
      unfold Row.stampedBy
      cases hvs : r.versions with
      | nil => simp
      | cons x tl =>
        have htl : tl.filter (fun w => w.creator == u) = [] := by
          apply List.filter_eq_nil_iff.2
          intro w hw hc
          have := h r (List.mem_cons_self ..) w (by rw [hvs]; exact hw)
          exact this (by simpa using hc)
        simp only [List.filter_cons, htl]
        split <;> simp
    simp only [stampedBy, List.length_cons]
    omega

/-- **No chain survives.**  If no stored version was written by the horizon transaction, VACUUM leaves exactly one version per
    row and no delete mark: `size = number of rows`. -/
theorem size_vacuum_eq_rows (σ : State) (α : Spec.State) (h : Rel σ α)
    (hno : ∀ r ∈ σ.rows, ∀ w ∈ r.versions, w.creator ≠ σ.lastCommitted) :
    (σ.vacuum D0 V0).size = (σ.vacuum D0 V0).rows.length := by
  unfold State.size
  rw [vacuum_rows]
  have := sizeRows_vacuum_le σ α h σ.rows (fun r hr => hr)
  rw [stampedBy_zero _ _ hno] at this
  omega

theorem sizeRows_bounds (k : Nat) : ∀ (rows : List Row), (∀ r ∈ rows, 1 ≤ r.size ∧ r.size ≤ k) →
    rows.length ≤ sizeRows rows ∧ sizeRows rows ≤ k * rows.length
  | [], _ => by simp [sizeRows]
  | r :: rs, h => by
    have ih := sizeRows_bounds k rs (fun x hx => h x (List.mem_cons_of_mem _ hx))
    have h1 := h r (List.mem_cons_self ..)
    simp only [sizeRows, List.length_cons, Nat.mul_add, Nat.mul_one]
    omega

/-- if the horizon transaction wrote at most the head of each chain, VACUUM leaves at most two versions per row (the head and
    the newest version older than the horizon) -/
theorem size_vacuum_le_two_rows (σ : State) (α : Spec.State) (h : Rel σ α)
    (htail : ∀ r ∈ σ.rows, ∀ w ∈ r.versions.tail, w.creator ≠ σ.lastCommitted) :
    (σ.vacuum D0 V0).rows.length ≤ (σ.vacuum D0 V0).size ∧ (σ.vacuum D0 V0).size ≤ 2 * (σ.vacuum D0 V0).rows.length := by
  unfold State.size
  apply sizeRows_bounds
  intro r' hr'
  rw [vacuum_rows] at hr'
  obtain ⟨r, hr, hv⟩ := mem_vacuumRows.1 hr'
  obtain ⟨h1, h2⟩ := vacuum_row_size_le σ α h r r' hr hv
  have h3 := stampedBy_le_length σ.lastCommitted [r] (by
    intro x hx w hw
    simp only [List.mem_singleton] at hx
    subst hx
    exact htail x hr w hw)
  simp only [stampedBy, List.length_cons, List.length_nil, Nat.add_zero] at h3
  omega

/-- after a VACUUM no row carries a stamp of the new horizon (the vacuum transaction wrote nothing) -/
theorem vacuum_no_stamp_at_horizon (σ : State) (α : Spec.State) (h : Rel σ α) :
    ∀ r' ∈ (σ.vacuum D0 V0).rows, ∀ u ∈ r'.owners, u < (σ.vacuum D0 V0).lastCommitted := by
  intro r' hr' u hu
  rw [vacuum_eq_frame, (frame_coordinator σ h.core.cinv _ _).1]
  rw [vacuum_rows] at hr'
  obtain ⟨r, hr, hv⟩ := mem_vacuumRows.1 hr'
  exact owners_lt σ 0 h.core.sinv r hr u (Row.vacuum_owners hv u hu)

/-- a second VACUUM drops no row -/
theorem vacuum_twice_rows_length (σ : State) (α : Spec.State) (h : Rel σ α) :
    ((σ.vacuum D0 V0).vacuum D0 V0).rows.length = (σ.vacuum D0 V0).rows.length := by
  have hr1 := vacuum_rel σ α h
  rw [vacuum_rows (σ.vacuum D0 V0)]
  unfold vacuumRows
  have hall : ∀ r ∈ (σ.vacuum D0 V0).rows, ∃ r', r.vacuum V0 (vacSnap (σ.vacuum D0 V0)) (σ.vacuum D0 V0).lastCommitted = some r' := by
    intro r1 hr1m
    rw [vacuum_rows] at hr1m
    obtain ⟨r, hr, hv⟩ := mem_vacuumRows.1 hr1m
    obtain ⟨s1, s2, s3', _⟩ := vacuum_row_shape σ α h r r1 hr hv
    have s3 : ∀ w ∈ r1.versions, σ.isCommitted w.creator := fun w hw => (s3' w hw).1
    have hr1m' : r1 ∈ (σ.vacuum D0 V0).rows := by rw [vacuum_rows]; exact mem_vacuumRows.2 ⟨r, hr, hv⟩
    -- every stamp of r1 is committed, also in the vacuumed state
    have c1 : Core (σ.vacuum D0 V0).killAll α.quiesce 0 := Core.killAll _ _ 0 hr1.core
    have hq : ∀ u ∈ r1.owners, (vacSnap (σ.vacuum D0 V0)).aborted.contains u = false := by
      intro u hu
      have hult : u < (σ.vacuum D0 V0).killAll.txns.length := by
        rw [killAll_length]; exact owners_lt _ 0 hr1.core.sinv r1 hr1m' u hu
      obtain ⟨q1, q2, _⟩ := quiet_snapshot _ c1.cinv (killAll_no_active _) u hult
      have hu' : u ∈ r1.versions.map (·.creator) := by
        simp only [Row.owners, s1, List.append_nil] at hu; exact hu
      obtain ⟨w, hw, rfl⟩ := List.mem_map.1 hu'
      obtain ⟨t, ht, hst⟩ := s3 w hw
      -- committed in σ, hence in the vacuumed state
      obtain ⟨t', g1, g2⟩ := frame_finished σ (vacuumRows V0) (vacuumIndex V0) _ t ht (by rw [hst]; simp)
      have hcomm : (σ.vacuum D0 V0).isCommitted w.creator := ⟨t', g1, by rw [g2, hst]⟩
      have hcb : (vacSnap (σ.vacuum D0 V0)).cb w.creator = true := q1.2 ((killAll_committed _ _).2 hcomm)
      show (vacSnap (σ.vacuum D0 V0)).aborted.contains w.creator = false
      rw [show (vacSnap (σ.vacuum D0 V0)) = (σ.vacuum D0 V0).killAll.freshSnap D0 from rfl, q2]
      rw [show (σ.vacuum D0 V0).killAll.freshSnap D0 = vacSnap (σ.vacuum D0 V0) from rfl, hcb]; rfl
    have hfil : r1.versions.filter (fun v => !(vacSnap (σ.vacuum D0 V0)).aborted.contains v.creator) = r1.versions := by
      apply List.filter_eq_self.2
      intro v hv'
      rw [hq v.creator (by simp only [Row.owners, List.mem_append, List.mem_map]; exact Or.inl ⟨v, hv', rfl⟩)]; rfl
    rw [Row.vacuum_none, hfil, s1]
    cases hvs : r1.versions with
    | nil => exact (s2 hvs).elim
    | cons x tl => simp
  -- a filterMap that never drops keeps the length
  have key : ∀ (l : List Row), (∀ r ∈ l, ∃ r', r.vacuum V0 (vacSnap (σ.vacuum D0 V0)) (σ.vacuum D0 V0).lastCommitted = some r') →
      (l.filterMap (Row.vacuum V0 (vacSnap (σ.vacuum D0 V0)) (σ.vacuum D0 V0).lastCommitted)).length = l.length := by
    intro l
    induction l with
    | nil => intro _; rfl
    | cons x xs ih =>
      intro hx
      obtain ⟨x', hx'⟩ := hx x (List.mem_cons_self ..)
      simp only [List.filterMap_cons, hx', List.length_cons]
      rw [ih (fun r hr => hx r (List.mem_cons_of_mem _ hr))]
  exact key _ hall

/-! ### VACUUM never stores more -/

theorem liveVersions_sublist (V : VDefects) (s : Snapshot) (r : Row) : (liveVersions V s r).Sublist r.versions := by
  unfold liveVersions
  split
  · cases r.versions with
    | nil => exact List.Sublist.refl _
    | cons v tl =>
      dsimp only
      split
      · exact List.nil_sublist _
      · exact List.Sublist.refl _
  · exact List.filter_sublist

theorem Row.vacuum_size_le {V : VDefects} {s : Snapshot} {h : Nat} {r r' : Row} (hv : r.vacuum V s h = some r') :
    r'.size ≤ r.size := by
  obtain ⟨_, _, _, _, hvers, hdels, _, _⟩ := Row.vacuum_some hv
  unfold Row.size
  rw [hvers, hdels]
  have h1 := ((trimChain_sublist h _).trans (liveVersions_sublist V s r)).length_le
  have h2 := (List.filter_sublist (l := r.deleters) (p := fun d => !s.aborted.contains d)).length_le
  omega

theorem sizeRows_vacuumRows_le (V : VDefects) (s : Snapshot) (h : Nat) : ∀ (rows : List Row),
    sizeRows (vacuumRows V s h rows) ≤ sizeRows rows
  | [] => Nat.le_refl _
  | r :: rs => by
    have ih := sizeRows_vacuumRows_le V s h rs
    unfold vacuumRows at ih ⊢
    simp only [List.filterMap_cons]
    cases hv : r.vacuum V s h with
    | none => simp only [sizeRows]; omega
    | some r' =>
      have := Row.vacuum_size_le hv
      simp only [sizeRows]; omega

/-! ### forgetting -/

theorem getElem?_forgetAux (h : Nat) : ∀ (txns : List Txn) (k i : Nat),
    (forgetAux h txns k)[i]? =
      (txns[i]?).map (fun t => if k + i < h ∧ t.status = Status.aborted then { t with status := Status.committed } else t)
  | [], _, _ => by simp [forgetAux]
  | t :: ts, k, 0 => by simp [forgetAux]
  | t :: ts, k, i + 1 => by
    simp only [forgetAux, List.getElem?_cons_succ]
    rw [getElem?_forgetAux h ts (k + 1) i]
    have : k + 1 + i = k + (i + 1) := by omega
    rw [this]

theorem length_forgetAux (h : Nat) : ∀ (txns : List Txn) (k : Nat), (forgetAux h txns k).length = txns.length
  | [], _ => rfl
  | t :: ts, k => by simp [forgetAux, length_forgetAux h ts]

end AxVerif.Db
