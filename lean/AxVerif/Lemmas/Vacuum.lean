/-
  Helper lemmas for `Model/Vacuum.lean` (property C13): VACUUM preserves the invariant and the simulation relation of
  `Lemmas/Db.lean` / `Lemmas/DbSim.lean`.  Everything here is for `Defects.none` (`D0`) and `VDefects.none` (`V0`).
-/
import AxVerif.Model.Vacuum
import AxVerif.Lemmas.DbHist
namespace AxVerif.Db
open AxVerif.Db

abbrev V0 : VDefects := VDefects.none

/-! ### one row -/

theorem liveVersions_none (s : Snapshot) (r : Row) :
    liveVersions V0 s r = r.versions.filter (fun v => !s.aborted.contains v.creator) := by
  simp [liveVersions, V0, VDefects.none]

theorem deletedForVacuum_none (s : Snapshot) (r : Row) : deletedForVacuum V0 s r = r.deleters.any s.cb := by
  simp [deletedForVacuum, V0, VDefects.none]

theorem liveVersions_subset (V : VDefects) (s : Snapshot) (r : Row) : ∀ v ∈ liveVersions V s r, v ∈ r.versions := by
  intro v hv
  unfold liveVersions at hv
  split at hv
  · cases hrv : r.versions with
    | nil => rw [hrv] at hv; simp at hv
    | cons x tl =>
      rw [hrv] at hv
      dsimp only at hv
      split at hv
      · simp at hv
      · exact hv
  · exact (List.mem_filter.1 hv).1

/-- the row pass of the specification, unfolded -/
theorem Row.vacuum_none (s : Snapshot) (h : Nat) (r : Row) :
    r.vacuum V0 s h =
      if (r.versions.filter (fun v => !s.aborted.contains v.creator)).isEmpty then none
      else if r.deleters.any s.cb then none
      else some { r with versions := trimChain h (r.versions.filter (fun v => !s.aborted.contains v.creator)),
                         deleters := r.deleters.filter (fun d => !s.aborted.contains d) } := by
  simp only [Row.vacuum, liveVersions_none, deletedForVacuum_none]

theorem trimChain_subset (h : Nat) (vs : List Version) : ∀ v ∈ trimChain h vs, v ∈ vs := by
  intro v hv
  cases vs with
  | nil => simp [trimChain] at hv
  | cons x tl =>
    simp only [trimChain, List.mem_cons] at hv
    rcases hv with e | hv
    · exact e ▸ List.mem_cons_self ..
    · exact List.mem_cons_of_mem _ (List.takeWhile_subset _ hv)

theorem trimChain_head (h : Nat) (vs : List Version) : (trimChain h vs).head? = vs.head? := by
  cases vs <;> rfl

/-- what survives of a row carries the same id and table and a subset of the stamps -/
theorem Row.vacuum_some {V : VDefects} {s : Snapshot} {h : Nat} {r r' : Row} (hv : r.vacuum V s h = some r') :
    r'.rid = r.rid ∧ r'.table = r.table ∧ (∀ v ∈ r'.versions, v ∈ r.versions) ∧ (∀ d ∈ r'.deleters, d ∈ r.deleters) ∧
      r'.versions = trimChain h (liveVersions V s r) ∧ r'.deleters = r.deleters.filter (fun d => !s.aborted.contains d) ∧
      (liveVersions V s r).isEmpty = false ∧ deletedForVacuum V s r = false := by
  unfold Row.vacuum at hv
  by_cases h1 : (liveVersions V s r).isEmpty = true
  · simp [h1] at hv
  · by_cases h2 : deletedForVacuum V s r = true
    · simp [h1, h2] at hv
    · simp only [h1, h2, Bool.false_eq_true, if_false, Option.some.injEq] at hv
      subst hv
      refine ⟨rfl, rfl, ?_, ?_, rfl, rfl, by simpa using h1, by simpa using h2⟩
      · intro v hv
        exact liveVersions_subset V s r v (trimChain_subset _ _ v hv)
      · intro d hd
        exact (List.mem_filter.1 hd).1

theorem Row.vacuum_owners {V : VDefects} {s : Snapshot} {h : Nat} {r r' : Row} (hv : r.vacuum V s h = some r') :
    ∀ u ∈ r'.owners, u ∈ r.owners := by
  obtain ⟨_, _, h1, h2, _⟩ := Row.vacuum_some hv
  intro u hu
  simp only [Row.owners, List.mem_append, List.mem_map] at hu ⊢
  rcases hu with ⟨v, hv', rfl⟩ | hd
  · exact Or.inl ⟨v, h1 v hv', rfl⟩
  · exact Or.inr (h2 u hd)

/-- **One row.**  `s` = the vacuum transaction's snapshot.  For a snapshot `S` that sees, among the row's stamps, exactly
    the transactions `s` counts as committed, and when every stamp that `s` does not count as committed is in `s`'s aborted
    set (no transaction is active), the row reads the same before and after the row pass; a removed row reads `none`. -/
theorem Row.vacuum_view (s S : Snapshot) (h : Nat) (r : Row)
    (hS : ∀ u ∈ r.owners, S.sees u = s.cb u)
    (hab : ∀ u ∈ r.owners, s.aborted.contains u = !s.cb u) :
    (r.vacuum V0 s h).bind (Row.toARow D0 S) = r.toARow D0 S := by
  have hver : ∀ v ∈ r.versions, v.creator ∈ r.owners := fun v hv => by
    simp only [Row.owners, List.mem_append, List.mem_map]; exact Or.inl ⟨v, hv, rfl⟩
  have hdel : ∀ d ∈ r.deleters, d ∈ r.owners := fun d hd => by
    simp only [Row.owners, List.mem_append]; exact Or.inr hd
  have hfil : r.versions.filter (fun v => !s.aborted.contains v.creator) = r.versions.filter (fun v => S.sees v.creator) := by
    apply List.filter_congr
    intro v hv
    rw [hab _ (hver v hv), hS _ (hver v hv)]; simp
  have hany : r.deleters.any s.cb = r.deleters.any S.sees :=
    any_congr_mem _ (fun d hd => (hS d (hdel d hd)).symm)
  rw [Row.vacuum_none, hfil, hany]
  simp only [Row.toARow]
  rw [rowVisible_none]
  cases hvs : r.versions.filter (fun v => S.sees v.creator) with
  | nil =>
    have : r.versions.find? (fun v => S.sees v.creator) = none := by
      rw [← List.head?_filter, hvs]; rfl
    simp [this]
  | cons v tl =>
    have hfind : r.versions.find? (fun v => S.sees v.creator) = some v := by
      rw [← List.head?_filter, hvs]; rfl
    have hvsees : S.sees v.creator = true := by
      have : v ∈ r.versions.filter (fun v => S.sees v.creator) := by rw [hvs]; exact List.mem_cons_self ..
      exact (List.mem_filter.1 this).2
    cases hd : r.deleters.any S.sees with
    | true => simp
    | false =>
      simp only [List.isEmpty_cons, Bool.false_eq_true, if_false, Option.bind_some]
      unfold Row.toARow
      rw [rowVisible_none]
      have hd' : (r.deleters.filter (fun d => !s.aborted.contains d)).any S.sees = false := by
        rw [List.any_filter]
        apply Bool.eq_false_iff.2
        intro hc
        obtain ⟨d, hdm, hdd⟩ := List.any_eq_true.1 hc
        have : r.deleters.any S.sees = true := List.any_eq_true.2 ⟨d, hdm, by simp at hdd; exact hdd.2⟩
        rw [hd] at this; cases this
      simp only [hd', Bool.false_eq_true, if_false, hfind, trimChain, List.find?_cons, hvsees, Option.map_some]

/-! ### abort everything -/

/-- what `abort_all` does to one entry -/
def killTxn (t : Txn) : Txn := if t.status = .active then { t with status := .aborted } else t

theorem abortAll_eq (txns : List Txn) : abortAll txns = txns.map killTxn := rfl

theorem killTxn_fields (t : Txn) :
    (killTxn t).snap = t.snap ∧ (killTxn t).startTs = t.startTs ∧ (killTxn t).ws = t.ws ∧
    ((killTxn t).status = .committed ↔ t.status = .committed) ∧ (killTxn t).status ≠ .active := by
  unfold killTxn
  by_cases h : t.status = .active
  · simp [h]
  · simp [h]

theorem getElem?_abortAll {txns : List Txn} {i : Nat} {t' : Txn} :
    (abortAll txns)[i]? = some t' ↔ ∃ t, txns[i]? = some t ∧ t' = killTxn t := by
  rw [abortAll_eq, List.getElem?_map]
  cases txns[i]? with
  | none => simp
  | some t => simp [eq_comm]

/-- `abort_all` + the end of every session -/
def State.killAll (σ : State) : State := { σ with txns := abortAll σ.txns, sessions := [] }

theorem killAll_committed (σ : State) (u : Nat) : (σ.killAll).isCommitted u ↔ σ.isCommitted u := by
  simp only [State.isCommitted, State.killAll]
  constructor
  · rintro ⟨t', h1, h2⟩
    obtain ⟨t, ht, rfl⟩ := getElem?_abortAll.1 h1
    exact ⟨t, ht, (killTxn_fields t).2.2.2.1.1 h2⟩
  · rintro ⟨t, ht, h2⟩
    exact ⟨killTxn t, getElem?_abortAll.2 ⟨t, ht, rfl⟩, (killTxn_fields t).2.2.2.1.2 h2⟩

theorem killAll_no_active (σ : State) (u : Nat) (t : Txn) (h : (σ.killAll).txns[u]? = some t) : t.status ≠ .active := by
  obtain ⟨t0, _, rfl⟩ := getElem?_abortAll.1 h
  exact (killTxn_fields t0).2.2.2.2

theorem CInv.killAll (σ : State) (h : CInv σ) : CInv σ.killAll := by
  simp only [State.killAll]
  constructor
  · intro i t' hi
    obtain ⟨t, ht, rfl⟩ := getElem?_abortAll.1 hi
    rw [(killTxn_fields t).1]; exact h.xid i t ht
  · simpa [abortAll] using h.lc_bound
  · intro u t' hu hst
    obtain ⟨t, ht, rfl⟩ := getElem?_abortAll.1 hu
    exact h.lc_max u t ht ((killTxn_fields t).2.2.2.1.1 hst)
  · intro e he
    obtain ⟨t, h1, h2, h3⟩ := h.clog_comm e he
    refine ⟨killTxn t, getElem?_abortAll.2 ⟨t, h1, rfl⟩, (killTxn_fields t).2.2.2.1.2 h2, ?_⟩
    rw [(killTxn_fields t).2.2.1]; exact h3
  · intro u t' hu hst
    obtain ⟨t, ht, rfl⟩ := getElem?_abortAll.1 hu
    exact h.comm_clog u t ht ((killTxn_fields t).2.2.2.1.1 hst)
  · intro i t' hi
    obtain ⟨t, ht, rfl⟩ := getElem?_abortAll.1 hi
    rw [(killTxn_fields t).2.1]; exact h.start_le i t ht
  · intro i t' hi u hu
    obtain ⟨t, ht, rfl⟩ := getElem?_abortAll.1 hi
    rw [(killTxn_fields t).1, (killTxn_fields t).2.1]; exact h.snap_clog i t ht u hu
  · intro i j ei ej hij hi hj hov
    obtain ⟨t, h1, h2⟩ := h.fcw i j ei ej hij hi hj hov
    exact ⟨killTxn t, getElem?_abortAll.2 ⟨t, h1, rfl⟩, by rw [(killTxn_fields t).2.1]; exact h2⟩

theorem SInv.killAll (σ : State) (j : Nat) (h : SInv σ j) : SInv σ.killAll j := by
  refine ⟨?_, h.sorted, h.bound⟩
  intro r hr u hu
  obtain ⟨t, h1, h2⟩ := h.stamps r hr u hu
  exact ⟨killTxn t, getElem?_abortAll.2 ⟨t, h1, rfl⟩, by rw [(killTxn_fields t).2.2.1]; exact h2⟩

theorem killAll_length (σ : State) : σ.killAll.txns.length = σ.txns.length := by simp [State.killAll, abortAll]

theorem Core.killAll (σ : State) (α : Spec.State) (j : Nat) (h : Core σ α j) : Core σ.killAll α j := by
  have hc1 := CInv.killAll σ h.cinv
  refine ⟨hc1, SInv.killAll σ j h.sinv, h.cat, h.clock, ?_, h.log⟩
  show view D0 (σ.killAll.freshSnap D0) σ.rows = α.committed
  rw [← h.committed]
  symm
  apply view_fresh_eq σ _ h.cinv hc1
  · intro r hr u hu
    have := owners_lt σ j h.sinv r hr u hu
    rw [killAll_length]; omega
  · intro u; exact (killAll_committed σ u).symm

/-! ### the vacuum snapshot -/

/-- facts about a snapshot taken when no transaction is active (`sV` = the vacuum transaction's snapshot) -/
theorem quiet_snapshot (σ1 : State) (hc : CInv σ1) (hna : ∀ (u : Nat) (t : Txn), σ1.txns[u]? = some t → t.status ≠ Status.active)
    (u : Nat) (hu : u < σ1.txns.length) :
    ((σ1.freshSnap D0).cb u = true ↔ σ1.isCommitted u) ∧
    (σ1.freshSnap D0).aborted.contains u = !(σ1.freshSnap D0).cb u ∧
    (σ1.freshSnap D0).sees u = (σ1.freshSnap D0).cb u := by
  have hne : u ≠ σ1.txns.length := by omega
  have h1 := fresh_cb σ1 hc u hne
  refine ⟨h1, ?_, ?_⟩
  · have hget : σ1.txns[u]? = some σ1.txns[u] := List.getElem?_eq_getElem hu
    have hmem : (σ1.freshSnap D0).aborted.contains u = true ↔ σ1.txns[u].status = .aborted := by
      rw [freshSnap_none]
      simp only [List.contains_eq_mem, decide_eq_true_eq, mem_idsWith0]
      constructor
      · rintro ⟨t, ht, hs⟩
        rw [hget] at ht; cases ht; exact hs
      · intro hs; exact ⟨_, hget, hs⟩
    cases hst : σ1.txns[u].status with
    | active => exact ((hna u _ hget) hst).elim
    | committed =>
      have hcb : (σ1.freshSnap D0).cb u = true := h1.2 ⟨_, hget, hst⟩
      have : (σ1.freshSnap D0).aborted.contains u = false := by
        apply Bool.eq_false_iff.2
        intro hc'
        have := hmem.1 hc'
        rw [hst] at this; cases this
      rw [this, hcb]; rfl
    | aborted =>
      have hcb : (σ1.freshSnap D0).cb u = false := by
        apply Bool.eq_false_iff.2
        intro hc'
        obtain ⟨t, ht, hs⟩ := h1.1 hc'
        rw [hget] at ht; cases ht
        rw [hst] at hs; cases hs
      rw [hmem.2 hst, hcb]; rfl
  · have hx : (σ1.freshSnap D0).xid = σ1.txns.length := by rw [freshSnap_none]
    simp [Snapshot.sees, hx, hne]

/-! ### the frame: abort everything, one transaction around a change of the stored rows -/

theorem beginTxn_eq (σ : State) :
    σ.beginTxn D0 = ({ σ with txns := σ.txns ++ [⟨σ.freshSnap D0, .active, [], σ.clog.length⟩] }, σ.txns.length) := rfl

theorem frame_rel (σ : State) (α : Spec.State) (h : Rel σ α) (clean : Snapshot → Nat → List Row → List Row)
    (hsub : ∀ s hz rows, ∀ r' ∈ clean s hz rows, ∃ r ∈ rows, r'.rid = r.rid ∧ ∀ u ∈ r'.owners, u ∈ r.owners)
    (hsorted : ∀ s hz (rows : List Row), rows.Pairwise (fun a b => ridLt a.rid b.rid) →
      (clean s hz rows).Pairwise (fun a b => ridLt a.rid b.rid))
    (hview : ∀ s hz rows S,
      (∀ r ∈ rows, ∀ u ∈ r.owners, S.sees u = s.cb u ∧ s.aborted.contains u = !s.cb u) →
      view D0 S (clean s hz rows) = view D0 S rows) :
    Rel (σ.vacuumWith D0 false clean (fun _ txns => txns)) α.quiesce := by
  -- σ1: everything aborted
  have c1 : Core σ.killAll α 0 := Core.killAll σ α 0 h.core
  have hna := killAll_no_active σ
  -- σ2: the vacuum transaction has begun
  obtain ⟨c2, _, tx2, _⟩ := begin_core σ.killAll α 0 c1
  rw [beginTxn_eq] at c2 tx2
  generalize hσ2 : ({ σ.killAll with txns := σ.killAll.txns ++ [⟨σ.killAll.freshSnap D0, .active, [], σ.killAll.clog.length⟩] } : State) = σ2 at c2 tx2
  have hσ2rows : σ2.rows = σ.rows := by rw [← hσ2]; rfl
  have hσ2txns : σ2.txns = σ.killAll.txns ++ [⟨σ.killAll.freshSnap D0, .active, [], σ.killAll.clog.length⟩] := by rw [← hσ2]
  have hσ2sess : σ2.sessions = [] := by rw [← hσ2]; rfl
  have hσ2lc : σ2.lastCommitted = σ.lastCommitted := by rw [← hσ2]; rfl
  have hσ2clock : σ2.clock = σ.clock := by rw [← hσ2]; rfl
  let vt := σ.killAll.txns.length
  let sV := σ.killAll.freshSnap D0
  have hsnap : σ2.snapOf vt = sV := by
    unfold State.snapOf
    rw [hσ2txns]
    simp [vt, sV]
  -- the stamps of the stored rows
  have hown : ∀ r ∈ σ2.rows, ∀ u ∈ r.owners, u < σ.killAll.txns.length := by
    intro r hr u hu
    rw [hσ2rows] at hr
    have := owners_lt σ 0 h.core.sinv r hr u hu
    rw [killAll_length]; exact this
  have hq := fun u hu => quiet_snapshot σ.killAll c1.cinv hna u hu
  -- σ3: the rows are cleaned
  generalize hr' : clean (σ2.snapOf vt) σ2.lastCommitted σ2.rows = rows'
  have hr'' : rows' = clean sV σ2.lastCommitted σ2.rows := by rw [← hr', hsnap]
  have hS3 : SInvF rows' σ2.txns σ2.clock 0 := by
    rw [hr'']
    refine ⟨?_, hsorted _ _ _ c2.sinv.sorted, ?_⟩
    · intro r' hr' u hu
      obtain ⟨r, hr, _, hsubo⟩ := hsub _ _ _ r' hr'
      obtain ⟨t, h1, h2⟩ := c2.sinv.stamps r hr u (hsubo u hu)
      obtain ⟨r0, hr0, hrid, _⟩ := hsub _ _ _ r' hr'
      exact ⟨t, h1, by
        obtain ⟨r1, hr1, hrid1, hsub1⟩ := hsub _ _ _ r' hr'
        obtain ⟨t', h1', h2'⟩ := c2.sinv.stamps r1 hr1 u (hsub1 u hu)
        rw [h1] at h1'; cases h1'
        rw [hrid1]; exact h2'⟩
    · intro r' hr'
      obtain ⟨r, hr, hrid, _⟩ := hsub _ _ _ r' hr'
      rw [hrid]; exact c2.sinv.bound r hr
  have hv3 : ∀ S, (∀ r ∈ σ2.rows, ∀ u ∈ r.owners, S.sees u = sV.cb u) → view D0 S rows' = view D0 S σ2.rows := by
    intro S hS
    rw [hr'']
    apply hview
    intro r hr u hu
    exact ⟨hS r hr u hu, (hq u (hown r hr u hu)).2.1⟩
  generalize hσ3 : ({ σ2 with rows := rows', txns := σ2.txns } : State) = σ3
  have hfresh3 : σ3.freshSnap D0 = σ2.freshSnap D0 := by rw [← hσ3]; rfl
  have c3 : Core σ3 α 0 := by
    rw [← hσ3]
    refine ⟨c2.cinv, hS3, c2.cat, c2.clock, ?_, c2.log⟩
    show view D0 (σ2.freshSnap D0) rows' = α.committed
    rw [← c2.committed]
    apply hv3
    intro r hr u hu
    have hult := hown r hr u hu
    apply bool_eq_of_iff
    have hlt2 : u < σ2.txns.length := by rw [hσ2txns]; simp; omega
    rw [fresh_sees σ2 c2.cinv u hlt2, (hq u hult).1]
    simp only [State.isCommitted, hσ2txns]
    constructor
    · rintro ⟨t, h1, h2⟩
      rcases getElem?_snoc.1 h1 with h1' | ⟨_, h1'⟩
      · exact ⟨t, h1', h2⟩
      · subst h1'; cases h2
    · rintro ⟨t, h1, h2⟩; exact ⟨t, getElem?_snoc.2 (Or.inl h1), h2⟩
  have tx3 : TxRel σ3 vt α.beginTxn := by
    obtain ⟨t, ht, hact, hvw, hws, hst⟩ := tx2
    refine ⟨t, by rw [← hσ3]; exact ht, hact, ?_, hws, hst⟩
    have htsnap : t.snap = sV := by
      have := hsnap
      unfold State.snapOf at this
      rw [show σ2.txns[vt]? = some t from ht] at this
      exact this
    rw [← hvw, ← hσ3]
    show view D0 t.snap rows' = view D0 t.snap σ2.rows
    rw [htsnap]
    apply hv3
    intro r hr u hu
    exact (hq u (hown r hr u hu)).2.2
  -- σ5: the vacuum transaction commits
  obtain ⟨_, c5, _⟩ := commit_core σ3 α 0 c3 vt α.beginTxn tx3
  rw [spec_tick] at c5
  -- assemble
  have hunf : σ.vacuumWith D0 false clean (fun _ txns => txns) =
      { (σ3.commitTxn vt).1 with clock := (σ3.commitTxn vt).1.clock + 1 } := by
    subst hσ3
    subst hr'
    subst hσ2
    rfl
  rw [hunf]
  unfold Rel
  have hsess5 : (σ3.commitTxn vt).1.sessions = [] := by
    rw [commitTxn_sessions, ← hσ3]; exact hσ2sess
  refine ⟨⟨c5.cinv, ⟨c5.sinv.stamps, c5.sinv.sorted, ?_⟩, c5.cat, ?_, c5.committed, c5.log⟩, ?_, ?_, ?_⟩
  · intro row hrow
    have := c5.sinv.bound row hrow
    unfold ridLt at *; simp only at *; omega
  · show (σ3.commitTxn vt).1.clock + 1 = α.clock + 1
    have := c5.clock
    simp only at this
    rw [this]
  · intro name tid hn
    simp [lkS, hsess5, lookup] at hn
  · intro name _
    simp [lkA, Spec.State.quiesce, lookup]
  · intro n1 n2 tid hn
    simp [lkS, hsess5, lookup] at hn

/-! ### reopen and VACUUM keep the simulation relation -/

theorem quiesce_rel (σ : State) (α : Spec.State) (h : Rel σ α) : Rel (σ.quiesce D0) α.quiesce := by
  unfold State.quiesce
  apply frame_rel σ α h
  · intro s hz rows r' hr'; exact ⟨r', hr', rfl, fun u hu => hu⟩
  · intro s hz rows hp; exact hp
  · intro s hz rows S _; rfl

theorem mem_vacuumRows {V : VDefects} {s : Snapshot} {h : Nat} {rows : List Row} {r' : Row} :
    r' ∈ vacuumRows V s h rows ↔ ∃ r ∈ rows, r.vacuum V s h = some r' := by
  simp [vacuumRows, List.mem_filterMap]

theorem vacuumRows_sorted (V : VDefects) (s : Snapshot) (h : Nat) (rows : List Row)
    (hp : rows.Pairwise (fun a b => ridLt a.rid b.rid)) :
    (vacuumRows V s h rows).Pairwise (fun a b => ridLt a.rid b.rid) := by
  unfold vacuumRows
  apply List.Pairwise.filterMap _ _ hp
  intro a a' haa b hb b' hb'
  rw [(Row.vacuum_some hb).1, (Row.vacuum_some hb').1]; exact haa

/-- **All rows.**  Under the hypotheses of `Row.vacuum_view` for every row, the whole store reads the same -/
theorem vacuumRows_view (s S : Snapshot) (h : Nat) (rows : List Row)
    (hS : ∀ r ∈ rows, ∀ u ∈ r.owners, S.sees u = s.cb u ∧ s.aborted.contains u = !s.cb u) :
    view D0 S (vacuumRows V0 s h rows) = view D0 S rows := by
  unfold view vacuumRows
  rw [List.filterMap_filterMap]
  apply filterMap_congr_mem
  intro r hr
  exact Row.vacuum_view s S h r (fun u hu => (hS r hr u hu).1) (fun u hu => (hS r hr u hu).2)

theorem vacuum_eq_frame (σ : State) :
    σ.vacuum D0 V0 = σ.vacuumWith D0 false (vacuumRows V0) (fun _ txns => txns) := rfl

theorem vacuum_rel (σ : State) (α : Spec.State) (h : Rel σ α) : Rel (σ.vacuum D0 V0) α.quiesce := by
  rw [vacuum_eq_frame]
  apply frame_rel σ α h
  · intro s hz rows r' hr'
    obtain ⟨r, hr, hv⟩ := mem_vacuumRows.1 hr'
    exact ⟨r, hr, (Row.vacuum_some hv).1, Row.vacuum_owners hv⟩
  · intro s hz rows hp; exact vacuumRows_sorted V0 s hz rows hp
  · intro s hz rows S hS; exact vacuumRows_view s S hz rows hS

/-! ### histories with VACUUM and reopen -/

/-- the relation for the machine with VACUUM: the database states are related and no session is marked killed -/
def VRel (τ : VState) (α : Spec.State) : Prop := Rel τ.db α ∧ τ.killed = []

theorem vstep_ok (τ : VState) (α : Spec.State) (h : VRel τ α) (o : VOp) :
    (vstep D0 V0 τ o).2 = .out (Spec.vstep α o).2 ∧ VRel (vstep D0 V0 τ o).1 (Spec.vstep α o).1 := by
  obtain ⟨hr, hk⟩ := h
  cases o with
  | vacuum =>
    refine ⟨rfl, ?_, ?_⟩
    · exact vacuum_rel τ.db α hr
    · show (if V0.vacuumLeavesSessionsOpen = true then τ.db.sessions.map (·.1) ++ τ.killed else τ.killed) = []
      simp [V0, VDefects.none, hk]
  | reopen => exact ⟨rfl, quiesce_rel τ.db α hr, rfl⟩
  | op o =>
    obtain ⟨ho, hr'⟩ := step_ok τ.db α hr o
    have hplain : vstep D0 V0 τ (.op o) = ({ τ with db := (step D0 τ.db o).1 }, .out (step D0 τ.db o).2) ∨
        vstep D0 V0 τ (.op o) = ({ db := (step D0 τ.db o).1, killed := [] }, .out (step D0 τ.db o).2) := by
      cases o <;> simp [vstep, hk]
    rcases hplain with e | e
    · rw [e]; exact ⟨by simp only [Spec.vstep]; rw [ho], by simpa [Spec.vstep] using hr', hk⟩
    · rw [e]; exact ⟨by simp only [Spec.vstep]; rw [ho], by simpa [Spec.vstep] using hr', rfl⟩

theorem vinit_rel (cat : Catalog) : VRel (VState.init cat) (Spec.State.init cat) := ⟨init_rel cat, rfl⟩

theorem vrunFrom_ok : ∀ (ops : List VOp) (τ : VState) (α : Spec.State), VRel τ α →
    vrunFrom D0 V0 τ ops = (Spec.vouts α ops).map VOut.out ∧ VRel (vfinal D0 V0 τ ops) (Spec.vfinal α ops)
  | [], _, _, h => ⟨rfl, h⟩
  | o :: os, τ, α, h => by
    obtain ⟨ho, hr⟩ := vstep_ok τ α h o
    obtain ⟨h1, h2⟩ := vrunFrom_ok os _ _ hr
    simp only [vrunFrom, Spec.vouts, vfinal, Spec.vfinal, List.map_cons]
    exact ⟨by rw [ho, h1], h2⟩

/-- every state reachable by a history with VACUUM and reopen is related to the abstract state of that history -/
theorem vreach_rel (cat : Catalog) (ops : List VOp) :
    VRel (vfinal D0 V0 (VState.init cat) ops) (Spec.vfinal (Spec.State.init cat) ops) :=
  (vrunFrom_ok ops _ _ (vinit_rel cat)).2

end AxVerif.Db
