/- Helper lemmas for the index part of C06 (core Lean only). -/
import AxVerif.Model.Index
import AxVerif.Lemmas.Sql
namespace AxVerif.Index
open AxVerif.Sql

instance (ix : Index) : Decidable (KeysDistinct ix) := by unfold KeysDistinct; exact inferInstance
instance (ix : Index) (rows : Rows) : Decidable (IndexConsistent ix rows) := by unfold IndexConsistent; exact inferInstance
instance (rows : Rows) : Decidable (RidsDistinct rows) := by unfold RidsDistinct; exact inferInstance

/-! ### entry level -/

theorem insertEntry_keys (e : Entry) (es : List Entry) :
    (insertEntry e es).map (·.key) = if e.key ∈ es.map (·.key) then es.map (·.key) else es.map (·.key) ++ [e.key] := by
  induction es with
  | nil => simp [insertEntry]
  | cons x xs ih =>
    simp only [insertEntry]
    by_cases h : x.key = e.key
    · simp only [h, if_true]
      split <;> simp [h]
    · simp only [h, if_false, List.map_cons, ih, List.mem_cons]
      have h' : ¬ e.key = x.key := fun h2 => h h2.symm
      simp only [h', false_or]
      split <;> simp

theorem insertEntry_keys_nodup (e : Entry) (es : List Entry) (h : (es.map (·.key)).Nodup) :
    ((insertEntry e es).map (·.key)).Nodup := by
  rw [insertEntry_keys]
  split
  · exact h
  · rename_i hn
    rw [List.nodup_append]
    refine ⟨h, by simp, ?_⟩
    intro a ha b hb
    simp only [List.mem_singleton] at hb
    subst hb
    intro hab
    exact hn (hab ▸ ha)

def pairOf (e : Entry) : List Value × Nat := (e.key, e.rid)

theorem livePairs_eq (ix : Index) : livePairs ix = (ix.entries.filter (fun e => !e.dead)).map pairOf := rfl

/-- inserting under a key no live entry has adds exactly one live pair -/
theorem insertEntry_live (e : Entry) (es : List Entry) (hd : e.dead = false)
    (hfree : ∀ x ∈ es, x.key = e.key → x.dead = true) :
    (((insertEntry e es).filter (fun e => !e.dead)).map pairOf).Perm
      (pairOf e :: (es.filter (fun e => !e.dead)).map pairOf) := by
  induction es with
  | nil => simp [insertEntry, hd]
  | cons x xs ih =>
    have ih' := ih (fun y hy => hfree y (by simp [hy]))
    simp only [insertEntry]
    by_cases h : x.key = e.key
    · have hx := hfree x (by simp) h
      simp only [h, if_true, hx]
      simp [List.filter_cons, hd, hx]
    · simp only [h, if_false, List.filter_cons]
      cases hx : x.dead
      · simp only [Bool.not_false, if_true, List.map_cons]
        exact (List.Perm.cons _ ih').trans (List.Perm.swap _ _ _)
      · simpa using ih'

theorem markDead_keys (key : List Value) (es : List Entry) : (markDead key es).map (·.key) = es.map (·.key) := by
  induction es with
  | nil => rfl
  | cons x xs ih =>
    simp only [markDead]
    by_cases h : x.key = key
    · simp only [h, if_true]; split <;> simp [h]
    · simp [h, ih]

/-- marking the live entry of a key removes exactly its pair -/
theorem markDead_live (key : List Value) (rid : Nat) (es : List Entry) (hk : (es.map (·.key)).Nodup)
    (hm : (key, rid) ∈ (es.filter (fun e => !e.dead)).map pairOf) :
    ((es.filter (fun e => !e.dead)).map pairOf).Perm
      ((key, rid) :: ((markDead key es).filter (fun e => !e.dead)).map pairOf) := by
  induction es with
  | nil => simp at hm
  | cons x xs ih =>
    simp only [List.map_cons, List.nodup_cons] at hk
    simp only [markDead]
    by_cases h : x.key = key
    · -- the entry with this key is the head: nothing else carries the key
      have hnot : ∀ y ∈ xs, y.key ≠ key := by
        intro y hy hyk
        exact hk.1 (by rw [h, ← hyk]; exact List.mem_map_of_mem hy)
      simp only [h, if_true]
      cases hx : x.dead
      · -- live: it must be the pair we look for
        have hrid : x.rid = rid := by
          simp only [List.filter_cons, hx, Bool.not_false, if_true, List.map_cons, List.mem_cons] at hm
          rcases hm with hm | hm
          · simp only [pairOf, Prod.mk.injEq] at hm; exact hm.2.symm
          · simp only [List.mem_map, List.mem_filter] at hm
            obtain ⟨y, ⟨hy, _⟩, hyp⟩ := hm
            simp only [pairOf, Prod.mk.injEq] at hyp
            exact absurd hyp.1 (hnot y hy)
        simp [List.filter_cons, hx, pairOf, h, hrid]
      · -- dead: then no live entry has the key at all
        exfalso
        simp only [List.filter_cons, hx, Bool.not_true, Bool.false_eq_true, if_false, List.mem_map, List.mem_filter] at hm
        obtain ⟨y, ⟨hy, _⟩, hyp⟩ := hm
        simp only [pairOf, Prod.mk.injEq] at hyp
        exact hnot y hy hyp.1
    · simp only [h, if_false, List.filter_cons]
      have hm' : (key, rid) ∈ (xs.filter (fun e => !e.dead)).map pairOf := by
        simp only [List.filter_cons] at hm
        cases hx : x.dead
        · simp only [hx, Bool.not_false, if_true, List.map_cons, List.mem_cons] at hm
          rcases hm with hm | hm
          · simp only [pairOf, Prod.mk.injEq] at hm; exact absurd hm.1.symm h
          · exact hm
        · simpa [hx] using hm
      have ih' := ih hk.2 hm'
      cases hx : x.dead
      · simp only [Bool.not_false, if_true, List.map_cons]
        exact (List.Perm.cons _ ih').trans (List.Perm.swap _ _ _)
      · simpa using ih'

/-- marking a key no live entry has changes nothing scans can see -/
theorem markDead_live_absent (key : List Value) (es : List Entry)
    (hm : ∀ x ∈ es, x.key = key → x.dead = true) :
    (markDead key es).filter (fun e => !e.dead) = es.filter (fun e => !e.dead) := by
  induction es with
  | nil => rfl
  | cons x xs ih =>
    simp only [markDead]
    by_cases h : x.key = key
    · have := hm x (by simp) h
      simp [h, this]
    · simp only [h, if_false, List.filter_cons, ih (fun y hy => hm y (by simp [hy]))]

/-! ### rows -/

theorem rowPairs_append (cols : List Nat) (rows : Rows) (rid : Nat) (row : Row) :
    rowPairs cols (rows ++ [(rid, row)])
      = rowPairs cols rows ++ (if hasNull (keyOf cols row) then [] else [(keyOf cols row, rid)]) := by
  simp only [rowPairs, List.filter_append, List.map_append, List.filter_cons, List.filter_nil]
  cases hasNull (keyOf cols row) <;> simp

theorem fetch_none_filter (rows : Rows) (rid : Nat) (h : fetch rows rid = none) :
    rows.filter (fun r => r.1 != rid) = rows := by
  simp only [fetch, Option.map_eq_none_iff, List.find?_eq_none] at h
  apply List.filter_eq_self.mpr
  intro r hr
  have := h r hr
  simpa using this

theorem fetch_some_mem (rows : Rows) (rid : Nat) (row : Row) (h : fetch rows rid = some row) : (rid, row) ∈ rows := by
  simp only [fetch, Option.map_eq_some_iff] at h
  obtain ⟨x, hx, rfl⟩ := h
  have hm := List.mem_of_find?_eq_some hx
  have hp := List.find?_some hx
  simp only [beq_iff_eq] at hp
  rw [← hp]
  exact hm

theorem fetch_of_mem (rows : Rows) (hd : RidsDistinct rows) (r : Nat × Row) (hr : r ∈ rows) : fetch rows r.1 = some r.2 := by
  induction rows with
  | nil => simp at hr
  | cons x xs ih =>
    simp only [RidsDistinct, List.map_cons, List.nodup_cons] at hd
    simp only [fetch, List.find?_cons]
    by_cases hx : x.1 = r.1
    · simp only [hx, beq_self_eq_true, Option.map_some]
      simp only [List.mem_cons] at hr
      rcases hr with rfl | hr
      · rfl
      · exfalso
        exact hd.1 (hx ▸ List.mem_map_of_mem hr)
    · have : (x.1 == r.1) = false := by simpa using hx
      simp only [this]
      simp only [List.mem_cons] at hr
      rcases hr with rfl | hr
      · exact absurd rfl hx
      · exact ih hd.2 hr

/-- removing the row with a given id removes exactly its pair -/
theorem rowPairs_remove (cols : List Nat) (rows : Rows) (hd : RidsDistinct rows) (rid : Nat) (old : Row)
    (hm : (rid, old) ∈ rows) :
    (rowPairs cols rows).Perm
      ((if hasNull (keyOf cols old) then [] else [(keyOf cols old, rid)]) ++ rowPairs cols (rows.filter (fun r => r.1 != rid))) := by
  induction rows with
  | nil => simp at hm
  | cons x xs ih =>
    simp only [RidsDistinct, List.map_cons, List.nodup_cons] at hd
    simp only [List.mem_cons] at hm
    rcases hm with rfl | hm
    · -- the head is the row; no other row has its id
      have hd1 : rid ∉ xs.map (·.1) := hd.1
      have hrest : xs.filter (fun r => r.1 != rid) = xs := by
        apply List.filter_eq_self.mpr
        intro r hr
        have : r.1 ≠ rid := fun h => hd1 (by rw [← h]; exact List.mem_map_of_mem hr)
        simpa using this
      simp only [List.filter_cons, bne_self_eq_false, Bool.false_eq_true, if_false, hrest]
      simp only [rowPairs, List.filter_cons]
      cases hasNull (keyOf cols old) <;> simp
    · have hne : x.1 ≠ rid := fun h => hd.1 (h ▸ List.mem_map_of_mem hm)
      have hb : (x.1 != rid) = true := by simpa using hne
      have ih' := ih hd.2 hm
      simp only [List.filter_cons, hb, if_true]
      simp only [rowPairs, List.filter_cons] at ih' ⊢
      cases hx : hasNull (keyOf cols x.2)
      · simp only [Bool.not_false, if_true, List.map_cons]
        refine (List.Perm.cons _ ih').trans ?_
        exact List.perm_middle.symm
      · simpa using ih'

theorem rids_filter (rows : Rows) (hd : RidsDistinct rows) (p : Nat × Row → Bool) : RidsDistinct (rows.filter p) := by
  simp only [RidsDistinct] at hd ⊢
  exact List.Nodup.sublist (List.Sublist.map _ List.filter_sublist) hd

/-- an update is a delete followed by an insert, as far as the multiset of rows goes -/
theorem update_perm (rows : Rows) (hd : RidsDistinct rows) (rid : Nat) (old new : Row) (hm : (rid, old) ∈ rows) :
    (rows.map (fun r => if r.1 == rid then (rid, new) else r)).Perm
      (rows.filter (fun r => r.1 != rid) ++ [(rid, new)]) := by
  induction rows with
  | nil => simp at hm
  | cons x xs ih =>
    simp only [RidsDistinct, List.map_cons, List.nodup_cons] at hd
    simp only [List.mem_cons] at hm
    rcases hm with rfl | hm
    · have hd1 : rid ∉ xs.map (·.1) := hd.1
      have hrest : ∀ r ∈ xs, r.1 ≠ rid := fun r hr h => hd1 (by rw [← h]; exact List.mem_map_of_mem hr)
      have h1 : xs.map (fun r => if r.1 == rid then (rid, new) else r) = xs := by
        conv => rhs; rw [← List.map_id xs]
        apply List.map_congr_left
        intro r hr
        have := hrest r hr
        simp [this]
      have h2 : xs.filter (fun r => r.1 != rid) = xs := by
        apply List.filter_eq_self.mpr
        intro r hr
        simpa using hrest r hr
      simp only [List.map_cons, beq_self_eq_true, if_true, h1, List.filter_cons, bne_self_eq_false, Bool.false_eq_true,
        if_false, h2]
      exact List.perm_append_singleton _ _ |>.symm
    · have hne : x.1 ≠ rid := fun h => hd.1 (h ▸ List.mem_map_of_mem hm)
      have hb : (x.1 == rid) = false := by simpa using hne
      have hb' : (x.1 != rid) = true := by simpa using hne
      simp only [List.map_cons, hb, Bool.false_eq_true, if_false, List.filter_cons, hb', if_true, List.cons_append]
      exact List.Perm.cons _ (ih hd.2 hm)

theorem rowPairs_perm (cols : List Nat) {r1 r2 : Rows} (h : r1.Perm r2) : (rowPairs cols r1).Perm (rowPairs cols r2) := by
  simp only [rowPairs]
  exact (h.filter _).map _

/-! ### maintenance keeps the index consistent -/

/-- no row of the table has this key (what the uniqueness check establishes before an insert) -/
def KeyFresh (ix : Index) (rows : Rows) (row : Row) : Prop :=
  hasNull (keyOf ix.cols row) = true ∨ keyOf ix.cols row ∉ (rowPairs ix.cols rows).map (·.1)

theorem insert_cols (ix : Index) (rid : Nat) (row : Row) : (ix.insert rid row).cols = ix.cols := by
  simp only [Index.insert]; split <;> rfl

theorem delete_cols (ix : Index) (row : Row) : (ix.delete row).cols = ix.cols := by
  simp only [Index.delete]; split <;> rfl

theorem insert_consistent (ix : Index) (rows : Rows) (rid : Nat) (row : Row) (hc : IndexConsistent ix rows)
    (hfresh : KeyFresh ix rows row) : IndexConsistent (ix.insert rid row) (rows ++ [(rid, row)]) := by
  obtain ⟨hk, hp⟩ := hc
  simp only [IndexConsistent, insert_cols, rowPairs_append]
  simp only [Index.insert]
  cases hn : hasNull (keyOf ix.cols row)
  · simp only [Bool.false_eq_true, if_false]
    rcases hfresh with hf | hf
    · rw [hn] at hf; simp at hf
    · constructor
      · exact insertEntry_keys_nodup _ _ hk
      · have hfree : ∀ x ∈ ix.entries, x.key = keyOf ix.cols row → x.dead = true := by
          intro x hx hxk
          cases hxd : x.dead
          · exfalso
            apply hf
            have : (x.key, x.rid) ∈ livePairs ix := by
              simp only [livePairs, Index.live, List.mem_map, List.mem_filter]
              exact ⟨x, ⟨hx, by simp [hxd]⟩, rfl⟩
            have := (hp.mem_iff).mp this
            rw [← hxk]
            exact List.mem_map_of_mem (f := (·.1)) this
          · rfl
        have := insertEntry_live { key := keyOf ix.cols row, rid := rid } ix.entries rfl hfree
        simp only [livePairs, Index.live]
        refine this.trans ?_
        simp only [pairOf]
        exact (List.Perm.cons _ hp).trans (List.perm_append_singleton _ _).symm
  · simp only [if_true, List.append_nil]
    exact ⟨hk, hp⟩

theorem delete_consistent (ix : Index) (rows : Rows) (rid : Nat) (old : Row) (hc : IndexConsistent ix rows)
    (hd : RidsDistinct rows) (hm : (rid, old) ∈ rows) :
    IndexConsistent (ix.delete old) (rows.filter (fun r => r.1 != rid)) := by
  obtain ⟨hk, hp⟩ := hc
  have hrem := rowPairs_remove ix.cols rows hd rid old hm
  simp only [IndexConsistent, delete_cols]
  simp only [Index.delete]
  cases hn : hasNull (keyOf ix.cols old)
  · simp only [Bool.false_eq_true, if_false]
    simp only [hn, Bool.false_eq_true, if_false, List.singleton_append] at hrem
    constructor
    · simp only [KeysDistinct, markDead_keys]; exact hk
    · have hmem : (keyOf ix.cols old, rid) ∈ (ix.entries.filter (fun e => !e.dead)).map pairOf := by
        have : (keyOf ix.cols old, rid) ∈ rowPairs ix.cols rows := (hrem.mem_iff).mpr (by simp)
        exact (hp.mem_iff).mpr this
      have hl := markDead_live (keyOf ix.cols old) rid ix.entries hk hmem
      have : ((keyOf ix.cols old, rid) :: ((markDead (keyOf ix.cols old) ix.entries).filter (fun e => !e.dead)).map pairOf).Perm
          ((keyOf ix.cols old, rid) :: rowPairs ix.cols (rows.filter (fun r => r.1 != rid))) :=
        hl.symm.trans (hp.trans hrem)
      exact this.cons_inv
  · simp only [if_true]
    simp only [hn, if_true, List.nil_append] at hrem
    exact ⟨hk, hp.trans hrem⟩

theorem consistent_of_perm (ix : Index) {r1 r2 : Rows} (h : r1.Perm r2) (hc : IndexConsistent ix r1) : IndexConsistent ix r2 :=
  ⟨hc.1, hc.2.trans (rowPairs_perm ix.cols h)⟩

theorem keyOf_congr (cols : List Nat) (a b : Row) (h : ∀ c ∈ cols, a.getD c .null = b.getD c .null) :
    keyOf cols a = keyOf cols b := by
  simp only [keyOf]
  exact List.map_congr_left h

theorem update_consistent (ix : Index) (rows : Rows) (rid : Nat) (old new : Row) (assigned : List Nat)
    (hc : IndexConsistent ix rows) (hd : RidsDistinct rows) (hm : (rid, old) ∈ rows)
    (hsame : ∀ c ∈ ix.cols, assigned.contains c = false → new.getD c .null = old.getD c .null)
    (hfresh : KeyFresh ix (rows.filter (fun r => r.1 != rid)) new) :
    IndexConsistent (ix.update {} rid old new assigned) (rows.map (fun r => if r.1 == rid then (rid, new) else r)) := by
  have hperm := update_perm rows hd rid old new hm
  apply consistent_of_perm _ hperm.symm
  simp only [Index.update]
  split
  · -- an indexed column is assigned: the entry moves
    simp only [Bool.false_eq_true, if_false]
    have h1 := delete_consistent ix rows rid old hc hd hm
    have hf : KeyFresh (ix.delete old) (rows.filter (fun r => r.1 != rid)) new := by
      simpa [KeyFresh, delete_cols] using hfresh
    exact insert_consistent _ _ rid new h1 hf
  · -- no indexed column is assigned: the key is the same
    rename_i hna
    have hkey : keyOf ix.cols new = keyOf ix.cols old := by
      apply keyOf_congr
      intro c hc'
      apply hsame c hc'
      simp only [List.any_eq_true, not_exists, not_and, Bool.not_eq_true] at hna
      exact hna c hc'
    obtain ⟨hk, hp⟩ := hc
    refine ⟨hk, hp.trans ?_⟩
    have hrem := rowPairs_remove ix.cols rows hd rid old hm
    rw [rowPairs_append, hkey]
    refine hrem.trans ?_
    exact List.perm_append_comm

theorem rids_apply (rows : Rows) (hd : RidsDistinct rows) : ∀ (op : Op),
    (match op with | .insert rid _ => rid ∉ rows.map (·.1) | _ => True) → RidsDistinct (apply rows op)
  | .insert rid row, h => by
    simp only [apply, RidsDistinct, List.map_append, List.map_cons, List.map_nil]
    rw [List.nodup_append]
    refine ⟨hd, by simp, ?_⟩
    intro a ha b hb
    simp only [List.mem_singleton] at hb
    subst hb
    intro hab
    exact h (hab ▸ ha)
  | .delete rid, _ => rids_filter rows hd _
  | .update rid new assigned, _ => by
    simp only [apply, RidsDistinct, List.map_map]
    have : (fun r : Nat × Row => r.1) ∘ (fun r => if r.1 == rid then (rid, new) else r) = (fun r => r.1) := by
      funext r
      simp only [Function.comp]
      split
      · rename_i h; simp only [beq_iff_eq] at h; exact h.symm
      · rfl
    rw [this]; exact hd

/-! ### scanning a consistent index -/

theorem filterMap_eq_map {α β} (l : List α) (f : α → Option β) (g : α → β) (h : ∀ x ∈ l, f x = some (g x)) :
    l.filterMap f = l.map g := by
  induction l with
  | nil => rfl
  | cons x xs ih => simp [List.filterMap_cons, h x (by simp), ih (fun y hy => h y (by simp [hy]))]

/-- Through a consistent index a scan delivers exactly the rows whose key lies inside the bounds (rows with NULL in the
    key have no entry). -/
theorem scan_perm (ix : Index) (rows : Rows) (lo hi : List Bound) (hc : IndexConsistent ix rows) (hd : RidsDistinct rows) :
    (Index.scan ix rows lo hi).Perm
      ((rows.filter (fun r => !hasNull (keyOf ix.cols r.2) && boundsOk lo hi (keyOf ix.cols r.2))).map (·.2)) := by
  let g : List (List Value × Nat) → List Row :=
    fun ps => (ps.filter (fun p => boundsOk lo hi p.1)).filterMap (fun p => fetch rows p.2)
  have h1 : Index.scan ix rows lo hi = g (ix.ordered.map pairOf) := by
    simp only [Index.scan, g, List.filter_map, List.filterMap_map]
    rfl
  have hperm : (ix.ordered.map pairOf).Perm (rowPairs ix.cols rows) := by
    have : ix.ordered.Perm ix.live := perm_sortBy _ _
    exact (this.map pairOf).trans hc.2
  have h2 : (g (ix.ordered.map pairOf)).Perm (g (rowPairs ix.cols rows)) := by
    simp only [g]
    exact (hperm.filter _).filterMap _
  rw [h1]
  refine h2.trans (List.Perm.of_eq ?_)
  simp only [g, rowPairs, List.filter_map, List.filter_filter, List.filterMap_map]
  rw [filterMap_eq_map _ _ (·.2)]
  · congr 1
    apply List.filter_congr
    intro r _
    simp [Function.comp, Bool.and_comm]
  · intro r hr
    simp only [List.mem_filter] at hr
    exact fetch_of_mem rows hd r hr.1

/-! ### INSERT and DELETE of one transaction on stamped entries -/

theorem mem_tPairs_cons (committed : List Nat) (self : Nat) (x : TEntry) (xs : List TEntry) (p : List Value × Nat) :
    p ∈ tPairs committed self (x :: xs)
      ↔ (x.visible committed self = true ∧ p = (x.key, x.rid)) ∨ p ∈ tPairs committed self xs := by
  simp only [tPairs, List.filter_cons]
  cases hv : x.visible committed self <;> simp

theorem tPairs_key_mem (committed : List Nat) (self : Nat) (es : List TEntry) (p : List Value × Nat)
    (h : p ∈ tPairs committed self es) : p.1 ∈ es.map (·.key) := by
  simp only [tPairs, List.mem_map, List.mem_filter] at h ⊢
  obtain ⟨e, ⟨he, _⟩, rfl⟩ := h
  exact ⟨e, he, rfl⟩

theorem seen_self (committed : List Nat) (self : Nat) : seen committed self self = true := by
  simp [seen]

theorem visible_new (committed : List Nat) (tid : Nat) (k : List Value) (rid : Nat) :
    TEntry.visible committed tid { key := k, rid := rid, xmin := tid } = true := by
  simp [TEntry.visible, seen_self]

theorem tDelete_head (committed : List Nat) (tid : Nat) (x : TEntry) (xs : List TEntry)
    (hv : x.visible committed tid = true) :
    tDelete committed tid x.key (x :: xs) = { x with xmax := some tid } :: xs := by
  simp [tDelete, hv]

theorem tInsert_head_marked (committed aborted : List Nat) (tid : Nat) (x : TEntry) (xs : List TEntry) (rid d : Nat)
    (hx : x.xmax = some d) :
    tInsert {} committed aborted tid x.key rid (x :: xs) = { key := x.key, rid := rid, xmin := tid } :: xs := by
  simp [tInsert, hx]

theorem tInsert_head_aborted (committed aborted : List Nat) (tid : Nat) (x : TEntry) (xs : List TEntry) (rid : Nat)
    (hx : aborted.contains x.xmin = true) :
    tInsert {} committed aborted tid x.key rid (x :: xs) = { key := x.key, rid := rid, xmin := tid } :: xs := by
  have hx' : x.xmin ∈ aborted := by simpa using hx
  simp [tInsert, hx']

theorem tInsert_tail (D : TxDefects) (committed aborted : List Nat) (tid : Nat) (k : List Value) (x : TEntry)
    (xs : List TEntry) (rid : Nat) (hk : ¬ x.key = k) :
    tInsert D committed aborted tid k rid (x :: xs) = x :: tInsert D committed aborted tid k rid xs := by
  simp [tInsert, hk]

theorem tDelete_tail (committed : List Nat) (tid : Nat) (k : List Value) (x : TEntry) (xs : List TEntry)
    (hk : ¬ x.key = k) : tDelete committed tid k (x :: xs) = x :: tDelete committed tid k xs := by
  simp [tDelete, hk]

/-- DELETE of the row under key `k` followed, in the same transaction, by INSERT of a row with key `k`: afterwards the
    transaction (and, once it has committed, everybody) sees exactly the new row under `k`, and every other key as before. -/
theorem delete_then_insert_pairs (committed aborted : List Nat) (tid : Nat) (k : List Value) (rid rid' : Nat) :
    ∀ (es : List TEntry), (es.map (·.key)).Nodup → (k, rid) ∈ tPairs committed tid es →
      ∀ p, p ∈ tPairs committed tid (tInsert {} committed aborted tid k rid' (tDelete committed tid k es))
        ↔ (p = (k, rid') ∨ (p ∈ tPairs committed tid es ∧ p.1 ≠ k))
  | [], _, hm, _ => by simp [tPairs] at hm
  | x :: xs, hn, hm, p => by
    simp only [List.map_cons, List.nodup_cons] at hn
    by_cases hk : x.key = k
    · -- the entry of the key is the head; nothing else carries the key
      subst hk
      have hnot : ∀ q ∈ tPairs committed tid xs, q.1 ≠ x.key := by
        intro q hq hqk
        exact hn.1 (by rw [← hqk]; exact tPairs_key_mem _ _ _ _ hq)
      have hvis : x.visible committed tid = true := by
        rcases (mem_tPairs_cons _ _ _ _ _).mp hm with h | h
        · exact h.1
        · exact absurd rfl (hnot _ h)
      rw [tDelete_head _ _ _ _ hvis]
      have := tInsert_head_marked committed aborted tid { x with xmax := some tid } xs rid' tid rfl
      simp only at this
      rw [this, mem_tPairs_cons, mem_tPairs_cons]
      simp only [visible_new, true_and, hvis]
      constructor
      · rintro (h | h)
        · exact Or.inl h
        · exact Or.inr ⟨Or.inr h, hnot p h⟩
      · rintro (h | ⟨h | h, hne⟩)
        · exact Or.inl h
        · exact absurd (by rw [h]) hne
        · exact Or.inr h
    · have hm' : (k, rid) ∈ tPairs committed tid xs := by
        rcases (mem_tPairs_cons _ _ _ _ _).mp hm with h | h
        · simp only [Prod.mk.injEq] at h
          exact absurd h.2.1.symm hk
        · exact h
      have ih := delete_then_insert_pairs committed aborted tid k rid rid' xs hn.2 hm' p
      rw [tDelete_tail _ _ _ _ _ hk, tInsert_tail _ _ _ _ _ _ _ _ hk, mem_tPairs_cons, mem_tPairs_cons, ih]
      constructor
      · rintro (⟨hv, h⟩ | h | ⟨h, hne⟩)
        · exact Or.inr ⟨Or.inl ⟨hv, h⟩, by rw [h]; exact hk⟩
        · exact Or.inl h
        · exact Or.inr ⟨Or.inr h, hne⟩
      · rintro (h | ⟨h | h, hne⟩)
        · exact Or.inr (Or.inl h)
        · exact Or.inl h
        · exact Or.inr (Or.inr ⟨h, hne⟩)

/-- Whenever the key is free — no entry, an entry with a delete mark, or one left behind by a rolled-back INSERT — the
    inserted row gets an entry the inserting transaction sees. -/
theorem insert_gets_entry (committed aborted : List Nat) (tid : Nat) (k : List Value) (rid' : Nat) :
    ∀ (es : List TEntry), (∀ e ∈ es, e.key = k → aborted.contains e.xmin = true ∨ e.xmax.isSome = true) →
      (k, rid') ∈ tPairs committed tid (tInsert {} committed aborted tid k rid' es)
  | [], _ => by simp [tInsert, tPairs, TEntry.visible, seen_self]
  | x :: xs, h => by
    by_cases hk : x.key = k
    · subst hk
      have hfree := h x (by simp) rfl
      have hrepl : tInsert {} committed aborted tid x.key rid' (x :: xs)
          = { key := x.key, rid := rid', xmin := tid } :: xs := by
        rcases hfree with hf | hf
        · exact tInsert_head_aborted _ _ _ _ _ _ hf
        · cases hx : x.xmax with
          | none => simp [hx] at hf
          | some d => exact tInsert_head_marked _ _ _ _ _ _ d hx
      rw [hrepl, mem_tPairs_cons]
      exact Or.inl ⟨visible_new _ _ _ _, rfl⟩
    · rw [tInsert_tail _ _ _ _ _ _ _ _ hk, mem_tPairs_cons]
      exact Or.inr (insert_gets_entry committed aborted tid k rid' xs (fun e he => h e (by simp [he])))

/-- the transaction's own view is the view of every later reader once the transaction has committed (a reader whose id
    stamps no entry) -/
theorem view_after_commit (committed : List Nat) (tid r : Nat) (es : List TEntry)
    (hr : ∀ e ∈ es, e.xmin ≠ r ∧ e.xmax ≠ some r) : tPairs (tid :: committed) r es = tPairs committed tid es := by
  simp only [tPairs]
  congr 1
  apply List.filter_congr
  intro e he
  obtain ⟨h1, h2⟩ := hr e he
  have hs : ∀ t, t ≠ r → seen (tid :: committed) r t = seen committed tid t := by
    intro t ht
    have : (t == r) = false := by simpa using ht
    simp only [seen, this, Bool.false_or, List.contains_cons]
  simp only [TEntry.visible, hs e.xmin h1]
  cases hx : e.xmax with
  | none => rfl
  | some x =>
    have : x ≠ r := fun h => h2 (by rw [hx, h])
    simp [hs x this]

end AxVerif.Index
