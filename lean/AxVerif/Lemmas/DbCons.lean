/-
  Constraints (C07): the committed database of the abstract machine always satisfies every declared constraint;
  characterisation of the uniqueness check against a view.
-/
import AxVerif.Lemmas.DbHist
namespace AxVerif.Db
open AxVerif.Db

theorem spec_commitC_holds (α : Spec.State) (a : Spec.ATxn) (h : constraintsHold α.cat α.committed = true) :
    constraintsHold α.cat (α.commitC a).1.committed = true := by
  unfold Spec.State.commitC
  split
  · split
    · exact h
    · rename_i h2
      simpa using h2
  · exact h

/-- every operation keeps `constraintsHold` on the committed database -/
theorem spec_step_holds (α : Spec.State) (op : Op) (h : constraintsHold α.cat α.committed = true) :
    constraintsHold (Spec.step α op).1.cat (Spec.step α op).1.committed = true := by
  rw [spec_step_cat]
  unfold Spec.step
  cases op <;> simp only [Spec.stepCore]
  · exact h
  · rename_i s
    cases lookup s α.sessions
    · exact h
    · exact spec_commitC_holds α _ h
  · rename_i s
    cases lookup s α.sessions <;> exact h
  · rename_i s
    cases lookup s α.sessions <;> exact h
  · rename_i s st
    cases lookup s α.sessions <;> exact h
  · rename_i st
    split
    · exact h
    · exact spec_commitC_holds α _ h
  · rename_i sts
    split
    · exact h
    · exact spec_commitC_holds α _ h
  · exact h
  · exact h

theorem spec_final_holds : ∀ (ops : List Op) (α : Spec.State), constraintsHold α.cat α.committed = true →
    constraintsHold (Spec.final α ops).cat (Spec.final α ops).committed = true
  | [], _, h => h
  | op :: ops, α, h => spec_final_holds ops _ (spec_step_holds α op h)

theorem spec_final_cat : ∀ (ops : List Op) (α : Spec.State), (Spec.final α ops).cat = α.cat
  | [], _ => rfl
  | op :: ops, α => by
    simp only [Spec.final]
    rw [spec_final_cat ops, spec_step_cat]

/-! ### the uniqueness check against a view -/

/-- `dupKey` says exactly: the key is fully non-NULL and some *other row of the view* carries it -/
theorem dupKey_iff (v : View) (t : String) (self : Option Rid) (K : List Nat) (vals : List Val) :
    dupKey v t self K vals = true ↔
      (.null ∉ keyOf K vals) ∧ ∃ x ∈ v, x.table = t ∧ some x.rid ≠ self ∧ keyOf K x.vals = keyOf K vals := by
  unfold dupKey
  simp only [Bool.and_eq_true, Bool.not_eq_eq_eq_not, Bool.not_true, List.contains_eq_mem, decide_eq_false_iff_not,
    List.any_eq_true, beq_iff_eq, bne_iff_ne, ne_eq]
  constructor
  · rintro ⟨h1, x, hx, ⟨h2, h3⟩, h4⟩
    exact ⟨h1, x, hx, h2, h3, h4⟩
  · rintro ⟨h1, x, hx, h2, h3, h4⟩
    exact ⟨h1, x, hx, ⟨h2, h3⟩, h4⟩

end AxVerif.Db
