/- Helper lemmas for the worker-pool model (C16): the bookkeeping invariant of `step`, its consequences,
   and the termination measure of the internal steps. -/
import AxVerif.Model.Pool
namespace AxVerif.Pool

/-- ids of all jobs the pool knows about: answered, running, queued -/
def allIds (s : State) : List Nat :=
  s.resp.map (·.1) ++ (s.busy.map (·.id) ++ s.queue.map (·.id))

/-- Bookkeeping invariant, relative to the pool size `n` and the kinds `ks` submitted so far. -/
structure Inv (n : Nat) (D : Defects) (ks : List Kind) (s : State) : Prop where
  next_eq : s.next = ks.length
  /-- every submitted job is in exactly one place, exactly once -/
  perm : (allIds s).Perm (List.range s.next)
  busyKind : ∀ j ∈ s.busy, ks[j.id]? = some j.kind
  queueKind : ∀ j ∈ s.queue, ks[j.id]? = some j.kind
  respKind : ∀ p ∈ s.resp, ∃ k, ks[p.1]? = some k ∧ p.2 = respOf k
  workers : s.idle + s.busy.length + s.dead = n
  dead0 : D.panicKillsWorker = false → s.dead = 0

theorem inv_init (n : Nat) (D : Defects) : Inv n D [] (init n) := by
  constructor <;> simp [init, allIds]

private theorem getElem?_append_some {ks : List Kind} {i : Nat} {k : Kind} (k' : List Kind)
    (h : ks[i]? = some k) : (ks ++ k')[i]? = some k := by
  have hi : i < ks.length := by
    rcases Nat.lt_or_ge i ks.length with h' | h'
    · exact h'
    · rw [List.getElem?_eq_none_iff.mpr h'] at h; cases h
  rw [List.getElem?_append_left hi]; exact h

theorem inv_submit {n D ks s} (k : Kind) (h : Inv n D ks s) : Inv n D (ks ++ [k]) (submit s k) := by
  obtain ⟨h1, h2, h3, h4, h5, h6, h7⟩ := h
  refine ⟨?_, ?_, ?_, ?_, ?_, ?_, ?_⟩
  · simp [submit, h1]
  · simp only [submit, allIds, List.map_append, List.map_cons, List.map_nil, List.range_succ]
    have : s.resp.map (·.1) ++ (s.busy.map (·.id) ++ (s.queue.map (·.id) ++ [s.next]))
        = allIds s ++ [s.next] := by simp [allIds]
    rw [this]
    exact List.Perm.append_right _ h2
  · intro j hj; exact getElem?_append_some _ (h3 j hj)
  · intro j hj
    simp only [submit, List.mem_append, List.mem_singleton] at hj
    rcases hj with hj | hj
    · exact getElem?_append_some _ (h4 j hj)
    · subst hj; simp [h1]
  · intro p hp
    obtain ⟨k0, hk0, hr⟩ := h5 p hp
    exact ⟨k0, getElem?_append_some _ hk0, hr⟩
  · simpa [submit] using h6
  · simpa [submit] using h7

theorem inv_take {n D ks s s'} (h : Inv n D ks s) (ht : take s = some s') : Inv n D ks s' := by
  obtain ⟨h1, h2, h3, h4, h5, h6, h7⟩ := h
  unfold take at ht
  split at ht
  · cases ht
  · rename_i j q hq
    split at ht
    · cases ht
    · rename_i hidle
      cases ht
      refine ⟨h1, ?_, ?_, ?_, h5, ?_, h7⟩
      · have : allIds { s with idle := s.idle - 1, queue := q, busy := s.busy ++ [j] } = allIds s := by
          simp [allIds, hq]
        rw [this]; exact h2
      · intro j' hj'
        simp only [List.mem_append, List.mem_singleton] at hj'
        rcases hj' with hj' | hj'
        · exact h3 j' hj'
        · subst hj'; exact h4 j' (by simp [hq])
      · intro j' hj'; exact h4 j' (by simp [hq, hj'])
      · simp only [List.length_append, List.length_singleton]; omega

theorem busy_split {s : State} {i : Nat} {j : Job} {post : List Job} (h : s.busy.drop i = j :: post) :
    s.busy = s.busy.take i ++ j :: post := by
  rw [← h, List.take_append_drop]

theorem inv_finish {n D ks s s'} (i : Nat) (h : Inv n D ks s) (hf : finish D s i = some s') :
    Inv n D ks s' := by
  obtain ⟨h1, h2, h3, h4, h5, h6, h7⟩ := h
  unfold finish at hf
  split at hf
  · cases hf
  · rename_i j post hd
    have hb := busy_split hd
    have hjmem : j ∈ s.busy := by rw [hb]; simp
    have hlen : s.busy.length = (s.busy.take i ++ post).length + 1 := by
      conv => lhs; rw [hb]
      simp only [List.length_append, List.length_cons]
      omega
    have hperm : (s.resp.map (·.1) ++ [j.id]) ++ ((s.busy.take i ++ post).map (·.id) ++ s.queue.map (·.id))
        |>.Perm (List.range s.next) := by
      refine List.Perm.trans ?_ h2
      unfold allIds
      conv => rhs; rw [hb]
      simp only [List.map_append, List.map_cons, List.append_assoc]
      refine List.Perm.append_left _ ?_
      simp only [List.singleton_append]
      exact (List.perm_middle).symm
    have hsub : ∀ j' ∈ s.busy.take i ++ post, j' ∈ s.busy := by
      intro j' hj'
      rw [hb]
      simp only [List.mem_append, List.mem_cons] at hj' ⊢
      rcases hj' with hj' | hj'
      · exact Or.inl hj'
      · exact Or.inr (Or.inr hj')
    have hresp : ∀ p ∈ s.resp ++ [(j.id, respOf j.kind)], ∃ k, ks[p.1]? = some k ∧ p.2 = respOf k := by
      intro p hp
      simp only [List.mem_append, List.mem_singleton] at hp
      rcases hp with hp | hp
      · exact h5 p hp
      · subst hp; exact ⟨j.kind, h3 j hjmem, rfl⟩
    split at hf
    · rename_i hc
      cases hf
      refine ⟨h1, ?_, fun j' hj' => h3 j' (hsub j' hj'), h4, hresp, ?_, ?_⟩
      · simpa [allIds] using hperm
      · simp only; omega
      · intro hD; simp [hD] at hc
    · cases hf
      refine ⟨h1, ?_, fun j' hj' => h3 j' (hsub j' hj'), h4, hresp, ?_, h7⟩
      · simpa [allIds] using hperm
      · simp only; omega

theorem inv_step {n D ks s s'} (st : Step) (h : Inv n D ks s) (hs : step D s st = some s') :
    Inv n D (ks ++ submitted [st]) s' := by
  cases st with
  | submit k =>
    simp only [step, Option.some.injEq] at hs
    subst hs
    simpa [submitted] using inv_submit k h
  | take => simpa [submitted] using inv_take h hs
  | finish i => simpa [submitted] using inv_finish i h hs

theorem submitted_cons (st : Step) (tr : List Step) : submitted (st :: tr) = submitted [st] ++ submitted tr := by
  cases st <;> simp [submitted]

theorem inv_run {n D} : ∀ (tr : List Step) {ks s s'}, Inv n D ks s → run D s tr = some s' →
    Inv n D (ks ++ submitted tr) s'
  | [], ks, s, s', h, hr => by
    simp only [run, Option.some.injEq] at hr
    subst hr; simpa [submitted] using h
  | st :: tr, ks, s, s', h, hr => by
    simp only [run] at hr
    split at hr
    · cases hr
    · rename_i s1 hs1
      have := inv_run tr (inv_step st h hs1) hr
      rw [submitted_cons, ← List.append_assoc]; exact this

/-- every reachable state satisfies the invariant -/
theorem inv_reachable {n D tr s} (hr : run D (init n) tr = some s) : Inv n D (submitted tr) s := by
  simpa using inv_run tr (inv_init n D) hr

/-! ### consequences of the invariant -/

theorem count_allIds {n D ks s} (h : Inv n D ks s) (i : Nat) :
    (allIds s).count i = if i < s.next then 1 else 0 := by
  rw [h.perm.count_eq, List.count_range]

theorem count_resp_le_one {n D ks s} (h : Inv n D ks s) (i : Nat) :
    (s.resp.map (·.1)).count i ≤ 1 := by
  have := count_allIds h i
  unfold allIds at this
  rw [List.count_append] at this
  split at this <;> omega

theorem response_of_mem {s : State} {i : Nat} {r : Resp} (hm : (i, r) ∈ s.resp) :
    ∃ r', response s i = some r' ∧ (i, r') ∈ s.resp := by
  unfold response
  cases hfind : s.resp.find? (fun p => p.1 == i) with
  | none =>
    have := List.find?_eq_none.mp hfind (i, r) hm
    simp at this
  | some p =>
    have hp := List.find?_some hfind
    have hmem := List.mem_of_find?_eq_some hfind
    simp only [beq_iff_eq] at hp
    refine ⟨p.2, rfl, ?_⟩
    rw [← hp]; exact hmem

theorem response_kind {n D ks s} (h : Inv n D ks s) {i : Nat} {r : Resp} (hr : response s i = some r) :
    ∃ k, ks[i]? = some k ∧ r = respOf k := by
  unfold response at hr
  cases hfind : s.resp.find? (fun p => p.1 == i) with
  | none => rw [hfind] at hr; cases hr
  | some p =>
    rw [hfind] at hr
    cases hr
    have hp := List.find?_some hfind
    have hmem := List.mem_of_find?_eq_some hfind
    simp only [beq_iff_eq] at hp
    obtain ⟨k, hk, hr⟩ := h.respKind p hmem
    exact ⟨k, hp ▸ hk, hr⟩

theorem quiescent_iff (s : State) : quiescent s = true ↔ s.busy = [] ∧ (s.queue = [] ∨ s.idle = 0) := by
  simp [quiescent, List.isEmpty_iff]

/-! ### progress and termination of the internal steps -/

theorem take_enabled {s : State} (hq : s.queue ≠ []) (hi : 0 < s.idle) : (take s).isSome = true := by
  unfold take
  cases hqq : s.queue with
  | nil => exact absurd hqq hq
  | cons j q =>
    have : ¬ s.idle = 0 := by omega
    simp [this]

theorem finish_enabled (D : Defects) {s : State} (hb : s.busy ≠ []) : (finish D s 0).isSome = true := by
  unfold finish
  cases hbb : s.busy with
  | nil => exact absurd hbb hb
  | cons j q =>
    simp only [List.drop_zero]
    split <;> rfl

theorem take_measure {s s' : State} (h : take s = some s') : measure s' + 1 = measure s := by
  unfold take at h
  split at h
  · cases h
  · rename_i j q hq
    split at h
    · cases h
    · cases h
      simp only [measure, hq, List.length_append, List.length_cons, List.length_nil]
      omega

theorem finish_measure {D} {s s' : State} {i : Nat} (h : finish D s i = some s') :
    measure s' + 1 = measure s := by
  unfold finish at h
  split at h
  · cases h
  · rename_i j post hd
    have hb := busy_split hd
    have hlen : s.busy.length = (s.busy.take i ++ post).length + 1 := by
      conv => lhs; rw [hb]
      simp only [List.length_append, List.length_cons]
      omega
    split at h <;> (cases h; simp only [measure]; omega)

theorem take_next {s s' : State} (h : take s = some s') : s'.next = s.next := by
  unfold take at h
  split at h
  · cases h
  · split at h
    · cases h
    · cases h; rfl

/-! ### schedules -/

theorem run_append {D : Defects} : ∀ {tr1 : List Step} {s s1 s2 : State} {tr2 : List Step},
    run D s tr1 = some s1 → run D s1 tr2 = some s2 → run D s (tr1 ++ tr2) = some s2
  | [], s, s1, s2, tr2, h1, h2 => by
    simp only [run, Option.some.injEq] at h1
    subst h1; simpa using h2
  | st :: tr1, s, s1, s2, tr2, h1, h2 => by
    simp only [run, List.cons_append] at h1 ⊢
    split at h1
    · cases h1
    · exact run_append h1 h2

theorem submitted_append (a b : List Step) : submitted (a ++ b) = submitted a ++ submitted b := by
  induction a with
  | nil => simp [submitted]
  | cons st a ih => rw [List.cons_append, submitted_cons, submitted_cons st a, ih, List.append_assoc]

theorem submitted_internal (tr : List Step) (h : ∀ st ∈ tr, st.internal = true) : submitted tr = [] := by
  induction tr with
  | nil => rfl
  | cons st tr ih =>
    have h1 := h st (by simp)
    have h2 := ih (fun x hx => h x (by simp [hx]))
    cases st with
    | submit k => cases h1
    | take => simpa [submitted] using h2
    | finish i => simpa [submitted] using h2

theorem submitted_append_internal (tr tr1 : List Step) (h : ∀ st ∈ tr1, st.internal = true) :
    submitted (tr ++ tr1) = submitted tr := by
  rw [submitted_append, submitted_internal tr1 h, List.append_nil]

/-! ### the canonical schedule of the driver is a schedule of the state machine -/

theorem take_none_iff (s : State) : take s = none ↔ s.queue = [] ∨ s.idle = 0 := by
  unfold take
  cases hq : s.queue with
  | nil => simp
  | cons j q =>
    by_cases hi : s.idle = 0 <;> simp [hi]

theorem finish0_none_iff (D : Defects) (s : State) : finish D s 0 = none ↔ s.busy = [] := by
  unfold finish
  cases hb : s.busy with
  | nil => simp
  | cons j q =>
    simp only [List.drop_zero]
    split <;> simp

theorem drain_run (D : Defects) : ∀ (fuel : Nat) (s : State),
    ∃ tr, (∀ st ∈ tr, st.internal = true) ∧ run D s tr = some (drain D fuel s)
  | 0, s => ⟨[], by simp, rfl⟩
  | fuel + 1, s => by
    unfold drain
    cases ht : take s with
    | some s1 =>
      obtain ⟨tr, h1, h2⟩ := drain_run D fuel s1
      refine ⟨.take :: tr, ?_, ?_⟩
      · intro st hst
        rcases List.mem_cons.mp hst with h | h
        · subst h; rfl
        · exact h1 st h
      · simp only [run, step, ht]; exact h2
    | none =>
      cases hf : finish D s 0 with
      | some s1 =>
        obtain ⟨tr, h1, h2⟩ := drain_run D fuel s1
        refine ⟨.finish 0 :: tr, ?_, ?_⟩
        · intro st hst
          rcases List.mem_cons.mp hst with h | h
          · subst h; rfl
          · exact h1 st h
        · simp only [run, step, hf]; exact h2
      | none => exact ⟨[], by simp, rfl⟩

theorem drain_quiescent (D : Defects) : ∀ (fuel : Nat) (s : State), measure s < fuel →
    quiescent (drain D fuel s) = true
  | 0, s, h => by omega
  | fuel + 1, s, h => by
    unfold drain
    cases ht : take s with
    | some s1 =>
      have := take_measure ht
      exact drain_quiescent D fuel s1 (by omega)
    | none =>
      cases hf : finish D s 0 with
      | some s1 =>
        have := finish_measure hf
        exact drain_quiescent D fuel s1 (by omega)
      | none =>
        simp only
        rw [quiescent_iff]
        exact ⟨(finish0_none_iff D s).mp hf, (take_none_iff s).mp ht⟩

theorem settle_spec (D : Defects) (s : State) :
    (∃ tr, (∀ st ∈ tr, st.internal = true) ∧ run D s tr = some (settle D s)) ∧ quiescent (settle D s) = true :=
  ⟨drain_run D _ s, drain_quiescent D _ s (Nat.lt_succ_self _)⟩

def Op.kinds : Op → List Kind
  | .call k => [k]
  | .burst ks => ks

theorem foldl_submit_run (D : Defects) : ∀ (ks : List Kind) (s : State),
    run D s (ks.map Step.submit) = some (ks.foldl submit s) ∧ submitted (ks.map Step.submit) = ks
  | [], s => ⟨rfl, rfl⟩
  | k :: ks, s => by
    have ⟨h1, h2⟩ := foldl_submit_run D ks (submit s k)
    exact ⟨by simpa [run, step] using h1, by simp [submitted, h2]⟩

theorem execOp_run (D : Defects) (s : State) (op : Op) :
    ∃ tr, run D s tr = some (execOp D s op) ∧ submitted tr = op.kinds ∧ quiescent (execOp D s op) = true := by
  have key : ∀ ks : List Kind, ∃ tr, run D s tr = some (settle D (ks.foldl submit s)) ∧ submitted tr = ks ∧
      quiescent (settle D (ks.foldl submit s)) = true := by
    intro ks
    obtain ⟨h1, h2⟩ := foldl_submit_run D ks s
    obtain ⟨⟨tr, h3, h4⟩, h5⟩ := settle_spec D (ks.foldl submit s)
    exact ⟨ks.map Step.submit ++ tr, run_append h1 h4, by rw [submitted_append_internal _ _ h3, h2], h5⟩
  cases op with
  | call k => simpa [execOp, Op.kinds] using key [k]
  | burst ks => simpa [execOp, Op.kinds] using key ks

theorem exec_run_from (D : Defects) : ∀ (ops : List Op) (s : State), quiescent s = true →
    ∃ tr, run D s tr = some (ops.foldl (execOp D) s) ∧ submitted tr = (ops.map Op.kinds).flatten ∧
      quiescent (ops.foldl (execOp D) s) = true
  | [], s, hq => ⟨[], rfl, rfl, hq⟩
  | op :: ops, s, _ => by
    obtain ⟨tr1, h1, h2, h3⟩ := execOp_run D s op
    obtain ⟨tr2, h4, h5, h6⟩ := exec_run_from D ops (execOp D s op) h3
    refine ⟨tr1 ++ tr2, run_append h1 h4, ?_, h6⟩
    rw [submitted_append, h2, h5]; simp

/-! ### a pool without live workers is stuck -/

theorem stuck_run (D : Defects) : ∀ (tr : List Step) (s s' : State), s.idle = 0 → s.busy = [] →
    run D s tr = some s' → s'.idle = 0 ∧ s'.busy = [] ∧ s'.resp = s.resp
  | [], s, s', hi, hb, hr => by
    simp only [run, Option.some.injEq] at hr
    subst hr; exact ⟨hi, hb, rfl⟩
  | st :: tr, s, s', hi, hb, hr => by
    simp only [run] at hr
    split at hr
    · cases hr
    · rename_i s1 hs1
      cases st with
      | submit k =>
        simp only [step, Option.some.injEq] at hs1
        subst hs1
        exact stuck_run D tr (submit s k) s' hi hb hr
      | take =>
        have : take s = none := (take_none_iff s).mpr (Or.inr hi)
        simp only [step, this] at hs1
        cases hs1
      | finish i =>
        simp [step, finish, hb] at hs1

theorem response_none_of_not_mem {s : State} {i : Nat} (h : i ∉ s.resp.map (·.1)) : response s i = none := by
  unfold response
  cases hfind : s.resp.find? (fun p => p.1 == i) with
  | none => rfl
  | some p =>
    have hp := List.find?_some hfind
    have hmem := List.mem_of_find?_eq_some hfind
    simp only [beq_iff_eq] at hp
    exact absurd (List.mem_map.mpr ⟨p, hmem, hp⟩) h

theorem response_congr {s s' : State} (h : s'.resp = s.resp) (i : Nat) : response s' i = response s i := by
  unfold response; rw [h]

/-- one job that panics, run to its end by one worker -/
def panicRound : List Step := [.submit .panic, .take, .finish 0]

/-- `n` panicking jobs, one after the other -/
def killAll (n : Nat) : List Step := (List.replicate n panicRound).flatten

theorem killAll_run : ∀ (m d nx : Nat) (resp : List (Nat × Resp)),
    ∃ resp', run { panicKillsWorker := true } ⟨m, d, [], [], resp, nx⟩ (killAll m)
      = some ⟨0, d + m, [], [], resp', nx + m⟩
  | 0, d, nx, resp => ⟨resp, rfl⟩
  | m + 1, d, nx, resp => by
    obtain ⟨resp', h⟩ := killAll_run m (d + 1) (nx + 1) (resp ++ [(nx, Resp.panicAsError)])
    refine ⟨resp', ?_⟩
    have hk : killAll (m + 1) = panicRound ++ killAll m := by
      simp [killAll, List.replicate_succ]
    rw [hk]
    refine run_append (s1 := ⟨m, d + 1, [], [], resp ++ [(nx, Resp.panicAsError)], nx + 1⟩) ?_ ?_
    · simp [panicRound, run, step, submit, take, finish, respOf]
    · have e1 : d + 1 + m = d + (m + 1) := by omega
      have e2 : nx + 1 + m = nx + (m + 1) := by omega
      rw [h, e1, e2]

/-! ### the shipped worker loop: FIFO invariant and panic accounting (for schedule independence) -/

/-- the shipped worker loop -/
def shipped : Defects := { panicKillsWorker := true }

/-- job `i` is a panicking job -/
def isPanicId (ks : List Kind) (i : Nat) : Bool := ks[i]? == some Kind.panic

/-- number of panicking jobs among the first `i` submitted -/
def panicsBefore (ks : List Kind) (i : Nat) : Nat := (ks.take i).count Kind.panic

theorem countP_range_isPanic (ks : List Kind) : ∀ t, (List.range t).countP (isPanicId ks) = panicsBefore ks t
  | 0 => by simp [panicsBefore]
  | t + 1 => by
    rw [List.range_succ, List.countP_append, countP_range_isPanic ks t, List.countP_singleton]
    unfold panicsBefore isPanicId
    rw [List.take_add_one, List.count_append]
    cases h : ks[t]? with
    | none => simp
    | some k => cases k <;> simp

theorem panicsBefore_mono (ks : List Kind) {i j : Nat} (h : i ≤ j) : panicsBefore ks i ≤ panicsBefore ks j :=
  (List.take_sublist_take_left h).count_le _

theorem panicsBefore_append (ks : List Kind) (k : Kind) {i : Nat} (h : i ≤ ks.length) :
    panicsBefore (ks ++ [k]) i = panicsBefore ks i := by
  unfold panicsBefore
  rw [List.take_append_of_le_length h]

theorem respOf_eq_panic (k : Kind) : (respOf k == Resp.panicAsError) = (k == Kind.panic) := by
  cases k <;> rfl

/-- among the answers, the panicking jobs are exactly the `panicAsError` answers -/
theorem resp_panic_count {ks : List Kind} : ∀ (resp : List (Nat × Resp)),
    (∀ p ∈ resp, ∃ k, ks[p.1]? = some k ∧ p.2 = respOf k) →
    (resp.map (·.1)).countP (isPanicId ks) = resp.countP (fun p => p.2 == Resp.panicAsError)
  | [], _ => rfl
  | p :: rest, h => by
    have ih := resp_panic_count rest (fun q hq => h q (by simp [hq]))
    obtain ⟨k, hk, hr⟩ := h p (by simp)
    simp only [List.map_cons, List.countP_cons, ih]
    have : isPanicId ks p.1 = (p.2 == Resp.panicAsError) := by
      unfold isPanicId
      rw [hk, hr, respOf_eq_panic]
      cases k <;> rfl
    rw [this]

/-- Invariant of the shipped loop: the queue holds the youngest jobs in submission order, every dead worker is
    accounted for by one panic answer, and every job that was ever taken had fewer than `n` panicking jobs before it. -/
structure InvS (n : Nat) (ks : List Kind) (s : State) : Prop where
  base : Inv n shipped ks s
  fifo : ∃ t, t + s.queue.length = s.next ∧ s.queue.map (·.id) = List.range' t s.queue.length ∧
    ∀ i, i < t → panicsBefore ks i < n
  dead_eq : s.dead = s.resp.countP (fun p => p.2 == Resp.panicAsError)

theorem invS_init (n : Nat) : InvS n [] (init n) :=
  ⟨inv_init n shipped, ⟨0, by simp [init], by simp [init], fun i h => absurd h (Nat.not_lt_zero i)⟩, by simp [init]⟩

/-- ids of the jobs already taken (answered or running) are exactly `0 … t-1` -/
theorem taken_perm {n ks s} (h : Inv n shipped ks s) {t : Nat} (ht : t + s.queue.length = s.next)
    (hq : s.queue.map (·.id) = List.range' t s.queue.length) :
    (s.resp.map (·.1) ++ s.busy.map (·.id)).Perm (List.range t) := by
  have hp := h.perm
  unfold allIds at hp
  rw [← List.append_assoc, hq] at hp
  have hr : List.range s.next = List.range t ++ List.range' t s.queue.length := by
    rw [← ht, List.range_eq_range', List.range_eq_range']
    have := @List.range'_append 0 t s.queue.length 1
    simp only [Nat.one_mul, Nat.zero_add] at this
    exact this.symm
  rw [hr] at hp
  exact (List.perm_append_right_iff _).mp hp

/-- the number of panicking jobs among the taken ones = dead workers + running panicking jobs -/
theorem panics_taken {n ks s} (h : InvS n ks s) {t : Nat} (ht : t + s.queue.length = s.next)
    (hq : s.queue.map (·.id) = List.range' t s.queue.length) :
    panicsBefore ks t = s.dead + (s.busy.map (·.id)).countP (isPanicId ks) := by
  have hp := taken_perm h.base ht hq
  rw [← countP_range_isPanic, ← hp.countP_eq, List.countP_append, resp_panic_count s.resp h.base.respKind, h.dead_eq]

theorem invS_submit {n ks s} (k : Kind) (h : InvS n ks s) : InvS n (ks ++ [k]) (submit s k) := by
  obtain ⟨t, ht, hq, hh⟩ := h.fifo
  refine ⟨inv_submit k h.base, ⟨t, ?_, ?_, ?_⟩, ?_⟩
  · simp only [submit, List.length_append, List.length_singleton]; omega
  · simp only [submit, List.map_append, List.map_cons, List.map_nil, List.length_append, List.length_singleton]
    rw [List.range'_1_concat, hq]
    congr 2
    omega
  · intro i hi
    have hle : i ≤ ks.length := by have := h.base.next_eq; omega
    rw [panicsBefore_append ks k hle]; exact hh i hi
  · simpa [submit] using h.dead_eq

theorem invS_take {n ks s s'} (h : InvS n ks s) (htk : take s = some s') : InvS n ks s' := by
  obtain ⟨t, ht, hq, hh⟩ := h.fifo
  have hbase := inv_take h.base htk
  have hpt := panics_taken h ht hq
  have hw := h.base.workers
  unfold take at htk
  split at htk
  · cases htk
  · rename_i j q hqq
    split at htk
    · cases htk
    · rename_i hidle
      cases htk
      rw [hqq] at ht hq
      simp only [List.map_cons, List.length_cons, List.range'_succ, List.cons.injEq] at ht hq
      refine ⟨hbase, ⟨t + 1, ?_, ?_, ?_⟩, h.dead_eq⟩
      · simp only; omega
      · simpa using hq.2
      · intro i hi
        rcases Nat.lt_or_ge i t with hlt | hge
        · exact hh i hlt
        · have : i = t := by omega
          subst this
          have hle : (s.busy.map (·.id)).countP (isPanicId ks) ≤ s.busy.length := by
            have := @List.countP_le_length _ (isPanicId ks) (s.busy.map (·.id))
            simpa using this
          omega

theorem invS_finish {n ks s s'} (i : Nat) (h : InvS n ks s) (hf : finish shipped s i = some s') : InvS n ks s' := by
  obtain ⟨t, ht, hq, hh⟩ := h.fifo
  have hbase := inv_finish i h.base hf
  unfold finish at hf
  split at hf
  · cases hf
  · rename_i j post hd
    split at hf
    · rename_i hc
      cases hf
      refine ⟨hbase, ⟨t, ht, hq, hh⟩, ?_⟩
      have hk : j.kind = Kind.panic := by simpa [shipped] using hc
      simp only [List.countP_append, List.countP_singleton, hk, respOf]
      have := h.dead_eq
      simp only [beq_self_eq_true, if_true]
      omega
    · rename_i hc
      cases hf
      refine ⟨hbase, ⟨t, ht, hq, hh⟩, ?_⟩
      have hk : (j.kind == Kind.panic) = false := by simpa [shipped] using hc
      have hr : (respOf j.kind == Resp.panicAsError) = false := by rw [respOf_eq_panic]; exact hk
      simp only [List.countP_append, List.countP_singleton, hr]
      have := h.dead_eq
      simp only [Bool.false_eq_true, if_false, Nat.add_zero]
      exact this

theorem invS_step {n ks s s'} (st : Step) (h : InvS n ks s) (hs : step shipped s st = some s') :
    InvS n (ks ++ submitted [st]) s' := by
  cases st with
  | submit k =>
    simp only [step, Option.some.injEq] at hs
    subst hs
    simpa [submitted] using invS_submit k h
  | take => simpa [submitted] using invS_take h hs
  | finish i => simpa [submitted] using invS_finish i h hs

theorem invS_run {n} : ∀ (tr : List Step) {ks s s'}, InvS n ks s → run shipped s tr = some s' →
    InvS n (ks ++ submitted tr) s'
  | [], ks, s, s', h, hr => by
    simp only [run, Option.some.injEq] at hr
    subst hr; simpa [submitted] using h
  | st :: tr, ks, s, s', h, hr => by
    simp only [run] at hr
    split at hr
    · cases hr
    · rename_i s1 hs1
      have := invS_run tr (invS_step st h hs1) hr
      rw [submitted_cons, ← List.append_assoc]; exact this

theorem invS_reachable {n tr s} (hr : run shipped (init n) tr = some s) : InvS n (submitted tr) s := by
  simpa using invS_run tr (invS_init n) hr

end AxVerif.Pool
