/- Helper lemmas for the worker-pool model (C16). -/
import AxVerif.Model.Pool
namespace AxVerif.Pool

end AxVerif.Pool
