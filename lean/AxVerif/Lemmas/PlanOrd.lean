/- Lemmas about orderings and the sort enforcer (Model/Plan, section "Orderings and the sort enforcer"). -/
import AxVerif.Lemmas.Plan
namespace AxVerif.Plan
open AxVerif.Sql AxVerif.Index

theorem leads_iff_prefix (r : List OrdKey) (d : List DKey) : leads r d = true ↔ r.map some <+: d := by
  induction r generalizing d with
  | nil => simp [leads]
  | cons k rs ih =>
    cases d with
    | nil => simp [leads]
    | cons x ds =>
      simp only [leads, Bool.and_eq_true, beq_iff_eq, List.map_cons, ih, List.cons_prefix_cons]
      constructor
      · rintro ⟨h, h'⟩; exact ⟨h.symm, h'⟩
      · rintro ⟨h, h'⟩; exact ⟨h.symm, h'⟩

theorem leadsZip_of_leads (r : List OrdKey) (d : List DKey) (h : leads r d = true) : leadsZip r d = true := by
  induction r generalizing d with
  | nil => simp [leadsZip]
  | cons k rs ih =>
    cases d with
    | nil => simp [leads] at h
    | cons x ds =>
      simp only [leads, Bool.and_eq_true] at h
      simp only [leadsZip, Bool.and_eq_true]
      exact ⟨h.1, ih ds h.2⟩

/-- the `zip` reading accepts exactly the pairs where one list leads the other -/
theorem leadsZip_iff (r : List OrdKey) (d : List DKey) :
    leadsZip r d = true ↔ (r.map some <+: d ∨ d <+: r.map some) := by
  induction r generalizing d with
  | nil => simp [leadsZip]
  | cons k rs ih =>
    cases d with
    | nil => simp [leadsZip]
    | cons x ds =>
      simp only [leadsZip, Bool.and_eq_true, beq_iff_eq, List.map_cons, ih, List.cons_prefix_cons]
      constructor
      · rintro ⟨h, h' | h'⟩
        · exact Or.inl ⟨h.symm, h'⟩
        · exact Or.inr ⟨h, h'⟩
      · rintro (⟨h, h'⟩ | ⟨h, h'⟩)
        · exact ⟨h.symm, Or.inl h'⟩
        · exact ⟨h, Or.inr h'⟩

theorem leOn_nil (nf : Bool) (a b : Row) : leOn nf [] a b = true := by
  simp [leOn, keysOf, cmpKeys]

theorem leOn_cons (nf : Bool) (k : OrdKey) (ks : List OrdKey) (a b : Row) :
    leOn nf (k :: ks) a b =
      (Sql.lexOrd (cmpKey nf k.asc (a.getD k.col .null) (b.getD k.col .null))
        (cmpKeys nf (ks.map (·.asc)) (keysOf ks a) (keysOf ks b)) != .gt) := by
  simp [leOn, keysOf, cmpKeys]

/-- an input ordered by `r ++ t` is ordered by `r` -/
theorem leOn_prefix (nf : Bool) (r t : List OrdKey) (a b : Row) (h : leOn nf (r ++ t) a b = true) :
    leOn nf r a b = true := by
  induction r with
  | nil => exact leOn_nil nf a b
  | cons k rs ih =>
    rw [List.cons_append, leOn_cons] at h
    rw [leOn_cons]
    cases hc : cmpKey nf k.asc (a.getD k.col .null) (b.getD k.col .null) with
    | lt => simp [Sql.lexOrd]
    | gt => rw [hc] at h; simp [Sql.lexOrd] at h
    | eq =>
      simp only [hc, Sql.lexOrd] at h ⊢
      exact ih h

theorem sortedOn_prefix (nf : Bool) (r t : List OrdKey) (rows : List Row) (h : SortedOn nf (r ++ t) rows) :
    SortedOn nf r rows :=
  List.Pairwise.imp (fun {a b} hab => leOn_prefix nf r t a b hab) h

theorem sortedOnB_iff (nf : Bool) (ks : List OrdKey) (rows : List Row) :
    sortedOnB nf ks rows = true ↔ SortedOn nf ks rows := by
  induction rows with
  | nil => simp [sortedOnB, SortedOn]
  | cons a rest ih =>
    simp only [sortedOnB, Bool.and_eq_true, List.all_eq_true, ih, SortedOn, List.pairwise_cons]

theorem leOn_total (nf : Bool) (ks : List OrdKey) (a b : Row) : leOn nf ks a b = true ∨ leOn nf ks b a = true :=
  leKeys_total nf (ks.map (fun (k : OrdKey) => k.asc)) (keysOf ks a, a) (keysOf ks b, b)

theorem leOn_trans (nf : Bool) (ks : List OrdKey) (a b c : Row) :
    leOn nf ks a b = true → leOn nf ks b c = true → leOn nf ks a c = true :=
  leKeys_trans nf (ks.map (fun (k : OrdKey) => k.asc)) (keysOf ks a, a) (keysOf ks b, b) (keysOf ks c, c)

theorem sortOn_sorted (nf : Bool) (ks : List OrdKey) (rows : List Row) : SortedOn nf ks (sortOn nf ks rows) :=
  sorted_sortBy (leOn nf ks) (leOn_total nf ks) (leOn_trans nf ks) rows

theorem sortOn_perm (nf : Bool) (ks : List OrdKey) (rows : List Row) : (sortOn nf ks rows).Perm rows :=
  perm_sortBy _ rows

end AxVerif.Plan
