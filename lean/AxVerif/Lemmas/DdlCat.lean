/-
  Catalog lemmas for C15: name uniqueness as an invariant, name resolution, frame of DDL effects.
-/
import AxVerif.Lemmas.DdlSim
import AxVerif.Lemmas.DbCons
namespace AxVerif.Ddl
open AxVerif.Db

/-! ### names of live relations are unique (invariant of the abstract machine) -/

/-- the meta table's own constraints (name NOT NULL and UNIQUE) on a view -/
def namesOk (v : View) : Bool := constraintsHold [metaSchema] v

theorem findTable_meta (rest : Catalog) : findTable (metaSchema :: rest) metaName = some metaSchema := by
  simp [findTable, metaSchema, metaName]

theorem findTable_single (t : String) : findTable [metaSchema] t = if metaName = t then some metaSchema else none := by
  simp only [findTable, List.find?_cons, List.find?_nil, metaSchema]
  by_cases h : metaName = t
  · simp [h]
  · have : (metaName == t) = false := by simpa using h
    simp [h, this]

/-- the check with the whole catalog implies the check of the meta table alone -/
theorem namesOk_of_holds (rest : Catalog) (v : View) (h : constraintsHold (metaSchema :: rest) v = true) :
    namesOk v = true := by
  unfold namesOk constraintsHold at *
  apply List.all_eq_true.2
  intro r hr
  have hr' := List.all_eq_true.1 h r hr
  rw [findTable_single]
  by_cases e : metaName = r.table
  · rw [← e, findTable_meta] at hr'
    simp only [e, if_true]
    exact hr'
  · simp [e]

theorem catOf_cons (h : Heap) (v : View) : ∃ rest, catOf h v = metaSchema :: rest := ⟨_, rfl⟩

theorem spec_commitC_names (α : Spec.State) (a : Db.Spec.ATxn) (h : namesOk α.db.committed = true) :
    namesOk (α.commitC a).1.db.committed = true := by
  unfold Spec.State.commitC
  simp only
  unfold Db.Spec.State.commitC
  simp only
  split
  · split
    · exact h
    · rename_i h2
      obtain ⟨rest, hrest⟩ := catOf_cons α.heap (α.db.commitTxn a).1.committed
      have h3 : constraintsHold (catOf α.heap (α.db.commitTxn a).1.committed)
          (Db.Spec.State.commitTxn { α.db with cat := catOf α.heap (α.db.commitTxn a).1.committed } a).1.committed = true := by
        simpa using h2
      have hsame : (Db.Spec.State.commitTxn { α.db with cat := catOf α.heap (α.db.commitTxn a).1.committed } a).1.committed =
          (α.db.commitTxn a).1.committed := by
        unfold Db.Spec.State.commitTxn
        split <;> rfl
      rw [hsame, hrest] at h3
      show namesOk (Db.Spec.State.commitTxn { α.db with cat := _ } a).1.committed = true
      rw [hsame]
      exact namesOk_of_holds rest _ h3
  · exact h

theorem spec_lift_committed_names (α : Spec.State) (op : Db.Op) (hop : ∀ s, op ≠ .commit s) (hauto : ∀ st, op ≠ .auto st)
    (hbatch : ∀ sts, op ≠ .batch sts) : (Spec.liftDb α op).1.db.committed = α.db.committed := by
  unfold Spec.liftDb
  cases op with
  | begin s => rfl
  | commit s => exact (hop s rfl).elim
  | rollback s =>
    simp only [Db.Spec.stepCore]
    cases lookup s α.db.sessions <;> rfl
  | drop s =>
    simp only [Db.Spec.stepCore]
    cases lookup s α.db.sessions <;> rfl
  | exec s st =>
    simp only [Db.Spec.stepCore]
    cases lookup s α.db.sessions <;> rfl
  | auto st => exact (hauto st rfl).elim
  | batch sts => exact (hbatch sts rfl).elim
  | tick => rfl
  | nop => rfl

theorem spec_reopen_committed : ∀ (ss : List String) (α : Spec.State),
    (ss.foldl (fun α s => (Spec.liftDb α (.drop s)).1) α).db.committed = α.db.committed
  | [], _ => rfl
  | s :: ss, α => by
    simp only [List.foldl_cons]
    rw [spec_reopen_committed ss]
    exact spec_lift_committed_names α (.drop s) (fun _ h => by cases h) (fun _ h => by cases h) (fun _ h => by cases h)

/-- every operation keeps the names of the live committed relations unique -/
theorem spec_step_names (α : Spec.State) (op : DOp) (h : namesOk α.db.committed = true) :
    namesOk (Spec.step α op).1.db.committed = true := by
  unfold Spec.step
  cases op with
  | begin s =>
    simp only [Spec.stepCore]
    rw [show (Spec.liftDb α (.begin s)).1.db.committed = α.db.committed from
      spec_lift_committed_names α _ (fun _ h => by cases h) (fun _ h => by cases h) (fun _ h => by cases h)]
    exact h
  | commit s =>
    simp only [Spec.stepCore]
    cases lookup s α.db.sessions with
    | none => exact h
    | some a => exact spec_commitC_names α a h
  | rollback s =>
    simp only [Spec.stepCore]
    rw [show (Spec.liftDb α (.rollback s)).1.db.committed = α.db.committed from
      spec_lift_committed_names α _ (fun _ h => by cases h) (fun _ h => by cases h) (fun _ h => by cases h)]
    exact h
  | drop s =>
    simp only [Spec.stepCore]
    rw [show (Spec.liftDb α (.drop s)).1.db.committed = α.db.committed from
      spec_lift_committed_names α _ (fun _ h => by cases h) (fun _ h => by cases h) (fun _ h => by cases h)]
    exact h
  | exec s st =>
    simp only [Spec.stepCore]
    cases lookup s α.db.sessions <;> exact h
  | auto st =>
    simp only [Spec.stepCore]
    split
    · exact h
    · exact spec_commitC_names { α with heap := _ } _ h
  | reopen ss =>
    simp only [Spec.stepCore]
    rw [spec_reopen_committed]
    exact h
  | tick =>
    simp only [Spec.stepCore]
    rw [show (Spec.liftDb α .tick).1.db.committed = α.db.committed from
      spec_lift_committed_names α _ (fun _ h => by cases h) (fun _ h => by cases h) (fun _ h => by cases h)]
    exact h
  | nop => exact h

theorem spec_final_names : ∀ (ops : List DOp) (α : Spec.State), namesOk α.db.committed = true →
    namesOk (Spec.final α ops).db.committed = true
  | [], _, h => h
  | op :: ops, α, h => spec_final_names ops _ (spec_step_names α op h)

/-! ### what the re-write of a table does to a view -/

theorem apply_del_absent (rid : Rid) : ∀ (l : View), (∀ r ∈ l, r.rid ≠ rid) →
    l.filterMap (fun r => if r.rid = rid then none else some r) = l
  | [], _ => rfl
  | r :: rs, h => by
    have h1 : r.rid ≠ rid := h r (List.mem_cons_self ..)
    simp only [List.filterMap_cons, h1, if_false]
    rw [apply_del_absent rid rs (fun x hx => h x (List.mem_cons_of_mem _ hx))]

/-- the new rows produced for the rows `rs` of table `tname`, numbered from `j` -/
def newRows (c : Nat) (tname : String) (f : List Val → List Val) : List ARow → Nat → List ARow
  | [], _ => []
  | r :: rs, j => if r.table == tname then ⟨(c, j), tname, f r.vals⟩ :: newRows c tname f rs (j + 1)
                  else newRows c tname f rs j

theorem rewrite_view_aux (c : Nat) (tname : String) (f : List Val → List Val) :
    ∀ (rs pre news : List ARow) (j : Nat),
      (∀ r ∈ rs, ∀ x ∈ pre ++ news, x.rid ≠ r.rid) → rs.Pairwise (fun a b => a.rid ≠ b.rid) →
      (∀ r ∈ rs, r.rid.1 ≠ c) →
      View.applyAll (pre ++ rs ++ news) (rewriteRows c tname f rs j) =
        pre ++ rs.filter (fun r => !(r.table == tname)) ++ news ++ newRows c tname f rs j
  | [], pre, news, j, _, _, _ => by simp [rewriteRows, newRows, View.applyAll]
  | r :: rs, pre, news, j, hd, hp, hf => by
    have hf' : ∀ x ∈ rs, x.rid.1 ≠ c := fun x hx => hf x (List.mem_cons_of_mem _ hx)
    have hp' := List.pairwise_cons.1 hp
    unfold rewriteRows newRows
    by_cases ht : (r.table == tname) = true
    · simp only [ht, if_true, View.applyAll, List.foldl_cons, Bool.not_true, List.filter_cons, Bool.false_eq_true, if_false]
      -- delete r: only r carries its row id
      have hdel : View.apply (pre ++ r :: rs ++ news) (.del r.rid) = pre ++ rs ++ news := by
        simp only [View.apply, List.filterMap_append, List.filterMap_cons, ARow.apply, if_true]
        rw [apply_del_absent r.rid pre (fun x hx => hd r (List.mem_cons_self ..) x (List.mem_append_left _ hx)),
          apply_del_absent r.rid rs (fun x hx => fun e => hp'.1 x hx e.symm),
          apply_del_absent r.rid news (fun x hx => hd r (List.mem_cons_self ..) x (List.mem_append_right _ hx))]
      rw [hdel]
      have hins : View.apply (pre ++ rs ++ news) (.ins (c, j) tname (f r.vals)) =
          pre ++ rs ++ (news ++ [⟨(c, j), tname, f r.vals⟩]) := by
        simp [View.apply, List.append_assoc]
      rw [hins]
      have ih := rewrite_view_aux c tname f rs pre (news ++ [⟨(c, j), tname, f r.vals⟩]) (j + 1) ?_ hp'.2 hf'
      · simp only [View.applyAll] at ih
        rw [ih]
        simp [List.append_assoc]
      · intro x hx y hy
        rcases List.mem_append.1 hy with hy | hy
        · exact hd x (List.mem_cons_of_mem _ hx) y (List.mem_append_left _ hy)
        · rcases List.mem_append.1 hy with hy | hy
          · exact hd x (List.mem_cons_of_mem _ hx) y (List.mem_append_right _ hy)
          · simp only [List.mem_singleton] at hy
            subst hy
            intro e
            exact hf' x hx (by rw [← e])
    · have ht' : (r.table == tname) = false := by simpa using ht
      simp only [ht', Bool.false_eq_true, if_false, Bool.not_false, List.filter_cons, if_true]
      have ih := rewrite_view_aux c tname f rs (pre ++ [r]) news j ?_ hp'.2 hf'
      · simp only [List.append_assoc, List.singleton_append] at ih ⊢
        exact ih
      · intro x hx y hy
        rcases List.mem_append.1 hy with hy | hy
        · rcases List.mem_append.1 hy with hy | hy
          · exact hd x (List.mem_cons_of_mem _ hx) y (List.mem_append_left _ hy)
          · simp only [List.mem_singleton] at hy
            subst hy
            exact hp'.1 x hx
        · exact hd x (List.mem_cons_of_mem _ hx) y (List.mem_append_right _ hy)

end AxVerif.Ddl
