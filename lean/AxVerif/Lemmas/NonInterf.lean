/-
  Statements on different tables do not interfere (C14, statement level).

  Setting: the abstract snapshot-isolation machine `Db.Spec` (which the MVCC machine refines, `C04.read_is_snapshot`), a
  history of autocommit statements `SELECT` / `INSERT` / `DELETE` (plus `tick` / `nop`), any catalog (constraints included).
  For a table `a`, `eraseOthers a ops` replaces every operation that is not a statement on `a` by `nop` (which only
  advances the clock, so the statements on `a` keep their positions and the rows they insert keep their ids).

  `noninterference`: the statements on `a` answer exactly the same, and leave exactly the same rows in `a`, whether or not
  the statements on the other tables are there.
-/
import AxVerif.Lemmas.DbHist
namespace AxVerif.Db.NI
open AxVerif.Db

def onTable (a : String) (r : ARow) : Bool := r.table == a

/-- the rows of table `a` -/
def proj (a : String) (v : View) : View := v.filter (onTable a)

def stmtTable : Stmt → String
  | .sel t _ => t | .ins t _ => t | .upd t _ _ _ _ => t | .del t _ => t

/-- `SELECT`, `INSERT`, `DELETE` -/
def simpleStmt : Stmt → Bool
  | .upd _ _ _ _ _ => false
  | _ => true

/-- the operations of the histories considered: autocommit `SELECT` / `INSERT` / `DELETE`, `tick`, `nop` -/
def okOp : Op → Bool
  | .auto st => simpleStmt st
  | .tick => true
  | .nop => true
  | _ => false

def touches (a : String) : Op → Bool
  | .auto st => stmtTable st == a
  | _ => false

def eraseOthers (a : String) (ops : List Op) : List Op := ops.map (fun op => if touches a op then op else .nop)

/-! ### planning a statement on table `a` looks at the rows of `a` only -/

theorem proj_proj (a : String) (v : View) : proj a (proj a v) = proj a v := by
  simp [proj, List.filter_filter]

theorem dupKey_proj (v : View) (t : String) (self : Option Rid) (cols : List Nat) (vals : List Val) :
    dupKey (proj t v) t self cols vals = dupKey v t self cols vals := by
  unfold dupKey proj
  congr 1
  rw [List.any_filter]
  congr 1
  funext r
  simp only [onTable]
  cases r.table == t <;> simp

theorem uniqueOk_proj (v : View) (ts : TableSchema) (self : Option Rid) (vals : List Val) :
    uniqueOk Option.none (proj ts.name v) ts self vals = uniqueOk Option.none v ts self vals := by
  simp only [uniqueOk, dupKey_proj]

theorem evalQuery_proj (t : String) (p : Option (Nat × CmpOp × Val)) (v : View) :
    evalQuery t p (proj t v) = evalQuery t p v := by
  unfold evalQuery proj
  rw [List.filter_filter]
  congr 1
  apply List.filter_congr
  intro r _
  simp only [onTable]
  cases r.table == t <;> simp

theorem planDel_proj (t : String) (p : Option (Nat × CmpOp × Val)) : ∀ v : View,
    planDel t p (proj t v) = planDel t p v
  | [] => rfl
  | r :: rs => by
    have ih := planDel_proj t p rs
    unfold proj at ih ⊢
    by_cases hr : (r.table == t) = true
    · simp only [List.filter_cons, onTable, hr, if_true, planDel, Bool.true_and]
      rw [ih]
    · have hr' : (r.table == t) = false := by simpa using hr
      simp only [List.filter_cons, onTable, hr', Bool.false_eq_true, if_false, planDel, Bool.false_and]
      exact ih

theorem proj_append (a : String) (v w : View) : proj a (v ++ w) = proj a v ++ proj a w := by
  simp [proj]

theorem planIns_proj (ts : TableSchema) (clock : Nat) : ∀ (rows : List (List Val)) (v : View) (j : Nat),
    planIns ts clock Option.none (proj ts.name v) rows j = planIns ts clock Option.none v rows j
  | [], v, j => by simp [planIns]
  | r :: rs, v, j => by
    simp only [planIns, uniqueOk_proj, Probe.step, Option.map_none]
    cases hc : castRow ts.cols r with
    | error e => rfl
    | ok r' =>
      simp only
      split
      · rfl
      · split
        · rfl
        · have hap : (proj ts.name v).apply (Effect.ins (clock, j) ts.name r') =
              proj ts.name (v.apply (Effect.ins (clock, j) ts.name r')) := by
            simp [View.apply, proj_append, proj, onTable]
          rw [hap, planIns_proj ts clock rs _ (j + 1)]

theorem findTable_name {cat : Catalog} {t : String} {ts : TableSchema} (h : findTable cat t = some ts) : ts.name = t := by
  unfold findTable at h
  have := List.find?_some h
  simpa using this

/-- **Locality of planning**: a `SELECT` / `INSERT` / `DELETE` on table `a` is planned from the rows of `a` alone. -/
theorem planStmt_proj (cat : Catalog) (clock j0 : Nat) (v : View) (st : Stmt) (hs : simpleStmt st = true) :
    planStmt Option.none cat clock j0 (proj (stmtTable st) v) st = planStmt Option.none cat clock j0 v st := by
  cases st with
  | sel t p =>
    simp only [planStmt, stmtTable]
    cases hf : findTable cat t with
    | none => rfl
    | some ts =>
      simp only
      cases bindPred ts p with
      | error e => rfl
      | ok bp => simp only [evalQuery_proj]
  | ins t rows =>
    simp only [planStmt, stmtTable]
    cases hf : findTable cat t with
    | none => rfl
    | some ts =>
      simp only
      split
      · rfl
      · rw [← findTable_name hf, planIns_proj]
  | upd t c a x p => simp [simpleStmt] at hs
  | del t p =>
    simp only [planStmt, stmtTable]
    cases hf : findTable cat t with
    | none => rfl
    | some ts =>
      simp only
      cases bindPred ts p with
      | error e => rfl
      | ok bp => simp only [planDel_proj]


/-! ### what a committed autocommit statement does to the committed rows -/

/-- the committed rows after a transaction that started from `v` and made the effects `effs` has committed -/
def post (v : View) (effs : List Effect) : View := takeOver v (v.applyAll effs) (effs.map Effect.rid)

/-- consecutive inserts `(clock, j), (clock, j+1), …` into table `t` -/
def InsRun (clock : Nat) (t : String) : Nat → List Effect → Prop
  | _, [] => True
  | j, e :: es => (∃ vals, e = Effect.ins (clock, j) t vals) ∧ InsRun clock t (j + 1) es

def insRows : List Effect → View
  | [] => []
  | .ins rid t vals :: es => ⟨rid, t, vals⟩ :: insRows es
  | _ :: es => insRows es

/-- deletes of rows of table `t` that are in `v` -/
def DelsOf (t : String) (v : View) (effs : List Effect) : Prop :=
  ∀ e ∈ effs, ∃ r ∈ v, r.table = t ∧ e = Effect.del r.rid

/-- every row id of `v` is older than `clock` -/
def Fresh (clock : Nat) (v : View) : Prop := ∀ r ∈ v, r.rid.1 < clock

theorem planIns_insRun (ts : TableSchema) (clock : Nat) : ∀ (rows : List (List Val)) (v : View) (j : Nat),
    InsRun clock ts.name j (planIns ts clock Option.none v rows j).effs
  | [], v, j => by simp [planIns, InsRun]
  | r :: rs, v, j => by
    simp only [planIns]
    cases hc : castRow ts.cols r with
    | error e => simp [InsRun]
    | ok r' =>
      simp only
      split
      · simp [InsRun]
      · split
        · simp [InsRun]
        · simp only [Plan.cons, InsRun]
          exact ⟨⟨r', rfl⟩, planIns_insRun ts clock rs _ (j + 1)⟩

theorem planDel_delsOf (t : String) (p : Option (Nat × CmpOp × Val)) : ∀ (w v : View), (∀ r ∈ w, r ∈ v) →
    DelsOf t v (planDel t p w).effs
  | [], v, _ => by simp [planDel, DelsOf]
  | r :: rs, v, hsub => by
    have ih := planDel_delsOf t p rs v (fun x hx => hsub x (List.mem_cons_of_mem _ hx))
    simp only [planDel]
    split
    · rename_i hm
      simp only [Plan.cons]
      intro e he
      rcases List.mem_cons.1 he with rfl | he
      · simp only [Bool.and_eq_true, beq_iff_eq] at hm
        exact ⟨r, hsub r List.mem_cons_self, hm.1, rfl⟩
      · exact ih e he
    · exact ih

theorem applyAll_insRun (clock : Nat) (t : String) : ∀ (effs : List Effect) (j : Nat) (v : View), InsRun clock t j effs →
    v.applyAll effs = v ++ insRows effs
  | [], j, v, _ => by simp [View.applyAll, insRows]
  | e :: es, j, v, h => by
    obtain ⟨⟨vals, rfl⟩, hes⟩ := h
    have ih := applyAll_insRun clock t es (j + 1) (v ++ [⟨(clock, j), t, vals⟩]) hes
    simp only [View.applyAll, List.foldl_cons, View.apply, insRows] at ih ⊢
    rw [ih]
    simp

theorem insRows_table (clock : Nat) (t : String) : ∀ (effs : List Effect) (j : Nat), InsRun clock t j effs →
    ∀ r ∈ insRows effs, r.table = t ∧ r.rid.1 = clock ∧ j ≤ r.rid.2
  | [], _, _ => by simp [insRows]
  | e :: es, j, h => by
    obtain ⟨⟨vals, rfl⟩, hes⟩ := h
    intro r hr
    simp only [insRows, List.mem_cons] at hr
    rcases hr with rfl | hr
    · exact ⟨rfl, rfl, Nat.le_refl _⟩
    · obtain ⟨h1, h2, h3⟩ := insRows_table clock t es (j + 1) hes r hr
      exact ⟨h1, h2, Nat.le_of_succ_le h3⟩

theorem rids_insRun (clock : Nat) (t : String) : ∀ (effs : List Effect) (j : Nat), InsRun clock t j effs →
    effs.map Effect.rid = (insRows effs).map (·.rid)
  | [], _, _ => rfl
  | e :: es, j, h => by
    obtain ⟨⟨vals, rfl⟩, hes⟩ := h
    simp only [List.map_cons, Effect.rid, insRows, rids_insRun clock t es (j + 1) hes]

theorem insertRid_append_of_not_lt (x : ARow) : ∀ (l m : View), (∀ y ∈ l, ¬ ridLt x.rid y.rid) →
    insertRid x (l ++ m) = l ++ insertRid x m
  | [], m, _ => rfl
  | y :: ys, m, h => by
    have hy := h y List.mem_cons_self
    simp only [List.cons_append, insertRid, hy, if_false]
    rw [insertRid_append_of_not_lt x ys m (fun z hz => h z (List.mem_cons_of_mem _ hz))]

/-- inserting a run of new rows, all younger than `v` and in increasing order, appends them -/
theorem foldr_insertRid_run (clock : Nat) (t : String) (v : View) (hv : Fresh clock v) :
    ∀ (effs : List Effect) (j : Nat), InsRun clock t j effs → (insRows effs).foldr insertRid v = v ++ insRows effs
  | [], _, _ => by simp [insRows]
  | e :: es, j, h => by
    obtain ⟨⟨vals, rfl⟩, hes⟩ := h
    have ih := foldr_insertRid_run clock t v hv es (j + 1) hes
    simp only [insRows, List.foldr_cons, ih]
    rw [insertRid_append_of_not_lt]
    · cases hrest : insRows es with
      | nil => simp [insertRid]
      | cons y ys =>
        have hy := insRows_table clock t es (j + 1) hes y (by rw [hrest]; exact List.mem_cons_self)
        have hlt : ridLt (clock, j) y.rid := by
          right
          exact ⟨hy.2.1.symm, Nat.lt_of_succ_le hy.2.2⟩
        simp [insertRid, hlt]
    · intro y hy hlt
      have := hv y hy
      rcases hlt with h1 | ⟨h1, _⟩
      · exact Nat.lt_asymm h1 this
      · simp only at h1; rw [h1] at this; exact Nat.lt_irrefl _ this

/-- closed form for an `INSERT` -/
theorem post_insRun (clock : Nat) (t : String) (v : View) (hv : Fresh clock v) (effs : List Effect) (j : Nat)
    (h : InsRun clock t j effs) : post v effs = v ++ insRows effs := by
  unfold post takeOver
  rw [applyAll_insRun clock t effs j v h, rids_insRun clock t effs j h]
  have hnew : ∀ r ∈ insRows effs, r.rid.1 = clock := fun r hr => (insRows_table clock t effs j h r hr).2.1
  have hold : ∀ r ∈ v, ((insRows effs).map (·.rid)).contains r.rid = false := by
    intro r hr
    cases hc : ((insRows effs).map (·.rid)).contains r.rid with
    | false => rfl
    | true =>
      have hm : r.rid ∈ (insRows effs).map (·.rid) := by simpa using hc
      obtain ⟨n, hn, hnr⟩ := List.mem_map.1 hm
      have h1 := hnew n hn
      have h2 := hv r hr
      rw [← hnr, h1] at h2
      exact (Nat.lt_irrefl _ h2).elim
  have hf1 : (v ++ insRows effs).filter (fun r => ((insRows effs).map (·.rid)).contains r.rid) = insRows effs := by
    rw [List.filter_append]
    have e1 : v.filter (fun r => ((insRows effs).map (·.rid)).contains r.rid) = [] := by
      rw [List.filter_eq_nil_iff]
      intro r hr
      rw [hold r hr]
      simp
    have e2 : (insRows effs).filter (fun r => ((insRows effs).map (·.rid)).contains r.rid) = insRows effs := by
      rw [List.filter_eq_self]
      intro r hr
      simpa using List.mem_map.2 ⟨r, hr, rfl⟩
    rw [e1, e2]; rfl
  have hf2 : v.filter (fun r => !((insRows effs).map (·.rid)).contains r.rid) = v := by
    rw [List.filter_eq_self]
    intro r hr
    rw [hold r hr]
    rfl
  rw [hf1, hf2]
  exact foldr_insertRid_run clock t v hv effs j h

theorem apply_del : ∀ (v : View) (rid : Rid), v.apply (.del rid) = v.filter (fun r => !(r.rid == rid))
  | [], _ => rfl
  | r :: rs, rid => by
    have ih := apply_del rs rid
    simp only [View.apply, ARow.apply] at ih ⊢
    simp only [List.filterMap_cons, List.filter_cons]
    by_cases hr : r.rid = rid
    · have hb : (r.rid == rid) = true := by simpa using hr
      simp only [hr, if_true, beq_self_eq_true, Bool.not_true, Bool.false_eq_true, if_false]
      rw [← hr]; rw [← hr] at ih; exact ih
    · have hb : (r.rid == rid) = false := by simpa using hr
      simp only [hr, if_false, hb, Bool.not_false, if_true]
      rw [ih]

def AllDel (effs : List Effect) : Prop := ∀ e ∈ effs, ∃ rid, e = Effect.del rid

theorem applyAll_allDel : ∀ (effs : List Effect) (v : View), AllDel effs →
    v.applyAll effs = v.filter (fun r => !(effs.map Effect.rid).contains r.rid)
  | [], v, _ => by
    simp only [View.applyAll, List.foldl_nil, List.map_nil]
    exact (List.filter_eq_self.2 (fun _ _ => rfl)).symm
  | e :: es, v, h => by
    obtain ⟨rid, rfl⟩ := h _ List.mem_cons_self
    have ih := applyAll_allDel es (v.apply (.del rid)) (fun x hx => h x (List.mem_cons_of_mem _ hx))
    simp only [View.applyAll, List.foldl_cons] at ih ⊢
    rw [ih, apply_del v rid, List.filter_filter]
    apply List.filter_congr
    intro r _
    simp only [List.map_cons, Effect.rid, List.contains_cons]
    cases h1 : (r.rid == rid) <;> simp

/-- closed form for a `DELETE` -/
theorem post_allDel (v : View) (effs : List Effect) (h : AllDel effs) :
    post v effs = v.filter (fun r => !(effs.map Effect.rid).contains r.rid) := by
  unfold post takeOver
  rw [applyAll_allDel effs v h]
  have : (v.filter (fun r => !(effs.map Effect.rid).contains r.rid)).filter (fun r => (effs.map Effect.rid).contains r.rid) = [] := by
    rw [List.filter_filter, List.filter_eq_nil_iff]
    intro r _
    cases (effs.map Effect.rid).contains r.rid <;> simp
  rw [this]
  rfl

theorem post_nil (v : View) : post v [] = v := by
  have h : AllDel [] := by intro e he; cases he
  rw [post_allDel v [] h]
  exact List.filter_eq_self.2 (fun _ _ => rfl)


/-! ### one autocommit statement, spelled out -/

def autoStep (α : Spec.State) (st : Stmt) : Spec.State × Out :=
  let p := planStmt Option.none α.cat α.clock 0 α.committed st
  if p.out.isErr then ({ α with clock := α.clock + 1 }, .stmt p.out)
  else if !constraintsHold α.cat (post α.committed p.effs) then ({ α with clock := α.clock + 1 }, .refused .constraint)
  else ({ α with committed := post α.committed p.effs, log := α.log ++ [(α.log.length, p.effs.map Effect.rid)],
                 clock := α.clock + 1 }, .stmt p.out)

theorem step_auto (α : Spec.State) (st : Stmt) : Spec.step α (.auto st) = autoStep α st := by
  by_cases h : (planStmt Option.none α.cat α.clock 0 α.committed st).out.isErr = true
  · simp [Spec.step, Spec.stepCore, Spec.stmt, Spec.State.beginTxn, Spec.ATxn.view, View.applyAll, autoStep, h]
  · by_cases hc : constraintsHold α.cat (post α.committed (planStmt Option.none α.cat α.clock 0 α.committed st).effs) = true
    · simp [Spec.step, Spec.stepCore, Spec.stmt, Spec.State.beginTxn, Spec.ATxn.view, View.applyAll, autoStep, h,
        Spec.State.commitC, Spec.State.commitTxn, Spec.conflict, Spec.ATxn.ws, outOfCommit]
      simp [post, View.applyAll] at hc
      simp [hc, post, View.applyAll]
    · simp [Spec.step, Spec.stepCore, Spec.stmt, Spec.State.beginTxn, Spec.ATxn.view, View.applyAll, autoStep, h,
        Spec.State.commitC, Spec.State.commitTxn, Spec.conflict, Spec.ATxn.ws, outOfCommit]
      simp [post, View.applyAll] at hc
      simp [hc, post, View.applyAll]


/-! ### the effects of a statement, by kind -/

def Kind (clock : Nat) (t : String) (v : View) (effs : List Effect) : Prop :=
  InsRun clock t 0 effs ∨ (AllDel effs ∧ DelsOf t v effs)

theorem allDel_of_delsOf {t : String} {v : View} {effs : List Effect} (h : DelsOf t v effs) : AllDel effs := by
  intro e he
  obtain ⟨r, _, _, rfl⟩ := h e he
  exact ⟨r.rid, rfl⟩

theorem plan_kind (cat : Catalog) (clock : Nat) (v : View) (st : Stmt) (hs : simpleStmt st = true) :
    Kind clock (stmtTable st) v (planStmt Option.none cat clock 0 v st).effs := by
  have hnil : Kind clock (stmtTable st) v [] := Or.inl (by simp [InsRun])
  cases st with
  | sel t p =>
    simp only [planStmt]
    cases findTable cat t with
    | none => exact hnil
    | some ts =>
      simp only
      cases bindPred ts p <;> exact hnil
  | ins t rows =>
    simp only [planStmt, stmtTable]
    cases hf : findTable cat t with
    | none => exact Or.inl (by simp [InsRun])
    | some ts =>
      simp only
      split
      · exact Or.inl (by simp [InsRun])
      · left
        rw [← findTable_name hf]
        exact planIns_insRun ts clock rows v 0
  | upd t c a x p => simp [simpleStmt] at hs
  | del t p =>
    simp only [planStmt, stmtTable]
    cases hf : findTable cat t with
    | none => exact Or.inl (by simp [InsRun])
    | some ts =>
      simp only
      cases bindPred ts p with
      | error e => exact Or.inl (by simp [InsRun])
      | ok bp =>
        have hd := planDel_delsOf t bp v v (fun _ h => h)
        exact Or.inr ⟨allDel_of_delsOf hd, hd⟩

theorem fresh_proj {clock : Nat} {v : View} (a : String) (h : Fresh clock v) : Fresh clock (proj a v) :=
  fun r hr => h r (List.mem_filter.1 hr).1

theorem proj_insRows (a : String) (clock : Nat) (t : String) (effs : List Effect) (j : Nat) (h : InsRun clock t j effs) :
    proj a (insRows effs) = if t = a then insRows effs else [] := by
  have ht := insRows_table clock t effs j h
  unfold proj
  by_cases e : t = a
  · simp only [e, if_true]
    rw [List.filter_eq_self]
    intro r hr
    simp [onTable, (ht r hr).1, e]
  · simp only [e, if_false]
    rw [List.filter_eq_nil_iff]
    intro r hr
    simp [onTable, (ht r hr).1, e]

theorem filter_comm (p q : ARow → Bool) (v : View) : (v.filter p).filter q = (v.filter q).filter p := by
  rw [List.filter_filter, List.filter_filter]
  apply List.filter_congr
  intro r _
  exact Bool.and_comm _ _

/-- a committed statement on `a` does to the rows of `a` what it would do to them alone -/
theorem proj_post_same (a : String) (clock : Nat) (v : View) (effs : List Effect) (hv : Fresh clock v)
    (hk : Kind clock a v effs) : proj a (post v effs) = post (proj a v) effs := by
  rcases hk with h | ⟨h, _⟩
  · rw [post_insRun clock a v hv effs 0 h, post_insRun clock a (proj a v) (fresh_proj a hv) effs 0 h, proj_append,
      proj_insRows a clock a effs 0 h]
    simp
  · rw [post_allDel v effs h, post_allDel (proj a v) effs h]
    unfold proj
    exact filter_comm _ _ v

theorem rid_inj {v : View} (hnd : (v.map (·.rid)).Nodup) {r s : ARow} (hr : r ∈ v) (hs : s ∈ v) (h : r.rid = s.rid) :
    r = s := by
  induction v with
  | nil => cases hr
  | cons x xs ih =>
    simp only [List.map_cons, List.nodup_cons] at hnd
    rcases List.mem_cons.1 hr with rfl | hr' <;> rcases List.mem_cons.1 hs with rfl | hs'
    · rfl
    · exact (hnd.1 (List.mem_map.2 ⟨s, hs', h.symm⟩)).elim
    · exact (hnd.1 (List.mem_map.2 ⟨r, hr', h⟩)).elim
    · exact ih hnd.2 hr' hs'

/-- a committed statement on another table leaves the rows of `a` alone -/
theorem proj_post_other (a b : String) (hab : b ≠ a) (clock : Nat) (v : View) (effs : List Effect) (hv : Fresh clock v)
    (hnd : (v.map (·.rid)).Nodup) (hk : Kind clock b v effs) : proj a (post v effs) = proj a v := by
  rcases hk with h | ⟨h, hd⟩
  · rw [post_insRun clock b v hv effs 0 h, proj_append, proj_insRows a clock b effs 0 h]
    simp [hab]
  · rw [post_allDel v effs h]
    unfold proj
    rw [filter_comm, List.filter_eq_self]
    intro r hr
    have hrv : r ∈ v := (List.mem_filter.1 hr).1
    have hra : r.table = a := by
      have := (List.mem_filter.1 hr).2
      simpa [onTable] using this
    cases hc : (effs.map Effect.rid).contains r.rid with
    | false => rfl
    | true =>
      exfalso
      have hm : r.rid ∈ effs.map Effect.rid := by simpa using hc
      obtain ⟨e, he, her⟩ := List.mem_map.1 hm
      obtain ⟨s, hs, hst, rfl⟩ := hd e he
      simp only [Effect.rid] at her
      have := rid_inj hnd hs hrv her
      subst this
      exact hab (hst.symm.trans hra)

/-! ### constraints are checked table by table -/

def rowOk (cat : Catalog) (w : View) (r : ARow) : Bool :=
  match findTable cat r.table with
  | Option.none => true
  | some ts => notNullOk ts.cols r.vals && uniqueOk Option.none w ts (some r.rid) r.vals

theorem constraintsHold_eq (cat : Catalog) (w : View) : constraintsHold cat w = w.all (rowOk cat w) := rfl

theorem rowOk_proj (cat : Catalog) (w : View) (r : ARow) : rowOk cat (proj r.table w) r = rowOk cat w r := by
  unfold rowOk
  cases hf : findTable cat r.table with
  | none => rfl
  | some ts =>
    simp only
    rw [← findTable_name hf, uniqueOk_proj]

theorem all_split (p : ARow → Bool) (f : ARow → Bool) : ∀ w : View,
    w.all f = ((w.filter p).all f && (w.filter (fun r => !p r)).all f)
  | [] => rfl
  | r :: rs => by
    have ih := all_split p f rs
    by_cases hp : p r = true
    · simp only [List.all_cons, List.filter_cons, hp, if_true, Bool.not_true, Bool.false_eq_true, if_false, ih,
        Bool.and_assoc]
    · have hp' : p r = false := by simpa using hp
      simp only [List.all_cons, List.filter_cons, hp', Bool.false_eq_true, if_false, Bool.not_false, if_true, ih]
      exact Bool.and_left_comm _ _ _

theorem all_congr_mem {f g : ARow → Bool} : ∀ {l : View}, (∀ r ∈ l, f r = g r) → l.all f = l.all g
  | [], _ => rfl
  | r :: rs, h => by
    simp only [List.all_cons, h r List.mem_cons_self,
      all_congr_mem (l := rs) (fun x hx => h x (List.mem_cons_of_mem _ hx))]

/-- if the rows outside table `a` are as in a view that satisfies the constraints, only the rows of `a` decide -/
theorem constraintsHold_local (cat : Catalog) (a : String) (v w : View) (hv : constraintsHold cat v = true)
    (hsame : ∀ b, b ≠ a → proj b w = proj b v) : constraintsHold cat w = constraintsHold cat (proj a w) := by
  rw [constraintsHold_eq, constraintsHold_eq, all_split (onTable a) (rowOk cat w) w]
  have h2 : (w.filter (fun r => !onTable a r)).all (rowOk cat w) = true := by
    rw [List.all_eq_true]
    intro r hr
    have hrw : r ∈ w := (List.mem_filter.1 hr).1
    have hne : r.table ≠ a := by
      have := (List.mem_filter.1 hr).2
      simpa [onTable] using this
    rw [← rowOk_proj, hsame r.table hne, rowOk_proj]
    have hrv : r ∈ v := by
      have : r ∈ proj r.table w := List.mem_filter.2 ⟨hrw, by simp [onTable]⟩
      rw [hsame r.table hne] at this
      exact (List.mem_filter.1 this).1
    rw [constraintsHold_eq, List.all_eq_true] at hv
    exact hv r hrv
  rw [h2, Bool.and_true]
  show (proj a w).all (rowOk cat w) = (proj a w).all (rowOk cat (proj a w))
  apply all_congr_mem
  intro r hr
  have hra : r.table = a := by
    have := (List.mem_filter.1 hr).2
    simpa [onTable] using this
  rw [← rowOk_proj cat w r, ← rowOk_proj cat (proj a w) r, hra, proj_proj]


/-! ### invariant of the histories considered -/

structure Inv (α : Spec.State) : Prop where
  fresh : Fresh α.clock α.committed
  nodup : (α.committed.map (·.rid)).Nodup
  ch : constraintsHold α.cat α.committed = true

theorem inv_init (cat : Catalog) : Inv (Spec.State.init cat) :=
  ⟨(by intro r hr; cases hr), (by simp [Spec.State.init]), rfl⟩

theorem insRows_rids_nodup (clock : Nat) (t : String) : ∀ (effs : List Effect) (j : Nat), InsRun clock t j effs →
    ((insRows effs).map (·.rid)).Nodup
  | [], _, _ => by simp [insRows]
  | e :: es, j, h => by
    obtain ⟨⟨vals, rfl⟩, hes⟩ := h
    simp only [insRows, List.map_cons, List.nodup_cons]
    refine ⟨?_, insRows_rids_nodup clock t es (j + 1) hes⟩
    intro hm
    obtain ⟨r, hr, hrr⟩ := List.mem_map.1 hm
    have := (insRows_table clock t es (j + 1) hes r hr).2.2
    rw [hrr] at this
    exact Nat.lt_irrefl _ (Nat.lt_of_succ_le this)

theorem fresh_nodup_post (clock : Nat) (t : String) (v : View) (effs : List Effect) (hv : Fresh clock v)
    (hnd : (v.map (·.rid)).Nodup) (hk : Kind clock t v effs) :
    Fresh (clock + 1) (post v effs) ∧ ((post v effs).map (·.rid)).Nodup := by
  rcases hk with h | ⟨h, _⟩
  · rw [post_insRun clock t v hv effs 0 h]
    constructor
    · intro r hr
      rcases List.mem_append.1 hr with h1 | h1
      · exact Nat.lt_succ_of_lt (hv r h1)
      · rw [(insRows_table clock t effs 0 h r h1).2.1]; exact Nat.lt_succ_self _
    · rw [List.map_append, List.nodup_append]
      refine ⟨hnd, insRows_rids_nodup clock t effs 0 h, ?_⟩
      intro x hx y hy hxy
      obtain ⟨r, hr, rfl⟩ := List.mem_map.1 hx
      obtain ⟨n, hn, rfl⟩ := List.mem_map.1 hy
      have h1 := hv r hr
      rw [hxy, (insRows_table clock t effs 0 h n hn).2.1] at h1
      exact Nat.lt_irrefl _ h1
  · rw [post_allDel v effs h]
    constructor
    · intro r hr
      exact Nat.lt_succ_of_lt (hv r (List.mem_filter.1 hr).1)
    · exact (List.filter_sublist.map _).nodup hnd

theorem inv_autoStep (α : Spec.State) (st : Stmt) (hs : simpleStmt st = true) (h : Inv α) : Inv (autoStep α st).1 := by
  have hk := plan_kind α.cat α.clock α.committed st hs
  have hold : Inv { α with clock := α.clock + 1 } :=
    ⟨fun r hr => Nat.lt_succ_of_lt (h.fresh r hr), h.nodup, h.ch⟩
  unfold autoStep
  simp only
  split
  · exact hold
  · split
    · exact hold
    · rename_i hc
      have := fresh_nodup_post α.clock (stmtTable st) α.committed _ h.fresh h.nodup hk
      exact ⟨this.1, this.2, by simpa using hc⟩

/-! ### the theorem -/

/-- the erased run: same catalog, same clock, exactly the rows of `a` -/
structure Rel (a : String) (α α' : Spec.State) : Prop where
  cat : α'.cat = α.cat
  clock : α'.clock = α.clock
  rows : α'.committed = proj a α.committed

theorem rel_same (a : String) (α α' : Spec.State) (st : Stmt) (hs : simpleStmt st = true) (ht : stmtTable st = a)
    (hi : Inv α) (hr : Rel a α α') :
    (autoStep α st).2 = (autoStep α' st).2 ∧ Rel a (autoStep α st).1 (autoStep α' st).1 := by
  have hk := plan_kind α.cat α.clock α.committed st hs
  rw [ht] at hk
  obtain ⟨cat', committed', log', sessions', clock'⟩ := α'
  obtain ⟨hc, hcl, hrows⟩ := hr
  simp only at hc hcl hrows
  subst hc hcl hrows
  have hplan : planStmt Option.none α.cat α.clock 0 (proj a α.committed) st = planStmt Option.none α.cat α.clock 0 α.committed st := by
    rw [← ht, planStmt_proj _ _ _ _ _ hs]
  have hpost : proj a (post α.committed (planStmt Option.none α.cat α.clock 0 α.committed st).effs) =
      post (proj a α.committed) (planStmt Option.none α.cat α.clock 0 α.committed st).effs :=
    proj_post_same a α.clock α.committed _ hi.fresh hk
  have hch : constraintsHold α.cat (post (proj a α.committed) (planStmt Option.none α.cat α.clock 0 α.committed st).effs) =
      constraintsHold α.cat (post α.committed (planStmt Option.none α.cat α.clock 0 α.committed st).effs) := by
    rw [← hpost]
    symm
    apply constraintsHold_local α.cat a α.committed _ hi.ch
    intro b hb
    exact proj_post_other b a (fun e => hb e.symm) α.clock α.committed _ hi.fresh hi.nodup hk
  unfold autoStep
  simp only [hplan, hch]
  by_cases he : (planStmt Option.none α.cat α.clock 0 α.committed st).out.isErr = true
  · simp only [he, if_true]
    exact ⟨by first | rfl | trivial, ⟨rfl, rfl, rfl⟩⟩
  · simp only [he, Bool.false_eq_true, if_false]
    by_cases hc : constraintsHold α.cat (post α.committed (planStmt Option.none α.cat α.clock 0 α.committed st).effs) = true
    · simp only [hc, Bool.not_true, Bool.false_eq_true, if_false]
      exact ⟨by first | rfl | trivial, ⟨rfl, rfl, hpost.symm⟩⟩
    · have hc' : constraintsHold α.cat (post α.committed (planStmt Option.none α.cat α.clock 0 α.committed st).effs) = false := by
        simpa using hc
      simp only [hc', Bool.not_false, if_true]
      exact ⟨by first | rfl | trivial, ⟨rfl, rfl, rfl⟩⟩

theorem rel_other (a : String) (α : Spec.State) (st : Stmt) (hs : simpleStmt st = true) (ht : stmtTable st ≠ a)
    (hi : Inv α) : proj a (autoStep α st).1.committed = proj a α.committed ∧ (autoStep α st).1.cat = α.cat ∧
      (autoStep α st).1.clock = α.clock + 1 := by
  have hk := plan_kind α.cat α.clock α.committed st hs
  unfold autoStep
  simp only
  split
  · exact ⟨rfl, rfl, rfl⟩
  · split
    · exact ⟨rfl, rfl, rfl⟩
    · exact ⟨proj_post_other a (stmtTable st) ht α.clock α.committed _ hi.fresh hi.nodup hk, rfl, rfl⟩

theorem touches_nop (a : String) : touches a .nop = false := rfl
theorem touches_tick (a : String) : touches a .tick = false := rfl

/-- the answers of the statements on `a`, in order -/
def answersOn (a : String) : List Op → List Out → List Out
  | op :: ops, o :: os => if touches a op then o :: answersOn a ops os else answersOn a ops os
  | _, _ => []

theorem noninterference_from (a : String) : ∀ (ops : List Op) (α α' : Spec.State), ops.all okOp = true → Inv α → Rel a α α' →
    answersOn a ops (Spec.outs α ops) = answersOn a (eraseOthers a ops) (Spec.outs α' (eraseOthers a ops)) ∧
    proj a (Spec.final α ops).committed = (Spec.final α' (eraseOthers a ops)).committed
  | [], α, α', _, _, hr => by
    simp [eraseOthers, answersOn, Spec.outs, Spec.final, hr.rows]
  | op :: ops, α, α', hok, hi, hr => by
    simp only [List.all_cons, Bool.and_eq_true] at hok
    obtain ⟨hop, hops⟩ := hok
    have hnop : ∀ β : Spec.State, Spec.step β .nop = ({ β with clock := β.clock + 1 }, Out.none) := fun β => rfl
    cases op with
    | auto st =>
      have hs : simpleStmt st = true := hop
      by_cases ht : stmtTable st = a
      · have htouch : touches a (.auto st) = true := by simp [touches, ht]
        obtain ⟨ho, hr'⟩ := rel_same a α α' st hs ht hi hr
        have hi' := inv_autoStep α st hs hi
        have ih := noninterference_from a ops _ _ hops hi' hr'
        simp only [eraseOthers, List.map_cons, htouch, if_true, Spec.outs, Spec.final, answersOn, step_auto]
        simp only [eraseOthers] at ih
        rw [ho, ih.1, ih.2]
        exact ⟨rfl, rfl⟩
      · have htouch : touches a (.auto st) = false := by simp [touches, ht]
        obtain ⟨h1, h2, h3⟩ := rel_other a α st hs ht hi
        have hi' := inv_autoStep α st hs hi
        have hr' : Rel a (autoStep α st).1 { α' with clock := α'.clock + 1 } :=
          ⟨by simp [h2, hr.cat], by simp [h3, hr.clock], by simp [h1, hr.rows]⟩
        have ih := noninterference_from a ops _ _ hops hi' hr'
        simp only [eraseOthers, List.map_cons, htouch, Bool.false_eq_true, if_false, Spec.outs, Spec.final, answersOn,
          step_auto, hnop, touches_nop]
        simp only [eraseOthers] at ih
        exact ih
    | tick =>
      have hstep : Spec.step α .tick = ({ α with log := α.log ++ [(α.log.length, [])], clock := α.clock + 1 }, Out.ok) := rfl
      have hi' : Inv { α with log := α.log ++ [(α.log.length, [])], clock := α.clock + 1 } :=
        ⟨fun r hr => Nat.lt_succ_of_lt (hi.fresh r hr), hi.nodup, hi.ch⟩
      have hr' : Rel a { α with log := α.log ++ [(α.log.length, [])], clock := α.clock + 1 } { α' with clock := α'.clock + 1 } :=
        ⟨hr.cat, by simp [hr.clock], hr.rows⟩
      have ih := noninterference_from a ops _ _ hops hi' hr'
      simp only [eraseOthers, List.map_cons, touches_tick, touches_nop, Bool.false_eq_true, if_false, Spec.outs, Spec.final,
        answersOn, hstep, hnop]
      simp only [eraseOthers] at ih
      exact ih
    | nop =>
      have hi' : Inv { α with clock := α.clock + 1 } :=
        ⟨fun r hr => Nat.lt_succ_of_lt (hi.fresh r hr), hi.nodup, hi.ch⟩
      have hr' : Rel a { α with clock := α.clock + 1 } { α' with clock := α'.clock + 1 } :=
        ⟨hr.cat, by simp [hr.clock], hr.rows⟩
      have ih := noninterference_from a ops _ _ hops hi' hr'
      simp only [eraseOthers, List.map_cons, touches_nop, Bool.false_eq_true, if_false, Spec.outs, Spec.final, answersOn, hnop]
      simp only [eraseOthers] at ih
      exact ih
    | _ => simp [okOp] at hop


/-! ### the position of a statement in the history does not matter (catalogs without constraints) -/

/-- what is observable of a row: its table and its values (not its id) -/
def keys (v : View) : List (String × List Val) := v.map (fun r => (r.table, r.vals))

def plainTable (ts : TableSchema) : Bool := ts.cols.all (fun c => !c.notNull && !c.unique) && ts.uniques.isEmpty

/-- no NOT NULL, no UNIQUE / PRIMARY KEY anywhere -/
def plainCat (cat : Catalog) : Bool := cat.all plainTable

def isNop : Op → Bool
  | .nop => true
  | _ => false

def dropNops (ops : List Op) : List Op := ops.filter (fun op => !isNop op)

/-- the answers of the operations other than `nop`, in order -/
def realAnswers : List Op → List Out → List Out
  | op :: ops, o :: os => if isNop op then realAnswers ops os else o :: realAnswers ops os
  | _, _ => []

theorem singleKeys_plain : ∀ (cols : List Col) (i : Nat), cols.all (fun c => !c.notNull && !c.unique) = true →
    singleKeys cols i = []
  | [], _, _ => rfl
  | c :: cs, i, h => by
    simp only [List.all_cons, Bool.and_eq_true, Bool.not_eq_true'] at h
    simp only [singleKeys, h.1.2, Bool.false_eq_true, if_false]
    exact singleKeys_plain cs (i + 1) (by simpa using h.2)

theorem notNullOk_plain : ∀ (cols : List Col) (vals : List Val), cols.all (fun c => !c.notNull && !c.unique) = true →
    notNullOk cols vals = true
  | [], _, _ => by simp [notNullOk]
  | _ :: _, [], _ => by simp [notNullOk]
  | c :: cs, v :: vs, h => by
    simp only [List.all_cons, Bool.and_eq_true, Bool.not_eq_true'] at h
    simp only [notNullOk, h.1.1, Bool.false_and, Bool.not_false, Bool.true_and]
    exact notNullOk_plain cs vs (by simpa using h.2)

theorem plain_of_find {cat : Catalog} {t : String} {ts : TableSchema} (hp : plainCat cat = true)
    (hf : findTable cat t = some ts) : plainTable ts = true := by
  unfold findTable at hf
  exact (List.all_eq_true.1 hp) ts (List.mem_of_find?_eq_some hf)

theorem uniqueOk_plain {ts : TableSchema} (hp : plainTable ts = true) (v : View) (self : Option Rid) (vals : List Val) :
    uniqueOk Option.none v ts self vals = true := by
  unfold plainTable at hp
  simp only [Bool.and_eq_true, List.isEmpty_iff] at hp
  simp [uniqueOk, TableSchema.keySets, singleKeys_plain ts.cols 0 hp.1, hp.2]

theorem constraintsHold_plain {cat : Catalog} (hp : plainCat cat = true) (v : View) : constraintsHold cat v = true := by
  rw [constraintsHold_eq, List.all_eq_true]
  intro r _
  unfold rowOk
  cases hf : findTable cat r.table with
  | none => rfl
  | some ts =>
    have hpt := plain_of_find hp hf
    simp only [uniqueOk_plain hpt, Bool.and_true]
    unfold plainTable at hpt
    simp only [Bool.and_eq_true] at hpt
    exact notNullOk_plain ts.cols r.vals hpt.1

theorem keys_filter (f : String × List Val → Bool) : ∀ v : View,
    keys (v.filter (fun r => f (r.table, r.vals))) = (keys v).filter f
  | [] => rfl
  | r :: rs => by
    have ih := keys_filter f rs
    unfold keys at ih ⊢
    simp only [List.filter_cons, List.map_cons]
    cases f (r.table, r.vals) <;> simp [ih]

theorem evalQuery_keys (t : String) (p : Option (Nat × CmpOp × Val)) (v w : View) (h : keys v = keys w) :
    evalQuery t p v = evalQuery t p w := by
  have e : ∀ u : View, evalQuery t p u = ((keys u).filter (fun k => k.1 == t && rowMatches p k.2)).map (·.2) := by
    intro u
    unfold evalQuery
    rw [← keys_filter (fun k => k.1 == t && rowMatches p k.2) u]
    simp [keys]
  rw [e v, e w, h]

theorem planDel_out_effs (t : String) (p : Option (Nat × CmpOp × Val)) : ∀ v : View,
    (planDel t p v).out = .okN (v.filter (fun r => r.table == t && rowMatches p r.vals)).length ∧
    (planDel t p v).effs.map Effect.rid = (v.filter (fun r => r.table == t && rowMatches p r.vals)).map (·.rid)
  | [] => by simp [planDel]
  | r :: rs => by
    obtain ⟨h1, h2⟩ := planDel_out_effs t p rs
    simp only [planDel, List.filter_cons]
    split
    · simp [Plan.cons, h1, h2, Effect.rid]
    · exact ⟨h1, h2⟩

theorem filter_not_in_rids (P : ARow → Bool) (v : View) (hnd : (v.map (·.rid)).Nodup) :
    v.filter (fun r => !((v.filter P).map (·.rid)).contains r.rid) = v.filter (fun r => !P r) := by
  apply List.filter_congr
  intro r hr
  congr 1
  cases hP : P r with
  | true =>
    simp only [List.contains_eq_mem, decide_eq_true_eq]
    exact List.mem_map.2 ⟨r, List.mem_filter.2 ⟨hr, hP⟩, rfl⟩
  | false =>
    cases hc : ((v.filter P).map (·.rid)).contains r.rid with
    | false => rfl
    | true =>
      exfalso
      have hm : r.rid ∈ (v.filter P).map (·.rid) := by simpa using hc
      obtain ⟨s, hs, hsr⟩ := List.mem_map.1 hm
      have := rid_inj hnd (List.mem_filter.1 hs).1 hr hsr
      subst this
      rw [(List.mem_filter.1 hs).2] at hP
      cases hP

theorem planIns_keys (ts : TableSchema) (hpt : plainTable ts = true) (c c' : Nat) : ∀ (rows : List (List Val)) (v w : View) (j j' : Nat),
    (planIns ts c Option.none v rows j).out = (planIns ts c' Option.none w rows j').out ∧
    keys (insRows (planIns ts c Option.none v rows j).effs) = keys (insRows (planIns ts c' Option.none w rows j').effs)
  | [], v, w, j, j' => by simp [planIns, insRows, keys]
  | r :: rs, v, w, j, j' => by
    simp only [planIns, uniqueOk_plain hpt, Probe.step, Option.map_none]
    cases hc : castRow ts.cols r with
    | error e => simp [insRows, keys]
    | ok r' =>
      simp only
      split
      · simp [insRows, keys]
      · obtain ⟨h1, h2⟩ := planIns_keys ts hpt c c' rs (v.apply (Effect.ins (c, j) ts.name r'))
          (w.apply (Effect.ins (c', j') ts.name r')) (j + 1) (j' + 1)
        simp only [Bool.not_true, Bool.false_eq_true, if_false, Plan.cons, insRows, h1]
        refine ⟨trivial, ?_⟩
        unfold keys at h2 ⊢
        simp only [List.map_cons, h2]


/-- two states that agree on everything observable: the catalog and the rows (table, values) in order -/
structure Sim (α β : Spec.State) : Prop where
  cat : β.cat = α.cat
  rows : keys β.committed = keys α.committed

theorem keys_append (v w : View) : keys (v ++ w) = keys v ++ keys w := by simp [keys]

/-- with a plain catalog a statement that does not fail always commits -/
theorem autoStep_plain (α : Spec.State) (hp : plainCat α.cat = true) (st : Stmt) :
    autoStep α st =
      (if (planStmt Option.none α.cat α.clock 0 α.committed st).out.isErr then ({ α with clock := α.clock + 1 },
          Out.stmt (planStmt Option.none α.cat α.clock 0 α.committed st).out)
       else ({ α with committed := post α.committed (planStmt Option.none α.cat α.clock 0 α.committed st).effs,
                      log := α.log ++ [(α.log.length, (planStmt Option.none α.cat α.clock 0 α.committed st).effs.map Effect.rid)],
                      clock := α.clock + 1 }, Out.stmt (planStmt Option.none α.cat α.clock 0 α.committed st).out)) := by
  unfold autoStep
  simp only [constraintsHold_plain hp, Bool.not_true, Bool.false_eq_true, if_false]

/-- the answer of a statement, and the observable part of what it commits, are functions of the observable part of the state -/
theorem plan_sim (α β : Spec.State) (hp : plainCat α.cat = true) (st : Stmt) (hs : simpleStmt st = true)
    (hiα : Inv α) (hiβ : Inv β) (h : Sim α β) :
    (planStmt Option.none α.cat α.clock 0 α.committed st).out = (planStmt Option.none β.cat β.clock 0 β.committed st).out ∧
    keys (post β.committed (planStmt Option.none β.cat β.clock 0 β.committed st).effs) =
      keys (post α.committed (planStmt Option.none α.cat α.clock 0 α.committed st).effs) := by
  have hc := h.cat
  have hk := h.rows
  rw [hc]
  cases st with
  | upd t c a x p => simp [simpleStmt] at hs
  | sel t p =>
    simp only [planStmt]
    cases hf : findTable α.cat t with
    | none => simp only [post_nil, hk, and_self]
    | some ts =>
      simp only
      cases hb : bindPred ts p with
      | error e => simp only [post_nil, hk, and_self]
      | ok bp => simp only [post_nil, hk, evalQuery_keys t bp β.committed α.committed hk, and_self]
  | ins t rows =>
    simp only [planStmt]
    cases hf : findTable α.cat t with
    | none => simp only [post_nil, hk, and_self]
    | some ts =>
      simp only
      have hpt := plain_of_find hp hf
      by_cases har : (rows.any fun r => r.length != ts.cols.length) = true
      · simp only [har, if_true, post_nil, hk, and_self]
      · simp only [har, Bool.false_eq_true, if_false]
        obtain ⟨ho, hrows⟩ := planIns_keys ts hpt α.clock β.clock rows α.committed β.committed 0 0
        refine ⟨ho, ?_⟩
        rw [post_insRun α.clock ts.name α.committed hiα.fresh _ 0 (planIns_insRun ts α.clock rows α.committed 0),
          post_insRun β.clock ts.name β.committed hiβ.fresh _ 0 (planIns_insRun ts β.clock rows β.committed 0),
          keys_append, keys_append, hk, hrows]
  | del t p =>
    simp only [planStmt]
    cases hf : findTable α.cat t with
    | none => simp only [post_nil, hk, and_self]
    | some ts =>
      simp only
      cases hb : bindPred ts p with
      | error e => simp only [post_nil, hk, and_self]
      | ok bp =>
        simp only
        obtain ⟨ho1, he1⟩ := planDel_out_effs t bp α.committed
        obtain ⟨ho2, he2⟩ := planDel_out_effs t bp β.committed
        have hkf : ∀ (f : String × List Val → Bool),
            keys (β.committed.filter (fun r => f (r.table, r.vals))) = keys (α.committed.filter (fun r => f (r.table, r.vals))) := by
          intro f; rw [keys_filter, keys_filter, hk]
        have hlen : (β.committed.filter (fun r => r.table == t && rowMatches bp r.vals)).length =
            (α.committed.filter (fun r => r.table == t && rowMatches bp r.vals)).length := by
          have := congrArg List.length (hkf (fun k => k.1 == t && rowMatches bp k.2))
          simpa [keys] using this
        have hd1 := allDel_of_delsOf (planDel_delsOf t bp α.committed α.committed (fun _ h => h))
        have hd2 := allDel_of_delsOf (planDel_delsOf t bp β.committed β.committed (fun _ h => h))
        refine ⟨by rw [ho1, ho2, hlen], ?_⟩
        rw [post_allDel _ _ hd1, post_allDel _ _ hd2, he1, he2,
          filter_not_in_rids _ α.committed hiα.nodup, filter_not_in_rids _ β.committed hiβ.nodup]
        exact hkf (fun k => !(k.1 == t && rowMatches bp k.2))

theorem sim_auto (α β : Spec.State) (hp : plainCat α.cat = true) (st : Stmt) (hs : simpleStmt st = true)
    (hiα : Inv α) (hiβ : Inv β) (h : Sim α β) :
    (autoStep α st).2 = (autoStep β st).2 ∧ Sim (autoStep α st).1 (autoStep β st).1 := by
  have hpβ : plainCat β.cat = true := by rw [h.cat]; exact hp
  obtain ⟨ho, hrows⟩ := plan_sim α β hp st hs hiα hiβ h
  rw [autoStep_plain α hp, autoStep_plain β hpβ, ← ho]
  by_cases he : (planStmt Option.none α.cat α.clock 0 α.committed st).out.isErr = true
  · simp only [he, if_true]
    exact ⟨trivial, ⟨h.cat, h.rows⟩⟩
  · simp only [he, Bool.false_eq_true, if_false]
    exact ⟨trivial, ⟨h.cat, hrows⟩⟩

theorem sim_from : ∀ (ops : List Op) (α β : Spec.State), plainCat α.cat = true → ops.all okOp = true → Inv α → Inv β → Sim α β →
    realAnswers ops (Spec.outs α ops) = realAnswers (dropNops ops) (Spec.outs β (dropNops ops)) ∧
    keys (Spec.final α ops).committed = keys (Spec.final β (dropNops ops)).committed
  | [], α, β, _, _, _, _, h => by simp [dropNops, realAnswers, Spec.outs, Spec.final, h.rows]
  | op :: ops, α, β, hp, hok, hiα, hiβ, h => by
    simp only [List.all_cons, Bool.and_eq_true] at hok
    obtain ⟨hop, hops⟩ := hok
    cases op with
    | auto st =>
      have hs : simpleStmt st = true := hop
      obtain ⟨ho, hsim⟩ := sim_auto α β hp st hs hiα hiβ h
      have hcat : (autoStep α st).1.cat = α.cat := by
        rw [autoStep_plain α hp]; split <;> rfl
      have ih := sim_from ops _ _ (by rw [hcat]; exact hp) hops (inv_autoStep α st hs hiα) (inv_autoStep β st hs hiβ) hsim
      simp only [dropNops, List.filter_cons, isNop, Bool.not_false, if_true, Spec.outs, Spec.final, realAnswers, step_auto,
        Bool.false_eq_true, if_false]
      simp only [dropNops] at ih
      rw [ho, ih.1, ih.2]
      exact ⟨rfl, rfl⟩
    | tick =>
      have hstep : ∀ γ : Spec.State, Spec.step γ .tick = ({ γ with log := γ.log ++ [(γ.log.length, [])], clock := γ.clock + 1 }, Out.ok) :=
        fun _ => rfl
      have hi' : ∀ γ : Spec.State, Inv γ → Inv { γ with log := γ.log ++ [(γ.log.length, [])], clock := γ.clock + 1 } :=
        fun γ hi => ⟨fun r hr => Nat.lt_succ_of_lt (hi.fresh r hr), hi.nodup, hi.ch⟩
      have ih := sim_from ops { α with log := α.log ++ [(α.log.length, [])], clock := α.clock + 1 }
        { β with log := β.log ++ [(β.log.length, [])], clock := β.clock + 1 } hp hops (hi' α hiα) (hi' β hiβ) ⟨h.cat, h.rows⟩
      simp only [dropNops, List.filter_cons, isNop, Bool.not_false, if_true, Spec.outs, Spec.final, realAnswers, hstep,
        Bool.false_eq_true, if_false]
      simp only [dropNops] at ih
      rw [ih.1, ih.2]
      exact ⟨rfl, rfl⟩
    | nop =>
      have hstep : Spec.step α .nop = ({ α with clock := α.clock + 1 }, Out.none) := rfl
      have hi' : Inv { α with clock := α.clock + 1 } :=
        ⟨fun r hr => Nat.lt_succ_of_lt (hiα.fresh r hr), hiα.nodup, hiα.ch⟩
      have ih := sim_from ops { α with clock := α.clock + 1 } β hp hops hi' hiβ ⟨h.cat, h.rows⟩
      simp only [dropNops, List.filter_cons, isNop, Bool.not_true, Bool.false_eq_true, if_false, Spec.outs, Spec.final,
        realAnswers, hstep, if_true]
      simp only [dropNops] at ih
      exact ih
    | _ => simp [okOp] at hop

end AxVerif.Db.NI
