/-
  Lemmas for the latch model (C14): program disciplines (`pagerOk`, `noW`, `guarded`), invariants of reachable states and
  the deadlock-freedom arguments.
-/
import AxVerif.Model.Latch
namespace AxVerif.Latch

variable {D : Defects}

/-! ## disciplines (decidable predicates on programs) -/

/-- the pager lock is released by the very next instruction after it was taken: nothing that can wait sits inside -/
def pagerOk : Bool → List Instr → Bool
  | pg, [] => !pg
  | pg, .lockPager :: rest => !pg && pagerOk true rest
  | pg, .unlockPager :: rest => pg && pagerOk false rest
  | pg, _ :: rest => !pg && pagerOk false rest

/-- no write latch is ever requested -/
def noW : List Instr → Bool
  | [] => true
  | .acq _ .W :: _ => false
  | _ :: rest => noW rest

def pages (held : List (Nat × Mode)) : List Nat := held.map (·.1)

/-- `rootOf p` = root page of the tree page `p` belongs to (`rootOf p = p` for a root).
    At the moment a thread starts to wait for page `p` in mode `m` while holding `held`:
    * every held page has its root held too, in write mode if the page itself is write-latched;
    * a root is requested only with empty hands — or, when read latches are re-entrant (no defect), for reading by a
      thread that already holds a read guard of it;
    * a non-root page is requested either with empty hands and for reading, or while the root of its tree is held — in
      write mode for a write request; a page is never write-requested while held, nor read-requested while write-held. -/
def acqOk (D : Defects) (rootOf : Nat → Nat) (held : List (Nat × Mode)) (p : Nat) (m : Mode) : Bool :=
  held.all (fun h => held.any (fun g => g.1 == rootOf h.1 && (h.2 == Mode.R || g.2 == Mode.W))) &&
  (if rootOf p == p then
     held.isEmpty || (!D.readLatchQueuesBehindWriter && m == Mode.R && (pages held).contains p && !held.contains (p, Mode.W))
   else if held.isEmpty then m == Mode.R
   else held.any (fun g => g.1 == rootOf p && (m == Mode.R || g.2 == Mode.W)) &&
        (m == Mode.R || !(pages held).contains p) && !held.contains (p, Mode.W))

/-- the discipline of the tree code: root first, everything else under the root (see `acqOk`), pager lock never held
    across anything, empty hands at the end -/
def guarded (D : Defects) (rootOf : Nat → Nat) : List (Nat × Mode) → Bool → List Instr → Bool
  | held, pg, [] => held.isEmpty && !pg
  | held, pg, .lockPager :: rest => !pg && guarded D rootOf held true rest
  | held, pg, .unlockPager :: rest => pg && guarded D rootOf held false rest
  | held, pg, .acq p m :: rest => !pg && acqOk D rootOf held p m && guarded D rootOf ((p, m) :: held) false rest
  | held, pg, .rel p :: rest => !pg && guarded D rootOf (relOne p held) false rest
  | held, pg, .relAll :: rest => !pg && guarded D rootOf [] false rest

/-! ## basic facts -/

theorem mem_relOne {p : Nat} {h : Nat × Mode} {held : List (Nat × Mode)} (hm : h ∈ relOne p held) : h ∈ held := by
  induction held with
  | nil => simp [relOne] at hm
  | cons x xs ih =>
    unfold relOne at hm
    split at hm
    · exact List.mem_cons_of_mem _ hm
    · rcases List.mem_cons.1 hm with e | e
      · exact e ▸ List.mem_cons_self
      · exact List.mem_cons_of_mem _ (ih e)

theorem holds_iff {t : Thread} {p : Nat} : t.holds p = true ↔ ∃ m, (p, m) ∈ t.held := by
  unfold Thread.holds
  rw [List.any_eq_true]
  constructor
  · rintro ⟨⟨q, m⟩, hm, hq⟩
    have : q = p := by simpa using hq
    exact ⟨m, this ▸ hm⟩
  · rintro ⟨m, hm⟩
    exact ⟨(p, m), hm, by simp⟩

theorem holdsW_iff {t : Thread} {p : Nat} : t.holdsW p = true ↔ (p, Mode.W) ∈ t.held := by
  unfold Thread.holdsW
  rw [List.any_eq_true]
  constructor
  · rintro ⟨⟨q, m⟩, hm, hq⟩
    have h2 : q = p ∧ m = Mode.W := by simpa using hq
    obtain ⟨rfl, rfl⟩ := h2
    exact hm
  · intro hm
    exact ⟨(p, Mode.W), hm, by simp⟩

theorem step_some {s s' : State} {i : Nat} (h : step D s i = some s') :
    ∃ t, s[i]? = some t ∧ enabled D s t = true ∧ s' = s.set i (advance t) := by
  unfold step at h
  cases ht : s[i]? with
  | none => simp [ht] at h
  | some t =>
    simp only [ht] at h
    by_cases he : enabled D s t = true
    · simp only [he, if_true, Option.some.injEq] at h
      exact ⟨t, rfl, he, h.symm⟩
    · simp [he] at h

theorem getElem?_step {s : State} {i : Nat} {t : Thread} (hi : s[i]? = some t) (t' : Thread) (j : Nat) :
    (s.set i t')[j]? = if j = i then some t' else s[j]? := by
  have hlt : i < s.length := by
    rcases Nat.lt_or_ge i s.length with h | h
    · exact h
    · rw [List.getElem?_eq_none h] at hi; cases hi
  rw [List.getElem?_set]
  by_cases e : i = j
  · subst e; simp [hlt]
  · have : ¬ j = i := fun h => e h.symm
    simp [e, this]

theorem mem_of_getElem? {s : State} {i : Nat} {t : Thread} (h : s[i]? = some t) : t ∈ s :=
  List.mem_of_getElem? h

theorem mem_pages {held : List (Nat × Mode)} {q : Nat} : q ∈ pages held ↔ ∃ m, (q, m) ∈ held := by
  unfold pages
  rw [List.mem_map]
  constructor
  · rintro ⟨⟨q', m⟩, hm, rfl⟩; exact ⟨m, hm⟩
  · rintro ⟨m, hm⟩; exact ⟨(q, m), hm, rfl⟩

/-! ## thread-local invariant under a discipline -/

/-- a waiting thread is at an `acq` -/
def waitOk (t : Thread) : Bool :=
  !t.waiting || (match t.prog with
    | .acq _ _ :: _ => true
    | _ => false)

theorem waitOk_advance {s : State} {t : Thread} (hw : waitOk t = true) (_he : enabled D s t = true) :
    waitOk (advance t) = true := by
  unfold waitOk advance at *
  cases hp : t.prog with
  | nil => simpa [hp] using hw
  | cons ins rest =>
    cases ins with
    | lockPager => simp [hp] at hw ⊢; simp [hw]
    | unlockPager => simp [hp] at hw ⊢; simp [hw]
    | acq p m =>
      by_cases hwt : t.waiting = true
      · simp [hwt]
      · simp [hwt, hp]
    | rel p => simp [hp] at hw ⊢; simp [hw]
    | relAll => simp [hp] at hw ⊢; simp [hw]

theorem pagerOk_advance {t : Thread} (h : pagerOk t.pager t.prog = true) (hw : waitOk t = true) :
    pagerOk (advance t).pager (advance t).prog = true := by
  unfold advance
  cases hp : t.prog with
  | nil => simpa [hp] using h
  | cons ins rest =>
    rw [hp] at h
    cases ins with
    | lockPager => simp [pagerOk] at h ⊢; exact h.2
    | unlockPager => simp [pagerOk] at h ⊢; exact h.2
    | acq p m =>
      by_cases hwt : t.waiting = true
      · simp [pagerOk] at h; simp [hwt, h.1, h.2]
      · simp [hwt, hp]; exact h
    | rel p => simp [pagerOk] at h ⊢; simp [h.1, h.2]
    | relAll => simp [pagerOk] at h ⊢; simp [h.1, h.2]

theorem noW_advance {t : Thread} (h : noW t.prog = true) : noW (advance t).prog = true := by
  unfold advance
  cases hp : t.prog with
  | nil => simp [hp, noW]
  | cons ins rest =>
    rw [hp] at h
    cases ins with
    | lockPager => simpa [noW] using h
    | unlockPager => simpa [noW] using h
    | acq p m =>
      by_cases hwt : t.waiting = true
      · cases m with
        | R => simp [hwt]; simpa [noW] using h
        | W => simp [noW] at h
      · simp [hwt, hp]; exact h
    | rel p => simpa [noW] using h
    | relAll => simpa [noW] using h

theorem guarded_advance {rootOf : Nat → Nat} {t : Thread} (h : guarded D rootOf t.held t.pager t.prog = true) :
    guarded D rootOf (advance t).held (advance t).pager (advance t).prog = true := by
  unfold advance
  cases hp : t.prog with
  | nil => simpa [hp] using h
  | cons ins rest =>
    rw [hp] at h
    cases ins with
    | lockPager => simp [guarded] at h ⊢; exact h.2
    | unlockPager => simp [guarded] at h ⊢; exact h.2
    | acq p m =>
      by_cases hwt : t.waiting = true
      · simp [guarded] at h; simp [hwt, h.1.1, h.2]
      · simp [hwt, hp]; exact h
    | rel p => simp [guarded] at h ⊢; simp [h.1, h.2]
    | relAll => simp [guarded] at h ⊢; simp [h.1, h.2]

/-- the pager part of `guarded` -/
theorem pagerOk_of_guarded {rootOf : Nat → Nat} : ∀ (prog : List Instr) (held : List (Nat × Mode)) (pg : Bool),
    guarded D rootOf held pg prog = true → pagerOk pg prog = true
  | [], held, pg, h => by simp [guarded] at h; simp [pagerOk, h.2]
  | .lockPager :: rest, held, pg, h => by
    simp [guarded] at h; simp [pagerOk, h.1]; exact pagerOk_of_guarded rest held true h.2
  | .unlockPager :: rest, held, pg, h => by
    simp [guarded] at h; simp [pagerOk, h.1]; exact pagerOk_of_guarded rest held false h.2
  | .acq p m :: rest, held, pg, h => by
    simp [guarded] at h; simp [pagerOk, h.1.1]; exact pagerOk_of_guarded rest _ false h.2
  | .rel p :: rest, held, pg, h => by
    simp [guarded] at h; simp [pagerOk, h.1]; exact pagerOk_of_guarded rest _ false h.2
  | .relAll :: rest, held, pg, h => by
    simp [guarded] at h; simp [pagerOk, h.1]; exact pagerOk_of_guarded rest _ false h.2

/-! ## invariants of reachable states -/

/-- a predicate on threads that holds initially and is kept by the stepping thread holds in every reachable state -/
theorem reach_forall {P : Thread → Prop} {progs : List (List Instr)}
    (h0 : ∀ pr ∈ progs, P (Thread.start pr))
    (hstep : ∀ (s : State) (t : Thread), (∀ u ∈ s, P u) → t ∈ s → enabled D s t = true → P t → P (advance t))
    {s : State} (hr : Reachable D (init progs) s) : ∀ t ∈ s, P t := by
  induction hr with
  | init =>
    intro t ht
    obtain ⟨pr, hpr, rfl⟩ := List.mem_map.1 ht
    exact h0 pr hpr
  | step hr' hs ih =>
    obtain ⟨t, hi, he, rfl⟩ := step_some hs
    intro u hu
    rcases List.mem_or_eq_of_mem_set hu with h | h
    · exact ih u h
    · exact h ▸ hstep _ t ih (mem_of_getElem? hi) he (ih t (mem_of_getElem? hi))

/-- threads under the pager discipline: the flag is set exactly between `lockPager` and `unlockPager` -/
theorem reach_pagerOk {progs : List (List Instr)} (h0 : ∀ pr ∈ progs, pagerOk false pr = true)
    {s : State} (hr : Reachable D (init progs) s) :
    ∀ t ∈ s, pagerOk t.pager t.prog = true ∧ waitOk t = true := by
  apply reach_forall (P := fun t => pagerOk t.pager t.prog = true ∧ waitOk t = true) _ _ hr
  · intro pr hpr
    exact ⟨h0 pr hpr, by simp [Thread.start, waitOk]⟩
  · intro s t _ _ he ⟨h1, h2⟩
    exact ⟨pagerOk_advance h1 h2, waitOk_advance h2 he⟩

/-- a thread that holds the pager lock is about to release it -/
theorem pager_holder_enabled {s : State} {t : Thread} (h : pagerOk t.pager t.prog = true) (hp : t.pager = true) :
    enabled D s t = true := by
  unfold enabled
  cases hpr : t.prog with
  | nil => simp [hpr, pagerOk, hp] at h
  | cons ins rest =>
    rw [hpr, hp] at h
    cases ins <;> simp [pagerOk] at h ⊢

/-- under the pager discipline, a thread that cannot move is parked on a latch -/
theorem blocked_is_parked {s : State} (hall : ∀ t ∈ s, pagerOk t.pager t.prog = true ∧ waitOk t = true)
    (hdead : ∀ t ∈ s, enabled D s t = false) {t : Thread} (ht : t ∈ s) (hnf : t.finished = false) :
    ∃ p m rest, t.prog = .acq p m :: rest ∧ t.waiting = true ∧ grantable D s p m = false := by
  have he := hdead t ht
  unfold enabled at he
  cases hpr : t.prog with
  | nil => simp [Thread.finished, hpr] at hnf
  | cons ins rest =>
    rw [hpr] at he
    cases ins with
    | lockPager =>
      simp only [List.all_eq_false] at he
      obtain ⟨u, hu, hup⟩ := he
      have hup' : u.pager = true := by simpa using hup
      have := pager_holder_enabled (D := D) (s := s) (hall u hu).1 hup'
      rw [hdead u hu] at this; cases this
    | unlockPager => simp at he
    | acq p m =>
      by_cases hw : t.waiting = true
      · simp only [hw, if_true] at he
        exact ⟨p, m, rest, rfl, hw, he⟩
      · simp [hw] at he
    | rel p => simp at he
    | relAll => simp at he

/-! ### mutual exclusion -/

def Mutex (s : State) : Prop :=
  ∀ (i j : Nat) (a b : Thread) (q : Nat), s[i]? = some a → s[j]? = some b → (q, Mode.W) ∈ a.held → b.holds q = true → i = j

theorem mutex_init (progs : List (List Instr)) : Mutex (init progs) := by
  intro i j a b q hi _ hq _
  have ha := mem_of_getElem? hi
  obtain ⟨pr, _, rfl⟩ := List.mem_map.1 ha
  simp [Thread.start] at hq

theorem held_advance {t : Thread} {h : Nat × Mode} (hm : h ∈ (advance t).held) :
    h ∈ t.held ∨ (∃ p m rest, t.prog = .acq p m :: rest ∧ t.waiting = true ∧ h = (p, m)) := by
  unfold advance at hm
  cases hp : t.prog with
  | nil => left; simpa [hp] using hm
  | cons ins rest =>
    rw [hp] at hm
    cases ins with
    | lockPager => left; simpa using hm
    | unlockPager => left; simpa using hm
    | acq p m =>
      by_cases hwt : t.waiting = true
      · simp only [hwt, if_true] at hm
        rcases List.mem_cons.1 hm with e | e
        · right; exact ⟨p, m, rest, rfl, hwt, e⟩
        · left; exact e
      · left; simpa [hwt] using hm
    | rel p => left; exact mem_relOne (by simpa using hm)
    | relAll => simp at hm

theorem mutex_step {s s' : State} {i : Nat} (hm : Mutex s) (hs : step D s i = some s') : Mutex s' := by
  obtain ⟨t, hi, he, rfl⟩ := step_some hs
  intro j k a b q hj hk hq hb
  rw [getElem?_step hi] at hj hk
  by_cases ej : j = i <;> by_cases ek : k = i
  · rw [ej, ek]
  · -- a is the stepped thread, b an old one
    simp only [ej, if_true, Option.some.injEq] at hj
    simp only [ek, if_false] at hk
    subst hj
    rcases held_advance hq with h | ⟨p, m, rest, hp, hw, heq⟩
    · exact (ek (hm i k t b q hi hk h hb).symm).elim
    · -- the new guard is a write guard of q: nobody held q
      have e1 : q = p ∧ Mode.W = m := by simpa using heq
      obtain ⟨rfl, rfl⟩ := e1
      unfold enabled at he
      simp only [hp, hw, if_true, grantable] at he
      have := (List.all_eq_true.1 he) b (mem_of_getElem? hk)
      simp [hb] at this
  · -- b is the stepped thread, a an old one with a write guard of q
    simp only [ek, if_true, Option.some.injEq] at hk
    simp only [ej, if_false] at hj
    subst hk
    obtain ⟨m', hm'⟩ := holds_iff.1 hb
    rcases held_advance hm' with h | ⟨p, m, rest, hp, hw, heq⟩
    · exact (ej (hm j i a t q hj hi hq (holds_iff.2 ⟨m', h⟩))).elim
    · have e1 : q = p ∧ m' = m := by simpa using heq
      obtain ⟨rfl, rfl⟩ := e1
      unfold enabled at he
      simp only [hp, hw, if_true] at he
      have ha := mem_of_getElem? hj
      cases m' with
      | W =>
        simp only [grantable] at he
        have := (List.all_eq_true.1 he) a ha
        have hh : a.holds q = true := holds_iff.2 ⟨_, hq⟩
        simp [hh] at this
      | R =>
        simp only [grantable] at he
        have := (List.all_eq_true.1 he) a ha
        have hh : a.holdsW q = true := holdsW_iff.2 hq
        simp [hh] at this
  · simp only [ej, if_false] at hj
    simp only [ek, if_false] at hk
    exact hm j k a b q hj hk hq hb

theorem reach_mutex {progs : List (List Instr)} {s : State} (hr : Reachable D (init progs) s) : Mutex s := by
  induction hr with
  | init => exact mutex_init progs
  | step _ hs ih => exact mutex_step ih hs

/-! ## readers only -/

theorem reach_noW {progs : List (List Instr)} (h0 : ∀ pr ∈ progs, noW pr = true)
    {s : State} (hr : Reachable D (init progs) s) :
    ∀ t ∈ s, noW t.prog = true ∧ (∀ q, (q, Mode.W) ∉ t.held) := by
  apply reach_forall (P := fun t => noW t.prog = true ∧ (∀ q, (q, Mode.W) ∉ t.held)) _ _ hr
  · intro pr hpr
    exact ⟨h0 pr hpr, by simp [Thread.start]⟩
  · intro s t _ _ _ ⟨h1, h2⟩
    refine ⟨noW_advance h1, ?_⟩
    intro q hq
    rcases held_advance hq with h | ⟨p, m, rest, hp, _, heq⟩
    · exact h2 q h
    · have e1 : q = p ∧ Mode.W = m := by simpa using heq
      obtain ⟨rfl, rfl⟩ := e1
      rw [hp] at h1
      simp [noW] at h1

theorem not_deadlocked_of_enabled {s : State} {t : Thread} (ht : t ∈ s) (he : enabled D s t = true) :
    deadlocked D s = false := by
  unfold deadlocked
  have : (s.all fun t => !enabled D s t) = false := by
    rw [List.all_eq_false]
    exact ⟨t, ht, by simp [he]⟩
  simp [this]

theorem readers_only_no_deadlock {progs : List (List Instr)}
    (hp : ∀ pr ∈ progs, pagerOk false pr = true) (hw : ∀ pr ∈ progs, noW pr = true)
    {s : State} (hr : Reachable D (init progs) s) : deadlocked D s = false := by
  cases hd : deadlocked D s with
  | false => rfl
  | true =>
    exfalso
    unfold deadlocked at hd
    simp only [Bool.and_eq_true, List.any_eq_true, List.all_eq_true] at hd
    obtain ⟨⟨t, ht, hnf⟩, hall⟩ := hd
    have hdead : ∀ t ∈ s, enabled D s t = false := fun u hu => by simpa using hall u hu
    have hnf' : t.finished = false := by simpa using hnf
    obtain ⟨p, m, rest, hprog, _, hg⟩ := blocked_is_parked (reach_pagerOk hp hr) hdead ht hnf'
    have hn := reach_noW hw hr
    cases m with
    | W =>
      have := (hn t ht).1
      rw [hprog] at this
      simp [noW] at this
    | R =>
      simp only [grantable, List.all_eq_false] at hg
      obtain ⟨u, hu, hbad⟩ := hg
      have hbad' : u.holdsW p = true ∨ u.parkedW p = true := by
        cases h1 : u.holdsW p <;> cases h2 : u.parkedW p <;> simp [h1, h2] at hbad ⊢
      rcases hbad' with h | h
      · exact (hn u hu).2 p (holdsW_iff.1 h)
      · unfold Thread.parkedW at h
        have hnw := (hn u hu).1
        cases hpu : u.prog with
        | nil => simp [hpu] at h
        | cons ins r =>
          rw [hpu] at h hnw
          cases ins with
          | acq q m' =>
            cases m' with
            | W => simp [noW] at hnw
            | R => simp at h
          | _ => simp at h

/-! ## guarded programs -/

theorem reach_guarded {rootOf : Nat → Nat} {progs : List (List Instr)}
    (h0 : ∀ pr ∈ progs, guarded D rootOf [] false pr = true)
    {s : State} (hr : Reachable D (init progs) s) :
    ∀ t ∈ s, guarded D rootOf t.held t.pager t.prog = true := by
  apply reach_forall (P := fun t => guarded D rootOf t.held t.pager t.prog = true) _ _ hr
  · intro pr hpr
    exact h0 pr hpr
  · intro s t _ _ _ h
    exact guarded_advance h

/-- what `acqOk` says, as propositions -/
theorem acqOk_closure {rootOf : Nat → Nat} {held : List (Nat × Mode)} {p : Nat} {m : Mode}
    (h : acqOk D rootOf held p m = true) (x : Nat × Mode) (hx : x ∈ held) :
    ∃ g ∈ held, g.1 = rootOf x.1 ∧ (x.2 = Mode.W → g.2 = Mode.W) := by
  unfold acqOk at h
  simp only [Bool.and_eq_true, List.all_eq_true, List.any_eq_true] at h
  obtain ⟨g, hg, hc⟩ := h.1 x hx
  refine ⟨g, hg, ?_⟩
  simp only [Bool.and_eq_true, beq_iff_eq, Bool.or_eq_true] at hc
  refine ⟨hc.1, ?_⟩
  intro hw
  rcases hc.2 with h1 | h1
  · rw [hw] at h1; cases h1
  · exact h1

theorem acqOk_root {rootOf : Nat → Nat} {held : List (Nat × Mode)} {p : Nat} {m : Mode}
    (h : acqOk D rootOf held p m = true) (hr : rootOf p = p) :
    held = [] ∨ (D.readLatchQueuesBehindWriter = false ∧ m = Mode.R ∧ p ∈ pages held ∧ (p, Mode.W) ∉ held) := by
  unfold acqOk at h
  simp only [Bool.and_eq_true] at h
  have := h.2
  simp only [hr, beq_self_eq_true, if_true, Bool.or_eq_true, List.isEmpty_iff, Bool.and_eq_true,
    Bool.not_eq_true', beq_iff_eq, List.contains_eq_mem, decide_eq_true_eq, decide_eq_false_iff_not] at this
  rcases this with h1 | ⟨⟨⟨h1, h2⟩, h3⟩, h4⟩
  · exact Or.inl h1
  · exact Or.inr ⟨h1, h2, h3, h4⟩

theorem acqOk_nonroot {rootOf : Nat → Nat} {held : List (Nat × Mode)} {p : Nat} {m : Mode}
    (h : acqOk D rootOf held p m = true) (hr : rootOf p ≠ p) :
    (held = [] ∧ m = Mode.R) ∨
    (held ≠ [] ∧ (∃ g ∈ held, g.1 = rootOf p ∧ (m = Mode.W → g.2 = Mode.W)) ∧
      (m = Mode.W → p ∉ pages held) ∧ (p, Mode.W) ∉ held) := by
  unfold acqOk at h
  simp only [Bool.and_eq_true] at h
  have h2 := h.2
  have hne : (rootOf p == p) = false := by simpa using hr
  simp only [hne, Bool.false_eq_true, if_false] at h2
  by_cases he : held = []
  · left
    subst he
    simp at h2
    exact ⟨rfl, h2⟩
  · right
    have hie : held.isEmpty = false := by simpa [List.isEmpty_iff] using he
    simp only [hie, Bool.false_eq_true, if_false, Bool.and_eq_true, List.any_eq_true] at h2
    obtain ⟨⟨⟨g, hg, hc⟩, hnp⟩, hnw⟩ := h2
    simp only [Bool.and_eq_true, beq_iff_eq, Bool.or_eq_true] at hc
    refine ⟨he, ⟨g, hg, hc.1, ?_⟩, ?_, ?_⟩
    · intro hw
      rcases hc.2 with h1 | h1
      · rw [hw] at h1; cases h1
      · exact h1
    · intro hw
      subst hw
      simpa using hnp
    · simpa using hnw

theorem guarded_acq {rootOf : Nat → Nat} {t : Thread} {p : Nat} {m : Mode} {rest : List Instr}
    (h : guarded D rootOf t.held t.pager t.prog = true) (hp : t.prog = .acq p m :: rest) :
    acqOk D rootOf t.held p m = true := by
  rw [hp] at h
  simp [guarded] at h
  exact h.1.2

theorem guarded_finished {rootOf : Nat → Nat} {t : Thread}
    (h : guarded D rootOf t.held t.pager t.prog = true) (hf : t.finished = true) : t.held = [] := by
  have : t.prog = [] := by simpa [Thread.finished, List.isEmpty_iff] using hf
  rw [this] at h
  simp [guarded] at h
  exact h.1

/-- **Key lemma.**  In a state where nobody can move, no parked thread holds a latch. -/
theorem parked_holds_nothing {rootOf : Nat → Nat} {s : State}
    (hg : ∀ t ∈ s, guarded D rootOf t.held t.pager t.prog = true)
    (hw : ∀ t ∈ s, waitOk t = true)
    (hm : Mutex s) (hdead : ∀ t ∈ s, enabled D s t = false)
    {i : Nat} {t : Thread} (hi : s[i]? = some t) {p : Nat} {m : Mode} {rest : List Instr}
    (hprog : t.prog = .acq p m :: rest) (hgr : grantable D s p m = false) : t.held = [] := by
  have ht := mem_of_getElem? hi
  have hall : ∀ u ∈ s, pagerOk u.pager u.prog = true ∧ waitOk u = true :=
    fun u hu => ⟨pagerOk_of_guarded _ _ _ (hg u hu), hw u hu⟩
  -- every thread that holds something is parked at an `acq` satisfying `acqOk`
  have hparked : ∀ u ∈ s, u.held ≠ [] → ∃ q mq r, u.prog = .acq q mq :: r ∧ acqOk D rootOf u.held q mq = true := by
    intro u hu hne
    have hnf : u.finished = false := by
      cases hf : u.finished with
      | false => rfl
      | true => exact (hne (guarded_finished (hg u hu) hf)).elim
    obtain ⟨q, mq, r, hpq, _, _⟩ := blocked_is_parked hall hdead hu hnf
    exact ⟨q, mq, r, hpq, guarded_acq (hg u hu) hpq⟩
  have hok := guarded_acq (hg t ht) hprog
  by_cases hroot : rootOf p = p
  · rcases acqOk_root hok hroot with he | ⟨hD, hmR, hpin, hnw⟩
    · exact he
    · -- re-entrant read of a root the thread already holds: only a write holder could block it
      exfalso
      subst hmR
      simp only [grantable, hD, Bool.false_and, Bool.not_false, Bool.and_true, List.all_eq_false] at hgr
      obtain ⟨u, hu, hbad⟩ := hgr
      have hbad' : u.holdsW p = true := by simpa using hbad
      obtain ⟨j, hj⟩ := List.mem_iff_getElem?.1 hu
      obtain ⟨mp, hmp⟩ := mem_pages.1 hpin
      have hji := hm j i u t p hj hi (holdsW_iff.1 hbad') (holds_iff.2 ⟨mp, hmp⟩)
      subst hji
      rw [hi] at hj
      cases hj
      exact hnw (holdsW_iff.1 hbad')
  · rcases acqOk_nonroot hok hroot with ⟨he, _⟩ | ⟨hne, ⟨g, hgm, hg1, hg2⟩, hnp, hnw⟩
    · exact he
    · exfalso
      -- t holds the root of p's tree
      have htroot : t.holds (rootOf p) = true := holds_iff.2 ⟨g.2, by rw [← hg1]; exact hgm⟩
      cases m with
      | W =>
        have hgw : (rootOf p, Mode.W) ∈ t.held := by
          have := hg2 rfl
          rw [← hg1, ← this]; exact hgm
        simp only [grantable, List.all_eq_false] at hgr
        obtain ⟨u, hu, hup⟩ := hgr
        have hup' : u.holds p = true := by simpa using hup
        obtain ⟨j, hj⟩ := List.mem_iff_getElem?.1 hu
        obtain ⟨mu, hmu⟩ := holds_iff.1 hup'
        have hune : u.held ≠ [] := by intro e; rw [e] at hmu; cases hmu
        obtain ⟨q, mq, r, _, hqok⟩ := hparked u hu hune
        obtain ⟨g', hg', hg'1, _⟩ := acqOk_closure hqok (p, mu) hmu
        have huroot : u.holds (rootOf p) = true := holds_iff.2 ⟨g'.2, by rw [← hg'1]; exact hg'⟩
        have hij := hm i j t u (rootOf p) hi hj hgw huroot
        subst hij
        rw [hi] at hj
        cases hj
        exact hnp rfl (List.mem_map.2 ⟨(p, mu), hmu, rfl⟩)
      | R =>
        simp only [grantable, List.all_eq_false] at hgr
        obtain ⟨u, hu, hbad⟩ := hgr
        obtain ⟨j, hj⟩ := List.mem_iff_getElem?.1 hu
        have hbad' : u.holdsW p = true ∨ u.parkedW p = true := by
          cases h1 : u.holdsW p <;> cases h2 : u.parkedW p <;> simp [h1, h2] at hbad ⊢
        rcases hbad' with h | h
        · -- u holds the write latch of p, hence the write latch of the root, which t holds too
          have hpw := holdsW_iff.1 h
          have hune : u.held ≠ [] := by intro e; rw [e] at hpw; cases hpw
          obtain ⟨q, mq, r, _, hqok⟩ := hparked u hu hune
          obtain ⟨g', hg', hg'1, hg'2⟩ := acqOk_closure hqok (p, Mode.W) hpw
          have hurw : (rootOf p, Mode.W) ∈ u.held := by
            have := hg'2 rfl
            rw [← hg'1, ← this]; exact hg'
          have hji := hm j i u t (rootOf p) hj hi hurw htroot
          subst hji
          rw [hi] at hj
          cases hj
          exact hnw hpw
        · -- u is parked for the write latch of p: it holds the write latch of the root
          unfold Thread.parkedW at h
          cases hpu : u.prog with
          | nil => simp [hpu] at h
          | cons ins r =>
            rw [hpu] at h
            cases ins with
            | acq q mq =>
              cases mq with
              | R => simp at h
              | W =>
                have hq : q = p := by
                  simp only [Bool.and_eq_true, beq_iff_eq] at h
                  exact h.2
                subst hq
                have huok := guarded_acq (hg u hu) hpu
                rcases acqOk_nonroot huok hroot with ⟨_, hmr⟩ | ⟨_, ⟨g', hg', hg'1, hg'2⟩, _, _⟩
                · cases hmr
                · have hurw : (rootOf q, Mode.W) ∈ u.held := by
                    have := hg'2 rfl
                    rw [← hg'1, ← this]; exact hg'
                  have hji := hm j i u t (rootOf q) hj hi hurw htroot
                  subst hji
                  rw [hi] at hj
                  cases hj
                  rw [hprog] at hpu
                  cases hpu
            | _ => simp at h

/-- **Deadlock freedom of guarded programs**, any number of threads, fair latches. -/
theorem guarded_no_deadlock {rootOf : Nat → Nat} {progs : List (List Instr)}
    (h0 : ∀ pr ∈ progs, guarded D rootOf [] false pr = true)
    {s : State} (hr : Reachable D (init progs) s) : deadlocked D s = false := by
  cases hd : deadlocked D s with
  | false => rfl
  | true =>
    exfalso
    unfold deadlocked at hd
    simp only [Bool.and_eq_true, List.any_eq_true, List.all_eq_true] at hd
    obtain ⟨⟨t, ht, hnf⟩, hall⟩ := hd
    have hdead : ∀ t ∈ s, enabled D s t = false := fun u hu => by simpa using hall u hu
    have hnf' : t.finished = false := by simpa using hnf
    have hg := reach_guarded h0 hr
    have hpo : ∀ pr ∈ progs, pagerOk false pr = true := fun pr hpr => pagerOk_of_guarded _ _ _ (h0 pr hpr)
    have hpw := reach_pagerOk hpo hr
    have hw : ∀ t ∈ s, waitOk t = true := fun u hu => (hpw u hu).2
    have hm := reach_mutex hr
    -- every thread with work left is parked and holds nothing
    have hpark : ∀ u ∈ s, u.finished = false →
        ∃ p m rest, u.prog = .acq p m :: rest ∧ grantable D s p m = false ∧ u.held = [] := by
      intro u hu hnfu
      obtain ⟨p, m, rest, hprog, _, hgr⟩ := blocked_is_parked hpw hdead hu hnfu
      obtain ⟨j, hj⟩ := List.mem_iff_getElem?.1 hu
      exact ⟨p, m, rest, hprog, hgr, parked_holds_nothing hg hw hm hdead hj hprog hgr⟩
    -- a thread that holds something has work left
    have hholder : ∀ u ∈ s, u.held ≠ [] → False := by
      intro u hu hne
      have hnfu : u.finished = false := by
        cases hf : u.finished with
        | false => rfl
        | true => exact (hne (guarded_finished (hg u hu) hf)).elim
      obtain ⟨_, _, _, _, _, he⟩ := hpark u hu hnfu
      exact hne he
    obtain ⟨p, m, rest, hprog, hgr, _⟩ := hpark t ht hnf'
    -- whoever blocks t holds a latch or is parked for a write latch; the latter is blocked by a holder
    have hwblocked : ∀ u ∈ s, ∀ q r, u.prog = .acq q Mode.W :: r → False := by
      intro u hu q r hpu
      have hnfu : u.finished = false := by simp [Thread.finished, hpu]
      obtain ⟨q', m', r', hp', hgr', _⟩ := hpark u hu hnfu
      rw [hpu] at hp'
      cases hp'
      simp only [grantable, List.all_eq_false] at hgr'
      obtain ⟨v, hv, hvp⟩ := hgr'
      have hvp' : v.holds q = true := by simpa using hvp
      obtain ⟨mv, hmv⟩ := holds_iff.1 hvp'
      exact hholder v hv (by intro e; rw [e] at hmv; cases hmv)
    cases m with
    | W => exact hwblocked t ht p rest hprog
    | R =>
      simp only [grantable, List.all_eq_false] at hgr
      obtain ⟨u, hu, hbad⟩ := hgr
      have hbad' : u.holdsW p = true ∨ u.parkedW p = true := by
        cases h1 : u.holdsW p <;> cases h2 : u.parkedW p <;> simp [h1, h2] at hbad ⊢
      rcases hbad' with h | h
      · have := holdsW_iff.1 h
        exact hholder u hu (by intro e; rw [e] at this; cases this)
      · unfold Thread.parkedW at h
        cases hpu : u.prog with
        | nil => simp [hpu] at h
        | cons ins r =>
          rw [hpu] at h
          cases ins with
          | acq q mq =>
            cases mq with
            | R => simp at h
            | W => exact hwblocked u hu q r hpu
          | _ => simp at h


/-! ## the program shapes obey the disciplines -/

theorem pagerOk_append : ∀ (a b : List Instr) (pg : Bool), pagerOk pg a = true → pagerOk false b = true →
    pagerOk pg (a ++ b) = true
  | [], b, pg, ha, hb => by
    have : pg = false := by simpa [pagerOk] using ha
    subst this; simpa using hb
  | .lockPager :: rest, b, pg, ha, hb => by
    simp [pagerOk] at ha ⊢; exact ⟨ha.1, pagerOk_append rest b true ha.2 hb⟩
  | .unlockPager :: rest, b, pg, ha, hb => by
    simp [pagerOk] at ha ⊢; exact ⟨ha.1, pagerOk_append rest b false ha.2 hb⟩
  | .acq p m :: rest, b, pg, ha, hb => by
    simp [pagerOk] at ha ⊢; exact ⟨ha.1, pagerOk_append rest b false ha.2 hb⟩
  | .rel p :: rest, b, pg, ha, hb => by
    simp [pagerOk] at ha ⊢; exact ⟨ha.1, pagerOk_append rest b false ha.2 hb⟩
  | .relAll :: rest, b, pg, ha, hb => by
    simp [pagerOk] at ha ⊢; exact ⟨ha.1, pagerOk_append rest b false ha.2 hb⟩

theorem noW_append : ∀ (a b : List Instr), noW a = true → noW b = true → noW (a ++ b) = true
  | [], b, _, hb => by simpa using hb
  | .lockPager :: rest, b, ha, hb => by simp [noW] at ha ⊢; exact noW_append rest b ha hb
  | .unlockPager :: rest, b, ha, hb => by simp [noW] at ha ⊢; exact noW_append rest b ha hb
  | .acq p .R :: rest, b, ha, hb => by simp [noW] at ha ⊢; exact noW_append rest b ha hb
  | .acq p .W :: rest, b, ha, hb => by simp [noW] at ha
  | .rel p :: rest, b, ha, hb => by simp [noW] at ha ⊢; exact noW_append rest b ha hb
  | .relAll :: rest, b, ha, hb => by simp [noW] at ha ⊢; exact noW_append rest b ha hb

theorem pagerOk_fetch (p : Nat) (m : Mode) : pagerOk false (fetch p m) = true := by simp [fetch, pagerOk]

theorem pagerOk_fetchNew (m : Mode) : ∀ (ps have_ : List Nat), pagerOk false (fetchNew m ps have_) = true
  | [], _ => by simp [fetchNew, pagerOk]
  | p :: ps, have_ => by
    unfold fetchNew
    split
    · exact pagerOk_fetchNew m ps have_
    · exact pagerOk_append _ _ _ (pagerOk_fetch p m) (pagerOk_fetchNew m ps _)

theorem pagerOk_readerDescent : ∀ ps : List Nat, pagerOk false (readerDescent ps) = true
  | [] => by simp [readerDescent, pagerOk]
  | p :: ps => by
    unfold readerDescent
    exact pagerOk_append _ _ _ (pagerOk_append _ _ _ (pagerOk_fetch p .R) (by simp [pagerOk])) (pagerOk_readerDescent ps)

theorem pagerOk_rowReads (leaf : Nat) : ∀ n : Nat, pagerOk false (rowReads leaf n) = true
  | 0 => by simp [rowReads, pagerOk]
  | n + 1 => by
    unfold rowReads
    exact pagerOk_append _ _ _ (pagerOk_append _ _ _ (pagerOk_fetch leaf .R) (by simp [pagerOk])) (pagerOk_rowReads leaf n)

theorem pagerOk_leafWalk (root : Nat) : ∀ ls : List (Nat × Nat), pagerOk false (leafWalk root ls) = true
  | [] => by simp [leafWalk, pagerOk]
  | (leaf, rows) :: rest => by
    unfold leafWalk
    refine pagerOk_append _ _ _ (pagerOk_append _ _ _ (pagerOk_append _ _ _ ?_ (pagerOk_rowReads leaf rows)) ?_) (pagerOk_leafWalk root rest)
    · split
      · simp [pagerOk]
      · exact pagerOk_fetch leaf .R
    · split <;> simp [pagerOk]

theorem pagerOk_readerScan (root : Nat) (path : List Nat) (leaves : List (Nat × Nat)) :
    pagerOk false (readerScan root path leaves) = true := by
  unfold readerScan
  exact pagerOk_append _ _ _ (pagerOk_append _ _ _ (pagerOk_append _ _ _ (pagerOk_append _ _ _ (pagerOk_readerDescent _)
    (pagerOk_fetch root .R)) (pagerOk_readerDescent _)) (pagerOk_leafWalk root leaves)) (by simp [pagerOk])

theorem pagerOk_readerSearch (root : Nat) (path : List Nat) : pagerOk false (readerSearch root path) = true := by
  unfold readerSearch
  exact pagerOk_append _ _ _ (pagerOk_fetchNew _ _ _) (by simp [pagerOk])

theorem pagerOk_balInstrs : ∀ (bal : List BalStep) (have_ : List Nat), pagerOk false (balInstrs bal have_) = true
  | [], _ => by simp [balInstrs, pagerOk]
  | .touch p :: rest, have_ => by
    unfold balInstrs
    split
    · exact pagerOk_balInstrs rest have_
    · exact pagerOk_append _ _ _ (pagerOk_fetch p .W) (pagerOk_balInstrs rest _)
  | .free p :: rest, have_ => by
    unfold balInstrs
    exact pagerOk_append _ _ _ (by simp [pagerOk]) (pagerOk_balInstrs rest _)
  | .alloc :: rest, have_ => by
    unfold balInstrs
    exact pagerOk_append _ _ _ (by simp [pagerOk]) (pagerOk_balInstrs rest _)

theorem pagerOk_writerOp (root : Nat) (path : List Nat) (bal : List BalStep) :
    pagerOk false (writerOp root path bal) = true := by
  unfold writerOp
  exact pagerOk_append _ _ _ (pagerOk_append _ _ _ (pagerOk_fetchNew _ _ _) (pagerOk_balInstrs _ _)) (by simp [pagerOk])

theorem noW_fetchNew_R : ∀ (ps have_ : List Nat), noW (fetchNew .R ps have_) = true
  | [], _ => by simp [fetchNew, noW]
  | p :: ps, have_ => by
    unfold fetchNew
    split
    · exact noW_fetchNew_R ps have_
    · exact noW_append _ _ (by simp [fetch, noW]) (noW_fetchNew_R ps _)

theorem noW_readerDescent : ∀ ps : List Nat, noW (readerDescent ps) = true
  | [] => by simp [readerDescent, noW]
  | p :: ps => by
    unfold readerDescent
    exact noW_append _ _ (by simp [fetch, noW]) (noW_readerDescent ps)

theorem noW_rowReads (leaf : Nat) : ∀ n : Nat, noW (rowReads leaf n) = true
  | 0 => by simp [rowReads, noW]
  | n + 1 => by
    unfold rowReads
    exact noW_append _ _ (by simp [fetch, noW]) (noW_rowReads leaf n)

theorem noW_leafWalk (root : Nat) : ∀ ls : List (Nat × Nat), noW (leafWalk root ls) = true
  | [] => by simp [leafWalk, noW]
  | (leaf, rows) :: rest => by
    unfold leafWalk
    refine noW_append _ _ (noW_append _ _ (noW_append _ _ ?_ (noW_rowReads leaf rows)) ?_) (noW_leafWalk root rest)
    · split <;> simp [fetch, noW]
    · split <;> simp [noW]

theorem noW_readerScan (root : Nat) (path : List Nat) (leaves : List (Nat × Nat)) :
    noW (readerScan root path leaves) = true := by
  unfold readerScan
  exact noW_append _ _ (noW_append _ _ (noW_append _ _ (noW_append _ _ (noW_readerDescent _) (by simp [fetch, noW]))
    (noW_readerDescent _)) (noW_leafWalk root leaves)) (by simp [noW])

theorem noW_readerSearch (root : Nat) (path : List Nat) : noW (readerSearch root path) = true := by
  unfold readerSearch
  exact noW_append _ _ (noW_fetchNew_R _ _) (by simp [noW])

/-! ### `guarded` for the shapes -/

theorem acqOk_of {rootOf : Nat → Nat} {held : List (Nat × Mode)} {p : Nat} {m : Mode}
    (hcl : ∀ h ∈ held, ∃ g ∈ held, g.1 = rootOf h.1 ∧ (h.2 = Mode.R ∨ g.2 = Mode.W))
    (h2 : (rootOf p = p → held = []) ∧ (rootOf p ≠ p → held = [] → m = Mode.R) ∧
          (rootOf p ≠ p → held ≠ [] → (∃ g ∈ held, g.1 = rootOf p ∧ (m = Mode.R ∨ g.2 = Mode.W)) ∧
            (m = Mode.R ∨ p ∉ pages held) ∧ (p, Mode.W) ∉ held)) :
    acqOk D rootOf held p m = true := by
  unfold acqOk
  simp only [Bool.and_eq_true, List.all_eq_true, List.any_eq_true]
  constructor
  · intro h hh
    obtain ⟨g, hg, e1, e2⟩ := hcl h hh
    refine ⟨g, hg, ?_⟩
    simp only [Bool.and_eq_true, beq_iff_eq, Bool.or_eq_true]
    exact ⟨e1, e2⟩
  · by_cases hr : rootOf p = p
    · simp [hr, h2.1 hr]
    · have hne : (rootOf p == p) = false := by simpa using hr
      simp only [hne, Bool.false_eq_true, if_false]
      by_cases he : held = []
      · subst he
        simp [h2.2.1 hr rfl]
      · have hie : held.isEmpty = false := by simpa [List.isEmpty_iff] using he
        obtain ⟨⟨g, hg, e1, e2⟩, e3, e4⟩ := h2.2.2 hr he
        simp only [hie, Bool.false_eq_true, if_false, Bool.and_eq_true, List.any_eq_true]
        refine ⟨⟨⟨g, hg, ?_⟩, ?_⟩, ?_⟩
        · simp only [Bool.and_eq_true, beq_iff_eq, Bool.or_eq_true]
          exact ⟨e1, e2⟩
        · rcases e3 with e3 | e3
          · simp [e3]
          · simp [e3]
        · simpa using e4

theorem guarded_fetch {rootOf : Nat → Nat} {held : List (Nat × Mode)} {p : Nat} {m : Mode} {rest : List Instr}
    (hok : acqOk D rootOf held p m = true) (hrest : guarded D rootOf ((p, m) :: held) false rest = true) :
    guarded D rootOf held false (fetch p m ++ rest) = true := by
  simp [fetch, guarded, hok, hrest]

/-- the hands of a thread inside one tree: every guard is of mode `m` on a page of the tree rooted at `r`, the root's
    guard is among them, no page twice -/
structure TreeHeld (rootOf : Nat → Nat) (r : Nat) (m : Mode) (held : List (Nat × Mode)) : Prop where
  all : ∀ h ∈ held, h.2 = m ∧ rootOf h.1 = r
  root : held ≠ [] → (r, m) ∈ held
  nodup : (pages held).Nodup

theorem TreeHeld.nil (rootOf : Nat → Nat) (r : Nat) (m : Mode) : TreeHeld rootOf r m [] :=
  ⟨by simp, by simp, by simp [pages]⟩

/-- requesting a page of the tree that is not held yet is allowed: the root with empty hands, any other page under the root -/
theorem acqOk_tree {rootOf : Nat → Nat} {r : Nat} {m : Mode} {held : List (Nat × Mode)} {p : Nat}
    (hrr : rootOf r = r) (hT : TreeHeld rootOf r m held) (hp : rootOf p = r) (hnp : p ∉ pages held)
    (hfirst : held = [] → p = r) : acqOk D rootOf held p m = true := by
  apply acqOk_of
  · intro h hh
    have hne : held ≠ [] := by intro e; rw [e] at hh; cases hh
    refine ⟨(r, m), hT.root hne, ?_, ?_⟩
    · simp [(hT.all h hh).2]
    · rw [(hT.all h hh).1]
      cases m <;> simp
  · refine ⟨?_, ?_, ?_⟩
    · intro hroot
      have hpr : p = r := by rw [← hp, hroot]
      cases hheld : held with
      | nil => rfl
      | cons x xs =>
        have hne : held ≠ [] := by rw [hheld]; simp
        exact (hnp (hpr ▸ mem_pages.2 ⟨m, hT.root hne⟩)).elim
    · intro hroot he
      have : p = r := hfirst he
      exact (hroot (by rw [this]; exact hrr)).elim
    · intro _ hne
      refine ⟨⟨(r, m), hT.root hne, by simp [hp], ?_⟩, Or.inr hnp, ?_⟩
      · cases m <;> simp
      · intro hc; exact hnp (mem_pages.2 ⟨_, hc⟩)

theorem TreeHeld.cons {rootOf : Nat → Nat} {r : Nat} {m : Mode} {held : List (Nat × Mode)} {p : Nat}
    (hT : TreeHeld rootOf r m held) (hp : rootOf p = r) (hnp : p ∉ pages held) (hfirst : held = [] → p = r) :
    TreeHeld rootOf r m ((p, m) :: held) := by
  refine ⟨?_, ?_, ?_⟩
  · intro h hh
    rcases List.mem_cons.1 hh with e | e
    · subst e; exact ⟨rfl, hp⟩
    · exact hT.all h e
  · intro _
    by_cases he : held = []
    · rw [hfirst he]; exact List.mem_cons_self
    · exact List.mem_cons_of_mem _ (hT.root he)
  · simp only [pages, List.map_cons, List.nodup_cons]
    exact ⟨hnp, hT.nodup⟩

theorem guarded_fetchNew {rootOf : Nat → Nat} {r : Nat} {m : Mode} (hrr : rootOf r = r) :
    ∀ (ps : List Nat) (held : List (Nat × Mode)) (have_ : List Nat) (rest : List Instr),
      TreeHeld rootOf r m held →
      (∀ q, q ∈ have_ ↔ q ∈ pages held) →
      (∀ q ∈ ps, rootOf q = r) →
      (held = [] → ∀ q, ps.head? = some q → q = r) →
      (∀ held', TreeHeld rootOf r m held' → (∀ q, q ∈ pages held' ↔ (q ∈ pages held ∨ q ∈ ps)) →
        guarded D rootOf held' false rest = true) →
      guarded D rootOf held false (fetchNew m ps have_ ++ rest) = true
  | [], held, have_, rest, hT, _, _, _, hk => by
    simp only [fetchNew, List.nil_append]
    exact hk held hT (by simp)
  | p :: ps, held, have_, rest, hT, hhave, hps, hfirst, hk => by
    unfold fetchNew
    by_cases hc : have_.contains p = true
    · simp only [hc, if_true]
      have hpm : p ∈ pages held := (hhave p).1 (by simpa using hc)
      apply guarded_fetchNew hrr ps held have_ rest hT hhave (fun q hq => hps q (List.mem_cons_of_mem _ hq))
      · intro he; rw [he] at hpm; simp [pages] at hpm
      · intro held' hT' hiff
        apply hk held' hT'
        intro q
        rw [hiff q]
        constructor
        · rintro (h | h)
          · exact Or.inl h
          · exact Or.inr (List.mem_cons_of_mem _ h)
        · rintro (h | h)
          · exact Or.inl h
          · rcases List.mem_cons.1 h with e | e
            · exact Or.inl (e ▸ hpm)
            · exact Or.inr e
    · simp only [hc, Bool.false_eq_true, if_false, List.append_assoc]
      have hnp : p ∉ pages held := fun h => hc (by simpa using (hhave p).2 h)
      have hpr : rootOf p = r := hps p List.mem_cons_self
      have hf : held = [] → p = r := fun he => hfirst he p (by simp)
      apply guarded_fetch (acqOk_tree hrr hT hpr hnp hf)
      apply guarded_fetchNew hrr ps ((p, m) :: held) (p :: have_) rest (hT.cons hpr hnp hf)
      · intro q
        simp only [List.mem_cons, pages, List.map_cons]
        rw [hhave q]; rfl
      · exact fun q hq => hps q (List.mem_cons_of_mem _ hq)
      · intro he; cases he
      · intro held' hT' hiff
        apply hk held' hT'
        intro q
        rw [hiff q]
        simp only [pages, List.map_cons, List.mem_cons]
        constructor
        · rintro ((h | h) | h)
          · exact Or.inr (Or.inl h)
          · exact Or.inl h
          · exact Or.inr (Or.inr h)
        · rintro (h | h | h)
          · exact Or.inl (Or.inr h)
          · exact Or.inl (Or.inl h)
          · exact Or.inr h

/-- tree-shape hypothesis of a search: `r` is a root and the path lies in its tree -/
def pathIn (rootOf : Nat → Nat) (r : Nat) (ps : List Nat) : Bool :=
  rootOf r == r && ps.all (fun q => rootOf q == r)

theorem guarded_readerSearch {rootOf : Nat → Nat} {r : Nat} {path : List Nat} (h : pathIn rootOf r path = true)
    {rest : List Instr} (hrest : guarded D rootOf [] false rest = true) :
    guarded D rootOf [] false (readerSearch r path ++ rest) = true := by
  unfold pathIn at h
  simp only [Bool.and_eq_true, beq_iff_eq, List.all_eq_true] at h
  unfold readerSearch
  rw [List.append_assoc]
  apply guarded_fetchNew h.1 (r :: path) [] [] _ (TreeHeld.nil _ _ _) (by simp [pages])
  · intro q hq
    rcases List.mem_cons.1 hq with e | e
    · rw [e]; exact h.1
    · exact h.2 q e
  · intro _ q hq; simpa using hq.symm
  · intro held' _ _
    simpa [guarded] using hrest

/-! ### scans -/

theorem guarded_readerDescent {rootOf : Nat → Nat} : ∀ (ps : List Nat) (rest : List Instr),
    guarded D rootOf [] false rest = true → guarded D rootOf [] false (readerDescent ps ++ rest) = true
  | [], rest, h => by simpa [readerDescent] using h
  | p :: ps, rest, h => by
    unfold readerDescent
    rw [List.append_assoc, List.append_assoc]
    apply guarded_fetch
    · apply acqOk_of
      · simp
      · exact ⟨fun _ => rfl, fun _ _ => rfl, fun _ hne => (hne rfl).elim⟩
    · simp only [List.cons_append, List.nil_append, guarded, relOne, beq_self_eq_true, if_true, Bool.not_false, Bool.true_and]
      exact guarded_readerDescent ps rest h

theorem guarded_rowReads {rootOf : Nat → Nat} {r leaf : Nat} (hrr : rootOf r = r) (hl : rootOf leaf = r) (hne : leaf ≠ r) :
    ∀ (n : Nat) (rest : List Instr), guarded D rootOf [(leaf, .R), (r, .R)] false rest = true →
      guarded D rootOf [(leaf, .R), (r, .R)] false (rowReads leaf n ++ rest) = true
  | 0, rest, h => by simpa [rowReads] using h
  | n + 1, rest, h => by
    unfold rowReads
    rw [List.append_assoc, List.append_assoc]
    apply guarded_fetch
    · apply acqOk_of
      · intro x hx
        refine ⟨(r, .R), by simp, ?_, Or.inl ?_⟩
        · simp only [List.mem_cons, List.mem_nil_iff, or_false] at hx
          rcases hx with e | e <;> simp [e, hl, hrr]
        · simp only [List.mem_cons, List.mem_nil_iff, or_false] at hx
          rcases hx with e | e <;> simp [e]
      · refine ⟨fun h0 => (hne (by rw [← hl, h0])).elim, fun _ h0 => (by cases h0), fun _ _ => ?_⟩
        refine ⟨⟨(r, .R), by simp, by simp [hl], Or.inl rfl⟩, Or.inl rfl, by simp⟩
    · simp only [List.cons_append, List.nil_append, guarded, relOne, beq_self_eq_true, if_true, Bool.not_false, Bool.true_and]
      exact guarded_rowReads hrr hl hne n rest h

theorem guarded_rowReads_root {rootOf : Nat → Nat} {r : Nat} (hD : D.readLatchQueuesBehindWriter = false)
    (hrr : rootOf r = r) :
    ∀ (n : Nat) (rest : List Instr), guarded D rootOf [(r, .R)] false rest = true →
      guarded D rootOf [(r, .R)] false (rowReads r n ++ rest) = true
  | 0, rest, h => by simpa [rowReads] using h
  | n + 1, rest, h => by
    unfold rowReads
    rw [List.append_assoc, List.append_assoc]
    apply guarded_fetch
    · simp [acqOk, hD, hrr, pages]
    · simp only [List.cons_append, List.nil_append, guarded, relOne, beq_self_eq_true, if_true, Bool.not_false, Bool.true_and]
      exact guarded_rowReads_root hD hrr n rest h

/-- the left-most descent under the read-latched root: every page is a page of the tree other than the root -/
theorem guarded_descentUnder {rootOf : Nat → Nat} {r : Nat} (hrr : rootOf r = r) :
    ∀ (ps : List Nat) (rest : List Instr), (∀ p ∈ ps, rootOf p = r ∧ p ≠ r) →
      guarded D rootOf [(r, .R)] false rest = true → guarded D rootOf [(r, .R)] false (readerDescent ps ++ rest) = true
  | [], rest, _, h => by simpa [readerDescent] using h
  | p :: ps, rest, hps, h => by
    obtain ⟨hl, hne⟩ := hps p List.mem_cons_self
    unfold readerDescent
    rw [List.append_assoc, List.append_assoc]
    apply guarded_fetch
    · apply acqOk_of
      · intro x hx
        simp only [List.mem_cons, List.mem_nil_iff, or_false] at hx
        subst hx
        exact ⟨(r, .R), by simp, by simp [hrr], Or.inl rfl⟩
      · refine ⟨fun h0 => (hne (by rw [← hl, h0])).elim, fun _ h0 => (by cases h0), fun _ _ => ?_⟩
        refine ⟨⟨(r, .R), by simp, by simp [hl], Or.inl rfl⟩, Or.inl rfl, by simp⟩
    · have hb : (p == p) = true := by simp
      simp only [List.cons_append, List.nil_append, guarded, relOne, hb, if_true, Bool.not_false, Bool.true_and]
      exact guarded_descentUnder hrr ps rest (fun q hq => hps q (List.mem_cons_of_mem _ hq)) h

/-- tree-shape hypothesis of a scan: the left-most path and the leaves are pages of the tree (the path without the root); with the defect (read latches that queue behind a
    parked writer) they must moreover differ from the root, i.e. the table has more than one page -/
def leavesIn (D : Defects) (rootOf : Nat → Nat) (r : Nat) (path : List Nat) (ls : List (Nat × Nat)) : Bool :=
  rootOf r == r && !D.readLatchQueuesBehindWriter && path.all (fun p => rootOf p == r && p != r) &&
    ls.all (fun l => rootOf l.1 == r)

theorem guarded_leafWalk {rootOf : Nat → Nat} {r : Nat} (hrr : rootOf r = r) :
    ∀ (ls : List (Nat × Nat)) (rest : List Instr),
      (∀ l ∈ ls, rootOf l.1 = r ∧ (l.1 ≠ r ∨ D.readLatchQueuesBehindWriter = false)) →
      guarded D rootOf [(r, .R)] false rest = true → guarded D rootOf [(r, .R)] false (leafWalk r ls ++ rest) = true
  | [], rest, _, h => by simpa [leafWalk] using h
  | (leaf, rows) :: more, rest, hls, h => by
    obtain ⟨hl, hcase⟩ := hls (leaf, rows) List.mem_cons_self
    have ih := guarded_leafWalk hrr more rest (fun l hl' => hls l (List.mem_cons_of_mem _ hl')) h
    unfold leafWalk
    by_cases hne : leaf = r
    · -- one-page table: the rows are read through a second accessor while the iterator holds the root
      have hD : D.readLatchQueuesBehindWriter = false := by
        rcases hcase with h1 | h1
        · exact (h1 hne).elim
        · exact h1
      subst hne
      simp only [if_true, List.nil_append, List.append_nil, List.append_assoc]
      exact guarded_rowReads_root hD hrr rows _ ih
    · simp only [hne, if_false, List.append_assoc]
      apply guarded_fetch
      · apply acqOk_of
        · intro x hx
          simp only [List.mem_cons, List.mem_nil_iff, or_false] at hx
          subst hx
          exact ⟨(r, .R), by simp, by simp [hrr], Or.inl rfl⟩
        · refine ⟨fun h0 => (hne (by rw [← hl, h0])).elim, fun _ h0 => (by cases h0), fun _ _ => ?_⟩
          refine ⟨⟨(r, .R), by simp, by simp [hl], Or.inl rfl⟩, Or.inl rfl, by simp⟩
      · apply guarded_rowReads hrr hl hne
        have hb : (leaf == leaf) = true := by simp
        simp only [List.cons_append, List.nil_append, guarded, relOne, hb, if_true, Bool.not_false, Bool.true_and]
        exact ih

theorem guarded_readerScan {rootOf : Nat → Nat} {r : Nat} {path : List Nat} {leaves : List (Nat × Nat)}
    (h : leavesIn D rootOf r path leaves = true) {rest : List Instr} (hrest : guarded D rootOf [] false rest = true) :
    guarded D rootOf [] false (readerScan r path leaves ++ rest) = true := by
  unfold leavesIn at h
  simp only [Bool.and_eq_true, beq_iff_eq, List.all_eq_true, bne_iff_ne, ne_eq, Bool.not_eq_true'] at h
  obtain ⟨⟨⟨hrr, hD⟩, hpath⟩, hls⟩ := h
  unfold readerScan
  rw [List.append_assoc, List.append_assoc, List.append_assoc, List.append_assoc]
  apply guarded_readerDescent
  apply guarded_fetch
  · apply acqOk_of
    · simp
    · exact ⟨fun _ => rfl, fun hr => (hr hrr).elim, fun _ hne => (hne rfl).elim⟩
  · apply guarded_descentUnder hrr path _ hpath
    apply guarded_leafWalk hrr leaves _ (fun l hl => ⟨hls l hl, Or.inr hD⟩)
    simpa [guarded] using hrest

/-! ### writers -/

theorem mem_relOne_of_ne {p : Nat} {h : Nat × Mode} : ∀ {held : List (Nat × Mode)}, h ∈ held → h.1 ≠ p → h ∈ relOne p held
  | [], hm, _ => by cases hm
  | x :: xs, hm, hne => by
    unfold relOne
    rcases List.mem_cons.1 hm with e | e
    · subst e
      have : (h.1 == p) = false := by simpa using hne
      simp [this]
    · split
      · exact e
      · exact List.mem_cons_of_mem _ (mem_relOne_of_ne e hne)

theorem pages_relOne_sublist (p : Nat) : ∀ held : List (Nat × Mode), (pages (relOne p held)).Sublist (pages held)
  | [] => by simp [relOne, pages]
  | x :: xs => by
    unfold relOne
    split
    · simp only [pages, List.map_cons]; exact List.sublist_cons_self _ _
    · simp only [pages, List.map_cons]
      exact (pages_relOne_sublist p xs).cons_cons _

theorem mem_pages_relOne {p q : Nat} : ∀ {held : List (Nat × Mode)}, (pages held).Nodup →
    (q ∈ pages (relOne p held) ↔ q ∈ pages held ∧ q ≠ p)
  | [], _ => by simp [relOne, pages]
  | x :: xs, hnd => by
    simp only [pages, List.map_cons, List.nodup_cons] at hnd
    unfold relOne
    by_cases hx : x.1 = p
    · have : (x.1 == p) = true := by simpa using hx
      simp only [this, if_true, pages, List.map_cons, List.mem_cons]
      constructor
      · intro hq
        refine ⟨Or.inr hq, ?_⟩
        intro e; subst e; rw [← hx] at hq; exact hnd.1 hq
      · rintro ⟨h1 | h1, h2⟩
        · exact (h2 (h1.trans hx)).elim
        · exact h1
    · have : (x.1 == p) = false := by simpa using hx
      simp only [this, Bool.false_eq_true, if_false, pages, List.map_cons, List.mem_cons]
      have ih := mem_pages_relOne (p := p) (q := q) (held := xs) hnd.2
      simp only [pages] at ih
      rw [ih]
      constructor
      · rintro (h | ⟨h1, h2⟩)
        · exact ⟨Or.inl h, fun e => hx (h ▸ e)⟩
        · exact ⟨Or.inr h1, h2⟩
      · rintro ⟨h1 | h1, h2⟩
        · exact Or.inl h1
        · exact Or.inr ⟨h1, h2⟩

def balPages : List BalStep → List Nat
  | [] => []
  | .touch p :: rest => p :: balPages rest
  | .free p :: rest => p :: balPages rest
  | .alloc :: rest => balPages rest

theorem guarded_balInstrs {rootOf : Nat → Nat} {r : Nat} (hrr : rootOf r = r) :
    ∀ (bal : List BalStep) (held : List (Nat × Mode)) (have_ : List Nat) (rest : List Instr),
      TreeHeld rootOf r .W held → held ≠ [] →
      (∀ q, q ∈ have_ ↔ q ∈ pages held) →
      (∀ q ∈ balPages bal, rootOf q = r ∧ q ≠ r) →
      (∀ held', guarded D rootOf held' false rest = true) →
      guarded D rootOf held false (balInstrs bal have_ ++ rest) = true
  | [], held, _, rest, _, _, _, _, hk => by simpa [balInstrs] using hk held
  | .touch p :: more, held, have_, rest, hT, hne, hhave, hbp, hk => by
    obtain ⟨hpr, hpne⟩ := hbp p (by simp [balPages])
    have hmore : ∀ q ∈ balPages more, rootOf q = r ∧ q ≠ r := fun q hq => hbp q (by simp [balPages, hq])
    unfold balInstrs
    by_cases hc : have_.contains p = true
    · simp only [hc, if_true]
      exact guarded_balInstrs hrr more held have_ rest hT hne hhave hmore hk
    · simp only [hc, Bool.false_eq_true, if_false, List.append_assoc]
      have hnp : p ∉ pages held := fun h => hc (by simpa using (hhave p).2 h)
      have hf : held = [] → p = r := fun he => (hne he).elim
      apply guarded_fetch (acqOk_tree hrr hT hpr hnp hf)
      apply guarded_balInstrs hrr more ((p, .W) :: held) (p :: have_) rest (hT.cons hpr hnp hf) (by simp)
      · intro q
        simp only [List.mem_cons, pages, List.map_cons]
        rw [hhave q]; rfl
      · exact hmore
      · exact hk
  | .free p :: more, held, have_, rest, hT, hne, hhave, hbp, hk => by
    obtain ⟨_, hpne⟩ := hbp p (by simp [balPages])
    have hmore : ∀ q ∈ balPages more, rootOf q = r ∧ q ≠ r := fun q hq => hbp q (by simp [balPages, hq])
    unfold balInstrs
    simp only [List.cons_append, List.nil_append, guarded, Bool.not_false, Bool.true_and]
    have hroot : (r, Mode.W) ∈ relOne p held := mem_relOne_of_ne (hT.root hne) (fun e => hpne e.symm)
    apply guarded_balInstrs hrr more (relOne p held) (have_.filter (· != p)) rest
    · exact ⟨fun h hh => hT.all h (mem_relOne hh), fun _ => hroot, (pages_relOne_sublist p held).nodup hT.nodup⟩
    · intro e; rw [e] at hroot; cases hroot
    · intro q
      rw [mem_pages_relOne hT.nodup, List.mem_filter, hhave q]
      simp
    · exact hmore
    · exact hk
  | .alloc :: more, held, have_, rest, hT, hne, hhave, hbp, hk => by
    have hmore : ∀ q ∈ balPages more, rootOf q = r ∧ q ≠ r := fun q hq => hbp q (by simp [balPages, hq])
    unfold balInstrs
    simp only [List.cons_append, List.nil_append, guarded, Bool.not_false, Bool.true_and]
    exact guarded_balInstrs hrr more held have_ rest hT hne hhave hmore hk

/-- tree-shape hypothesis of a write: `r` is a root, the descent path lies in its tree, and the pages touched or freed while
    rebalancing are pages of that tree other than the root -/
def writeIn (rootOf : Nat → Nat) (r : Nat) (path : List Nat) (bal : List BalStep) : Bool :=
  rootOf r == r && path.all (fun q => rootOf q == r) && (balPages bal).all (fun q => rootOf q == r && q != r)

theorem guarded_writerOp {rootOf : Nat → Nat} {r : Nat} {path : List Nat} {bal : List BalStep}
    (h : writeIn rootOf r path bal = true) {rest : List Instr} (hrest : guarded D rootOf [] false rest = true) :
    guarded D rootOf [] false (writerOp r path bal ++ rest) = true := by
  unfold writeIn at h
  simp only [Bool.and_eq_true, beq_iff_eq, List.all_eq_true, bne_iff_ne, ne_eq] at h
  obtain ⟨⟨hrr, hpath⟩, hbal⟩ := h
  unfold writerOp
  rw [List.append_assoc, List.append_assoc]
  apply guarded_fetchNew hrr (r :: path) [] [] _ (TreeHeld.nil _ _ _) (by simp [pages])
  · intro q hq
    rcases List.mem_cons.1 hq with e | e
    · rw [e]; exact hrr
    · exact hpath q e
  · intro _ q hq; simpa using hq.symm
  · intro held' hT' hiff
    have hrin : r ∈ pages held' := (hiff r).2 (Or.inr List.mem_cons_self)
    apply guarded_balInstrs hrr bal held' (r :: path) _ hT'
    · intro e; rw [e] at hrin; simp [pages] at hrin
    · intro q; rw [hiff q]; simp [pages]
    · exact hbal
    · intro held''
      simpa [guarded] using hrest

end AxVerif.Latch
