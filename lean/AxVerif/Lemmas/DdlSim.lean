/-
  Simulation of the MVCC machine with dynamic catalog (`Ddl.step`, `Defects.none`) by the abstract machine
  (`Ddl.Spec.step`), built from the lemmas of `Lemmas/Db.lean`, `Lemmas/DbSim.lean`.
-/
import AxVerif.Model.Ddl
import AxVerif.Lemmas.DbHist
namespace AxVerif.Ddl
open AxVerif.Db

theorem Core.setCats {σ : Db.State} {α : Db.Spec.State} {j : Nat} (h : Core σ α j) (c1 c2 : Catalog) (hc : c1 = c2) :
    Core { σ with cat := c1 } { α with cat := c2 } j :=
  ⟨h.cinv, h.sinv, hc, h.clock, h.committed, h.log⟩

/-! ### plans of DDL statements -/

theorem insFrom_rewriteRows (c : Nat) (tname : String) (f : List Val → List Val) : ∀ (rows : List ARow) (j : Nat),
    InsFrom c j (rewriteRows c tname f rows j)
  | [], j => by simp [rewriteRows, InsFrom]
  | r :: rs, j => by
    unfold rewriteRows
    split
    · simp only [InsFrom, true_and]
      exact insFrom_rewriteRows c tname f rs (j + 1)
    · exact insFrom_rewriteRows c tname f rs j

theorem insFrom_planDdl (h : Heap) (c : Nat) (v : View) (st : DStmt) : InsFrom c 0 (planDdl h c v st).effs := by
  cases st with
  | dml s => simp [planDdl, failD, InsFrom]
  | createTable name cols uniques =>
    simp only [planDdl]
    split <;> simp [failD, InsFrom]
  | dropTable t =>
    simp only [planDdl]
    split <;> simp [failD, InsFrom]
  | addKey t pk cols =>
    simp only [planDdl]
    repeat' split
    all_goals first | exact trivial | simp [failD, InsFrom]
  | addColumn t col d =>
    simp only [planDdl]
    split
    · simp [failD, InsFrom]
    · split
      · simp [failD, InsFrom]
      · simp only [InsFrom]
        exact insFrom_rewriteRows c _ _ v 0
  | dropColumn t col =>
    simp only [planDdl]
    split
    · simp [failD, InsFrom]
    · split
      · simp [failD, InsFrom]
      · simp only [InsFrom]
        exact insFrom_rewriteRows c _ _ v 0
  | setNotNull t col =>
    simp only [planDdl]
    split
    · simp [failD, InsFrom]
    · split
      · simp [failD, InsFrom]
      · split <;> simp [failD, InsFrom]
  | dropNotNull t col =>
    simp only [planDdl]
    split
    · simp [failD, InsFrom]
    · split <;> simp [failD, InsFrom]

/-! ### one statement -/

theorem ddl_core (σ : State) (α : Spec.State) (h : Core σ.db α.db 0) (hh : σ.heap = α.heap) (tid : Nat)
    (a : Db.Spec.ATxn) (hr : TxRel σ.db tid a) (st : DStmt) :
    (σ.ddl D0 tid st).2 = (Spec.ddl α a st).2.2 ∧ (σ.ddl D0 tid st).1.heap = (Spec.ddl α a st).2.1 ∧
    (∃ j, Core (σ.ddl D0 tid st).1.db α.db j) ∧ TxRel (σ.ddl D0 tid st).1.db tid (Spec.ddl α a st).1 ∧
    (∀ tid' a', tid' ≠ tid → TxRel σ.db tid' a' → TxRel (σ.ddl D0 tid st).1.db tid' a') ∧
    (σ.ddl D0 tid st).1.db.sessions = σ.db.sessions := by
  have hr0 := hr
  obtain ⟨t, ht, hact, hview, hws, hst⟩ := hr
  have hplan : planDdl σ.heap σ.db.clock (view D0 (σ.db.snapOf tid) σ.db.rows) st = planDdl α.heap α.db.clock a.view st := by
    rw [snapOf_eq σ.db tid t ht, hview, hh, h.clock]
  unfold State.ddl Spec.ddl
  simp only [hplan]
  by_cases he : (planDdl α.heap α.db.clock a.view st).out.isErr = true
  · simp only [if_pos he]
    exact ⟨trivial, hh, ⟨0, h⟩, hr0, fun _ _ _ h' => h', trivial⟩
  · have hflag : D0.createRefusedWhileNameHeld = false := rfl
    simp only [if_neg he, hflag, Bool.false_and, Bool.false_eq_true, if_false]
    have hi : InsFrom σ.db.clock 0 (planDdl α.heap α.db.clock a.view st).effs := by
      rw [h.clock]; exact insFrom_planDdl _ _ _ _
    obtain ⟨h1, h2, h3⟩ := write_core σ.db α.db 0 h tid a hr0 _ hi
    refine ⟨trivial, ?_, ⟨_, h1⟩, h2, h3, ?_⟩
    · show addDesc σ.heap σ.db.clock _ = addDesc α.heap α.db.clock _
      rw [hh, h.clock]
    · show (σ.db.write D0 tid _).sessions = σ.db.sessions
      rw [write_none]

theorem dml_core (σ : State) (α : Spec.State) (h : Core σ.db α.db 0) (hh : σ.heap = α.heap) (tid : Nat)
    (a : Db.Spec.ATxn) (hr : TxRel σ.db tid a) (s : Stmt) :
    (σ.dml D0 tid s).2 = (Spec.dml α a s).2.2 ∧ (σ.dml D0 tid s).1.heap = (Spec.dml α a s).2.1 ∧
    (∃ j, Core (σ.dml D0 tid s).1.db α.db j) ∧ TxRel (σ.dml D0 tid s).1.db tid (Spec.dml α a s).1 ∧
    (∀ tid' a', tid' ≠ tid → TxRel σ.db tid' a' → TxRel (σ.dml D0 tid s).1.db tid' a') ∧
    (σ.dml D0 tid s).1.db.sessions = σ.db.sessions := by
  have hr0 := hr
  obtain ⟨t, ht, hact, hview, hws, hst⟩ := hr
  have hv : view D0 (σ.db.snapOf tid) σ.db.rows = a.view := by rw [snapOf_eq σ.db tid t ht, hview]
  unfold State.dml Spec.dml
  simp only [hv, hh]
  cases hres : resolveDml α.heap a.view s with
  | none =>
    dsimp only
    exact ⟨rfl, hh, ⟨0, h⟩, hr0, fun _ _ _ h' => h', rfl⟩
  | some s' =>
    dsimp only
    have hc := Core.setCats h (catOf α.heap a.view) (catOf α.heap a.view) rfl
    have hr' : TxRel { σ.db with cat := catOf α.heap a.view } tid a := hr0.of_eq rfl rfl
    obtain ⟨g1, g2, g3, g4⟩ := stmt_core _ _ 0 hc tid a hr' s'
    refine ⟨?_, rfl, ?_, ?_, ?_, ?_⟩
    · rw [g1]
    · exact ⟨_, Core.setCats g2 σ.db.cat α.db.cat h.cat⟩
    · exact g3.of_eq rfl rfl
    · intro tid' a' hne h'
      exact (g4 tid' a' hne (h'.of_eq rfl rfl)).of_eq rfl rfl
    · show (Db.State.stmt D0 _ tid 0 s').1.sessions = σ.db.sessions
      rw [stmt_sessions]

theorem dstmt_core (σ : State) (α : Spec.State) (h : Core σ.db α.db 0) (hh : σ.heap = α.heap) (tid : Nat)
    (a : Db.Spec.ATxn) (hr : TxRel σ.db tid a) (st : DStmt) :
    (σ.stmt D0 tid st).2 = (Spec.stmt α a st).2.2 ∧ (σ.stmt D0 tid st).1.heap = (Spec.stmt α a st).2.1 ∧
    (∃ j, Core (σ.stmt D0 tid st).1.db α.db j) ∧ TxRel (σ.stmt D0 tid st).1.db tid (Spec.stmt α a st).1 ∧
    (∀ tid' a', tid' ≠ tid → TxRel σ.db tid' a' → TxRel (σ.stmt D0 tid st).1.db tid' a') ∧
    (σ.stmt D0 tid st).1.db.sessions = σ.db.sessions := by
  cases st with
  | dml s => exact dml_core σ α h hh tid a hr s
  | createTable name cols uniques => exact ddl_core σ α h hh tid a hr _
  | dropTable t => exact ddl_core σ α h hh tid a hr _
  | addKey t pk cols => exact ddl_core σ α h hh tid a hr _
  | addColumn t col d => exact ddl_core σ α h hh tid a hr _
  | dropColumn t col => exact ddl_core σ α h hh tid a hr _
  | setNotNull t col => exact ddl_core σ α h hh tid a hr _
  | dropNotNull t col => exact ddl_core σ α h hh tid a hr _

/-! ### commit -/

theorem dcommit_core (σ : State) (α : Spec.State) (j : Nat) (h : Core σ.db α.db j) (hh : σ.heap = α.heap) (tid : Nat)
    (a : Db.Spec.ATxn) (hr : TxRel σ.db tid a) :
    (σ.commitC D0 tid).2 = (α.commitC a).2 ∧ (σ.commitC D0 tid).1.heap = (α.commitC a).1.heap ∧
    Core (σ.commitC D0 tid).1.db (α.commitC a).1.db j ∧
    (∀ tid' a', tid' ≠ tid → TxRel σ.db tid' a' → TxRel (σ.commitC D0 tid).1.db tid' a') ∧
    (σ.commitC D0 tid).1.db.sessions = σ.db.sessions ∧ (α.commitC a).1.db.sessions = α.db.sessions := by
  obtain ⟨_, c1, _⟩ := commit_core σ.db α.db j h tid a hr
  have hcat : catOf σ.heap (view D0 ((σ.db.commitTxn tid).1.freshSnap D0) (σ.db.commitTxn tid).1.rows) =
      catOf α.heap (α.db.commitTxn a).1.committed := by
    rw [c1.committed, hh]
  unfold State.commitC Spec.State.commitC
  simp only [hcat]
  have hc := Core.setCats h (catOf α.heap (α.db.commitTxn a).1.committed) (catOf α.heap (α.db.commitTxn a).1.committed) rfl
  have hr' : TxRel { σ.db with cat := catOf α.heap (α.db.commitTxn a).1.committed } tid a := hr.of_eq rfl rfl
  obtain ⟨g1, g2, g3⟩ := commitC_core _ _ j hc tid a hr'
  refine ⟨g1, hh, Core.setCats g2 σ.db.cat α.db.cat h.cat, ?_, ?_, ?_⟩
  · intro tid' a' hne h'
    exact (g3 tid' a' hne (h'.of_eq rfl rfl)).of_eq rfl rfl
  · show (Db.State.commitC D0 _ tid).1.sessions = σ.db.sessions
    rw [commitC_sessions]
  · show (Db.Spec.State.commitC _ a).1.sessions = α.db.sessions
    rw [spec_commitC_sessions]

/-! ### operations -/

/-- the relation between the two machines right after `stepCore` (before the clock ticks) -/
def DRelJ (σ : State) (α : Spec.State) : Prop :=
  (∃ j, RelL σ.db α.db j (lkS σ.db) (lkA α.db)) ∧ σ.heap = α.heap

/-- the relation at operation boundaries -/
def DRel (σ : State) (α : Spec.State) : Prop := Rel σ.db α.db ∧ σ.heap = α.heap

def DStepOk (σ : State) (α : Spec.State) (op : DOp) : Prop :=
  (stepCore D0 σ op).2 = (Spec.stepCore α op).2 ∧ DRelJ (stepCore D0 σ op).1 (Spec.stepCore α op).1

theorem lift_ok (σ : State) (α : Spec.State) (h : DRel σ α) (op : Db.Op) :
    (liftDb D0 σ op).2 = (Spec.liftDb α op).2 ∧ DRelJ (liftDb D0 σ op).1 (Spec.liftDb α op).1 := by
  obtain ⟨ho, j, r⟩ := stepCore_ok σ.db α.db h.1 op
  exact ⟨ho, ⟨j, r⟩, h.2⟩

theorem commit_ok' (σ : State) (α : Spec.State) (h : DRel σ α) (s : String) : DStepOk σ α (.commit s) := by
  unfold DStepOk
  simp only [stepCore, Spec.stepCore]
  cases hl : lookup s σ.db.sessions with
  | none =>
    have hn : lookup s α.db.sessions = none := h.1.sessNone s hl
    rw [hn]
    exact ⟨rfl, ⟨0, h.1⟩, h.2⟩
  | some tid =>
    obtain ⟨a, ha, hr⟩ := h.1.sess s tid hl
    have ha' : lookup s α.db.sessions = some a := ha
    rw [ha']
    dsimp only
    obtain ⟨hok, hheap, c1, pres, hs1, hs2⟩ := dcommit_core σ α 0 h.1.core h.2 tid a hr
    refine ⟨by rw [hok], ⟨0, ?_⟩, hheap⟩
    have r := RelL.remove h.1 s tid hl c1 pres
    apply r.cast <;> try rfl
    · intro n
      show lookup n (erase s (σ.commitC D0 tid).1.db.sessions) = _
      rw [hs1, lookup_erase_if]; rfl
    · intro n
      show lookup n (erase s (α.commitC a).1.db.sessions) = _
      rw [hs2, lookup_erase_if]; rfl

theorem exec_ok' (σ : State) (α : Spec.State) (h : DRel σ α) (s : String) (st : DStmt) :
    DStepOk σ α (.exec s st) := by
  unfold DStepOk
  simp only [stepCore, Spec.stepCore]
  cases hl : lookup s σ.db.sessions with
  | none =>
    have hn : lookup s α.db.sessions = none := h.1.sessNone s hl
    rw [hn]
    exact ⟨rfl, ⟨0, h.1⟩, h.2⟩
  | some tid =>
    obtain ⟨a, ha, hr⟩ := h.1.sess s tid hl
    have ha' : lookup s α.db.sessions = some a := ha
    rw [ha']
    dsimp only
    obtain ⟨hp, hheap, ⟨j, c1⟩, tx, pres, hsess⟩ := dstmt_core σ α h.1.core h.2 tid a hr st
    refine ⟨by rw [hp], ⟨j, ?_⟩, hheap⟩
    have r := RelL.own h.1 s tid hl _ c1 tx pres
    apply r.cast <;> try rfl
    · intro n
      show lookup n (σ.stmt D0 tid st).1.db.sessions = _
      rw [hsess]; rfl
    · intro n
      show lookup n ((s, (Spec.stmt α a st).1) :: erase s α.db.sessions) = _
      rw [lookup_cons_if, lookup_erase_if]
      by_cases e : n = s <;> simp [e, lkA]

theorem spec_stmt_err_heap (α : Spec.State) (a : Db.Spec.ATxn) (st : DStmt)
    (h : (Spec.stmt α a st).2.2.isErr = true) : (Spec.stmt α a st).2.1 = α.heap := by
  have hd : ∀ st', (Spec.ddl α a st').2.2.isErr = true → (Spec.ddl α a st').2.1 = α.heap := by
    intro st' h'
    unfold Spec.ddl at h' ⊢
    simp only at h' ⊢
    split
    · rfl
    · rename_i he
      simp only [he] at h'
      exact (he h').elim
  cases st with
  | dml s =>
    show (Spec.dml α a s).2.1 = α.heap
    unfold Spec.dml
    split <;> rfl
  | createTable name cols uniques => exact hd _ h
  | dropTable t => exact hd _ h
  | addKey t pk cols => exact hd _ h
  | addColumn t col d => exact hd _ h
  | dropColumn t col => exact hd _ h
  | setNotNull t col => exact hd _ h
  | dropNotNull t col => exact hd _ h

theorem auto_ok' (σ : State) (α : Spec.State) (h : DRel σ α) (st : DStmt) : DStepOk σ α (.auto st) := by
  unfold DStepOk
  simp only [stepCore, Spec.stepCore]
  obtain ⟨c1, htid, tx1, pres1⟩ := begin_core σ.db α.db 0 h.1.core
  rcases hb : σ.db.beginTxn D0 with ⟨db1, tid⟩
  simp only [hb] at c1 htid tx1 pres1
  subst htid
  have hs1 : db1.sessions = σ.db.sessions := by
    have := congrArg (fun x => x.1.sessions) hb
    simpa [State.beginTxn] using this.symm
  obtain ⟨hp, hheap, ⟨j, c2⟩, tx2, pres2, hsess⟩ :=
    dstmt_core { σ with db := db1 } α c1 h.2 σ.db.txns.length α.db.beginTxn tx1 st
  rcases hx : ({ σ with db := db1 } : State).stmt D0 σ.db.txns.length st with ⟨σ2, o⟩
  rcases hy : Spec.stmt α α.db.beginTxn st with ⟨a', h', o'⟩
  simp only [hx, hy] at hp hheap c2 tx2 pres2 hsess
  subst hp
  dsimp only
  have hne := fun tid' hex => sess_ne_new σ.db α.db h.1 tid' hex
  by_cases he : o.isErr = true
  · simp only [he, if_true]
    obtain ⟨c3, pres3⟩ := abort_core σ2.db α.db j c2 _ a' tx2
    have hh' : σ2.heap = α.heap := by
      rw [hheap]
      have := spec_stmt_err_heap α α.db.beginTxn st (by rw [hy]; exact he)
      rw [hy] at this; exact this
    refine ⟨trivial, ⟨j, ?_⟩, hh'⟩
    have r := RelL.anon h.1 c3 (fun tid' a'' hex h'' =>
      pres3 tid' a'' (hne tid' hex) (pres2 tid' a'' (hne tid' hex) (pres1 tid' a'' h'')))
    apply r.cast <;> try rfl
    · intro n
      show lookup n σ2.db.sessions = _
      rw [hsess, hs1]; rfl
    · intro n; rfl
  · simp only [he, Bool.false_eq_true, if_false]
    obtain ⟨hok, hheap2, c3, pres3, hs3, hs4⟩ :=
      dcommit_core σ2 { α with heap := h' } j c2 hheap σ.db.txns.length a' tx2
    refine ⟨by rw [hok], ⟨j, ?_⟩, hheap2⟩
    have r := RelL.anon h.1 c3 (fun tid' a'' hex h'' =>
      pres3 tid' a'' (hne tid' hex) (pres2 tid' a'' (hne tid' hex) (pres1 tid' a'' h'')))
    apply r.cast <;> try rfl
    · intro n
      show lookup n (σ2.commitC D0 σ.db.txns.length).1.db.sessions = _
      rw [hs3, hsess, hs1]; rfl
    · intro n
      show lookup n (Spec.State.commitC { α with heap := h' } a').1.db.sessions = _
      rw [hs4]; rfl

theorem drop_rel (σ : Db.State) (α : Db.Spec.State) (h : Rel σ α) (s : String) :
    Rel (Db.stepCore D0 σ (.drop s)).1 (Db.Spec.stepCore α (.drop s)).1 := by
  simp only [Db.stepCore, Db.Spec.stepCore]
  cases hl : lookup s σ.sessions with
  | none =>
    have hn : lookup s α.sessions = none := h.sessNone s hl
    rw [hn]
    exact h
  | some tid =>
    obtain ⟨a, ha, r⟩ := abort_ok_aux σ α h s tid hl
    rw [ha]
    exact r

theorem reopen_rel : ∀ (ss : List String) (σ : State) (α : Spec.State), DRel σ α →
    DRel (ss.foldl (fun σ s => (liftDb D0 σ (.drop s)).1) σ) (ss.foldl (fun α s => (Spec.liftDb α (.drop s)).1) α)
  | [], _, _, h => h
  | s :: ss, σ, α, h => by
    simp only [List.foldl_cons]
    apply reopen_rel ss
    exact ⟨drop_rel σ.db α.db h.1 s, h.2⟩

theorem reopen_ok' (σ : State) (α : Spec.State) (h : DRel σ α) (ss : List String) : DStepOk σ α (.reopen ss) := by
  unfold DStepOk
  simp only [stepCore, Spec.stepCore]
  have := reopen_rel ss σ α h
  exact ⟨trivial, ⟨0, this.1⟩, this.2⟩

theorem dstepCore_ok (σ : State) (α : Spec.State) (h : DRel σ α) (op : DOp) : DStepOk σ α op := by
  cases op with
  | begin s => exact lift_ok σ α h _
  | commit s => exact commit_ok' σ α h s
  | rollback s => exact lift_ok σ α h _
  | drop s => exact lift_ok σ α h _
  | exec s st => exact exec_ok' σ α h s st
  | auto st => exact auto_ok' σ α h st
  | reopen ss => exact reopen_ok' σ α h ss
  | tick => exact lift_ok σ α h _
  | nop => exact ⟨rfl, ⟨0, h.1⟩, h.2⟩

theorem relL_tick {σ : Db.State} {α : Db.Spec.State} {j : Nat} (r : RelL σ α j (lkS σ) (lkA α)) :
    Rel { σ with clock := σ.clock + 1 } { α with clock := α.clock + 1 } := by
  have c := r.core
  refine ⟨⟨c.cinv, ⟨c.sinv.stamps, c.sinv.sorted, ?_⟩, c.cat, ?_, c.committed, c.log⟩, ?_, r.sessNone, r.inj⟩
  · intro row hrow
    have := c.sinv.bound row hrow
    unfold ridLt at *; simp only at *; omega
  · show σ.clock + 1 = α.clock + 1
    rw [c.clock]
  · intro name tid hn
    obtain ⟨a, g1, g2⟩ := r.sess name tid hn
    exact ⟨a, g1, g2.of_eq rfl rfl⟩

/-- one operation: same output, and the relation holds again -/
theorem dstep_ok (σ : State) (α : Spec.State) (h : DRel σ α) (op : DOp) :
    (step D0 σ op).2 = (Spec.step α op).2 ∧ DRel (step D0 σ op).1 (Spec.step α op).1 := by
  obtain ⟨ho, ⟨j, r⟩, hh⟩ := dstepCore_ok σ α h op
  unfold step Spec.step
  exact ⟨ho, relL_tick r, hh⟩

theorem dinit_rel : DRel State.init Spec.State.init := ⟨init_rel [], rfl⟩

theorem dreach : ∀ (ops : List DOp) (σ : State) (α : Spec.State), DRel σ α →
    outsM D0 σ ops = Spec.outs α ops ∧ DRel (finalM D0 σ ops) (Spec.final α ops)
  | [], _, _, h => ⟨rfl, h⟩
  | op :: ops, σ, α, h => by
    obtain ⟨ho, hr⟩ := dstep_ok σ α h op
    obtain ⟨h1, h2⟩ := dreach ops _ _ hr
    simp only [outsM, Spec.outs, finalM, Spec.final]
    exact ⟨by rw [ho, h1], h2⟩

/-- **Refinement** for the machines with dynamic catalog -/
theorem drefine (ops : List DOp) : (run D0 ops).2 = (Spec.run ops).2 :=
  (dreach ops State.init Spec.State.init dinit_rel).1

theorem dreach_rel (ops : List DOp) : DRel (run D0 ops).1 (Spec.run ops).1 :=
  (dreach ops State.init Spec.State.init dinit_rel).2

end AxVerif.Ddl
