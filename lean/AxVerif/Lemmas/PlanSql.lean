/- C06: the plan algebra and the reference evaluator of C05 (core Lean only). -/
import AxVerif.Lemmas.PlanRules
namespace AxVerif.Plan
open AxVerif.Sql AxVerif.Index

/-! ### strict evaluation, where it succeeds, is the total evaluation -/

theorem isTrueOn_holds (tys : List Ty) (e : Expr) : isTrueOn (evalPred {} tys e) = holds tys e := by
  funext r
  simp only [isTrueOn, holds]
  cases evalPred {} tys e r with
  | error x => rfl
  | ok b => cases b <;> rfl

theorem filterRows_holds (tys : List Ty) (e : Expr) (rows out : List Row)
    (h : filterRows (evalPred {} tys e) rows = .ok out) : out = rows.filter (holds tys e) := by
  rw [← isTrueOn_holds]; exact filterRows_eq _ _ _ h

theorem mapE_filterMap {α β} (f : α → Except Err β) (g : α → Option β) (hg : ∀ x y, f x = .ok y → g x = some y) :
    ∀ (xs : List α) (ys : List β), mapE f xs = .ok ys → xs.filterMap g = ys
  | [], ys, h => by simp [mapE] at h; subst h; rfl
  | x :: xs, ys, h => by
    simp only [mapE] at h
    cases hx : f x with
    | error e => simp [hx] at h
    | ok y =>
      simp only [hx] at h
      cases hxs : mapE f xs with
      | error e => simp [hxs] at h
      | ok ys' =>
        simp only [hxs, Except.ok.injEq] at h
        subst h
        simp [List.filterMap_cons, hg x y hx, mapE_filterMap f g hg xs ys' hxs]

theorem getD_of_getElem? {α} (l : List α) (i : Nat) (d x : α) (h : l[i]? = some x) : l.getD i d = x := by
  simp [List.getD_eq_getElem?_getD, h]

/-- `strict_agrees`: when the error-propagating evaluation succeeds, its result is the result of the total one -/
theorem evalPlanE_ok (st : Store) : ∀ (p : Plan) (rows : List Row), evalPlanE st p = .ok rows → rows = evalPlan st p := by
  intro p
  induction p with
  | scan t =>
    intro rows h
    simp only [evalPlanE] at h
    split at h
    · rename_i tb ht
      simp only [Except.ok.injEq] at h
      simp only [evalPlan, getD_of_getElem? st t default tb ht]
      exact h.symm
    · simp at h
  | indexScan t k lo hi resid =>
    intro rows h
    simp only [evalPlanE] at h
    split at h
    · simp at h
    · rename_i tb ht
      split at h
      · simp at h
      · rename_i ix hix
        simp only [evalPlan, indexScanRows, getD_of_getElem? st t default tb ht, hix]
        cases resid with
        | none =>
          simp only [Except.ok.injEq] at h
          subst h
          exact (List.filter_eq_self.mpr (fun _ _ => rfl)).symm
        | some e =>
          simp only at h
          rw [filterRows_holds _ _ _ _ h]
          rfl
  | filter e c ih =>
    intro rows h
    simp only [evalPlanE] at h
    cases hc : evalPlanE st c with
    | error x => simp [hc] at h
    | ok crows =>
      simp only [hc] at h
      rw [filterRows_holds _ _ _ _ h, ih crows hc]
      rfl
  | project items c ih =>
    intro rows h
    simp only [evalPlanE] at h
    cases hc : evalPlanE st c with
    | error x => simp [hc] at h
    | ok crows =>
      simp only [hc] at h
      simp only [evalPlan, ← ih crows hc]
      refine (mapE_filterMap _ _ ?_ _ _ h).symm
      intro x y hxy
      simp [hxy]
  | join k on l r ihl ihr =>
    intro rows h
    simp only [evalPlanE] at h
    cases hl : evalPlanE st l with
    | error x => simp [hl] at h
    | ok lrows =>
      cases hr : evalPlanE st r with
      | error x => simp [hl, hr] at h
      | ok rrows =>
        simp only [hl, hr] at h
        split at h
        · simp at h
        · simp only [Except.ok.injEq] at h
          simp only [evalPlan, ← ihl lrows hl, ← ihr rrows hr, h]

/-! ### the bound plan of a plain query evaluates as the reference evaluator does -/

theorem db_getElem? (st : Store) (t : Nat) : st.db[t]? = (st[t]?).map STable.toDef := by
  simp [Store.db]

theorem fromPlan_tys (st : Store) : ∀ (f : From), (fromPlan f).tys st = f.tys st.db
  | .table t => by
    simp only [fromPlan, Plan.tys, From.tys, List.getD_eq_getElem?_getD, db_getElem?]
    cases st[t]? <;> rfl
  | .join k l r on => by
    simp only [fromPlan, Plan.tys, From.tys, fromPlan_tys st l, fromPlan_tys st r]
  | .derived f w items => by
    cases w <;> simp only [fromPlan, Plan.tys, From.tys, fromPlan_tys st f]

theorem evalFrom_plan (st : Store) : ∀ (f : From), evalFrom {} st.db f = evalPlanE st (fromPlan f)
  | .table t => by
    simp only [evalFrom, fromPlan, evalPlanE, db_getElem?]
    cases st[t]? <;> rfl
  | .join k l r on => by
    simp only [evalFrom, fromPlan, evalPlanE, evalFrom_plan st l, evalFrom_plan st r, Plan.width, fromPlan_tys]
    cases evalPlanE st (fromPlan l) with
    | error x => rfl
    | ok lrows =>
      cases evalPlanE st (fromPlan r) with
      | error x => rfl
      | ok rrows =>
        simp only [Bool.false_and, Bool.false_eq_true, if_false]
        generalize mapE _ lrows = pe
        cases pe with
        | error x => rfl
        | ok _ =>
          simp only [Except.ok.injEq]
          congr 1
  | .derived f w items => by
    cases w with
    | none =>
      simp only [evalFrom, fromPlan, evalPlanE, applyWhere, evalFrom_plan st f, fromPlan_tys]
      cases evalPlanE st (fromPlan f) <;> rfl
    | some e =>
      simp only [evalFrom, fromPlan, evalPlanE, applyWhere, evalFrom_plan st f, fromPlan_tys, Plan.tys]
      cases evalPlanE st (fromPlan f) with
      | error x => rfl
      | ok rows => cases filterRows (evalPred {} (f.tys st.db) e) rows <;> rfl

/-- a query without aggregates, ORDER BY, DISTINCT, LIMIT and OFFSET: FROM → WHERE → projection -/
def plainQuery (q : Select) : Bool :=
  q.aggs.isEmpty && q.groupBy.isEmpty && q.orderBy.isEmpty && !q.distinct && q.limit.isNone && q.offset.isNone

theorem evalSelect_plan (st : Store) (nf : Bool) (q : Select) (hq : plainQuery q = true) :
    evalSelect {} nf st.db q = evalPlanE st (boundPlan q) := by
  obtain ⟨distinct, from_, where_, groupBy, aggs, items, orderBy, limit, offset, having⟩ := q
  simp only [plainQuery, Bool.and_eq_true, List.isEmpty_iff, Bool.not_eq_eq_eq_not, Bool.not_true,
    Option.isNone_iff_eq_none] at hq
  obtain ⟨⟨⟨⟨⟨rfl, rfl⟩, rfl⟩, rfl⟩, rfl⟩, rfl⟩ := hq
  simp only [evalSelect, boundPlan, evalFrom_plan, applyWhere, produce, Select.isAgg, projectAll, List.isEmpty_nil,
    Bool.not_true, Bool.or_self, Bool.not_false, if_true, finish,
    limitOffset, Option.getD_none, List.drop_zero, Bool.false_eq_true, if_false]
  cases hf : evalPlanE st (fromPlan from_) with
  | error x => cases where_ <;> cases items <;> simp [evalPlanE, hf]
  | ok rows0 =>
    cases where_ with
    | none =>
      cases items with
      | none => simp [hf]
      | some its =>
        simp only [evalPlanE, hf, fromPlan_tys]
        cases mapE (projectRow {} (from_.tys st.db) its) rows0 <;> rfl
    | some w =>
      simp only [evalPlanE, hf, fromPlan_tys]
      cases hw : filterRows (evalPred {} (from_.tys st.db) w) rows0 with
      | error x => cases items <;> simp [evalPlanE, hf, hw, fromPlan_tys]
      | ok rows1 =>
        cases items with
        | none => simp [evalPlanE, hf, hw, fromPlan_tys]
        | some its =>
          simp only [evalPlanE, hf, hw, fromPlan_tys, Plan.tys]
          cases mapE (projectRow {} (from_.tys st.db) its) rows1 <;> rfl

end AxVerif.Plan
