/- Helper lemmas for C20 (wire protocol). -/
import AxVerif.Model.Wire
import AxVerif.Lemmas.Bytes
namespace AxVerif.Wire
open AxVerif

theorem readString_writeString (s rest : Bytes) (hv : ValidStr s) (hl : s.length < 2^32) :
    readString (writeString s ++ rest) = .ok (s, rest) := by
  unfold readString writeString
  rw [List.append_assoc, take32_le32 _ _ hl]
  simp only [List.length_append, List.take_left', List.drop_left']
  have : ¬ (s.length + rest.length < s.length) := by omega
  simp only [this, if_false]
  rw [show lossy s = s from hv]

theorem readString1_writeString (s rest : Bytes) (hv : ValidStr s) (hl : s.length < 2^32) :
    readString1 (writeString s ++ rest) = .ok s := by
  simp only [readString1, readString_writeString s rest hv hl]

def StrOk (s : Bytes) : Prop := ValidStr s ∧ s.length < 2^32
instance (s : Bytes) : Decidable (StrOk s) := inferInstanceAs (Decidable (ValidStr s ∧ s.length < 2^32))

theorem readStrings_flatten (ss : List Bytes) (rest : Bytes) (h : ∀ s ∈ ss, StrOk s) :
    readStrings ss.length ((ss.map writeString).flatten ++ rest) = .ok (ss, rest) := by
  induction ss with
  | nil => simp [readStrings]
  | cons s ss ih =>
    have hs := h s (by simp)
    have ih' := ih (fun t ht => h t (by simp [ht]))
    simp only [List.map_cons, List.flatten_cons, List.length_cons, readStrings, List.append_assoc]
    rw [readString_writeString s _ hs.1 hs.2]
    simp only
    rw [ih']

theorem readRows_flatten (n : Nat) (data : List (List Bytes)) (rest : Bytes)
    (hlen : ∀ r ∈ data, r.length = n) (h : ∀ r ∈ data, ∀ s ∈ r, StrOk s) :
    readRows n data.length ((data.map (fun r => (r.map writeString).flatten)).flatten ++ rest)
      = .ok (data, rest) := by
  induction data with
  | nil => simp [readRows]
  | cons r rs ih =>
    have hr := hlen r (by simp)
    have ih' := ih (fun t ht => hlen t (by simp [ht])) (fun t ht => h t (by simp [ht]))
    simp only [List.map_cons, List.flatten_cons, List.length_cons, readRows, List.append_assoc]
    rw [← hr, readStrings_flatten r _ (h r (by simp))]
    simp only
    rw [hr, ih']

/-- `lossy` leaves pure ASCII untouched. -/
theorem lossyFuel_ascii (n : Nat) (s : Bytes) (hn : s.length ≤ n) (h : ∀ b ∈ s, b.toNat < 128) :
    lossyFuel n s = s := by
  induction s generalizing n with
  | nil => cases n <;> simp [lossyFuel]
  | cons b rest ih =>
    cases n with
    | zero => simp at hn
    | succ n =>
      have hb : b.toNat < 128 := h b (by simp)
      have hw : width b = 1 := by simp [width, hb]
      simp only [lossyFuel, hw]
      rw [ih n (by simpa using hn) (fun c hc => h c (by simp [hc]))]

theorem validStr_ascii (s : Bytes) (h : ∀ b ∈ s, b.toNat < 128) : ValidStr s :=
  lossyFuel_ascii _ s (Nat.le_refl _) h

theorem readStrings_length {n : Nat} {d rest : Bytes} {ss : List Bytes}
    (h : readStrings n d = .ok (ss, rest)) : rest.length ≤ d.length := by
  induction n generalizing d ss with
  | zero =>
    simp only [readStrings, Except.ok.injEq, Prod.mk.injEq] at h
    obtain ⟨_, h2⟩ := h
    subst h2
    exact Nat.le_refl _
  | succ n ih =>
    simp only [readStrings] at h
    split at h
    · simp at h
    · rename_i s r1 hrs
      split at h
      · simp at h
      · rename_i ss' r2 hr2
        simp only [Except.ok.injEq, Prod.mk.injEq] at h
        obtain ⟨_, h2⟩ := h
        subst h2
        have := ih hr2
        unfold readString at hrs
        split at hrs
        · simp at hrs
        · rename_i len r0 ht
          have hl := (take32_length ht).1
          split at hrs
          · simp at hrs
          · simp only [Except.ok.injEq, Prod.mk.injEq] at hrs
            obtain ⟨_, h3⟩ := hrs
            subst h3
            simp only [List.length_drop] at this
            omega

end AxVerif.Wire
