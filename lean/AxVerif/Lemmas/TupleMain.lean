/-
  Helper lemmas for the tuple model, part 2: the main part of a tuple (header, null bitmap, keys, values):
  `parseLast` and `toRow` on `encMain … ++ anything`.
-/
import AxVerif.Lemmas.TupleBase
namespace AxVerif.Tuple
open AxVerif

/-! ### cells that fit their kinds -/

def CellsFit (P : Params) : List Kind → List Cell → Prop
  | [], [] => True
  | _ :: ks, none :: cs => CellsFit P ks cs
  | k :: ks, some p :: cs => FitsKind P k p ∧ CellsFit P ks cs
  | _, _ => False

instance (P : Params) : (ks : List Kind) → (cs : List Cell) → Decidable (CellsFit P ks cs)
  | [], [] => isTrue trivial
  | [], _ :: _ => isFalse (by simp [CellsFit])
  | _ :: _, [] => isFalse (by simp [CellsFit])
  | _ :: ks, none :: cs => by
    unfold CellsFit
    exact instDecidableCellsFit P ks cs
  | k :: ks, some p :: cs => by
    unfold CellsFit
    have := instDecidableCellsFit P ks cs
    exact inferInstance

theorem CellsFit.length {P : Params} : ∀ {ks : List Kind} {cs : List Cell}, CellsFit P ks cs → cs.length = ks.length
  | [], [], _ => rfl
  | [], _ :: _, h => by simp [CellsFit] at h
  | _ :: _, [], h => by simp [CellsFit] at h
  | _ :: ks, none :: cs, h => by
    simp only [CellsFit] at h
    simp [CellsFit.length h]
  | _ :: ks, some _ :: cs, h => by
    simp only [CellsFit] at h
    simp [CellsFit.length h.2]

theorem CellsFit.get {P : Params} : ∀ {ks : List Kind} {cs : List Cell}, CellsFit P ks cs →
    ∀ (j : Nat) (k : Kind) (p : Bytes), ks[j]? = some k → cs[j]? = some (some p) → FitsKind P k p
  | [], [], _, j, k, p, hk, _ => by simp at hk
  | [], _ :: _, h, _, _, _, _, _ => by simp [CellsFit] at h
  | _ :: _, [], h, _, _, _, _, _ => by simp [CellsFit] at h
  | _ :: ks, none :: cs, h, j, k, p, hk, hc => by
    simp only [CellsFit] at h
    cases j with
    | zero => simp at hc
    | succ j => exact CellsFit.get h j k p (by simpa using hk) (by simpa using hc)
  | k0 :: ks, some p0 :: cs, h, j, k, p, hk, hc => by
    simp only [CellsFit] at h
    cases j with
    | zero =>
      simp only [List.getElem?_cons_zero, Option.some.injEq] at hk hc
      subst hk hc
      exact h.1
    | succ j => exact CellsFit.get h.2 j k p (by simpa using hk) (by simpa using hc)

/-! ### where the cells of a version can be read -/

/-- reading kind `ks[j]` at offset `offs[j]` of `d` yields the non-null cell `cs[j]` -/
structure CellsAt (P : Params) (d : Bytes) (ks : List Kind) (offs : List Nat) (cs : List Cell) : Prop where
  len_o : offs.length = ks.length
  len_c : cs.length = ks.length
  rd : ∀ (j : Nat) (k : Kind) (o : Nat) (p : Bytes), ks[j]? = some k → offs[j]? = some o → cs[j]? = some (some p) →
    ∃ e, deser P k d o = .ok (p, e)

theorem CellsAt.nil (P : Params) (d : Bytes) : CellsAt P d [] [] [] :=
  ⟨rfl, rfl, by intro j k o p hk; simp at hk⟩

theorem CellsAt.cons {P : Params} {d : Bytes} {k : Kind} {ks : List Kind} {o : Nat} {os : List Nat} {c : Cell}
    {cs : List Cell} (hd : ∀ p, c = some p → ∃ e, deser P k d o = .ok (p, e)) (tl : CellsAt P d ks os cs) :
    CellsAt P d (k :: ks) (o :: os) (c :: cs) := by
  refine ⟨by simp [tl.len_o], by simp [tl.len_c], ?_⟩
  intro j k' o' p hk ho hc
  cases j with
  | zero =>
    simp only [List.getElem?_cons_zero, Option.some.injEq] at hk ho hc
    subst hk ho
    exact hd p hc
  | succ j => exact tl.rd j k' o' p (by simpa using hk) (by simpa using ho) (by simpa using hc)

theorem CellsAt.tail {P : Params} {d : Bytes} {k : Kind} {ks : List Kind} {o : Nat} {os : List Nat} {c : Cell}
    {cs : List Cell} (h : CellsAt P d (k :: ks) (o :: os) (c :: cs)) : CellsAt P d ks os cs := by
  refine ⟨by simpa using h.len_o, by simpa using h.len_c, ?_⟩
  intro j k' o' p hk ho hc
  exact h.rd (j + 1) k' o' p (by simpa using hk) (by simpa using ho) (by simpa using hc)

theorem CellsAt.head {P : Params} {d : Bytes} {k : Kind} {ks : List Kind} {o : Nat} {os : List Nat} {p : Bytes}
    {cs : List Cell} (h : CellsAt P d (k :: ks) (o :: os) (some p :: cs)) : ∃ e, deser P k d o = .ok (p, e) :=
  h.rd 0 k o p rfl rfl rfl

/-! ### skipping over written cells -/

theorem isNullAt_cons_succ (c : Cell) (cs : List Cell) (j : Nat) : isNullAt (c :: cs) (j + 1) = isNullAt cs j := by
  simp [isNullAt]

/-- the null information `skipCells` consults agrees with the cells: keys (`none`) are never NULL, values follow
    the bitmap from bit `i` on -/
def NullsOk (bm : Option Bytes) (i : Nat) (cs : List Cell) : Prop :=
  match bm with
  | none => ∀ j, isNullAt cs j = false
  | some b => ∀ j, j < cs.length → checkNull b (i + j) = .ok (isNullAt cs j)

theorem NullsOk.tail {bm : Option Bytes} {i : Nat} {c : Cell} {cs : List Cell} (h : NullsOk bm i (c :: cs)) :
    NullsOk bm (i + 1) cs := by
  cases bm with
  | none =>
    intro j
    have := h (j + 1)
    rwa [isNullAt_cons_succ] at this
  | some b =>
    intro j hj
    have := h (j + 1) (by simp; omega)
    rw [isNullAt_cons_succ] at this
    rw [← this]; congr 1; omega

theorem NullsOk.head {bm : Option Bytes} {i : Nat} {c : Cell} {cs : List Cell} (h : NullsOk bm i (c :: cs)) :
    nullOf bm i = .ok (isNullAt (c :: cs) 0) := by
  cases bm with
  | none => simp only [nullOf]; rw [h 0]
  | some b => simpa [nullOf] using h 0 (by simp)

theorem skipCells_emit (P : Params) (hP : P.Wf) (d : Bytes) (bm : Option Bytes) :
    ∀ (ks : List Kind) (cs : List Cell) (i : Nat) (pre post : Bytes),
      CellsFit P ks cs → NullsOk bm i cs →
      d = pre ++ emitCells P pre.length ks cs ++ post →
      ∃ offs, skipCells P d bm ks i pre.length = .ok (offs, pre.length + (emitCells P pre.length ks cs).length)
        ∧ CellsAt P d ks offs cs := by
  intro ks
  induction ks with
  | nil =>
    intro cs i pre post hf _ _
    cases cs with
    | nil => exact ⟨[], by simp [skipCells, emitCells], CellsAt.nil P d⟩
    | cons _ _ => simp [CellsFit] at hf
  | cons k ks ih =>
    intro cs i pre post hf hn hd
    cases cs with
    | nil => simp [CellsFit] at hf
    | cons c cs =>
      have hhead := hn.head
      cases c with
      | none =>
        simp only [CellsFit] at hf
        have hnull : isNullAt (none :: cs) 0 = true := by simp [isNullAt]
        rw [hnull] at hhead
        simp only [emitCells] at hd ⊢
        obtain ⟨offs, hs, hc⟩ := ih cs (i + 1) pre post hf hn.tail hd
        refine ⟨pre.length :: offs, ?_, CellsAt.cons (by intro p hp; cases hp) hc⟩
        simp only [skipCells, hhead, hs]
      | some p =>
        simp only [CellsFit] at hf
        have hnull : isNullAt (some p :: cs) 0 = false := by simp [isNullAt]
        rw [hnull] at hhead
        simp only [emitCells] at hd ⊢
        have hd' : d = (pre ++ emitVal P k pre.length p) ++
            emitCells P (pre ++ emitVal P k pre.length p).length ks cs ++ post := by
          rw [hd]; simp only [List.append_assoc, List.length_append]
        obtain ⟨offs, hs, hc⟩ := ih cs (i + 1) (pre ++ emitVal P k pre.length p) post hf.2 hn.tail hd'
        have hde : deser P k d pre.length = .ok (p, pre.length + (emitVal P k pre.length p).length) := by
          rw [hd, List.append_assoc, List.append_assoc, ← List.append_assoc]
          exact deser_emitVal P hP k p hf.1 pre _
        refine ⟨pre.length :: offs, ?_, CellsAt.cons (by intro q hq; cases hq; exact ⟨_, hde⟩) hc⟩
        simp only [List.length_append] at hs
        simp only [skipCells, hhead, hde, hs, List.length_append]
        simp only [Nat.add_assoc]

/-! ### headers -/

theorem rdLE_le64 (n : Nat) (h : n < 2 ^ 64) : rdLE (le64 n) = n := by
  simp only [le64, le32, rdLE, List.cons_append, List.nil_append, UInt8.toNat_ofNat']
  omega

theorem rdLE_byte (n : Nat) (h : n < 256) : rdLE [UInt8.ofNat n] = n := by
  simp only [rdLE, UInt8.toNat_ofNat']
  omega

@[simp] theorem encHeader_length (P : Params) (hP : P.Wf) (xmin : Nat) (xmax : Option Nat) (ver : Nat) :
    (encHeader P xmin xmax ver).length = 24 := by
  simp [encHeader, hP.hdr]

@[simp] theorem encDeltaHeader_length (P : Params) (hP : P.Wf) (xmin ver : Nat) :
    (encDeltaHeader P xmin ver).length = 16 := by
  simp [encDeltaHeader, hP.dh]

/-- the ids a header can hold: `xmin` is a `u64`, `xmax` is stored as an `i64` -/
def XmaxOk : Option Nat → Prop
  | none => True
  | some x => x < 2 ^ 63

instance : (x : Option Nat) → Decidable (XmaxOk x)
  | none => isTrue trivial
  | some x => inferInstanceAs (Decidable (x < 2 ^ 63))

theorem readHeader_encHeader (P : Params) (hP : P.Wf) (xmin : Nat) (xmax : Option Nat) (ver : Nat) (rest : Bytes)
    (hx : xmin < 2 ^ 64) (hxm : XmaxOk xmax) (hv : ver < 256) :
    readHeader P (encHeader P xmin xmax ver ++ rest) = .ok { xmin := xmin, xmax := xmax, version := ver } := by
  unfold readHeader
  have hs : slice (encHeader P xmin xmax ver ++ rest) 0 P.hdrSize = .ok (encHeader P xmin xmax ver) := by
    have := slice_append' [] (encHeader P xmin xmax ver) rest 0 P.hdrSize rfl (by simp [hP, hP.hdr])
    simpa using this
  rw [hs]
  simp only [encHeader, List.append_assoc]
  rw [List.take_left' (le64_length _), List.drop_left' (le64_length _), List.take_left' (le64_length _),
    show 16 = 8 + 8 from rfl, ← List.drop_drop, List.drop_left' (le64_length _), List.drop_left' (le64_length _)]
  simp only [List.cons_append, List.nil_append, List.take_succ_cons, List.take_zero]
  rw [rdLE_le64 _ hx, rdLE_byte _ hv]
  cases xmax with
  | none =>
    have h1 : rdLE (le64 (xmaxField none)) = 2 ^ 64 - 1 := rdLE_le64 _ (by simp [xmaxField])
    simp only [h1]
    simp
  | some x =>
    simp only [XmaxOk] at hxm
    have h1 : rdLE (le64 (xmaxField (some x))) = x := rdLE_le64 _ (by simp only [xmaxField]; omega)
    simp only [h1]
    simp [hxm]

/-! ### `parseLast` on a written main part -/

theorem isNullAt_map_some (keys : List Bytes) (j : Nat) : isNullAt (keys.map some) j = false := by
  simp only [isNullAt, List.getElem?_map]
  cases keys[j]? <;> simp

theorem parseLast_encMain (P : Params) (hP : P.Wf) (sch : Schema) (xmin : Nat) (xmax : Option Nat) (ver : Nat)
    (keys : List Bytes) (vals : List Cell) (post : Bytes)
    (hx : xmin < 2 ^ 64) (hxm : XmaxOk xmax) (hv : ver < 256)
    (hk : CellsFit P sch.keys (keys.map some)) (hvv : CellsFit P sch.vals vals) :
    ∃ ko vo, parseLast P sch (encMain P sch xmin xmax ver keys vals ++ post)
        = .ok { vxmin := xmin, vxmax := xmax, nullStart := P.hdrSize, keyOffs := ko, valOffs := vo,
                dataEnd := (encMain P sch xmin xmax ver keys vals).length, version := ver }
      ∧ CellsAt P (encMain P sch xmin xmax ver keys vals ++ post) sch.keys ko (keys.map some)
      ∧ CellsAt P (encMain P sch xmin xmax ver keys vals ++ post) sch.vals vo vals
      ∧ slice (encMain P sch xmin xmax ver keys vals ++ post) P.hdrSize (bitmapSize sch.vals.length) = .ok (mkBitmap vals) := by
  have hlen := hvv.length
  -- name the pieces
  have hmainEq : encMain P sch xmin xmax ver keys vals =
      (encHeader P xmin xmax ver ++ mkBitmap vals)
        ++ emitCells P (encHeader P xmin xmax ver ++ mkBitmap vals).length sch.keys (keys.map some)
        ++ emitCells P ((encHeader P xmin xmax ver ++ mkBitmap vals).length
            + (emitCells P (encHeader P xmin xmax ver ++ mkBitmap vals).length sch.keys (keys.map some)).length)
            sch.vals vals := rfl
  rw [hmainEq]
  have hHl : (encHeader P xmin xmax ver).length = 24 := encHeader_length P hP _ _ _
  have h1' : ∀ rest, readHeader P (encHeader P xmin xmax ver ++ rest) = .ok { xmin := xmin, xmax := xmax, version := ver } :=
    fun rest => readHeader_encHeader P hP _ _ _ rest hx hxm hv
  generalize encHeader P xmin xmax ver = H at hHl h1' ⊢
  generalize hK : emitCells P (H ++ mkBitmap vals).length sch.keys (keys.map some) = K
  generalize hV : emitCells P ((H ++ mkBitmap vals).length + K.length) sch.vals vals = V
  generalize hd : H ++ mkBitmap vals ++ K ++ V ++ post = d
  have hd1 : d = H ++ (mkBitmap vals ++ K ++ V ++ post) := by
    rw [← hd]; simp only [List.append_assoc]
  have hmain : (H ++ mkBitmap vals ++ K ++ V).length = (H ++ mkBitmap vals ++ K).length + V.length := by
    simp only [List.length_append]
  -- header
  have h1 : readHeader P d = .ok { xmin := xmin, xmax := xmax, version := ver } := by
    rw [hd1]; exact h1' _
  -- bitmap
  have h2 : slice d P.hdrSize (bitmapSize sch.vals.length) = .ok (mkBitmap vals) := by
    have : d = H ++ mkBitmap vals ++ (K ++ V ++ post) := by rw [hd1]; simp only [List.append_assoc]
    rw [this]
    exact slice_append' _ _ _ _ _ (by rw [hHl, hP.hdr]) (by rw [mkBitmap_length, hlen])
  -- keys
  have hdk : d = (H ++ mkBitmap vals) ++ emitCells P (H ++ mkBitmap vals).length sch.keys (keys.map some) ++ (V ++ post) := by
    rw [hd1, hK]; simp only [List.append_assoc]
  obtain ⟨ko, h3, hck⟩ := skipCells_emit P hP d none sch.keys (keys.map some) 0 (H ++ mkBitmap vals) (V ++ post) hk
    (by intro j; exact isNullAt_map_some keys j) hdk
  -- values
  have hdv : d = (H ++ mkBitmap vals ++ K) ++ emitCells P (H ++ mkBitmap vals ++ K).length sch.vals vals ++ post := by
    rw [hd1]
    have : (H ++ mkBitmap vals ++ K).length = (H ++ mkBitmap vals).length + K.length := by
      simp only [List.length_append]
    rw [this, hV]; simp only [List.append_assoc]
  obtain ⟨vo, h4, hcv⟩ := skipCells_emit P hP d (some (mkBitmap vals)) sch.vals vals 0 (H ++ mkBitmap vals ++ K) post hvv
    (by intro j hj; rw [Nat.zero_add]; exact checkNull_mkBitmap vals j hj) hdv
  refine ⟨ko, vo, ?_, hck, hcv, h2⟩
  have hc1 : P.hdrSize + bitmapSize sch.vals.length = (H ++ mkBitmap vals).length := by
    simp [hHl, hP.hdr, hlen]
  have hc2 : (H ++ mkBitmap vals).length + K.length = (H ++ mkBitmap vals ++ K).length := by
    simp only [List.length_append]
  rw [hK] at h3
  have hV' : emitCells P (H ++ mkBitmap vals ++ K).length sch.vals vals = V := by rw [← hc2]; exact hV
  rw [hV'] at h4
  unfold parseLast
  simp only [h1, h2, hc1, h3, hc2, h4, hmain]

/-! ### materialising a row from a layout -/

theorem readKeys_of_cellsAt (P : Params) (d : Bytes) : ∀ (ks : List Kind) (offs : List Nat) (keys : List Bytes),
    CellsAt P d ks offs (keys.map some) → readKeys P d ks offs = .ok keys := by
  intro ks
  induction ks with
  | nil =>
    intro offs keys h
    have := h.len_c
    cases keys with
    | nil => simp [readKeys]
    | cons _ _ => simp at this
  | cons k ks ih =>
    intro offs keys h
    have h1 := h.len_o
    have h2 := h.len_c
    cases offs with
    | nil => simp at h1
    | cons o os =>
      cases keys with
      | nil => simp at h2
      | cons key keys =>
        simp only [List.map_cons] at h
        obtain ⟨e, he⟩ := h.head
        simp only [readKeys, he, ih os keys h.tail]

theorem readVals_of_cellsAt (P : Params) (d : Bytes) (bm : Bytes) : ∀ (ks : List Kind) (offs : List Nat) (cs : List Cell)
    (i : Nat), CellsAt P d ks offs cs → (∀ j, j < cs.length → checkNull bm (i + j) = .ok (isNullAt cs j)) →
    readVals P d bm ks offs i = .ok cs := by
  intro ks
  induction ks with
  | nil =>
    intro offs cs i h _
    have := h.len_c
    cases cs with
    | nil => simp [readVals]
    | cons _ _ => simp at this
  | cons k ks ih =>
    intro offs cs i h hn
    have h1 := h.len_o
    have h2 := h.len_c
    cases offs with
    | nil => simp at h1
    | cons o os =>
      cases cs with
      | nil => simp at h2
      | cons c cs =>
        have h0 := hn 0 (by simp)
        have htl : ∀ j, j < cs.length → checkNull bm (i + 1 + j) = .ok (isNullAt cs j) := by
          intro j hj
          have := hn (j + 1) (by simp; omega)
          rw [isNullAt_cons_succ] at this
          rw [← this]; congr 1; omega
        cases c with
        | none =>
          have : isNullAt (none :: cs) 0 = true := by simp [isNullAt]
          rw [this, Nat.add_zero] at h0
          simp only [readVals, h0, ih os cs (i + 1) h.tail htl]
        | some p =>
          have : isNullAt (some p :: cs) 0 = false := by simp [isNullAt]
          rw [this, Nat.add_zero] at h0
          obtain ⟨e, he⟩ := h.head
          simp only [readVals, h0, he, ih os cs (i + 1) h.tail htl]

theorem toRow_of_cellsAt (P : Params) (sch : Schema) (d : Bytes) (lay : Layout) (keys : List Bytes) (vals : List Cell)
    (bm : Bytes) (hk : CellsAt P d sch.keys lay.keyOffs (keys.map some)) (hv : CellsAt P d sch.vals lay.valOffs vals)
    (hb : slice d lay.nullStart (bitmapSize sch.vals.length) = .ok bm)
    (hn : ∀ j, j < vals.length → checkNull bm j = .ok (isNullAt vals j)) :
    toRow P sch d lay = .ok { keys := keys, vals := vals } := by
  unfold toRow
  rw [readKeys_of_cellsAt P d _ _ _ hk]
  simp only [hb]
  rw [readVals_of_cellsAt P d bm _ _ _ 0 hv (by intro j hj; rw [Nat.zero_add]; exact hn j hj)]

/-- a layout from which the row (`keys`, `vals`) can be materialised out of `d` -/
structure LayoutOk (P : Params) (sch : Schema) (d : Bytes) (lay : Layout) (keys : List Bytes) (vals : List Cell) : Prop where
  keysAt : CellsAt P d sch.keys lay.keyOffs (keys.map some)
  valsAt : CellsAt P d sch.vals lay.valOffs vals
  bitmap : slice d lay.nullStart (bitmapSize sch.vals.length) = .ok (mkBitmap vals)

theorem toRow_of_layoutOk {P : Params} {sch : Schema} {d : Bytes} {lay : Layout} {keys : List Bytes} {vals : List Cell}
    (h : LayoutOk P sch d lay keys vals) : toRow P sch d lay = .ok { keys := keys, vals := vals } :=
  toRow_of_cellsAt P sch d lay keys vals _ h.keysAt h.valsAt h.bitmap (fun j hj => checkNull_mkBitmap vals j hj)

/-- `parseLast` on a written main part followed by anything: the header fields, the end of the data and a layout
    from which exactly the written row is read back -/
theorem parseLast_main (P : Params) (hP : P.Wf) (sch : Schema) (xmin : Nat) (xmax : Option Nat) (ver : Nat)
    (keys : List Bytes) (vals : List Cell) (post : Bytes)
    (hx : xmin < 2 ^ 64) (hxm : XmaxOk xmax) (hv : ver < 256)
    (hk : CellsFit P sch.keys (keys.map some)) (hvv : CellsFit P sch.vals vals) :
    ∃ lay, parseLast P sch (encMain P sch xmin xmax ver keys vals ++ post) = .ok lay
      ∧ lay.vxmin = xmin ∧ lay.vxmax = xmax ∧ lay.version = ver
      ∧ lay.dataEnd = (encMain P sch xmin xmax ver keys vals).length
      ∧ LayoutOk P sch (encMain P sch xmin xmax ver keys vals ++ post) lay keys vals := by
  obtain ⟨ko, vo, h, hck, hcv, hb⟩ := parseLast_encMain P hP sch xmin xmax ver keys vals post hx hxm hv hk hvv
  exact ⟨_, h, rfl, rfl, rfl, rfl, ⟨hck, hcv, hb⟩⟩

theorem decodeLast_main (P : Params) (hP : P.Wf) (sch : Schema) (xmin : Nat) (xmax : Option Nat) (ver : Nat)
    (keys : List Bytes) (vals : List Cell) (post : Bytes)
    (hx : xmin < 2 ^ 64) (hxm : XmaxOk xmax) (hv : ver < 256)
    (hk : CellsFit P sch.keys (keys.map some)) (hvv : CellsFit P sch.vals vals) :
    decodeLast P sch (encMain P sch xmin xmax ver keys vals ++ post) = .ok { keys := keys, vals := vals } := by
  obtain ⟨lay, h, _, _, _, _, hl⟩ := parseLast_main P hP sch xmin xmax ver keys vals post hx hxm hv hk hvv
  simp only [decodeLast, h, toRow_of_layoutOk hl]

end AxVerif.Tuple
