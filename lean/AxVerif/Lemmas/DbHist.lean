/-
  Histories: outputs as lists, repeatable reads and erasure of a never-committing session on the abstract machine.
-/
import AxVerif.Lemmas.DbSim
namespace AxVerif.Db
open AxVerif.Db

/-! ### outputs of a history as a list -/

def finalM (D : Defects) : State → List Op → State
  | σ, [] => σ
  | σ, op :: ops => finalM D (step D σ op).1 ops

def outsM (D : Defects) : State → List Op → List Out
  | _, [] => []
  | σ, op :: ops => (step D σ op).2 :: outsM D (step D σ op).1 ops

theorem runFrom_eq (D : Defects) : ∀ (ops : List Op) (σ : State) (acc : List Out),
    runFrom D σ ops acc = (finalM D σ ops, acc.reverse ++ outsM D σ ops)
  | [], σ, acc => by simp [runFrom, finalM, outsM]
  | op :: ops, σ, acc => by
    simp only [runFrom, finalM, outsM]
    rw [runFrom_eq D ops]
    simp

namespace Spec

def final : Spec.State → List Op → Spec.State
  | α, [] => α
  | α, op :: ops => final (Spec.step α op).1 ops

def outs : Spec.State → List Op → List Out
  | _, [] => []
  | α, op :: ops => (Spec.step α op).2 :: outs (Spec.step α op).1 ops

theorem runFrom_eq : ∀ (ops : List Op) (α : Spec.State) (acc : List Out),
    Spec.runFrom α ops acc = (final α ops, acc.reverse ++ outs α ops)
  | [], α, acc => by simp [Spec.runFrom, final, outs]
  | op :: ops, α, acc => by
    simp only [Spec.runFrom, final, outs]
    rw [runFrom_eq ops]
    simp

theorem outs_append : ∀ (a b : List Op) (α : Spec.State), outs α (a ++ b) = outs α a ++ outs (final α a) b
  | [], b, α => rfl
  | op :: a, b, α => by simp [outs, final, outs_append a b]

theorem final_append : ∀ (a b : List Op) (α : Spec.State), final α (a ++ b) = final (final α a) b
  | [], b, α => rfl
  | op :: a, b, α => by simp [final, final_append a b]

theorem outs_length : ∀ (a : List Op) (α : Spec.State), (outs α a).length = a.length
  | [], α => rfl
  | op :: a, α => by simp [outs, outs_length a]

end Spec

theorem run_outs (D : Defects) (cat : Catalog) (ops : List Op) : (run D cat ops).2 = outsM D (State.init cat) ops := by
  simp [run, runFrom_eq]

theorem spec_run_outs (cat : Catalog) (ops : List Op) :
    (Spec.run cat ops).2 = Spec.outs (Spec.State.init cat) ops := by
  simp [Spec.run, Spec.runFrom_eq]

/-- the refinement, on output lists -/
theorem refine_outs (cat : Catalog) (ops : List Op) :
    outsM D0 (State.init cat) ops = Spec.outs (Spec.State.init cat) ops := by
  have := (runFrom_ok ops (State.init cat) (Spec.State.init cat) [] (init_rel cat)).1
  rw [runFrom_eq, Spec.runFrom_eq] at this
  simpa using this

theorem refine_run (cat : Catalog) (ops : List Op) : (run Defects.none cat ops).2 = (Spec.run cat ops).2 :=
  (runFrom_ok ops (State.init cat) (Spec.State.init cat) [] (init_rel cat)).1

/-- every reachable state of the MVCC machine satisfies the invariant and is related to the abstract state -/
theorem reach_rel (cat : Catalog) (ops : List Op) :
    Rel (finalM D0 (State.init cat) ops) (Spec.final (Spec.State.init cat) ops) := by
  have := (runFrom_ok ops (State.init cat) (Spec.State.init cat) [] (init_rel cat)).2
  rw [runFrom_eq, Spec.runFrom_eq] at this
  exact this

/-! ### repeatable reads (abstract machine) -/

/-- `op` is an operation of session `s` -/
def Op.ofSess (s : String) : Op → Bool
  | .begin s' => s' == s
  | .commit s' => s' == s
  | .rollback s' => s' == s
  | .drop s' => s' == s
  | .exec s' _ => s' == s
  | _ => false

def Stmt.isSel : Stmt → Bool
  | .sel _ _ => true
  | _ => false

/-- `op` is not a write or a transaction-control operation of session `s`:
    an operation of another session, an autocommit operation, or a read of `s` itself -/
def Op.keeps (s : String) : Op → Bool
  | .exec s' st => s' != s || st.isSel
  | op => !op.ofSess s

theorem planStmt_sel (cat : Catalog) (c j : Nat) (v : View) (t : String) (p : Option Pred) :
    (planStmt none cat c j v (.sel t p)).effs = [] ∧
      planStmt none cat c j v (.sel t p) = planStmt none cat 0 0 v (.sel t p) := by
  simp only [planStmt]
  split
  · simp
  · split <;> simp

theorem spec_stmt_sel (cat : Catalog) (c : Nat) (a : Spec.ATxn) (t : String) (p : Option Pred) :
    (Spec.stmt cat c a 0 (.sel t p)).1 = a := by
  unfold Spec.stmt
  simp only
  split
  · rfl
  · rw [(planStmt_sel cat c 0 a.view t p).1]
    cases a; simp

theorem spec_commitC_cat (α : Spec.State) (a : Spec.ATxn) : (α.commitC a).1.cat = α.cat := by
  unfold Spec.State.commitC
  split
  · split
    · rfl
    · unfold Spec.State.commitTxn; split <;> rfl
  · rfl

theorem spec_step_cat (α : Spec.State) (op : Op) : (Spec.step α op).1.cat = α.cat := by
  unfold Spec.step
  cases op <;> simp only [Spec.stepCore]
  · rename_i s
    cases lookup s α.sessions
    · rfl
    · exact spec_commitC_cat α _
  · rename_i s
    cases lookup s α.sessions <;> rfl
  · rename_i s
    cases lookup s α.sessions <;> rfl
  · rename_i s st
    cases lookup s α.sessions <;> rfl
  · rename_i st
    split
    · rfl
    · exact spec_commitC_cat α _
  · rename_i sts
    split
    · rfl
    · exact spec_commitC_cat α _

theorem keeps_session (α : Spec.State) (s : String) (op : Op) (h : op.keeps s = true) :
    lookup s (Spec.step α op).1.sessions = lookup s α.sessions := by
  unfold Spec.step
  cases op with
  | begin s' =>
    have hne : s ≠ s' := by
      simp [Op.keeps, Op.ofSess] at h; exact fun e => h e.symm
    simp only [Spec.stepCore]
    show lookup s ((s', _) :: erase s' α.sessions) = _
    rw [lookup_cons_if, lookup_erase_if]; simp [hne]
  | commit s' =>
    have hne : s ≠ s' := by
      simp [Op.keeps, Op.ofSess] at h; exact fun e => h e.symm
    simp only [Spec.stepCore]
    cases lookup s' α.sessions with
    | none => rfl
    | some a =>
      show lookup s (erase s' (α.commitC a).1.sessions) = _
      rw [spec_commitC_sessions, lookup_erase_if]; simp [hne]
  | rollback s' =>
    have hne : s ≠ s' := by
      simp [Op.keeps, Op.ofSess] at h; exact fun e => h e.symm
    simp only [Spec.stepCore]
    cases lookup s' α.sessions with
    | none => rfl
    | some a =>
      show lookup s (erase s' α.sessions) = _
      rw [lookup_erase_if]; simp [hne]
  | drop s' =>
    have hne : s ≠ s' := by
      simp [Op.keeps, Op.ofSess] at h; exact fun e => h e.symm
    simp only [Spec.stepCore]
    cases lookup s' α.sessions with
    | none => rfl
    | some a =>
      show lookup s (erase s' α.sessions) = _
      rw [lookup_erase_if]; simp [hne]
  | exec s' st =>
    simp only [Spec.stepCore]
    cases hl : lookup s' α.sessions with
    | none => rfl
    | some a =>
      show lookup s ((s', (Spec.stmt α.cat α.clock a 0 st).1) :: erase s' α.sessions) = _
      rw [lookup_cons_if, lookup_erase_if]
      by_cases hne : s = s'
      · subst hne
        simp only [Op.keeps, bne_self_eq_false, Bool.false_or] at h
        cases st with
        | sel t p => rw [spec_stmt_sel]; simp [hl]
        | ins _ _ => simp [Stmt.isSel] at h
        | upd _ _ _ _ _ => simp [Stmt.isSel] at h
        | del _ _ => simp [Stmt.isSel] at h
      · simp [hne]
  | auto st =>
    simp only [Spec.stepCore]
    split
    · rfl
    · show lookup s (α.commitC _).1.sessions = _
      rw [spec_commitC_sessions]
  | batch sts =>
    simp only [Spec.stepCore]
    split
    · rfl
    · show lookup s (α.commitC _).1.sessions = _
      rw [spec_commitC_sessions]
  | tick => rfl
  | nop => rfl

theorem keeps_final (s : String) : ∀ (ops : List Op) (α : Spec.State), (∀ op ∈ ops, op.keeps s = true) →
    lookup s (Spec.final α ops).sessions = lookup s α.sessions ∧ (Spec.final α ops).cat = α.cat
  | [], α, _ => ⟨rfl, rfl⟩
  | op :: ops, α, h => by
    obtain ⟨h1, h2⟩ := keeps_final s ops (Spec.step α op).1 (fun o ho => h o (List.mem_cons_of_mem _ ho))
    simp only [Spec.final]
    rw [h1, h2, keeps_session α s op (h op (List.mem_cons_self ..)), spec_step_cat]
    exact ⟨rfl, rfl⟩

/-- the answer to a read depends only on the catalog and on the reader's own transaction record -/
theorem spec_read_out (α : Spec.State) (s t : String) (p : Option Pred) :
    (Spec.step α (.exec s (.sel t p))).2 =
      match lookup s α.sessions with
      | none => .noSession
      | some a => .stmt (planStmt none α.cat 0 0 a.view (.sel t p)).out := by
  unfold Spec.step
  simp only [Spec.stepCore]
  cases lookup s α.sessions with
  | none => rfl
  | some a =>
    simp only [Spec.stmt]
    rw [(planStmt_sel α.cat α.clock 0 a.view t p).2]
    split <;> rfl

theorem getElem?_mid {l1 l2 : List β} {x : β} : (l1 ++ x :: l2)[l1.length]? = some x := by
  rw [List.getElem?_append_right (Nat.le_refl _)]; simp

theorem spec_repeatable (α : Spec.State) (pre mid : List Op) (s t : String) (p : Option Pred)
    (hmid : ∀ op ∈ mid, op.keeps s = true) :
    ∃ o, (Spec.outs α (pre ++ .exec s (.sel t p) :: (mid ++ [.exec s (.sel t p)])))[pre.length]? = some o ∧
         (Spec.outs α (pre ++ .exec s (.sel t p) :: (mid ++ [.exec s (.sel t p)])))[pre.length + 1 + mid.length]? = some o := by
  have hr : (Op.exec s (.sel t p)).keeps s = true := by simp [Op.keeps, Stmt.isSel]
  rw [Spec.outs_append]
  simp only [Spec.outs, Spec.outs_append]
  refine ⟨(Spec.step (Spec.final α pre) (.exec s (.sel t p))).2, ?_, ?_⟩
  · have := @getElem?_mid _ (Spec.outs α pre) (Spec.outs (Spec.step (Spec.final α pre) (.exec s (.sel t p))).1 mid ++
        [(Spec.step (Spec.final (Spec.step (Spec.final α pre) (.exec s (.sel t p))).1 mid) (.exec s (.sel t p))).2])
        (Spec.step (Spec.final α pre) (.exec s (.sel t p))).2
    rw [Spec.outs_length] at this
    exact this
  · have e : pre.length + 1 + mid.length = (Spec.outs α pre).length + (1 + mid.length) := by
      rw [Spec.outs_length]; omega
    rw [e, List.getElem?_append_right (by omega)]
    have e2 : (Spec.outs α pre).length + (1 + mid.length) - (Spec.outs α pre).length = mid.length + 1 := by omega
    rw [e2, List.getElem?_cons_succ]
    have := @getElem?_mid _ (Spec.outs (Spec.step (Spec.final α pre) (.exec s (.sel t p))).1 mid) []
      (Spec.step (Spec.final (Spec.step (Spec.final α pre) (.exec s (.sel t p))).1 mid) (.exec s (.sel t p))).2
    rw [Spec.outs_length] at this
    rw [this, spec_read_out, spec_read_out]
    obtain ⟨h1, h2⟩ := keeps_final s mid (Spec.step (Spec.final α pre) (.exec s (.sel t p))).1 hmid
    rw [h1, h2, keeps_session _ s _ hr, spec_step_cat]

/-! ### erasing a session that never commits (abstract machine) -/

/-- the history with every operation of session `s` replaced by `nop` -/
def eraseSess (s : String) (ops : List Op) : List Op := ops.map (fun op => if op.ofSess s then .nop else op)

/-- outputs with the positions of session `s` blanked -/
def maskOuts (s : String) : List Op → List Out → List Out
  | op :: ops, o :: os => (if op.ofSess s then Out.none else o) :: maskOuts s ops os
  | _, _ => []

/-- the two abstract states agree on everything except that session `s` does not exist in the second -/
structure EqExcept (s : String) (α1 α2 : Spec.State) : Prop where
  cat : α1.cat = α2.cat
  committed : α1.committed = α2.committed
  log : α1.log = α2.log
  clock : α1.clock = α2.clock
  others : ∀ n, n ≠ s → lookup n α1.sessions = lookup n α2.sessions
  gone : lookup s α2.sessions = none

theorem spec_commitC_clock (α : Spec.State) (a : Spec.ATxn) : (α.commitC a).1.clock = α.clock := by
  unfold Spec.State.commitC
  split
  · split
    · rfl
    · unfold Spec.State.commitTxn; split <;> rfl
  · rfl

theorem spec_commit_congr (α1 α2 : Spec.State) (a : Spec.ATxn) (hcat : α1.cat = α2.cat)
    (hc : α1.committed = α2.committed) (hl : α1.log = α2.log) :
    (α1.commitC a).2 = (α2.commitC a).2 ∧ (α1.commitC a).1.committed = (α2.commitC a).1.committed ∧
    (α1.commitC a).1.log = (α2.commitC a).1.log ∧
    (α1.commitC a).1.cat = α1.cat ∧ (α2.commitC a).1.cat = α2.cat ∧
    (α1.commitC a).1.clock = α1.clock ∧ (α2.commitC a).1.clock = α2.clock := by
  have h0 : (α1.commitTxn a).2 = (α2.commitTxn a).2 ∧ (α1.commitTxn a).1.committed = (α2.commitTxn a).1.committed ∧
      (α1.commitTxn a).1.log = (α2.commitTxn a).1.log := by
    unfold Spec.State.commitTxn
    rw [hl]
    split
    · exact ⟨rfl, hc, hl⟩
    · simp [hc]
  obtain ⟨q1, q2, q3⟩ := h0
  refine ⟨?_, ?_, ?_, spec_commitC_cat α1 a, spec_commitC_cat α2 a, spec_commitC_clock α1 a, spec_commitC_clock α2 a⟩
  · unfold Spec.State.commitC; rw [q1, q2, hcat]
    split
    · split <;> rfl
    · rfl
  · unfold Spec.State.commitC; rw [q1, q2, hcat]
    split
    · split
      · exact hc
      · exact q2
    · exact hc
  · unfold Spec.State.commitC; rw [q1, q2, hcat]
    split
    · split
      · exact hl
      · exact q3
    · exact hl

/-- an operation of the erased session changes nothing but that session -/
theorem erase_own (s : String) (α1 α2 : Spec.State) (h : EqExcept s α1 α2) (op : Op) (hof : op.ofSess s = true)
    (hnc : op ≠ .commit s) : EqExcept s (Spec.step α1 op).1 (Spec.step α2 .nop).1 := by
  have key : ∀ (sess : List (String × Spec.ATxn)), (∀ n, n ≠ s → lookup n sess = lookup n α1.sessions) →
      EqExcept s { α1 with sessions := sess, clock := α1.clock + 1 } (Spec.step α2 .nop).1 := by
    intro sess e5
    refine ⟨h.cat, h.committed, h.log, ?_, ?_, h.gone⟩
    · show α1.clock + 1 = α2.clock + 1; rw [h.clock]
    · intro n hn; show lookup n sess = lookup n α2.sessions; rw [e5 n hn]; exact h.others n hn
  unfold Spec.step
  cases op with
  | begin s' =>
    have e : s' = s := by simpa [Op.ofSess] using hof
    subst e
    simp only [Spec.stepCore]
    apply key
    intro n hn
    rw [lookup_cons_if, lookup_erase_if]; simp [hn]
  | commit s' =>
    have e : s' = s := by simpa [Op.ofSess] using hof
    subst e; exact (hnc rfl).elim
  | rollback s' =>
    have e : s' = s := by simpa [Op.ofSess] using hof
    subst e
    simp only [Spec.stepCore]
    cases lookup s' α1.sessions with
    | none => exact key α1.sessions (fun _ _ => rfl)
    | some a =>
      apply key
      intro n hn
      rw [lookup_erase_if]; simp [hn]
  | drop s' =>
    have e : s' = s := by simpa [Op.ofSess] using hof
    subst e
    simp only [Spec.stepCore]
    cases lookup s' α1.sessions with
    | none => exact key α1.sessions (fun _ _ => rfl)
    | some a =>
      apply key
      intro n hn
      rw [lookup_erase_if]; simp [hn]
  | exec s' st =>
    have e : s' = s := by simpa [Op.ofSess] using hof
    subst e
    simp only [Spec.stepCore]
    cases lookup s' α1.sessions with
    | none => exact key α1.sessions (fun _ _ => rfl)
    | some a =>
      apply key
      intro n hn
      rw [lookup_cons_if, lookup_erase_if]; simp [hn]
  | auto st => simp [Op.ofSess] at hof
  | batch sts => simp [Op.ofSess] at hof
  | tick => simp [Op.ofSess] at hof
  | nop => simp [Op.ofSess] at hof

/-- an operation of another session (or an autocommit operation) does the same in both states -/
theorem erase_other (s : String) (α1 α2 : Spec.State) (h : EqExcept s α1 α2) (op : Op) (hof : op.ofSess s = false) :
    (Spec.step α1 op).2 = (Spec.step α2 op).2 ∧ EqExcept s (Spec.step α1 op).1 (Spec.step α2 op).1 := by
  obtain ⟨c1, m1, l1, s1, k1⟩ := α1
  obtain ⟨c2, m2, l2, s2, k2⟩ := α2
  obtain ⟨e1, e2, e3, e4, hoth, hgone⟩ := h
  simp only at e1 e2 e3 e4 hoth hgone
  subst e1 e2 e3 e4
  -- sessions after an update of key `n ≠ s`
  have upd : ∀ (n : String) (x : Option Spec.ATxn) (β1 β2 : List (String × Spec.ATxn)), n ≠ s →
      (∀ m, lookup m β1 = if m = n then x else lookup m s1) →
      (∀ m, lookup m β2 = if m = n then x else lookup m s2) →
      (∀ m, m ≠ s → lookup m β1 = lookup m β2) ∧ lookup s β2 = none := by
    intro n x β1 β2 hn h1 h2
    refine ⟨?_, ?_⟩
    · intro m hm
      rw [h1, h2]
      by_cases e : m = n
      · simp [e]
      · simp [e, hoth m hm]
    · rw [h2]
      have : s ≠ n := fun e => hn e.symm
      simp [this, hgone]
  unfold Spec.step
  cases op with
  | begin n =>
    have hn : n ≠ s := by simpa [Op.ofSess] using hof
    simp only [Spec.stepCore]
    obtain ⟨g1, g2⟩ := upd n (some (Spec.State.beginTxn ⟨c1, m1, l1, s1, k1⟩))
      ((n, Spec.State.beginTxn ⟨c1, m1, l1, s1, k1⟩) :: erase n s1)
      ((n, Spec.State.beginTxn ⟨c1, m1, l1, s2, k1⟩) :: erase n s2) hn
      (fun m => by rw [lookup_cons_if, lookup_erase_if]; by_cases e : m = n <;> simp [e])
      (fun m => by rw [lookup_cons_if, lookup_erase_if]; by_cases e : m = n <;> simp [e, Spec.State.beginTxn])
    exact ⟨trivial, ⟨rfl, rfl, rfl, rfl, g1, g2⟩⟩
  | commit n =>
    have hn : n ≠ s := by simpa [Op.ofSess] using hof
    simp only [Spec.stepCore]
    have hl := hoth n hn
    cases hl1 : lookup n s1 with
    | none =>
      rw [hl1] at hl
      rw [← hl]
      exact ⟨rfl, ⟨rfl, rfl, rfl, rfl, hoth, hgone⟩⟩
    | some a =>
      rw [hl1] at hl
      rw [← hl]
      dsimp only
      obtain ⟨q1, q2, q3, q4, q5, q6, q7⟩ :=
        spec_commit_congr ⟨c1, m1, l1, s1, k1⟩ ⟨c1, m1, l1, s2, k1⟩ a rfl rfl rfl
      obtain ⟨g1, g2⟩ := upd n none (erase n (Spec.State.commitC ⟨c1, m1, l1, s1, k1⟩ a).1.sessions)
        (erase n (Spec.State.commitC ⟨c1, m1, l1, s2, k1⟩ a).1.sessions) hn
        (fun m => by rw [spec_commitC_sessions, lookup_erase_if])
        (fun m => by rw [spec_commitC_sessions, lookup_erase_if])
      refine ⟨by rw [q1], ⟨?_, q2, q3, ?_, g1, g2⟩⟩
      · show (Spec.State.commitC _ a).1.cat = (Spec.State.commitC _ a).1.cat
        rw [q4, q5]
      · show (Spec.State.commitC _ a).1.clock + 1 = (Spec.State.commitC _ a).1.clock + 1
        rw [q6, q7]
  | rollback n =>
    have hn : n ≠ s := by simpa [Op.ofSess] using hof
    simp only [Spec.stepCore]
    have hl := hoth n hn
    cases hl1 : lookup n s1 with
    | none =>
      rw [hl1] at hl
      rw [← hl]
      exact ⟨rfl, ⟨rfl, rfl, rfl, rfl, hoth, hgone⟩⟩
    | some a =>
      rw [hl1] at hl
      rw [← hl]
      obtain ⟨g1, g2⟩ := upd n none (erase n s1) (erase n s2) hn
        (fun m => by rw [lookup_erase_if]) (fun m => by rw [lookup_erase_if])
      exact ⟨rfl, ⟨rfl, rfl, rfl, rfl, g1, g2⟩⟩
  | drop n =>
    have hn : n ≠ s := by simpa [Op.ofSess] using hof
    simp only [Spec.stepCore]
    have hl := hoth n hn
    cases hl1 : lookup n s1 with
    | none =>
      rw [hl1] at hl
      rw [← hl]
      exact ⟨rfl, ⟨rfl, rfl, rfl, rfl, hoth, hgone⟩⟩
    | some a =>
      rw [hl1] at hl
      rw [← hl]
      obtain ⟨g1, g2⟩ := upd n none (erase n s1) (erase n s2) hn
        (fun m => by rw [lookup_erase_if]) (fun m => by rw [lookup_erase_if])
      exact ⟨rfl, ⟨rfl, rfl, rfl, rfl, g1, g2⟩⟩
  | exec n st =>
    have hn : n ≠ s := by simpa [Op.ofSess] using hof
    simp only [Spec.stepCore]
    have hl := hoth n hn
    cases hl1 : lookup n s1 with
    | none =>
      rw [hl1] at hl
      rw [← hl]
      exact ⟨rfl, ⟨rfl, rfl, rfl, rfl, hoth, hgone⟩⟩
    | some a =>
      rw [hl1] at hl
      rw [← hl]
      obtain ⟨g1, g2⟩ := upd n (some (Spec.stmt c1 k1 a 0 st).1)
        ((n, (Spec.stmt c1 k1 a 0 st).1) :: erase n s1) ((n, (Spec.stmt c1 k1 a 0 st).1) :: erase n s2) hn
        (fun m => by rw [lookup_cons_if, lookup_erase_if]; by_cases e : m = n <;> simp [e])
        (fun m => by rw [lookup_cons_if, lookup_erase_if]; by_cases e : m = n <;> simp [e])
      exact ⟨rfl, ⟨rfl, rfl, rfl, rfl, g1, g2⟩⟩
  | auto st =>
    simp only [Spec.stepCore]
    have hb : Spec.State.beginTxn ⟨c1, m1, l1, s1, k1⟩ = Spec.State.beginTxn ⟨c1, m1, l1, s2, k1⟩ := rfl
    rw [hb]
    split
    · exact ⟨rfl, ⟨rfl, rfl, rfl, rfl, hoth, hgone⟩⟩
    · dsimp only
      obtain ⟨q1, q2, q3, q4, q5, q6, q7⟩ :=
        spec_commit_congr ⟨c1, m1, l1, s1, k1⟩ ⟨c1, m1, l1, s2, k1⟩
          (Spec.stmt c1 k1 (Spec.State.beginTxn ⟨c1, m1, l1, s2, k1⟩) 0 st).1 rfl rfl rfl
      refine ⟨by rw [q1], ⟨?_, q2, q3, ?_, ?_, ?_⟩⟩
      · show (Spec.State.commitC _ _).1.cat = (Spec.State.commitC _ _).1.cat
        rw [q4, q5]
      · show (Spec.State.commitC _ _).1.clock + 1 = (Spec.State.commitC _ _).1.clock + 1
        rw [q6, q7]
      · intro m hm
        show lookup m (Spec.State.commitC _ _).1.sessions = lookup m (Spec.State.commitC _ _).1.sessions
        rw [spec_commitC_sessions, spec_commitC_sessions]; exact hoth m hm
      · show lookup s (Spec.State.commitC _ _).1.sessions = none
        rw [spec_commitC_sessions]; exact hgone
  | batch sts =>
    simp only [Spec.stepCore]
    have hb : Spec.State.beginTxn ⟨c1, m1, l1, s1, k1⟩ = Spec.State.beginTxn ⟨c1, m1, l1, s2, k1⟩ := rfl
    rw [hb]
    split
    · exact ⟨rfl, ⟨rfl, rfl, rfl, rfl, hoth, hgone⟩⟩
    · rename_i a' outs heq
      dsimp only
      obtain ⟨q1, q2, q3, q4, q5, q6, q7⟩ :=
        spec_commit_congr ⟨c1, m1, l1, s1, k1⟩ ⟨c1, m1, l1, s2, k1⟩ a' rfl rfl rfl
      refine ⟨by rw [q1], ⟨?_, q2, q3, ?_, ?_, ?_⟩⟩
      · show (Spec.State.commitC _ _).1.cat = (Spec.State.commitC _ _).1.cat
        rw [q4, q5]
      · show (Spec.State.commitC _ _).1.clock + 1 = (Spec.State.commitC _ _).1.clock + 1
        rw [q6, q7]
      · intro m hm
        show lookup m (Spec.State.commitC _ _).1.sessions = lookup m (Spec.State.commitC _ _).1.sessions
        rw [spec_commitC_sessions, spec_commitC_sessions]; exact hoth m hm
      · show lookup s (Spec.State.commitC _ _).1.sessions = none
        rw [spec_commitC_sessions]; exact hgone
  | tick => exact ⟨rfl, ⟨rfl, rfl, rfl, rfl, hoth, hgone⟩⟩
  | nop => exact ⟨rfl, ⟨rfl, rfl, rfl, rfl, hoth, hgone⟩⟩

theorem spec_erase (s : String) : ∀ (ops : List Op) (α1 α2 : Spec.State), EqExcept s α1 α2 →
    (∀ op ∈ ops, op ≠ .commit s) → maskOuts s ops (Spec.outs α1 ops) = Spec.outs α2 (eraseSess s ops)
  | [], _, _, _, _ => rfl
  | op :: ops, α1, α2, h, hnc => by
    simp only [eraseSess, List.map_cons, Spec.outs, maskOuts]
    have hnc' : ∀ o ∈ ops, o ≠ .commit s := fun o ho => hnc o (List.mem_cons_of_mem _ ho)
    cases hof : op.ofSess s with
    | true =>
      simp only [if_true]
      have h' := erase_own s α1 α2 h op hof (hnc op (List.mem_cons_self ..))
      have ih := spec_erase s ops _ _ h' hnc'
      simp only [eraseSess] at ih
      rw [ih]
      rfl
    | false =>
      simp only [Bool.false_eq_true, if_false]
      obtain ⟨ho, h'⟩ := erase_other s α1 α2 h op hof
      have ih := spec_erase s ops _ _ h' hnc'
      simp only [eraseSess] at ih
      rw [ih, ho]

theorem eqExcept_init (s : String) (cat : Catalog) : EqExcept s (Spec.State.init cat) (Spec.State.init cat) :=
  ⟨rfl, rfl, rfl, rfl, fun _ _ => rfl, rfl⟩

/-! ### erasing ONE transaction that does not commit: the states themselves coincide once the session is gone -/

theorem erase_erase_self (s : String) : ∀ (l : List (String × β)), erase s (erase s l) = erase s l
  | [] => rfl
  | (k, v) :: l => by
    by_cases h : k = s
    · simp [erase, h, erase_erase_self s l]
    · simp [erase, h, erase_erase_self s l]

theorem erase_comm (a b : String) : ∀ (l : List (String × β)), erase a (erase b l) = erase b (erase a l)
  | [] => rfl
  | (k, v) :: l => by
    have ih := erase_comm a b l
    by_cases h1 : k = a
    · subst h1
      by_cases h2 : k = b
      · subst h2; rfl
      · simp [erase, h2, ih]
    · by_cases h2 : k = b
      · subst h2; simp [erase, h1, ih]
      · simp [erase, h1, h2, ih]

theorem erase_absent (s : String) : ∀ (l : List (String × β)), lookup s l = none → erase s l = l
  | [], _ => rfl
  | (k, v) :: l, h => by
    by_cases h1 : k = s
    · simp [lookup, h1] at h
    · simp only [lookup, beq_iff_eq, h1, if_false] at h
      simp [erase, h1, erase_absent s l h]

theorem erase_cons_ne (s n : String) (v : β) (l : List (String × β)) (h : n ≠ s) :
    erase s ((n, v) :: l) = (n, v) :: erase s l := by simp [erase, h]

theorem erase_cons_self (s : String) (v : β) (l : List (String × β)) : erase s ((s, v) :: l) = erase s l := by
  simp [erase]

/-- `α` without session `s` -/
def dropSess (s : String) (α : Spec.State) : Spec.State := { α with sessions := erase s α.sessions }

theorem dropSess_absent (s : String) (α : Spec.State) (h : lookup s α.sessions = none) : dropSess s α = α := by
  unfold dropSess; rw [erase_absent s _ h]

theorem commitC_dropSess (s : String) (α : Spec.State) (a : Spec.ATxn) :
    (dropSess s α).commitC a = (dropSess s (α.commitC a).1, (α.commitC a).2) := by
  unfold Spec.State.commitC Spec.State.commitTxn dropSess
  by_cases hc : Spec.conflict α.log a = true
  · simp [hc]
  · simp only [hc, Bool.false_eq_true, if_false, if_true]
    split <;> rfl

/-- an operation of another session (or an autocommit operation) does not care whether session `s` exists -/
theorem step_dropSess_other (s : String) (α : Spec.State) (op : Op) (hof : op.ofSess s = false) :
    Spec.step (dropSess s α) op = (dropSess s (Spec.step α op).1, (Spec.step α op).2) := by
  unfold Spec.step
  cases op with
  | begin n =>
    have hn : n ≠ s := by simpa [Op.ofSess] using hof
    simp only [Spec.stepCore, dropSess, erase_cons_ne s n _ _ hn, erase_comm n s]
    rfl
  | commit n =>
    have hn : n ≠ s := by simpa [Op.ofSess] using hof
    simp only [Spec.stepCore]
    have hl : lookup n (dropSess s α).sessions = lookup n α.sessions := lookup_erase_ne s n _ hn
    rw [hl]
    cases lookup n α.sessions with
    | none => rfl
    | some a =>
      simp only [commitC_dropSess]
      simp only [dropSess, erase_comm n s]
  | rollback n =>
    have hn : n ≠ s := by simpa [Op.ofSess] using hof
    simp only [Spec.stepCore]
    have hl : lookup n (dropSess s α).sessions = lookup n α.sessions := lookup_erase_ne s n _ hn
    rw [hl]
    cases lookup n α.sessions with
    | none => rfl
    | some a => simp only [dropSess, erase_comm n s]
  | drop n =>
    have hn : n ≠ s := by simpa [Op.ofSess] using hof
    simp only [Spec.stepCore]
    have hl : lookup n (dropSess s α).sessions = lookup n α.sessions := lookup_erase_ne s n _ hn
    rw [hl]
    cases lookup n α.sessions with
    | none => rfl
    | some a => simp only [dropSess, erase_comm n s]
  | exec n st =>
    have hn : n ≠ s := by simpa [Op.ofSess] using hof
    simp only [Spec.stepCore]
    have hl : lookup n (dropSess s α).sessions = lookup n α.sessions := lookup_erase_ne s n _ hn
    rw [hl]
    cases lookup n α.sessions with
    | none => rfl
    | some a => simp only [dropSess, erase_cons_ne s n _ _ hn, erase_comm n s]
  | auto st =>
    simp only [Spec.stepCore]
    have hb : (dropSess s α).beginTxn = α.beginTxn := rfl
    have hcat : (dropSess s α).cat = α.cat := rfl
    have hclk : (dropSess s α).clock = α.clock := rfl
    rw [hb, hcat, hclk]
    split
    · rfl
    · simp only [commitC_dropSess]; rfl
  | batch sts =>
    simp only [Spec.stepCore]
    have hb : (dropSess s α).beginTxn = α.beginTxn := rfl
    have hcat : (dropSess s α).cat = α.cat := rfl
    have hclk : (dropSess s α).clock = α.clock := rfl
    rw [hb, hcat, hclk]
    split
    · rfl
    · simp only [commitC_dropSess]; rfl
  | tick => rfl
  | nop => rfl

/-- an operation of session `s` other than a commit changes nothing but session `s` -/
theorem step_dropSess_own (s : String) (α : Spec.State) (op : Op) (hof : op.ofSess s = true) (hnc : op ≠ .commit s) :
    (Spec.step (dropSess s α) .nop).1 = dropSess s (Spec.step α op).1 := by
  unfold Spec.step
  cases op with
  | begin s' =>
    have e : s' = s := by simpa [Op.ofSess] using hof
    subst e
    simp only [Spec.stepCore, dropSess, erase_cons_self, erase_erase_self]
  | commit s' =>
    have e : s' = s := by simpa [Op.ofSess] using hof
    subst e; exact (hnc rfl).elim
  | rollback s' =>
    have e : s' = s := by simpa [Op.ofSess] using hof
    subst e
    simp only [Spec.stepCore]
    cases lookup s' α.sessions with
    | none => rfl
    | some a => simp only [dropSess, erase_erase_self]
  | drop s' =>
    have e : s' = s := by simpa [Op.ofSess] using hof
    subst e
    simp only [Spec.stepCore]
    cases lookup s' α.sessions with
    | none => rfl
    | some a => simp only [dropSess, erase_erase_self]
  | exec s' st =>
    have e : s' = s := by simpa [Op.ofSess] using hof
    subst e
    simp only [Spec.stepCore]
    cases lookup s' α.sessions with
    | none => rfl
    | some a => simp only [dropSess, erase_cons_self, erase_erase_self]
  | auto st => simp [Op.ofSess] at hof
  | batch sts => simp [Op.ofSess] at hof
  | tick => simp [Op.ofSess] at hof
  | nop => simp [Op.ofSess] at hof

/-- the erased history run without session `s` ends in the state of the full history without session `s`, and answers
    the same outside session `s` -/
theorem spec_erase_from (s : String) : ∀ (ops : List Op) (α : Spec.State), (∀ op ∈ ops, op ≠ .commit s) →
    Spec.final (dropSess s α) (eraseSess s ops) = dropSess s (Spec.final α ops) ∧
    Spec.outs (dropSess s α) (eraseSess s ops) = maskOuts s ops (Spec.outs α ops)
  | [], _, _ => ⟨rfl, rfl⟩
  | op :: ops, α, hnc => by
    have hnc' : ∀ o ∈ ops, o ≠ .commit s := fun o ho => hnc o (List.mem_cons_of_mem _ ho)
    simp only [eraseSess, List.map_cons, Spec.outs, Spec.final, maskOuts]
    cases hof : op.ofSess s with
    | true =>
      simp only [if_true]
      have h1 := step_dropSess_own s α op hof (hnc op (List.mem_cons_self ..))
      obtain ⟨ih1, ih2⟩ := spec_erase_from s ops (Spec.step α op).1 hnc'
      simp only [eraseSess] at ih1 ih2
      rw [h1, ih1, ih2]
      exact ⟨rfl, rfl⟩
    | false =>
      simp only [Bool.false_eq_true, if_false]
      have h1 := step_dropSess_other s α op hof
      obtain ⟨ih1, ih2⟩ := spec_erase_from s ops (Spec.step α op).1 hnc'
      simp only [eraseSess] at ih1 ih2
      rw [h1]
      simp only
      rw [ih1, ih2]
      exact ⟨rfl, rfl⟩

/-! ### … also when the transaction ends in a commit that is REFUSED -/

def Op.isCommitOf (s : String) : Op → Bool
  | .commit s' => s' == s
  | _ => false

/-- no commit of session `s` among `ops` was answered with `ok` (`outs` = the outputs of `ops`) -/
def noCommitOk (s : String) : List Op → List Out → Bool
  | op :: ops, o :: os => !(op.isCommitOf s && o == .ok) && noCommitOk s ops os
  | _, _ => true

theorem spec_commitC_refused_state (α : Spec.State) (a : Spec.ATxn) (e : Err)
    (h : (α.commitC a).2 = some e) : (α.commitC a).1 = α := by
  unfold Spec.State.commitC at h ⊢
  split
  · rename_i h1
    simp only [h1, if_true] at h
    split
    · rfl
    · rename_i h2; simp [h2] at h
  · rfl

/-- an operation of session `s` that is not a successful commit changes nothing but session `s` -/
theorem step_dropSess_own' (s : String) (α : Spec.State) (op : Op) (hof : op.ofSess s = true)
    (hnc : (op.isCommitOf s && (Spec.step α op).2 == .ok) = false) :
    (Spec.step (dropSess s α) .nop).1 = dropSess s (Spec.step α op).1 := by
  cases op with
  | commit s' =>
    have e : s' = s := by simpa [Op.ofSess] using hof
    subst e
    unfold Spec.step at hnc ⊢
    simp only [Spec.stepCore] at hnc ⊢
    cases hl : lookup s' α.sessions with
    | none => rfl
    | some a =>
      rw [hl] at hnc
      simp only at hnc ⊢
      cases hr : (α.commitC a).2 with
      | none =>
        exfalso
        rw [hr] at hnc
        simp [Op.isCommitOf, outOfCommit] at hnc
      | some e =>
        have hst := spec_commitC_refused_state α a e hr
        simp only [hst, dropSess, erase_erase_self]
  | begin s' => exact step_dropSess_own s α _ hof (by simp)
  | rollback s' => exact step_dropSess_own s α _ hof (by simp)
  | drop s' => exact step_dropSess_own s α _ hof (by simp)
  | exec s' st => exact step_dropSess_own s α _ hof (by simp)
  | auto st => simp [Op.ofSess] at hof
  | batch sts => simp [Op.ofSess] at hof
  | tick => simp [Op.ofSess] at hof
  | nop => simp [Op.ofSess] at hof

theorem spec_erase_from' (s : String) : ∀ (ops : List Op) (α : Spec.State),
    noCommitOk s ops (Spec.outs α ops) = true →
    Spec.final (dropSess s α) (eraseSess s ops) = dropSess s (Spec.final α ops) ∧
    Spec.outs (dropSess s α) (eraseSess s ops) = maskOuts s ops (Spec.outs α ops)
  | [], _, _ => ⟨rfl, rfl⟩
  | op :: ops, α, hnc => by
    simp only [Spec.outs, noCommitOk, Bool.and_eq_true, Bool.not_eq_true'] at hnc
    obtain ⟨hnc1, hnc'⟩ := hnc
    simp only [eraseSess, List.map_cons, Spec.outs, Spec.final, maskOuts]
    cases hof : op.ofSess s with
    | true =>
      simp only [if_true]
      have h1 := step_dropSess_own' s α op hof hnc1
      obtain ⟨ih1, ih2⟩ := spec_erase_from' s ops (Spec.step α op).1 hnc'
      simp only [eraseSess] at ih1 ih2
      rw [h1, ih1, ih2]
      exact ⟨rfl, rfl⟩
    | false =>
      simp only [Bool.false_eq_true, if_false]
      have h1 := step_dropSess_other s α op hof
      obtain ⟨ih1, ih2⟩ := spec_erase_from' s ops (Spec.step α op).1 hnc'
      simp only [eraseSess] at ih1 ih2
      rw [h1]
      simp only
      rw [ih1, ih2]
      exact ⟨rfl, rfl⟩

/-! ### states that differ in the ORDER of their session list answer alike -/

/-- the two abstract states agree on everything; their session lists agree as maps -/
structure EqSess (α1 α2 : Spec.State) : Prop where
  cat : α1.cat = α2.cat
  committed : α1.committed = α2.committed
  log : α1.log = α2.log
  clock : α1.clock = α2.clock
  sess : ∀ n, lookup n α1.sessions = lookup n α2.sessions

theorem EqSess.refl (α : Spec.State) : EqSess α α := ⟨rfl, rfl, rfl, rfl, fun _ => rfl⟩

theorem step_eqSess (α1 α2 : Spec.State) (h : EqSess α1 α2) (op : Op) :
    (Spec.step α1 op).2 = (Spec.step α2 op).2 ∧ EqSess (Spec.step α1 op).1 (Spec.step α2 op).1 := by
  obtain ⟨c1, m1, l1, s1, k1⟩ := α1
  obtain ⟨c2, m2, l2, s2, k2⟩ := α2
  obtain ⟨e1, e2, e3, e4, hs⟩ := h
  simp only at e1 e2 e3 e4 hs
  subst e1 e2 e3 e4
  have hcons : ∀ (n : String) (x : Spec.ATxn) (m : String),
      lookup m ((n, x) :: erase n s1) = lookup m ((n, x) :: erase n s2) := by
    intro n x m; rw [lookup_cons_if, lookup_cons_if, lookup_erase_if, lookup_erase_if, hs m]
  have hers : ∀ (n m : String), lookup m (erase n s1) = lookup m (erase n s2) := by
    intro n m; rw [lookup_erase_if, lookup_erase_if, hs m]
  unfold Spec.step
  cases op with
  | begin n =>
    simp only [Spec.stepCore]
    exact ⟨trivial, ⟨rfl, rfl, rfl, rfl, hcons n _⟩⟩
  | commit n =>
    simp only [Spec.stepCore]
    rw [hs n]
    cases lookup n s2 with
    | none => exact ⟨rfl, ⟨rfl, rfl, rfl, rfl, hs⟩⟩
    | some a =>
      dsimp only
      obtain ⟨q1, q2, q3, q4, q5, q6, q7⟩ :=
        spec_commit_congr ⟨c1, m1, l1, s1, k1⟩ ⟨c1, m1, l1, s2, k1⟩ a rfl rfl rfl
      refine ⟨by rw [q1], ⟨?_, q2, q3, ?_, ?_⟩⟩
      · show (Spec.State.commitC _ a).1.cat = (Spec.State.commitC _ a).1.cat
        rw [q4, q5]
      · show (Spec.State.commitC _ a).1.clock + 1 = (Spec.State.commitC _ a).1.clock + 1
        rw [q6, q7]
      · intro m
        show lookup m (erase n (Spec.State.commitC _ a).1.sessions) = lookup m (erase n (Spec.State.commitC _ a).1.sessions)
        rw [spec_commitC_sessions, spec_commitC_sessions]; exact hers n m
  | rollback n =>
    simp only [Spec.stepCore]
    rw [hs n]
    cases lookup n s2 with
    | none => exact ⟨rfl, ⟨rfl, rfl, rfl, rfl, hs⟩⟩
    | some a => exact ⟨rfl, ⟨rfl, rfl, rfl, rfl, hers n⟩⟩
  | drop n =>
    simp only [Spec.stepCore]
    rw [hs n]
    cases lookup n s2 with
    | none => exact ⟨rfl, ⟨rfl, rfl, rfl, rfl, hs⟩⟩
    | some a => exact ⟨rfl, ⟨rfl, rfl, rfl, rfl, hers n⟩⟩
  | exec n st =>
    simp only [Spec.stepCore]
    rw [hs n]
    cases lookup n s2 with
    | none => exact ⟨rfl, ⟨rfl, rfl, rfl, rfl, hs⟩⟩
    | some a => exact ⟨rfl, ⟨rfl, rfl, rfl, rfl, hcons n _⟩⟩
  | auto st =>
    simp only [Spec.stepCore]
    have hb : Spec.State.beginTxn ⟨c1, m1, l1, s1, k1⟩ = Spec.State.beginTxn ⟨c1, m1, l1, s2, k1⟩ := rfl
    rw [hb]
    split
    · exact ⟨rfl, ⟨rfl, rfl, rfl, rfl, hs⟩⟩
    · dsimp only
      obtain ⟨q1, q2, q3, q4, q5, q6, q7⟩ :=
        spec_commit_congr ⟨c1, m1, l1, s1, k1⟩ ⟨c1, m1, l1, s2, k1⟩
          (Spec.stmt c1 k1 (Spec.State.beginTxn ⟨c1, m1, l1, s2, k1⟩) 0 st).1 rfl rfl rfl
      refine ⟨by rw [q1], ⟨?_, q2, q3, ?_, ?_⟩⟩
      · show (Spec.State.commitC _ _).1.cat = (Spec.State.commitC _ _).1.cat
        rw [q4, q5]
      · show (Spec.State.commitC _ _).1.clock + 1 = (Spec.State.commitC _ _).1.clock + 1
        rw [q6, q7]
      · intro m
        show lookup m (Spec.State.commitC _ _).1.sessions = lookup m (Spec.State.commitC _ _).1.sessions
        rw [spec_commitC_sessions, spec_commitC_sessions]; exact hs m
  | batch sts =>
    simp only [Spec.stepCore]
    have hb : Spec.State.beginTxn ⟨c1, m1, l1, s1, k1⟩ = Spec.State.beginTxn ⟨c1, m1, l1, s2, k1⟩ := rfl
    rw [hb]
    split
    · exact ⟨rfl, ⟨rfl, rfl, rfl, rfl, hs⟩⟩
    · rename_i a' outs heq
      dsimp only
      obtain ⟨q1, q2, q3, q4, q5, q6, q7⟩ :=
        spec_commit_congr ⟨c1, m1, l1, s1, k1⟩ ⟨c1, m1, l1, s2, k1⟩ a' rfl rfl rfl
      refine ⟨by rw [q1], ⟨?_, q2, q3, ?_, ?_⟩⟩
      · show (Spec.State.commitC _ _).1.cat = (Spec.State.commitC _ _).1.cat
        rw [q4, q5]
      · show (Spec.State.commitC _ _).1.clock + 1 = (Spec.State.commitC _ _).1.clock + 1
        rw [q6, q7]
      · intro m
        show lookup m (Spec.State.commitC _ _).1.sessions = lookup m (Spec.State.commitC _ _).1.sessions
        rw [spec_commitC_sessions, spec_commitC_sessions]; exact hs m
  | tick => exact ⟨rfl, ⟨rfl, rfl, rfl, rfl, hs⟩⟩
  | nop => exact ⟨rfl, ⟨rfl, rfl, rfl, rfl, hs⟩⟩

theorem outs_eqSess : ∀ (ops : List Op) (α1 α2 : Spec.State), EqSess α1 α2 → Spec.outs α1 ops = Spec.outs α2 ops
  | [], _, _, _ => rfl
  | op :: ops, α1, α2, h => by
    obtain ⟨ho, h'⟩ := step_eqSess α1 α2 h op
    simp only [Spec.outs, ho, outs_eqSess ops _ _ h']

/-- a statement that fails inside a session leaves a state that answers like the one a `nop` leaves -/
theorem spec_failed_exec_eqSess (α : Spec.State) (s : String) (st : Stmt) (e : Err)
    (h : (Spec.step α (.exec s st)).2 = .stmt (.err e)) :
    EqSess (Spec.step α (.exec s st)).1 (Spec.step α .nop).1 := by
  unfold Spec.step at h ⊢
  simp only [Spec.stepCore] at h ⊢
  cases hl : lookup s α.sessions with
  | none => exact EqSess.refl _
  | some a =>
    rw [hl] at h
    simp only [Out.stmt.injEq] at h
    refine ⟨rfl, rfl, rfl, rfl, ?_⟩
    intro n
    show lookup n ((s, (Spec.stmt α.cat α.clock a 0 st).1) :: erase s α.sessions) = lookup n α.sessions
    have ha : (Spec.stmt α.cat α.clock a 0 st).1 = a := by
      unfold Spec.stmt
      simp only
      have : (planStmt none α.cat α.clock 0 a.view st).out.isErr = true := by
        unfold Spec.stmt at h; simp only at h
        split at h <;> (simp only at h; rw [h]; rfl)
      simp [this]
    rw [ha, lookup_cons_if, lookup_erase_if]
    by_cases e' : n = s
    · subst e'; simp [hl]
    · simp [e']

/-- the operation answered with an error: a failing statement (in a session or autocommit) or a failing batch -/
def Out.failed : Out → Bool
  | .stmt (.err _) => true
  | .batchErr _ => true
  | _ => false

/-! ### stamps of a transaction that a snapshot does not see are dead weight -/

/-- the store with every version created by `tid` and every delete mark of `tid` removed -/
def eraseTxn (tid : Nat) (rows : List Row) : List Row :=
  rows.map (fun r => { r with versions := r.versions.filter (fun v => v.creator != tid),
                              deleters := r.deleters.filter (fun d => d != tid) })

theorem find_filter_skip {p q : α → Bool} : ∀ (l : List α), (∀ x ∈ l, p x = true → q x = true) →
    (l.filter q).find? p = l.find? p
  | [], _ => rfl
  | x :: xs, h => by
    have ih := find_filter_skip xs (fun y hy => h y (List.mem_cons_of_mem _ hy))
    by_cases hq : q x = true
    · simp only [List.filter_cons, hq, if_true, List.find?_cons, ih]
    · have hp : p x = false := by
        cases hpx : p x with
        | false => rfl
        | true => exact (hq (h x (List.mem_cons_self ..) hpx)).elim
      have hq' : q x = false := by simpa using hq
      simp [hq', hp, ih]

theorem any_filter_skip {p q : α → Bool} : ∀ (l : List α), (∀ x ∈ l, p x = true → q x = true) →
    (l.filter q).any p = l.any p
  | [], _ => rfl
  | x :: xs, h => by
    have ih := any_filter_skip xs (fun y hy => h y (List.mem_cons_of_mem _ hy))
    by_cases hq : q x = true
    · simp only [List.filter_cons, hq, if_true, List.any_cons, ih]
    · have hp : p x = false := by
        cases hpx : p x with
        | false => rfl
        | true => exact (hq (h x (List.mem_cons_self ..) hpx)).elim
      have hq' : q x = false := by simpa using hq
      simp [hq', List.any_cons, hp, ih]

theorem view_eraseTxn (S : Snapshot) (tid : Nat) (rows : List Row) (h : S.sees tid = false) :
    view D0 S (eraseTxn tid rows) = view D0 S rows := by
  unfold view eraseTxn
  rw [List.filterMap_map]
  apply filterMap_congr_mem
  intro r _
  simp only [Function.comp, Row.toARow]
  rw [rowVisible_none, rowVisible_none]
  have h1 : (r.deleters.filter (fun d => d != tid)).any S.sees = r.deleters.any S.sees := by
    apply any_filter_skip
    intro d _ hd
    simp only [bne_iff_ne, ne_eq]
    intro e; subst e; rw [h] at hd; cases hd
  have h2 : (r.versions.filter (fun v => v.creator != tid)).find? (fun v => S.sees v.creator) =
      r.versions.find? (fun v => S.sees v.creator) := by
    apply find_filter_skip
    intro v _ hv
    simp only [bne_iff_ne, ne_eq]
    intro e; rw [e, h] at hv; cases hv
  simp only [h1, h2]

end AxVerif.Db
