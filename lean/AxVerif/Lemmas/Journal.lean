/-
  Invariant of the pre-image journal (Model/Journal.lean) and its consequence: restoring any reachable state gives the
  last checkpoint.
-/
import AxVerif.Model.Journal
namespace AxVerif.Journal

/-- entries describe the checkpoint: page inside it, contents = the checkpoint's -/
def EntryOk (base : Nat) (ckpt : File) (e : Nat × Nat) : Prop := e.1 < base ∧ ckpt[e.1]? = some e.2

structure ActiveInv (s : St) : Prop where
  len : s.ckpt.length = s.base
  le : s.base ≤ s.file.length
  entries : ∀ e ∈ s.saved ++ s.pending, EntryOk s.base s.ckpt e
  untouched : ∀ p, p < s.base → durablySaved s p = false → s.file[p]? = s.ckpt[p]?
  leS : s.base ≤ s.synced.length
  untouchedS : ∀ p, p < s.base → durablySaved s p = false → s.synced[p]? = s.ckpt[p]?

/-- modes in which the journal says "the file is a checkpoint" -/
def settled (m : Mode) : Prop := m = .done ∨ m = .dropped ∨ m = .emptied

def Inv (s : St) : Prop :=
  (s.mode = .active → ActiveInv s) ∧ (s.mode ≠ .active → s.file = s.ckpt) ∧
  (s.dirty = false → s.synced = s.file) ∧ (settled s.mode → s.dirty = false)

theorem inv_init : Inv init :=
  ⟨fun h => (by cases h), fun _ => rfl, fun _ => rfl, fun h => by rcases h with h | h | h <;> cases h⟩

theorem writePage_length_ge (f : File) (p v : Nat) : f.length ≤ (writePage f p v).length := by
  unfold writePage; split
  · simp
  · simp

theorem writePage_getElem?_ne (f : File) (p v q : Nat) (hq : q < f.length) (hne : q ≠ p) :
    (writePage f p v)[q]? = f[q]? := by
  unfold writePage; split
  · rw [List.getElem?_set]; simp [Ne.symm hne]
  · rw [List.append_assoc, List.getElem?_append_left hq]

theorem writePage_getElem?_eq (f : File) (p v : Nat) (hp : p < f.length) :
    (writePage f p v)[p]? = some v := by
  unfold writePage; simp [hp]

theorem any_fst_iff (l : List (Nat × Nat)) (p : Nat) :
    l.any (fun e => e.1 == p) = true ↔ ∃ e ∈ l, e.1 = p := by
  simp [List.any_eq_true]

theorem step_inv (s : St) (e : Ev) (h : Inv s) (ha : allowed s e = true) : Inv (step s e) := by
  obtain ⟨hact, hoth, hsyn, hset⟩ := h
  cases e with
  | start b =>
    simp only [allowed, Bool.and_eq_true, beq_iff_eq, Bool.not_eq_true'] at ha
    obtain ⟨⟨_, hb⟩, hd⟩ := ha
    have hsf : s.synced = s.file := hsyn hd
    refine ⟨fun _ => ?_, fun hne => by simp [step] at hne, by simpa [step] using hsyn,
            fun hst => by rcases hst with h | h | h <;> simp [step] at h⟩
    exact { len := by simp [step, hb], le := by simp [step, hb],
            entries := by intro e he; simp [step] at he,
            untouched := by intro p _ _; simp [step],
            leS := by simp [step, hb, hsf],
            untouchedS := by intro p _ _; simp [step, hsf] }
  | save p =>
    simp only [allowed, Bool.and_eq_true, beq_iff_eq, decide_eq_true_eq, Bool.not_eq_true'] at ha
    obtain ⟨⟨hm, hp⟩, hj⟩ := ha
    have A := hact hm
    refine ⟨fun _ => ?_, fun hne => by simp [step, hm] at hne, by simpa [step] using hsyn,
            fun hst => by rcases hst with h | h | h <;> simp [step, hm] at h⟩
    have hds : durablySaved s p = false := by
      cases hd : durablySaved s p with
      | false => rfl
      | true =>
        have : journaled s p = true := by
          unfold journaled durablySaved at *
          rw [List.any_append, hd]; rfl
        rw [this] at hj; cases hj
    have hfile : s.file[p]? = s.ckpt[p]? := A.untouched p hp hds
    have hlt : p < s.file.length := Nat.lt_of_lt_of_le hp A.le
    exact {
      len := by simpa [step] using A.len
      le := by simpa [step] using A.le
      entries := by
        intro e he
        simp only [step, List.mem_append, List.mem_singleton] at he
        rcases he with he | he | he
        · exact A.entries e (List.mem_append.mpr (Or.inl he))
        · exact A.entries e (List.mem_append.mpr (Or.inr he))
        · subst he
          refine ⟨hp, ?_⟩
          show s.ckpt[p]? = some (s.file.getD p 0)
          rw [← hfile]; simp [List.getD, hlt]
      untouched := by
        intro q hq hd
        simpa [step] using A.untouched q hq (by simpa [step, durablySaved] using hd)
      leS := by simpa [step] using A.leS
      untouchedS := by
        intro q hq hd
        simpa [step] using A.untouchedS q hq (by simpa [step, durablySaved] using hd) }
  | jsync =>
    refine ⟨fun hm => ?_, fun hne => by simpa [step] using hoth (by simpa [step] using hne),
            by simpa [step] using hsyn, fun hst => by simpa [step] using hset (by simpa [step] using hst)⟩
    have hm' : s.mode = .active := by simpa [step] using hm
    have A := hact hm'
    have weaker : ∀ q, durablySaved (step s .jsync) q = false → durablySaved s q = false := by
      intro q hd
      unfold durablySaved at *
      simp only [step, List.any_append, Bool.or_eq_false_iff] at hd
      exact hd.1
    exact {
      len := by simpa [step] using A.len
      le := by simpa [step] using A.le
      entries := by
        intro e he
        have : e ∈ s.saved ++ s.pending := by simpa [step] using he
        exact A.entries e this
      untouched := by
        intro q hq hd
        simpa [step] using A.untouched q hq (weaker q hd)
      leS := by simpa [step] using A.leS
      untouchedS := by
        intro q hq hd
        simpa [step] using A.untouchedS q hq (weaker q hd) }
  | write p v =>
    simp only [allowed, Bool.or_eq_true, Bool.and_eq_true, beq_iff_eq, decide_eq_true_eq] at ha
    by_cases hf : s.mode = .fresh
    · refine ⟨fun hm => by simp [step, hf] at hm, fun _ => by simp [step, hf], fun hd => by simp [step, hf] at hd,
              fun hst => by rcases hst with h | h | h <;> simp [step, hf] at h⟩
    · have hm : s.mode = .active := by
        rcases ha with ha | ha
        · exact absurd ha hf
        · exact ha.1
      have hcov : s.base ≤ p ∨ durablySaved s p = true := by
        rcases ha with ha | ha
        · exact absurd ha hf
        · exact ha.2
      have A := hact hm
      have hstep : step s (.write p v) = { s with file := writePage s.file p v, dirty := true } := by
        simp [step, hm]
      rw [hstep]
      refine ⟨fun _ => ?_, fun hne => by simp [hm] at hne, fun hd => by simp at hd,
              fun hst => by rcases hst with h | h | h <;> simp [hm] at h⟩
      exact {
        len := A.len
        le := Nat.le_trans A.le (writePage_length_ge _ _ _)
        entries := A.entries
        untouched := by
          intro q hq hd
          have hd' : durablySaved s q = false := hd
          have hq : q < s.base := hq
          have hne : q ≠ p := by
            rcases hcov with hc | hc
            · omega
            · intro h; subst h; rw [hc] at hd'; cases hd'
          show (writePage s.file p v)[q]? = s.ckpt[q]?
          rw [writePage_getElem?_ne _ _ _ _ (Nat.lt_of_lt_of_le hq A.le) hne]
          exact A.untouched q hq hd'
        leS := A.leS
        untouchedS := A.untouchedS }
  | dsync =>
    refine ⟨fun hm => ?_, fun hne => by simpa [step] using hoth (by simpa [step] using hne),
            fun _ => by simp [step], fun _ => by simp [step]⟩
    have hm' : s.mode = .active := by simpa [step] using hm
    have A := hact hm'
    exact {
      len := by simpa [step] using A.len
      le := by simpa [step] using A.le
      entries := by intro e he; exact A.entries e (by simpa [step] using he)
      untouched := by
        intro q hq hd
        simpa [step] using A.untouched q hq (by simpa [step, durablySaved] using hd)
      leS := by simpa [step] using A.le
      untouchedS := by
        intro q hq hd
        simpa [step] using A.untouched q hq (by simpa [step, durablySaved] using hd) }
  | done =>
    simp only [allowed, Bool.and_eq_true, beq_iff_eq, Bool.not_eq_true'] at ha
    refine ⟨fun hm => by simp [step] at hm, fun _ => by simp [step], by simpa [step] using hsyn,
            fun _ => by simpa [step] using ha.2⟩
  | dropLog =>
    simp only [allowed, beq_iff_eq] at ha
    refine ⟨fun hm => by simp [step] at hm, fun _ => ?_, by simpa [step] using hsyn,
            fun _ => by simpa [step] using hset (Or.inl ha)⟩
    simpa [step] using hoth (by simp [ha])
  | empty =>
    simp only [allowed, beq_iff_eq] at ha
    refine ⟨fun hm => by simp [step] at hm, fun _ => ?_, by simpa [step] using hsyn,
            fun _ => by simpa [step] using hset (Or.inr (Or.inl ha))⟩
    simpa [step] using hoth (by simp [ha])

theorem run_inv : ∀ (es : List Ev) (s s' : St), Inv s → run s es = some s' → Inv s'
  | [], s, s', h, hr => by simp [run] at hr; subst hr; exact h
  | e :: es, s, s', h, hr => by
    simp only [run] at hr
    split at hr
    · rename_i ha; exact run_inv es _ _ (step_inv s e h ha) hr
    · cases hr

/-- copying back entries that describe the checkpoint makes every checkpointed page right -/
theorem copy_back (base : Nat) (ckpt : File) :
    ∀ (es : List (Nat × Nat)) (f : File), base ≤ f.length → (∀ e ∈ es, EntryOk base ckpt e) →
      (∀ p, p < base → (∃ e ∈ es, e.1 = p) ∨ f[p]? = ckpt[p]?) →
      base ≤ (es.foldl (fun f e => writePage f e.1 e.2) f).length ∧
      ∀ p, p < base → (es.foldl (fun f e => writePage f e.1 e.2) f)[p]? = ckpt[p]?
  | [], f, hle, _, hcov => by
    refine ⟨hle, fun p hp => ?_⟩
    rcases hcov p hp with ⟨e, he, _⟩ | h
    · cases he
    · exact h
  | e :: es, f, hle, hok, hcov => by
    simp only [List.foldl_cons]
    have heok := hok e (List.mem_cons_self)
    have hlt : e.1 < f.length := Nat.lt_of_lt_of_le heok.1 hle
    apply copy_back base ckpt es (writePage f e.1 e.2)
      (Nat.le_trans hle (writePage_length_ge _ _ _))
      (fun e' he' => hok e' (List.mem_cons_of_mem _ he'))
    intro p hp
    by_cases hin : ∃ e' ∈ es, e'.1 = p
    · exact Or.inl hin
    · right
      by_cases hpe : p = e.1
      · subst hpe; rw [writePage_getElem?_eq _ _ _ hlt]; exact heok.2.symm
      · rw [writePage_getElem?_ne _ _ _ _ (Nat.lt_of_lt_of_le hp hle) hpe]
        rcases hcov p hp with ⟨e', he', hp'⟩ | h
        · rcases List.mem_cons.mp he' with h1 | h1
          · subst h1; exact absurd hp'.symm hpe
          · exact absurd ⟨e', h1, hp'⟩ hin
        · exact h

theorem restore_of_inv (s : St) (h : Inv s) (k : Nat) : restore s k = s.ckpt := by
  obtain ⟨hact, hoth, _, _⟩ := h
  by_cases hm : s.mode = .active
  · have A := hact hm
    have hsub : ∀ e ∈ s.saved ++ s.pending.take k, e ∈ s.saved ++ s.pending := by
      intro e he
      rcases List.mem_append.mp he with h1 | h1
      · exact List.mem_append.mpr (Or.inl h1)
      · exact List.mem_append.mpr (Or.inr (List.mem_of_mem_take h1))
    have hcb := copy_back s.base s.ckpt (s.saved ++ s.pending.take k) s.file A.le
      (fun e he => A.entries e (hsub e he))
      (fun p hp => by
        cases hd : durablySaved s p with
        | false => exact Or.inr (A.untouched p hp hd)
        | true =>
          left
          obtain ⟨e, he, hpe⟩ := (any_fst_iff s.saved p).mp hd
          exact ⟨e, List.mem_append.mpr (Or.inl he), hpe⟩)
    simp only [restore, hm]
    apply List.ext_getElem?
    intro p
    by_cases hp : p < s.base
    · rw [List.getElem?_take_of_lt hp]; exact hcb.2 p hp
    · have hp' : s.base ≤ p := Nat.le_of_not_lt hp
      rw [List.getElem?_eq_none (by simp; omega), List.getElem?_eq_none (by rw [A.len]; exact hp')]
  · have : restore s k = s.file := by
      unfold restore
      cases hmm : s.mode <;> simp_all
    rw [this]; exact hoth hm

theorem getElem?_isSome_lt {α : Type} (l : List α) (p : Nat) (a : α) (h : l[p]? = some a) : p < l.length := by
  by_cases hp : p < l.length
  · exact hp
  · rw [List.getElem?_eq_none (Nat.le_of_not_lt hp)] at h; cases h

/-- crash model B: the crash image of the database file may have lost any of the writes since the file's last fsync -/
theorem restoreFrom_of_inv (s : St) (h : Inv s) (hnf : s.mode ≠ .fresh) (g : File) (hg : CrashImage s g) (k : Nat) :
    restoreFrom s g k = s.ckpt := by
  obtain ⟨hact, hoth, hsyn, hset⟩ := h
  by_cases hm : s.mode = .active
  · have A := hact hm
    have hsub : ∀ e ∈ s.saved ++ s.pending.take k, e ∈ s.saved ++ s.pending := by
      intro e he
      rcases List.mem_append.mp he with h1 | h1
      · exact List.mem_append.mpr (Or.inl h1)
      · exact List.mem_append.mpr (Or.inr (List.mem_of_mem_take h1))
    -- every checkpointed page is present in the crash image
    have hsome : ∀ p, p < s.base → p < g.length := by
      intro p hp
      have h1 : p < s.file.length := Nat.lt_of_lt_of_le hp A.le
      have h2 : p < s.synced.length := Nat.lt_of_lt_of_le hp A.leS
      rcases hg p with hgp | hgp
      · rw [List.getElem?_eq_getElem h1] at hgp; exact getElem?_isSome_lt g p _ hgp
      · rw [List.getElem?_eq_getElem h2] at hgp; exact getElem?_isSome_lt g p _ hgp
    have hle : s.base ≤ g.length := by
      cases hb : s.base with
      | zero => exact Nat.zero_le _
      | succ n => have := hsome n (by omega); omega
    have hcb := copy_back s.base s.ckpt (s.saved ++ s.pending.take k) g hle
      (fun e he => A.entries e (hsub e he))
      (fun p hp => by
        cases hd : durablySaved s p with
        | false =>
          right
          rcases hg p with hgp | hgp
          · rw [hgp]; exact A.untouched p hp hd
          · rw [hgp]; exact A.untouchedS p hp hd
        | true =>
          left
          obtain ⟨e, he, hpe⟩ := (any_fst_iff s.saved p).mp hd
          exact ⟨e, List.mem_append.mpr (Or.inl he), hpe⟩)
    simp only [restoreFrom, hm]
    apply List.ext_getElem?
    intro p
    by_cases hp : p < s.base
    · rw [List.getElem?_take_of_lt hp]; exact hcb.2 p hp
    · have hp' : s.base ≤ p := Nat.le_of_not_lt hp
      rw [List.getElem?_eq_none (by simp; omega), List.getElem?_eq_none (by rw [A.len]; exact hp')]
  · have hst : settled s.mode := by
      unfold settled
      cases hmm : s.mode <;> simp_all
    have hsf : s.synced = s.file := hsyn (hset hst)
    have hgf : g = s.file := by
      apply List.ext_getElem?
      intro p
      rcases hg p with hgp | hgp
      · exact hgp
      · rw [hgp, hsf]
    have : restoreFrom s g k = g := by
      unfold restoreFrom
      cases hmm : s.mode <;> simp_all
    rw [this, hgf]; exact hoth hm

end AxVerif.Journal
